// entity_gen.go generates a Lean 4 file with the tables used by Go's
// html.UnescapeString: the maps `entity` and `entity2` (html/entity.go), the
// constant longestEntityWithoutSemicolon (html/entity.go) and the array
// replacementTable (html/escape.go).
//
// Usage: go run entity_gen.go <out.lean>
//
// Only the standard library is used.  The Go sources are located through
// runtime.GOROOT() (with `go env GOROOT` as a fallback).
package main

import (
	"bytes"
	"fmt"
	"go/ast"
	"go/parser"
	"go/token"
	"os"
	"os/exec"
	"path/filepath"
	"runtime"
	"sort"
	"strconv"
	"strings"
	"unicode/utf8"
)

const chunkSize = 200

func die(format string, a ...any) {
	fmt.Fprintf(os.Stderr, "entity_gen: "+format+"\n", a...)
	os.Exit(1)
}

func goroot() string {
	if r := runtime.GOROOT(); r != "" {
		if _, err := os.Stat(filepath.Join(r, "src", "html", "entity.go")); err == nil {
			return r
		}
	}
	out, err := exec.Command("go", "env", "GOROOT").Output()
	if err != nil {
		die("cannot locate GOROOT: %v", err)
	}
	return strings.TrimSpace(string(out))
}

func str(e ast.Expr) string {
	bl, ok := e.(*ast.BasicLit)
	if !ok || bl.Kind != token.STRING {
		die("expected string literal, got %T", e)
	}
	s, err := strconv.Unquote(bl.Value)
	if err != nil {
		die("bad string literal %s: %v", bl.Value, err)
	}
	return s
}

func char(e ast.Expr) rune {
	bl, ok := e.(*ast.BasicLit)
	if !ok || bl.Kind != token.CHAR {
		die("expected char literal, got %T", e)
	}
	v := bl.Value
	if len(v) < 3 || v[0] != '\'' || v[len(v)-1] != '\'' {
		die("bad char literal %s", v)
	}
	r, _, tail, err := strconv.UnquoteChar(v[1:len(v)-1], '\'')
	if err != nil || tail != "" {
		die("bad char literal %s: %v", v, err)
	}
	return r
}

type ent1 struct {
	name string
	r    rune
}
type ent2 struct {
	name   string
	r0, r1 rune
}

func parseFile(path string) *ast.File {
	fset := token.NewFileSet()
	f, err := parser.ParseFile(fset, path, nil, 0)
	if err != nil {
		die("parse %s: %v", path, err)
	}
	return f
}

func main() {
	if len(os.Args) != 2 {
		die("usage: go run entity_gen.go <out.lean>")
	}
	root := goroot()
	entityPath := filepath.Join(root, "src", "html", "entity.go")
	escapePath := filepath.Join(root, "src", "html", "escape.go")

	var e1 []ent1
	var e2 []ent2
	longest := -1
	seen1, seen2 := false, false

	ef := parseFile(entityPath)
	ast.Inspect(ef, func(n ast.Node) bool {
		switch n := n.(type) {
		case *ast.ValueSpec:
			for i, id := range n.Names {
				if id.Name == "longestEntityWithoutSemicolon" && i < len(n.Values) {
					bl, ok := n.Values[i].(*ast.BasicLit)
					if !ok || bl.Kind != token.INT {
						die("longestEntityWithoutSemicolon is not an int literal")
					}
					v, err := strconv.Atoi(bl.Value)
					if err != nil {
						die("longestEntityWithoutSemicolon: %v", err)
					}
					longest = v
				}
			}
		case *ast.AssignStmt:
			if len(n.Lhs) != 1 || len(n.Rhs) != 1 {
				return true
			}
			id, ok := n.Lhs[0].(*ast.Ident)
			if !ok {
				return true
			}
			cl, ok := n.Rhs[0].(*ast.CompositeLit)
			if !ok {
				return true
			}
			switch id.Name {
			case "entity":
				seen1 = true
				for _, el := range cl.Elts {
					kv := el.(*ast.KeyValueExpr)
					e1 = append(e1, ent1{str(kv.Key), char(kv.Value)})
				}
			case "entity2":
				seen2 = true
				for _, el := range cl.Elts {
					kv := el.(*ast.KeyValueExpr)
					v, ok := kv.Value.(*ast.CompositeLit)
					if !ok || len(v.Elts) != 2 {
						die("entity2 value is not a 2-element literal")
					}
					e2 = append(e2, ent2{str(kv.Key), char(v.Elts[0]), char(v.Elts[1])})
				}
			}
		}
		return true
	})
	if !seen1 || !seen2 || longest < 0 {
		die("did not find entity/entity2/longestEntityWithoutSemicolon in %s", entityPath)
	}

	var repl []rune
	sf := parseFile(escapePath)
	ast.Inspect(sf, func(n ast.Node) bool {
		vs, ok := n.(*ast.ValueSpec)
		if !ok {
			return true
		}
		for i, id := range vs.Names {
			if id.Name == "replacementTable" && i < len(vs.Values) {
				cl, ok := vs.Values[i].(*ast.CompositeLit)
				if !ok {
					die("replacementTable is not a composite literal")
				}
				for _, el := range cl.Elts {
					repl = append(repl, char(el))
				}
			}
		}
		return true
	})
	if len(repl) != 32 {
		die("replacementTable has %d entries, want 32", len(repl))
	}

	sort.Slice(e1, func(i, j int) bool { return e1[i].name < e1[j].name })
	sort.Slice(e2, func(i, j int) bool { return e2[i].name < e2[j].name })

	// Sanity checks that the Lean model relies on.
	maxNoSemi := 0
	for i, e := range e1 {
		if i > 0 && e1[i-1].name == e.name {
			die("duplicate entity key %q", e.name)
		}
		checkName(e.name)
		if e.r <= 0 || !utf8.ValidRune(e.r) {
			die("entity %q has value %d (must be a non-zero valid rune)", e.name, e.r)
		}
		if !strings.HasSuffix(e.name, ";") && len(e.name) > maxNoSemi {
			maxNoSemi = len(e.name)
		}
		// The in-place rewriting in UnescapeString is only correct if the
		// replacement is never longer than the consumed text "&"+name.
		if utf8.RuneLen(e.r) > 1+len(e.name) {
			die("entity %q expands", e.name)
		}
	}
	for i, e := range e2 {
		if i > 0 && e2[i-1].name == e.name {
			die("duplicate entity2 key %q", e.name)
		}
		checkName(e.name)
		if e.r0 <= 0 || !utf8.ValidRune(e.r0) || e.r1 < 0 || !utf8.ValidRune(e.r1) {
			die("entity2 %q has a bad value", e.name)
		}
		if utf8.RuneLen(e.r0)+utf8.RuneLen(e.r1) > 1+len(e.name) {
			die("entity2 %q expands", e.name)
		}
	}
	if maxNoSemi != longest {
		die("longestEntityWithoutSemicolon = %d but the longest such key has length %d", longest, maxNoSemi)
	}

	var b bytes.Buffer
	fmt.Fprintf(&b, "/- GENERATED by entity_gen.go from $GOROOT/src/html/{entity.go,escape.go} (%s). DO NOT EDIT. -/\n", runtime.Version())
	b.WriteString("namespace LC.Gen.Html\n\n")

	b.WriteString("/-- Go: `const longestEntityWithoutSemicolon` (html/entity.go). -/\n")
	fmt.Fprintf(&b, "def longestEntityWithoutSemicolon : Nat := %d\n\n", longest)

	b.WriteString("/-- Go: `var replacementTable` (html/escape.go); entry `k` replaces code point `0x80 + k`. -/\n")
	b.WriteString("def replacementTable : Array Nat := #[\n")
	for i, r := range repl {
		sep := ","
		if i == len(repl)-1 {
			sep = ""
		}
		fmt.Fprintf(&b, "  0x%04X%s\n", r, sep)
	}
	b.WriteString("]\n\n")

	// entity
	n1 := emitChunks(&b, "entitiesChunk", "Array (String × Nat)", len(e1), func(i int) string {
		return fmt.Sprintf("(%s, 0x%X)", leanStr(e1[i].name), e1[i].r)
	})
	fmt.Fprintf(&b, "/-- Go: map `entity` (html/entity.go), %d entries, sorted byte-wise by name. -/\n", len(e1))
	b.WriteString("def entities : Array (String × Nat) :=\n  " + joinChunks("entitiesChunk", n1) + "\n\n")

	// entity2
	n2 := emitChunks(&b, "entities2Chunk", "Array (String × Nat × Nat)", len(e2), func(i int) string {
		return fmt.Sprintf("(%s, 0x%X, 0x%X)", leanStr(e2[i].name), e2[i].r0, e2[i].r1)
	})
	fmt.Fprintf(&b, "/-- Go: map `entity2` (html/entity.go), %d entries, sorted byte-wise by name. -/\n", len(e2))
	b.WriteString("def entities2 : Array (String × Nat × Nat) :=\n  " + joinChunks("entities2Chunk", n2) + "\n\n")

	fmt.Fprintf(&b, "/-- Number of entries of `entities` (for sanity checks). -/\ndef entitiesSize : Nat := %d\n", len(e1))
	fmt.Fprintf(&b, "/-- Number of entries of `entities2` (for sanity checks). -/\ndef entities2Size : Nat := %d\n\n", len(e2))
	b.WriteString("end LC.Gen.Html\n")

	if err := os.WriteFile(os.Args[1], b.Bytes(), 0o644); err != nil {
		die("%v", err)
	}
	fmt.Fprintf(os.Stderr, "entity_gen: wrote %s: %d entities, %d entities2, longest=%d\n", os.Args[1], len(e1), len(e2), longest)
}

// checkName enforces the shape of keys the Lean model relies on: ASCII
// letters/digits, optionally followed by a single ';'.
func checkName(name string) {
	body := strings.TrimSuffix(name, ";")
	if body == "" {
		die("empty entity name %q", name)
	}
	for i := 0; i < len(body); i++ {
		c := body[i]
		if !('a' <= c && c <= 'z' || 'A' <= c && c <= 'Z' || '0' <= c && c <= '9') {
			die("entity name %q contains a non-alphanumeric byte", name)
		}
	}
}

func leanStr(s string) string {
	// Names are ASCII alphanumerics and ';' (checked by checkName), so no
	// escaping is required.
	return "\"" + s + "\""
}

func emitChunks(b *bytes.Buffer, prefix, typ string, n int, item func(int) string) int {
	chunks := 0
	for lo := 0; lo < n; lo += chunkSize {
		hi := lo + chunkSize
		if hi > n {
			hi = n
		}
		fmt.Fprintf(b, "def %s%d : %s := #[\n", prefix, chunks, typ)
		for i := lo; i < hi; i++ {
			sep := ","
			if i == hi-1 {
				sep = ""
			}
			fmt.Fprintf(b, "  %s%s\n", item(i), sep)
		}
		b.WriteString("]\n\n")
		chunks++
	}
	return chunks
}

func joinChunks(prefix string, n int) string {
	if n == 0 {
		return "#[]"
	}
	parts := make([]string, n)
	for i := range parts {
		parts[i] = prefix + strconv.Itoa(i)
	}
	return strings.Join(parts, " ++\n  ")
}
