// difftest.go generates test strings for html.UnescapeString from a fixed seed
// and writes
//
//	in.hex            one lower-case hex string per line (the input bytes)
//	expect.hex        hex of html.UnescapeString(input)
//	in_valid.hex      the subset of in.hex that is valid UTF-8
//	expect_valid.hex  the matching expected outputs
//	expect_decode.hex hex of string([]rune(input)) for every line of in.hex
//	                  (checks the model's UTF-8 decoder, `unesc decode`)
//
// Usage: go run difftest.go [dir]     (default dir ".")
//
// Only the standard library is used; the entity names are read from
// $GOROOT/src/html/entity.go with go/parser.
package main

import (
	"bufio"
	"encoding/hex"
	"fmt"
	"go/ast"
	"go/parser"
	"go/token"
	"html"
	"math/rand"
	"os"
	"os/exec"
	"path/filepath"
	"runtime"
	"sort"
	"strconv"
	"strings"
	"unicode/utf8"
)

const seed = 20260929

func die(format string, a ...any) {
	fmt.Fprintf(os.Stderr, "difftest: "+format+"\n", a...)
	os.Exit(1)
}

func goroot() string {
	if r := runtime.GOROOT(); r != "" {
		if _, err := os.Stat(filepath.Join(r, "src", "html", "entity.go")); err == nil {
			return r
		}
	}
	out, err := exec.Command("go", "env", "GOROOT").Output()
	if err != nil {
		die("cannot locate GOROOT: %v", err)
	}
	return strings.TrimSpace(string(out))
}

// entityNames returns all keys of the maps entity and entity2, sorted.
func entityNames() []string {
	path := filepath.Join(goroot(), "src", "html", "entity.go")
	f, err := parser.ParseFile(token.NewFileSet(), path, nil, 0)
	if err != nil {
		die("%v", err)
	}
	set := map[string]bool{}
	ast.Inspect(f, func(n ast.Node) bool {
		as, ok := n.(*ast.AssignStmt)
		if !ok || len(as.Lhs) != 1 || len(as.Rhs) != 1 {
			return true
		}
		id, ok := as.Lhs[0].(*ast.Ident)
		if !ok || (id.Name != "entity" && id.Name != "entity2") {
			return true
		}
		cl, ok := as.Rhs[0].(*ast.CompositeLit)
		if !ok {
			return true
		}
		for _, el := range cl.Elts {
			kv := el.(*ast.KeyValueExpr)
			s, err := strconv.Unquote(kv.Key.(*ast.BasicLit).Value)
			if err != nil {
				die("%v", err)
			}
			set[s] = true
		}
		return true
	})
	var names []string
	for s := range set {
		names = append(names, s)
	}
	sort.Strings(names)
	if len(names) < 2000 {
		die("only %d entity names found", len(names))
	}
	return names
}

var (
	rng    = rand.New(rand.NewSource(seed))
	tests  []string
	seen   = map[string]bool{}
	names  []string
	alnum  = "abcdefghijklmnopqrstuvwxyzABCDEFGHIJKLMNOPQRSTUVWXYZ0123456789"
	tails  = []string{"", ";", "a", "Z", "0", "9", "x;", "=", "=1", " ", "&", "&amp;", ";;", "\xff", "é", "#", "&#", "\x00"}
	digits = "0123456789"
	hexds  = "0123456789abcdefABCDEF"
)

func add(s string) {
	// The transport is hex, so newlines etc. are ordinary bytes.
	if !seen[s] {
		seen[s] = true
		tests = append(tests, s)
	}
}

func randFrom(set string, n int) string {
	b := make([]byte, n)
	for i := range b {
		b[i] = set[rng.Intn(len(set))]
	}
	return string(b)
}

func randBytes(n int) string {
	b := make([]byte, n)
	for i := range b {
		b[i] = byte(rng.Intn(256))
	}
	return string(b)
}

// Bytes biased towards the characters that matter for the algorithm.
func spicyBytes(n int) string {
	const spice = "&&&&##;;xX0123456789abcdefABCDEFgGzZ =\x00\x7f\x80\xbf\xc2\xe2\x82\xac\xf0\xff"
	b := make([]byte, n)
	for i := range b {
		if rng.Intn(4) == 0 {
			b[i] = byte(rng.Intn(256))
		} else {
			b[i] = spice[rng.Intn(len(spice))]
		}
	}
	return string(b)
}

func randRune() rune {
	switch rng.Intn(5) {
	case 0:
		return rune(rng.Intn(0x80))
	case 1:
		return rune(0x80 + rng.Intn(0x800-0x80))
	case 2:
		r := rune(0x800 + rng.Intn(0x10000-0x800))
		if 0xD800 <= r && r <= 0xDFFF {
			r = 0xFFFD
		}
		return r
	case 3:
		return rune(0x10000 + rng.Intn(0x110000-0x10000))
	default:
		return []rune{'&', ';', '#', 'x', 'é', '€', '𝔄', 0xFFFD, 0x10FFFF, 0x7FF, 0x800, 0xFFFF, 0x10000}[rng.Intn(13)]
	}
}

func randValidText(n int) string {
	var sb strings.Builder
	for i := 0; i < n; i++ {
		sb.WriteRune(randRune())
	}
	return sb.String()
}

// interesting code points for numeric references
var codePoints = []int64{
	0, 1, 9, 10, 13, 32, 38, 59, 65, 127, 128, 129, 0x8D, 0x9F, 0xA0, 0xFF, 0x100, 0x7FF, 0x800,
	0xD7FF, 0xD800, 0xDBFF, 0xDC00, 0xDFFF, 0xE000, 0xFFFD, 0xFFFE, 0xFFFF, 0x10000, 0x10FFFF, 0x110000,
	0x7FFFFFFF, 0x80000000, 0x80000001, 0xFFFFFFFF, 0x100000000, 0x100000041, 0x100000080, 0x10000D800,
	0x1FFFFFFFF, 0x200000026, 0x7FFFFFFFFFFFFFFF,
}

func numericRef() string {
	var sb strings.Builder
	sb.WriteString("&#")
	hexa := rng.Intn(2) == 0
	if hexa {
		sb.WriteString([]string{"x", "X"}[rng.Intn(2)])
	}
	switch rng.Intn(6) {
	case 0: // nothing
	case 1: // short random digits
		if hexa {
			sb.WriteString(randFrom(hexds, 1+rng.Intn(6)))
		} else {
			sb.WriteString(randFrom(digits, 1+rng.Intn(7)))
		}
	case 2: // very long digit strings -> int32 overflow
		n := 8 + rng.Intn(40)
		if hexa {
			sb.WriteString(randFrom(hexds, n))
		} else {
			sb.WriteString(randFrom(digits, n))
		}
	case 3: // interesting code point, possibly with leading zeros
		cp := codePoints[rng.Intn(len(codePoints))]
		sb.WriteString(strings.Repeat("0", rng.Intn(4)))
		if hexa {
			s := strconv.FormatInt(cp, 16)
			if rng.Intn(2) == 0 {
				s = strings.ToUpper(s)
			}
			sb.WriteString(s)
		} else {
			sb.WriteString(strconv.FormatInt(cp, 10))
		}
	case 4: // any code point near the Windows-1252 window
		cp := int64(0x70 + rng.Intn(0x40))
		if hexa {
			sb.WriteString(strconv.FormatInt(cp, 16))
		} else {
			sb.WriteString(strconv.FormatInt(cp, 10))
		}
	case 5: // value = k*2^32 + small, wraps around to small
		cp := int64(rng.Intn(8))<<32 + int64(rng.Intn(0x120000))
		if hexa {
			sb.WriteString(strconv.FormatInt(cp, 16))
		} else {
			sb.WriteString(strconv.FormatInt(cp, 10))
		}
	}
	sb.WriteString(tails[rng.Intn(len(tails))])
	return sb.String()
}

func namedRef() string {
	name := names[rng.Intn(len(names))]
	base := strings.TrimSuffix(name, ";")
	switch rng.Intn(8) {
	case 0:
		return "&" + name
	case 1:
		return "&" + base
	case 2:
		return "&" + base + ";"
	case 3:
		return "&" + base + randFrom(alnum, 1+rng.Intn(3))
	case 4:
		return "&" + base + randFrom(alnum, 1+rng.Intn(3)) + ";"
	case 5:
		return "&" + base[:rng.Intn(len(base)+1)]
	case 6:
		return "&" + base[:rng.Intn(len(base)+1)] + tails[rng.Intn(len(tails))]
	default:
		// mutate one character
		b := []byte(base)
		b[rng.Intn(len(b))] = alnum[rng.Intn(len(alnum))]
		return "&" + string(b) + tails[rng.Intn(len(tails))]
	}
}

func piece() string {
	switch rng.Intn(12) {
	case 0, 1, 2:
		return namedRef()
	case 3, 4, 5:
		return numericRef()
	case 6:
		return randBytes(1 + rng.Intn(6))
	case 7:
		return spicyBytes(1 + rng.Intn(10))
	case 8:
		return randValidText(1 + rng.Intn(5))
	case 9:
		return randFrom(alnum+" ;&#", 1+rng.Intn(8))
	case 10:
		return fixed[rng.Intn(len(fixed))]
	default:
		return "&" + randFrom(alnum, 1+rng.Intn(40)) + tails[rng.Intn(len(tails))]
	}
}

var fixed = []string{
	"", "&", "&&", "&&&", "&;", "&;;", "& ", " &", "&#", "&#;", "&#x", "&#X", "&#x;", "&#X;", "&#xg", "&#xg;",
	"&#1", "&#1;", "&#1 ", "&#12", "&#12 ", "&#x1", "&#x1 ", "&#x1;", "&#x12", "&#;a", "&#;;", "&# ", "&# 1;",
	"&#0", "&#0;", "&#00", "&#00;", "&#x0", "&#x0;", "&#x00", "&#-1;", "&#+1;", "&#x-1;", "&#xx1;", "&#Xx1;",
	"&#38;", "&#x26;", "&#X26;", "&#38", "&#38;#38;", "&#38;amp;", "&amp;amp;", "&amp;#38;", "&amp;lt;",
	"AT&T", "AT&T;", "AT&amp;T", "AT&ampT", "&&amp;&", "&amp", "&amp;", "&AMP", "&AMP;", "&Amp;", "&aMp;",
	"a&b", "a & b", "a&b;c", "x&lt;y&gt;z", "&lt&gt", "&lt;&gt;", "&ltx", "&lt=", "&lt;=", "?a=1&lt=2&copy=3",
	"&notit;", "&notin;", "&not;in", "&notin", "&no", "&n", "&not", "&nott", "&notinva;", "&notinvaX;",
	"&nGt;", "&nLt;", "&nGg;", "&nGg", "&NotEqualTilde;", "&NotEqualTilde", "&NotEqualTildes;",
	"&CounterClockwiseContourIntegral;", "&CounterClockwiseContourIntegral", "&CounterClockwiseContourIntegralX;",
	"&fjlig;", "&fjlig", "&bne;", "&bnequiv;", "&ThickSpace;", "&acE;", "&acE",
	"&#128;", "&#x80;", "&#x9f;", "&#x9F;", "&#159;", "&#160;", "&#127;", "&#x81;", "&#x8d;",
	"&#xD800;", "&#xDFFF;", "&#xD7FF;", "&#xE000;", "&#x10FFFF;", "&#x110000;", "&#1114111;", "&#1114112;",
	"&#2147483647;", "&#2147483648;", "&#4294967295;", "&#4294967296;", "&#4294967361;", "&#4294967424;",
	"&#x7fffffff;", "&#x80000000;", "&#xffffffff;", "&#x100000000;", "&#x100000041;", "&#x1000000000000041;",
	"&#99999999999999999999999999999999999999;", "&#xffffffffffffffffffffffffffffffff;",
	"&#00000000000000000000000000000000000065;", "&#x00000000000000000000000000000041;",
	"&#65\xff", "&#x41\xff", "&\xff", "\xff&amp;\xff", "\xc3&amp;\xa9", "\xe2\x82&#x80;", "&amp\xc3\xa9",
	"&eacute;é", "é&eacute", "&eacuteé", "日本&amp;語", "\x00&amp;\x00", "&\x00amp;", "&am\x00p;",
	"&amp;\n&lt;\r\n", "&\namp;", "&lt\n", "&#1\n", "&#12\n;",
	"&a", "&a;", "&ab", "&ab;", "&abc", "&GT", "&GT;", "&GTx", "&gtx", "&g", "&gt", "&LT", "&LTT", "&LTTT;",
	"&;amp;", "&#;38;", "&&#38;", "&&#;", "&#&amp;", "&#x&amp;", "&#1&amp;", "&#12&amp;", "&am&amp;p;",
	"&1", "&1;", "&123;", "&frac12", "&frac12;", "&frac123", "&frac1", "&sup1", "&sup12", "&there4;", "&there4", "&there",
}

func main() {
	dir := "."
	if len(os.Args) > 1 {
		dir = os.Args[1]
	}
	names = entityNames()

	for _, s := range fixed {
		add(s)
	}

	// Every entity name: as is, with/without ';', with trailing characters,
	// embedded, and every prefix of the name.
	for _, name := range names {
		base := strings.TrimSuffix(name, ";")
		for _, t := range tails {
			add("&" + base + t)
		}
		add("&" + name)
		add("x&" + name + "y")
		add("&" + name + "&" + name)
		add("&" + base + "&" + base)
		add("&" + base + "q1;")
		add("&" + base + randFrom(alnum, 1+rng.Intn(4)))
		add("&" + base + randFrom(alnum, 1+rng.Intn(4)) + ";")
		add("é&" + name + "€")
		add("\xff&" + base + "\xfe")
		for k := 0; k <= len(base); k++ {
			add("&" + base[:k])
			add("&" + base[:k] + ";")
			add("&" + base[:k] + " ")
		}
		add("&" + strings.ToUpper(base) + ";")
		add("&" + strings.ToLower(base) + ";")
		add("&#" + base + ";")
	}

	// Numeric references: all small values (decimal and hex), with the
	// different terminators.
	for v := 0; v <= 0x2FF; v++ {
		for _, t := range []string{"", ";", " ", "g", "a"} {
			add(fmt.Sprintf("&#%d%s", v, t))
			add(fmt.Sprintf("&#x%x%s", v, t))
			add(fmt.Sprintf("&#X%X%s", v, t))
		}
	}
	for _, cp := range codePoints {
		for d := int64(-2); d <= 2; d++ {
			v := cp + d
			if v < 0 { // also skips int64 overflow
				continue
			}
			for _, t := range []string{"", ";", "z"} {
				add(fmt.Sprintf("&#%d%s", v, t))
				add(fmt.Sprintf("&#x%x%s", v, t))
				add(fmt.Sprintf("&#X%X%s", v, t))
				add(fmt.Sprintf("&#000%d%s", v, t))
			}
		}
	}
	// digit strings of every length up to 45 (overflow of the int32 accumulator)
	for n := 0; n <= 45; n++ {
		for _, d := range []string{"0", "1", "7", "9"} {
			add("&#" + strings.Repeat(d, n))
			add("&#" + strings.Repeat(d, n) + ";")
			add("&#x" + strings.Repeat(d, n) + ";")
		}
		for _, d := range []string{"a", "F", "f"} {
			add("&#x" + strings.Repeat(d, n))
			add("&#X" + strings.Repeat(d, n) + ";")
			add("&#" + strings.Repeat(d, n) + ";")
		}
	}

	for i := 0; i < 30000; i++ {
		add(numericRef())
	}
	for i := 0; i < 30000; i++ {
		add(namedRef())
	}
	for i := 0; i < 15000; i++ {
		add(randBytes(rng.Intn(24)))
		add(spicyBytes(rng.Intn(30)))
		add(randValidText(rng.Intn(12)))
	}
	// random concatenations
	for len(tests) < 260000 {
		var sb strings.Builder
		for k := 1 + rng.Intn(6); k > 0; k-- {
			sb.WriteString(piece())
		}
		add(sb.String())
	}

	write := func(name string, keep func(string) bool, f func(string) string) int {
		fh, err := os.Create(filepath.Join(dir, name))
		if err != nil {
			die("%v", err)
		}
		w := bufio.NewWriter(fh)
		n := 0
		for _, s := range tests {
			if keep(s) {
				w.WriteString(hex.EncodeToString([]byte(f(s))))
				w.WriteByte('\n')
				n++
			}
		}
		if err := w.Flush(); err != nil {
			die("%v", err)
		}
		if err := fh.Close(); err != nil {
			die("%v", err)
		}
		return n
	}
	all := func(string) bool { return true }
	id := func(s string) string { return s }
	n := write("in.hex", all, id)
	write("expect.hex", all, html.UnescapeString)
	nv := write("in_valid.hex", utf8.ValidString, id)
	write("expect_valid.hex", utf8.ValidString, html.UnescapeString)
	write("expect_decode.hex", all, func(s string) string { return string([]rune(s)) })

	changed := 0
	for _, s := range tests {
		if html.UnescapeString(s) != s {
			changed++
		}
	}
	fmt.Printf("difftest: %d test strings (%d valid UTF-8), %d of them changed by UnescapeString; seed %d; %s\n",
		n, nv, changed, seed, runtime.Version())
}
