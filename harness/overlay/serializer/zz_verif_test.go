//go:build verif

package serializer

import (
	"archive/tar"
	"bytes"
	"compress/gzip"
	"fmt"
	"io"
	"sort"
	"strings"
	"sync"
	"testing"
	"time"

	"github.com/google/licenseclassifier"
	"github.com/google/licenseclassifier/stringclassifier"
)

var (
	vfilesOnce sync.Once
	vfiles     []string // the *.txt files shipped under licenses/
)

func vlicenseFiles() []string {
	vfilesOnce.Do(func() {
		ents, err := licenseclassifier.ReadLicenseDir()
		if err != nil {
			panic(err)
		}
		for _, e := range ents {
			if strings.HasSuffix(e.Name(), ".txt") {
				vfiles = append(vfiles, e.Name())
			}
		}
		sort.Strings(vfiles)
	})
	return vfiles
}

func vread(name string) string {
	b, err := licenseclassifier.ReadLicenseFile(name)
	if err != nil {
		panic(err)
	}
	return string(b)
}

// vreadOpt: "" if there is no such file
func vreadOpt(name string) string {
	b, err := licenseclassifier.ReadLicenseFile(name)
	if err != nil {
		return "\x00missing"
	}
	return string(b)
}

func vnormalize(s string) string {
	for _, n := range licenseclassifier.Normalizers {
		s = n(s)
	}
	return s
}

// vcutArchive re-writes a gzip+tar archive keeping its first `keep` entries; returns the entry count of the input.
func vcutArchive(in []byte, keep int) ([]byte, int, error) {
	zr, err := gzip.NewReader(bytes.NewReader(in))
	if err != nil {
		return nil, 0, err
	}
	tr := tar.NewReader(zr)
	var out bytes.Buffer
	zw := gzip.NewWriter(&out)
	tw := tar.NewWriter(zw)
	n := 0
	for {
		hdr, err := tr.Next()
		if err == io.EOF {
			break
		}
		if err != nil {
			return nil, n, err
		}
		body, err := io.ReadAll(tr)
		if err != nil {
			return nil, n, err
		}
		if n < keep {
			if err := tw.WriteHeader(hdr); err != nil {
				return nil, n, err
			}
			if _, err := tw.Write(body); err != nil {
				return nil, n, err
			}
		}
		n++
	}
	if err := tw.Close(); err != nil {
		return nil, n, err
	}
	if err := zw.Close(); err != nil {
		return nil, n, err
	}
	return out.Bytes(), n, nil
}

func varchive(files []string) (*licenseclassifier.License, error) {
	var buf bytes.Buffer
	if err := ArchiveLicenses(files, &buf); err != nil {
		return nil, fmt.Errorf("ArchiveLicenses: %v", err)
	}
	return licenseclassifier.New(licenseclassifier.DefaultConfidenceThreshold, licenseclassifier.ArchiveBytes(buf.Bytes()))
}

func vshow(ms stringclassifier.Matches) string {
	var ps []string
	for _, m := range ms {
		ps = append(ps, fmt.Sprintf("%s|%.9f|%d|%d", m.Name, m.Confidence, m.Offset, m.Extent))
	}
	return strings.Join(ps, ";")
}

// vdirect builds the classifier "directly from the same normalised texts".
func vdirect(files []string) *stringclassifier.Classifier {
	c := stringclassifier.New(licenseclassifier.DefaultConfidenceThreshold, licenseclassifier.Normalizers...)
	for _, f := range files {
		if !strings.HasSuffix(f, ".txt") {
			continue
		}
		c.AddValue(strings.TrimSuffix(f, ".txt"), licenseclassifier.TrimExtraneousTrailingText(vread(f)))
	}
	return c
}

// vdirectMultiple mirrors what License.MultipleMatch does around the string classifier
// (normalise, threshold filter, header filter, forbidden-phrase filter is name-keyed and
// applies to both sides identically because it only looks at the query text).
func vdirectNearest(c *stringclassifier.Classifier, q string) string {
	m := c.NearestMatch(q)
	return fmt.Sprintf("%s|%.9f", strings.TrimSuffix(m.Name, ".header"), m.Confidence)
}

// the names License.MultipleMatch filters by a phrase expected in the query (forbidden.go)
var vforbiddenNames = map[string]bool{
	licenseclassifier.AGPL10: true, licenseclassifier.AGPL30: true,
	licenseclassifier.CCBYNC10: true, licenseclassifier.CCBYNC20: true, licenseclassifier.CCBYNC25: true, licenseclassifier.CCBYNC30: true, licenseclassifier.CCBYNC40: true,
	licenseclassifier.CCBYNCND10: true, licenseclassifier.CCBYNCND20: true, licenseclassifier.CCBYNCND25: true, licenseclassifier.CCBYNCND30: true, licenseclassifier.CCBYNCND40: true,
	licenseclassifier.CCBYNCSA10: true, licenseclassifier.CCBYNCSA20: true, licenseclassifier.CCBYNCSA25: true, licenseclassifier.CCBYNCSA30: true, licenseclassifier.CCBYNCSA40: true,
	licenseclassifier.WTFPL: true,
}

func TestVerifC15(t *testing.T) {
	o := newVout()
	defer o.close()
	r := newVrand(vseed() + 15)
	all := vlicenseFiles()
	nsub, nq := 4, 6
	deadlineSkips := 0
	if vthorough() {
		nsub, nq = 40, 30
	}
	for si := 0; si < nsub; si++ {
		rr := r.fork(uint64(si))
		k := 2 + rr.intn(10)
		if vthorough() && si%10 == 0 {
			k = 40
		}
		perm := map[int]bool{}
		var files []string
		for len(files) < k {
			i := rr.intn(len(all))
			if !perm[i] {
				perm[i] = true
				files = append(files, all[i])
			}
		}
		// names whose last characters are among those of the ".txt" suffix (Sleepycat, Xnet, eGenix …):
		// the name is what is left after removing exactly that suffix
		var edge []string
		for i, f := range all {
			b := strings.TrimSuffix(f, ".txt")
			if !perm[i] && b != f && b != "" && strings.ContainsRune(".tx", rune(b[len(b)-1])) {
				edge = append(edge, f)
			}
		}
		for n := 0; n < 2 && len(edge) > 0; n++ {
			i := rr.intn(len(edge))
			files = append(files, edge[i])
			edge = append(edge[:i], edge[i+1:]...)
			k++
		}
		if si%4 == 0 { // a file with text after the end of the license (trimmed before archiving)
			has := false
			for _, f := range files {
				has = has || f == "Apache-2.0.txt"
			}
			if !has {
				files = append(files, "Apache-2.0.txt")
				k++
			}
		}
		if si%3 != 2 {
			// non-.txt entries are skipped wherever they stand in the list: first, in the middle, last
			at := []int{0, len(files) / 2, len(files)}[rr.intn(3)]
			files = append(files[:at], append([]string{"README.md", "empty.db"}, files[at:]...)...)
		}
		var txt []string
		for _, f := range files {
			if strings.HasSuffix(f, ".txt") {
				txt = append(txt, f)
			}
		}
		lc, err := varchive(files)
		id := fmt.Sprintf("s%d", si)
		if err != nil {
			o.verdict("C15", id, false, true, id, map[string]interface{}{"what": "archive does not load: " + err.Error(), "files": files})
			continue
		}
		dc := vdirect(files)
		what := ""
		// every archived license is present under its file name: its own text is an exact match
		for _, f := range files {
			if !strings.HasSuffix(f, ".txt") || what != "" {
				continue
			}
			// the archive holds the text without what follows an obvious end of the license (Apache-2.0's
			// appendix …): the archived text, not the whole file, is what must match exactly
			txt := licenseclassifier.TrimExtraneousTrailingText(vread(f))
			if m := lc.NearestMatch(txt); m == nil {
				continue // no common license words: the gate is part of License, not of the archive
			} else if m.Confidence != 1.0 {
				what = fmt.Sprintf("archived %s: NearestMatch on its own text gives %s %.4f", f, m.Name, m.Confidence)
			} else if vnormalize(licenseclassifier.TrimExtraneousTrailingText(vreadOpt(m.Name+".txt"))) != vnormalize(licenseclassifier.TrimExtraneousTrailingText(txt)) && vnormalize(licenseclassifier.TrimExtraneousTrailingText(vreadOpt(m.Name+".header.txt"))) != vnormalize(licenseclassifier.TrimExtraneousTrailingText(txt)) {
				what = fmt.Sprintf("archived %s: NearestMatch names %s whose text differs", f, m.Name)
			}
		}
		// same answers as the directly built classifier on queries
		for qi := 0; qi < nq && what == ""; qi++ {
			var q string
			switch qi % 4 {
			case 0:
				q = vread(txt[rr.intn(len(txt))])
			case 1:
				q = vread(all[rr.intn(len(all))]) // possibly not in the archive
			case 2:
				ws := strings.Fields(vread(txt[rr.intn(len(txt))]))
				for j := range ws {
					if rr.chance(1, 15) {
						ws[j] = "zzz"
					}
				}
				q = strings.Join(ws, " ")
			default:
				q = "some text about software rights\n" + vread(txt[rr.intn(len(txt))]) + "\nand a license tail " + vread(txt[rr.intn(len(txt))])
			}
			if len(q) > 5000 {
				q = q[:5000]
			}
			t0 := time.Now()
			m := lc.NearestMatch(q)
			var want string
			if m != nil {
				want = vdirectNearest(dc, q)
			}
			// go-diff gives up after a 1 s internal deadline and then returns a coarser script;
			// such calls are not functions of their inputs (DESIGN §4, DiffSpec.noDeadline): skip them
			if time.Since(t0) > 600*time.Millisecond {
				deadlineSkips++
			} else if m != nil {
				got := fmt.Sprintf("%s|%.9f", m.Name, m.Confidence)
				// equal-confidence ties between different names are not ordered by either side
				if got != want && got[strings.Index(got, "|"):] != want[strings.Index(want, "|"):] {
					what = fmt.Sprintf("query %d: archive-built NearestMatch %s, directly built %s", qi, got, want)
				}
			}
			t1 := time.Now()
			gotM := lc.MultipleMatch(q, true)
			norm := vnormalize(q)
			var wantM stringclassifier.Matches
			seen := map[stringclassifier.Match]bool{}
			for _, v := range dc.MultipleMatch(norm) {
				if !lc.WithinConfidenceThreshold(v.Confidence) {
					continue
				}
				v.Name = strings.TrimSuffix(v.Name, ".header")
				if !seen[*v] {
					seen[*v] = true
					wantM = append(wantM, v)
				}
			}
			sort.Sort(wantM)
			// forbidden-phrase filtering only removes entries; compare on the entries the archive side kept
			keep := map[string]bool{}
			for _, m := range gotM {
				keep[fmt.Sprintf("%s|%d|%d", m.Name, m.Offset, m.Extent)] = true
			}
			var wantKept stringclassifier.Matches
			for _, m := range wantM {
				// only a license with a forbidden-phrase expression can have been filtered out
				if keep[fmt.Sprintf("%s|%d|%d", m.Name, m.Offset, m.Extent)] || !vforbiddenNames[m.Name] {
					wantKept = append(wantKept, m)
				}
			}
			if time.Since(t1) > 1200*time.Millisecond {
				deadlineSkips++
			} else if what == "" && (len(gotM) > 0 || lc.NearestMatch(norm) != nil) && vshow(gotM) != vshow(wantKept) {
				// (NearestMatch == nil: the common-word gate of License, which MultipleMatch applies to the
				// normalised query, rejected it — that gate is not the archive's)
				what = fmt.Sprintf("query %d: archive-built MultipleMatch %s, directly built %s", qi, vshow(gotM), vshow(wantM))
			}
		}
		o.verdict("C15", id, what == "", true, strings.Join(files, ","), map[string]interface{}{"what": what, "files": files})
	}
	// two-license archives in both orders, queried with a lightly edited copy of each license: what the
	// archive stores per license (name, text, search set) must be that license's own, whichever comes last
	pairs := [][2]string{{"MIT.txt", "GPL-3.0.txt"}, {"ISC.txt", "Apache-2.0.txt"}, {"BSD-3-Clause.txt", "MPL-2.0.txt"}}
	for pi, pr := range pairs {
		if !vthorough() && pi != int(vseed()%3) && pi != 0 {
			continue
		}
		for ord := 0; ord < 2; ord++ {
			files := []string{pr[ord], pr[1-ord]}
			id := fmt.Sprintf("pair%d_%d", pi, ord)
			lc, err := varchive(files)
			if err != nil {
				o.verdict("C15", id, false, true, id, map[string]interface{}{"what": "archive does not load: " + err.Error(), "files": files})
				continue
			}
			dc := vdirect(files)
			what := ""
			for _, f := range files {
				ws := strings.Fields(licenseclassifier.TrimExtraneousTrailingText(vread(f)))
				if len(ws) > 900 {
					ws = ws[:900]
				}
				for j := range ws {
					if j%23 == 11 {
						ws[j] = "zzz"
					}
				}
				q := "intro words " + strings.Join(ws, " ")
				t1 := time.Now()
				gotM := lc.MultipleMatch(q, true)
				var wantM stringclassifier.Matches
				for _, v := range dc.MultipleMatch(vnormalize(q)) {
					if lc.WithinConfidenceThreshold(v.Confidence) {
						v.Name = strings.TrimSuffix(v.Name, ".header")
						wantM = append(wantM, v)
					}
				}
				sort.Sort(wantM)
				if time.Since(t1) > 1200*time.Millisecond {
					deadlineSkips++
				} else if what == "" && vshow(gotM) != vshow(wantM) {
					what = fmt.Sprintf("edited %s: archive-built MultipleMatch %s, directly built %s", f, vshow(gotM), vshow(wantM))
				}
			}
			o.verdict("C15", id, what == "", true, id, map[string]interface{}{"what": what, "files": files})
		}
	}
	// duplicate names must be a load error, not a silent overwrite
	_, err := varchive([]string{"MIT.txt", "MIT.txt"})
	o.verdict("C15", "dup", err != nil, true, "dup", map[string]interface{}{"what": "archive with a duplicated license name loaded without error"})
	// an archive with an odd number of entries (cut after a license text, before its hash entry) must be
	// a load error, never a shorter corpus: parse_none_iff_odd (LC/Props/C15Parse.lean) on the real loader
	for _, keep := range []int{1, 3} {
		var full bytes.Buffer
		what := ""
		if err := ArchiveLicenses([]string{"MIT.txt", "Apache-2.0.txt"}, &full); err != nil {
			what = "ArchiveLicenses: " + err.Error()
		} else if cut, n, err := vcutArchive(full.Bytes(), keep); err != nil || n != 4 {
			what = fmt.Sprintf("cannot re-write the archive: %v (entries %d)", err, n)
		} else if _, err := licenseclassifier.New(licenseclassifier.DefaultConfidenceThreshold, licenseclassifier.ArchiveBytes(cut)); err == nil {
			what = fmt.Sprintf("archive cut to %d entries loaded without error", keep)
		}
		o.verdict("C15", fmt.Sprintf("odd%d", keep), what == "", true, fmt.Sprintf("odd%d", keep), map[string]interface{}{"what": what})
	}
	// the same archive re-written whole (4 entries) still loads: the re-writer itself is not what fails
	{
		var full bytes.Buffer
		what := ""
		if err := ArchiveLicenses([]string{"MIT.txt", "Apache-2.0.txt"}, &full); err != nil {
			what = "ArchiveLicenses: " + err.Error()
		} else if cut, _, err := vcutArchive(full.Bytes(), 4); err != nil {
			what = "cannot re-write the archive: " + err.Error()
		} else if _, err := licenseclassifier.New(licenseclassifier.DefaultConfidenceThreshold, licenseclassifier.ArchiveBytes(cut)); err != nil {
			what = "re-written whole archive does not load: " + err.Error()
		}
		o.verdict("C15", "even4", what == "", true, "even4", map[string]interface{}{"what": what})
	}
	// synthetic license files through the ReadLicenseFile variable
	orig := licenseclassifier.ReadLicenseFile
	syn := map[string]string{"Syn-A.txt": "This synthetic license grants rights to use the software.\nAll other terms apply.", "Syn-B.txt": "Another work license: original code terms version two.\n"}
	licenseclassifier.ReadLicenseFile = func(n string) ([]byte, error) {
		if s, ok := syn[n]; ok {
			return []byte(s), nil
		}
		return orig(n)
	}
	lc, err := varchive([]string{"Syn-A.txt", "MIT.txt", "Syn-B.txt"})
	what := ""
	if err != nil {
		what = err.Error()
	} else if m := lc.NearestMatch(syn["Syn-B.txt"]); m == nil || m.Name != "Syn-B" || m.Confidence != 1.0 {
		what = fmt.Sprintf("synthetic Syn-B not found: %+v", m)
	}
	o.verdict("C15", "synthetic", what == "", true, "synthetic", map[string]interface{}{"what": what})
	// license files that leave nothing (or next to nothing) after normalisation — a title and a
	// copyright line, blank lines, punctuation, a shebang line — anywhere in the list: "any set of
	// license files" round-trips, and the licenses around them are still found
	syn["Notice-Only.txt"] = "The MIT License\nCopyright 2019, Example Corp.\n"
	syn["Blank.txt"] = "\n\n"
	syn["Punct.txt"] = "--- *** ---\n"
	syn["Shebang.txt"] = "#!/bin/sh\n"
	syn["One.txt"] = "license\n"
	{
		// a license several times larger than the largest shipped one (its search set serialises to
		// more than a quarter of a megabyte)
		var sb strings.Builder
		for k := 0; k < 9000; k++ {
			fmt.Fprintf(&sb, "term%c%c%c ", 'a'+k/676%26, 'a'+k/26%26, 'a'+k%26)
			if k%12 == 11 {
				sb.WriteString("of the license\n")
			}
		}
		syn["Big.txt"] = sb.String()
	}
	for oi, files := range [][]string{
		{"MIT.txt", "Notice-Only.txt", "ISC.txt"}, {"Notice-Only.txt", "MIT.txt", "ISC.txt"}, {"MIT.txt", "ISC.txt", "Notice-Only.txt"},
		{"Blank.txt", "MIT.txt", "Punct.txt", "ISC.txt", "Shebang.txt"}, {"One.txt", "MIT.txt"}, {"MIT.txt", "Big.txt"}} {
		id := fmt.Sprintf("emptyish%d", oi)
		what := ""
		var lc *licenseclassifier.License
		var err error
		pan, msg := catch(func() { lc, err = varchive(files) })
		if pan {
			what = "panic: " + msg
		} else if err != nil {
			what = "archive does not load: " + err.Error()
		} else {
			dc := vdirect(files)
			for _, f := range []string{"MIT.txt", "ISC.txt", "Big.txt"} {
				has := false
				for _, g := range files {
					has = has || g == f
				}
				if !has || what != "" {
					continue
				}
				txt := vread(f)
				if m := lc.NearestMatch(txt); m == nil || m.Name != strings.TrimSuffix(f, ".txt") || m.Confidence != 1.0 {
					what = fmt.Sprintf("%s not found by NearestMatch on its own text: %+v", f, m)
				}
				ws := strings.Fields(txt)
				for j := range ws {
					if j%19 == 7 {
						ws[j] = "zzz"
					}
				}
				q := strings.Join(ws, " ")
				if f == "Big.txt" {
					// verbatim inside other text: an edited copy of a text this long would send the diff
					// library past its one-second deadline (a coarser script, not a function of the input)
					q = "some intro words about the license " + txt + " and an outro"
				}
				var wantM stringclassifier.Matches
				for _, v := range dc.MultipleMatch(vnormalize(q)) {
					if lc.WithinConfidenceThreshold(v.Confidence) {
						wantM = append(wantM, v)
					}
				}
				sort.Sort(wantM)
				if got := lc.MultipleMatch(q, true); what == "" && vshow(got) != vshow(wantM) {
					what = fmt.Sprintf("edited %s: archive-built MultipleMatch %s, directly built %s", f, vshow(got), vshow(wantM))
				}
			}
		}
		o.verdict("C15", id, what == "", true, id, map[string]interface{}{"what": what, "files": files})
	}
	licenseclassifier.ReadLicenseFile = orig
	o.stat("C15", map[string]interface{}{"subsets": nsub, "queries_per_subset": nq, "skipped_near_go_diff_deadline": deadlineSkips})
}

var (
	vfullOnce sync.Once
	vfull     *licenseclassifier.License
	vfullErr  error
)

func vfullClassifier() (*licenseclassifier.License, error) {
	vfullOnce.Do(func() { vfull, vfullErr = varchive(vlicenseFiles()) })
	return vfull, vfullErr
}

func vvariants(txt string) map[string]string {
	lines := strings.Split(txt, "\n")
	deco := make([]string, len(lines))
	for i, l := range lines {
		deco[i] = "// " + l
	}
	hash := make([]string, len(lines))
	for i, l := range lines {
		hash[i] = "# " + l
	}
	pre := func(m string) string {
		out := make([]string, len(lines))
		for i, l := range lines {
			out[i] = m + l
		}
		return strings.Join(out, "\n")
	}
	return map[string]string{
		"bang":   pre("! "),
		"semi":   pre("; "),
		"dashes": pre("-- "),
		"plain":  txt,
		"upper":  strings.ToUpper(txt),
		"lower":  strings.ToLower(txt),
		"reflow": strings.Join(strings.Fields(txt), " "),
		"spaced": strings.ReplaceAll(txt, " ", "   "),
		"slash":  strings.Join(deco, "\n"),
		"hash":   strings.Join(hash, "\n"),
		"star":   " * " + strings.Join(lines, "\n * "),
		// deep indentation: the raw text is much longer than what the normalisers leave of it
		"indent16": strings.Repeat(" ", 16) + strings.Join(lines, "\n"+strings.Repeat(" ", 16)),
	}
}

func TestVerifC16(t *testing.T) {
	o := newVout()
	defer o.close()
	r := newVrand(vseed() + 16)
	lc, err := vfullClassifier()
	if err != nil {
		o.verdict("C16", "load", false, true, "load", map[string]interface{}{"what": err.Error()})
		return
	}
	all := vlicenseFiles()
	var pick []string
	vars := []string{"plain", "upper", "slash", "indent16"}
	if vthorough() {
		pick = all
		vars = []string{"plain", "upper", "lower", "reflow", "spaced", "slash", "hash", "star", "indent16", "bang", "semi", "dashes"}
	} else {
		for len(pick) < 8 {
			f := all[r.intn(len(all))]
			if len(vread(f)) < 6000 {
				pick = append(pick, f)
			}
		}
		vars = append(vars, []string{"lower", "reflow", "hash", "star", "spaced"}[vseed()%5])
	}
	type job struct{ f, v string }
	var jobs []job
	for _, f := range pick {
		for _, v := range vars {
			jobs = append(jobs, job{f, v})
		}
	}
	if !vthorough() {
		// files whose shipped text is NOT what the archive stores (text after the end of the license is
		// trimmed before archiving): they never take the exact-text shortcut, so they are the ones that
		// depend on the candidate selection and the full diff of nearestMatch, whatever their size
		for _, f := range all {
			if full := string(vread(f)); vnormalize(full) != vnormalize(licenseclassifier.TrimExtraneousTrailingText(full)) {
				for _, v := range []string{"plain", "upper"} {
					jobs = append(jobs, job{f, v})
				}
			}
		}
		// short texts and headers whose telling words stand on the first line, under every line-comment
		// marker: a line lost or mangled at the top of the input costs them their name
		for _, f := range []string{"AFL-2.1.header.txt", "MPL-2.0.header.txt", "Beerware.txt", "APSL-1.1.header.txt", "BSD-2-Clause-NetBSD.txt", "MPL-2.0-no-copyleft-exception.header.txt"} {
			for _, v := range []string{"hash", "bang", "semi", "dashes", "slash"} {
				jobs = append(jobs, job{f, v})
			}
		}
	}
	var wg sync.WaitGroup
	sem := make(chan bool, 16)
	for _, j := range jobs {
		wg.Add(1)
		sem <- true
		go func(j job) {
			defer func() { <-sem; wg.Done() }()
			txt := vvariants(vread(j.f))[j.v]
			canon := strings.TrimSuffix(strings.TrimSuffix(j.f, ".txt"), ".header")
			m := lc.NearestMatch(txt)
			what := ""
			if m == nil {
				what = "NearestMatch returned nil (common-word gate)"
			} else if m.Confidence < licenseclassifier.DefaultConfidenceThreshold {
				what = fmt.Sprintf("NearestMatch %s confidence %.4f below the default threshold", m.Name, m.Confidence)
			} else if m.Name != canon {
				// another corpus file with the very same normalised text is the same license text
				same := false
				for _, suffix := range []string{".txt", ".header.txt"} {
					if b, err := licenseclassifier.ReadLicenseFile(m.Name + suffix); err == nil &&
						vnormalize(licenseclassifier.TrimExtraneousTrailingText(string(b))) == vnormalize(licenseclassifier.TrimExtraneousTrailingText(vread(j.f))) {
						same = true
					}
				}
				if !same {
					what = fmt.Sprintf("NearestMatch names %s (%.4f), expected %s", m.Name, m.Confidence, canon)
				}
			}
			o.verdict("C16", j.f+"_"+j.v, what == "", true, j.f+":"+j.v, map[string]interface{}{"what": what, "file": j.f, "variant": j.v})
		}(j)
	}
	wg.Wait()
	// MultipleMatch never returns a match below the classifier's threshold
	nq := 4
	if vthorough() {
		nq = 40
	}
	for qi := 0; qi < nq; qi++ {
		rr := r.fork(uint64(7000 + qi))
		ws := strings.Fields(vread(all[rr.intn(len(all))]))
		if len(ws) > 1500 {
			ws = ws[:1500]
		}
		for j := range ws {
			if rr.chance(1, 8) {
				ws[j] = "zzz"
			}
		}
		q := "license text follows\n" + strings.Join(ws, " ")
		what := ""
		ms := lc.MultipleMatch(q, qi%2 == 0)
		for _, m := range ms {
			if m.Confidence < lc.Threshold {
				what = fmt.Sprintf("MultipleMatch returned %s with confidence %.6f below threshold %.6f", m.Name, m.Confidence, lc.Threshold)
			}
		}
		// the same query with the threshold moved just above each reported confidence: that match must go
		for _, m := range ms {
			if what != "" || m.Confidence >= 1.0 {
				continue
			}
			th := m.Confidence + 0.0004
			l2, err := varchive([]string{m.Name + ".txt"})
			if err != nil {
				continue
			}
			l2.Threshold = th
			for _, m2 := range l2.MultipleMatch(q, true) {
				if m2.Confidence < th {
					what = fmt.Sprintf("threshold %.6f: MultipleMatch returned %s with confidence %.6f", th, m2.Name, m2.Confidence)
				}
			}
		}
		o.verdict("C16", fmt.Sprintf("mm%d", qi), what == "", true, fmt.Sprintf("mm%d", qi), map[string]interface{}{"what": what})
	}
	o.stat("C16", map[string]interface{}{"files": len(pick), "variants": vars})
}

// TestVerifC14License (run with -race by bin/check): concurrent NearestMatch / MultipleMatch on ONE
// licenseclassifier.License built from an archive — texts of archived licenses, edited copies, and
// short snippets that pass the common-word gate but are close to no known value (the "no match"
// result). Every result must equal the sequential one; callers own what they get back (a caller
// that annotates its result must not change what later calls return).
func TestVerifC14License(t *testing.T) {
	o := newVout()
	defer o.close()
	r := newVrand(vseed() + 140)
	files := []string{"MIT.txt", "ISC.txt", "BSD-3-Clause.txt", "Apache-2.0.header.txt", "Zlib.txt", "BSD-2-Clause.txt"}
	lc, err := varchive(files)
	if err != nil {
		o.verdict("C14", "lic_load", false, true, "lic_load", map[string]interface{}{"what": err.Error()})
		return
	}
	var queries []string
	for _, f := range files {
		txt := vread(f)
		queries = append(queries, txt)
		ws := strings.Fields(txt)
		for j := range ws {
			if j%17 == 5 {
				ws[j] = "zzz"
			}
		}
		queries = append(queries, strings.Join(ws, " "))
	}
	queries = append(queries, "this license is short", "permission is granted under the license", "software license copyright notice only",
		"the license\n", vread("MIT.txt")+"\n\n"+vread("ISC.txt"))
	show := func(m *stringclassifier.Match) string {
		if m == nil {
			return "nil"
		}
		return fmt.Sprintf("%s|%.9f|%d|%d", m.Name, m.Confidence, m.Offset, m.Extent)
	}
	wantN := make([]string, len(queries))
	wantM := make([]string, len(queries))
	for i, q := range queries {
		wantN[i] = show(lc.NearestMatch(q))
		wantM[i] = vshow(lc.MultipleMatch(q, true))
	}
	// a caller annotates what it was given; the next caller must not see it
	what := ""
	for i, q := range queries {
		if m := lc.NearestMatch(q); m != nil {
			m.Name = "kept by an earlier caller"
			m.Confidence = 0.123
		}
		if got := show(lc.NearestMatch(q)); got != wantN[i] && what == "" {
			what = fmt.Sprintf("query %d: NearestMatch returns %s after an earlier caller changed ITS result, %s before", i, got, wantN[i])
		}
	}
	o.verdict("C14", "lic_owned", what == "", true, "lic_owned", map[string]interface{}{"what": what})
	G := 8
	if vthorough() {
		G = 32
	}
	// the concurrent calls are the FIRST calls on a License loaded afresh from the same archive:
	// whatever a loaded License builds lazily is built while the goroutines overlap
	if lc2, err := varchive(files); err == nil {
		lc = lc2
	}
	var wg sync.WaitGroup
	var mu sync.Mutex
	bad := ""
	for g := 0; g < G; g++ {
		wg.Add(1)
		rr := r.fork(uint64(g)) // forked here: the generator itself is not for concurrent use
		go func(g int) {
			defer wg.Done()
			for k := 0; k < 2*len(queries); k++ {
				i := rr.intn(len(queries))
				t0 := time.Now()
				var got, want string
				if (g+k)%2 == 0 {
					got, want = show(lc.NearestMatch(queries[i])), wantN[i]
				} else {
					got, want = vshow(lc.MultipleMatch(queries[i], true)), wantM[i]
				}
				if got != want && time.Since(t0) < 600*time.Millisecond {
					mu.Lock()
					if bad == "" {
						bad = fmt.Sprintf("goroutine %d query %d: concurrent %s, sequential %s", g, i, got, want)
					}
					mu.Unlock()
				}
			}
		}(g)
	}
	wg.Wait()
	o.verdict("C14", "lic_concurrent", bad == "", true, "lic_concurrent", map[string]interface{}{"what": bad, "goroutines": G, "queries": len(queries)})
	// first calls behind a start barrier, on a License loaded afresh for every round, each goroutine
	// beginning with MultipleMatch of an EDITED text (no verbatim occurrence: the search sets of all
	// known values are consulted): nothing but the classifier's own synchronisation orders them
	rounds := 6
	if vthorough() {
		rounds = 40
	}
	bad2 := ""
	for round := 0; round < rounds; round++ {
		lcr, err := varchive(files)
		if err != nil {
			bad2 = err.Error()
			break
		}
		start := make(chan struct{})
		var wg2 sync.WaitGroup
		for g := 0; g < 8; g++ {
			wg2.Add(1)
			go func(g int) {
				defer wg2.Done()
				i := 1 + 2*((g+round)%len(files)) // the edited copies sit at the odd positions
				<-start
				got := vshow(lcr.MultipleMatch(queries[i], true))
				if got != wantM[i] {
					mu.Lock()
					if bad2 == "" {
						bad2 = fmt.Sprintf("round %d goroutine %d query %d: concurrent first call %s, sequential %s", round, g, i, got, wantM[i])
					}
					mu.Unlock()
				}
			}(g)
		}
		close(start)
		wg2.Wait()
	}
	o.verdict("C14", "lic_first_calls", bad2 == "", true, "lic_first_calls", map[string]interface{}{"what": bad2, "rounds": rounds})
	o.stat("C14", map[string]interface{}{"license_queries": len(queries), "license_goroutines": G})
}
