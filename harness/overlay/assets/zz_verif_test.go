//go:build verif

package assets

// C12, last clause: DefaultClassifier is equivalent to LoadLicenses on the assets directory — on
// EVERY call, whatever was done with the classifiers earlier calls returned. Public API only.

import (
	"fmt"
	"os"
	"path/filepath"
	"sort"
	"strings"
	"testing"

	classifier "github.com/google/licenseclassifier/v2"
)

func vshow(r classifier.Results) string {
	var sb strings.Builder
	fmt.Fprintf(&sb, "L%d;", r.TotalInputLines)
	for _, m := range r.Matches {
		fmt.Fprintf(&sb, "%s/%s/%s %x %d-%d %d-%d;", m.MatchType, m.Name, m.Variant, m.Confidence, m.StartLine, m.EndLine, m.StartTokenIndex, m.EndTokenIndex)
	}
	return sb.String()
}

func vclip(s string) string {
	if len(s) > 20000 {
		return s[:20000] + "…"
	}
	return s
}

func TestVerifC12Assets(t *testing.T) {
	o := newVout()
	defer o.close()
	r := newVrand(vseed() + 121)
	// the asset files, from the directory this package is compiled from
	var files []string
	filepath.Walk(".", func(p string, fi os.FileInfo, err error) error {
		if err == nil && !fi.IsDir() && strings.HasSuffix(p, ".txt") && strings.Count(filepath.ToSlash(p), "/") == 2 {
			files = append(files, p)
		}
		return nil
	})
	sort.Strings(files)
	if len(files) < 100 {
		t.Fatalf("asset files not found (%d)", len(files))
	}
	ll := classifier.NewClassifier(.8)
	if pan, msg := catch(func() { ll.LoadLicenses(".") }); pan {
		t.Fatal("LoadLicenses(.) panicked: " + msg)
	}
	acme := "The Acme proprietary grant: licensee may inspect the blueprints of the rocket sled on alternate Tuesdays\nprovided that no coyote, roadrunner or anvil vendor is given access to the premises, the catalogue or the\ndesert test range, and that every unit is returned unassembled within nine business days of delivery.\n"
	nIn := 10
	if vthorough() {
		nIn = 120
	}
	var inputs [][]byte
	for i := 0; i < nIn; i++ {
		b, _ := os.ReadFile(files[r.intn(len(files))])
		switch i % 3 {
		case 1:
			b = append([]byte("zyxqv blorfen qwrtzp\n"), b...)
		case 2:
			b = b[:len(b)*(60+r.intn(40))/100]
		}
		inputs = append(inputs, b)
	}
	inputs = append(inputs, []byte(acme), []byte("zyxqv blorfen\n"), nil)
	want := make([]string, len(inputs))
	for i, in := range inputs {
		want[i] = vshow(ll.Match(in))
	}
	n := 0
	check := func(id string, dc *classifier.Classifier) {
		what := ""
		for i, in := range inputs {
			if got := vshow(dc.Match(in)); got != want[i] && what == "" {
				what = fmt.Sprintf("input %d: DefaultClassifier().Match = %s, LoadLicenses(assets).Match = %s", i, got, want[i])
			}
		}
		o.verdict("C12", id, what == "", true, id, map[string]interface{}{"what": vclip(what)})
		n++
	}
	var prev *classifier.Classifier
	for call := 0; call < 4; call++ {
		var dc *classifier.Classifier
		var err error
		pan, msg := catch(func() { dc, err = DefaultClassifier() })
		if pan || err != nil || dc == nil {
			o.verdict("C12", fmt.Sprintf("default%d", call), false, true, fmt.Sprintf("default%d", call), map[string]interface{}{"what": fmt.Sprint("DefaultClassifier failed: ", msg, err)})
			continue
		}
		check(fmt.Sprintf("default%d", call), dc)
		// what a caller may do with the classifier it was given — none of it is the next caller's business
		switch call {
		case 0:
			dc.AddContent("License", "Acme-Proprietary", "license.txt", []byte(acme))
		case 1:
			dc.SetTraceConfiguration(&classifier.TraceConfiguration{TraceLicenses: "*", TracePhases: "*", Tracer: func(string, ...interface{}) {}})
			dc.Normalize([]byte(acme))
		case 2:
			dc.AddContent("License", "MIT", "license.txt", []byte(acme)) // replaces a corpus document
		}
		prev = dc
	}
	_ = prev
	o.stat("C12", map[string]interface{}{"default_classifier_calls": n, "inputs": len(inputs), "asset_files": len(files)})
}
