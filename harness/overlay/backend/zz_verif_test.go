//go:build verif

package backend

import (
	"go/ast"
	"go/parser"
	"go/printer"
	gotoken "go/token"

	"bytes"
	"encoding/json"
	"fmt"
	"os"
	"os/exec"
	"path/filepath"
	"sort"
	"strings"
	"testing"

	"github.com/google/licenseclassifier/v2/assets"
)

type vjsonClass struct {
	Name       string
	Confidence float64
	StartLine  int
	EndLine    int
	Text       string
}
type vjsonFile struct {
	Filepath        string
	Classifications []vjsonClass
}

func vlinesOf(data []byte, start, end int) string {
	// lines start..end (1-based), each followed by "\n"; a trailing "\r" is not significant
	ls := strings.Split(string(data), "\n")
	if len(ls) > 0 && ls[len(ls)-1] == "" {
		ls = ls[:len(ls)-1]
	}
	var sb strings.Builder
	for i := start; i <= end && i-1 < len(ls); i++ {
		if i >= 1 {
			sb.WriteString(strings.TrimSuffix(ls[i-1], "\r") + "\n")
		}
	}
	return sb.String()
}

func TestVerifC19(t *testing.T) {
	o := newVout()
	defer o.close()
	r := newVrand(vseed() + 19)
	bin := os.Getenv("VERIF_CLI_BIN")
	if bin == "" {
		t.Fatal("VERIF_CLI_BIN not set")
	}
	lc, err := assets.DefaultClassifier()
	if err != nil {
		t.Fatal(err)
	}
	read := func(n string) []byte {
		b, err := assets.ReadLicenseFile(n)
		if err != nil {
			t.Fatal(err)
		}
		return b
	}
	mit, apache, bsd := read("License/MIT/a.txt"), read("Header/Apache-2.0/header.txt"), read("License/BSD-3-Clause/a.txt")
	root, err := os.MkdirTemp("", "verifc19")
	if err != nil {
		t.Fatal(err)
	}
	defer os.RemoveAll(root)
	ntrees := 3
	if vthorough() {
		ntrees = 30
	}
	ncalls := 0
	for ti := 0; ti < ntrees; ti++ {
		rr := r.fork(uint64(ti))
		dir := filepath.Join(root, fmt.Sprintf("t%d", ti))
		contents := map[string][]byte{}
		add := func(rel string, data []byte) {
			p := filepath.Join(dir, rel)
			os.MkdirAll(filepath.Dir(p), 0o755)
			os.WriteFile(p, data, 0o644)
			contents[p] = data
		}
		add("LICENSE", mit)
		add("src/main.go", append([]byte("// Copyright 2020 Foo Inc.\n//\n"), bytes.ReplaceAll(apache, []byte("\n"), []byte("\n// "))...))
		add("src/deep/nested/dir/NOTICE", append(append([]byte("preamble text here\n\n"), bsd...), []byte("\n\ntrailer without newline")...))
		add("docs/readme.txt", []byte("no license in here, just words\nand more words\n"))
		add("empty", nil)
		add("crlf.txt", bytes.ReplaceAll(mit, []byte("\n"), []byte("\r\n")))
		if ti%2 == 0 {
			add("longline.txt", append(append([]byte(strings.Repeat("x", 70000)+"\n"), mit...), '\n'))
		}
		if ti%2 == 0 {
			// the whole file is ONE line of more than 64 KiB with no trailing newline (a minified bundle
			// with its licence on that line), and the same with the newline
			one := append([]byte(strings.Repeat("x ", 36000)), bytes.ReplaceAll(bytes.TrimSpace(mit), []byte("\n"), []byte(" "))...)
			add("oneline.min.js", one)
			add("oneline_nl.min.js", append(append([]byte(nil), one...), '\n'))
		}
		if ti%2 == 1 || ti == 0 {
			// a license whose lines straddle a refill point of a 64 KiB line scanner (byte 65536, 131072),
			// with another buffer's worth of text behind it: -include_text must still return those lines
			for _, at := range []int{65536 - 400, 131072 - 700} {
				var sb bytes.Buffer
				for k := 0; sb.Len() < at; k++ {
					fmt.Fprintf(&sb, "v%05d := compute(%d, table[%d]) // step %d\n", k, k*7, k%13, k)
				}
				sb.Write(mit)
				for k := 0; k < 4500; k++ {
					fmt.Fprintf(&sb, "w%05d := finish(%d) // tail %d\n", k, k*3, k)
				}
				add(fmt.Sprintf("bundle_%d.js", at), sb.Bytes())
			}
		}
		// symbolic links to a license file, next to it and in a nested directory (a package's LICENSE
		// linked to the top-level one): the tool reads what the link points to
		{
			for _, rel := range []string{"COPYING", "pkg/sub/LICENSE"} {
				p := filepath.Join(dir, rel)
				os.MkdirAll(filepath.Dir(p), 0o755)
				if err := os.Symlink(filepath.Join(dir, "LICENSE"), p); err == nil {
					contents[p] = mit
				}
			}
		}
		// two classifications of one file that END on the same line and start on different ones: a
		// license whose last line also carries a complete one-line header (seen with -headers)
		{
			oneLineHeader := strings.Join(strings.Fields(string(apache)), " ")
			add("sameend.txt", []byte(strings.TrimRight(string(mit), "\n")+" "+oneLineHeader+"\n"))
			add("samestart.txt", []byte(oneLineHeader+" "+string(mit)))
		}
		if ti%3 == 1 {
			add("two.txt", append(append(append([]byte(nil), mit...), []byte("\n\nunrelated words between the two\n\n")...), bsd...))
		}
		for k := 0; k < rr.intn(4); k++ {
			add(fmt.Sprintf("gen/f%d.txt", k), []byte(strings.Repeat("filler words only\n", 1+rr.intn(20))))
		}
		for _, headers := range []bool{false, true} {
			for _, tasks := range []int{1, 2, 7, 1000} {
				if !vthorough() && (tasks == 2 || tasks == 7) && (ti+tasks)%2 == 0 {
					continue
				}
				for _, target := range []string{dir, "files"} {
					args := []string{fmt.Sprintf("-tasks=%d", tasks)}
					if headers {
						args = append(args, "-headers")
					}
					jf := filepath.Join(root, fmt.Sprintf("out_%d.json", ncalls))
					args = append(args, "-json="+jf, "-include_text")
					var paths []string
					if target == "files" {
						for p := range contents {
							if !(strings.Contains(p, "longline") || strings.Contains(p, "oneline")) || tasks == 1 {
								paths = append(paths, p)
							}
						}
						sort.Strings(paths)
						if len(paths) > 3 {
							paths = paths[:3+rr.intn(len(paths)-3)]
						}
					} else {
						paths = []string{dir}
					}
					cmd := exec.Command(bin, append(args, paths...)...)
					var stdout, stderr bytes.Buffer
					cmd.Stdout, cmd.Stderr = &stdout, &stderr
					runErr := cmd.Run()
					exit := 0
					if runErr != nil {
						if ee, ok := runErr.(*exec.ExitError); ok {
							exit = ee.ExitCode()
						} else {
							t.Fatal(runErr)
						}
					}
					ncalls++
					// expected: the library's matches per file
					var files []string
					if target == "files" {
						files = paths
					} else {
						for p := range contents {
							files = append(files, p)
						}
					}
					var want []string
					type key struct {
						file, name string
						s, e       int
					}
					wantText := map[key]string{}
					for _, f := range files {
						for _, m := range lc.Match(contents[f]).Matches {
							if !headers && m.MatchType == "Header" {
								continue
							}
							name := m.Name
							if m.MatchType != "License" && m.MatchType != "Header" {
								name = m.MatchType + ":" + m.Name
							}
							want = append(want, fmt.Sprintf("%s %s (variant: %v, confidence: %v, start: %v, end: %v)", f, name, m.Variant, m.Confidence, m.StartLine, m.EndLine))
							wantText[key{f, m.Name, m.StartLine, m.EndLine}] = vlinesOf(contents[f], m.StartLine, m.EndLine)
						}
					}
					got := strings.Split(strings.TrimRight(stdout.String(), "\n"), "\n")
					if stdout.Len() == 0 {
						got = nil
					}
					sort.Strings(got)
					sort.Strings(want)
					what := ""
					if strings.Join(got, "\n") != strings.Join(want, "\n") {
						what = fmt.Sprintf("printed lines differ from the library's matches: got %d lines %q ; want %d lines %q", len(got), vfirstDiff(got, want), len(want), vfirstDiff(want, got))
					} else if (exit == 0) != (len(want) > 0) {
						what = fmt.Sprintf("exit status %d with %d reported matches (stderr tail: %q)", exit, len(want), vtail(stderr.String()))
					} else if len(want) > 0 {
						jb, err := os.ReadFile(jf)
						var jr []vjsonFile
						if err != nil {
							what = "no JSON file written: " + vtail(stderr.String())
						} else if err := json.Unmarshal(jb, &jr); err != nil {
							what = "JSON does not parse: " + err.Error()
						} else {
							n := 0
							for _, fc := range jr {
								for _, c := range fc.Classifications {
									n++
									wt, ok := wantText[key{fc.Filepath, c.Name, c.StartLine, c.EndLine}]
									if !ok {
										what = fmt.Sprintf("JSON classification %s %s %d-%d is not a library match", fc.Filepath, c.Name, c.StartLine, c.EndLine)
									} else if strings.ReplaceAll(c.Text, "\r\n", "\n") != wt {
										what = fmt.Sprintf("JSON Text of %s %s is not lines %d..%d of the file (got %d bytes, want %d)", fc.Filepath, c.Name, c.StartLine, c.EndLine, len(c.Text), len(wt))
									}
								}
							}
							if what == "" && n != len(want) {
								what = fmt.Sprintf("JSON holds %d classifications, %d matches were printed", n, len(want))
							}
						}
					}
					id := fmt.Sprintf("t%d_h%v_k%d_%s", ti, headers, tasks, target[:1])
					var rels []string
					for _, f := range files {
						rel, _ := filepath.Rel(root, f)
						rels = append(rels, rel)
					}
					sort.Strings(rels)
					o.verdict("C19", id, what == "", len(want) > 0, fmt.Sprintf("%v|%d|%s", headers, tasks, strings.Join(rels, ",")), map[string]interface{}{"what": what, "args": args, "files": rels, "exit": exit})
				}
			}
		}
	}
	o.stat("C19", map[string]interface{}{"cli_invocations": ncalls, "trees": ntrees})
}

func vfirstDiff(a, b []string) string {
	in := map[string]bool{}
	for _, x := range b {
		in[x] = true
	}
	for _, x := range a {
		if !in[x] {
			return x
		}
	}
	return ""
}
func vtail(s string) string {
	if len(s) > 300 {
		return s[len(s)-300:]
	}
	return s
}


// TestVerifDump extracts, from the AST of backend.go, the order of the two deferred actions of a
// worker in ClassifyLicenses (handing the task slot back, signalling completion) for
// LC/Gen/CliProtocol.lean. The extractor only reports; LC/Props/C19.lean decides.
func TestVerifDump(t *testing.T) {
	fset := gotoken.NewFileSet()
	f, err := parser.ParseFile(fset, "backend.go", nil, 0)
	if err != nil {
		t.Fatal(err)
	}
	var events []string
	ast.Inspect(f, func(n ast.Node) bool {
		fd, ok := n.(*ast.FuncDecl)
		if !ok || fd.Name.Name != "ClassifyLicenses" {
			return true
		}
		ast.Inspect(fd, func(m ast.Node) bool {
			ds, ok := m.(*ast.DeferStmt)
			if !ok {
				return true
			}
			fl, ok := ds.Call.Fun.(*ast.FuncLit)
			if !ok {
				return true
			}
			for _, st := range fl.Body.List {
				switch x := st.(type) {
				case *ast.SendStmt:
					if id, ok := x.Chan.(*ast.Ident); ok && id.Name == "task" {
						events = append(events, "send")
					}
				case *ast.ExprStmt:
					if ce, ok := x.X.(*ast.CallExpr); ok {
						if se, ok := ce.Fun.(*ast.SelectorExpr); ok && se.Sel.Name == "Done" {
							events = append(events, "done")
						}
					}
				default:
					events = append(events, "other")
				}
			}
			return false
		})
		return false
	})
	// the declared type of the mutex field guarding the result list
	muType := ""
	ast.Inspect(f, func(n ast.Node) bool {
		ts, ok := n.(*ast.TypeSpec)
		if !ok || ts.Name.Name != "ClassifierBackend" {
			return true
		}
		if st, ok := ts.Type.(*ast.StructType); ok {
			for _, fld := range st.Fields.List {
				for _, nm := range fld.Names {
					if nm.Name == "mu" {
						var sb strings.Builder
						printer.Fprint(&sb, fset, fld.Type)
						muType = sb.String()
					}
				}
			}
		}
		return false
	})
	b, _ := json.Marshal(map[string]interface{}{"analyzeDefer": events, "locks": vlockSkeletons(t, "results", "mu"), "muType": muType})
	if err := os.WriteFile(os.Getenv("VERIF_OUT")+"/cliprotocol.json", b, 0o644); err != nil {
		t.Fatal(err)
	}
}

// TestVerifC19Race (run with -race by bin/check): the pool the tool uses, in process, over many files
// that each yield many matches (a license plus a block of copyright notices), at several -tasks
// levels: the collected results must be exactly the library's matches — as a multiset, whatever the
// interleaving — and the race detector watches the shared result list and the pool's channels.
func TestVerifC19Race(t *testing.T) {
	o := newVout()
	defer o.close()
	r := newVrand(vseed() + 190)
	lc, err := assets.DefaultClassifier()
	if err != nil {
		t.Fatal(err)
	}
	mit, err := assets.ReadLicenseFile("License/MIT/a.txt")
	if err != nil {
		t.Fatal(err)
	}
	root, err := os.MkdirTemp("", "verifc19r")
	if err != nil {
		t.Fatal(err)
	}
	defer os.RemoveAll(root)
	nfiles := 40
	if vthorough() {
		nfiles = 400
	}
	var files []string
	want := map[string]int{}
	for i := 0; i < nfiles; i++ {
		var sb bytes.Buffer
		for k := 0; k < 5+r.intn(30); k++ {
			fmt.Fprintf(&sb, "Copyright %d Holder Number %d\n", 1990+k, k)
		}
		sb.Write(mit)
		p := filepath.Join(root, fmt.Sprintf("d%d", i%7), fmt.Sprintf("f%d.txt", i))
		os.MkdirAll(filepath.Dir(p), 0o755)
		os.WriteFile(p, sb.Bytes(), 0o644)
		files = append(files, p)
		for _, m := range lc.Match(sb.Bytes()).Matches {
			want[fmt.Sprintf("%s|%s|%s|%s|%x|%d|%d", p, m.MatchType, m.Name, m.Variant, m.Confidence, m.StartLine, m.EndLine)]++
		}
	}
	for _, tasks := range []int{1, 4, 64} {
		be := &ClassifierBackend{classifier: lc}
		id := fmt.Sprintf("pool_k%d", tasks)
		o.attempt("C19", id, map[string]interface{}{"tasks": tasks, "files": len(files)})
		var errs []error
		pan, msg := catch(func() { errs = be.ClassifyLicenses(tasks, files, true) })
		got := map[string]int{}
		for _, x := range be.GetResults() {
			if x != nil {
				got[fmt.Sprintf("%s|%s|%s|%s|%x|%d|%d", x.Filename, x.MatchType, x.Name, x.Variant, x.Confidence, x.StartLine, x.EndLine)]++
			} else {
				got["<nil entry>"]++
			}
		}
		what := ""
		if pan {
			what = "ClassifyLicenses panicked: " + msg
		} else if len(errs) > 0 {
			what = fmt.Sprint("errors: ", errs)
		} else {
			var diff []string
			for k, n := range want {
				if got[k] != n {
					diff = append(diff, fmt.Sprintf("%s: library %d, pool %d", filepath.Base(strings.SplitN(k, "|", 2)[0])+"|"+strings.SplitN(k, "|", 2)[1], n, got[k]))
				}
			}
			for k, n := range got {
				if want[k] == 0 {
					diff = append(diff, fmt.Sprintf("%s: library 0, pool %d", k, n))
				}
			}
			sort.Strings(diff)
			if len(diff) > 0 {
				what = fmt.Sprintf("-tasks %d: %d result lines differ from the library's matches, e.g. %s", tasks, len(diff), strings.Join(diff[:1], "; "))
			}
		}
		o.verdict("C19", id, what == "", true, id, map[string]interface{}{"what": what, "tasks": tasks, "files": len(files), "expected_lines": len(want)})
	}
	o.stat("C19", map[string]interface{}{"pool_files": len(files)})
}
