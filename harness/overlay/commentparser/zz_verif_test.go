//go:build verif

package commentparser

import (
	"encoding/json"
	"fmt"
	"os"
	"strings"
	"testing"
	"time"

	"github.com/google/licenseclassifier/commentparser/language"
)

const vnumLangs = 64 // probe a few values beyond the last declared language as well

// TestVerifDump writes the per-language facts of language.go as they are at run time.
func TestVerifDump(t *testing.T) {
	type fact struct {
		Lang                         int
		Single, MultiStart, MultiEnd string
		DQ, SQ, BQ                   int // -1: not a quote, 0: quote without escapes, 1: quote with escapes
		Nested                       bool
	}
	q := func(l language.Language, c rune) int {
		ok, esc := l.QuoteCharacter(c)
		if !ok {
			return -1
		}
		if esc {
			return 1
		}
		return 0
	}
	var facts []fact
	for i := 0; i < vnumLangs; i++ {
		l := language.Language(i)
		facts = append(facts, fact{i, l.SingleLineCommentStart(), l.MultilineCommentStart(), l.MultilineCommentEnd(), q(l, '"'), q(l, '\''), q(l, '`'), l.NestedComments()})
	}
	out := map[string]interface{}{
		"facts": facts,
		"consts": map[string]int{"HTML": int(language.HTML), "Python": int(language.Python), "JavaScript": int(language.JavaScript),
			"Perl": int(language.Perl), "SQL": int(language.SQL), "ObjectiveC": int(language.ObjectiveC), "MySQL": int(language.MySQL),
			"Matlab": int(language.Matlab), "Yaml": int(language.Yaml), "Unknown": int(language.Unknown)},
	}
	b, _ := json.MarshalIndent(out, "", " ")
	if err := os.WriteFile(os.Getenv("VERIF_OUT")+"/langtable.json", b, 0o644); err != nil {
		t.Fatal(err)
	}
}

func vshowComments(cs Comments) string {
	var ps []string
	for _, c := range cs {
		ps = append(ps, fmt.Sprintf("%d:%d:%s", c.StartLine, c.EndLine, hxs(c.Text)))
	}
	return strings.Join(ps, ";")
}

func vparse(in []byte, lang int) (res string) {
	done := make(chan string, 1)
	go func() {
		var r string
		pan, _ := catch(func() { r = vshowComments(Parse(in, language.Language(lang))) })
		if pan {
			r = "PANIC"
		}
		done <- r
	}()
	select {
	case r := <-done:
		return r
	case <-time.After(10 * time.Second):
		// the lexer works in time linear in the input; a call that is still running after 10 s on
		// an input of a few bytes does not return (its goroutine is left behind)
		return "HANG"
	}
}

// alphabets rich in the delimiters of each comment style
var vstyles = []struct {
	lang  int
	alpha []string
}{
	{int(language.C), []string{"/", "*", "\"", "'", "\\", "\n", "a", " "}},
	{int(language.Go), []string{"/", "*", "`", "\"", "\\", "\n", "a"}},
	{int(language.Swift), []string{"/", "*", "\"", "\n", "a"}},
	{int(language.Rust), []string{"/", "*", "\"", "\n", "a"}},
	{int(language.Python), []string{"#", "'", "\"", "\\", "\n", "a"}},
	{int(language.Shell), []string{"#", "%", "{", "}", "'", "\n", "a"}},
	{int(language.Haskell), []string{"-", "{", "}", "\"", "\n", "a"}},
	{int(language.HTML), []string{"<", "!", "-", ">", "\"", "\n", "a"}},
	{int(language.SQL), []string{"-", "#", "/", "*", "'", "\n", "a"}},
	{int(language.ObjectiveC), []string{"/", "*", "%", "{", "}", "\n", "a"}},
	{int(language.Ruby), []string{"#", "=", "begin", "end", "\"", "\n", "a"}},
	{int(language.CMake), []string{"#", "[", "]", "\"", "\n", "a"}},
	{int(language.Matlab), []string{"%", "{", "}", "'", "\n", "a"}},
	{int(language.JavaScript), []string{"/", "*", "'", "\\", "\n", "a"}},
	{int(language.Perl), []string{"#", "'", "\"", "\\", "\n", "a"}},
	{int(language.Lisp), []string{";", "\"", "\\", "\n", "a"}},
	{int(language.Batch), []string{"@", "REM", "@REM", "\"", "\n", "a"}},
	{int(language.Fortran), []string{"!", "'", "\n", "a"}},
	{int(language.AppleScript), []string{"-", "(", "*", ")", "\n", "a"}},
	{int(language.MySQL), []string{"#", "/", "*", "'", "\n", "a"}},
	{int(language.Unknown), []string{"/", "*", "#", "\"", "\n", "a"}},
}

func TestVerifC18(t *testing.T) {
	o := newVout()
	defer o.close()
	r := newVrand(vseed() + 18)
	n := 0
	hangs := 0
	emit := func(id string, lang int, in []byte) {
		if hangs >= 3 {
			return // every hung call keeps a core busy: three replays are enough
		}
		res := vparse(in, lang)
		if res == "HANG" || res == "PANIC" {
			if res == "HANG" {
				hangs++
			}
			o.verdict("C18", "total_"+id, false, true, fmt.Sprintf("total:%d:%s", lang, hx(in)), map[string]interface{}{"what": "Parse did not return a result: " + res, "language": lang, "input_hex": hx(in), "input": string(in)})
		}
		// two records per input: the impl-level model (tie) and the specification lexer (oracle)
		o.corr("lex", id, []string{fmt.Sprint(lang), hx(in)}, res)
		o.corr("spec:lexspec", "S"+id, []string{fmt.Sprint(lang), hx(in)}, res)
		n++
	}
	// exhaustive: all strings up to length L over each style's alphabet
	L := 4
	if vthorough() {
		L = 6
	}
	for si, st := range vstyles {
		l := L
		if len(st.alpha) >= 8 && l > 5 {
			l = 5
		}
		var rec func(prefix string, depth int)
		cnt := 0
		rec = func(prefix string, depth int) {
			if depth > 0 {
				emit(fmt.Sprintf("x%d_%d", si, cnt), st.lang, []byte(prefix))
				cnt++
			}
			if depth == l {
				return
			}
			for _, a := range st.alpha {
				rec(prefix+a, depth+1)
			}
		}
		rec("", 0)
	}
	// random long programs for every language value
	nr := 6
	if vthorough() {
		nr = 150
	}
	pieces := []string{"/*", "*/", "//", "#", "--", "{-", "-}", "<!--", "-->", "%{", "%}", "=begin", "=end", "#[[", "]]", "(*", "*)", ";", "!", "%", "@REM",
		"\"", "'", "`", "'''", "\"\"\"", "\\", "\\\"", "\n", "\n", "\n", " ", "x = 1", "foo(bar)", "é", "\xff", "日本", "Copyright 2020", "\t"}
	for lang := 0; lang <= int(language.Yaml)+1; lang++ {
		for k := 0; k < nr; k++ {
			rr := r.fork(uint64(lang*1000 + k))
			var sb strings.Builder
			for j := 0; j < 1+rr.intn(120); j++ {
				sb.WriteString(pieces[rr.intn(len(pieces))])
			}
			emit(fmt.Sprintf("r%d_%d", lang, k), lang, []byte(sb.String()))
		}
	}
	emit("empty", int(language.C), nil)
	// directed: every language's own delimiters combined with each quote character, escapes and
	// comment bodies — longer than the exhaustive strings, aimed at quote/escape/comment interplay
	for lang := 0; lang <= int(language.Yaml)+1; lang++ {
		l := language.Language(lang)
		sl, ms, me := l.SingleLineCommentStart(), l.MultilineCommentStart(), l.MultilineCommentEnd()
		k := 0
		for _, q := range []string{"\"", "'", "`", "'''", "\"\"\""} {
			for _, body := range []string{"\\", "a", "", "\\\\", "a\\", "\\" + q, "x" + sl + "y", ms + "z" + me, "\n"} {
				for _, tail := range []string{sl + "c1\n", ms + "c2" + me, " " + sl + "c3", sl + "c4\n" + q + sl + "c5" + q + "\n" + sl + "c6", ms + me + ms + "c7" + me} {
					emit(fmt.Sprintf("d%d_%d", lang, k), lang, []byte(q+body+q+tail))
					k++
				}
			}
		}
		for _, t := range []string{ms + me + sl + "a\n", ms + ms + "n" + me + "m" + me + sl + "b", sl + "x" + ms + "y\n" + me, ms + "u\nv" + me + "\n" + sl + "w"} {
			emit(fmt.Sprintf("d%d_%d", lang, k), lang, []byte(t))
			k++
		}
	}
	// nesting: for the languages whose block comments nest, all sequences of up to NL opening and
	// closing delimiters, letters and newlines (depth > 1, unbalanced and sibling comments)
	NL := 6
	if vthorough() {
		NL = 8
	}
	for lang := 0; lang <= int(language.Yaml)+1; lang++ {
		l := language.Language(lang)
		if !l.NestedComments() {
			continue
		}
		toks := []string{l.MultilineCommentStart(), l.MultilineCommentEnd(), "a", "\n"}
		cnt := 0
		var rec func(prefix string, depth int)
		rec = func(prefix string, depth int) {
			if depth > 2 {
				emit(fmt.Sprintf("n%d_%d", lang, cnt), lang, []byte(prefix))
				cnt++
			}
			if depth == NL {
				return
			}
			for _, a := range toks {
				rec(prefix+a, depth+1)
			}
		}
		rec("", 0)
	}
	// ChunkIterator on random line patterns
	nc := 200
	if vthorough() {
		nc = 20000
	}
	for k := 0; k < nc; k++ {
		rr := r.fork(uint64(900000 + k))
		var cs Comments
		line := 1 + rr.intn(3)
		var spec []string
		for j := 0; j < rr.intn(9); j++ {
			ext := 0
			if rr.chance(1, 3) {
				ext = 1 + rr.intn(3)
			}
			cs = append(cs, &Comment{StartLine: line, EndLine: line + ext, Text: fmt.Sprint(j)})
			spec = append(spec, fmt.Sprintf("%d:%d", line, line+ext))
			line += []int{0, 1, 1, 1, 2, 3}[rr.intn(6)] + ext*rr.intn(2)
		}
		var got []string
		total := 0
		for ch := range cs.ChunkIterator() {
			var ps []string
			for _, c := range ch {
				ps = append(ps, fmt.Sprintf("%d:%d", c.StartLine, c.EndLine))
				total++
			}
			got = append(got, strings.Join(ps, ","))
		}
		id := fmt.Sprintf("k%d", k)
		o.corr("chunk", id, []string{strings.Join(spec, ",")}, strings.Join(got, "|"))
		// oracle: every comment exactly once, in order; chunks maximal w.r.t. start-line adjacency
		what := ""
		if strings.Join(got, ",") != strings.Join(spec, ",") && !(len(spec) == 0 && len(got) == 0) {
			what = fmt.Sprintf("chunks %v do not concatenate to the comments %v", got, spec)
		}
		idx := 0
		for ci, ch := range got {
			m := len(strings.Split(ch, ","))
			for j := 1; j < m && what == ""; j++ {
				if cs[idx+j].StartLine > cs[idx+j-1].StartLine+1 {
					what = fmt.Sprintf("chunk %d joins comments on non-adjacent lines", ci)
				}
			}
			if idx+m < len(cs) && cs[idx+m].StartLine <= cs[idx+m-1].StartLine+1 && what == "" {
				what = fmt.Sprintf("chunk %d is not maximal: the next comment starts on an adjacent line", ci)
			}
			idx += m
		}
		o.verdict("C18", id, what == "", len(cs) >= 2, "chunk:"+strings.Join(spec, ","), map[string]interface{}{"what": what, "comments": spec, "chunks": got})
	}
	o.stat("C18", map[string]interface{}{"parse_inputs": n, "chunk_cases": nc, "exhaustive_len": L})
}
