//go:build verif

package searchset

import (
	"sort"
	"fmt"
	"strings"
	"testing"
	"unicode"
	"unicode/utf8"

	"github.com/google/licenseclassifier/stringclassifier/searchset/tokenizer"
)

// vstrings: Unicode, punctuation, invalid UTF-8, repetitive low-vocabulary text.
func vgenString(r *vrand, i int) string {
	words := []string{"the", "a", "of", "license", "software", "and", "b", "c"}
	pieces := []string{" ", "  ", "\n", "\t", ".", ",", "(", ")", "-", "é", "日本", "\xff", "\xc3", "\xe2\x80", "a", "foo", "Bar", "1.2", "©", "“", "”", " ", " ", "x_y", "&", "𝔘",
		// bytes that are white space as Latin-1 characters but not as (invalid) UTF-8, alone and behind white space;
		// the white space characters they resemble, correctly encoded
		"\xa0", "\x85", " \xa0", "\n\x85\xa0b", "\t\x85", "\u00a0", "\u0085", "\u2003x", "\xa02017", "\xc2", "\u00a0\xa0"}
	var sb strings.Builder
	switch i % 5 {
	case 0: // repetitive low vocabulary
		for j := 0; j < 1+r.intn(80); j++ {
			sb.WriteString(words[r.intn(3)])
			sb.WriteByte(' ')
		}
	case 1:
		for j := 0; j < 1+r.intn(60); j++ {
			sb.WriteString(words[r.intn(len(words))])
			sb.WriteString([]string{" ", " ", ", ", ". ", "\n"}[r.intn(5)])
		}
	case 2:
		for j := 0; j < r.intn(40); j++ {
			sb.WriteString(pieces[r.intn(len(pieces))])
		}
	case 3:
		b := make([]byte, r.intn(40))
		for j := range b {
			b[j] = byte(r.intn(256))
		}
		sb.Write(b)
	default:
		for j := 0; j < r.intn(30); j++ {
			if r.chance(1, 3) {
				sb.WriteString(pieces[r.intn(len(pieces))])
			} else {
				sb.WriteString(words[r.intn(len(words))] + " ")
			}
		}
	}
	return sb.String()
}

func vshowToks(ts tokenizer.Tokens) string {
	var ps []string
	for _, t := range ts {
		ps = append(ps, fmt.Sprintf("%d:%s", t.Offset, hxs(t.Text)))
	}
	return strings.Join(ps, " ")
}

func vshowMRs(l MatchRanges) string {
	var ps []string
	for _, r := range l {
		ps = append(ps, fmt.Sprintf("%d,%d,%d,%d", r.SrcStart, r.SrcEnd, r.TargetStart, r.TargetEnd))
	}
	return strings.Join(ps, ";")
}

func vshowGroups(gs []MatchRanges) string {
	var ps []string
	for _, g := range gs {
		ps = append(ps, vshowMRs(g))
	}
	return strings.Join(ps, "|")
}

// voracleTokens checks C17's tokenizer clause on the real Tokenize output.
func voracleTokens(s string, ts tokenizer.Tokens) string {
	covered := make([]bool, len(s))
	prevEnd := 0
	for i, t := range ts {
		if t.Offset < prevEnd {
			return fmt.Sprintf("token %d starts at %d, before the end %d of the previous token", i, t.Offset, prevEnd)
		}
		end := t.Offset + len(t.Text)
		if t.Offset < 0 || end > len(s) {
			return fmt.Sprintf("token %d [%d,%d) lies outside the string of %d bytes", i, t.Offset, end, len(s))
		}
		if s[t.Offset:end] != t.Text {
			return fmt.Sprintf("token %d: text %q but the string has %q at offset %d", i, t.Text, s[t.Offset:end], t.Offset)
		}
		if len(t.Text) == 0 {
			return fmt.Sprintf("token %d is empty", i)
		}
		for k := t.Offset; k < end; k++ {
			covered[k] = true
		}
		prevEnd = end
	}
	for i := 0; i < len(s); {
		r, sz := utf8.DecodeRuneInString(s[i:])
		for k := i; k < i+sz; k++ { // every byte of the character, not only its first
			if !covered[k] && !unicode.IsSpace(r) {
				return fmt.Sprintf("non-space character %q at offset %d is not covered by any token (byte %d)", r, i, k)
			}
		}
		i += sz
	}
	return ""
}

func voracleRanges(src, tgt *SearchSet, tgtStr string, mrs []MatchRanges) string {
	for gi, g := range mrs {
		if len(g) == 0 {
			return fmt.Sprintf("candidate %d is empty", gi)
		}
		prev := -1
		for ri, r := range g {
			if !(0 <= r.TargetStart && r.TargetStart < r.TargetEnd && r.TargetEnd <= len(tgt.Tokens)) {
				return fmt.Sprintf("candidate %d range %d target [%d,%d) outside the %d target tokens", gi, ri, r.TargetStart, r.TargetEnd, len(tgt.Tokens))
			}
			if !(0 <= r.SrcStart && r.SrcStart < r.SrcEnd) {
				return fmt.Sprintf("candidate %d range %d source [%d,%d) is empty or negative", gi, ri, r.SrcStart, r.SrcEnd)
			}
			if r.TargetStart < prev {
				return fmt.Sprintf("candidate %d is not ordered by target position at range %d", gi, ri)
			}
			prev = r.TargetStart
		}
		var start, end int
		pan, msg := catch(func() { start, end = g.TargetRange(tgt) })
		if pan {
			return fmt.Sprintf("candidate %d: TargetRange panicked: %s", gi, msg)
		}
		if !(0 <= start && start <= end && end <= len(tgtStr)) {
			return fmt.Sprintf("candidate %d converts to bytes [%d,%d) of a %d-byte string", gi, start, end, len(tgtStr))
		}
	}
	return ""
}

func TestVerifC17(t *testing.T) {
	o := newVout()
	defer o.close()
	r := newVrand(vseed() + 17)
	n := 300
	if vthorough() {
		n = 40000
	}
	for i := 0; i < n; i++ {
		s := vgenString(r.fork(uint64(i)), i)
		var ts tokenizer.Tokens
		pan, msg := catch(func() { ts = tokenizer.Tokenize(s) })
		id := fmt.Sprintf("t%d", i)
		if pan {
			o.verdict("C17", id, false, true, "tok:"+hxs(s), map[string]interface{}{"what": "Tokenize panicked: " + msg, "input_hex": hxs(s)})
			continue
		}
		o.corr("v1tok", id, []string{hxs(s)}, vshowToks(ts))
		w := voracleTokens(s, ts)
		o.verdict("C17", id, w == "", len(ts) > 1, "tok:"+hxs(s), map[string]interface{}{"what": w, "input_hex": hxs(s)})
	}
	m := 200
	if vthorough() {
		m = 20000
	}
	for i := 0; i < m; i++ {
		rr := r.fork(uint64(1000000 + i))
		a := vgenString(rr, []int{0, 0, 1, 1, 4}[i%5])
		var b string
		switch i % 3 {
		case 0: // target contains the source inside other text
			b = vgenString(rr, 1) + " " + a + " " + vgenString(rr, 0)
		case 1: // target is an edited copy
			ws := strings.Fields(a)
			for k := range ws {
				if rr.chance(1, 6) {
					ws[k] = "zzz"
				}
			}
			b = strings.Join(ws, " ") + " " + vgenString(rr, 0)
		default:
			b = vgenString(rr, i)
		}
		src, tgt := New(a, DefaultGranularity), New(b, DefaultGranularity)
		id := fmt.Sprintf("p%d", i)
		var mrs []MatchRanges
		pan, msg := catch(func() { mrs = FindPotentialMatches(src, tgt) })
		w := ""
		if pan {
			w = "FindPotentialMatches panicked: " + msg
		} else {
			w = voracleRanges(src, tgt, b, mrs)
		}
		o.verdict("C17", id, w == "", len(mrs) > 0, "fpm:"+hxs(a)+"|"+hxs(b), map[string]interface{}{"what": w, "source_hex": hxs(a), "target_hex": hxs(b)})
		// stage v1post: what FindPotentialMatches does after targetMatchedRanges + sort.Sort, against the
		// Lean model LC/Model/V1Search; the sorted list is recorded (fresh ranges: the stages mutate them)
		if !pan {
			var sorted MatchRanges
			catch(func() { sorted = targetMatchedRanges(src, tgt) })
			if len(sorted) > 0 {
				sort.Sort(sorted)
				o.corr("v1post", "q"+id, []string{vshowMRs(sorted)}, vshowGroups(mrs))
				// the hypotheses of post_inv, monitored on the real list
				hw := ""
				for k, r := range sorted {
					if !(0 <= r.TargetStart && r.TargetStart < r.TargetEnd && r.TargetEnd <= len(tgt.Tokens)) {
						hw = fmt.Sprintf("targetMatchedRanges range %d target [%d,%d) outside the %d target tokens", k, r.TargetStart, r.TargetEnd, len(tgt.Tokens))
					}
					if k > 0 && sorted[k-1].TargetStart > r.TargetStart {
						hw = "sort.Sort(matched) did not order by TargetStart"
					}
				}
				o.verdict("C17", "h"+id, hw == "", true, "hyp:"+hxs(a)+"|"+hxs(b), map[string]interface{}{"what": hw, "source_hex": hxs(a), "target_hex": hxs(b)})
			}
		}
	}
	// the same stages on synthetic sorted lists (the inner loops of mergeConsecutiveRanges are hardly
	// reached through FindPotentialMatches): random ranges over a small target, sorted by the code's own
	// Less, run through the real untangle/split/merge/coalesce
	ns := 400
	if vthorough() {
		ns = 60000
	}
	for i := 0; i < ns; i++ {
		rr := r.fork(uint64(3000000 + i))
		nt := 6 + rr.intn(30)
		sz := 1 + rr.intn(5)
		var l MatchRanges
		for k := 0; k < 1+rr.intn(12); k++ {
			ts := rr.intn(nt - 1)
			w := sz
			if rr.chance(1, 4) {
				w = 1 + rr.intn(6)
			}
			if ts+w > nt {
				w = nt - ts
			}
			ss := rr.intn(nt)
			sw := w
			if rr.chance(1, 5) {
				sw = 1 + rr.intn(6)
			}
			l = append(l, &MatchRange{SrcStart: ss, SrcEnd: ss + sw, TargetStart: ts, TargetEnd: ts + w})
		}
		sort.Sort(l)
		in := vshowMRs(l)
		var out []MatchRanges
		pan, msg := catch(func() {
			out = mergeConsecutiveRanges(splitRanges(untangleSourceRanges(l)))
			for k := range out {
				out[k] = coalesceMatchRanges(out[k])
			}
		})
		id := fmt.Sprintf("y%d", i)
		res := "PANIC " + msg
		if !pan {
			res = vshowGroups(out)
		}
		o.corr("v1post", id, []string{in}, res)
		// the property's facts on these outputs too
		w := ""
		for gi, g := range out {
			if len(g) == 0 {
				w = fmt.Sprintf("group %d is empty", gi)
			}
			for ri, x := range g {
				if !(0 <= x.TargetStart && x.TargetStart < x.TargetEnd && x.TargetEnd <= nt) {
					w = fmt.Sprintf("group %d range %d target [%d,%d) outside %d tokens", gi, ri, x.TargetStart, x.TargetEnd, nt)
				}
				if ri > 0 && g[ri-1].TargetStart > x.TargetStart {
					w = fmt.Sprintf("group %d not ordered by target position at %d", gi, ri)
				}
			}
		}
		if pan {
			w = "post-processing panicked: " + msg
		}
		o.verdict("C17", id, w == "", len(out) > 0, "syn:"+in, map[string]interface{}{"what": w, "sorted": in})
	}
	o.stat("C17", map[string]interface{}{"strings": n, "pairs": m, "synthetic_lists": ns})
}
