//go:build verif

package pq

import (
	"fmt"
	"sort"
	"strings"
	"testing"
)

type vitem struct {
	prio  int
	index int
}

func vshow(q *Queue) string {
	var sb strings.Builder
	sb.WriteByte('[')
	for i, x := range q.heap.a {
		if i > 0 {
			sb.WriteByte(' ')
		}
		it := x.(*vitem)
		fmt.Fprintf(&sb, "%d@%d", it.prio, it.index)
	}
	sb.WriteByte(']')
	return sb.String()
}

// runHeapCase executes an op sequence on the real Queue. It returns the
// canonical trace (compared with the Lean model) and the first violation of
// C20's queue clauses found by an independent reference (sorted multiset).
func runHeapCase(ops []string) (trace string, violation string) {
	q := NewQueue(func(x, y interface{}) bool { return x.(*vitem).prio < y.(*vitem).prio },
		func(x interface{}, idx int) { x.(*vitem).index = idx })
	var ref []int // reference multiset
	var out []string
	check := func(op string) {
		if violation != "" {
			return
		}
		if q.Len() != len(ref) {
			violation = fmt.Sprintf("after %s: Len=%d, reference has %d", op, q.Len(), len(ref))
			return
		}
		var got []int
		for i, x := range q.heap.a {
			it := x.(*vitem)
			got = append(got, it.prio)
			if it.index != i {
				violation = fmt.Sprintf("after %s: element prio=%d at position %d was told index %d", op, it.prio, i, it.index)
				return
			}
		}
		sort.Ints(got)
		s := append([]int(nil), ref...)
		sort.Ints(s)
		if fmt.Sprint(got) != fmt.Sprint(s) {
			violation = fmt.Sprintf("after %s: multiset %v, reference %v", op, got, s)
		}
	}
	removeRef := func(v int) {
		for i, r := range ref {
			if r == v {
				ref = append(ref[:i], ref[i+1:]...)
				return
			}
		}
	}
	for _, op := range ops {
		var res string
		panicked, _ := catch(func() {
			switch op[0] {
			case 'P':
				var v int
				fmt.Sscanf(op[1:], "%d", &v)
				q.Push(&vitem{prio: v, index: -1})
				ref = append(ref, v)
				res = "-"
			case 'O':
				it := q.Pop().(*vitem)
				res = fmt.Sprint(it.prio)
				for _, r := range ref {
					if r < it.prio && violation == "" {
						violation = fmt.Sprintf("Pop returned %d but %d was queued", it.prio, r)
					}
				}
				removeRef(it.prio)
			case 'R':
				var i int
				fmt.Sscanf(op[1:], "%d", &i)
				var want *vitem
				if i >= 0 && i < len(q.heap.a) {
					want = q.heap.a[i].(*vitem)
				}
				before := append([]interface{}(nil), q.heap.a...)
				q.Remove(i)
				// Queue.Remove returns nothing; find what left the queue.
				gone := -1
				for _, b := range before {
					found := false
					for _, a := range q.heap.a {
						if a == b {
							found = true
						}
					}
					if !found {
						if b != interface{}(want) && violation == "" {
							violation = fmt.Sprintf("Remove(%d) removed prio=%d, not the element at that index", i, b.(*vitem).prio)
						}
						gone = b.(*vitem).prio
					}
				}
				res = fmt.Sprint(gone)
				removeRef(gone)
			case 'F':
				var i, v int
				fmt.Sscanf(op[1:], "%d:%d", &i, &v)
				if i < 0 || i >= len(q.heap.a) {
					panic("index")
				}
				it := q.heap.a[i].(*vitem)
				removeRef(it.prio)
				it.prio = v
				ref = append(ref, v)
				q.Fix(i)
				res = "-"
			}
		})
		if panicked {
			out = append(out, "PANIC")
			break
		}
		out = append(out, res+"|"+vshow(q))
		check(op)
	}
	return strings.Join(out, ";"), violation
}

func genHeapOps(r *vrand, n int, invalidOK bool) []string {
	var ops []string
	size := 0
	for len(ops) < n {
		c := r.intn(10)
		switch {
		case c < 4 || size == 0 && !invalidOK:
			ops = append(ops, fmt.Sprintf("P%d", r.intn(12)))
			size++
		case c < 6:
			if size == 0 {
				ops = append(ops, "O")
				return ops
			}
			ops = append(ops, "O")
			size--
		case c < 8:
			if size == 0 {
				ops = append(ops, fmt.Sprintf("R%d", r.intn(3)))
				return ops
			}
			i := r.intn(size)
			if invalidOK && r.chance(1, 30) {
				i = size + r.intn(2)
				ops = append(ops, fmt.Sprintf("R%d", i))
				return ops
			}
			ops = append(ops, fmt.Sprintf("R%d", i))
			size--
		default:
			if size == 0 {
				continue
			}
			ops = append(ops, fmt.Sprintf("F%d:%d", r.intn(size), r.intn(12)))
		}
	}
	return ops
}

// genHeapOpsBig: queues that actually grow (8-24 elements first), removals biased to the last
// slots of the array (where a removal needs a sift-up as well as a sift-down), wider priorities.
func genHeapOpsBig(r *vrand, n int) []string {
	var ops []string
	size := 0
	for k := 0; k < 8+r.intn(17); k++ {
		ops = append(ops, fmt.Sprintf("P%d", r.intn(40)))
		size++
	}
	for len(ops) < n {
		c := r.intn(20)
		switch {
		case c < 7 || size < 3:
			ops = append(ops, fmt.Sprintf("P%d", r.intn(40)))
			size++
		case c < 10:
			ops = append(ops, "O")
			size--
		case c < 16:
			i := r.intn(size)
			if r.chance(1, 2) {
				i = size - 1 - r.intn(3)
			}
			ops = append(ops, fmt.Sprintf("R%d", i))
			size--
		default:
			ops = append(ops, fmt.Sprintf("F%d:%d", r.intn(size), r.intn(40)))
		}
	}
	// drain: every remaining element must come out in order (a broken heap order that the ops so
	// far did not expose shows here), directly or after a few more pushes
	for k := 0; k < r.intn(4); k++ {
		ops = append(ops, fmt.Sprintf("P%d", r.intn(40)))
		size++
	}
	for ; size > 0; size-- {
		ops = append(ops, "O")
	}
	return ops
}

func TestVerifC20(t *testing.T) {
	o := newVout()
	defer o.close()
	r := newVrand(vseed())
	n := 0
	distinct := map[string]bool{}
	emit := func(id string, ops []string) {
		trace, viol := runHeapCase(ops)
		o.corr("heap", id, []string{strings.Join(ops, ",")}, trace)
		key := strings.Join(ops, ",")
		o.verdict("C20", id, viol == "", len(ops) >= 3, key, map[string]interface{}{"ops": key, "violation": viol, "trace": trace})
		distinct[key] = true
		n++
	}
	// exhaustive: all sequences up to length L over a small op alphabet
	alpha := []string{"P1", "P2", "P0", "O", "R0", "R1", "F0:3", "F1:0", "F2:1"}
	L := 4
	if vthorough() {
		L = 6
	}
	var rec func(prefix []string, size int)
	cnt := 0
	rec = func(prefix []string, size int) {
		if len(prefix) > 0 {
			emit(fmt.Sprintf("hx%d", cnt), prefix)
			cnt++
		}
		if len(prefix) == L {
			return
		}
		for _, a := range alpha {
			ns := size
			switch a[0] {
			case 'P':
				ns++
			case 'O':
				if size == 0 {
					continue // a panic ends a history; covered by the random stream
				}
				ns--
			case 'R':
				if int(a[1]-'0') >= size {
					continue
				}
				ns--
			case 'F':
				if int(a[1]-'0') >= size {
					continue
				}
			}
			rec(append(append([]string(nil), prefix...), a), ns)
		}
	}
	rec(nil, 0)
	// random long histories
	cases, length := 300, 60
	if vthorough() {
		cases, length = 20000, 400
	}
	for i := 0; i < cases; i++ {
		emit(fmt.Sprintf("hr%d", i), genHeapOps(r.fork(uint64(i)), 5+r.intn(length), true))
	}
	for i := 0; i < cases; i++ {
		emit(fmt.Sprintf("hb%d", i), genHeapOpsBig(r.fork(uint64(700000+i)), 30+r.intn(length)))
	}
	// queues that hold hundreds of elements and are then drained by Pop and Remove (what a backing
	// array does when it grows past, and shrinks below, a size threshold), with Fix calls in between
	huge := 6
	if vthorough() {
		huge = 200
	}
	for i := 0; i < huge; i++ {
		rr := r.fork(uint64(900000 + i))
		var ops []string
		size := 0
		for k := 0; k < 70+rr.intn(400); k++ {
			ops = append(ops, fmt.Sprintf("P%d", rr.intn(1000)))
			size++
		}
		for size > 0 {
			switch c := rr.intn(10); {
			case c < 6:
				ops = append(ops, "O")
				size--
			case c < 8:
				ops = append(ops, fmt.Sprintf("R%d", rr.intn(size)))
				size--
			default:
				ops = append(ops, fmt.Sprintf("F%d:%d", rr.intn(size), rr.intn(1000)))
			}
		}
		emit(fmt.Sprintf("hh%d", i), ops)
	}
	o.stat("C20", map[string]interface{}{"heap_cases": n, "heap_distinct": len(distinct), "exhaustive_len": L, "exhaustive_cases": cnt})
}
