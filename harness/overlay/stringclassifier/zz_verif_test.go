//go:build verif

package stringclassifier

import (
	"github.com/google/licenseclassifier/stringclassifier/searchset"
	"encoding/json"
	"fmt"
	"go/ast"
	"go/parser"
	gotoken "go/token"
	"os"
	"sort"
	"strings"
	"sync"
	"testing"
)

func vshowMatches(ms Matches) string {
	var ps []string
	for _, m := range ms {
		ps = append(ps, fmt.Sprintf("%s|%.6f|%d|%d", m.Name, m.Confidence, m.Offset, m.Extent))
	}
	return strings.Join(ps, ";")
}

var vvocabSmall = []string{"alpha", "beta", "gamma", "delta", "the", "of"}
var vvocabLarge = []string{"permission", "hereby", "granted", "free", "charge", "person", "obtaining", "copy", "software", "associated", "documentation", "files", "deal", "without", "restriction", "including", "limitation", "rights", "use", "modify", "merge", "publish", "distribute", "sublicense", "sell", "copies", "permit", "persons", "whom", "furnished", "subject", "following", "conditions", "notice", "shall", "included", "substantial", "portions", "provided", "warranty", "kind", "express", "implied", "merchantability", "fitness", "particular", "purpose", "noninfringement", "event", "authors", "holders", "liable", "claim", "damages", "liability", "action", "contract", "tort", "otherwise", "arising", "connection"}

func vgenValue(r *vrand, ntok int, kind int) string {
	special := []string{"(", ")", "[", "]", "*", "+", "?", ".", "\\", "^", "$", "|", "{", "}", "a(b", "c++", "[x", "x|y", "é", "日本", "\xff", "©"}
	var ws []string
	for i := 0; i < ntok; i++ {
		switch kind {
		case 0:
			ws = append(ws, vvocabSmall[r.intn(len(vvocabSmall))])
		case 1:
			ws = append(ws, vvocabLarge[r.intn(len(vvocabLarge))])
		default:
			if r.chance(1, 4) {
				ws = append(ws, special[r.intn(len(special))])
			} else {
				ws = append(ws, vvocabLarge[r.intn(len(vvocabLarge))])
			}
		}
	}
	// values that END in a word with multi-byte characters (byte length and rune count differ exactly
	// where the byte range of a match is computed from its last token)
	if kind == 2 && r.chance(1, 2) {
		ws = append(ws, []string{"libert\u00e9", "\u8bb8\u53ef\u8bc1", "na\u00efve", "stra\u00dfe", "\u00a9"}[r.intn(5)])
	}
	return strings.Join(ws, " ")
}

func vfiller(r *vrand, n int) string {
	oov := []string{"zyxqv", "qwrtzp", "blorfen", "xkcdq", "vmnbzz", "plighq"}
	var ws []string
	for i := 0; i < n; i++ {
		ws = append(ws, oov[r.intn(len(oov))])
	}
	return strings.Join(ws, " ")
}

// vcontainsTokenwise: does text a occur in b as a whole-token sequence?
func vcontains(a, b string) bool { return strings.Contains(" "+b+" ", " "+a+" ") }

func TestVerifC13(t *testing.T) {
	o := newVout()
	defer o.close()
	r := newVrand(vseed() + 13)
	nsets := 60
	if vthorough() {
		nsets = 4000
	}
	nAdd, nPlant := 0, 0
	for si := 0; si < nsets; si++ {
		rr := r.fork(uint64(si))
		kind := si % 3
		norm := []NormalizeFunc{FlattenWhitespace}
		if si%4 == 0 {
			norm = append(norm, strings.ToLower)
		}
		th := []float64{0.8, 0.5, 0.9, 1.0, 0.8, 0.3, 1.0}[si%7]
		c := New(th, norm...)
		var values []string
		nv := 1 + rr.intn(4)
		for len(values) < nv {
			ntok := []int{1, 2, 3, 5, 8, 20, 60}[rr.intn(7)]
			v := vgenValue(rr, ntok, kind)
			switch rr.intn(6) { // values as users register them: stray white space at the ends
			case 0:
				v = v + " "
			case 1:
				v = v + "\n"
			case 2:
				v = "  " + v
			}
			ok := strings.TrimSpace(v) != ""
			for _, w := range values { // none occurs inside another
				if strings.Contains(w, v) || strings.Contains(v, w) {
					ok = false
				}
			}
			if ok {
				values = append(values, v)
			} else if rr.chance(1, 10) {
				break
			}
		}
		// near-duplicate values (one word differs): neither occurs inside the other, but each is a
		// high-confidence fuzzy match of the other's verbatim copy
		if si%3 == 2 && len(values) > 0 {
			ws := strings.Fields(values[len(values)-1])
			if len(ws) >= 20 {
				ws[len(ws)/2] = "qqq"
				nd := strings.Join(ws, " ")
				values = append(values, nd)
				if rr.chance(1, 2) { // let the edited twin get the alphabetically earlier key
					values[len(values)-1], values[len(values)-2] = values[len(values)-2], values[len(values)-1]
				}
			}
		}
		addPanic := ""
		for i, v := range values {
			key := fmt.Sprintf("v%d", i)
			pan, msg := catch(func() { c.AddValue(key, v) })
			nAdd++
			o.verdict("C13", fmt.Sprintf("s%d_add%d", si, i), !pan, true, "add:"+hxs(v), map[string]interface{}{"what": "AddValue panicked: " + msg, "value_hex": hxs(v)})
			if pan {
				addPanic = msg
			}
		}
		if addPanic != "" {
			continue
		}
		// NearestMatch of a value equal to a known value
		for i, v := range values {
			var m *Match
			pan, msg := catch(func() { m = c.NearestMatch(v) })
			what := ""
			if pan {
				what = "NearestMatch panicked: " + msg
			} else if c.normalize(v) != "" && (m.Confidence != 1.0 || c.normalize(values[vidx(m.Name)]) != c.normalize(v)) {
				what = fmt.Sprintf("NearestMatch(value %d) = %+v", i, *m)
			}
			o.verdict("C13", fmt.Sprintf("s%d_near%d", si, i), what == "", true, "near:"+hxs(v), map[string]interface{}{"what": what, "values_hex": vhexAll(values), "i": i})
		}
		// plant a verbatim copy of one value in unrelated text
		for k := 0; k < 5; k++ {
			vi := rr.intn(len(values))
			v := values[vi]
			pre, post := vfiller(rr, rr.intn(6)), vfiller(rr, rr.intn(6))
			if k == 4 {
				// an INEXACT hit at the very end of the text: the value without its last words (its byte
				// range is shorter than the value; Offset+Extent must still stay inside the text)
				ws := strings.Fields(v)
				if len(ws) < 12 {
					continue
				}
				v = strings.Join(ws[:len(ws)*85/100], " ")
				post = ""
			}
			if k == 3 { // two (sometimes three) copies of the same value: each must be reported
				pre = pre + " " + v + " " + vfiller(rr, 1+rr.intn(5))
				if rr.chance(1, 3) {
					post = vfiller(rr, 1+rr.intn(3)) + " " + v + " " + post
				}
			}
			if k == 2 || k == 4 {
				post = "" // copy at the very end
			}
			if k == 1 {
				pre = ""
			}
			unknown := strings.TrimSpace(pre + " " + v + " " + post)
			if k == 2 && strings.TrimSpace(v) != v {
				unknown = strings.TrimLeft(pre+" "+v, " ") // the copy, stray blanks included, ends the text
			}
			var ms Matches
			o.attempt("C13", fmt.Sprintf("s%d_plant%d", si, k), map[string]interface{}{"call": "MultipleMatch", "unknown_hex": hxs(unknown), "values_hex": vhexAll(values), "threshold": th})
			pan, msg := catch(func() { ms = c.MultipleMatch(unknown) })
			normU, normV := c.normalize(unknown), c.normalize(v)
			// stage v1exact: the exact path of findMatches (literal occurrences -> token range -> byte
			// range), white-box, against LC/Model/V1Glue + V1Tok; threshold 0 so that nothing is filtered
			if !pan && normV != "" {
				res := "fuzzy"
				if findAllIndex(normU, normV) != nil {
					mm := newMatcher(normU, 0)
					kv := &knownValue{key: "k", normalizedValue: normV, set: searchset.New(normV, searchset.DefaultGranularity)}
					mm.findMatches(kv)
					var prs [][2]int
					for mm.queue.Len() > 0 {
						x := mm.queue.Pop().(*Match)
						prs = append(prs, [2]int{x.Offset, x.Extent})
					}
					// the queue orders by confidence; the model lists occurrences in text order
					sort.Slice(prs, func(i, j int) bool {
						if prs[i][0] != prs[j][0] {
							return prs[i][0] < prs[j][0]
						}
						return prs[i][1] < prs[j][1]
					})
					var ps []string
					for _, pr := range prs {
						ps = append(ps, fmt.Sprintf("%d:%d", pr[0], pr[1]))
					}
					res = strings.Join(ps, " ")
				}
				o.corr("v1exact", fmt.Sprintf("x%d_%d", si, k), []string{hxs(normU), hxs(normV)}, res)
			}
			what := ""
			nPlant++
			if pan {
				what = "MultipleMatch panicked: " + msg
			} else {
				for _, m := range ms {
					if !(m.Confidence > 0 && m.Confidence <= 1) {
						what = fmt.Sprintf("confidence %v outside (0,1]", m.Confidence)
					}
					if m.Offset < 0 || m.Extent < 0 || m.Offset+m.Extent > len(normU) {
						what = fmt.Sprintf("match %+v lies outside the normalised unknown (%d bytes)", *m, len(normU))
					}
				}
				// token-aligned occurrences of normV in normU
				if what == "" && normV != "" && k != 4 { // k == 4 plants no verbatim copy
					off := strings.Index(" "+normU+" ", " "+strings.TrimSpace(normV)+" ")
					if strings.TrimSpace(normV) != normV {
						// the registered text itself begins/ends with a blank: the copy is where that exact text occurs
						off = strings.Index(normU, normV)
					}
					// every token-aligned copy, left to right, non-overlapping
					for off >= 0 && strings.TrimSpace(normV) == normV && what == "" {
						found := false
						for _, m := range ms {
							if m.Name == fmt.Sprintf("v%d", vi) && m.Confidence == 1.0 && m.Offset == off && m.Extent == len(normV) {
								found = true
							}
						}
						if !found {
							what = fmt.Sprintf("value %d planted at byte %d (extent %d) of %q; MultipleMatch reported %s", vi, off, len(normV), normU, vshowMatches(ms))
						}
						next := strings.Index((" " + normU + " ")[off+len(normV)+1:], " "+normV+" ")
						if next < 0 {
							break
						}
						off = off + len(normV) + 1 + next
					}
				}
			}
			inside := ""
			if !pan {
				for _, m := range ms {
					if m.Offset < 0 || m.Extent < 0 || m.Offset+m.Extent > len(normU) {
						inside = fmt.Sprintf("match %+v cannot slice the normalised unknown (%d bytes)", *m, len(normU))
					}
				}
			}
			o.verdict("C17", fmt.Sprintf("s%d_slice%d", si, k), inside == "", len(ms) > 0, "slice:"+hxs(unknown), map[string]interface{}{"what": inside, "unknown_hex": hxs(unknown), "values_hex": vhexAll(values), "threshold": th})
			o.verdict("C13", fmt.Sprintf("s%d_plant%d", si, k), what == "", true, "plant:"+hxs(unknown)+"|"+strings.Join(vhexAll(values), ","), map[string]interface{}{"what": what, "unknown_hex": hxs(unknown), "values_hex": vhexAll(values), "planted": vi, "threshold": th})
		}
	}
	o.stat("C13", map[string]interface{}{"value_sets": nsets, "addvalue_calls": nAdd, "plantings": nPlant})
}

func vidx(name string) int {
	var i int
	fmt.Sscanf(name, "v%d", &i)
	return i
}
func vhexAll(vs []string) []string {
	var out []string
	for _, v := range vs {
		out = append(out, hxs(v))
	}
	return out
}

// TestVerifC14 is run with -race by bin/check.
func TestVerifC14(t *testing.T) {
	o := newVout()
	defer o.close()
	r := newVrand(vseed() + 14)
	G, rounds := 8, 6
	if vthorough() {
		G, rounds = 48, 40
	}
	for round := 0; round < rounds; round++ {
		rr := r.fork(uint64(round))
		var vals []string
		for i := 0; i < 6; i++ {
			vals = append(vals, vgenValue(rr.fork(uint64(i)), 8+i*5, 1))
		}
		mk := func() *Classifier {
			c := New(0.8, FlattenWhitespace)
			for i, v := range vals {
				c.AddValue(fmt.Sprintf("v%d", i), v)
			}
			return c
		}
		seqC := mk()
		var queries []string
		for i := 0; i < 10; i++ {
			q := vfiller(rr, 3) + " " + vals[rr.intn(len(vals))] + " " + vfiller(rr, 2)
			if i%3 == 0 {
				ws := strings.Fields(vals[rr.intn(len(vals))])
				ws[rr.intn(len(ws))] = "zzz"
				q = strings.Join(ws, " ")
			}
			queries = append(queries, q)
		}
		want := map[string]string{}
		wantN := map[string]string{}
		for _, q := range queries {
			want[q] = vshowMatches(seqC.MultipleMatch(q))
			nm := seqC.NearestMatch(q)
			wantN[q] = fmt.Sprintf("%s|%.6f", nm.Name, nm.Confidence)
		}
		// fresh classifier: lazy search sets are still nil when the goroutines start
		conC := mk()
		var wg sync.WaitGroup
		var mu sync.Mutex
		bad := ""
		for g := 0; g < G; g++ {
			wg.Add(1)
			go func(g int) {
				defer wg.Done()
				for k, q := range queries {
					if (g+k)%5 == 4 {
						conC.AddValue(fmt.Sprintf("extra%d_%d", g, k), vfiller(newVrand(uint64(g*100+k)), 12))
						continue
					}
					if (g+k)%2 == 0 {
						// extra values are OOV filler and can never match the queries' licensed parts
						got := vshowMatches(vfilterExtra(conC.MultipleMatch(q)))
						if got != want[q] {
							mu.Lock()
							if bad == "" {
								bad = fmt.Sprintf("MultipleMatch(%q) concurrent %s sequential %s", q, got, want[q])
							}
							mu.Unlock()
						}
					} else {
						nm := conC.NearestMatch(q)
						got := fmt.Sprintf("%s|%.6f", nm.Name, nm.Confidence)
						if got != wantN[q] && !strings.HasPrefix(nm.Name, "extra") {
							mu.Lock()
							if bad == "" {
								bad = fmt.Sprintf("NearestMatch(%q) concurrent %s sequential %s", q, got, wantN[q])
							}
							mu.Unlock()
						}
					}
				}
			}(g)
		}
		wg.Wait()
		o.verdict("C14", fmt.Sprintf("round%d", round), bad == "", true, fmt.Sprintf("round%d", round), map[string]interface{}{"what": bad, "goroutines": G})
	}
	o.stat("C14", map[string]interface{}{"goroutines": G, "rounds": rounds})
}

func vfilterExtra(ms Matches) Matches {
	var out Matches
	for _, m := range ms {
		if !strings.HasPrefix(m.Name, "extra") {
			out = append(out, m)
		}
	}
	sort.Sort(out)
	return out
}

// TestVerifDump extracts, from the AST of classifier.go, the order in which the goroutine body of
// multipleMatch takes the lock and touches the lazily built field `set` (facts only).
func TestVerifDump(t *testing.T) {
	fset := gotoken.NewFileSet()
	f, err := parser.ParseFile(fset, "classifier.go", nil, 0)
	if err != nil {
		t.Fatal(err)
	}
	var events []string
	mentionsSet := func(n ast.Node) bool {
		found := false
		ast.Inspect(n, func(m ast.Node) bool {
			if se, ok := m.(*ast.SelectorExpr); ok && se.Sel.Name == "set" {
				found = true
			}
			return true
		})
		return found
	}
	var walk func(stmts []ast.Stmt)
	walk = func(stmts []ast.Stmt) {
		for _, st := range stmts {
			switch x := st.(type) {
			case *ast.ExprStmt:
				if ce, ok := x.X.(*ast.CallExpr); ok {
					if se, ok := ce.Fun.(*ast.SelectorExpr); ok {
						switch se.Sel.Name {
						case "Lock", "RLock":
							events = append(events, "lock")
							continue
						case "Unlock", "RUnlock":
							events = append(events, "unlock")
							continue
						case "findMatches":
							events = append(events, "use")
							continue
						}
					}
					if mentionsSet(ce) {
						events = append(events, "rd")
					}
				}
			case *ast.IfStmt:
				if mentionsSet(x.Cond) {
					events = append(events, "rd")
				}
				walk(x.Body.List)
				if eb, ok := x.Else.(*ast.BlockStmt); ok {
					walk(eb.List)
				}
			case *ast.AssignStmt:
				for _, r := range x.Rhs {
					if mentionsSet(r) {
						events = append(events, "rd")
					}
				}
				for _, l := range x.Lhs {
					if mentionsSet(l) {
						events = append(events, "wr")
					}
				}
			case *ast.BlockStmt:
				walk(x.List)
			}
		}
	}
	ast.Inspect(f, func(n ast.Node) bool {
		fd, ok := n.(*ast.FuncDecl)
		if !ok || fd.Name.Name != "multipleMatch" {
			return true
		}
		ast.Inspect(fd, func(m ast.Node) bool {
			if gs, ok := m.(*ast.GoStmt); ok {
				if fl, ok := gs.Call.Fun.(*ast.FuncLit); ok {
					walk(fl.Body.List)
				}
				return false
			}
			return true
		})
		return false
	})
	locks := vlockSkeletons(t)
	b, _ := json.Marshal(map[string]interface{}{"multipleMatchSkeleton": events, "locks": locks})
	if err := os.WriteFile(os.Getenv("VERIF_OUT")+"/v1protocol.json", b, 0o644); err != nil {
		t.Fatal(err)
	}
}


// ---------------------------------------------------------------------------
// Lock-region skeletons for the map `values` guarded by `muValues` (LC/Model/RW.lean): every
// function and every goroutine literal of the package's non-test files that mentions either, as a
// Lean term of type LC.RW.Blk. The extractor only reports; LC.RW.accepts decides.

func vlockSkeletons(t *testing.T) [][2]string {
	fset := gotoken.NewFileSet()
	pkgs, err := parser.ParseDir(fset, ".", func(fi os.FileInfo) bool { return !strings.HasSuffix(fi.Name(), "_test.go") }, 0)
	if err != nil {
		t.Fatal(err)
	}
	isValues := func(e ast.Expr) bool { // the selector `<x>.values`
		se, ok := e.(*ast.SelectorExpr)
		return ok && se.Sel.Name == "values"
	}
	mentions := func(n ast.Node, name string) bool {
		found := false
		if n == nil {
			return false
		}
		ast.Inspect(n, func(m ast.Node) bool {
			if se, ok := m.(*ast.SelectorExpr); ok && se.Sel.Name == name {
				found = true
			}
			if _, ok := m.(*ast.FuncLit); ok {
				return false // a literal's body is a skeleton of its own (goroutine) or inlined below
			}
			return true
		})
		return found
	}
	muCall := func(e ast.Expr) string { // muValues.Lock() etc.
		ce, ok := e.(*ast.CallExpr)
		if !ok {
			return ""
		}
		se, ok := ce.Fun.(*ast.SelectorExpr)
		if !ok {
			return ""
		}
		x, ok := se.X.(*ast.SelectorExpr)
		if !ok || x.Sel.Name != "muValues" {
			return ""
		}
		return se.Sel.Name
	}
	var out [][2]string
	var lits []*ast.FuncLit
	var blk func(stmts []ast.Stmt, inLoop bool) string
	cons := func(items []string) string {
		r := ".nil"
		for i := len(items) - 1; i >= 0; i-- {
			r = "(.cons " + items[i] + " " + r + ")"
		}
		return r
	}
	rdIf := func(n ast.Node) []string {
		if mentions(n, "values") {
			return []string{"(.s (.a .rd))"}
		}
		return nil
	}
	var stmt func(st ast.Stmt, inLoop bool) []string
	stmt = func(st ast.Stmt, inLoop bool) []string {
		switch x := st.(type) {
		case nil:
			return nil
		case *ast.ExprStmt:
			switch muCall(x.X) {
			case "Lock":
				return []string{"(.s (.a .lock))"}
			case "Unlock":
				return []string{"(.s (.a .unlock))"}
			case "RLock":
				return []string{"(.s (.a .rlock))"}
			case "RUnlock":
				return []string{"(.s (.a .runlock))"}
			}
			if ce, ok := x.X.(*ast.CallExpr); ok {
				if id, ok := ce.Fun.(*ast.Ident); ok && (id.Name == "delete" || id.Name == "clear") && len(ce.Args) > 0 && mentions(ce.Args[0], "values") {
					return []string{"(.s (.a .wr))"}
				}
			}
			return rdIf(x)
		case *ast.DeferStmt:
			switch muCall(x.Call) {
			case "Unlock":
				return []string{"(.s .deferUnlock)"}
			case "RUnlock":
				return []string{"(.s .deferRUnlock)"}
			case "Lock", "RLock":
				return []string{"(.s .alias)"} // a deferred acquisition: not a shape the checker knows
			}
			if fl, ok := x.Call.Fun.(*ast.FuncLit); ok && (mentions(fl.Body, "values") || mentions(fl.Body, "muValues")) {
				return []string{"(.s .alias)"} // deferred closures touching the location: rejected
			}
			return rdIf(x.Call)
		case *ast.GoStmt:
			if fl, ok := x.Call.Fun.(*ast.FuncLit); ok {
				lits = append(lits, fl)
			}
			var r []string
			for _, a := range x.Call.Args {
				r = append(r, rdIf(a)...)
			}
			return r
		case *ast.ReturnStmt:
			var r []string
			for _, e := range x.Results {
				r = append(r, rdIf(e)...)
			}
			return append(r, "(.s .ret)")
		case *ast.BranchStmt:
			if x.Tok == gotoken.GOTO || x.Tok == gotoken.FALLTHROUGH || x.Label != nil || !inLoop {
				return []string{"(.s .alias)"} // labelled jumps / goto: not modelled, rejected
			}
			return []string{"(.s .jump)"}
		case *ast.AssignStmt:
			var r []string
			for _, e := range x.Rhs {
				if isValues(e) {
					r = append(r, "(.s .alias)") // the map header escapes: m := c.values
				} else {
					r = append(r, rdIf(e)...)
				}
			}
			for _, e := range x.Lhs {
				if ix, ok := e.(*ast.IndexExpr); ok && mentions(ix.X, "values") {
					r = append(r, "(.s (.a .wr))")
				} else if isValues(e) {
					r = append(r, "(.s (.a .wr))")
				} else {
					r = append(r, rdIf(e)...)
				}
			}
			return r
		case *ast.DeclStmt, *ast.IncDecStmt, *ast.SendStmt:
			return rdIf(x)
		case *ast.BlockStmt:
			var r []string
			for _, y := range x.List {
				r = append(r, stmt(y, inLoop)...)
			}
			return r
		case *ast.LabeledStmt:
			return []string{"(.s .alias)"}
		case *ast.IfStmt:
			r := stmt(x.Init, inLoop)
			r = append(r, rdIf(x.Cond)...)
			body := blk(x.Body.List, inLoop)
			switch e := x.Else.(type) {
			case nil:
				r = append(r, "(.opt "+body+")")
			case *ast.BlockStmt:
				r = append(r, "(.alt "+body+" "+blk(e.List, inLoop)+")")
			default:
				r = append(r, "(.alt "+body+" "+cons(stmt(e, inLoop))+")")
			}
			return r
		case *ast.ForStmt:
			r := stmt(x.Init, inLoop)
			var b []string
			b = append(b, rdIf(x.Cond)...)
			for _, y := range x.Body.List {
				b = append(b, stmt(y, true)...)
			}
			b = append(b, stmt(x.Post, true)...)
			return append(r, "(.loop "+cons(b)+")")
		case *ast.RangeStmt:
			var r, b []string
			if isValues(x.X) || mentions(x.X, "values") {
				r = append(r, "(.s (.a .rd))")
				b = append(b, "(.s (.a .rd))") // every iteration step reads the map
			}
			for _, y := range x.Body.List {
				b = append(b, stmt(y, true)...)
			}
			return append(r, "(.loop "+cons(b)+")")
		case *ast.SwitchStmt, *ast.TypeSwitchStmt, *ast.SelectStmt:
			var r []string
			var body *ast.BlockStmt
			switch y := x.(type) {
			case *ast.SwitchStmt:
				r = append(r, stmt(y.Init, inLoop)...)
				r = append(r, rdIf(y.Tag)...)
				body = y.Body
			case *ast.TypeSwitchStmt:
				body = y.Body
			case *ast.SelectStmt:
				body = y.Body
			}
			for _, c := range body.List {
				var cb []ast.Stmt
				switch cc := c.(type) {
				case *ast.CaseClause:
					for _, e := range cc.List {
						r = append(r, rdIf(e)...)
					}
					cb = cc.Body
				case *ast.CommClause:
					cb = cc.Body
				}
				// `break` inside a switch leaves the switch, not a loop: not modelled -> reject via inLoop=false
				r = append(r, "(.opt "+blk(cb, false)+")")
			}
			return r
		}
		return rdIf(st)
	}
	blk = func(stmts []ast.Stmt, inLoop bool) string {
		var items []string
		for _, y := range stmts {
			items = append(items, stmt(y, inLoop)...)
		}
		return cons(items)
	}
	var files []string
	for _, p := range pkgs {
		for fn := range p.Files {
			files = append(files, fn)
		}
	}
	sort.Strings(files)
	for _, p := range pkgs {
		for _, fn := range files {
			f := p.Files[fn]
			if f == nil {
				continue
			}
			for _, d := range f.Decls {
				fd, ok := d.(*ast.FuncDecl)
				if !ok || fd.Body == nil {
					continue
				}
				touches := false
				ast.Inspect(fd.Body, func(m ast.Node) bool {
					if se, ok := m.(*ast.SelectorExpr); ok && (se.Sel.Name == "values" || se.Sel.Name == "muValues") {
						touches = true
					}
					return true
				})
				if !touches {
					continue
				}
				lits = nil
				out = append(out, [2]string{fd.Name.Name, blk(fd.Body.List, false)})
				// goroutine literals started by this function: threads of their own
				for k := 0; k < len(lits); k++ {
					fl := lits[k]
					if mentions(fl.Body, "values") || mentions(fl.Body, "muValues") {
						out = append(out, [2]string{fmt.Sprintf("%s.go%d", fd.Name.Name, k), blk(fl.Body.List, false)})
					}
				}
			}
		}
	}
	return out
}
