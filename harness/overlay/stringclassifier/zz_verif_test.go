//go:build verif

package stringclassifier

import (
	"github.com/google/licenseclassifier/stringclassifier/searchset"
	"encoding/json"
	"fmt"
	"go/ast"
	"go/parser"
	gotoken "go/token"
	"os"
	"sort"
	"strings"
	"sync"
	"testing"
	"unicode"
	"unicode/utf8"
)

func vshowMatches(ms Matches) string {
	var ps []string
	for _, m := range ms {
		ps = append(ps, fmt.Sprintf("%s|%.6f|%d|%d", m.Name, m.Confidence, m.Offset, m.Extent))
	}
	return strings.Join(ps, ";")
}

var vvocabSmall = []string{"alpha", "beta", "gamma", "delta", "the", "of"}
var vvocabLarge = []string{"permission", "hereby", "granted", "free", "charge", "person", "obtaining", "copy", "software", "associated", "documentation", "files", "deal", "without", "restriction", "including", "limitation", "rights", "use", "modify", "merge", "publish", "distribute", "sublicense", "sell", "copies", "permit", "persons", "whom", "furnished", "subject", "following", "conditions", "notice", "shall", "included", "substantial", "portions", "provided", "warranty", "kind", "express", "implied", "merchantability", "fitness", "particular", "purpose", "noninfringement", "event", "authors", "holders", "liable", "claim", "damages", "liability", "action", "contract", "tort", "otherwise", "arising", "connection"}

func vgenValue(r *vrand, ntok int, kind int) string {
	special := []string{"(", ")", "[", "]", "*", "+", "?", ".", "\\", "^", "$", "|", "{", "}", "a(b", "c++", "[x", "x|y", "é", "日本", "\xff", "©"}
	var ws []string
	for i := 0; i < ntok; i++ {
		switch kind {
		case 0:
			ws = append(ws, vvocabSmall[r.intn(len(vvocabSmall))])
		case 1:
			ws = append(ws, vvocabLarge[r.intn(len(vvocabLarge))])
		default:
			if r.chance(1, 4) {
				ws = append(ws, special[r.intn(len(special))])
			} else {
				ws = append(ws, vvocabLarge[r.intn(len(vvocabLarge))])
			}
		}
	}
	// values that END in a word with multi-byte characters (byte length and rune count differ exactly
	// where the byte range of a match is computed from its last token)
	if kind == 2 && r.chance(1, 2) {
		ws = append(ws, []string{"libert\u00e9", "\u8bb8\u53ef\u8bc1", "na\u00efve", "stra\u00dfe", "\u00a9"}[r.intn(5)])
	}
	return strings.Join(ws, " ")
}

func vfiller(r *vrand, n int) string {
	oov := []string{"zyxqv", "qwrtzp", "blorfen", "xkcdq", "vmnbzz", "plighq"}
	var ws []string
	for i := 0; i < n; i++ {
		ws = append(ws, oov[r.intn(len(oov))])
	}
	return strings.Join(ws, " ")
}

// vcontainsTokenwise: does text a occur in b as a whole-token sequence?
func vcontains(a, b string) bool { return strings.Contains(" "+b+" ", " "+a+" ") }

func TestVerifC13(t *testing.T) {
	o := newVout()
	defer o.close()
	r := newVrand(vseed() + 13)
	nsets := 60
	if vthorough() {
		nsets = 4000
	}
	nAdd, nPlant := 0, 0
	for si := 0; si < nsets; si++ {
		rr := r.fork(uint64(si))
		kind := si % 3
		norm := []NormalizeFunc{FlattenWhitespace}
		if si%4 == 0 {
			norm = append(norm, strings.ToLower)
		}
		th := []float64{0.8, 0.5, 0.9, 1.0, 0.8, 0.3, 1.0}[si%7]
		c := New(th, norm...)
		var values []string
		nv := 1 + rr.intn(4)
		for len(values) < nv {
			ntok := []int{1, 2, 3, 5, 8, 20, 60}[rr.intn(7)]
			v := vgenValue(rr, ntok, kind)
			switch rr.intn(10) { // values as users register them: stray white space at the ends
			case 0:
				v = v + " "
			case 1:
				v = v + "\n"
			case 2:
				v = "  " + v
			case 3: // white space outside ASCII, which FlattenWhitespace leaves alone and the tokenizer splits on
				v = v + "\u00a0"
			case 4:
				v = "\u2028" + v
			case 5:
				v = v + "\u0085"
			}
			ok := strings.TrimSpace(v) != ""
			for _, w := range values { // none occurs inside another, as registered and after normalisation
				nw, nv := c.normalize(w), c.normalize(v)
				cw, cv := strings.TrimSpace(nw), strings.TrimSpace(nv) // … nor the text between its stray blanks
				if strings.Contains(w, v) || strings.Contains(v, w) || strings.Contains(nw, nv) || strings.Contains(nv, nw) ||
					strings.Contains(cw, cv) || strings.Contains(cv, cw) {
					ok = false
				}
			}
			if ok {
				values = append(values, v)
			} else if rr.chance(1, 10) {
				break
			}
		}
		// near-duplicate values (one word differs): neither occurs inside the other, but each is a
		// high-confidence fuzzy match of the other's verbatim copy
		if si%3 == 2 && len(values) > 0 {
			ws := strings.Fields(values[len(values)-1])
			if len(ws) >= 20 {
				ws[len(ws)/2] = "qqq"
				nd := strings.Join(ws, " ")
				values = append(values, nd)
				if rr.chance(1, 2) { // let the edited twin get the alphabetically earlier key
					values[len(values)-1], values[len(values)-2] = values[len(values)-2], values[len(values)-1]
				}
			}
		}
		addPanic := ""
		for i, v := range values {
			key := fmt.Sprintf("v%d", i)
			pan, msg := catch(func() { c.AddValue(key, v) })
			nAdd++
			o.verdict("C13", fmt.Sprintf("s%d_add%d", si, i), !pan, true, "add:"+hxs(v), map[string]interface{}{"what": "AddValue panicked: " + msg, "value_hex": hxs(v)})
			if pan {
				addPanic = msg
			}
		}
		if addPanic != "" {
			continue
		}
		// NearestMatch of a value equal to a known value
		for i, v := range values {
			var m *Match
			pan, msg := catch(func() { m = c.NearestMatch(v) })
			what := ""
			if pan {
				what = "NearestMatch panicked: " + msg
			} else if c.normalize(v) != "" && (m.Confidence != 1.0 || c.normalize(values[vidx(m.Name)]) != c.normalize(v)) {
				what = fmt.Sprintf("NearestMatch(value %d) = %+v", i, *m)
			}
			o.verdict("C13", fmt.Sprintf("s%d_near%d", si, i), what == "", true, "near:"+hxs(v), map[string]interface{}{"what": what, "values_hex": vhexAll(values), "i": i})
		}
		// plant a verbatim copy of one value in unrelated text
		for k := 0; k < 9; k++ {
			vi := rr.intn(len(values))
			v := values[vi]
			pre, post := vfiller(rr, rr.intn(6)), vfiller(rr, rr.intn(6))
			planted := []int{vi}
			exactV := ""
			if k >= 5 {
				// copies of ALL the values next to each other, a few unrelated words (or none) between
				// them: shortest first (5) or in random order (6) — each copy must be reported
				if len(values) < 2 {
					continue
				}
				planted = planted[:0]
				for i := range values {
					planted = append(planted, i)
				}
				if k == 5 {
					sort.SliceStable(planted, func(a, b int) bool { return len(values[planted[a]]) < len(values[planted[b]]) })
				} else {
					for i := len(planted) - 1; i > 0; i-- {
						j := rr.intn(i + 1)
						planted[i], planted[j] = planted[j], planted[i]
					}
				}
				var parts []string
				for j, pi := range planted {
					parts = append(parts, values[pi])
					g := rr.intn(4)
					// two copies must not share the blank one ends and the next begins with (white space
					// runs are flattened to one blank): such copies overlap
					if g == 0 && (strings.TrimSpace(values[pi]) != values[pi] || (j+1 < len(planted) && strings.TrimSpace(values[planted[j+1]]) != values[planted[j+1]])) {
						g = 1
					}
					if g > 0 {
						parts = append(parts, vfiller(rr, g))
					}
				}
				vi = planted[0]
				v = strings.Join(parts, " ")
			}
			if k == 8 {
				// the copy directly followed (and sometimes preceded) by a punctuation mark, no blank in
				// between: the mark is a token of its own that begins exactly where the copy ends
				core := strings.TrimSpace(v)
				v = []string{"", "(", "\"", "\u201c"}[rr.intn(4)] + core + []string{".", ",", "\"", ")", ";", "\u201d", "?"}[rr.intn(7)]
				if strings.TrimSpace(values[vi]) != values[vi] {
					continue // a value registered with stray blanks does not occur next to a mark
				}
			}
			if k == 7 {
				// the value's text occurs literally but INSIDE a longer word (no token starts or ends
				// where the occurrence does): nothing to report at 1.0, but whatever is reported has to
				// stay inside the text and the call has to return
				planted = nil
				exactV = strings.TrimSpace(v)
				v = []string{"xx", "con", "q"}[rr.intn(3)] + strings.TrimSpace(v) + []string{"yy", "enate", ""}[rr.intn(3)]
				if rr.chance(1, 2) {
					post = ""
				}
			}
			if k == 4 {
				// an INEXACT hit at the very end of the text: the value without its last words (its byte
				// range is shorter than the value; Offset+Extent must still stay inside the text)
				ws := strings.Fields(v)
				if len(ws) < 12 {
					continue
				}
				v = strings.Join(ws[:len(ws)*85/100], " ")
				post = ""
			}
			if k == 3 { // two (sometimes three) copies of the same value: each must be reported
				pre = pre + " " + v + " " + vfiller(rr, 1+rr.intn(5))
				if rr.chance(1, 3) {
					post = vfiller(rr, 1+rr.intn(3)) + " " + v + " " + post
				}
			}
			if k == 2 || k == 4 {
				post = "" // copy at the very end
			}
			if k == 1 {
				pre = ""
			}
			unknown := strings.TrimSpace(pre + " " + v + " " + post)
			if k == 2 && strings.TrimSpace(v) != v {
				unknown = strings.TrimLeft(pre+" "+v, " ") // the copy, stray blanks included, ends the text
			}
			var ms Matches
			o.attempt("C13,C17", fmt.Sprintf("s%d_plant%d", si, k), map[string]interface{}{"call": "MultipleMatch", "unknown_hex": hxs(unknown), "values_hex": vhexAll(values), "threshold": th})
			pan, msg := catch(func() { ms = c.MultipleMatch(unknown) })
			normU, normV := c.normalize(unknown), c.normalize(v)
			if exactV != "" {
				normV = strings.TrimSpace(c.normalize(exactV))
			}
			// stage v1exact: the exact path of findMatches (literal occurrences -> token range -> byte
			// range), white-box, against LC/Model/V1Glue + V1Tok; threshold 0 so that nothing is filtered
			if !pan && normV != "" {
				res := "fuzzy"
				if findAllIndex(normU, normV) != nil {
					mm := newMatcher(normU, 0)
					kv := &knownValue{key: "k", normalizedValue: normV, set: searchset.New(normV, searchset.DefaultGranularity)}
					mm.findMatches(kv)
					var prs [][2]int
					for mm.queue.Len() > 0 {
						x := mm.queue.Pop().(*Match)
						prs = append(prs, [2]int{x.Offset, x.Extent})
					}
					// the queue orders by confidence; the model lists occurrences in text order
					sort.Slice(prs, func(i, j int) bool {
						if prs[i][0] != prs[j][0] {
							return prs[i][0] < prs[j][0]
						}
						return prs[i][1] < prs[j][1]
					})
					var ps []string
					for _, pr := range prs {
						ps = append(ps, fmt.Sprintf("%d:%d", pr[0], pr[1]))
					}
					res = strings.Join(ps, " ")
				}
				o.corr("v1exact", fmt.Sprintf("x%d_%d", si, k), []string{hxs(normU), hxs(normV)}, res)
			}
			what := ""
			nPlant++
			if pan {
				what = "MultipleMatch panicked: " + msg
			} else {
				for _, m := range ms {
					if !(m.Confidence > 0 && m.Confidence <= 1) {
						what = fmt.Sprintf("confidence %v outside (0,1]", m.Confidence)
					}
					if m.Offset < 0 || m.Extent < 0 || m.Offset+m.Extent > len(normU) {
						what = fmt.Sprintf("match %+v lies outside the normalised unknown (%d bytes)", *m, len(normU))
					}
				}
				// token-aligned occurrences of every planted value in normU: the literal normalised value,
				// white space at its ends included, whose text between that white space is delimited by
				// white space or the ends of the string
				for _, pvi := range planted {
					normV := c.normalize(values[pvi])
					core := strings.TrimFunc(normV, unicode.IsSpace)
					if what != "" || core == "" || k == 4 { // k == 4 plants no verbatim copy
						continue
					}
					lead := len(normV) - len(strings.TrimLeftFunc(normV, unicode.IsSpace))
					for from := 0; from <= len(normU) && what == ""; {
						i := strings.Index(normU[from:], normV)
						if i < 0 {
							break
						}
						off := from + i
						cs, ce := off+lead, off+lead+len(core)
						rb, _ := utf8.DecodeLastRuneInString(normU[:cs])
						ra, _ := utf8.DecodeRuneInString(normU[ce:])
						// a copy that another value's text overlaps (a value spelled by the end of one copy and
						// the beginning of the next) competes with that value's match: only one of two
						// overlapping matches is reported, and the property does not say which
						overlapped := false
						for oi, ov := range values {
							nov := c.normalize(ov)
							if oi == pvi || strings.TrimFunc(nov, unicode.IsSpace) == "" {
								continue
							}
							for f2 := 0; f2 <= len(normU); {
								j := strings.Index(normU[f2:], nov)
								if j < 0 {
									break
								}
								if f2+j < off+len(normV) && off < f2+j+len(nov) {
									overlapped = true
								}
								f2 += j + 1
							}
						}
						// … and so does another occurrence of the same value that overlaps this one (a periodic
						// value such as "the the the" behind a text that ends in "the"): the literal search
						// reports successive non-overlapping occurrences from the left
						for f2 := 0; f2 <= len(normU) && !overlapped; {
							j := strings.Index(normU[f2:], normV)
							if j < 0 {
								break
							}
							if f2+j != off && f2+j < off+len(normV) && off < f2+j+len(normV) {
								overlapped = true
							}
							f2 += j + 1
						}
						if overlapped {
							from = off + 1
							continue
						}
						// token-aligned: at either end the copy meets the end of the text, white space, or a
						// boundary with a punctuation mark on at least one side (every mark is a token)
						wordRune := func(r rune) bool { return !unicode.IsSpace(r) && !unicode.IsPunct(r) }
						cf, _ := utf8.DecodeRuneInString(normU[cs:])
						cl, _ := utf8.DecodeLastRuneInString(normU[:ce])
						if (cs == 0 || !(wordRune(rb) && wordRune(cf))) && (ce == len(normU) || !(wordRune(ra) && wordRune(cl))) {
							found := false
							for _, m := range ms {
								if m.Name == fmt.Sprintf("v%d", pvi) && m.Confidence == 1.0 && m.Offset == off && m.Extent == len(normV) {
									found = true
								}
							}
							if !found {
								what = fmt.Sprintf("value %d planted at byte %d (extent %d) of %q; MultipleMatch reported %s", pvi, off, len(normV), normU, vshowMatches(ms))
							}
							from = off + len(normV)
						} else {
							from = off + 1
						}
					}
				}
			}
			inside := ""
			if pan {
				inside = "MultipleMatch panicked: " + msg
			}
			if !pan {
				for _, m := range ms {
					if m.Offset < 0 || m.Extent < 0 || m.Offset+m.Extent > len(normU) {
						inside = fmt.Sprintf("match %+v cannot slice the normalised unknown (%d bytes)", *m, len(normU))
					}
				}
			}
			o.verdict("C17", fmt.Sprintf("s%d_slice%d", si, k), inside == "", len(ms) > 0, "slice:"+hxs(unknown), map[string]interface{}{"what": inside, "unknown_hex": hxs(unknown), "values_hex": vhexAll(values), "threshold": th})
			o.verdict("C13", fmt.Sprintf("s%d_plant%d", si, k), what == "", true, "plant:"+hxs(unknown)+"|"+strings.Join(vhexAll(values), ","), map[string]interface{}{"what": what, "unknown_hex": hxs(unknown), "values_hex": vhexAll(values), "planted": vi, "threshold": th})
		}
	}
	// stage v1uniq: Matches.uniquify on random rank-ordered lists (short ranges over a small text, so
	// that beginnings inside, at the end of and right behind earlier ranges all occur), against
	// LC/Model/V1Uniq; the kept matches are named by their rank
	nU := 300
	if vthorough() {
		nU = 20000
	}
	for i := 0; i < nU; i++ {
		rr := r.fork(uint64(700000 + i))
		var ms Matches
		var fs []string
		for j, n := 0, rr.intn(9); j < n; j++ {
			off, ext := rr.intn(40), rr.intn(14)
			if j > 0 && rr.chance(1, 4) { // right behind / at the start of an earlier one
				e := ms[rr.intn(len(ms))]
				off = e.Offset + []int{e.Extent, e.Extent + 1, 0, e.Extent - 1}[rr.intn(4)]
				if off < 0 {
					off = 0
				}
			}
			ms = append(ms, &Match{Name: fmt.Sprint(j), Confidence: 1.0 - float64(j)/100, Offset: off, Extent: ext})
			fs = append(fs, fmt.Sprintf("%d,%d", off, ext))
		}
		var kept []string
		for _, m := range ms.uniquify() {
			kept = append(kept, m.Name)
		}
		o.corr("v1uniq", fmt.Sprintf("u%d", i), []string{strings.Join(fs, ";")}, strings.Join(kept, " "))
	}
	o.stat("C13", map[string]interface{}{"value_sets": nsets, "addvalue_calls": nAdd, "plantings": nPlant, "uniquify_lists": nU})
}

func vidx(name string) int {
	var i int
	fmt.Sscanf(name, "v%d", &i)
	return i
}
func vhexAll(vs []string) []string {
	var out []string
	for _, v := range vs {
		out = append(out, hxs(v))
	}
	return out
}

// TestVerifC14 is run with -race by bin/check.
func TestVerifC14(t *testing.T) {
	o := newVout()
	defer o.close()
	r := newVrand(vseed() + 14)
	G, rounds := 8, 6
	if vthorough() {
		G, rounds = 48, 40
	}
	for round := 0; round < rounds; round++ {
		rr := r.fork(uint64(round))
		var vals []string
		for i := 0; i < 6; i++ {
			vals = append(vals, vgenValue(rr.fork(uint64(i)), 8+i*5, 1))
		}
		mk := func() *Classifier {
			c := New(0.8, FlattenWhitespace)
			for i, v := range vals {
				c.AddValue(fmt.Sprintf("v%d", i), v)
			}
			return c
		}
		seqC := mk()
		var queries []string
		for i := 0; i < 10; i++ {
			q := vfiller(rr, 3) + " " + vals[rr.intn(len(vals))] + " " + vfiller(rr, 2)
			if i%3 == 0 {
				ws := strings.Fields(vals[rr.intn(len(vals))])
				ws[rr.intn(len(ws))] = "zzz"
				q = strings.Join(ws, " ")
			}
			if i%3 == 1 {
				// copies of several values in one text: one call then collects the hits of several known
				// values at once (each is searched for in a goroutine of its own)
				q = vfiller(rr, 2)
				for _, j := range []int{rr.intn(len(vals)), rr.intn(len(vals)), rr.intn(len(vals)), rr.intn(len(vals))} {
					q += " " + vals[j] + " " + vfiller(rr, 1+rr.intn(3))
				}
			}
			queries = append(queries, q)
		}
		want := map[string]string{}
		wantN := map[string]string{}
		for _, q := range queries {
			want[q] = vshowMatches(seqC.MultipleMatch(q))
			nm := seqC.NearestMatch(q)
			wantN[q] = fmt.Sprintf("%s|%.6f", nm.Name, nm.Confidence)
		}
		// fresh classifier: lazy search sets are still nil when the goroutines start
		conC := mk()
		var wg sync.WaitGroup
		var mu sync.Mutex
		bad := ""
		for g := 0; g < G; g++ {
			wg.Add(1)
			go func(g int) {
				defer wg.Done()
				for k, q := range queries {
					if (g+k)%5 == 4 {
						conC.AddValue(fmt.Sprintf("extra%d_%d", g, k), vfiller(newVrand(uint64(g*100+k)), 12))
						continue
					}
					if (g+k)%2 == 0 {
						// extra values are OOV filler and can never match the queries' licensed parts
						got := vshowMatches(vfilterExtra(conC.MultipleMatch(q)))
						if got != want[q] {
							mu.Lock()
							if bad == "" {
								bad = fmt.Sprintf("MultipleMatch(%q) concurrent %s sequential %s", q, got, want[q])
							}
							mu.Unlock()
						}
					} else {
						nm := conC.NearestMatch(q)
						got := fmt.Sprintf("%s|%.6f", nm.Name, nm.Confidence)
						if got != wantN[q] && !strings.HasPrefix(nm.Name, "extra") {
							mu.Lock()
							if bad == "" {
								bad = fmt.Sprintf("NearestMatch(%q) concurrent %s sequential %s", q, got, wantN[q])
							}
							mu.Unlock()
						}
					}
				}
			}(g)
		}
		wg.Wait()
		o.verdict("C14", fmt.Sprintf("round%d", round), bad == "", true, fmt.Sprintf("round%d", round), map[string]interface{}{"what": bad, "goroutines": G})
	}
	o.stat("C14", map[string]interface{}{"goroutines": G, "rounds": rounds})
}

func vfilterExtra(ms Matches) Matches {
	var out Matches
	for _, m := range ms {
		if !strings.HasPrefix(m.Name, "extra") {
			out = append(out, m)
		}
	}
	sort.Sort(out)
	return out
}

// TestVerifDump extracts, from the AST of classifier.go, the order in which the goroutine body of
// multipleMatch takes the lock and touches the lazily built field `set` (facts only).
func TestVerifDump(t *testing.T) {
	fset := gotoken.NewFileSet()
	f, err := parser.ParseFile(fset, "classifier.go", nil, 0)
	if err != nil {
		t.Fatal(err)
	}
	var events []string
	mentionsSet := func(n ast.Node) bool {
		found := false
		ast.Inspect(n, func(m ast.Node) bool {
			if se, ok := m.(*ast.SelectorExpr); ok && se.Sel.Name == "set" {
				found = true
			}
			return true
		})
		return found
	}
	var walk func(stmts []ast.Stmt)
	walk = func(stmts []ast.Stmt) {
		for _, st := range stmts {
			switch x := st.(type) {
			case *ast.ExprStmt:
				if ce, ok := x.X.(*ast.CallExpr); ok {
					if se, ok := ce.Fun.(*ast.SelectorExpr); ok {
						switch se.Sel.Name {
						case "Lock", "RLock":
							events = append(events, "lock")
							continue
						case "Unlock", "RUnlock":
							events = append(events, "unlock")
							continue
						case "findMatches":
							events = append(events, "use")
							continue
						}
					}
					if mentionsSet(ce) {
						events = append(events, "rd")
					}
				}
			case *ast.IfStmt:
				if mentionsSet(x.Cond) {
					events = append(events, "rd")
				}
				walk(x.Body.List)
				if eb, ok := x.Else.(*ast.BlockStmt); ok {
					walk(eb.List)
				}
			case *ast.AssignStmt:
				for _, r := range x.Rhs {
					if mentionsSet(r) {
						events = append(events, "rd")
					}
				}
				for _, l := range x.Lhs {
					if mentionsSet(l) {
						events = append(events, "wr")
					}
				}
			case *ast.BlockStmt:
				walk(x.List)
			}
		}
	}
	ast.Inspect(f, func(n ast.Node) bool {
		fd, ok := n.(*ast.FuncDecl)
		if !ok || fd.Name.Name != "multipleMatch" {
			return true
		}
		ast.Inspect(fd, func(m ast.Node) bool {
			if gs, ok := m.(*ast.GoStmt); ok {
				if fl, ok := gs.Call.Fun.(*ast.FuncLit); ok {
					walk(fl.Body.List)
				}
				return false
			}
			return true
		})
		return false
	})
	locks := vlockSkeletons(t, "values", "muValues")
	b, _ := json.Marshal(map[string]interface{}{"multipleMatchSkeleton": events, "locks": locks})
	if err := os.WriteFile(os.Getenv("VERIF_OUT")+"/v1protocol.json", b, 0o644); err != nil {
		t.Fatal(err)
	}
}
