//go:build verif

package classifier

import (
	"bytes"
	"encoding/json"
	"fmt"
	"go/ast"
	"go/parser"
	gotoken "go/token"
	"os"
	"sort"
	"strconv"
	"strings"
	"testing"
)

// TestVerifDump writes the data tables of tokenizer.go / scoring.go as they are at run time,
// plus facts read from the AST (buffer constants, comparator field order), to tables.json.
// bin/regen.py turns them into LC/Gen/V2Tables.lean. The extractor reports facts only.
func TestVerifDump(t *testing.T) {
	out := map[string]interface{}{}
	pm := [][2]interface{}{}
	for r, s := range punctuationMappings {
		pm = append(pm, [2]interface{}{int(r), s})
	}
	sort.Slice(pm, func(i, j int) bool { return pm[i][0].(int) < pm[j][0].(int) })
	out["punctuationMappings"] = pm
	iw := [][2]string{}
	for k, v := range interchangeableWords {
		iw = append(iw, [2]string{k, v})
	}
	sort.Slice(iw, func(i, j int) bool { return iw[i][0] < iw[j][0] })
	out["interchangeableWords"] = iw
	lm := []string{}
	for k, v := range listMarker {
		if v {
			lm = append(lm, k)
		}
	}
	sort.Strings(lm)
	out["listMarker"] = lm
	ig := []string{}
	for _, re := range ignorableTexts {
		ig = append(ig, re.String())
	}
	out["ignorableTexts"] = ig
	out["eol"] = eol
	out["unknownWord"] = unknownWord
	out["unknownIndex"] = int(unknownIndex)

	// AST facts
	fset := gotoken.NewFileSet()
	consts := map[string]string{}
	if f, err := parser.ParseFile(fset, "tokenizer.go", nil, 0); err == nil {
		ast.Inspect(f, func(n ast.Node) bool {
			fd, ok := n.(*ast.FuncDecl)
			if !ok || fd.Name.Name != "tokenizeStream" {
				return true
			}
			ast.Inspect(fd, func(m ast.Node) bool {
				switch x := m.(type) {
				case *ast.ValueSpec:
					for i, nm := range x.Names {
						if i < len(x.Values) {
							if bl, ok := x.Values[i].(*ast.BasicLit); ok {
								consts[nm.Name] = bl.Value
							}
						}
					}
				case *ast.AssignStmt:
					if len(x.Lhs) == 1 && len(x.Rhs) == 1 {
						if id, ok := x.Lhs[0].(*ast.Ident); ok && id.Name == "tgt" {
							if be, ok := x.Rhs[0].(*ast.BinaryExpr); ok && be.Op == gotoken.SUB {
								if l, ok := be.X.(*ast.Ident); ok && l.Name == "bufSize" {
									if bl, ok := be.Y.(*ast.BasicLit); ok {
										consts["carry"] = bl.Value
									}
								}
							}
						}
					}
				}
				return true
			})
			return false
		})
	}
	out["tokenizeStreamConsts"] = consts
	// inducedPhrases: a map literal inside scoreDiffs
	if f, err := parser.ParseFile(fset, "scoring.go", nil, 0); err == nil {
		ast.Inspect(f, func(n ast.Node) bool {
			as, ok := n.(*ast.AssignStmt)
			if !ok || len(as.Lhs) != 1 || len(as.Rhs) != 1 {
				return true
			}
			if id, ok := as.Lhs[0].(*ast.Ident); !ok || id.Name != "inducedPhrases" {
				return true
			}
			cl, ok := as.Rhs[0].(*ast.CompositeLit)
			if !ok {
				return true
			}
			ip := [][2]interface{}{}
			for _, e := range cl.Elts {
				kv, ok := e.(*ast.KeyValueExpr)
				if !ok {
					return false
				}
				k, ok1 := kv.Key.(*ast.BasicLit)
				v, ok2 := kv.Value.(*ast.CompositeLit)
				if !ok1 || !ok2 {
					return false
				}
				ks, _ := strconv.Unquote(k.Value)
				ps := []string{}
				for _, pe := range v.Elts {
					if pl, ok := pe.(*ast.BasicLit); ok {
						s, _ := strconv.Unquote(pl.Value)
						ps = append(ps, s)
					}
				}
				ip = append(ip, [2]interface{}{ks, ps})
			}
			sort.Slice(ip, func(i, j int) bool { return ip[i][0].(string) < ip[j][0].(string) })
			out["inducedPhrases"] = ip
			return false
		})
	}
	// comparator field order of Matches.Less and matchRanges.Less, read off the AST:
	// a chain of `if a.F != b.F { return a.F OP b.F }` ... `return a.F OP b.F`.
	lessFields := func(file, recv string) [][2]string {
		res := [][2]string{}
		f, err := parser.ParseFile(fset, file, nil, 0)
		if err != nil {
			return nil
		}
		selName := func(e ast.Expr) string {
			if se, ok := e.(*ast.SelectorExpr); ok {
				return se.Sel.Name
			}
			return "?"
		}
		ok := true
		ast.Inspect(f, func(n ast.Node) bool {
			fd, isFn := n.(*ast.FuncDecl)
			if !isFn || fd.Name.Name != "Less" || fd.Recv == nil || len(fd.Recv.List) != 1 {
				return true
			}
			if id, isID := fd.Recv.List[0].Type.(*ast.Ident); !isID || id.Name != recv {
				return true
			}
			for _, st := range fd.Body.List {
				var ret *ast.ReturnStmt
				guard := ""
				switch x := st.(type) {
				case *ast.IfStmt:
					if be, isB := x.Cond.(*ast.BinaryExpr); isB && be.Op == gotoken.NEQ && x.Else == nil && len(x.Body.List) == 1 {
						guard = selName(be.X)
						if selName(be.Y) != guard {
							ok = false
						}
						ret, _ = x.Body.List[0].(*ast.ReturnStmt)
					} else {
						ok = false
					}
				case *ast.ReturnStmt:
					ret = x
				case *ast.AssignStmt:
					continue // di, dj := d[i], d[j]
				default:
					ok = false
				}
				if ret == nil || len(ret.Results) != 1 {
					ok = false
					continue
				}
				be, isB := ret.Results[0].(*ast.BinaryExpr)
				if !isB || (be.Op != gotoken.LSS && be.Op != gotoken.GTR) || selName(be.X) != selName(be.Y) || (guard != "" && guard != selName(be.X)) {
					ok = false
					continue
				}
				res = append(res, [2]string{selName(be.X), be.Op.String()})
			}
			return false
		})
		if !ok {
			return nil // shape not recognised: no fact
		}
		return res
	}
	if lf := lessFields("classifier.go", "Matches"); lf != nil {
		out["matchLessFields"] = lf
	}
	if lf := lessFields("searchset.go", "matchRanges"); lf != nil {
		out["matchRangesLessFields"] = lf
	}
	b, _ := json.MarshalIndent(out, "", " ")
	if err := os.WriteFile(os.Getenv("VERIF_OUT")+"/tables.json", b, 0o644); err != nil {
		t.Fatal(err)
	}
}

// vtokResult renders a tokenized document canonically: `hexword:line …#copyright lines`.
func vtokResult(doc *indexedDocument, dict *dictionary) string {
	var sb strings.Builder
	for i, tk := range doc.Tokens {
		if i > 0 {
			sb.WriteByte(' ')
		}
		fmt.Fprintf(&sb, "%s:%d", hxs(dict.getWord(tk.ID)), tk.Line)
	}
	sb.WriteByte('#')
	for i, m := range doc.Matches {
		if i > 0 {
			sb.WriteByte('.')
		}
		fmt.Fprintf(&sb, "%d", m.StartLine)
	}
	return sb.String()
}

func vnumLines(in []byte) int {
	n := bytes.Count(in, []byte("\n"))
	if len(in) > 0 && in[len(in)-1] != '\n' {
		n++
	}
	return n
}

// vtokCase runs the real tokenizer on `in` (fresh dictionary, so every word is recoverable),
// emits the correspondence record for stage `tok`, and evaluates C03's line clause directly.
func vtokCase(o *vout, prop, id string, in []byte, normalize bool) {
	dict := newDictionary()
	var res string
	var doc *indexedDocument
	panicked, msg := catch(func() {
		var err error
		doc, err = tokenizeStream(bytes.NewReader(in), normalize, dict, true)
		if err != nil {
			res = "ERR " + err.Error()
			return
		}
		res = vtokResult(doc, dict)
	})
	if panicked {
		res = "PANIC"
		o.verdict("C10", id, false, true, "tok:"+id, map[string]interface{}{"what": "tokenizeStream panicked: " + msg, "input_hex": hx(in)})
	}
	n := "0"
	if normalize {
		n = "1"
	}
	o.corr("tok", id, []string{n, hx(in)}, res)
	if normalize && len(in) < 200000 {
		// stage `norm` (S7): Normalize on a fresh classifier
		var nres string
		if p, _ := catch(func() { nres = hx(NewClassifier(0.8).Normalize(in)) }); p {
			nres = "PANIC"
		}
		o.corr("norm", "N"+id, []string{hx(in)}, nres)
	}
	if doc == nil {
		return
	}
	// C03 line clause on the implementation, independent of the model
	nl := vnumLines(in)
	bad := ""
	prev := 0
	for i, tk := range doc.Tokens {
		if tk.Line < 1 || tk.Line > nl {
			bad = fmt.Sprintf("token %d has line %d, input has %d lines", i, tk.Line, nl)
			break
		}
		if tk.Line < prev {
			bad = fmt.Sprintf("token %d has line %d after line %d", i, tk.Line, prev)
			break
		}
		prev = tk.Line
	}
	for _, m := range doc.Matches {
		if m.StartLine != m.EndLine || m.StartLine < 1 || m.StartLine > nl || m.Confidence != 1.0 {
			bad = fmt.Sprintf("copyright pseudo-match %+v, input has %d lines", *m, nl)
		}
	}
	o.verdict("C03", id, bad == "", len(doc.Tokens) > 3, "lines:"+id, map[string]interface{}{"what": bad, "tokens": len(doc.Tokens), "lines": nl, "input_hex": vclip(hx(in))})
}

func vclip(s string) string {
	if len(s) > 2000000 {
		return s[:2000000] + "…"
	}
	return s
}

// TestVerifTok: correspondence of stages S0+S1 (bytes → tokens, lines, copyright lines).
func TestVerifTok(t *testing.T) {
	o := newVout()
	defer o.close()
	r := newVrand(vseed() + 11)
	vloadFiles()
	n := 0
	ndocs, nmal := 25, 150
	if vthorough() {
		ndocs, nmal = len(vcorpus), 6000
	}
	for i, d := range vpick(r, ndocs) {
		vtokCase(o, "C03", fmt.Sprintf("d%d", i), d.data, true)
		vtokCase(o, "C03", fmt.Sprintf("n%d", i), d.data, false)
		n += 2
	}
	for i, d := range vscen {
		if !vthorough() && i%4 != int(vseed()%4) {
			continue
		}
		vtokCase(o, "C03", fmt.Sprintf("s%d", i), d.data, true)
		n++
	}
	for i := 0; i < nmal; i++ {
		in := vmalformed(r.fork(uint64(i)), i)
		vtokCase(o, "C03", fmt.Sprintf("m%d", i), in, i%3 != 0)
		n++
	}
	// alignment stream: multi-byte and invalid sequences placed across bytes 1016..1028 of the buffer
	pieces := []string{"é", "—", "日", "𝔘", "\xe2\x80", "\xf0\x9f\x98", "\xc3", "a-\n", "&amp;", "x",
		// multi-byte characters INSIDE a word, where a spurious extra rune changes the word: a typographic
		// dash before a line break (hyphen join), dashes inside a date line and a number, an accent
		"limi—\ntation", "2020‐01‐02\nx", "02110–1301", "caf\u00e9s", "ab‒\n  cd"}
	npad := 14
	if vthorough() {
		npad = 40
	}
	for p := 0; p < npad; p++ {
		for j, pc := range pieces {
			pad := 1010 + p
			if vthorough() && p >= 20 {
				pad = 2034 + (p - 20)
			}
			in := []byte(strings.Repeat(" ", pad) + pc + " tail words here\nnext line")
			vtokCase(o, "C03", fmt.Sprintf("a%d_%d", p, j), in, true)
			n++
		}
	}
	o.stat("C03", map[string]interface{}{"tok_cases": n})
}
