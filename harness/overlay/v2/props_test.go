//go:build verif

package classifier

// Property oracles on the real v2 API: C01 (planted copies), C04 (determinism),
// C05/C06 (presentation and notice transforms), C07 (position independence),
// C08 (streaming / reader faults), C09 (concurrency), C10 (totality), C11 (Normalize),
// C12 (LoadLicenses). Each emits verdicts; none consults the Lean model.

import (
	"unicode"
	"bytes"
	"errors"
	"fmt"
	"io"
	"math"
	"os"
	"path/filepath"
	"reflect"
	"sort"
	"strings"
	"sync"
	"testing"
	"time"
)

func vresEqual(a, b Results) bool { return vshowResults(a) == vshowResults(b) }

// ---------------------------------------------------------------------------
// C01

// vplantInputTight: the copies follow each other on the SAME line, separated by a few unrelated
// words only (the next copy begins on the line on which the previous one ends). Only documents of
// two or more word-bearing lines are planted this way: a one-line document sharing its line with a
// longer neighbour has no line of its own, which is outside C01's reading (DESIGN §6 C01).
func vplantInputTight(r *vrand, id string, docs []vdoc) vinput {
	var sb bytes.Buffer
	var pl []vplant
	sb.WriteString(voovBlock(r, 1+r.intn(3)))
	for _, d := range docs {
		body := bytes.TrimSpace(d.data)
		if bytes.Count(body, []byte("\n")) < 2 || !vsameWordsMidLine(body) {
			continue
		}
		s := sb.Len()
		sb.Write(body)
		pl = append(pl, vplant{d, s, sb.Len()})
		sb.WriteString(" " + voovLine(r, 2+r.intn(4)) + " ")
	}
	sb.WriteString("\n" + voovBlock(r, 1+r.intn(3)))
	return vinput{id: id, data: sb.Bytes(), plants: pl}
}

// vsameWordsMidLine: the text yields the same words when it does not start at the beginning of a line
// and when words follow on its last line (its first line is not a notice or a list marker for the
// tokenizer, which are recognised at line starts only; its last line is not a notice, which would
// swallow what follows) — otherwise a copy placed mid-line is not a verbatim copy at the word level.
func vsameWordsMidLine(body []byte) bool {
	words := func(b []byte) []string {
		d, err := tokenizeStream(bytes.NewReader(b), true, newDictionary(), true)
		if err != nil {
			return nil
		}
		var ws []string
		for _, t := range d.Tokens {
			ws = append(ws, d.dict.getWord(t.ID))
		}
		return ws
	}
	a, b := words(body), words(append([]byte("zyxqv "), body...))
	// … nor when something follows on its last line (a closing notice line would swallow it)
	e := words(append(append([]byte(nil), body...), []byte(" zyxqv")...))
	return len(b) == len(a)+1 && strings.Join(b[1:], " ") == strings.Join(a, " ") &&
		len(e) == len(a)+1 && strings.Join(e[:len(a)], " ") == strings.Join(a, " ")
}

func vexpectPlant(c *Classifier, in vinput, p vplant) (st, et, sl, el int, ok bool) {
	pre := c.createTargetIndexedDocument(in.data[:p.start])
	upto := c.createTargetIndexedDocument(in.data[:p.end])
	full := c.createTargetIndexedDocument(in.data)
	st, et = len(pre.Tokens), len(upto.Tokens)-1
	if et < st || et >= len(full.Tokens) {
		return 0, 0, 0, 0, false
	}
	return st, et, full.Tokens[st].Line, full.Tokens[et].Line, true
}

// vminRun: the minimum run length a threshold implies, stated independently of computeQ: the
// largest n with n mismatch-free words per allowed mismatch, floor(t/(1-t)) in float64 arithmetic
// (4 at 0.8, 18 at 0.95), at least 1; 10 at threshold 1.0 where the quotient is undefined.
func vminRun(th float64) int {
	if th == 1.0 {
		return 10
	}
	n := int(math.Floor(th / (1.0 - th)))
	if n < 1 {
		n = 1
	}
	return n
}

func voracleC01(c *Classifier, in vinput, res Results) (what string, checked int) {
	for _, p := range in.plants {
		d := c.getIndexedDocument(p.doc.cat, p.doc.name, p.doc.variant)
		if d == nil || len(d.Tokens) < vminRun(c.threshold) {
			continue
		}
		st, et, sl, el, ok := vexpectPlant(c, in, p)
		if !ok {
			continue
		}
		checked++
		found := false
		var near []string
		for _, m := range res.Matches {
			if m.MatchType == p.doc.cat && m.Name == p.doc.name && m.StartTokenIndex == st && m.EndTokenIndex == et {
				if m.Confidence == 1.0 && m.StartLine == sl && m.EndLine == el {
					found = true
				}
				near = append(near, fmt.Sprintf("%+v", *m))
			}
		}
		if !found {
			var all []string
			for _, m := range res.Matches {
				if m.MatchType != "Copyright" {
					all = append(all, fmt.Sprintf("%s/%s/%s %.4f tok %d-%d L%d-%d", m.MatchType, m.Name, m.Variant, m.Confidence, m.StartTokenIndex, m.EndTokenIndex, m.StartLine, m.EndLine))
				}
			}
			return fmt.Sprintf("planted %s: expected %s/%s conf 1.0 tokens %d-%d lines %d-%d; same-span matches %v; all %v", vkey(p.doc), p.doc.cat, p.doc.name, st, et, sl, el, near, all), checked
		}
	}
	return "", checked
}

// vclassifyC01: signature C01/approximate-superset-dominates-exact — every planted document D that
// is not reported as an exact match lies inside a reported APPROXIMATE match (confidence below 1.0)
// of another, longer corpus document whose token span contains the copy's span and reaches beyond
// it, and whose weight tokens*confidence is at least |D|: the overlap filter of match() keeps the
// heavier of two candidates when one's lines contain the other's. Typical: Apache-2.0/a.txt (the
// license without its appendix) followed by the Apache-2.0 header is, approximately,
// Apache-2.0/pristine.txt (the license with the appendix that quotes the header). See DESIGN §11.
func vclassifyC01(c *Classifier, in vinput, res Results) string {
	for _, p := range in.plants {
		d := c.getIndexedDocument(p.doc.cat, p.doc.name, p.doc.variant)
		if d == nil || len(d.Tokens) < vminRun(c.threshold) {
			continue
		}
		st, et, _, _, ok := vexpectPlant(c, in, p)
		if !ok {
			continue
		}
		exact := false
		for _, m := range res.Matches {
			if m.MatchType == p.doc.cat && m.Name == p.doc.name && m.StartTokenIndex == st && m.EndTokenIndex == et && m.Confidence == 1.0 {
				exact = true
			}
		}
		if exact {
			continue
		}
		explained := false
		for _, m := range res.Matches {
			if m.MatchType != "Copyright" && m.Confidence < 1.0 &&
				m.StartTokenIndex <= st && m.EndTokenIndex >= et && (m.EndTokenIndex-m.StartTokenIndex) > (et-st) &&
				float64(m.EndTokenIndex-m.StartTokenIndex+1)*m.Confidence >= float64(len(d.Tokens)) {
				explained = true
			}
		}
		if !explained {
			return ""
		}
	}
	return "C01/approximate-superset-dominates-exact"
}

// vc01Verdict emits the C01 verdict; a failure that classifies as a known finding carries the `match`
// record of the same call (corpus record per threshold, emitted on first use) as needs_corr.
func vc01Verdict(o *vout, c *Classifier, keys map[float64][]string, id, key, w string, nontriv bool, in vinput, res Results, detail map[string]interface{}) {
	sig := ""
	var needs []string
	if w != "" {
		if sig = vclassifyC01(c, in, res); sig != "" {
			cid := fmt.Sprintf("c01_%016x", math.Float64bits(c.threshold))
			if keys[c.threshold] == nil {
				keys[c.threshold] = vcorpusRecord(o, cid, c)
			}
			needs = []string{"kf_" + id}
			vmatchCase(o, c, cid, keys[c.threshold], needs[0], in.data, true)
		}
	}
	o.verdictSigCorr("C01", id, w == "", nontriv, key, sig, needs, detail)
}

func TestVerifC01(t *testing.T) {
	o := newVout()
	defer o.close()
	r := newVrand(vseed() + 31)
	vloadFiles()
	ths := []float64{0.8}
	nDocs, nMulti := 36, 6
	if vthorough() {
		ths = []float64{0.7, 0.75, 0.8, 0.9, 0.95, 1.0}
		nDocs, nMulti = len(vcorpus), 150
	} else if vseed()%2 == 0 {
		ths = []float64{0.8, 0.9}
	}
	n, nchecked := 0, 0
	c01Keys := map[float64][]string{}
	for ti, th := range ths {
		c := vdefault()
		if th != 0.8 {
			c = vclassifier(th)
		}
		// user-added synthetic documents
		syn := []vdoc{}
		if ti == 0 {
			c2 := vclassifier(th)
			for i := 0; i < 3; i++ {
				rr := r.fork(uint64(900 + i))
				words := []string{"alpha", "bravo", "charlie", "delta", "echo", "foxtrot", "golf", "hotel", "india", "juliet", "kilo", "lima"}
				var sb strings.Builder
				for l := 0; l < 3+rr.intn(10); l++ {
					for w := 0; w < 3+rr.intn(9); w++ {
						sb.WriteString(words[rr.intn(len(words))] + " ")
					}
					sb.WriteString("\n")
				}
				d := vdoc{"License", fmt.Sprintf("Synthetic-%d", i), "license.txt", []byte(sb.String())}
				c2.AddContent(d.cat, d.name, d.variant, d.data)
				syn = append(syn, d)
			}
			// documents that are word for word the same text under different names (a company's copy of
			// a standard license under its own copyright line; a text added twice): a planted copy is a
			// copy of each of them, and each is reported
			mit := vnamed("License/MIT/a.txt")[0]
			twinA := vdoc{"License", "Twin-Alpha", "license.txt", []byte("alpha bravo charlie delta echo foxtrot golf hotel\nindia juliet kilo lima mike november oscar papa\nquebec romeo sierra tango uniform victor whiskey xray\n")}
			twinB := vdoc{"License", "Twin-Beta", "license.txt", twinA.data}
			zyx := vdoc{"License", "Zyxcorp-License", "license.txt", append([]byte("Copyright 2021 Zyxcorp Inc.\n"), mit.data...)}
			for _, d := range []vdoc{twinA, twinB, zyx} {
				c2.AddContent(d.cat, d.name, d.variant, d.data)
			}
			for ti2, pair := range [][2]vdoc{{twinA, twinB}, {twinB, twinA}, {mit, zyx}} {
				in := vplantInput(r.fork(uint64(9100+ti2)), fmt.Sprintf("twin%d", ti2), []vdoc{pair[0]})
				if len(in.plants) == 1 {
					// the same bytes are a copy of the other document too
					in.plants = append(in.plants, vplant{pair[1], in.plants[0].start, in.plants[0].end})
					if pair[1].name == "Zyxcorp-License" {
						in.plants = in.plants[:1] // its own text has a copyright line in front: only MIT's words are planted …
						in.plants = append(in.plants, vplant{vdoc{"License", "Zyxcorp-License", "license.txt", mit.data}, in.plants[0].start, in.plants[0].end})
					}
				}
				var res Results
				pan, msg := catch(func() { res = c2.Match(in.data) })
				if pan {
					o.verdict("C01", in.id, false, true, in.id, map[string]interface{}{"what": "panic " + msg, "threshold": th})
					continue
				}
				w, k := voracleC01(c2, in, res)
				nchecked += k
				o.verdict("C01", in.id, w == "", k > 1, in.id, map[string]interface{}{"what": w, "threshold": th, "input_hex": vclip(hx(in.data))})
				n++
			}
			// a small document S, a large one B, and a third that is "S followed by B" with part of B
			// rewritten: its approximate match spans both copies, outweighs S and is itself outweighed
			// by B — what a rejected candidate proposed must not take effect
			{
				sw := func(p string, n int) []string {
					var ws []string
					for k := 0; k < n; k++ {
						ws = append(ws, p+string(rune('a'+k/26%26))+string(rune('a'+k%26)))
					}
					return ws
				}
				wrap := func(ws []string) []byte {
					var sb strings.Builder
					for k, w := range ws {
						sb.WriteString(w)
						if k%10 == 9 {
							sb.WriteByte('\n')
						} else {
							sb.WriteByte(' ')
						}
					}
					return []byte(strings.TrimRight(sb.String(), " ") + "\n")
				}
				S, B := sw("sml", 20), sw("big", 200)
				C := append(append([]string(nil), S...), B...)
				for k := 0; k < 30; k++ { // one contiguous stretch of the B part
					C[20+85+k] = "chg" + string(rune('a'+k/26)) + string(rune('a'+k%26))
				}
				dS := vdoc{"License", "Small-Doc", "license.txt", wrap(S)}
				dB := vdoc{"License", "Big-Doc", "license.txt", wrap(B)}
				c2.AddContent(dS.cat, dS.name, dS.variant, dS.data)
				c2.AddContent(dB.cat, dB.name, dB.variant, dB.data)
				c2.AddContent("License", "Small-Then-Big", "license.txt", wrap(C))
				for oi, sel := range [][]vdoc{{dS, dB}, {dB, dS}} {
					// one short unrelated line between the copies (a longer gap would push the composite
					// document's approximate match below the threshold)
					var sbuf bytes.Buffer
					var pls []vplant
					sbuf.WriteString("zyxqv qwrtzp\n")
					for _, d := range sel {
						st := sbuf.Len()
						sbuf.Write(d.data)
						pls = append(pls, vplant{d, st, sbuf.Len()})
						sbuf.WriteString("blorfen xkcdq\n")
					}
					in := vinput{id: fmt.Sprintf("sb%d", oi), data: sbuf.Bytes(), plants: pls}
					var res Results
					pan, msg := catch(func() { res = c2.Match(in.data) })
					if pan {
						o.verdict("C01", in.id, false, true, in.id, map[string]interface{}{"what": "panic " + msg, "threshold": th})
						continue
					}
					w, k := voracleC01(c2, in, res)
					nchecked += k
					vc01Verdict(o, c2, c01Keys, in.id, in.id, w, k > 1, in, res, map[string]interface{}{"what": w, "threshold": th, "input_hex": vclip(hx(in.data))})
					n++
				}
			}
			c = c2
		}
		docs := vpick(r.fork(uint64(ti)), nDocs)
		docs = append(append([]vdoc(nil), docs...), syn...)
		for i, d := range docs {
			in := vplantInput(r.fork(uint64(1000*ti+i)), fmt.Sprintf("t%d_p%d", ti, i), []vdoc{d})
			var res Results
			pan, msg := catch(func() { res = c.Match(in.data) })
			if pan {
				o.verdict("C01", in.id, false, true, in.id, map[string]interface{}{"what": "panic " + msg, "doc": vkey(d), "threshold": th})
				continue
			}
			w, k := voracleC01(c, in, res)
			nchecked += k
			vc01Verdict(o, c, c01Keys, in.id, fmt.Sprintf("%v:%s", th, vkey(d)), w, k > 0, in, res, map[string]interface{}{"what": w, "doc": vkey(d), "threshold": th, "input_hex": vclip(hx(in.data))})
			n++
		}
		for i := 0; i < nMulti; i++ {
			rr := r.fork(uint64(5000*ti + i))
			ds := vpick(rr, 2+rr.intn(3))
			in := vplantInput(rr, fmt.Sprintf("t%d_m%d", ti, i), ds)
			if i%2 == 1 {
				in = vplantInputTight(rr, fmt.Sprintf("t%d_m%d", ti, i), ds)
			}
			var res Results
			pan, msg := catch(func() { res = c.Match(in.data) })
			if pan {
				o.verdict("C01", in.id, false, true, in.id, map[string]interface{}{"what": "panic " + msg, "threshold": th})
				continue
			}
			w, k := voracleC01(c, in, res)
			nchecked += k
			var ks []string
			for _, d := range ds {
				ks = append(ks, vkey(d))
			}
			vc01Verdict(o, c, c01Keys, in.id, fmt.Sprintf("%v:%v", th, ks), w, k > 0, in, res, map[string]interface{}{"what": w, "docs": ks, "threshold": th, "input_hex": vclip(hx(in.data))})
			n++
		}
	}
	// minimum length: user-added documents of exactly q, q+1 and 2q words (q = the run length the
	// threshold implies), alone in the corpus and next to each other, at every threshold
	for ti, th := range []float64{0.7, 0.8, 0.85, 0.9, 1.0, 0.895, 0.92, 0.949, 0.75, 0.95} {
		c := NewClassifier(th)
		mr := vminRun(th)
		words := []string{"alpha", "bravo", "charlie", "delta", "echo", "foxtrot", "golf", "hotel", "india", "juliet", "kilo", "lima", "mike", "november", "oscar", "papa", "quebec", "romeo", "sierra", "tango", "uniform", "victor", "whiskey", "xray", "yankee", "zulu"}
		var ds []vdoc
		at := 0
		for di, nw := range []int{mr, mr + 1, 2 * mr} {
			var ws []string
			for k := 0; k < nw; k++ {
				ws = append(ws, words[at%len(words)]+strings.Repeat("x", at/len(words)))
				at++
			}
			sep := []string{" ", "\n", " "}[di]
			d := vdoc{"License", fmt.Sprintf("MinLen-%d", nw), "a.txt", []byte(strings.Join(ws, sep) + "\n")}
			c.AddContent(d.cat, d.name, d.variant, d.data)
			ds = append(ds, d)
		}
		// documents of n distinct words for n where n*(1/n) != 1 in float64 (49, 98, 103, 107): the
		// pre-filter's ratio for a contained document must be exactly 1 at threshold 1.0 too
		if th == 1.0 || th == 0.9 {
			for _, nw := range []int{49, 98, 103, 107} {
				var ws []string
				for k := 0; k < nw; k++ {
					// distinct, purely alphabetic (digits would be cleaned away): base-26 suffix
					ws = append(ws, words[k%len(words)]+"q"+string(rune('a'+k/26))+string(rune('a'+k%26)))
				}
				d := vdoc{"License", fmt.Sprintf("Distinct-%d", nw), "a.txt", []byte(strings.Join(ws, " ") + "\n")}
				c.AddContent(d.cat, d.name, d.variant, d.data)
				ds = append(ds, d)
			}
		}
		sels := [][]vdoc{{ds[0]}, {ds[1]}, {ds[2]}, {ds[1], ds[0], ds[2]}, {ds[0], ds[0]}}
		for _, d := range ds[3:] {
			sels = append(sels, []vdoc{d})
		}
		for i, sel := range sels {
			in := vplantInput(r.fork(uint64(77000+10*ti+i)), fmt.Sprintf("min%d_%d", ti, i), sel)
			var res Results
			pan, msg := catch(func() { res = c.Match(in.data) })
			if pan {
				o.verdict("C01", in.id, false, true, in.id, map[string]interface{}{"what": "panic " + msg, "threshold": th})
				continue
			}
			w, k := voracleC01(c, in, res)
			nchecked += k
			o.verdict("C01", in.id, w == "", k > 0, fmt.Sprintf("min:%v:%d", th, i), map[string]interface{}{"what": w, "threshold": th, "q": c.q, "min_run": mr, "input_hex": vclip(hx(in.data))})
			n++
		}
	}
	o.stat("C01", map[string]interface{}{"inputs": n, "planted_copies_checked": nchecked, "thresholds": ths})
}

// ---------------------------------------------------------------------------
// C04

func TestVerifC04(t *testing.T) {
	o := newVout()
	defer o.close()
	r := newVrand(vseed() + 41)
	c := vdefault()
	nIn, reps := 14, 4
	if vthorough() {
		nIn, reps = 240, 8
	}
	inputs := vgenInputs(r, nIn/3+1, nIn/3+1, nIn/4, nIn/6)
	// always include the corpus documents that are textually identical to another one
	vloadFiles()
	seen := map[string]vdoc{}
	for _, d := range vcorpus {
		k := string(d.data)
		if prev, ok := seen[k]; ok && len(inputs) < nIn+40 {
			inputs = append(inputs, vinput{id: "twin_" + prev.name, data: d.data})
		}
		seen[k] = d
	}
	// inputs that END inside a multi-byte UTF-8 sequence (a file read up to a byte limit), with the
	// complete text as twin: whatever an earlier call left in a read buffer must not complete the
	// truncated character of a later one
	for i, d := range vnamed("License/MIT/a.txt", "License/ISC/license.txt") {
		full := append(append([]byte(nil), bytes.TrimSpace(d.data)...), []byte(" caf\u00e9")...)
		inputs = append(inputs, vinput{id: fmt.Sprintf("cut%d", i), data: full[:len(full)-1], twin: full},
			vinput{id: fmt.Sprintf("cutb%d", i), data: append(append([]byte(nil), full[:len(full)-2]...), 0xe2, 0x80), twin: append(append([]byte(nil), full[:len(full)-2]...), []byte("\u201d")...)})
	}
	// a second, separately built instance with reversed insertion order, and a superset instance
	c2 := NewClassifier(0.8)
	for i := len(vcorpus) - 1; i >= 0; i-- {
		d := vcorpus[i]
		c2.AddContent(d.cat, d.name, d.variant, d.data)
	}
	c3 := vclassifier(0.8)
	c3.AddContent("License", "Unrelated-Zzz", "license.txt", []byte(voovBlock(r.fork(77), 30)))
	// … and a corpus with additional documents that have no words at all (empty, blank lines,
	// punctuation, a lone copyright line): they can relate to no input
	c5 := vclassifier(0.8)
	for i, t := range []string{"", "\n\n", "--- *** ---\n", "Copyright 2019 Example Corp.\n"} {
		c5.AddContent("License", fmt.Sprintf("Wordless-%d", i), "license.txt", []byte(t))
	}
	for i, t := range []string{"some prose that is not a license at all\nwith a second line\n", "Copyright 2020 Somebody\nprose without any license words in it\nthird line\n", "zyxqv blorfen\n"} {
		inputs = append(inputs, vinput{id: fmt.Sprintf("nomatch%d", i), data: []byte(t)})
	}
	c4 := vclassifier(0.8)
	c4.SetTraceConfiguration(&TraceConfiguration{TraceLicenses: "*", TracePhases: "*", Tracer: func(string, ...interface{}) {}})
	n := 0
	for _, in := range inputs {
		orig := append([]byte(nil), in.data...)
		base := c.Match(in.data)
		what := ""
		for k := 0; k < reps && what == ""; k++ {
			// interleave other calls
			other := inputs[r.intn(len(inputs))].data
			if in.twin != nil {
				other = in.twin
			}
			switch k % 4 {
			case 0:
				c.Match(other)
			case 1:
				c.Normalize(other)
			case 2:
				c.MatchFrom(bytes.NewReader(other))
			}
			again := c.Match(in.data)
			if !vresEqual(base, again) {
				what = fmt.Sprintf("repeat %d differs: %s vs %s", k, vshowResults(base), vshowResults(again))
			}
		}
		if what == "" {
			if r2, _ := c.MatchFrom(bytes.NewReader(in.data)); !vresEqual(base, r2) {
				what = "MatchFrom differs from Match: " + vshowResults(base) + " vs " + vshowResults(r2)
			}
		}
		if what == "" {
			if r2 := c2.Match(in.data); !vresEqual(base, r2) {
				what = "instance built in reverse insertion order differs: " + vshowResults(base) + " vs " + vshowResults(r2)
			}
		}
		if what == "" {
			if r2 := c3.Match(in.data); !vresEqual(base, r2) {
				what = "corpus with one extra unrelated document differs: " + vshowResults(base) + " vs " + vshowResults(r2)
			}
		}
		if what == "" {
			if r2 := c5.Match(in.data); !vresEqual(base, r2) {
				what = "corpus with extra wordless documents differs: " + vshowResults(base) + " vs " + vshowResults(r2)
			}
		}
		if what == "" {
			if r2 := c4.Match(in.data); !vresEqual(base, r2) {
				what = "tracing enabled differs: " + vshowResults(base) + " vs " + vshowResults(r2)
			}
		}
		if what == "" && !bytes.Equal(orig, in.data) {
			what = "Match/Normalize modified the caller's slice"
		}
		// emit for the cross-process comparison (bin/check runs this test twice and diffs)
		o.corr("xproc:match", in.id, []string{vhash(in.data)}, vshowResults(base))
		o.verdict("C04", in.id, what == "", len(base.Matches) > 0, "det:"+vhash(in.data), map[string]interface{}{"what": vclip(what), "input_hex": vclip(hx(in.data))})
		n++
	}
	// a short input (one read chunk) that ENDS inside a multi-byte character, matched after calls that
	// left other bytes behind: the decoder looks past the end of the data, and what it finds there
	// must not depend on earlier calls (of this or any other classifier in the process)
	{
		lic := "Permission is hereby granted to any person obtaining a copy of this\nsoftware to use copy modify merge publish and distribute it without\nrestriction provided that this notice is kept in all copies and that\nthe software is provided as is without any warranty of any kind and\nunder the conditions named responsabilit\u00e9 limit\u00e9e garantie limit\u00e9"
		cs := NewClassifier(0.8)
		cs.AddContent("License", "Short-Accent", "license.txt", []byte(lic))
		full := []byte(lic)
		for _, cutLen := range []int{1} {
			cut := append([]byte(nil), full[:len(full)-cutLen]...)
			ascii := []byte(strings.Repeat("lorem ipsum dolor sit amet consectetur adipiscing elit ", 12))
			what := ""
			for round := 0; round < 6 && what == ""; round++ {
				cs.Match(ascii)
				a := cs.Match(cut)
				switch round % 3 {
				case 0:
					cs.Match(full)
				case 1:
					cs.Normalize(full)
				default:
					c.Match(full) // another classifier
				}
				b := cs.Match(cut)
				if !vresEqual(a, b) {
					what = fmt.Sprintf("Match of an input ending inside a multi-byte character depends on the preceding call: %s after ASCII text, %s after the complete text", vshowResults(a), vshowResults(b))
				}
			}
			o.verdict("C04", "hist_cut", what == "", true, "hist_cut", map[string]interface{}{"what": vclip(what), "input_hex": vclip(hx(cut))})
			n++
		}
	}
	// many copyright notices above a license: the Copyright pseudo-matches agree on confidence and token
	// span and differ in their lines only; with more than a dozen candidates the sort is not a stable
	// insertion sort any more — repeated calls must still agree (also compared across processes)
	for ci, nc := range []int{9, 14, 23} {
		var sb strings.Builder
		for k := 0; k < nc; k++ {
			fmt.Fprintf(&sb, "Copyright %d Contributor Number %d\n", 1990+k, k)
		}
		in := append([]byte(sb.String()), vnamed("License/MIT/a.txt")[0].data...)
		first := vshowResults(c.Match(in))
		what := ""
		for i := 1; i < 40 && what == ""; i++ {
			if got := vshowResults(c.Match(in)); got != first {
				what = fmt.Sprintf("call %d on the same bytes differs from the first: %s vs %s", i, got, first)
			}
		}
		if what == "" {
			if got := vshowResults(c2.Match(in)); got != first {
				what = fmt.Sprintf("instance built in reverse insertion order differs: %s vs %s", got, first)
			}
		}
		id := fmt.Sprintf("hist_copyrights%d", ci)
		o.verdict("C04", id, what == "", true, id, map[string]interface{}{"what": vclip(what), "input_hex": vclip(hx(in))})
		o.corr("xproc:match", id, []string{vhash(in)}, first)
		n++
	}
	// a document with a periodic stretch (xx yy xx yy …) and an input in which one target run equals the
	// source at two source positions with the same length and the same target start: the order of such
	// runs (map iteration + unstable sort) must not reach the result — repeated calls and separately
	// built instances agree
	{
		word := func(i int) string {
			return "q" + string(rune('a'+i/676%26)) + string(rune('a'+i/26%26)) + string(rune('a'+i%26))
		}
		const n, k, m, shift = 130, 6, 74, 6
		rest := n - (k + 2)
		var sw, tw []string
		for i := 0; i < (k+2)/2; i++ {
			sw = append(sw, "xx", "yy")
		}
		for i := 0; i < rest; i++ {
			sw = append(sw, word(i))
		}
		for i := 0; i < k/2; i++ {
			tw = append(tw, "xx", "yy")
		}
		tw = append(tw, "junk")
		for i := 0; i < k/2; i++ {
			tw = append(tw, "xx", "yy")
		}
		for i := 0; i < m; i++ {
			tw = append(tw, word(i))
		}
		for i := 0; i < shift; i++ {
			tw = append(tw, "zunk")
		}
		for i, cnt := m, 0; i < rest; i++ {
			if rest-i > shift+2 && cnt == 4 {
				tw = append(tw, "err")
				cnt = 0
				continue
			}
			tw = append(tw, word(i))
			cnt++
		}
		src, in := []byte(strings.Join(sw, " ")), []byte(strings.Join(tw, " "))
		cp := NewClassifier(0.8)
		cp.AddContent("License", "Periodic", "license.txt", src)
		first := vshowResults(cp.Match(in))
		what := ""
		for i := 1; i < 60 && what == ""; i++ {
			if got := vshowResults(cp.Match(in)); got != first {
				what = fmt.Sprintf("call %d on the same classifier differs from the first: %s vs %s", i, got, first)
			}
		}
		for i := 0; i < 25 && what == ""; i++ {
			c2 := NewClassifier(0.8)
			c2.AddContent("License", "Periodic", "license.txt", src)
			if got := vshowResults(c2.Match(in)); got != first {
				what = fmt.Sprintf("separately built classifier #%d differs: %s vs %s", i, got, first)
			}
		}
		o.verdict("C04", "hist_periodic", what == "", true, "hist_periodic", map[string]interface{}{"what": vclip(what), "input_hex": vclip(hx(in))})
		o.corr("xproc:match", "periodic", []string{vhash(in)}, first)
	}
	// a small user corpus and probes whose score depends on a word being OUTSIDE the corpus vocabulary
	// (the substitution checks of scoreDiffs see an out-of-vocabulary word as the placeholder, a known
	// one as itself): calls in between — Match, MatchFrom, Normalize — on texts that carry those words
	// in every position the tokenizer treats differently (plain, before/after a hyphenated line break,
	// behind a list marker, in a notice line, as an entity, capitalised) must not make them known
	{
		known := "This program is free software; you can redistribute it and/or modify\nit under the terms of the GNU General Public License as published by\nthe Free Software Foundation; either revision two of the License, or\n(at your option) any later revision. You should have received a copy\nof the GNU General Public License along with this program; if not,\nwrite to the Free Software Foundation.\n"
		mk := func() *Classifier {
			cc := NewClassifier(0.8)
			cc.AddContent("License", "FreeSoftwareNotice", "notice.txt", []byte(known))
			return cc
		}
		ck := mk()
		for wi, w := range []string{"Lesser", "Library", "lesser", "LIBRARY"} {
			probe := []byte(strings.Replace(known, "GNU General", "GNU "+w+" General", 1))
			base := vshowResults(ck.Match(probe))
			lw := strings.ToLower(w)
			others := []string{
				"a " + lw + " known word appears in this sentence\n",
				"a " + lw + " known hyphen-\nated word appears in this unrelated sentence\n",
				"the word split as " + lw[:3] + "-\n" + lw[3:] + " and more text after it\n",
				"1. " + lw + "\n  (a) " + lw + " terms\n",
				"Copyright 2020 " + lw + " authors\n" + lw + "\n",
				"&#" + fmt.Sprint(int(lw[0])) + ";" + lw[1:] + " and " + strings.ToUpper(lw) + "\n",
				lw + "-\n",
				"x-\n" + lw + " y\n",
			}
			what := ""
			for oi, other := range others {
				for mode := 0; mode < 3 && what == ""; mode++ {
					switch mode {
					case 0:
						ck.Match([]byte(other))
					case 1:
						ck.MatchFrom(bytes.NewReader([]byte(other)))
					default:
						ck.Normalize([]byte(other))
					}
					if got := vshowResults(ck.Match(probe)); got != base {
						what = fmt.Sprintf("after %s of %q the probe's result changed: %s, before %s", []string{"Match", "MatchFrom", "Normalize"}[mode], other, got, base)
					}
				}
				_ = oi
			}
			if what == "" {
				if got := vshowResults(mk().Match(probe)); got != base {
					what = fmt.Sprintf("a separately built classifier differs: %s vs %s", got, base)
				}
			}
			id := fmt.Sprintf("hist_dict%d", wi)
			o.verdict("C04", id, what == "", true, id, map[string]interface{}{"what": vclip(what), "probe": string(probe)})
			n++
		}
	}
	// one-word inputs that live inside a larger array: whatever the call returns, the caller's bytes —
	// the input itself and what follows it in the same array — stay as they were
	for wi, w := range []string{"   License  ", "(Beerware", "don't", "   \n", "MIT", "Copyright 2020 Foo", "a-\nb", "&amp;x"} {
		backing := []byte(w + "|rest of the caller's buffer")
		in := backing[:len(w)]
		before := string(backing)
		what := ""
		for ci, call := range []func(){
			func() { c.Normalize(in) },
			func() { c.Match(in) },
			func() { c.MatchFrom(bytes.NewReader(in)) },
			func() { NewClassifier(0.8).AddContent("License", "X", "y", in) },
			func() { out := c.Normalize(in); _ = append(out, 'z') }, // and the caller may append to what it got back
		} {
			call()
			if string(backing) != before && what == "" {
				what = fmt.Sprintf("call %d changed the caller's bytes: %q -> %q", ci, before, string(backing))
			}
		}
		id := fmt.Sprintf("alias%d", wi)
		o.verdict("C04", id, what == "", true, id, map[string]interface{}{"what": what, "input": w})
		n++
	}
	// AddContent must not modify its argument
	b := []byte("Some License text HERE\nwith — dashes and &amp; entities\n")
	cp := append([]byte(nil), b...)
	NewClassifier(0.8).AddContent("License", "X", "y", b)
	o.verdict("C04", "addcontent", bytes.Equal(b, cp), true, "addcontent", map[string]interface{}{"what": "AddContent modified its argument"})
	o.stat("C04", map[string]interface{}{"inputs": n, "repeats": reps})
}

// ---------------------------------------------------------------------------
// C05 / C06 / C07: metamorphic transforms

type vtransform struct {
	name      string
	prop      string
	keepLines bool // line numbers must be identical too
	apply     func(r *vrand, in []byte) []byte
}

func vmapLines(in []byte, f func(i int, l string) string) []byte {
	ls := strings.Split(string(in), "\n")
	for i := range ls {
		ls[i] = f(i, ls[i])
	}
	return []byte(strings.Join(ls, "\n"))
}

// vallDashes replaces every hyphen that has a non-blank character on both sides by the given form.
func vallDashes(in []byte, form string) []byte {
	var sb strings.Builder
	for _, l := range strings.SplitAfter(string(in), "\n") {
		body := strings.TrimRight(l, "\r\n")
		for i, ch := range body {
			if ch == '-' && i > 0 && i < len(body)-1 && body[i-1] != ' ' && body[i+1] != ' ' && body[i-1] != '-' && body[i+1] != '-' {
				sb.WriteString(form)
			} else {
				sb.WriteRune(ch)
			}
		}
		sb.WriteString(l[len(body):])
	}
	return []byte(sb.String())
}

// vhyphenEOL reports whether some line ends in a hyphen (C05's exemption).
func vhyphenLine(l string) bool {
	t := strings.TrimRight(l, " \t\r")
	return strings.HasSuffix(t, "-") || strings.HasSuffix(t, "‐") || strings.HasSuffix(t, "–") || strings.HasSuffix(t, "—") || strings.HasSuffix(t, "‒")
}

func vhyphenEOL(in []byte) bool {
	for _, l := range strings.Split(string(in), "\n") {
		if vhyphenLine(l) {
			return true
		}
	}
	return false
}

var vtransforms = []vtransform{
	{"upper-ascii", "C05", true, func(r *vrand, in []byte) []byte { return bytes.Map(vasciiUpper, in) }},
	{"random-case", "C05", true, func(r *vrand, in []byte) []byte {
		out := append([]byte(nil), in...)
		for i, b := range out {
			if b >= 'a' && b <= 'z' && r.chance(1, 2) {
				out[i] = b - 32
			} else if b >= 'A' && b <= 'Z' && r.chance(1, 2) {
				out[i] = b + 32
			}
		}
		return out
	}},
	{"indent", "C05", true, func(r *vrand, in []byte) []byte {
		return vmapLines(in, func(i int, l string) string { return strings.Repeat([]string{" ", "\t", "  "}[r.intn(3)], r.intn(5)) + l })
	}},
	{"trailing-blanks", "C05", true, func(r *vrand, in []byte) []byte {
		return vmapLines(in, func(i int, l string) string {
			if strings.HasSuffix(strings.TrimRight(l, " \t"), "-") {
				return l
			}
			return l + strings.Repeat(" ", r.intn(4)) + strings.Repeat("\t", r.intn(2))
		})
	}},
	{"crlf", "C05", true, func(r *vrand, in []byte) []byte { return bytes.ReplaceAll(in, []byte("\n"), []byte("\r\n")) }},
	{"tabs-for-spaces", "C05", true, func(r *vrand, in []byte) []byte { return bytes.ReplaceAll(in, []byte(" "), []byte("\t")) }},
	{"unicode-spaces", "C05", true, func(r *vrand, in []byte) []byte {
		// other kinds of horizontal white space: no-break, em, thin and ideographic spaces
		sp := []string{"\u00a0", "\u2003", "\u2009", "\u3000", " \u00a0", "\t\u2003"}
		var sb strings.Builder
		for _, b := range in {
			if b == ' ' && r.chance(1, 3) {
				sb.WriteString(sp[r.intn(len(sp))])
			} else {
				sb.WriteByte(b)
			}
		}
		return []byte(sb.String())
	}},
	{"em-spaces-all", "C05", true, func(r *vrand, in []byte) []byte {
		// every blank a three-byte em space: in a text of several read chunks some character straddles a chunk boundary
		return bytes.ReplaceAll(in, []byte(" "), []byte("\u2003"))
	}},
	{"double-spaces", "C05", true, func(r *vrand, in []byte) []byte { return bytes.ReplaceAll(in, []byte(" "), []byte("  ")) }},
	{"blank-lines", "C05", false, func(r *vrand, in []byte) []byte {
		return vmapLines(in, func(i int, l string) string {
			if r.chance(1, 4) {
				return l + "\n"
			}
			return l
		})
	}},
	{"comment-prefix", "C05", true, func(r *vrand, in []byte) []byte {
		p := []string{"// ", "# ", " * ", "; ", "-- ", "> ", "| ", "% ", "//", "#", "*"}[r.intn(11)]
		return vmapLines(in, func(i int, l string) string { return p + l })
	}},
	{"unicode-hyphens", "C05", true, func(r *vrand, in []byte) []byte {
		var sb strings.Builder
		for _, l := range strings.SplitAfter(string(in), "\n") {
			body := strings.TrimRight(l, "\r\n")
			for i, ch := range body {
				if ch == '-' && i > 0 && i < len(body)-1 && r.chance(1, 2) {
					sb.WriteString([]string{"‐", "‒", "–", "—"}[r.intn(4)])
				} else {
					sb.WriteRune(ch)
				}
			}
			sb.WriteString(l[len(body):])
		}
		return []byte(sb.String())
	}},
	// each Unicode dash form on its own, for EVERY inner hyphen (digit-led words such as "02110-1301" and
	// dates keep their hyphens through cleanupToken, so the form that stands for '-' matters there)
	{"dash-2010", "C05", true, func(r *vrand, in []byte) []byte { return vallDashes(in, "\u2010") }},
	{"dash-2012", "C05", true, func(r *vrand, in []byte) []byte { return vallDashes(in, "\u2012") }},
	{"dash-2013", "C05", true, func(r *vrand, in []byte) []byte { return vallDashes(in, "\u2013") }},
	{"dash-2014", "C05", true, func(r *vrand, in []byte) []byte { return vallDashes(in, "\u2014") }},
	{"unicode-quotes", "C05", true, func(r *vrand, in []byte) []byte {
		s := string(in)
		var sb strings.Builder
		open := true
		for _, ch := range s {
			switch ch {
			case '"':
				if open {
					sb.WriteString("“")
				} else {
					sb.WriteString("”")
				}
				open = !open
			case '\'':
				sb.WriteString("’")
			default:
				sb.WriteRune(ch)
			}
		}
		return []byte(sb.String())
	}},
	// ---- C06
	{"copyright-lines", "C06", false, func(r *vrand, in []byte) []byte {
		t := []string{"Copyright 2020 Example Corp.", "Copyright (c) 1999, Jane Doe", "copyright (C) 2011-2015 The Authors", "// Copyright 2008 Foo Inc. All rights reserved.", "  * Copyright 2001. Somebody", "2020-01-02", "1999-dec-31",
			// a short prefix with letters or digits before the word (the expression allows any 1-5 characters)
			"(c) Copyright 2001 Example Corp.", "Also Copyright 2003 Somebody Else", "and copyright (c) 1998, X Y"}
		prevHyphen := false
		return vmapLines(in, func(i int, l string) string {
			ph := prevHyphen
			prevHyphen = strings.HasSuffix(strings.TrimRight(l, " \t\r"), "-")
			if !ph && r.chance(1, 6) {
				return t[r.intn(len(t))] + "\n" + l
			}
			return l
		})
	}},
	{"list-markers", "C06", true, func(r *vrand, in []byte) []byte {
		mk := []string{"1.", "2.", "iv.", "a.", "3.1.", "b:", "12.", "1.2.3.", "ii.", "x)"}
		prevHyphen := false
		return vmapLines(in, func(i int, l string) string {
			f := strings.Fields(l)
			ph := prevHyphen
			prevHyphen = strings.HasSuffix(strings.TrimRight(l, " \t\r"), "-")
			if !ph && len(f) > 0 && len(f[0]) >= 3 && visAlpha(strings.ToLower(f[0])) && r.chance(1, 5) && !visNotice(l) {
				return mk[r.intn(len(mk)-1)] + " " + l
			}
			return l
		})
	}},
	{"paren-markers", "C06", true, func(r *vrand, in []byte) []byte { return vparenMarkers(r, in, ")") }},
	{"hyphen-split", "C06", false, func(r *vrand, in []byte) []byte {
		return vmapLines(in, func(i int, l string) string {
			ws := strings.Split(l, " ")
			if visNotice(l) {
				return l
			}
			for k := len(ws) - 1; k > 0; k-- {
				w := ws[k]
				if len(w) >= 6 && visAlpha(w) && r.chance(1, 3) {
					h := 2 + r.intn(len(w)-4)
					return strings.Join(ws[:k], " ") + " " + w[:h] + "-\n" + w[h:] + " " + strings.Join(ws[k+1:], " ")
				}
			}
			return l
		})
	}},
	{"hyphen-split-dense", "C06", false, func(r *vrand, in []byte) []byte { return vdenseHyphen(in, 2+r.intn(2), "") }},
	{"hyphen-split-indent", "C06", false, func(r *vrand, in []byte) []byte {
		return vdenseHyphen(in, 2+r.intn(2), strings.Repeat(" ", 1+r.intn(8)))
	}},
	{"spelling", "C06", true, func(r *vrand, in []byte) []byte {
		s := string(in)
		pairs := [][2]string{{"license", "licence"}, {"License", "Licence"}, {"while", "whilst"}, {"organization", "organisation"}, {"authorized", "authorised"}, {"fulfill", "fulfil"}, {"center", "centre"}, {"favor", "favour"}, {"recognize", "recognise"}, {"program", "programme"}}
		for _, p := range pairs {
			if r.chance(2, 3) {
				s = vreplaceWord(s, p[0], p[1])
			}
		}
		return []byte(s)
	}},
	{"http-https", "C06", true, func(r *vrand, in []byte) []byte {
		s := string(in)
		if r.chance(1, 2) {
			return []byte(strings.ReplaceAll(s, "http://", "https://"))
		}
		return []byte(strings.ReplaceAll(s, "https://", "http://"))
	}},
}

// vdenseHyphen splits every long alphabetic word that is not the first of its line after h letters
// with a hyphen and a line break (the second half indented by `indent`): wherever a read-buffer boundary falls, a joined word is near.
func vdenseHyphen(in []byte, h int, indent string) []byte {
	return vmapLines(in, func(i int, l string) string {
		if visNotice(l) {
			return l
		}
		ws := strings.Split(l, " ")
		for k := 1; k < len(ws); k++ {
			if w := ws[k]; len(w) >= 6 && visAlpha(w) {
				ws[k] = w[:h] + "-\n" + indent + w[h:]
			}
		}
		return strings.Join(ws, " ")
	})
}

// visNotice: the line on its own is a copyright notice / date for the tokenizer
func visNotice(l string) bool {
	d, _ := tokenizeStream(strings.NewReader(l), true, newDictionary(), true)
	return d != nil && len(d.Matches) > 0
}

// vparenMarkers prefixes some lines with letter markers "a) ", "b) " … (with close = ")") — the
// property lists `a)` among the list markers. With close = "." the same lines get "a. " etc.
func vparenMarkers(r *vrand, in []byte, close string) []byte {
	prevHyphen := false
	return vmapLines(in, func(i int, l string) string {
		f := strings.Fields(l)
		ph := prevHyphen
		prevHyphen = strings.HasSuffix(strings.TrimRight(l, " \t\r"), "-")
		pick := r.chance(1, 5)
		letter := string(rune('a' + r.intn(8)))
		if !ph && len(f) > 0 && len(f[0]) >= 3 && visAlpha(strings.ToLower(f[0])) && pick && !visNotice(l) {
			return letter + close + " " + l
		}
		return l
	})
}

func vasciiUpper(r rune) rune {
	if r >= 'a' && r <= 'z' {
		return r - 32
	}
	return r
}
func visAlpha(w string) bool {
	for _, c := range w {
		if !(c >= 'a' && c <= 'z') {
			return false
		}
	}
	return true
}

// vreplaceWord replaces occurrences of `from` that stand as a word of running text: a white-space
// delimited chunk that is exactly `from`, optionally followed by sentence punctuation (. , ; :)
// and optionally wrapped in double quotes. Anything else ("program's", "license(s)",
// "server-side-public-license", "License;provided") is not that word and is left alone.
func vreplaceWord(s, from, to string) string {
	var sb strings.Builder
	i := 0
	for i < len(s) {
		j := i
		for j < len(s) && !(s[j] == ' ' || s[j] == '\t' || s[j] == '\n' || s[j] == '\r') {
			j++
		}
		chunk := s[i:j]
		core := strings.TrimRight(chunk, ".,;:\"")
		lead := 0
		for lead < len(core) && core[lead] == '"' {
			lead++
		}
		if core[lead:] == from {
			sb.WriteString(chunk[:lead] + to + chunk[len(core):])
		} else {
			sb.WriteString(chunk)
		}
		for j < len(s) && (s[j] == ' ' || s[j] == '\t' || s[j] == '\n' || s[j] == '\r') {
			sb.WriteByte(s[j])
			j++
		}
		i = j
	}
	return sb.String()
}

// a word of running text is delimited by white space or sentence punctuation (not by '-' or '/',
// which occur inside URLs and compounds)
func vwordDelim(b byte) bool { return strings.IndexByte(" \t\r\n.,;:()\"", b) >= 0 }
func visLetterByte(b byte) bool { return b >= 'a' && b <= 'z' || b >= 'A' && b <= 'Z' || b >= 0x80 }

// vlicOnly renders the non-Copyright part of a result; withLines selects whether line numbers count.
func vlicOnly(r Results, withLines bool) string {
	var ps []string
	for _, m := range r.Matches {
		if m.MatchType == "Copyright" {
			continue
		}
		s := fmt.Sprintf("%s/%s/%s|%016x|%d-%d", m.MatchType, m.Name, m.Variant, math.Float64bits(m.Confidence), m.StartTokenIndex, m.EndTokenIndex)
		if withLines {
			s += fmt.Sprintf("|L%d-%d", m.StartLine, m.EndLine)
		}
		ps = append(ps, s)
	}
	return strings.Join(ps, ";")
}

func vmetaInputs(r *vrand, n int) []vinput {
	vloadFiles()
	var out []vinput
	for i, d := range vpick(r.fork(5), n) {
		rr := r.fork(uint64(600 + i))
		switch i % 3 {
		case 0:
			out = append(out, vinput{id: fmt.Sprintf("x%d", i), data: d.data})
		case 1:
			out = append(out, vplantInput(rr, fmt.Sprintf("x%d", i), []vdoc{d}))
		default:
			out = append(out, vinput{id: fmt.Sprintf("x%d", i), data: veditWords(rr, d.data, 60)})
		}
	}
	for i := 0; i < n/4 && i < len(vscen); i++ {
		out = append(out, vinput{id: fmt.Sprintf("xs%d", i), data: vscen[(i*7+int(vseed()))%len(vscen)].data})
	}
	// curated: URLs inside parentheses and after a colon, section numbers, lettered lists, long lines
	for i, d := range vnamed("License/Apache-1.1/license.txt", "License/OpenSSL/a.txt", "License/MIT/a.txt",
		"License/BSD-3-Clause/a.txt", "License/LPPL-1.3c/license.txt", "License/Unicode-DFS-2016/license.txt", "Header/GPL-2.0/h.txt", "License/EPL-1.0/license.txt") {
		if vthorough() || i%3 == int(vseed()%3) || i < 2 || i >= 6 {
			out = append(out, vinput{id: fmt.Sprintf("xc%d", i), data: d.data})
		}
	}
	// words hyphenated across a line break whose remainder stands alone on the next line (the way a
	// justified text wraps): the lines that do not end in a hyphen take the line-end changes
	for i, d := range vnamed("License/MIT/a.txt", "License/ISC/license.txt", "License/BSD-3-Clause/a.txt") {
		if vthorough() || i == int(vseed()%3) || i == 0 {
			rr := r.fork(uint64(720 + i))
			// (a wrapped word right before the first line of the license, and a copyright notice on the
			// line after every other remainder: what a remainder line leaves behind shows there)
			nsplit := 0
			data := vmapLines(d.data, func(li int, l string) string {
				fs := strings.Fields(l)
				if len(fs) < 3 || !rr.chance(1, 3) {
					return l
				}
				w := fs[len(fs)-1]
				if len(w) < 6 || !visAlpha(w) {
					return l
				}
				nsplit++
				out := strings.Join(fs[:len(fs)-1], " ") + " " + w[:3] + "-\n" + w[3:]
				if nsplit%2 == 1 {
					out += fmt.Sprintf("\nCopyright %d Holder Number %d", 2000+nsplit, nsplit)
				}
				return out
			})
			data = append([]byte("Copyright 2020 Example Holder\nthis file carries certain modifi-\ncations\n"), data...)
			out = append(out, vinput{id: fmt.Sprintf("xh%d", i), data: data})
		}
	}
	// notice lines that are notices only thanks to a short prefix, the prefix holding an in-word quote
	for i, d := range vnamed("License/MIT/a.txt", "License/ISC/license.txt") {
		pre := []string{"It's Copyright 2020 Example Corp.\n", "\"A's\" Copyright 2011 Somebody\nO'R Copyright (c) 1999, X Y\n"}[i]
		out = append(out, vinput{id: fmt.Sprintf("xn%d", i), data: append([]byte(pre), d.data...)})
	}
	// a text of many read chunks (the tokenizer reads 1 KiB at a time)
	for _, d := range vnamed("License/GPL-2.0/a.txt") {
		out = append(out, vinput{id: "xl0", data: d.data})
	}
	// quoted list markers, quoted words and a quote behind a hyphen at the end of a line: what follows a
	// marker's closing dot or a word's trailing hyphen decides whether it is a marker / a split word
	for i, d := range vnamed("License/BSD-3-Clause/a.txt", "License/Apache-1.1/license.txt", "License/BSD-2-Clause/license.txt", "License/MIT/a.txt") {
		if vthorough() || i%2 == int(vseed()%2) || i == 0 {
			out = append(out, vinput{id: fmt.Sprintf("xq%d", i), data: vquoteMarkers(r.fork(uint64(700+i)), d.data)})
		}
	}
	return out
}

// vquoteMarkers puts ASCII double quotes around every line-initial list marker (a first word ending in
// '.', ':' or ')'), around about one word in twelve, and behind a hyphen appended to some line ends.
func vquoteMarkers(r *vrand, in []byte) []byte {
	return vmapLines(in, func(i int, l string) string {
		fs := strings.Fields(l)
		if len(fs) == 0 {
			return l
		}
		for j, w := range fs {
			last := w[len(w)-1]
			if strings.Contains(w, "\"") {
				continue
			}
			if j == 0 && (last == '.' || last == ':' || last == ')') && len(w) <= 6 {
				fs[j] = "\"" + w + "\""
			} else if r.chance(1, 12) {
				fs[j] = "\"" + w + "\""
			}
		}
		out := strings.Join(fs, " ")
		if r.chance(1, 9) {
			out += " quoted-\""
		}
		return out
	})
}

func vrunMeta(t *testing.T, prop string) {
	o := newVout()
	defer o.close()
	r := newVrand(vseed() + 51)
	c := vdefault()
	n := 10
	if vthorough() {
		n = 440 // every corpus document
	}
	cnt := map[string]int{}
	var metaKeys []string // corpus record emitted once, on the first classified failure
	for _, in := range vmetaInputs(r, n) {
		base := c.Match(in.data)
		baseHyphen := vhyphenEOL(in.data)
		for ti, tr := range vtransforms {
			if tr.prop != prop {
				continue
			}
			r0 := &vrand{s: r.s}
			rr := r.fork(uint64(ti)*7919 + uint64(len(in.data)))
			var data []byte
			if prop == "C05" && baseHyphen {
				// lines that end in a hyphen are exempt (a hyphen before a line break joins word halves);
				// the OTHER lines of such a text are not: the changes that touch line ends only are applied
				// to them, the hyphen-ended lines stay byte for byte as they are
				var end string
				switch tr.name {
				case "trailing-blanks":
					end = []string{" ", "\t", "  "}[rr.intn(3)]
				case "crlf":
					end = "\r"
				default:
					continue
				}
				data = vmapLines(in.data, func(i int, l string) string {
					if vhyphenLine(l) || strings.TrimSpace(l) == "" {
						return l
					}
					return l + end
				})
			} else {
				data = tr.apply(rr, in.data)
				if prop == "C05" && vhyphenEOL(data) {
					continue
				}
			}
			if bytes.Equal(data, in.data) {
				continue
			}
			got := c.Match(data)
			what := ""
			if vlicOnly(base, tr.keepLines) != vlicOnly(got, tr.keepLines) {
				what = fmt.Sprintf("transform %s changed the result: %s -> %s", tr.name, vlicOnly(base, tr.keepLines), vlicOnly(got, tr.keepLines))
			}
			sig := ""
			if what != "" {
				sig = vclassifyMeta(c, tr.name, in.data, data, base, got, func() *vrand {
					return r0.fork(uint64(ti)*7919 + uint64(len(in.data)))
				})
			}
			id := in.id + "_" + tr.name
			v := map[string]interface{}{"what": vclip(what), "transform": tr.name, "input_hex": vclip(hx(in.data)), "transformed_hex": vclip(hx(data))}
			var needs []string
			if sig != "" {
				// a classification as a known finding stands only if the model of the unchanged code
				// tokenizes both texts as the implementation does and matches them to the same results
				// (the findings are behaviours of the unchanged code; a change elsewhere that happens to
				// produce the same symptom on this input is something else)
				needs = vanchor(o, c, &metaKeys, "kf_"+id, in.data, data)
			}
			o.verdictSigCorr(prop, id, what == "", len(base.Matches) > 0, tr.name+":"+vhash(in.data), sig, needs, v)
			cnt[tr.name]++
		}
		if prop == "C06" {
			// every inserted copyright notice is itself reported on exactly its line
			rr := r.fork(uint64(len(in.data)) + 99)
			lines := strings.Split(string(in.data), "\n")
			pos := rr.intn(len(lines) + 1)
			notice := "Copyright 2021 Inserted Holder"
			nl := append(append(append([]string(nil), lines[:pos]...), notice), lines[pos:]...)
			data := []byte(strings.Join(nl, "\n"))
			got := c.Match(data)
			found := false
			for _, m := range got.Matches {
				if m.MatchType == "Copyright" && m.StartLine == pos+1 && m.EndLine == pos+1 {
					found = true
				}
			}
			what, sig := "", ""
			if !found && len(got.Matches) > 0 {
				what = fmt.Sprintf("copyright notice inserted as line %d is not reported (matches: %s)", pos+1, vshowResults(got))
				for _, m := range got.Matches {
					if m.MatchType != "Copyright" && m.StartLine <= pos+1 && pos+1 <= m.EndLine {
						sig = "C06/copyright-inside-span"
					}
				}
			}
			if len(got.Matches) > 0 {
				var needs []string
				if sig != "" {
					needs = vanchor(o, c, &metaKeys, "kf_"+in.id+"_notice", data)
				}
				o.verdictSigCorr(prop, in.id+"_notice", what == "", true, "notice:"+vhash(data), sig, needs, map[string]interface{}{"what": vclip(what), "line": pos + 1, "input_hex": vclip(hx(data))})
				cnt["notice-reported"]++
			}
			// the same on the text with every long word hyphen-split, the notice as its last line:
			// every deferred line break before it has to have been accounted for
			hy := strings.TrimRight(string(vdenseHyphen(in.data, 3, "")), "\n")
			if !strings.HasSuffix(hy, "-") {
				at := strings.Count(hy, "\n") + 2
				hdata := []byte(hy + "\n" + notice + "\n")
				hgot := c.Match(hdata)
				found := false
				for _, m := range hgot.Matches {
					if m.MatchType == "Copyright" && m.StartLine == at && m.EndLine == at {
						found = true
					}
				}
				what, sig := "", ""
				if !found {
					what = fmt.Sprintf("copyright notice appended as line %d of a hyphen-split text is not reported there (matches: %s)", at, vshowResults(hgot))
					for _, m := range hgot.Matches {
						if m.MatchType != "Copyright" && m.StartLine <= at && at <= m.EndLine {
							sig = "C06/copyright-inside-span"
						}
					}
				}
				var needs []string
				if sig != "" {
					needs = vanchor(o, c, &metaKeys, "kf_"+in.id+"_hynotice", hdata)
				}
				o.verdictSigCorr(prop, in.id+"_hynotice", what == "", true, "hynotice:"+vhash(hdata), sig, needs, map[string]interface{}{"what": vclip(what), "line": at, "input_hex": vclip(hx(hdata))})
				cnt["notice-after-hyphen-split"]++
			}
		}
	}
	o.stat(prop, map[string]interface{}{"transform_applications": cnt})
}

// vanchor emits, for each text, a `tok` record and a `match` record (corpus "full08", emitted on first
// use) and returns their ids: the needs_corr list of a classified failure.
func vanchor(o *vout, c *Classifier, keys *[]string, id string, texts ...[]byte) []string {
	if *keys == nil {
		*keys = vcorpusRecord(o, "full08", c)
	}
	var needs []string
	for i, t := range texts {
		tid := fmt.Sprintf("%s_t%d", id, i)
		mid := fmt.Sprintf("%s_m%d", id, i)
		vtokCase(o, "C03", tid, t, true)
		vmatchCase(o, c, "full08", *keys, mid, t, true)
		needs = append(needs, tid, mid)
	}
	return needs
}

// vclassifyMeta assigns a known-finding signature to a failing metamorphic case, or "".
func vclassifyMeta(c *Classifier, tr string, in, data []byte, base, got Results, reseed func() *vrand) string {
	if tr == "paren-markers" {
		// C06/letter-paren-marker: header() does not treat "a)" as a list marker (`if e != ')'`).
		// The very same lines marked "a." instead leave the result unchanged: then this case is
		// that finding and nothing else.
		alt := vparenMarkers(reseed(), in, ".")
		if vlicOnly(base, true) == vlicOnly(c.Match(alt), true) {
			return "C06/letter-paren-marker"
		}
		return ""
	}
	if !strings.HasPrefix(tr, "hyphen-split") {
		return ""
	}
	// C06/line-restart-after-hyphen-join: after a hyphen-joined word the tokenizer starts a new line
	// buffer, so the rest of that physical line is processed as if it began a line: its first word
	// is dropped when it looks like a list marker ("2.", "m.", "3.1.") and the whole remainder is
	// dropped when it looks like a copyright notice ("is Copyright (C) 2003 …"). Undo exactly those splits; if the result then equals the
	// untransformed one, this case is that finding and nothing else.
	lines := strings.Split(string(data), "\n")
	var out []string
	undone := 0
	for i := 0; i < len(lines); {
		l := lines[i]
		i++
		// a merged line may itself end in a split (dense splits chain)
		for strings.HasSuffix(l, "-") && i < len(lines) {
			f := strings.Fields(lines[i])
			if len(f) < 2 {
				break
			}
			// the restarted "line" runs up to the next join: complete its last word
			rest := strings.Join(f[1:], " ")
			if strings.HasSuffix(rest, "-") && i+1 < len(lines) {
				if g := strings.Fields(lines[i+1]); len(g) > 0 {
					rest = rest[:len(rest)-1] + g[0]
				}
			}
			// a word begins at the first rune that can start one (letter, digit, '&', '('): "$5.00." -> "5.00."
			w1 := strings.TrimLeftFunc(f[1], func(r rune) bool {
				return !(unicode.IsLetter(r) || unicode.IsDigit(r) || r == '&' || r == '(')
			})
			if !header(strings.ToLower(w1)) && !visNotice(rest) {
				break
			}
			l = l[:len(l)-1] + strings.TrimLeft(lines[i], " \t")
			i++
			undone++
		}
		out = append(out, l)
	}
	if undone == 0 {
		return ""
	}
	again := c.Match([]byte(strings.Join(out, "\n")))
	if vlicOnly(base, false) == vlicOnly(again, false) {
		return "C06/line-restart-after-hyphen-join"
	}
	return ""
}

func TestVerifC05(t *testing.T) { vrunMeta(t, "C05") }
func TestVerifC06(t *testing.T) { vrunMeta(t, "C06") }

// ---------------------------------------------------------------------------
// C07

// vshift renders a result with lines/token indices shifted: license matches in their reported
// order, Copyright pseudo-matches (which carry no token span, so their place in the order is not
// position-invariant) as a sorted set of lines.
func vshift(r Results, dl, dt int) string {
	var ps, cs []string
	for _, m := range r.Matches {
		if m.MatchType == "Copyright" {
			cs = append(cs, fmt.Sprintf("C|L%05d", m.StartLine+dl))
			continue
		}
		ps = append(ps, fmt.Sprintf("%s/%s/%s|%016x|%d-%d|L%d-%d", m.MatchType, m.Name, m.Variant, math.Float64bits(m.Confidence), m.StartTokenIndex+dt, m.EndTokenIndex+dt, m.StartLine+dl, m.EndLine+dl))
	}
	sort.Strings(cs)
	return strings.Join(ps, ";") + " " + strings.Join(cs, ";")
}

func TestVerifC07(t *testing.T) {
	o := newVout()
	defer o.close()
	r := newVrand(vseed() + 61)
	c := vdefault()
	n := 48
	if vthorough() {
		n = 800
	}
	vloadFiles()
	cnt := 0
	var corpusKeys []string
	var shortDocs []vdoc
	for _, d := range vcorpus {
		if nw := len(strings.Fields(string(d.data))); nw >= 60 && nw <= 400 && d.cat == "License" {
			shortDocs = append(shortDocs, d)
		}
	}
	for i, d := range vpick(r.fork(3), n) {
		rr := r.fork(uint64(700 + i))
		var X []byte
		switch i % 9 {
		case 8:
			// several licenses laid out the way a minifier or a generated NOTICE file does: the first on
			// ONE line that also carries the first words of the second, a copyright line, the rest of
			// the second, then a third — candidates that share lines, at token 0 of X
			a, b, d3 := shortDocs[rr.intn(len(shortDocs))], shortDocs[rr.intn(len(shortDocs))], shortDocs[rr.intn(len(shortDocs))]
			if i%2 == 0 {
				a = vnamed("License/MIT/pristine.txt", "License/ISC/license.txt", "License/Zlib/license.txt")[rr.intn(3)]
			}
			bw := strings.Fields(string(b.data))
			k := 4 + rr.intn(6)
			var sb strings.Builder
			sb.WriteString(strings.Join(strings.Fields(string(a.data)), " ") + " " + strings.Join(bw[:k], " ") + "\n")
			sb.WriteString("Copyright 2020 Foo Bar Inc.\n")
			for j, w := range bw[k:] {
				sb.WriteString(w)
				if j%12 == 11 {
					sb.WriteByte('\n')
				} else {
					sb.WriteByte(' ')
				}
			}
			sb.WriteString("\n")
			if rr.chance(1, 2) {
				sb.WriteString("Copyright (c) 2019 Somebody Else\n")
			}
			sb.Write(d3.data)
			X = []byte(sb.String())
		case 0:
			X = d.data
		case 7:
			// exactly on the threshold: the shortest prefix of the text (cut at white space) that holds
			// int(0.8*n) of the document's n tokens
			// (a document whose token count is a multiple of 5, so that 0.8*n is a whole number and the
			// truncated text scores exactly 0.8)
			for k := 0; k < len(vcorpus); k++ {
				cand := vcorpus[(i*37+k)%len(vcorpus)]
				if nt := len(c.createTargetIndexedDocument(cand.data).Tokens); nt%5 == 0 && nt >= 50 && nt <= 2500 {
					d = cand
					break
				}
			}
			full := len(c.createTargetIndexedDocument(d.data).Tokens)
			keep := int(0.8 * float64(full))
			X = d.data
			for p := 0; p < len(d.data) && keep > 0; p++ {
				if d.data[p] == ' ' || d.data[p] == '\n' {
					if len(c.createTargetIndexedDocument(d.data[:p]).Tokens) >= keep {
						X = append([]byte(nil), d.data[:p]...)
						break
					}
				}
			}
		case 5, 6:
			// partial: the first words are missing (5), a block of words inside is missing (6)
			ws := strings.Fields(string(d.data))
			cut := len(ws) * (5 + rr.intn(10)) / 100
			from := 0
			if i%9 == 6 && len(ws) > 2*cut+2 {
				from = cut + rr.intn(len(ws)-2*cut)
			}
			ws = append(append([]string(nil), ws[:from]...), ws[from+cut:]...)
			var sb strings.Builder
			for j, w := range ws {
				sb.WriteString(w)
				if j%9 == 8 {
					sb.WriteByte('\n')
				} else {
					sb.WriteByte(' ')
				}
			}
			X = []byte(sb.String())
		case 4:
			// partial: the tail of the text is missing, nothing else changed
			X = d.data[:len(d.data)*(80+rr.intn(12))/100]
		case 1:
			X = veditWords(rr, d.data, 100)
		case 2:
			X = veditWords(rr, d.data, 40)
			X = X[:len(X)*(85+rr.intn(15))/100]
		default:
			d2 := vcorpus[rr.intn(len(vcorpus))]
			X = append(append(append([]byte(nil), d.data...), []byte("\n"+voovBlock(rr, 2))...), d2.data...)
		}
		if len(X) == 0 || X[len(X)-1] != '\n' {
			X = append(X, '\n')
		}
		if len(c.createTargetIndexedDocument(X).Tokens) < c.q {
			continue
		}
		base := c.Match(X)
		// blocks of several lines, and pads of a few words only (the whole input may then still
		// be shorter than the corpus document a partial X comes from)
		for pi, pad := range [][2]string{{voovBlock(rr, 1), voovBlock(rr, 1+rr.intn(3))}, {voovBlock(rr, 7), voovBlock(rr, 1+rr.intn(3))},
			{voovLine(rr, 4+rr.intn(6)) + "\n", ""}, {voovLine(rr, 5+rr.intn(4)) + "\n", voovLine(rr, 1+rr.intn(2)) + "\n"},
			// a prefix longer than the words a partial X is missing
			{voovBlock(rr, 40+rr.intn(40)), voovBlock(rr, 30)}} {
			pre, post := pad[0], pad[1]
			pl := strings.Count(pre, "\n")
			data := append(append([]byte(pre), X...), []byte(post)...)
			got := c.Match(data)
			dt := len(c.createTargetIndexedDocument([]byte(pre)).Tokens)
			what, sig := "", ""
			if len(base.Matches) == 0 && len(got.Matches) == 0 {
				// both empty
			} else if vshift(base, pl, dt) != vshift(got, 0, 0) {
				what = fmt.Sprintf("X alone: %s ; embedded after %d lines/%d words: %s", vshift(base, pl, dt), pl, dt, vshift(got, 0, 0))
				sig = vclassifyC07(c, X, data, base, got)
			}
			var needs []string
			if sig != "" {
				// the classification stands only if the model of the unchanged code gives the same two
				// answers: emit both inputs as `match` records (DESIGN §6 C07)
				if corpusKeys == nil {
					corpusKeys = vcorpusRecord(o, "full08", c)
				}
				needs = []string{fmt.Sprintf("kf%d_%d_X", i, pi), fmt.Sprintf("kf%d_%d_D", i, pi)}
				vmatchCase(o, c, "full08", corpusKeys, needs[0], X, true)
				vmatchCase(o, c, "full08", corpusKeys, needs[1], data, true)
			}
			o.verdictSigCorr("C07", fmt.Sprintf("%d_%d", i, pi), what == "", len(base.Matches) > 0, fmt.Sprintf("pos:%s:%d", vhash(X), pi), sig, needs, map[string]interface{}{"what": vclip(what), "doc": vkey(d), "kind": i % 9, "x_hex": vclip(hx(X)), "prefix_lines": pl})
			cnt++
		}
	}
	// exactly on the threshold: user documents of n distinct words (n a multiple of 5) with the first or
	// the last 0.8*n words kept, after a prefix and with NOTHING behind it (the last token of the input
	// is the last token of X), and with a few words behind it
	{
		cs := NewClassifier(0.8)
		mk := func(n int) string {
			var ws []string
			for k := 0; k < n; k++ {
				ws = append(ws, "syn"+string(rune('a'+k/26))+string(rune('a'+k%26)))
				if k%10 == 9 {
					ws[len(ws)-1] += "\n"
				}
			}
			return strings.ReplaceAll(strings.Join(ws, " "), "\n ", "\n")
		}
		for _, n := range []int{100, 60, 145} {
			cs.AddContent("License", fmt.Sprintf("OnThreshold-%d", n), "a.txt", []byte(mk(n)))
		}
		for _, n := range []int{100, 60, 145} {
			ws := strings.Fields(mk(n))
			variants := [][]string{ws[:n*4/5], ws[n/5:]}
			// noisy partial copies: a few words missing near the start and a stretch in which every third
			// word is replaced (each replacement costs one word of distance but keeps three or four words
			// from being claimed by any q-gram): the number of claimed words lands around 0.8 times the
			// length of X, below 0.8 times the length of the document, at a word distance well under 20 %
			for _, pct := range []int{8, 11, 14, 17, 20} {
				x := append(append([]string(nil), ws[:4]...), ws[4+n/20:]...)
				from, c := len(x)/3, n*pct/100
				for j := from; j < from+c && j < len(x); j += 3 {
					x[j] = voovWords[j%len(voovWords)]
				}
				variants = append(variants, x)
			}
			for vi, w := range variants {
				X := []byte(strings.Join(w, " ") + "\n")
				base := cs.Match(X)
				for pi, pad := range [][2]string{{voovBlock(r, 3), ""}, {voovBlock(r, 13), ""}, {voovLine(r, 6) + "\n", voovLine(r, 1) + "\n"}, {voovBlock(r, 2), voovBlock(r, 2)}} {
					data := append(append([]byte(pad[0]), X...), []byte(pad[1])...)
					got := cs.Match(data)
					pl := strings.Count(pad[0], "\n")
					dt := len(cs.createTargetIndexedDocument([]byte(pad[0])).Tokens)
					what := ""
					if vshift(base, pl, dt) != vshift(got, 0, 0) {
						what = fmt.Sprintf("X alone: %s ; embedded after %d lines/%d words: %s", vshift(base, pl, dt), pl, dt, vshift(got, 0, 0))
					}
					o.verdict("C07", fmt.Sprintf("thr%d_%d_%d", n, vi, pi), what == "", len(base.Matches) > 0, fmt.Sprintf("thr:%d:%d:%d", n, vi, pi), map[string]interface{}{"what": vclip(what), "x_hex": vclip(hx(X)), "prefix_lines": pl})
					cnt++
				}
			}
		}
	}
	// a document dense in two-byte letters, embedded behind prefixes of 0..47 bytes: wherever the
	// tokenizer's read chunks end, the words come out the same
	{
		ca := NewClassifier(0.8)
		var ws []string
		for k := 0; k < 700; k++ {
			ws = append(ws, "r\u00e9dig"+string(rune('a'+k/26%26))+"\u00e9"+string(rune('a'+k%26))+"s")
			if k%9 == 8 {
				ws[len(ws)-1] += "\n"
			}
		}
		text := strings.ReplaceAll(strings.Join(ws, " "), "\n ", "\n") + "\n"
		ca.AddContent("License", "Accented", "a.txt", []byte(text))
		X := []byte(text)
		base := ca.Match(X)
		for pl := 0; pl < 48; pl++ {
			pre := strings.Repeat("z", pl)
			if pl > 0 {
				pre = pre[:pl-1] + "\n"
			}
			data := append([]byte(pre), X...)
			got := ca.Match(data)
			dt := len(ca.createTargetIndexedDocument([]byte(pre)).Tokens)
			what := ""
			if vshift(base, strings.Count(pre, "\n"), dt) != vshift(got, 0, 0) {
				what = fmt.Sprintf("X alone: %s ; behind a prefix of %d bytes: %s", vshift(base, strings.Count(pre, "\n"), dt), pl, vshift(got, 0, 0))
			}
			o.verdict("C07", fmt.Sprintf("accent_%d", pl), what == "", len(base.Matches) > 0, fmt.Sprintf("accent:%d", pl), map[string]interface{}{"what": vclip(what), "prefix_bytes": pl})
			cnt++
		}
	}
	o.stat("C07", map[string]interface{}{"comparisons": cnt})
}

// vclassifyC07: signature C07/negative-offset-clamp — a match present only when X stands alone
// belongs to a document for which the X-alone run took the clamp branch of fuseRanges (a matched
// range with negative offset within the error margin) — see DESIGN §6 C07.
func vclassifyC07(c *Classifier, X, data []byte, base, got Results) string {
	gotNames := map[string]bool{}
	for _, m := range got.Matches {
		gotNames[m.MatchType+"/"+m.Name+"/"+m.Variant] = true
	}
	idX := c.createTargetIndexedDocument(X)
	idX.generateSearchSet(c.q)
	lost := 0
	for _, m := range base.Matches {
		if m.MatchType != "Copyright" && !gotNames[m.MatchType+"/"+m.Name+"/"+m.Variant] {
			lost++
		}
	}
	if lost == 0 {
		return ""
	}
	for _, m := range base.Matches {
		k := m.MatchType + "/" + m.Name + "/" + m.Variant
		if m.MatchType == "Copyright" || gotNames[k] {
			continue
		}
		d := c.docs[c.generateDocName(m.MatchType, m.Name, m.Variant)]
		if d == nil {
			return ""
		}
		errorMargin := int(math.Round(float64(len(d.s.Tokens)) * (1.0 - c.threshold)))
		clamped := false
		for _, mr := range targetMatchedRanges(d.s, idX.s) {
			off := mr.TargetStart - mr.SrcStart
			if off < 0 && -off <= errorMargin {
				clamped = true
			}
		}
		if !clamped {
			return ""
		}
	}
	// every lost match is explained by the clamp; no other difference allowed
	for _, m := range got.Matches {
		if m.MatchType == "Copyright" {
			continue
		}
		found := false
		for _, b := range base.Matches {
			if b.MatchType == m.MatchType && b.Name == m.Name && b.Variant == m.Variant && b.Confidence == m.Confidence {
				found = true
			}
		}
		if !found {
			return ""
		}
	}
	return "C07/negative-offset-clamp"
}

// ---------------------------------------------------------------------------
// C08

type vchunkReader struct {
	data    []byte
	sizes   []int // chunk sizes, cycled
	k       int
	eofWith bool  // deliver the last chunk together with io.EOF
	failAt  int   // fail once this many bytes were delivered (-1: never)
	failErr error
	pos     int
}

func (c *vchunkReader) Read(p []byte) (int, error) {
	if c.failAt >= 0 && c.pos >= c.failAt {
		return 0, c.failErr
	}
	if c.pos >= len(c.data) {
		return 0, io.EOF
	}
	n := c.sizes[c.k%len(c.sizes)]
	c.k++
	if n > len(p) {
		n = len(p)
	}
	if n > len(c.data)-c.pos {
		n = len(c.data) - c.pos
	}
	if c.failAt >= 0 && c.pos+n > c.failAt {
		n = c.failAt - c.pos
	}
	copy(p, c.data[c.pos:c.pos+n])
	c.pos += n
	if c.eofWith && c.pos >= len(c.data) && (c.failAt < 0 || c.failAt > len(c.data)) {
		return n, io.EOF
	}
	return n, nil
}

var verrBoom = errors.New("verif: injected reader failure")

func TestVerifC08(t *testing.T) {
	o := newVout()
	defer o.close()
	r := newVrand(vseed() + 71)
	c := vdefault()
	nIn := 8
	pads := []int{0, 1, 2, 3, 4, 5, 1019, 1020, 1021, 1023, 1024, 1025, 2043, 2044, 2047, 2048}
	nFail := 12
	if vthorough() {
		nIn = 60
		pads = nil
		for p := 0; p <= 2*1024+8; p++ {
			pads = append(pads, p)
		}
		nFail = 200
	}
	multibyte := []byte("The — “MIT” License © 2020 ‐ Ünïcödé 日本語 𝔘𝔫𝔦 Permission is hereby granted, free of charge, to any person obtaining a copy\n")
	inputs := vgenInputs(r, nIn/2+1, nIn/4+1, nIn/4+1, nIn/4+1)
	inputs = append(inputs, vinput{id: "mb", data: bytes.Repeat(multibyte, 30)})
	// a real license whose word gaps are no-break spaces (2 bytes each) and whose quotes are
	// typographic: wherever the buffer boundary falls, a multi-byte character that matters is near
	for _, d := range vnamed("License/MIT/a.txt", "License/BSD-3-Clause/a.txt") {
		nb := strings.ReplaceAll(string(d.data), " ", "\u00a0")
		nb = strings.ReplaceAll(nb, "\"", "\u201c")
		inputs = append(inputs, vinput{id: "mb_" + d.name, data: []byte(nb)})
	}
	// every long word split across a line break with a hyphen: the state of a pending join is
	// alive at about every second byte, so it is alive at the buffer boundaries for most pads
	for _, d := range vnamed("License/Apache-2.0/a.txt", "License/MIT/a.txt") {
		inputs = append(inputs, vinput{id: "mbhy_" + d.name, data: vdenseHyphen(d.data, 3, "")})
	}
	// typographic dashes where they matter: every long word split with U+2014 + newline (hyphen join) and
	// date lines written with U+2010, so that a 3-byte character sits near every buffer boundary
	for _, d := range vnamed("License/Apache-2.0/a.txt", "License/MIT/a.txt") {
		t := strings.ReplaceAll(string(vdenseHyphen(d.data, 3, "")), "-\n", "\u2014\n")
		t = strings.ReplaceAll(t, "\n\n", "\n2020\u201001\u201002\n\n")
		inputs = append(inputs, vinput{id: "mbdash_" + d.name, data: []byte(t)})
	}
	// total lengths that fill the read buffer exactly on the last read (1024 + k*1020 bytes), the text
	// ending in a word: a reader that hands over its last bytes together with io.EOF then makes
	// io.ReadFull return a full buffer and a nil error while the stream is already at its end
	for _, d := range vnamed("License/ISC/license.txt", "License/MIT/a.txt") {
		body := bytes.TrimSpace(d.data)
		for k := 0; k < 3; k++ {
			if want := 1024 + k*1020; want >= len(body) {
				inputs = append(inputs, vinput{id: fmt.Sprintf("len%d_%s", want, d.name), data: append(bytes.Repeat([]byte(" "), want-len(body)), body...)})
			}
		}
	}
	nfrag, npad, nfail := 0, 0, 0
	for ii, in := range inputs {
		want := c.Match(in.data)
		// fragmentation
		for fi, sizes := range [][]int{{1}, {2, 3}, {7, 1, 1024}, {1019, 5}, {1024}, {4096}, {1 + r.intn(50), 1 + r.intn(2000)}} {
			for _, eofWith := range []bool{false, true} {
				if !vthorough() && fi > 1 && ii%3 != fi%3 && !strings.HasPrefix(in.id, "len") {
					continue
				}
				got, err := c.MatchFrom(&vchunkReader{data: in.data, sizes: sizes, eofWith: eofWith, failAt: -1})
				what := ""
				if err != nil {
					what = fmt.Sprintf("unexpected error %v", err)
				} else if !vresEqual(want, got) {
					what = fmt.Sprintf("fragmentation %v eofWith=%v: %s vs %s", sizes, eofWith, vshowResults(want), vshowResults(got))
				}
				o.verdict("C08", fmt.Sprintf("%s_f%d_%v", in.id, fi, eofWith), what == "", len(want.Matches) > 0, fmt.Sprintf("frag:%s:%v:%v", vhash(in.data), sizes, eofWith), map[string]interface{}{"what": vclip(what), "sizes": sizes, "input_hex": vclip(hx(in.data))})
				nfrag++
			}
		}
		// padding: leading spaces shift everything across the buffer boundaries
		if ii < 2 || vthorough() && ii < 8 || strings.HasPrefix(in.id, "mb") {
			for _, p := range pads {
				data := append(bytes.Repeat([]byte(" "), p), in.data...)
				got := c.Match(data)
				what := ""
				if !vresEqual(want, got) {
					what = fmt.Sprintf("pad %d: %s vs %s", p, vshowResults(want), vshowResults(got))
				}
				o.verdict("C08", fmt.Sprintf("%s_p%d", in.id, p), what == "", len(want.Matches) > 0, fmt.Sprintf("pad:%s:%d", vhash(in.data), p), map[string]interface{}{"what": vclip(what), "pad": p, "input_hex": vclip(hx(in.data))})
				npad++
			}
		}
		// reader faults
		for k := 0; k < nFail; k++ {
			at := 0
			if len(in.data) > 0 {
				at = r.intn(len(in.data) + 1)
			}
			if k < 6 {
				at = []int{0, 1, 1023, 1024, 1025, len(in.data)}[k]
				if at > len(in.data) {
					at = len(in.data)
				}
			}
			for ei, e := range []error{verrBoom, io.ErrUnexpectedEOF, io.ErrClosedPipe} {
				if !vthorough() && ei > 0 && k%4 != 0 {
					continue
				}
				var got Results
				var err error
				pan, msg := catch(func() {
					got, err = c.MatchFrom(&vchunkReader{data: in.data, sizes: []int{1 + r.intn(3000)}, failAt: at, failErr: e})
				})
				what := ""
				switch {
				case pan:
					what = "panic: " + msg
				case err != e:
					what = fmt.Sprintf("reader failed with %v after %d bytes; MatchFrom returned error %v and %d matches", e, at, err, len(got.Matches))
				case len(got.Matches) != 0 || got.TotalInputLines != 0:
					what = fmt.Sprintf("error returned together with results %s", vshowResults(got))
				}
				o.verdict("C08", fmt.Sprintf("%s_e%d_%d", in.id, k, ei), what == "", true, fmt.Sprintf("fail:%s:%d:%d", vhash(in.data), at, ei), map[string]interface{}{"what": what, "fail_after": at, "error": e.Error(), "input_hex": vclip(hx(in.data))})
				nfail++
			}
		}
	}
	o.stat("C08", map[string]interface{}{"fragmentations": nfrag, "pads": npad, "faults": nfail})
}

// ---------------------------------------------------------------------------
// C09 (run with -race by bin/check)

func vsnapshot(c *Classifier) string {
	var keys []string
	for k := range c.docs {
		keys = append(keys, k)
	}
	sort.Strings(keys)
	h := uint64(14695981039346656037)
	mix := func(x uint64) { h = (h ^ x) * 1099511628211 }
	for _, k := range keys {
		d := c.docs[k]
		for _, t := range d.Tokens {
			mix(uint64(t.ID))
			mix(uint64(t.Line))
		}
		for _, r := range d.runes {
			mix(uint64(r))
		}
		// the spare capacity behind runes is what a careless append writes into
		full := d.runes[:cap(d.runes)]
		for _, r := range full {
			mix(uint64(r))
		}
		for _, cs := range d.s.Checksums {
			mix(uint64(cs))
		}
		mix(uint64(len(d.s.Hashes)))
		mix(uint64(len(d.f.counts)))
	}
	mix(uint64(len(c.dict.words)))
	mix(uint64(len(c.dict.indices)))
	if c.tc != nil {
		for _, m := range []map[string]bool{c.tc.traceLicenses, c.tc.tracePhases} {
			var ks []string
			for k, v := range m {
				ks = append(ks, fmt.Sprint(k, "=", v))
			}
			sort.Strings(ks)
			for _, b := range []byte(strings.Join(ks, ",")) {
				mix(uint64(b))
			}
			mix(uint64(len(ks)))
		}
	}
	return fmt.Sprintf("%016x", h)
}

func TestVerifC09(t *testing.T) {
	o := newVout()
	defer o.close()
	r := newVrand(vseed() + 81)
	c := vclassifier(0.8)
	// documents without words are part of a corpus too (a file that holds a copyright line only)
	c.AddContent("License", "Wordless", "w.txt", []byte("--- ***\n"))
	c.AddContent("License", "NoticeOnly", "n.txt", []byte("Copyright 2019 Example Corp.\n"))
	nIn, G := 12, 8
	if vthorough() {
		nIn, G = 80, 64
	}
	inputs := vgenInputs(r, nIn/2, nIn/3, nIn/4, 2)
	// words split across hyphenated line breaks, with words the corpus has never seen on the same lines
	// (the path that flushes a line early must not intern them into the shared dictionary)
	for i, d := range vnamed("License/MIT/a.txt", "License/ISC/license.txt") {
		inputs = append(inputs, vinput{id: fmt.Sprintf("hy%d", i), data: vdenseHyphen(veditWords(r.fork(uint64(40+i)), d.data, 80), 3, "")})
	}
	want := make([]string, len(inputs))
	snap0 := vsnapshot(c)
	for i, in := range inputs {
		want[i] = vshowResults(c.Match(in.data))
	}
	snap1 := vsnapshot(c)
	o.verdict("C09", "snapshot-seq", snap0 == snap1, true, "snapshot-seq", map[string]interface{}{"what": "sequential Match calls changed the classifier's corpus state", "before": snap0, "after": snap1})
	var wg sync.WaitGroup
	var mu sync.Mutex
	bad := ""
	slow := 0
	for g := 0; g < G; g++ {
		wg.Add(1)
		go func(g int) {
			defer wg.Done()
			for k := 0; k < len(inputs); k++ {
				i := (k*7 + g*3) % len(inputs)
				var got string
				t0 := time.Now()
				if (g+k)%2 == 0 {
					got = vshowResults(c.Match(inputs[i].data))
				} else {
					rr, _ := c.MatchFrom(bytes.NewReader(inputs[i].data))
					got = vshowResults(rr)
				}
				if got != want[i] {
					mu.Lock()
					if time.Since(t0) > 900*time.Millisecond {
						// every go-diff call gives up after its own 1 s wall-clock deadline and then returns
						// a coarser script: a call this slow (many goroutines per core, a 9 000-word text) is
						// not a function of its input (DESIGN §4, DiffSpec.noDeadline) — counted, not compared
						slow++
					} else if bad == "" {
						bad = fmt.Sprintf("goroutine %d input %s: %s vs sequential %s", g, inputs[i].id, got, want[i])
					}
					mu.Unlock()
				}
			}
		}(g)
	}
	wg.Wait()
	o.verdict("C09", "concurrent", bad == "", true, "concurrent", map[string]interface{}{"what": vclip(bad), "goroutines": G, "inputs": len(inputs)})
	snap2 := vsnapshot(c)
	o.verdict("C09", "snapshot-conc", snap0 == snap2, true, "snapshot-conc", map[string]interface{}{"what": "concurrent Match calls changed the classifier's corpus state", "before": snap0, "after": snap2})
	// a classifier with a trace configuration (prefix and catch-all license patterns, with and without
	// traced phases, a Tracer that does nothing): its FIRST calls are concurrent ones — whatever the
	// trace checks on the Match path look up or remember is shared between the goroutines
	for ti, tcfg := range []*TraceConfiguration{
		{TraceLicenses: "License/MIT*,Header/*,License/ISC/license.txt", TracePhases: "", Tracer: func(string, ...interface{}) {}},
		{TraceLicenses: "*", TracePhases: "*", Tracer: func(string, ...interface{}) {}}} {
		ct := vclassifier(0.8)
		ct.AddContent("License", "Wordless", "w.txt", []byte("--- ***\n"))
		ct.SetTraceConfiguration(tcfg)
		tsnap0 := vsnapshot(ct)
		tbad := ""
		var twg sync.WaitGroup
		for g := 0; g < G; g++ {
			twg.Add(1)
			go func(g int) {
				defer twg.Done()
				for k := 0; k < len(inputs) && k < 6; k++ {
					i := (k*5 + g) % len(inputs)
					t0 := time.Now()
					got := vshowResults(ct.Match(inputs[i].data))
					if got != want[i] && time.Since(t0) <= 900*time.Millisecond {
						mu.Lock()
						if tbad == "" {
							tbad = fmt.Sprintf("goroutine %d input %s: %s vs untraced sequential %s", g, inputs[i].id, got, want[i])
						}
						mu.Unlock()
					}
				}
			}(g)
		}
		twg.Wait()
		o.verdict("C09", fmt.Sprintf("concurrent-traced%d", ti), tbad == "", true, fmt.Sprintf("concurrent-traced%d", ti), map[string]interface{}{"what": vclip(tbad), "trace_licenses": tcfg.TraceLicenses})
		tsnap1 := vsnapshot(ct)
		o.verdict("C09", fmt.Sprintf("snapshot-traced%d", ti), tsnap0 == tsnap1, true, fmt.Sprintf("snapshot-traced%d", ti), map[string]interface{}{"what": "concurrent Match calls changed the traced classifier's state (corpus, dictionary or trace configuration)", "before": tsnap0, "after": tsnap1})
	}
	o.stat("C09", map[string]interface{}{"goroutines": G, "inputs": len(inputs), "slow_calls_not_compared": slow})
}

// ---------------------------------------------------------------------------
// C10

func TestVerifC10(t *testing.T) {
	o := newVout()
	defer o.close()
	r := newVrand(vseed() + 91)
	vloadFiles()
	// just below 1 the q derived from the threshold is astronomically large (int(t/(1-t))): every
	// search set clamps it to its document's length
	ths := []float64{0, 1e-9, 0.5, 0.8, 1 - 1e-9, 1, 0.99999999999999, math.Nextafter(1, 0)}
	nMal, nMut := 60, 20
	if vthorough() {
		nMal, nMut = 3000, 600
	}
	var inputs []vinput
	for i := 0; i < nMal; i++ {
		inputs = append(inputs, vinput{id: fmt.Sprintf("m%d", i), data: vmalformed(r.fork(uint64(i)), i)})
	}
	for i, d := range vpick(r.fork(9), nMut) {
		rr := r.fork(uint64(4000 + i))
		data := append([]byte(nil), d.data...)
		for k := 0; k < 1+rr.intn(20) && len(data) > 0; k++ {
			p := rr.intn(len(data))
			switch rr.intn(6) {
			case 0:
				data[p] = byte(rr.intn(256))
			case 1:
				data = append(data[:p], data[p+rr.intn(len(data)-p):]...)
			case 2:
				data = append(data[:p], append([]byte([]string{"-\n", "&amp;", "\x00", "\xff\xfe", "&#xD800;", "\n\n\n", "(c)", "1.2.3."}[rr.intn(8)]), data[p:]...)...)
			case 3:
				data = append(data, data[:p]...)
			case 4:
				data = bytes.ToUpper(data)
			case 5:
				data = data[:p]
			}
		}
		inputs = append(inputs, vinput{id: fmt.Sprintf("u%d", i), data: data})
	}
	inputs = append(inputs, vinput{id: "longline", data: bytes.Repeat([]byte("permission is hereby granted "), 40000)})
	// directed: documents with Copyright matches and no tokens, with and without final EOL
	for i, s := range []string{"Copyright (c) 2020 Foo\n", "// Copyright 2019 Foo Inc.", "2020-01-31\n", "Copyright 2001 a\n\n2020-01-31\n---\n"} {
		inputs = append(inputs, vinput{id: fmt.Sprintf("notice%d", i), data: []byte(s)})
	}
	// directed: the texts of the small corpus themselves (they pass every pre-filter at every threshold,
	// also just below 1 where the q derived from the threshold is astronomically large)
	inputs = append(inputs, vinput{id: "noticeself0", data: []byte("one two three")}, vinput{id: "noticeself1", data: vcorpus[0].data},
		vinput{id: "noticeself2", data: append([]byte("zyxqv qwrtzp\n"), vcorpus[0].data...)})
	// directed: words that begin like a URL scheme but are shorter than it, the capital letter as is
	// (Normalize keeps it) or as an entity (Match / AddContent decode it after lower-casing)
	for i, s := range []string{"Https:", "Https:/", "&#72;ttps:", "&#x48;ttps:/", "see Https: and &#72;ttps:/ x", "Http:", "&#72;ttps://", "Https://"} {
		inputs = append(inputs, vinput{id: fmt.Sprintf("noticescheme%d", i), data: []byte(s)})
	}
	// directed: a lone punctuation mark written as an entity, as the first word of a line, of the text, and in running text
	for i, s := range []string{"&#46; Permission is hereby granted", "&colon;", "x\n&rpar; y\n", "&#58;\n&#41;\n&#46;\n", "a &#46; b &period; c", "&#x2e;\n", "&#45;\n&#45; x", "&lpar;&rpar; &amp; &lpar;"} {
		inputs = append(inputs, vinput{id: fmt.Sprintf("noticepunct%d", i), data: []byte(s)})
	}
	// directed: out-of-vocabulary words only (every id 0), alone and after a notice line
	for i, s := range []string{"foo bar baz", "zzz", "some words\nnobody has ever put\ninto the dictionary", "Copyright 2020 somebody\nqqq www eee rrr", "qq ww ee rr tt yy uu ii oo pp aa ss dd ff gg hh jj kk ll"} {
		inputs = append(inputs, vinput{id: fmt.Sprintf("noticeoov%d", i), data: []byte(s)})
	}
	small := func(th float64) *Classifier {
		c := NewClassifier(th)
		c.AddContent("License", "Tiny", "a.txt", []byte("one two three"))
		c.AddContent("License", "Empty", "a.txt", nil)
		c.AddContent("License", "NoWords", "a.txt", []byte("--- *** ...\n\n"))
		c.AddContent("License", "MIT", "a.txt", vcorpus[0].data)
		// a document whose words are, after entity decoding, the placeholder the dictionary returns for
		// unknown ids ("UNKNOWN", upper case: entities are decoded after lower-casing): q-grams of
		// out-of-vocabulary input words then hash like this document's although no id agrees
		c.AddContent("License", "Unk", "a.txt", []byte(strings.Repeat("&#85;&#78;&#75;&#78;&#79;&#87;&#78; ", 12)))
		return c
	}
	n := 0
	// no result after `limit` counts as a hang. Every go-diff call gives up after its own 1 s deadline,
	// so a Match at a threshold near 0 over the full corpus (no document is filtered out, hundreds of
	// diffs against long documents) legitimately takes minutes: the limit is raised for those runs.
	limit := 120 * time.Second
	run := func(cname string, c *Classifier, in vinput) {
		var what string
		done := make(chan bool, 1)
		go func() {
			pan, msg := catch(func() {
				c.Match(in.data)
				c.MatchFrom(bytes.NewReader(in.data))
				c.Normalize(in.data)
			})
			if pan {
				what = "panic: " + msg
			}
			done <- true
		}()
		select {
		case <-done:
		case <-time.After(limit):
			what = fmt.Sprintf("hang: no result after %v", limit)
		}
		o.verdict("C10", cname+"_"+in.id, what == "", len(in.data) > 0, cname+":"+vhash(in.data), map[string]interface{}{"what": what, "classifier": cname, "threshold": c.threshold, "input_hex": vclip(hx(in.data))})
		n++
	}
	full := vdefault()
	for i, in := range inputs {
		run("full0.8", full, in)
		for ti, th := range ths {
			if !vthorough() && (i+ti)%3 != 0 && !strings.HasPrefix(in.id, "notice") {
				continue
			}
			run(fmt.Sprintf("small%v", th), small(th), in)
			run(fmt.Sprintf("empty%v", th), NewClassifier(th), in)
		}
		// AddContent accepts the same bytes
		pan, msg := catch(func() { NewClassifier(0.8).AddContent("License", "X", "y", in.data) })
		o.verdict("C10", "add_"+in.id, !pan, true, "add:"+vhash(in.data), map[string]interface{}{"what": msg, "input_hex": vclip(hx(in.data))})
	}
	if vthorough() {
		for _, th := range []float64{0, 0.5, 1} {
			c := vclassifier(th)
			every := 10
			if th < 0.5 {
				limit, every = 30*time.Minute, 60
			}
			for i, in := range inputs {
				if i%every == 0 {
					if th < 0.5 && len(in.data) > 400 {
						// at a threshold near 0 nothing is filtered: the number of candidate ranges grows
						// quadratically with the input and each costs a diff against each of 431 documents
						// (hours for a 10 kB text, all of it terminating work) — only short inputs here;
						// long ones meet threshold 0 on the small corpora above
						in = vinput{id: in.id, data: in.data[:400]}
					}
					run(fmt.Sprintf("full%v", th), c, in)
				}
			}
			limit = 120 * time.Second
		}
	}
	// a storm of words joined across hyphenated line breaks that each end at a newline, then blank lines:
	// line bookkeeping must stay linear (milliseconds); a counter that is added again and again makes
	// Normalize write quadratically many line breaks
	{
		storm := strings.Repeat("a-\nb\n", 20000) + strings.Repeat("\n", 20000)
		limit = 4 * time.Second // a few hundredths of a second when the bookkeeping is linear
		run("small0.8", small(0.8), vinput{id: "hyphen-newline-storm", data: []byte(storm)})
		limit = 120 * time.Second
	}
	// a very long line that reaches the word diff against an equally long user document and differs from
	// it in every second word: the diff library is only bounded by its own 1 s deadline (a crude script
	// after that), so Match returns within seconds; without that bound the diff is quadratic (minutes)
	{
		nw := 150000
		if vthorough() {
			nw = 300000
		}
		kw := make([]string, nw)
		iw := make([]string, nw)
		for i := range kw {
			w := []byte{}
			for k := i; ; k /= 26 { // letters only: digits would be cleaned away
				w = append(w, byte('a'+k%26))
				if k < 26 {
					break
				}
			}
			kw[i] = "w" + string(w)
			iw[i] = kw[i]
			if i%2 == 1 {
				iw[i] = "x" + kw[i]
			}
		}
		c := NewClassifier(0.5)
		c.AddContent("License", "Huge", "license.txt", []byte(strings.Join(kw, " ")))
		limit = 30 * time.Second
		if vthorough() {
			limit = 60 * time.Second
		}
		run("huge0.5", c, vinput{id: "scrambled-longline", data: []byte(strings.Join(iw, " "))})
		limit = 120 * time.Second
	}
	o.stat("C10", map[string]interface{}{"calls": n, "thresholds": ths})
}

// ---------------------------------------------------------------------------
// C11

func TestVerifC11(t *testing.T) {
	o := newVout()
	defer o.close()
	r := newVrand(vseed() + 101)
	c := vclassifier(0.8)
	n := 14
	if vthorough() {
		n = 500
	}
	inputs := vgenInputs(r, n/2, n/4, n/4, 0)
	vloadFiles()
	if vthorough() {
		for i, d := range vcorpus {
			inputs = append(inputs, vinput{id: fmt.Sprintf("c%d", i), data: d.data})
		}
	}
	// numbers with trailing dots / hyphens and section numbers at line starts inside license text
	for i, d := range vnamed("License/MIT/a.txt", "License/BSD-3-Clause/a.txt", "License/ISC/license.txt") {
		ws := strings.SplitAfter(string(d.data), " ")
		if len(ws) > 30 {
			ws[10] = "2.0.. " + ws[10]
			ws[20] = "1.). " + ws[20]
			ws[25] = ws[25] + "\n3.. "
		}
		inputs = append(inputs, vinput{id: fmt.Sprintf("dots%d", i), data: []byte(strings.Join(ws, ""))})
	}
	// hyphenated line breaks: texts that have them (a joined word ending its line, a word split
	// twice) and texts with every long word split, plain and indented
	for i, d := range vnamed("License/W3C/license.txt", "License/MIT/a.txt", "License/BSD-3-Clause/a.txt", "License/ISC/license.txt") {
		inputs = append(inputs, vinput{id: fmt.Sprintf("hy%d", i), data: d.data},
			vinput{id: fmt.Sprintf("hyd%d", i), data: vdenseHyphen(d.data, 3, "")},
			vinput{id: fmt.Sprintf("hyi%d", i), data: vdenseHyphen(vdenseHyphen(d.data, 3, "   "), 2, "")})
	}
	// listed spelling variants next to punctuation ("licence,", "organisation." …): corpus texts that
	// have them, and texts respelled by the C06 spelling transform
	for i, d := range vnamed("License/EUPL-1.1/license.txt", "License/wxWindows-3.1/license.txt", "License/Apache-2.0/pristine.txt", "License/MIT/a.txt") {
		t := d.data
		if i >= 2 {
			t = []byte(vreplaceWord(vreplaceWord(string(t), "license", "licence"), "License", "Licence"))
		}
		inputs = append(inputs, vinput{id: fmt.Sprintf("ukspell%d", i), data: t})
	}
	// a URL scheme that starts a word capitalised (Normalize keeps the case of a word's first rune)
	for i, d := range vnamed("Header/Apache-2.0/header.txt", "License/Apache-2.0/pristine.txt") {
		t := strings.Replace(string(d.data), "http://www.apache.org", "Https://www.apache.org", 1)
		t = strings.Replace(t, "http://www.apache.org", "HTTPS://www.apache.org", 1)
		inputs = append(inputs, vinput{id: fmt.Sprintf("caphttps%d", i), data: []byte(t)})
	}
	inputs = append(inputs, vinput{id: "hyfirst", data: append([]byte("(-\n) see the\nCopyright 20-\n20 Foo\n"), vnamed("License/MIT/a.txt")[0].data...)})
	// list markers in upper and mixed case at line starts ("II.", "IV:", "A.", "Iii.")
	for i, d := range vnamed("License/MIT/a.txt", "License/BSD-3-Clause/a.txt", "License/NPL-1.1/license.txt", "License/Zlib/license.txt") {
		mk := []string{"II.", "IV:", "A.", "III.", "iv.", "Vi.", "B.", "XI.", "ii."}
		k := 0
		prevHyphen := false
		t := vmapLines(d.data, func(li int, l string) string {
			f := strings.Fields(l)
			ph := prevHyphen
			prevHyphen = strings.HasSuffix(strings.TrimRight(l, " \t\r"), "-")
			if !ph && len(f) > 0 && len(f[0]) >= 3 && visAlpha(strings.ToLower(f[0])) && li%3 == 0 && !visNotice(l) {
				k++
				return mk[k%len(mk)] + " " + l
			}
			return l
		})
		inputs = append(inputs, vinput{id: fmt.Sprintf("ucmark%d", i), data: t})
	}
	// notice lines whose short prefix gets shorter when cleaned ("(c) Copyright …" -> "c Copyright …")
	for i, d := range vnamed("License/MIT/a.txt", "License/Autodesk-3D-Studio-File-Toolkit/license.txt", "License/ISC/license.txt") {
		t := d.data
		if i != 1 {
			ls := strings.Split(string(d.data), "\n")
			mid := len(ls) / 2
			ls = append(append(append([]string{"(c) Copyright 2019 Example Corp."}, ls[:mid]...), "(ii) Copyright 2020 Another Holder", "(a) Copyright (c) 1988 Third Party"), ls[mid:]...)
			t = []byte(strings.Join(ls, "\n"))
		}
		inputs = append(inputs, vinput{id: fmt.Sprintf("shortprefix%d", i), data: t})
	}
	// the same marker-like word capitalised and in lower case, at a line start and inside running text
	// ("B. …" paragraphs and "see b. below"; MPL-1.1's "a." sub-clauses and "Exhibit A."): what is
	// decided for a word at one position must not be reused at another
	for i, d := range vnamed("License/MPL-1.1/license.txt", "License/MIT/a.txt", "License/ISC/license.txt") {
		t := d.data
		if i > 0 {
			k := 0
			t = vmapLines(d.data, func(li int, l string) string {
				f := strings.Fields(l)
				if len(f) > 3 && li%4 == 1 && !visNotice(l) && !vhyphenLine(l) {
					k++
					m := string(rune('A' + k%3))
					return m + ". " + strings.Join(f[:2], " ") + " see " + strings.ToLower(m) + ". and " + m + ". below " + strings.Join(f[2:], " ")
				}
				return l
			})
		}
		inputs = append(inputs, vinput{id: fmt.Sprintf("lettered%d", i), data: t})
	}
	for i, d := range vnamed("Header/Apache-2.0/header.txt", "License/Apache-2.0/pristine.txt", "License/GPL-2.0/a.txt") {
		t := strings.ReplaceAll(strings.ReplaceAll(string(d.data), "2.0", "2.0.."), "Version 2,", "Version 2..,")
		inputs = append(inputs, vinput{id: fmt.Sprintf("vdots%d", i), data: []byte(t)})
	}
	cnt := 0
	var c11Keys []string
	var ca *Classifier
	for _, in := range inputs {
		base := c.Match(in.data)
		norm := c.Normalize(in.data)
		doc := c.createTargetIndexedDocument(in.data)
		// (a) line k of Normalize(in) holds the words Match attributes to line k
		what, sig := "", ""
		nlines := strings.Split(string(norm), "\n")
		byLine := map[int][]string{}
		maxLine := 0
		for _, tk := range doc.Tokens {
			w := c.dict.getWord(tk.ID)
			byLine[tk.Line] = append(byLine[tk.Line], w)
			if tk.Line > maxLine {
				maxLine = tk.Line
			}
		}
		for l := 1; l <= maxLine && what == ""; l++ {
			got := ""
			if l-1 < len(nlines) {
				got = nlines[l-1]
			}
			// compare on the words Match keeps; unknown words (id 0) cannot be compared by text
			wantN := len(byLine[l])
			gotN := len(strings.Fields(got))
			known := true
			for _, w := range byLine[l] {
				if w == unknownWord {
					known = false
				}
			}
			if known && strings.Join(byLine[l], " ") != vnormWords(got) {
				what = fmt.Sprintf("line %d of Normalize output is %q; Match attributes %q to that line", l, vclip(got), vclip(strings.Join(byLine[l], " ")))
			} else if !known && wantN != gotN {
				what = fmt.Sprintf("line %d of Normalize output has %d words; Match attributes %d words to that line", l, gotN, wantN)
			}
		}
		o.verdictSig("C11", in.id+"_lines", what == "", len(doc.Tokens) > 3, "lines:"+vhash(in.data), sig, map[string]interface{}{"what": what, "input_hex": vclip(hx(in.data))})
		// (b) Match(Normalize(in)) == Match(in) modulo Copyright pseudo-matches
		again := c.Match(norm)
		what = ""
		if vlicOnly(base, true) != vlicOnly(again, true) {
			what = fmt.Sprintf("Match(in): %s ; Match(Normalize(in)): %s", vlicOnly(base, true), vlicOnly(again, true))
		}
		sig = ""
		var needs []string
		if what != "" {
			sig = vclassifyC11(c, norm, base)
			if sig != "" {
				// anchored by the model: the input's and the Normalize output's tokens (stage tok), the
				// Normalize output itself (stage norm) and both Match results (stage match)
				if ca == nil {
					ca = vclassifier(0.8) // a classifier whose dictionary no Normalize call has extended
				}
				needs = vanchor(o, ca, &c11Keys, "kf_"+in.id, in.data, norm)
				needs = append(needs, "N"+needs[0])
			}
		}
		o.verdictSigCorr("C11", in.id+"_rematch", what == "", len(base.Matches) > 0, "rematch:"+vhash(in.data), sig, needs, map[string]interface{}{"what": vclip(what), "input_hex": vclip(hx(in.data))})
		cnt++
	}
	o.stat("C11", map[string]interface{}{"inputs": cnt})
}

// vclassifyC11 recognises the two recorded findings about Normalize by repairing exactly what
// each of them describes in the Normalize output and re-matching: if the repaired text matches
// like the original, the case is that finding and nothing else.
//   C11/notice-after-cleanup: a line such as "Copyright: 1995-2020, X" is not a notice for the
//     tokenizer (colon), but its cleaned form "Copyright 1995-2020 X" is, so Match drops it from
//     the Normalize output.
//   C11/number-hyphen-at-eol: a number token keeps a trailing '-' ("26_en-US" -> "26-"); at the
//     end of a Normalize line it is read back as a hyphenated line break.
func vclassifyC11(c *Classifier, norm []byte, base Results) string {
	lines := strings.Split(string(norm), "\n")
	notice, hyphen := 0, 0
	for i, l := range lines {
		if visNotice(l) {
			f := strings.SplitN(l, " ", 2)
			if len(f) == 2 {
				lines[i] = f[0] + ": " + f[1]
				notice++
			}
		} else if strings.HasSuffix(l, "-") {
			lines[i] = l + " ."
			hyphen++
		}
	}
	if notice+hyphen == 0 {
		return ""
	}
	again := c.Match([]byte(strings.Join(lines, "\n")))
	if vlicOnly(base, true) != vlicOnly(again, true) {
		return ""
	}
	if notice > 0 {
		return "C11/notice-after-cleanup"
	}
	return "C11/number-hyphen-at-eol"
}

// vnormWords maps a line of Normalize output to the vocabulary Match uses: Normalize keeps the
// case of a word's first letter and does not apply the interchangeable-spelling table; the
// property is about which words sit on which line, not about their case or spelling variant.
func vnormWords(l string) string {
	ws := strings.Fields(strings.ToLower(l))
	for i, w := range ws {
		if iw, ok := interchangeableWords[w]; ok {
			ws[i] = iw
		}
	}
	return strings.Join(ws, " ")
}

// ---------------------------------------------------------------------------
// C12

func vdocKeys(c *Classifier) []string {
	var ks []string
	for k, d := range c.docs {
		ks = append(ks, fmt.Sprintf("%s#%d", k, len(d.Tokens)))
	}
	sort.Strings(ks)
	return ks
}

func TestVerifC12(t *testing.T) {
	o := newVout()
	defer o.close()
	r := newVrand(vseed() + 111)
	vloadFiles()
	nTrees := 6
	if vthorough() {
		nTrees = 120
	}
	root, err := os.MkdirTemp("", "verifc12")
	if err != nil {
		t.Fatal(err)
	}
	defer os.RemoveAll(root)
	cnt := 0
	for ti := 0; ti < nTrees; ti++ {
		rr := r.fork(uint64(ti))
		// the corpus directory's own name may end in "txt" (the walk root then passes the suffix filter)
		dir := filepath.Join(root, fmt.Sprintf("tree%d", ti), []string{"corpus", "corpus.txt"}[ti%2])
		type file struct {
			rel  string
			data []byte
		}
		var files []file
		cats := []string{"License", "Header", "Extra", "L", "Hx"}
		for k := 0; k < 3+rr.intn(8); k++ {
			d := vcorpus[rr.intn(len(vcorpus))]
			depth := []int{3, 3, 3, 3, 1, 2, 4, 5}[rr.intn(8)]
			if ti%3 == 0 {
				depth = 3 // trees of the equivalence clause
			}
			name := []string{"license.txt", "a.txt", "header.txt", "notes.md", "README", "x.TXT", "atxt", "b.txt.bak"}[rr.intn(8)]
			if depth == 3 && ti%3 == 0 && rr.chance(2, 3) {
				name = []string{"license.txt", "a.txt", "v2.txt"}[rr.intn(3)]
			}
			seg := []string{cats[rr.intn(len(cats))], fmt.Sprintf("%s-%d", d.name, k), "sub", "deeper"}
			var rel string
			switch depth {
			case 1:
				rel = name
			case 2:
				rel = filepath.Join(seg[0], name)
			case 3:
				rel = filepath.Join(seg[0], seg[1], name)
			case 4:
				rel = filepath.Join(seg[0], seg[1], seg[2], name)
			default:
				rel = filepath.Join(seg[0], seg[1], seg[2], seg[3], name)
			}
			data := d.data
			if rr.chance(1, 8) {
				data = nil
			}
			files = append(files, file{rel, data})
			p := filepath.Join(dir, rel)
			os.MkdirAll(filepath.Dir(p), 0o755)
			os.WriteFile(p, data, 0o644)
		}
		os.MkdirAll(dir, 0o755)
		// a corpus file that is a symbolic link to a text kept elsewhere (one license text under a
		// second name): it is a file of the tree like any other
		if ti%2 == 1 || ti == 0 {
			d := vcorpus[rr.intn(len(vcorpus))]
			target := filepath.Join(root, fmt.Sprintf("linked%d.txt", ti))
			os.WriteFile(target, d.data, 0o644)
			rel := filepath.Join("License", fmt.Sprintf("Alias-%d", ti), "license.txt")
			p := filepath.Join(dir, rel)
			os.MkdirAll(filepath.Dir(p), 0o755)
			if err := os.Symlink(target, p); err == nil {
				files = append(files, file{rel, d.data})
			}
		}
		onlyDepth3 := true
		want := NewClassifier(0.8)
		for _, f := range files {
			seg := strings.Split(f.rel, string(os.PathSeparator))
			if !strings.HasSuffix(f.rel, "txt") {
				continue
			}
			if len(seg) == 3 {
				want.AddContent(seg[0], seg[1], seg[2], f.data)
			} else if len(seg) > 3 {
				onlyDepth3 = false
			}
		}
		cwd, _ := os.Getwd()
		spellings := map[string]string{"plain": dir, "trailing-sep": dir + string(os.PathSeparator), "dot-slash": "", "double-sep": strings.Replace(dir, "/corpus", "//corpus", 1), "dotdot": filepath.Join(dir, "..") + "/" + filepath.Base(dir)}
		if rel, err := filepath.Rel(cwd, dir); err == nil {
			spellings["dot-slash"] = "./" + rel
		} else {
			delete(spellings, "dot-slash")
		}
		// "." and "./" name the directory itself once it is the working directory
		spellings["cwd-dot"] = "."
		spellings["cwd-dot-slash"] = "./"
		spellings["cwd-parent"] = "../" + filepath.Base(dir)
		var spNames []string
		for sp := range spellings {
			spNames = append(spNames, sp)
		}
		sort.Strings(spNames)
		for _, sp := range spNames {
			d := spellings[sp]
			got := NewClassifier(0.8)
			var lerr error
			pan, msg := catch(func() {
				if strings.HasPrefix(sp, "cwd-") {
					if err := os.Chdir(dir); err != nil {
						panic(err)
					}
					defer os.Chdir(cwd)
				}
				lerr = got.LoadLicenses(d)
			})
			what := ""
			if pan {
				what = fmt.Sprintf("LoadLicenses(%q) panicked: %s", d, msg)
			} else if lerr != nil {
				what = fmt.Sprintf("LoadLicenses(%q) returned %v", d, lerr)
			} else if onlyDepth3 && !reflect.DeepEqual(vdocKeys(got), vdocKeys(want)) {
				what = fmt.Sprintf("LoadLicenses(%q) corpus %v, AddContent per file gives %v", d, vdocKeys(got), vdocKeys(want))
			} else if onlyDepth3 {
				for q := 0; q < 3 && what == ""; q++ {
					in := files[rr.intn(len(files))].data
					if !vresEqual(got.Match(in), want.Match(in)) {
						what = fmt.Sprintf("LoadLicenses(%q): Match differs from the AddContent-built classifier", d)
					}
				}
			}
			var rels []string
			for _, f := range files {
				rels = append(rels, f.rel)
			}
			o.verdict("C12", fmt.Sprintf("t%d_%s", ti, sp), what == "", true, fmt.Sprintf("%d:%s", ti, sp), map[string]interface{}{"what": what, "spelling": sp, "files": rels, "only_depth3": onlyDepth3})
			cnt++
		}
	}
	// DefaultClassifier ≡ LoadLicenses(assets): the embedded walk and the directory walk give the same corpus
	got := NewClassifier(0.8)
	pan, msg := catch(func() { got.LoadLicenses("assets") })
	what := ""
	if pan {
		what = "LoadLicenses(assets) panicked: " + msg
	} else if !reflect.DeepEqual(vdocKeys(got), vdocKeys(vdefault())) {
		what = "LoadLicenses(assets) differs from AddContent over the asset files"
	}
	o.verdict("C12", "assets", what == "", true, "assets", map[string]interface{}{"what": what})
	o.stat("C12", map[string]interface{}{"loads": cnt, "trees": nTrees})
}

// ---------------------------------------------------------------------------
// stage `clean` / `loadkey`: filepath.Clean, filepath.Rel and the key derivation of LoadLicenses
// against the Lean model LC/Model/LoadPath (C12's tie for the path arithmetic)

func vloadKeyImpl(dir string, names []string) string {
	p := dir
	for _, n := range names {
		p = filepath.Join(p, n)
	}
	rel, err := filepath.Rel(dir, p)
	if err != nil {
		return "err"
	}
	seg := strings.Split(rel, string(os.PathSeparator))
	if len(seg) < 3 {
		return "skip"
	}
	return "key:" + hxs(seg[0]) + "|" + hxs(seg[1]) + "|" + hxs(seg[2])
}

func TestVerifPath(t *testing.T) {
	o := newVout()
	defer o.close()
	r := newVrand(vseed() + 121)
	n := 400
	if vthorough() {
		n = 40000
	}
	pieces := []string{"/", "/", "//", ".", "..", "a", "b", "corpus", "x.y", "...", " ", "é"}
	names := []string{"License", "MIT", "a.txt", "Header", "x", "..a", "a..", "b.c"}
	for i := 0; i < n; i++ {
		rr := r.fork(uint64(i))
		var sb strings.Builder
		for k := 0; k < 1+rr.intn(7); k++ {
			sb.WriteString(pieces[rr.intn(len(pieces))])
		}
		p := sb.String()
		o.corr("clean", fmt.Sprintf("c%d", i), []string{hxs(p)}, hxs(filepath.Clean(p)))
		var ns []string
		for k := 0; k < 1+rr.intn(5); k++ {
			ns = append(ns, names[rr.intn(len(names))])
		}
		var hn []string
		for _, x := range ns {
			hn = append(hn, hxs(x))
		}
		o.corr("loadkey", fmt.Sprintf("k%d", i), []string{hxs(p), strings.Join(hn, "|")}, vloadKeyImpl(p, ns))
		// Rel on two arbitrary paths
		var sb2 strings.Builder
		for k := 0; k < 1+rr.intn(7); k++ {
			sb2.WriteString(pieces[rr.intn(len(pieces))])
		}
		q := sb2.String()
		rel, err := filepath.Rel(p, q)
		res := "err"
		if err == nil {
			res = hxs(rel)
		}
		o.corr("rel", fmt.Sprintf("r%d", i), []string{hxs(p), hxs(q)}, res)
	}
	o.stat("C12", map[string]interface{}{"path_cases": 3 * n})
}
