//go:build verif

package classifier

// Static footprint of Match (C09): from the AST of the package's non-test files, the functions
// reachable from (*Classifier).match by name, every write site in them whose target is rooted at a
// receiver/parameter (or an alias of one) of a shared type, the package-level variables they mention,
// and the `updateDict` argument of every call of tokenizeStream / appendToDoc. The extractor only
// reports (LC/Gen/V2Footprint.lean); LC/Spec/FootprintExpect.lean holds the reviewed expectation.

import (
	"encoding/json"
	"go/ast"
	"go/parser"
	"go/printer"
	gotoken "go/token"
	"os"
	"sort"
	"strings"
	"testing"
)

func TestVerifFootprint(t *testing.T) {
	fset := gotoken.NewFileSet()
	pkgs, err := parser.ParseDir(fset, ".", func(fi os.FileInfo) bool { return !strings.HasSuffix(fi.Name(), "_test.go") }, 0)
	if err != nil {
		t.Fatal(err)
	}
	sharedTypes := map[string]bool{"Classifier": true, "dictionary": true, "indexedDocument": true, "searchSet": true, "frequencyTable": true, "TraceConfiguration": true}
	typeName := func(e ast.Expr) string {
		if s, ok := e.(*ast.StarExpr); ok {
			e = s.X
		}
		if id, ok := e.(*ast.Ident); ok {
			return id.Name
		}
		return ""
	}
	globals := map[string]bool{}
	funcs := map[string]*ast.FuncDecl{}
	for _, p := range pkgs {
		for _, f := range p.Files {
			for _, d := range f.Decls {
				switch x := d.(type) {
				case *ast.GenDecl:
					if x.Tok == gotoken.VAR {
						for _, sp := range x.Specs {
							for _, n := range sp.(*ast.ValueSpec).Names {
								globals[n.Name] = true
							}
						}
					}
				case *ast.FuncDecl:
					name := x.Name.Name
					if x.Recv != nil && len(x.Recv.List) > 0 {
						name = typeName(x.Recv.List[0].Type) + "." + name
					}
					funcs[name] = x
				}
			}
		}
	}
	// call edges by simple name (a method call x.f() reaches every method named f: over-approximation)
	bySimple := map[string][]string{}
	for n := range funcs {
		s := n
		if i := strings.LastIndex(n, "."); i >= 0 {
			s = n[i+1:]
		}
		bySimple[s] = append(bySimple[s], n)
	}
	calls := func(fd *ast.FuncDecl) []string {
		set := map[string]bool{}
		ast.Inspect(fd, func(n ast.Node) bool {
			if ce, ok := n.(*ast.CallExpr); ok {
				switch f := ce.Fun.(type) {
				case *ast.Ident:
					for _, m := range bySimple[f.Name] {
						set[m] = true
					}
				case *ast.SelectorExpr:
					for _, m := range bySimple[f.Sel.Name] {
						if strings.Contains(m, ".") { // methods only
							set[m] = true
						}
					}
				}
			}
			return true
		})
		var out []string
		for m := range set {
			out = append(out, m)
		}
		sort.Strings(out)
		return out
	}
	reach := map[string]bool{}
	var visit func(n string)
	visit = func(n string) {
		if reach[n] || funcs[n] == nil {
			return
		}
		reach[n] = true
		for _, m := range calls(funcs[n]) {
			visit(m)
		}
	}
	visit("Classifier.match")
	var reachable []string
	for n := range reach {
		reachable = append(reachable, n)
	}
	sort.Strings(reachable)

	rootOf := func(e ast.Expr) (root string, field string) { // x.f.g[i] -> ("x", "f")
		for {
			switch y := e.(type) {
			case *ast.IndexExpr:
				e = y.X
			case *ast.StarExpr:
				e = y.X
			case *ast.ParenExpr:
				e = y.X
			case *ast.SliceExpr:
				e = y.X
			case *ast.SelectorExpr:
				if id, ok := y.X.(*ast.Ident); ok {
					return id.Name, y.Sel.Name
				}
				e = y.X
			case *ast.Ident:
				return y.Name, ""
			default:
				return "", ""
			}
		}
	}
	mentionsShared := func(e ast.Expr, shared map[string]string) string {
		t := ""
		ast.Inspect(e, func(n ast.Node) bool {
			if id, ok := n.(*ast.Ident); ok && shared[id.Name] != "" && t == "" {
				t = shared[id.Name]
			}
			return true
		})
		return t
	}
	var writes, globalUses, udArgs [][]string
	for _, fn := range reachable {
		fd := funcs[fn]
		shared := map[string]string{} // identifier -> shared type it is (an alias into)
		if fd.Recv != nil && len(fd.Recv.List) > 0 && len(fd.Recv.List[0].Names) > 0 && sharedTypes[typeName(fd.Recv.List[0].Type)] {
			shared[fd.Recv.List[0].Names[0].Name] = typeName(fd.Recv.List[0].Type)
		}
		for _, p := range fd.Type.Params.List {
			if sharedTypes[typeName(p.Type)] {
				for _, n := range p.Names {
					shared[n.Name] = typeName(p.Type)
				}
			}
		}
		locals := map[string]bool{}
		for _, p := range fd.Type.Params.List {
			for _, n := range p.Names {
				locals[n.Name] = true
			}
		}
		wset, gset := map[string]bool{}, map[string]bool{}
		skipIdent := map[*ast.Ident]bool{}
		ast.Inspect(fd.Body, func(n ast.Node) bool {
			switch x := n.(type) {
			case *ast.AssignStmt:
				// aliases: x := <expr rooted at a shared object> (not a call result: constructors return fresh objects)
				if x.Tok == gotoken.DEFINE {
					for i, l := range x.Lhs {
						if id, ok := l.(*ast.Ident); ok {
							locals[id.Name] = true
							if i < len(x.Rhs) {
								if _, isCall := x.Rhs[i].(*ast.CallExpr); !isCall {
									if ty := mentionsShared(x.Rhs[i], shared); ty != "" {
										shared[id.Name] = ty + "(alias)"
									}
								}
							}
						}
					}
				}
				for _, l := range x.Lhs {
					if r, f := rootOf(l); r != "" && f != "" && shared[r] != "" {
						wset[shared[r]+"."+f] = true
					} else if r != "" && f == "" && globals[r] && !locals[r] && x.Tok != gotoken.DEFINE {
						wset["global."+r] = true
					}
				}
			case *ast.IncDecStmt:
				if r, f := rootOf(x.X); r != "" && f != "" && shared[r] != "" {
					wset[shared[r]+"."+f] = true
				}
			case *ast.RangeStmt:
				ty := mentionsShared(x.X, shared)
				for _, e := range []ast.Expr{x.Key, x.Value} {
					if id, ok := e.(*ast.Ident); ok && id.Name != "_" {
						locals[id.Name] = true
						if ty != "" {
							shared[id.Name] = ty + "(alias)"
						} else {
							delete(shared, id.Name) // a loop variable that shadows a shared name
						}
					}
				}
			case *ast.SelectorExpr:
				skipIdent[x.Sel] = true // a field or method name, not a package-level variable
			case *ast.CallExpr:
				if id, ok := x.Fun.(*ast.Ident); ok && (id.Name == "delete" || id.Name == "clear") && len(x.Args) > 0 {
					if r, f := rootOf(x.Args[0]); r != "" && f != "" && shared[r] != "" {
						wset[shared[r]+"."+f] = true
					}
				}
				callee := ""
				switch f := x.Fun.(type) {
				case *ast.Ident:
					callee = f.Name
				case *ast.SelectorExpr:
					callee = f.Sel.Name
				}
				pos := map[string]int{"tokenizeStream": 3, "appendToDoc": 6, "stringifyLineBuf": 5}
				if p, ok := pos[callee]; ok && p < len(x.Args) {
					var sb strings.Builder
					if callee == "tokenizeStream" { // also its `normalize` argument
						sb.WriteString("normalize=")
						printer.Fprint(&sb, fset, x.Args[1])
						sb.WriteString(" updateDict=")
					}
					printer.Fprint(&sb, fset, x.Args[p])
					udArgs = append(udArgs, []string{fn, callee, sb.String()})
				}
			case *ast.Ident:
				if globals[x.Name] && !locals[x.Name] && !skipIdent[x] {
					gset[x.Name] = true
				}
			}
			return true
		})
		// every call x.add(…) on a shared *dictionary (the classifier's, not the call-local one named ld):
		// the condition of the innermost enclosing `if`, or "unguarded"
		var walkIf func(n ast.Node, guard string)
		walkIf = func(n ast.Node, guard string) {
			ast.Inspect(n, func(m ast.Node) bool {
				if m == n {
					return true
				}
				switch y := m.(type) {
				case *ast.IfStmt:
					var sb strings.Builder
					printer.Fprint(&sb, fset, y.Cond)
					g := sb.String()
					if guard != "unguarded" {
						g = guard + " && " + g
					}
					if y.Init != nil {
						walkIf(y.Init, guard)
					}
					walkIf(y.Body, g)
					if y.Else != nil {
						walkIf(y.Else, guard+" && !("+sb.String()+")")
					}
					return false
				case *ast.CallExpr:
					if se, ok := y.Fun.(*ast.SelectorExpr); ok && se.Sel.Name == "add" {
						if id, ok := se.X.(*ast.Ident); ok && strings.HasPrefix(shared[id.Name], "dictionary") {
							udArgs = append(udArgs, []string{fn, id.Name + ".add", guard})
						}
					}
				}
				return true
			})
		}
		walkIf(fd.Body, "unguarded")
		for w := range wset {
			writes = append(writes, []string{fn, w})
		}
		for g := range gset {
			globalUses = append(globalUses, []string{fn, g})
		}
	}
	less := func(l [][]string) {
		sort.Slice(l, func(i, j int) bool { return strings.Join(l[i], "\x00") < strings.Join(l[j], "\x00") })
	}
	less(writes)
	less(globalUses)
	less(udArgs)
	b, _ := json.Marshal(map[string]interface{}{"reachable": reachable, "writes": writes, "globals": globalUses, "updateDictArgs": udArgs})
	if err := os.WriteFile(os.Getenv("VERIF_OUT")+"/footprint.json", b, 0o644); err != nil {
		t.Fatal(err)
	}
}
