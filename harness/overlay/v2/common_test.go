//go:build verif

package classifier

// Common helpers for the v2 harness: corpus loading (from the files on disk under
// assets/, the same files DefaultClassifier embeds), input generators.

import (
	"bytes"
	"fmt"
	"os"
	"path/filepath"
	"sort"
	"strings"
	"sync"
)

type vdoc struct {
	cat, name, variant string
	data               []byte
}

var (
	vcorpusOnce sync.Once
	vcorpus     []vdoc
	vscen       []vdoc
)

func vloadFiles() {
	vcorpusOnce.Do(func() {
		filepath.Walk("assets", func(p string, info os.FileInfo, err error) error {
			if err != nil || info.IsDir() {
				return nil
			}
			seg := strings.Split(filepath.ToSlash(p), "/")
			if len(seg) != 4 {
				return nil
			}
			b, err := os.ReadFile(p)
			if err != nil {
				panic(err)
			}
			vcorpus = append(vcorpus, vdoc{seg[1], seg[2], seg[3], b})
			return nil
		})
		sort.Slice(vcorpus, func(i, j int) bool {
			a, b := vcorpus[i], vcorpus[j]
			return a.cat+"/"+a.name+"/"+a.variant < b.cat+"/"+b.name+"/"+b.variant
		})
		filepath.Walk("scenarios", func(p string, info os.FileInfo, err error) error {
			if err != nil || info.IsDir() {
				return nil
			}
			b, err := os.ReadFile(p)
			if err != nil {
				panic(err)
			}
			// scenario files start with a line naming the expected licenses; the body follows
			vscen = append(vscen, vdoc{"Scenario", filepath.Base(p), "", b})
			return nil
		})
		sort.Slice(vscen, func(i, j int) bool { return vscen[i].name < vscen[j].name })
	})
}

// vclassifier builds a classifier over the on-disk corpus in sorted order.
func vclassifier(threshold float64) *Classifier {
	vloadFiles()
	c := NewClassifier(threshold)
	for _, d := range vcorpus {
		c.AddContent(d.cat, d.name, d.variant, d.data)
	}
	return c
}

var (
	vdefOnce sync.Once
	vdef     *Classifier
)

// vdefault is a shared classifier at threshold 0.8 over the whole corpus.
func vdefault() *Classifier {
	vdefOnce.Do(func() { vdef = vclassifier(0.8) })
	return vdef
}

// vpick returns n distinct corpus documents chosen by r (all of them if n >= len).
func vpick(r *vrand, n int) []vdoc {
	vloadFiles()
	if n >= len(vcorpus) {
		return vcorpus
	}
	idx := map[int]bool{}
	var out []vdoc
	for len(out) < n {
		i := r.intn(len(vcorpus))
		if !idx[i] {
			idx[i] = true
			out = append(out, vcorpus[i])
		}
	}
	return out
}

// out-of-vocabulary filler: words that occur in no corpus document.
var voovWords = []string{"zyxqv", "qwrtzp", "blorfen", "xkcdq", "vmnbzz", "plighq", "wuxtra", "jjkqz", "grobnik", "fnordlex", "zzyzx", "quuxbar"}

func voovLine(r *vrand, words int) string {
	var ps []string
	for i := 0; i < words; i++ {
		ps = append(ps, voovWords[r.intn(len(voovWords))])
	}
	return strings.Join(ps, " ")
}

func voovBlock(r *vrand, lines int) string {
	var sb strings.Builder
	for i := 0; i < lines; i++ {
		sb.WriteString(voovLine(r, 3+r.intn(8)))
		sb.WriteByte('\n')
	}
	return sb.String()
}

// vmalformed produces the "malformed stream": invalid UTF-8, NULs, entity soup,
// hyphen/newline storms, long lines, empty inputs, notice-only inputs.
func vmalformed(r *vrand, i int) []byte {
	switch i % 13 {
	case 0:
		return nil
	case 1:
		return []byte("\n\n\n")
	case 2:
		b := make([]byte, 1+r.intn(300))
		for j := range b {
			b[j] = byte(r.intn(256))
		}
		return b
	case 3:
		var sb bytes.Buffer
		for j := 0; j < 1+r.intn(60); j++ {
			sb.WriteString([]string{"a-\n", "-\n", "b-\n\n", "x- \n y", "-", "\n", " ", "q-\r\n", "1.2-\n3", "(-\n) ", "Copyright 20-\n20 Foo\n", "w-\n  \n", "c-\nd-\ne "}[r.intn(13)])
		}
		return sb.Bytes()
	case 4:
		var sb bytes.Buffer
		for j := 0; j < 1+r.intn(40); j++ {
			sb.WriteString([]string{"&amp;", "&lt", "&#x41;", "&#65", "&", "&&", "&copy; 2020", "a&b", "&#0;", "&#xD800;", "(c)", "&nbsp;x", "&quot;w&quot; ", "RECIPIENT&APOS;S", "x&AMP;y", "&Quot;q&QUOT;", "&Eacute;&eacute;",
				// scheme-like words shorter than the scheme they resemble, the capital arriving as an entity or as is
				"Https:", "Https:/", "&#72;ttps:", "&#x48;ttps:/", "&#72;ttps://", "&#72;ttp:", "Http:", "https:", "Https:x", "&#72;ttps://a.b",
				// a word that is nothing but one punctuation mark once its entity is decoded, first on its line and later
				"\n&#46; x", "\n&colon;\n", "\n&rpar; y", "\n&#58;", "\n&#41; z &#46;", "\n&period; &#x2e;\n", "\n&#45;\n", "\n&lpar;&rpar;\n", "\n&amp;\n"}[r.intn(36)])
			if r.chance(1, 3) {
				sb.WriteByte(' ')
			}
		}
		return sb.Bytes()
	case 5:
		return bytes.Repeat([]byte("word "), 1+r.intn(3000))
	case 6:
		return append(bytes.Repeat([]byte{0}, r.intn(50)), []byte("the license\x00is\x00here")...)
	case 7:
		// multi-byte runes of every width, some truncated
		var sb bytes.Buffer
		for j := 0; j < 1+r.intn(400); j++ {
			sb.WriteString([]string{"é", "—", "‐", "©", "日本", "𝔘", "ß", "İ", "ǅ", "\xe2\x80", "\xf0\x9f", "\xc3", " ", "\n", "a"}[r.intn(15)])
		}
		return sb.Bytes()
	case 8:
		var sb bytes.Buffer
		for j := 0; j < 1+r.intn(30); j++ {
			sb.WriteString([]string{"Copyright 2020 Foo\n", "copyright (c) [yyyy] x\n", "2020-01-02\n", "2020-jan-02\n", "  Copyright (C) 1999, Bar Inc.\n", "1.\n", "a. thing\n", "iv) stuff\n", "1.2.3 version\n", "* bullet · dot\n", "(c) 2001\n", "https://x.y/z httpsfoo\n", "see (https://www.apache.org/) or url:https://a.b/c \"https://q\"\n", "a) item (b) x\n", "under version 2.0.. of the 3... agreement 1.). x\n", "see section\n3.. of 4.5... and 1.2.-\n", "sec-\ntion 2. m. y. name\n", "lic-\nense is Copyright (C) 2003 Foo\n", "Https://A.b/c and HTTPS://d.e (Https://f) https://g\n", "the Licence, an organisation. (licence) \"programme\"; whilst- colour:\n", "II. second\n", "IV: fourth Iii. x\n", "A. first B) second\n", "XI. eleventh\nVi. sixth\n",
				// non-ASCII punctuation and symbols that no mapping covers, behind list markers, hyphens and words
				"\u201c1.\u201d Redistributions \u201ca.\u201d x\n", "\u201civ.\u201d and \u2018b)\u2019 y \u00abc:\u00bb\n", "the soft-\u201d\nware and hard-\u2026\nware\n", "2.\u2026 item 3.\u00b6 x 4.\u2020\n", "\u2026a. x\n\u201cCopyright 2001 Foo\u201d\n", "word\u2122 1.5\u2030 ii.\u00a7\n"}[r.intn(30)])
		}
		return sb.Bytes()
	case 9:
		return []byte(strings.Repeat("-\n", 1+r.intn(200)))
	case 10:
		return []byte(strings.Repeat("a", 1+r.intn(5000)))
	case 12:
		// lines the tokenizer consumes whole (copyright notices, dates) and wordless lines
		// only: a document with Copyright matches but no tokens
		var sb bytes.Buffer
		for j := 0; j < 1+r.intn(5); j++ {
			sb.WriteString([]string{"Copyright (c) 2020 Foo", "// Copyright 2019 Foo Inc.", "2020-01-31", "  copyright 1999 bar", "--- ***", "", "(c) 2001 x"}[r.intn(7)])
			if j > 0 || r.chance(3, 4) {
				sb.WriteByte('\n')
			}
		}
		return sb.Bytes()
	default:
		return []byte(voovBlock(r, r.intn(5)) + "Permission is hereby granted, free of charge\n" + voovBlock(r, r.intn(3)))
	}
}

// vnamed returns the corpus documents with the given keys (curated inputs that are known to
// exercise particular mechanisms: URLs in parentheses, hyphenated line breaks, list markers …).
func vnamed(keys ...string) []vdoc {
	vloadFiles()
	var out []vdoc
	for _, k := range keys {
		for _, d := range vcorpus {
			if vkey(d) == k {
				out = append(out, d)
			}
		}
	}
	return out
}

func vkey(d vdoc) string { return fmt.Sprintf("%s/%s/%s", d.cat, d.name, d.variant) }
