//go:build verif

package classifier

import (
	"bytes"
	"fmt"
	"math"
	"sort"
	"strings"
	"testing"

	"github.com/sergi/go-diff/diffmatchpatch"
)

// ---------------------------------------------------------------------------
// correspondence records for stage `match` (S2–S6)

func vidsDot(toks []indexedToken) string {
	var sb strings.Builder
	for i, t := range toks {
		if i > 0 {
			sb.WriteByte('.')
		}
		fmt.Fprintf(&sb, "%d", int(t.ID))
	}
	return sb.String()
}

// vcorpusRecord emits the `v2corpus` record for classifier c (dictionary, documents).
func vcorpusRecord(o *vout, cid string, c *Classifier) []string {
	var keys []string
	for k := range c.docs {
		keys = append(keys, k)
	}
	sort.Strings(keys)
	var words []string
	for i := 1; i <= len(c.dict.words); i++ {
		words = append(words, hxs(c.dict.getWord(tokenID(i))))
	}
	var docs []string
	for _, k := range keys {
		d := c.docs[k]
		docs = append(docs, fmt.Sprintf("%s:%s:%s:%s", hxs(detectionType(k)), hxs(LicenseName(k)), hxs(variantName(k)), vidsDot(d.Tokens)))
	}
	o.corr("v2corpus", cid, []string{fmt.Sprintf("%016x", math.Float64bits(c.threshold)), fmt.Sprint(c.q),
		strings.Join(words, ","), strings.Join(docs, ";")}, fmt.Sprintf("corpus %d docs %d words", len(keys), len(words)))
	return keys
}

func vshowResults(r Results) string {
	var ps []string
	for _, m := range r.Matches {
		ps = append(ps, fmt.Sprintf("%s|%s|%s|%016x|%d|%d|%d|%d", hxs(m.Name), hxs(m.Variant), hxs(m.MatchType),
			math.Float64bits(m.Confidence), m.StartLine, m.EndLine, m.StartTokenIndex, m.EndTokenIndex))
	}
	return strings.Join(ps, ";") + "#" + fmt.Sprint(r.TotalInputLines)
}

func vdiffOp(t diffmatchpatch.Operation) string {
	switch t {
	case diffmatchpatch.DiffEqual:
		return "e"
	case diffmatchpatch.DiffInsert:
		return "i"
	}
	return "d"
}

type vmatchInfo struct {
	res      Results
	panicked bool
	pmsg     string
	id       *indexedDocument
	in       []byte
}

// vmatchCase runs the real Match on `in`, then re-walks the candidate generation white-box to
// record, for every (document, proposed range) the implementation scores, the script the diff
// library returns (the model's external parameter), and emits the `match` record.
func vmatchCase(o *vout, c *Classifier, cid string, keys []string, id string, in []byte, emitCorr bool) *vmatchInfo {
	info := &vmatchInfo{in: in}
	info.panicked, info.pmsg = catch(func() { info.res = c.Match(in) })
	if info.panicked {
		o.verdict("C10", id, false, true, "match:"+id, map[string]interface{}{"what": "Match panicked: " + info.pmsg, "threshold": c.threshold, "input_hex": vclip(hx(in))})
	} else {
		o.verdict("C10", id, true, len(in) > 0, "match:"+vhash(in), map[string]interface{}{"threshold": c.threshold, "len": len(in)})
	}
	doc := c.createTargetIndexedDocument(in)
	info.id = doc
	if !emitCorr {
		return info
	}
	var toks []string
	for _, t := range doc.Tokens {
		toks = append(toks, fmt.Sprintf("%d:%d", int(t.ID), t.Line))
	}
	var crs []string
	for _, m := range doc.Matches {
		crs = append(crs, fmt.Sprint(m.StartLine))
	}
	var diffs []string
	wpanic, _ := catch(func() {
		doc.generateSearchSet(c.q)
		for ki, k := range keys {
			d := c.docs[k]
			if !(doc.tokenSimilarity(d) >= c.threshold) {
				continue
			}
			for _, m := range c.findPotentialMatches(d.s, doc.s, c.threshold) {
				ds := docDiff(k, doc, m.TargetStart, m.TargetEnd, d, 0, d.size())
				var segs []string
				for _, x := range ds {
					var ids []string
					if x.Text != "" {
						for _, w := range strings.Split(x.Text, " ") {
							ids = append(ids, fmt.Sprint(int(c.dict.getIndex(w))))
						}
					}
					segs = append(segs, vdiffOp(x.Type)+strings.Join(ids, "."))
				}
				diffs = append(diffs, fmt.Sprintf("%d:%d:%d=%s", ki, m.TargetStart, m.TargetEnd, strings.Join(segs, "|")))
			}
		}
	})
	_ = wpanic
	res := "PANIC"
	if !info.panicked {
		res = vshowResults(info.res)
	}
	o.corr("match", id, []string{cid, strings.Join(toks, " "), strings.Join(crs, "."), strings.Join(diffs, ";")}, res)
	return info
}

func vhash(b []byte) string {
	h := uint64(14695981039346656037)
	for _, x := range b {
		h = (h ^ uint64(x)) * 1099511628211
	}
	return fmt.Sprintf("%016x", h)
}

// ---------------------------------------------------------------------------
// property oracles on real Match output (independent of the Lean model)

// vlev is the textbook word-level Levenshtein distance (two-row DP).
func vlev(a, b []tokenID) int {
	prev := make([]int, len(b)+1)
	cur := make([]int, len(b)+1)
	for j := range prev {
		prev[j] = j
	}
	for i := 1; i <= len(a); i++ {
		cur[0] = i
		for j := 1; j <= len(b); j++ {
			c := prev[j-1]
			if a[i-1] != b[j-1] {
				c++
			}
			if prev[j]+1 < c {
				c = prev[j] + 1
			}
			if cur[j-1]+1 < c {
				c = cur[j-1] + 1
			}
			cur[j] = c
		}
		prev, cur = cur, prev
	}
	return prev[len(b)]
}

func vtokIDs(ts []indexedToken) []tokenID {
	out := make([]tokenID, len(ts))
	for i, t := range ts {
		out[i] = t.ID
	}
	return out
}

// voracleC03 checks well-formedness of a result (C03) and returns "" or what is wrong.
func voracleC03(c *Classifier, info *vmatchInfo) string {
	r := info.res
	nl := vnumLines(info.in)
	nt := len(info.id.Tokens)
	if r.TotalInputLines > nl {
		return fmt.Sprintf("TotalInputLines %d > %d lines of input", r.TotalInputLines, nl)
	}
	prev := math.Inf(1)
	for i, m := range r.Matches {
		if m.MatchType == "Copyright" {
			if m.Confidence != 1.0 || m.StartLine != m.EndLine || m.StartLine < 1 || m.StartLine > nl {
				return fmt.Sprintf("copyright match %d malformed: %+v (input has %d lines)", i, *m, nl)
			}
		} else {
			if !(m.Confidence >= c.threshold && m.Confidence <= 1.0) {
				return fmt.Sprintf("match %d confidence %v outside [%v,1]", i, m.Confidence, c.threshold)
			}
			if _, ok := c.docs[c.generateDocName(m.MatchType, m.Name, m.Variant)]; !ok {
				return fmt.Sprintf("match %d names (%s,%s,%s) which is not in the corpus", i, m.MatchType, m.Name, m.Variant)
			}
			if !(1 <= m.StartLine && m.StartLine <= m.EndLine && m.EndLine <= r.TotalInputLines) {
				return fmt.Sprintf("match %d lines %d-%d, TotalInputLines %d", i, m.StartLine, m.EndLine, r.TotalInputLines)
			}
			if !(0 <= m.StartTokenIndex && m.StartTokenIndex <= m.EndTokenIndex && m.EndTokenIndex < nt) {
				return fmt.Sprintf("match %d token span %d-%d, input has %d words", i, m.StartTokenIndex, m.EndTokenIndex, nt)
			}
		}
		if m.Confidence > prev {
			return fmt.Sprintf("match %d confidence %v after %v: not ordered", i, m.Confidence, prev)
		}
		prev = m.Confidence
	}
	return ""
}

// voracleC02: Confidence <= 1 - L/|K| and lines are the lines of the first/last word of the span.
func voracleC02(c *Classifier, info *vmatchInfo) string {
	for i, m := range info.res.Matches {
		if m.MatchType == "Copyright" {
			continue
		}
		d := c.docs[c.generateDocName(m.MatchType, m.Name, m.Variant)]
		if d == nil || m.StartTokenIndex < 0 || m.EndTokenIndex >= len(info.id.Tokens) || m.StartTokenIndex > m.EndTokenIndex {
			return fmt.Sprintf("match %d not checkable (malformed): %+v", i, *m)
		}
		R := info.id.Tokens[m.StartTokenIndex : m.EndTokenIndex+1]
		K := d.Tokens
		if len(K) == 0 {
			continue
		}
		if len(R)*len(K) > 150_000_000 {
			continue
		}
		L := vlev(vtokIDs(R), vtokIDs(K))
		bound := 1.0 - float64(L)/float64(len(K))
		if m.Confidence > bound {
			return fmt.Sprintf("match %d (%s) confidence %v > 1 - %d/%d = %v", i, m.Name, m.Confidence, L, len(K), bound)
		}
		if m.Confidence == 1.0 && L != 0 {
			return fmt.Sprintf("match %d (%s) confidence 1.0 but distance %d", i, m.Name, L)
		}
		if m.StartLine != R[0].Line || m.EndLine != R[len(R)-1].Line {
			return fmt.Sprintf("match %d lines %d-%d but first/last word are on lines %d/%d", i, m.StartLine, m.EndLine, R[0].Line, R[len(R)-1].Line)
		}
	}
	return ""
}

// ---------------------------------------------------------------------------
// input generators

// veditWords applies random word deletions/substitutions/insertions at about `rate`/1000 per word,
// keeping the line structure.
func veditWords(r *vrand, in []byte, rate int) []byte {
	lines := strings.Split(string(in), "\n")
	for li, l := range lines {
		ws := strings.Fields(l)
		var out []string
		for _, w := range ws {
			x := r.intn(1000)
			switch {
			case x < rate/3:
				// delete
			case x < 2*rate/3:
				out = append(out, voovWords[r.intn(len(voovWords))])
			case x < rate:
				out = append(out, w, voovWords[r.intn(len(voovWords))])
			default:
				out = append(out, w)
			}
		}
		lines[li] = strings.Join(out, " ")
	}
	return []byte(strings.Join(lines, "\n"))
}

type vinput struct {
	id   string
	data []byte
	// planted copies for C01: document key and the byte range of the copy in data
	plants []vplant
	// C04: an input to be matched in between repeats of this one (same bytes, a few more at the end)
	twin []byte
}
type vplant struct {
	doc        vdoc
	start, end int // byte offsets of the copy in data
}

func vplantInput(r *vrand, id string, docs []vdoc) vinput {
	var sb bytes.Buffer
	var pl []vplant
	sb.WriteString(voovBlock(r, 1+r.intn(4)))
	for _, d := range docs {
		s := sb.Len()
		sb.Write(d.data)
		e := sb.Len()
		if len(d.data) == 0 || d.data[len(d.data)-1] != '\n' {
			sb.WriteByte('\n')
		}
		pl = append(pl, vplant{d, s, e})
		sb.WriteString(voovBlock(r, 1+r.intn(4)))
	}
	return vinput{id: id, data: sb.Bytes(), plants: pl}
}

func vgenInputs(r *vrand, nExact, nEdit, nScen, nMal int) []vinput {
	vloadFiles()
	var out []vinput
	var outInputs []vinput
	defer func() {}()
	for i, d := range vpick(r.fork(1), nExact) {
		out = append(out, vplantInput(r.fork(uint64(100+i)), fmt.Sprintf("p%d", i), []vdoc{d}))
	}
	for i, d := range vpick(r.fork(2), nEdit) {
		rr := r.fork(uint64(200 + i))
		rate := []int{20, 60, 120, 200, 300}[i%5]
		data := veditWords(rr, d.data, rate)
		switch i % 3 {
		case 1:
			data = append([]byte(voovBlock(rr, 2)), data...)
		case 2:
			data = data[:len(data)*(50+rr.intn(50))/100] // truncated
		}
		out = append(out, vinput{id: fmt.Sprintf("e%d", i), data: data})
	}
	// transposed passages: K = A G U Y, input = A' U G' — the diff then ends in change blocks whose
	// deleted and inserted parts differ in length (crossing alignments)
	for i, d := range vpick(r.fork(3), nEdit/2+1) {
		rr := r.fork(uint64(250 + i))
		lines := strings.Split(strings.TrimRight(string(d.data), "\n"), "\n")
		n := len(lines)
		if n < 9 {
			continue
		}
		a, b := n*2/3, n*5/6
		var out []string
		out = append(out, lines[:a-1-rr.intn(2)]...)
		out = append(out, lines[b:]...)
		out = append(out, lines[a:b]...)
		last := strings.Fields(out[len(out)-1])
		if len(last) > 2 {
			out[len(out)-1] = strings.Join(last[:len(last)-1-rr.intn(2)], " ")
		}
		if i%2 == 1 { // also at the start: drop the first words so the diff begins with a change block
			first := strings.Fields(out[0])
			if len(first) > 2 {
				out[0] = voovWords[rr.intn(len(voovWords))] + " " + strings.Join(first[1+rr.intn(2):], " ")
			}
		}
		out = append(out, "")
		data := strings.Join(out, "\n")
		out2 := vinput{id: fmt.Sprintf("x%d", i), data: []byte(data)}
		_ = out2
		outInputs = append(outInputs, out2)
	}
	// word-level crossing alignment: K = A G U Y, input = A[:-k] U G (|Y| 1-2, |U| 8-12, |G| 4-8)
	for i, d := range vpick(r.fork(4), nEdit/2+1) {
		rr := r.fork(uint64(270 + i))
		ws := strings.Fields(string(d.data))
		n := len(ws)
		if n < 110 {
			continue
		}
		y, u, g, k := 1+rr.intn(2), 8+rr.intn(5), 4+rr.intn(5), 6+rr.intn(4)
		A := ws[:n-g-u-y]
		G := ws[n-g-u-y : n-u-y]
		U := ws[n-u-y : n-y]
		var w []string
		w = append(w, A[:len(A)-k]...)
		w = append(w, U...)
		w = append(w, G...)
		var sb strings.Builder
		for j, x := range w {
			sb.WriteString(x)
			if j%11 == 10 {
				sb.WriteByte('\n')
			} else {
				sb.WriteByte(' ')
			}
		}
		outInputs = append(outInputs, vinput{id: fmt.Sprintf("y%d", i), data: []byte(sb.String())})
	}
	// inputs that walk the veto paths of scoreDiffs: a license of a family named in inducedPhrases
	// with the family's phrase removed; a changed version number; "lesser"/"library" swapped
	vetoes := [][2]string{{"AGPL", "affero"}, {"Apache", "apache"}, {"BSD", "bsd"}, {"BSD-3-Clause-Attribution", "acknowledgment"},
		{"bzip2", "seward"}, {"LGPL-2.0", "library"}, {"ImageMagick", "imagemagick"}, {"PHP", "php"}, {"SGI-B", "silicon graphics"},
		{"X11", "x consortium"}, {"Atmel", "atmel"}, {"SunPro", "sunpro"}, {"SISSL", "sun standards"}}
	nv := 0
	for vi, v := range vetoes {
		if !vthorough() && vi%4 != int(vseed()%4) && v[0] != "BSD-3-Clause-Attribution" {
			continue
		}
		for _, d := range vcorpus {
			if !strings.HasPrefix(d.name, v[0]) || len(d.data) > 20000 || nv > 40 {
				continue
			}
			low := strings.ToLower(string(d.data))
			if !strings.Contains(low, v[1]) {
				continue
			}
			// remove every occurrence of the phrase (case-insensitively), keeping the rest byte for byte
			var sb strings.Builder
			src := string(d.data)
			for {
				k := strings.Index(strings.ToLower(src), v[1])
				if k < 0 {
					sb.WriteString(src)
					break
				}
				sb.WriteString(src[:k])
				src = src[k+len(v[1]):]
			}
			outInputs = append(outInputs, vinput{id: fmt.Sprintf("v%d_%s", vi, d.name), data: []byte(sb.String())})
			nv++
			break
		}
	}
	for i, d := range vnamed("License/GPL-2.0/a.txt", "License/LGPL-2.1/a.txt", "License/Apache-2.0/pristine.txt", "License/LGPL-3.0/license.txt", "Header/GPL-3.0/header.txt") {
		if !vthorough() && i%2 != int(vseed()%2) {
			continue
		}
		t := string(d.data)
		outInputs = append(outInputs,
			vinput{id: fmt.Sprintf("ver%d", i), data: []byte(strings.Replace(strings.Replace(t, "Version 2", "Version 7", 1), "version 2", "version 7", 1))},
			vinput{id: fmt.Sprintf("les%d", i), data: []byte(strings.Replace(strings.Replace(t, "Lesser", "Library", 2), "GNU General", "GNU Lesser General", 1))})
	}
	// a verbatim fragment of a document, unrelated text, then the whole document with every 12th-18th
	// word replaced: the longest single run belongs to the fragment, the claim with most tokens (fused
	// from many short runs) to the full copy — the order of the fused claims matters
	nf := 0
	for i, d := range vpick(r.fork(5), 4*(nEdit/3+2)) {
		rr := r.fork(uint64(290 + i))
		ws := strings.Fields(string(d.data))
		if len(ws) < 150 || len(ws) > 3000 || nf >= nEdit/3+2 {
			continue
		}
		nf++
		fl := 40 + rr.intn(40)
		at := rr.intn(len(ws) - fl)
		var sb strings.Builder
		sb.WriteString(strings.Join(ws[at:at+fl], " ") + "\n" + voovBlock(rr, 2+rr.intn(3)))
		step := 12 + rr.intn(7)
		for j, w := range ws {
			if j%step == step-1 {
				w = voovWords[rr.intn(len(voovWords))]
			}
			sb.WriteString(w)
			if j%10 == 9 {
				sb.WriteByte('\n')
			} else {
				sb.WriteByte(' ')
			}
		}
		sb.WriteByte('\n')
		if i%2 == 1 { // and the other way round
			sb.WriteString(voovBlock(rr, 2) + strings.Join(ws[at:at+fl], " ") + "\n")
		}
		outInputs = append(outInputs, vinput{id: fmt.Sprintf("f%d", i), data: []byte(sb.String())})
	}
	// a stray fragment of the document right before (or after) a copy that has a gap where the fragment
	// comes from: the search set fuses the fragment into the proposed range and the diff discards it as
	// a leading (trailing) deletion — the trimmed span then differs from the proposed one at ONE end
	ng := 0
	for i, d := range vpick(r.fork(6), 4*(nEdit/3+2)) {
		rr := r.fork(uint64(330 + i))
		ws := strings.Fields(string(d.data))
		if len(ws) < 120 || len(ws) > 3000 || ng >= nEdit/3+2 {
			continue
		}
		ng++
		fl := 5 + rr.intn(4)
		var w []string
		if i%2 == 0 {
			w = append(append(append(w, ws[10:10+fl]...), ws[:16]...), ws[32:]...)
		} else {
			n := len(ws)
			w = append(append(append(w, ws[:n-32]...), ws[n-16:]...), ws[n-16:n-16+fl]...)
		}
		var sb strings.Builder
		for j, x := range w {
			sb.WriteString(x)
			if j%10 == 9 {
				sb.WriteByte('\n')
			} else {
				sb.WriteByte(' ')
			}
		}
		outInputs = append(outInputs, vinput{id: fmt.Sprintf("g%d", i), data: []byte(sb.String() + "\n")})
	}
	for i := 0; i < nScen && i < len(vscen); i++ {
		out = append(out, vinput{id: fmt.Sprintf("s%d", i), data: vscen[(i+int(vseed()))%len(vscen)].data})
	}
	for i := 0; i < nMal; i++ {
		out = append(out, vinput{id: fmt.Sprintf("m%d", i), data: vmalformed(r.fork(uint64(300+i)), i)})
	}
	return append(out, outInputs...)
}

// TestVerifMatch: end-to-end correspondence of S2–S6 on the full corpus at 0.8, plus the
// C02/C03/C10 oracles on the same executions.
func TestVerifMatch(t *testing.T) {
	o := newVout()
	defer o.close()
	r := newVrand(vseed() + 23)
	c := vdefault()
	keys := vcorpusRecord(o, "full08", c)
	nE, nD, nS, nM := 6, 10, 5, 24
	if vthorough() {
		nE, nD, nS, nM = 150, 400, 42, 1500
	}
	n := 0
	for _, in := range vgenInputs(r, nE, nD, nS, nM) {
		info := vmatchCase(o, c, "full08", keys, in.id, in.data, true)
		if info.panicked {
			continue
		}
		nontriv := len(info.res.Matches) > 0
		o.verdict("C03", in.id, voracleC03(c, info) == "", nontriv, "wf:"+vhash(in.data), map[string]interface{}{"what": voracleC03(c, info), "matches": len(info.res.Matches), "input_hex": vclip(hx(in.data))})
		w := voracleC02(c, info)
		o.verdict("C02", in.id, w == "", nontriv, "conf:"+vhash(in.data), map[string]interface{}{"what": w, "matches": len(info.res.Matches), "input_hex": vclip(hx(in.data))})
		n++
	}
	n += vtinyCorpora(o, r)
	n += vstrayTail(o)
	n += vnearTies(o)
	n += vbigDict(o)
	n += vtokenRunes(o)
	o.stat("match", map[string]interface{}{"match_cases": n})
}

// vtinyCorpora: small synthetic corpora (documents of 0..12 words, empty category / variant
// strings as the repository's own tests use, documents that are prefixes of each other) at several
// thresholds, matched against inputs that put a document at the very start, at the very end, alone,
// twice, truncated — the boundary conditions of q clamping, window sliding and range fusion.
func vtinyCorpora(o *vout, r *vrand) int {
	words := []string{"alpha", "bravo", "charlie", "delta", "echo", "foxtrot", "golf", "hotel", "india", "juliet", "kilo", "lima", "mike"}
	mk := func(from, n int) string { return strings.Join(words[from:from+n], " ") }
	type td struct{ cat, name, variant, text string }
	docs := []td{
		{"License", "Tiny4", "a.txt", mk(0, 4)}, {"License", "Tiny9", "", mk(2, 9)}, {"", "known", "", mk(1, 6)},
		{"License", ".", "dot.txt", "uniform victor whiskey xray yankee"}, {"Header", "Dotted", ".", "zulu alfa beta gamma deltax"},
		{"License", "Tiny1", "x", mk(12, 1)}, {"License", "Tiny12", "v.txt", mk(0, 12)}, {"License", "Empty", "e", ""},
		{"Header", "Tiny5", "h.txt", mk(7, 5)}, {"License", "Rep", "r", "alpha alpha alpha alpha alpha bravo alpha alpha"},
		// words that decode to the dictionary's placeholder for unknown ids: q-grams of out-of-vocabulary
		// input words hash like this document's, though no token id agrees (diff without an Equal part)
		{"License", "Unk", "u", strings.Repeat("&#85;&#78;&#75;&#78;&#79;&#87;&#78; ", 9)},
		{"License", "Tiny24", "t.txt", "alpha bravo charlie delta echo foxtrot golf hotel india juliet kilo lima mike november oscar papa quebec romeo sierra tango uniform victor whiskey xray"},
		{"License", "Tiny13", "t.txt", "one two three four five six seven eight nine ten eleven twelve thirteen"},
	}
	ths := []float64{0.8, 0.9, 0.5, 0.67, 0}
	if vthorough() {
		ths = append(ths, 0.7, 1.0, 0.95, 0.3)
	}
	n := 0
	for ti, th := range ths {
		c := NewClassifier(th)
		for _, d := range docs {
			c.AddContent(d.cat, d.name, d.variant, []byte(d.text))
		}
		cid := fmt.Sprintf("tiny%d", ti)
		// every (category, name, variant) that was added must come back out of its corpus key
		keyBad := ""
		for _, d := range docs {
			k := c.generateDocName(d.cat, d.name, d.variant)
			var ty, nm, va string
			if pan, msg := catch(func() { ty, nm, va = detectionType(k), LicenseName(k), variantName(k) }); pan {
				keyBad = fmt.Sprintf("the key %q of (%q, %q, %q) cannot be taken apart: %s", k, d.cat, d.name, d.variant, msg)
			} else if ty != d.cat || nm != d.name || va != d.variant {
				keyBad = fmt.Sprintf("the key %q of (%q, %q, %q) reads back as (%q, %q, %q)", k, d.cat, d.name, d.variant, ty, nm, va)
			}
		}
		o.verdict("C03", cid+"_keys", keyBad == "", true, cid+"_keys", map[string]interface{}{"what": keyBad, "threshold": th})
		if keyBad != "" {
			continue
		}
		keys := vcorpusRecord(o, cid, c)
		var inputs []string
		for _, d := range docs {
			if d.text == "" {
				continue
			}
			inputs = append(inputs, d.text, "zyxqv qwrtzp blorfen "+d.text, d.text+" zyxqv qwrtzp", "zyxqv "+d.text+" qwrtzp blorfen xkcdq",
				d.text+"\n"+d.text, "zyxqv\n"+d.text+"\n")
			ws := strings.Fields(d.text)
			if len(ws) > 2 {
				inputs = append(inputs, strings.Join(ws[:len(ws)-1], " "), strings.Join(ws[1:], " "), "zyxqv "+strings.Join(ws[:len(ws)-1], " "))
			}
			// 1..4 words replaced (the replaced words follow on a second line, so the frequency filter
			// still sees them): confidences around the threshold, exactly floor(t*n)/n among them
			for k := 1; k <= 4 && k < len(ws); k++ {
				sub := append([]string(nil), ws...)
				var moved []string
				for j := 0; j < k; j++ {
					p := (2*j + 1) % len(sub)
					moved = append(moved, sub[p])
					sub[p] = voovWords[j]
				}
				inputs = append(inputs, strings.Join(sub, " ")+"\n"+strings.Join(moved, " "))
			}
		}
		inputs = append(inputs, docs[0].text+" "+docs[6].text, docs[1].text+"\n"+docs[0].text, "", "zyxqv", mk(0, 13),
			"qq ww ee rr tt yy uu ii oo pp", "alpha bravo qq ww ee rr tt yy uu", "Copyright 2020 x\nqq ww ee rr tt")
		for k := 0; k < 10; k++ {
			rr := r.fork(uint64(9000 + ti*100 + k))
			var ws []string
			for j := 0; j < 1+rr.intn(16); j++ {
				ws = append(ws, words[rr.intn(len(words))])
			}
			inputs = append(inputs, strings.Join(ws, " "))
		}
		for ii, in := range inputs {
			id := fmt.Sprintf("%s_%d", cid, ii)
			info := vmatchCase(o, c, cid, keys, id, []byte(in), true)
			n++
			if info.panicked {
				// no result at all: the (MatchType, Name, Variant) of a match could not be produced
				o.verdict("C03", id, false, true, fmt.Sprintf("tiny:%v:%s", th, in), map[string]interface{}{"what": "Match panicked: " + info.pmsg, "threshold": th, "input": in})
				continue
			}
			if th > 0 {
				w := voracleC03(c, info)
				o.verdict("C03", id, w == "", len(info.res.Matches) > 0, fmt.Sprintf("tiny:%v:%s", th, in), map[string]interface{}{"what": w, "threshold": th, "input": in})
			}
			w := voracleC02(c, info)
			o.verdict("C02", id, w == "", len(info.res.Matches) > 0, fmt.Sprintf("tiny:%v:%s", th, in), map[string]interface{}{"what": w, "threshold": th, "input": in})
		}
	}
	return n
}

// vstrayTail: the scorer's span trimming counts the words of a discarded leading / trailing diff
// segment (textLength). For every word of the tokenizer's interchangeable-word table (either side,
// read from the live table), a document of 100 distinct words holding that word near its end is
// matched against a copy with a gap, one replaced word and a stray partial repetition of the end that
// holds the word: the repetition is fused into the proposed range and discarded as a trailing
// deletion, so the reported span depends on the word count of a segment containing the table word.
func vstrayTail(o *vout) int {
	alpha := func(i int) string {
		s := ""
		for {
			s = string(rune('a'+i%26)) + s
			i /= 26
			if i == 0 {
				return s
			}
		}
	}
	seen := map[string]bool{}
	var ws []string
	for k, v := range interchangeableWords {
		for _, w := range []string{k, v} {
			if !seen[w] && !strings.ContainsAny(w, " \n") && w != "" {
				seen[w] = true
				ws = append(ws, w)
			}
		}
	}
	sort.Strings(ws)
	n := 0
	for wi, w := range ws {
		if !vthorough() && wi%3 != int(vseed()%3) && w != "sublicense" && w != "licence" {
			continue
		}
		var k []string
		for i := 0; i < 100; i++ {
			k = append(k, "w"+alpha(i))
		}
		k[85] = w
		c := NewClassifier(0.8)
		c.AddContent("License", "K", "license.txt", []byte(strings.Join(k, " ")))
		for vi, sep := range []string{"\n", " "} {
			var in []string
			in = append(in, k[0:50]...)
			in = append(in, k[60:96]...)
			in = append(in, "typo")
			in = append(in, k[97:100]...)
			in = append(in, k[79:98]...)
			id := fmt.Sprintf("stray_%s_%d", w, vi)
			data := []byte(strings.Join(in, sep))
			info := vmatchCase(o, c, "", nil, id, data, false)
			n++
			if info.panicked {
				continue
			}
			wh := voracleC02(c, info)
			o.verdict("C02", id, wh == "", len(info.res.Matches) > 0, "stray:"+w+sep, map[string]interface{}{"what": wh, "word": w, "input": string(data)})
			o.verdict("C03", id, voracleC03(c, info) == "", len(info.res.Matches) > 0, "stray:"+w+sep, map[string]interface{}{"what": voracleC03(c, info), "word": w, "input": string(data)})
		}
	}
	return n
}

// vnearTies: two user documents of n and n+1 distinct words, each planted with ONE word replaced: the
// confidences 1-1/n and 1-1/(n+1) differ by about 1/n², and the less similar copy comes first in the
// text — the result must still be ordered by confidence (C03), whatever the comparator does with
// confidences that are "almost equal".
func vnearTies(o *vout) int {
	word := func(p string, i int) string {
		return p + string(rune('a'+i/676%26)) + string(rune('a'+i/26%26)) + string(rune('a'+i%26))
	}
	cnt := 0
	for _, n := range []int{100, 150, 300, 1000} {
		c := NewClassifier(0.8)
		mk := func(p string, k int) []string {
			var ws []string
			for i := 0; i < k; i++ {
				ws = append(ws, word(p, i))
			}
			return ws
		}
		small, large := mk("s", n), mk("l", n+1)
		c.AddContent("License", "Small", "license.txt", []byte(strings.Join(small, " ")))
		c.AddContent("License", "Large", "license.txt", []byte(strings.Join(large, " ")))
		lines := func(ws []string, bad int) string {
			var sb strings.Builder
			for i, w := range ws {
				if i == bad {
					w = "zyxqv"
				}
				sb.WriteString(w)
				if i%10 == 9 {
					sb.WriteByte('\n')
				} else {
					sb.WriteByte(' ')
				}
			}
			return sb.String() + "\n"
		}
		for oi, in := range []string{
			lines(small, n/2) + "qwrtzp blorfen xkcdq\n" + lines(large, n/3),
			lines(large, n/3) + "qwrtzp blorfen xkcdq\n" + lines(small, n/2)} {
			id := fmt.Sprintf("neartie_%d_%d", n, oi)
			info := vmatchCase(o, c, "", nil, id, []byte(in), false)
			cnt++
			if info.panicked {
				continue
			}
			w := voracleC03(c, info)
			o.verdict("C03", id, w == "", len(info.res.Matches) == 2, "neartie:"+id, map[string]interface{}{"what": w, "results": vshowResults(info.res), "n": n})
			w2 := voracleC02(c, info)
			o.verdict("C02", id, w2 == "", len(info.res.Matches) == 2, "neartie:"+id, map[string]interface{}{"what": w2, "n": n})
		}
	}
	return cnt
}

// vbigDict: token ids travel through the word diff as runes. A corpus whose dictionary holds more
// than 2^16 words has words whose ids agree modulo 2^16, and words whose ids lie in the UTF-16
// surrogate range or just past it. A 40-word license is registered FIRST (ids 1..40), a second one
// after 0xD800 filler words (ids in the surrogate range), a third past 2^16; inputs replace one word
// of a license by the corpus word whose id is id+2^16 / id-2^16, by another word of the same id
// range, or by an out-of-vocabulary word. The confidence bound is evaluated by the independent
// Levenshtein oracle over the real token ids.
func vbigDict(o *vout) int {
	alpha := func(p string, i int) string {
		s := ""
		for {
			s = string(rune('a'+i%26)) + s
			i /= 26
			if i == 0 {
				break
			}
		}
		return p + s
	}
	mk := func(p string, k int) []string {
		var ws []string
		for i := 0; i < k; i++ {
			ws = append(ws, alpha(p, i))
		}
		return ws
	}
	c := NewClassifier(0.8)
	low := mk("zql", 40)
	c.AddContent("License", "Low", "license.txt", []byte(strings.Join(low, " ")))
	c.AddContent("License", "FillerA", "license.txt", []byte(strings.Join(mk("zqf", 0xD800), " ")))
	sur := mk("zqs", 40)
	c.AddContent("License", "Sur", "license.txt", []byte(strings.Join(sur, " ")))
	c.AddContent("License", "FillerB", "license.txt", []byte(strings.Join(mk("zqg", 12000), " ")))
	high := mk("zqh", 40)
	c.AddContent("License", "High", "license.txt", []byte(strings.Join(high, " ")))
	c.AddContent("License", "FillerC", "license.txt", []byte(strings.Join(mk("zqi", 2000), " ")))
	byID := map[tokenID]string{}
	for _, d := range c.docs {
		for _, t := range d.Tokens {
			byID[t.ID] = c.dict.getWord(t.ID)
		}
	}
	cnt := 0
	for li, lic := range [][]string{low, sur, high} {
		for _, pos := range []int{0, 10, 25, 39} {
			id0 := c.dict.getIndex(lic[pos])
			var subs []string
			for _, delta := range []int{1 << 16, -(1 << 16), 1 << 15, 0xD800, 3, 41} {
				if w, ok := byID[id0+tokenID(delta)]; ok && w != lic[pos] {
					subs = append(subs, w)
				}
			}
			subs = append(subs, "zyxqvoov", "")
			for si, sub := range subs {
				ws := append([]string(nil), lic...)
				ws[pos] = sub
				in := strings.Join(strings.Fields(strings.Join(ws, " ")), " ")
				id := fmt.Sprintf("bigdict_%d_%d_%d", li, pos, si)
				info := vmatchCase(o, c, "", nil, id, []byte(in), false)
				cnt++
				if info.panicked {
					continue
				}
				w := voracleC02(c, info)
				o.verdict("C02", id, w == "", len(info.res.Matches) > 0, "bigdict:"+id, map[string]interface{}{"what": w, "input": in, "dictionary_words": len(byID), "replaced_id": int(id0), "results": vshowResults(info.res)})
			}
		}
	}
	return cnt
}

// vtokenRunes ties LC/Model/TokenRune.lean to v2/diff.go on the WHOLE domain: for every identifier
// 0 … 0x10FFFF the Go functions equal the model's closed forms, and — what the theorems of
// LC/Props/C02Runes.lean conclude — every identifier up to 0x10FFFF−0x800 survives
// tokenRune → string → []rune → runeToken. Exhaustive enumeration of a finite domain.
func vtokenRunes(o *vout) int {
	what := ""
	for id := 0; id <= 0x10FFFF && what == ""; id++ {
		spec := id
		if id >= 0xD800 {
			spec = id + 0x800
		}
		if got := int(tokenRune(tokenID(id))); got != spec {
			what = fmt.Sprintf("tokenRune(%#x) = %#x, model %#x", id, got, spec)
			break
		}
		back := id
		if id >= 0xE000 {
			back = id - 0x800
		}
		if got := int(runeToken(rune(id))); got != back {
			what = fmt.Sprintf("runeToken(%#x) = %#x, model %#x", id, got, back)
			break
		}
		if id+0x800 <= 0x10FFFF {
			rs := []rune(string([]rune{tokenRune(tokenID(id))}))
			if len(rs) != 1 || int(runeToken(rs[0])) != id {
				what = fmt.Sprintf("identifier %#x does not survive tokenRune -> string -> runeToken: %v", id, rs)
			}
		}
	}
	o.verdict("C02", "tokenrune", what == "", true, "tokenrune", map[string]interface{}{"what": what, "domain": 0x110000})
	return 1
}
