#!/bin/sh
# Runs /repo's own test suite (guard off) the way BASELINE.json does, without touching go.sum.
export GOFLAGS=-mod=mod GOPROXY=off GOSUMDB=off GOTOOLCHAIN=local
W=/verif/.work/mod; mkdir -p $W
for m in . v2; do
  n=$(echo $m | tr -c 'a-z0-9' '_')
  cp /repo/$m/go.mod $W/base_$n.mod; cp /repo/$m/go.sum $W/base_$n.sum 2>/dev/null
  (cd /repo/$m && go test -modfile=$W/base_$n.mod -vet=off -count=1 -timeout 25m ./... 2>&1)
done
