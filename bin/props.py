"""Registry: per property — Lean theorem modules, theorem names to audit, harness runs."""
import os

HARN = os.path.join(os.path.dirname(os.path.dirname(os.path.abspath(__file__))), "harness")


def sets_prepare(settype, newset, elem, toelem, tag):
    def prep(out_dir, files):
        src = open(os.path.join(HARN, "overlay/sets/zz_verif_test.go.tmpl")).read()
        src = (src.replace("SETTYPE", settype).replace("NEWSET", newset).replace("TOELEM", toelem)
               .replace("ELEM", elem).replace("SETTAG", tag))
        os.makedirs(out_dir, exist_ok=True)
        p = os.path.join(out_dir, "sets_harness_test.go")
        open(p, "w").write(src)
        return [p]
    return prep


PROPS = {}
LEAN = os.path.join(os.path.dirname(os.path.dirname(os.path.abspath(__file__))), "lean")


def auto_theorems(modules):
    """fully qualified names of the theorems stated in the given property modules"""
    import re
    out = []
    for m in modules:
        path = os.path.join(LEAN, m.replace(".", "/") + ".lean")
        if not os.path.exists(path):
            continue
        ns = []
        depth = 0
        for line in open(path):
            if "/-" in line and "-/" not in line.split("/-", 1)[1]:
                depth += 1
                continue
            if depth:
                if "-/" in line:
                    depth -= 1
                continue
            mm = re.match(r"^namespace\s+(\S+)", line)
            if mm:
                ns.append(mm.group(1))
                continue
            mm = re.match(r"^end\s+(\S+)", line)
            if mm and ns and ns[-1] == mm.group(1):
                ns.pop()
                continue
            mm = re.match(r"^(?:open .* in\s+)?theorem\s+(\S+)", line)
            if mm:
                out.append(".".join(ns + [mm.group(1)]))
    return out

PROPS["C20"] = dict(
    lean_modules=["LC.Props.C20Heap", "LC.Props.C20HeapSort", "LC.Props.C20Sets", "LC.Props.C20SetsAlgebra"],
    theorems=auto_theorems(["LC.Props.C20Heap", "LC.Props.C20HeapSort", "LC.Props.C20Sets", "LC.Props.C20SetsAlgebra"]),
    runs=[
        dict(mod="root", pkg="stringclassifier/internal/pq", pkgname="pq",
             files=["overlay/pq/zz_verif_test.go"], run="^TestVerifC20$"),
        dict(mod="root", pkg="internal/sets", pkgname="sets", files=[], run="^TestVerifC20$",
             prepare=sets_prepare("StringSet", "NewStringSet", "string", "strconv.Itoa(n)", "ss")),
        dict(mod="root", pkg="stringclassifier/internal/sets", pkgname="sets", files=[], run="^TestVerifC20$",
             prepare=sets_prepare("IntSet", "NewIntSet", "int", "n", "is")),
    ],
    rule="op sequences on the real Queue / StringSet / IntSet: exhaustive short sequences over a small "
         "alphabet + seeded random long ones; each compared (a) with the Lean model's trace after every op "
         "and (b) with an independent reference (sorted multiset / map[int]bool). distinct = distinct op "
         "sequence; non-trivial = at least 3 operations",
    trusted_base=["hand-written Lean models LC/Model/Heap.lean (container/heap + pqHeap adapter) and "
                  "LC/Model/Sets.lean, tied to the Go code by the correspondence run (internal array / map "
                  "contents compared after every operation)",
                  "Go's container/heap is modelled from its source (up/down/Push/Pop/Remove/Fix), not verified itself"],
    assumptions=["comparator is a strict weak order (hypothesis StrictWeak of the heap theorems)",
                 "Go map semantics (unique keys, arbitrary iteration order) as modelled by Enum"],
)

V2FILES = ["overlay/v2/common_test.go", "overlay/v2/tok_test.go", "overlay/v2/match_test.go", "overlay/v2/props_test.go"]
ALLGEN = ["unicode", "v2tables", "html"]


def v2run(test, **kw):
    d = dict(mod="v2", pkg=".", pkgname="classifier", files=V2FILES, run=f"^{test}$", timeout=900, timeout_thorough=7000)
    d.update(kw)
    return d


def rootrun(pkg, pkgname, harness, test, **kw):
    files = [harness]
    if harness in ("overlay/stringclassifier/zz_verif_test.go",):
        files.append("locks_test.go.tmpl")
    d = dict(mod="root", pkg=pkg, pkgname=pkgname, files=files, run=f"^{test}$", timeout=900, timeout_thorough=7000)
    d.update(kw)
    return d


def build_cli():
    """C19: build the identify_license binary from /repo's current working tree"""
    import vlib
    os.makedirs(os.path.join(vlib.WORK, "bin"), exist_ok=True)
    out = os.path.join(vlib.WORK, "bin", "identify_license")
    if os.path.exists(out):
        os.remove(out)
    rc, o, _ = vlib.sh(["go", "build", "-modfile", vlib.modfile("v2"), "-o", out, "./tools/identify_license"],
                       cwd=vlib.MODS["v2"], env=vlib.go_env(), timeout=600)
    if rc != 0:
        raise RuntimeError("go build identify_license failed: " + o[-500:])
    return {"VERIF_CLI_BIN": out}


TOK = v2run("TestVerifTok")
MATCH = v2run("TestVerifMatch")
PATH = v2run("TestVerifPath")
V2_TB = ["hand-written Lean model of the v2 pipeline (LC/Model/V2Tok, V2Env, V2Match, Score, Utf8, HtmlUnescape) tied to "
         "the Go code by differential correspondence on every run: stage `tok` (bytes -> tokens/lines/copyright lines, "
         "incl. the 1024-byte read loop), stage `norm` (Normalize output) and stage `match` (tokens -> Results, "
         "bit-identical confidences)",
         "regenerated tables LC/Gen (Unicode classes and ToLower of the Go toolchain in use, punctuationMappings, "
         "interchangeableWords, listMarker, ignorableTexts sources, inducedPhrases, comparator field orders, buffer "
         "constants, HTML entities)",
         "go-diff DiffMainRunes is an oracle parameter (its observed script is recorded and fed to the model); "
         "regexp is replaced by hand-written matchers for the three ignorableTexts expressions (validated differentially)"]
FLOAT = "float64 enters through NumEnv (each float expression of the code is one field); theorems use only the named laws"


def P(pid, modules, runs, rule, level_text, assumptions, regen=None, trusted=None, **kw):
    PROPS[pid] = dict(lean_modules=modules, theorems=auto_theorems(modules), runs=runs, rule=rule,
                      level_text=level_text, assumptions=assumptions, regen=regen or [], trusted_base=trusted or V2_TB, **kw)


P("C01", ["LC.Props.C01", "LC.Props.C01Range"], [MATCH, v2run("TestVerifC01")],
  "every picked corpus document planted (verbatim) between out-of-vocabulary lines, 1-4 copies per input, thresholds "
  "0.8 (quick; +0.9 on even seeds) / 0.7,0.75,0.8,0.9,0.95,1.0 (thorough, all 431 documents), plus user-added synthetic "
  "documents, twin documents (the same words under two names) and minimum-length documents (exactly m, m+1, 2m words, m = floor(t/(1-t)) restated in the harness, at ten thresholds); expected name/span/lines from the white-box tokenisation of the prefix, never from Match. distinct = "
  "(threshold, documents); non-trivial = at least one planted copy of >= q tokens was checked",
  "exact_range_proposed: for EVERY document D (>= q tokens) planted between contexts sharing no token with it, the q-gram join, "
  "density window, range fusion and claimed-token cut of the model propose exactly source [0,|D|) -> target [|pre|,|pre|+|D|) "
  "and never panic (under HashInj and scaleFloor n <= n); prefilter_contains, hashes_contains, score_exact(_conf): the "
  "pre-filter cannot reject it and the score is distance 0, no trimming, confidence conf |D| 0 = 1.0. retain_not_dominated "
  "states exactly when the overlap filter keeps a candidate (no earlier candidate inside its lines weighs more or overlaps it "
  "other than by touching, no later candidate containing its lines weighs more). PARTIAL in one respect: that this NoDominator "
  "condition holds for a planted copy depends on the corpus and is established by the oracle on the real Match over every "
  "corpus document.",
  ["DiffSpec.equalInputs (go-diff returns one Equal segment for identical texts)", FLOAT,
   "NoDominator: no other corpus document approximately spans several planted copies — FALSE for Apache-2.0 a.txt + header vs pristine.txt at threshold 0.75: known finding C01/approximate-superset-dominates-exact, classified by the harness and anchored by the model (needs_corr)"], regen=ALLGEN)

P("C02", ["LC.Props.C02", "LC.Props.C02Words", "LC.Props.C02Bounds", "LC.Props.C02Runes"], [MATCH],
  "real Match on exact / edited (word deletions, substitutions, insertions at 2-30%) / truncated / multi-license inputs, "
  "scenario files and malformed text over the full embedded corpus; oracle: independent two-row DP Levenshtein over the "
  "white-box token ids, Confidence <= 1 - L/|K|, lines = lines of first/last word. distinct = distinct input bytes; "
  "non-trivial = at least one match reported; plus a 69 416-word dictionary probe (ids below, inside and past the UTF-16 surrogate block; substitutions by the word with id +-2^16, +-2^15) and the exhaustive token-rune round trip",
  "lev_le_levWord / score_bound prove, for EVERY valid edit script, that the distance the code uses for the confidence is an "
  "upper bound of the true word-level Levenshtein distance between the reported span and the known text; the code's "
  "computation of that distance, of the span offsets and of the confidence is tied to the model by the `match` "
  "correspondence (bit-identical Results) on every run.",
  ["DiffSpec.valid: the script returned by go-diff reproduces both texts with non-empty segments (hypothesis `Valid`; every "
   "recorded script is replayed through the model, an invalid one shows as a correspondence mismatch)",
   "float64: 1 - d/k is antitone in d", "dictionary size <= 0x10FFFF - 0x800 (token ids travel through go-diff as runes; since the repair be50ff0 they skip the surrogate block: LC/Model/TokenRune.lean, tied to v2/diff.go by exhaustive comparison over all 0x110000 identifiers — enumeration of a finite domain, not a translation; `throughString` models what Go does to one rune on string conversion; probe vbigDict runs a 69 416-word dictionary on the real Match)"], regen=ALLGEN)

P("C03", ["LC.Props.C03Lines", "LC.Props.C03WF"], [TOK, MATCH],
  "tokenizer: corpus documents, scenario files, malformed stream (invalid UTF-8, entity soup, hyphen/newline storms), "
  "buffer-alignment stream; Match: as C02. Oracle: every inequality of the property evaluated on the real result. distinct = "
  "distinct input; non-trivial = more than 3 tokens / at least one match",
  "The line clause is proved for every rune sequence and every environment (token_lines_bounded, copyright_lines_bounded, "
  "token_lines_monotone, totalInputLines_le); match_wellformed / match_sorted / match_total_lines prove the well-formedness "
  "and ordering of every result of the model for every input, corpus, NumEnv and diff oracle.",
  ["thresholds in (0,1]; corpus keys without path separator", FLOAT + " (NumLaws: > on confidences is a strict total order, no NaN)"],
  regen=ALLGEN)

P("C04", ["LC.Props.C04", "LC.Props.C09Footprint"], [MATCH, v2run("TestVerifC04", xproc=True)],
  "call histories on the real classifier: each input matched repeatedly with other Match/MatchFrom/Normalize calls in "
  "between, against a separately built instance with reversed insertion order, a superset corpus, tracing enabled; caller "
  "slices compared before/after; the same inputs matched in a second process (different map seed) and compared. Always "
  "includes the corpus documents that are textually identical to another one; a small user corpus with probes whose score "
  "depends on a word being out of vocabulary, re-matched after Match/MatchFrom/Normalize of texts carrying that word in every "
  "tokenizer position (hist_dict*). distinct = input; non-trivial = has matches",
  "sort_order_irrelevant / sorted_perm_unique: a sort under a strict total order has one result per multiset; matchLess_total: "
  "the (repaired) comparator is such an order; match_order_independent: the model's result is the same for every iteration "
  "order of the corpus map; match_equivariant: renaming the token ids by any injection (a differently ordered or separately built "
  "dictionary) changes nothing, given that the diff library commutes with the renaming; dict_roundtrip: ids and words stay in "
  "bijection. The comparator field orders the model mirrors are "
  "regenerated from the AST and compared (matchLess_fields_current, mrLess_fields_current). That Match leaves the dictionary "
  "alone is tied to the source by the regenerated footprint (footprint_current, match_does_not_update_dict: every updateDict "
  "argument and guard on the way from match to dictionary.add).",
  [FLOAT, "key uniqueness of joined ranges (hypothesis hk of mr_sort_order_irrelevant)",
   "DiffSpec.crossOnly: go-diff depends on its inputs only through their equality pattern (hypothesis hd of match_equivariant)",
   "tracing and slice aliasing are run-time facts covered by the harness only"], regen=ALLGEN + ["v2footprint"])

P("C05", ["LC.Props.C05", "LC.Props.C05Quotes"], [TOK, v2run("TestVerifC05")],
  "metamorphic: real Match before/after each presentation transform (upper/random ASCII case, indentation, trailing blanks, "
  "CRLF, tabs, double spaces, no-break/em/thin/ideographic spaces, blank lines, comment prefixes, Unicode hyphens/quotes) on corpus documents alone / planted / "
  "edited and scenario files; inputs with a hyphen before a line break are exempt as the property says. distinct = "
  "(transform, input); non-trivial = the untransformed input has matches",
  "step_congr/tokenize_congr (equal scan signatures are interchangeable), skip_inert/insert_inert, crlf_equiv, "
  "tokenize_from_clean/blank_line_shift hold for every environment; ascii_case_sig, dash_sig, blank_sig, "
  "decoration_not_starter, goEnv_wf discharge the table facts on the regenerated Unicode/punctuation tables by kernel evaluation; "
  "quotes_invariant (LC/Props/C05Quotes): the quotes clause at tokenizer level.",
  ["quotes_invariant: exchanging quote-like runes (ASCII and typographic quotes) for one another leaves tokenizeRunes unchanged, for every "
   "environment in which they are inert (QuoteLike); quotes_invariant_go: for the regenerated Go tables (goEnv_quoteLike, goEnv_listMarker_qeq, "
   "goEnv_ignorable_qeq are proved) — one hypothesis stays an assumption: the entity decoder does not tell two quote-like runes apart (hU), "
   "monitored by the tok correspondence on quoted inputs"],
  regen=ALLGEN)

P("C06", ["LC.Props.C06"], [TOK, v2run("TestVerifC06")],
  "metamorphic: copyright/date lines inserted between lines, list markers (1., iv., a., 3.1., b:) and letter-paren markers "
  "(a)) prefixed, words split by hyphen+newline (one per line; every long word; with indented continuation), listed spelling "
  "variants swapped, http/https switched; plus: an inserted notice must be reported on its line, also when appended to the "
  "text with every long word hyphen-split. distinct = (transform, input); non-trivial = input has matches",
  "PARTIAL: notice_line, marker_dropped/header_iff, hyphen_join_word, interchangeable_same_token, https_http/replaceHttps_idem "
  "are proved (tokenizer level, every environment; table facts on the regenerated tables). The property is false of the code "
  "in three recorded ways (known_findings.json): a) markers, line restart after a hyphen join, notices inside a license span.",
  ["known findings C06/* are reported as KNOWN-FINDING, any other failure is a violation"], regen=ALLGEN)

P("C07", ["LC.Props.C07"], [TOK, MATCH, v2run("TestVerifC07")],
  "Match(X) vs Match(prefix+X+suffix) with out-of-vocabulary blocks of 1 and 7 lines and pads of a few words only, X = exact / "
  "edited 10% / edited+truncated / tail-less / two-license texts; license matches compared in order with shifted lines and token indices, Copyright "
  "pseudo-matches as a set of lines. distinct = (X, prefix length); non-trivial = X alone has matches",
  "PARTIAL: tokens_shift, hashes_shift, match_line_monotone are proved; detectRuns/fuseRanges are NOT shift-equivariant in the "
  "code (finding C07/negative-offset-clamp), so the full statement is false and not claimed. A case is accepted as that finding "
  "only if the model of the unchanged code reproduces both of its Match results (match records emitted for the case).",
  ["HashInj is not needed for the proved parts", FLOAT], regen=ALLGEN)

P("C08", ["LC.Props.C08"], [TOK, v2run("TestVerifC08")],
  "MatchFrom through readers that fragment (1 byte, mixed sizes, data delivered with EOF) vs Match on the bytes; leading-space "
  "pads that move multi-byte characters across the 1024-byte buffer boundaries (thorough: every pad 0..2056); readers failing "
  "with three different errors (incl. io.ErrUnexpectedEOF) at sampled/every offset. distinct = (input, fragmentation|pad|fault "
  "offset); non-trivial = the unpadded input has matches",
  "feed_eq_decodeAll proves, for inputs of every length, that the buffered read loop (exact constants, carry-over, stale bytes) "
  "hands the scanner the runes of the whole input; feed_pad is the pad clause; feedR_spec the fault clause. The loop model is "
  "tied to Go by the `tok` correspondence incl. an alignment stream around bytes 1016-1028 and 2040-2052.",
  ["StableTail: the input does not END inside a multi-byte UTF-8 sequence", "io.ReadFull contract"], regen=ALLGEN)

P("C09", ["LC.Props.C09", "LC.Props.C09Footprint"], [MATCH, v2run("TestVerifC09", race=True, timeout=1800)],
  "8 (quick) / 64 (thorough) goroutines calling Match/MatchFrom on one classifier over exact/edited/scenario inputs under the "
  "race detector; results compared with sequential results; deep snapshot (tokens, runes incl. spare capacity, checksums, "
  "dictionary sizes) of the corpus before/after. distinct = verdict kind; non-trivial = all",
  "PARTIAL: readonly_no_race / readonly_reads_initial prove, for every number of threads and every interleaving, that read-only "
  "sharing is race free and every read sees the initial state; that Match's footprint on the corpus IS read-only is tied to the "
  "source by a regenerated static footprint (functions reachable from match, their write sites on shared types, package-level "
  "variables, normalize/updateDict arguments and the guards of dictionary.add) that must equal a reviewed expectation "
  "(footprint_current, match_does_not_update_dict, write_targets) and is otherwise monitored: snapshot + race detector on "
  "executed schedules. Writes inside go-diff and the Go memory model are outside the model.",
  ["the reviewed footprint LC/Spec/FootprintExpect (hand-maintained) is what the static tie compares with",
   "race detector sees executed schedules only"], regen=ALLGEN + ["v2footprint"])

P("C10", ["LC.Props.C03WF", "LC.Props.C08"], [TOK, MATCH, v2run("TestVerifC10")],
  "Match, MatchFrom, Normalize, AddContent on the malformed stream and on structure-aware mutations of license texts, for "
  "thresholds {0,1e-9,0.5,0.8,1-1e-9,1}, classifiers with empty corpus / empty and wordless documents / full corpus, notice-only "
  "inputs (Copyright matches, no tokens), with a "
  "120 s hang detector. distinct = (classifier, input); non-trivial = non-empty input",
  "match_no_panic: the model of the pipeline never reaches one of its explicit panic results (filter[off], Tokens[i]) for ANY "
  "tokens, corpus, NumEnv and diff scripts; the tokenizer model and the read loop are total functions (structural/fuel, "
  "feed_eq_decodeAll shows the fuel suffices); the correspondence on the malformed stream ties them to the code.",
  ["regexp, html, go-diff and utf8 are assumed total", "empty-token-list guard as repaired"], regen=ALLGEN)

P("C11", ["LC.Props.C11", "LC.Props.C06"], [TOK, v2run("TestVerifC11")],
  "Normalize vs Match on corpus documents (thorough: all), plantings, edited texts, scenario files, dotted numbers, upper-case list "
  "markers, hyphen-split texts (natural, dense, indented, first line without tokens): (a) line k of the output "
  "holds the words Match attributes to line k (modulo first-letter case and interchangeable spelling); (b) "
  "Match(Normalize(in)) = Match(in) on non-Copyright matches. distinct = input; non-trivial = input has matches / > 3 tokens",
  "PARTIAL: normalize_lines_all proves the line clause for EVERY input (line k of the Normalize output = the words the tokenizer "
  "puts on line k, hyphenated line breaks included): render_lines_mono + tokenize_mono + tokenize_eol_lastlt + tokenize_words; "
  "replaceHttps_idem (C06) is the idempotence the https repair relies on. Re-matching equality is false for two recorded "
  "findings and is checked by the oracle.",
  ["known findings C11/* are reported as KNOWN-FINDING"], regen=ALLGEN)

P("C12", ["LC.Props.C12"], [PATH, v2run("TestVerifC12"),
     dict(mod="v2", pkg="assets", pkgname="assets", files=["overlay/assets/zz_verif_test.go"], run="^TestVerifC12Assets$", timeout=900, timeout_thorough=3000)],
  "real LoadLicenses on generated directory trees (files at depth 1-5, suffixes txt/md/TXT/none, empty files, 1-2 letter "
  "categories, corpus directory named corpus or corpus.txt) under eight spellings of the directory (plain, trailing separator, "
  "./relative, doubled separator, .., and after chdir: '.', './', '../name'); corpus keys and Match results "
  "compared with an AddContent-built classifier for trees whose .txt files sit at depth 3; LoadLicenses(assets) vs the "
  "AddContent-built default corpus; the real assets.DefaultClassifier(), called four times with the returned classifier modified "
  "in between (AddContent of a new and of an existing name, SetTraceConfiguration, Normalize), compared on every call with "
  "LoadLicenses('.') in the assets directory; stages clean/rel/loadkey compare filepath.Clean/Rel and the key derivation with the model. "
  "distinct = (tree, spelling); non-trivial = all",
  "rel_walk / load_key_exact / load_key_shallow / load_key_total prove, for EVERY non-empty spelling of the directory and every "
  "walked file with ordinary names, that the (repaired) key derivation yields exactly (category, name, variant) at depth 3, "
  "skips shallower files and never fails; clean_idem. The model of filepath.Clean/Rel is tied to Go by 120k differential cases (thorough).",
  ["filepath.Walk builds child paths with filepath.Join (modelled)", "equivalence of the loaded classifier = C04 + harness comparison"],
  regen=ALLGEN)

V1_TB = ["hand-written Lean models LC/Model/V1Tok (Tokenize, TargetRange), LC/Model/V1Glue (exact search, token range, filter "
         "chains, archive pairing, CLI glue), LC/Model/Conc (interleaving semantics)",
         "LC/Model/V1Search (untangle/split/mergeConsecutive/coalesce of FindPotentialMatches)",
         "stage v1tok compares the tokenizer model with tokenizer.Tokenize, stage v1post the V1Search model with the real "
         "untangleSourceRanges/splitRanges/mergeConsecutiveRanges/coalesceMatchRanges (on the lists targetMatchedRanges returns and "
         "on synthetic sorted lists), stage v1exact the exact path of findMatches (literal search, token range, byte range) with "
         "the real findMatches; the remaining v1 models (filter chains, archive pairing, CLI glue) are decision logic checked "
         "by the property oracles on the real API"]

P("C13", ["LC.Props.C13", "LC.Props.C17", "LC.Props.C13Uniq"],
  [rootrun("stringclassifier", "stringclassifier", "overlay/stringclassifier/zz_verif_test.go", "TestVerifC13"),
   rootrun("stringclassifier/searchset", "searchset", "overlay/searchset/zz_verif_test.go", "TestVerifC17")],
  "value sets (1-60 tokens; small/large vocabulary; regex metacharacters, Unicode, invalid UTF-8), none inside another, with "
  "and without a lower-casing normaliser, thresholds 0.3/0.5/0.8/0.9/1.0; AddValue must not panic; NearestMatch of each value; a "
  "verbatim copy planted in filler (start, middle, very end; values with stray white space at their ends included), copies of ALL "
  "values of a set next to each other (shortest first / shuffled), and the value inside a longer word; every token-aligned copy "
  "must be reported with confidence 1.0 and exact Offset/Extent; all "
  "confidences in (0,1], all ranges inside the normalised unknown. distinct = (value set, unknown); non-trivial = all",
  "findAll_sound/findAll_first (the literal search returns exactly the occurrences), exact_token_range (the repaired loop "
  "returns first/last token, single-token values included), nearest_exact; with C17's targetRange_ok the reported byte range "
  "is exactly the copy. Stage v1exact runs the real findMatches (exact path) on every planted case and compares its "
  "Offset/Extent list with the model's findAllIndex -> trimOcc -> exactRange -> targetRange -> exactBytes (exact_reports_occurrence: "
  "a value with white space at its ends is reported as the occurrence itself). uniquify_keeps / uniquify_starts_apart / "
  "uniquify_sublist: the overlap filter keeps every match that begins inside no better-ranked range (half-open, uniquify_adjacent); "
  "stage v1uniq compares the real Matches.uniquify with the model on random rank-ordered lists.",
  ["DiffSpec.equalInputs for confidence 1.0", "token-aligned copies (the property's reading, DESIGN §6 C13)"], trusted=V1_TB, regen=["unicode"])

P("C14", ["LC.Props.C14"],
  [rootrun("stringclassifier", "stringclassifier", "overlay/stringclassifier/zz_verif_test.go", "TestVerifC14", race=True, timeout=1800),
   rootrun("serializer", "serializer", "overlay/serializer/zz_verif_test.go", "TestVerifC14License", race=True, timeout=1800)],
  "8/48 goroutines x rounds of concurrent MultipleMatch / NearestMatch / AddValue on a freshly populated classifier (lazy "
  "search sets still nil) under the race detector, results compared with a sequentially used twin (queries with copies of several "
  "values, so that one call collects hits of several known values at once); and the same for ONE licenseclassifier.License built from "
  "an archive (TestVerifC14License: license texts, edited copies, snippets that pass the word gate and match nothing; a caller that "
  "changes its result must not change later results). distinct = round; non-trivial = all",
  "PARTIAL: the skeleton of multipleMatch regenerated from the AST is checked (skeleton_current) to be the locked "
  "check-and-set shape for which protocol_no_race / protocol_at_most_one_write / protocol_reads_agree (C09 file) hold for every "
  "number of threads and interleaving; racy_unlocked_check / prefix_skeleton_rejected show the pre-repair shape races. "
  "For the map `values` under the RWMutex: the skeletons of ALL functions and goroutine literals of the package that mention "
  "`values`/`muValues` are regenerated from the AST (LC/Gen/V1Locks) and must pass the static checker LC.RW.accepts "
  "(values_skeletons_accepted, kernel evaluation); accepted_calls_ok proves the checker sound (every path of an accepted "
  "skeleton is well locked: branches, loops, early returns, deferred unlocks) and rw_no_race proves that well-locked threads "
  "never race on the location, for every number of threads and every interleaving the lock allows. "
  "Everything outside these skeletons (matcher queue, Go memory model, extractor faithfulness) is monitored by the race detector.",
  ["Go memory model outside the model; race detector sees executed schedules"], trusted=V1_TB, regen=["v1protocol"])

P("C15", ["LC.Props.C15", "LC.Props.C15Parse"],
  [rootrun("serializer", "serializer", "overlay/serializer/zz_verif_test.go", "TestVerifC15")],
  "subsets/orderings of the 178 license files (always including names whose last letters are among those of '.txt'; plus "
  "non-.txt entries) "
  "archived with ArchiveLicenses and loaded with New(ArchiveBytes); every archived license must match its own text exactly; "
  "NearestMatch/MultipleMatch compared with a classifier built by AddValue from the same texts (calls that approach go-diff's "
  "1 s deadline are skipped and counted). distinct = file subset; non-trivial = all",
  "parse_build (reading back what ArchiveLicenses writes yields one (name, text, set) per .txt file, in order), "
  "register_distinct / register_duplicate. tar, gzip and gob are assumed to round-trip.",
  ["tar/gzip/gob round-trip", "DiffSpec.noDeadline"], trusted=V1_TB)

P("C16", ["LC.Props.C16", "LC.Props.C16Complete", "LC.Props.C13"],
  [rootrun("serializer", "serializer", "overlay/serializer/zz_verif_test.go", "TestVerifC16", timeout=1800, timeout_thorough=14000)],
  "License.NearestMatch on the shipped license files x presentation variants (plain, upper, lower, re-flowed, wide spaces, // # * "
  "decoration): canonical name, confidence >= 0.8 (quick: 8 seeded files x 4 variants; thorough: all 178 x 8); MultipleMatch on "
  "noisy texts never returns a confidence below the threshold. distinct = (file, variant); non-trivial = all",
  "multiple_within_threshold / multiple_from_input / multiple_nodup prove the threshold clause for every input, multiple_complete / multiple_exact that no qualifying candidate is dropped; nearest_exact "
  "(C13) the exact-text clause. The first sentence of the property is a finite statement about 178 files and is established by "
  "ENUMERATION on the real classifier (thorough tier: exhaustive), labelled as such.",
  ["normaliser outputs are not modelled"], trusted=V1_TB)

P("C17", ["LC.Props.C17"],
  [rootrun("stringclassifier/searchset", "searchset", "overlay/searchset/zz_verif_test.go", "TestVerifC17"),
   rootrun("stringclassifier", "stringclassifier", "overlay/stringclassifier/zz_verif_test.go", "TestVerifC13")],
  "Tokenize on generated strings (Unicode, punctuation, invalid UTF-8, random bytes, repetitive low-vocabulary text) compared "
  "with the model and checked for text/offset/order/coverage (every byte of every character); FindPotentialMatches on "
  "source/target pairs (target contains / edits / is unrelated to the source): every candidate non-empty, ordered, inside the "
  "token bounds, TargetRange inside the string; the post-processing stages also on synthetic sorted lists (400 quick / 60000 "
  "thorough), model and real functions compared; the last sentence (a Match's Offset/Extent slices the normalised input) is "
  "evaluated on every MultipleMatch of the C13 harness run, incl. truncated copies at the very end of the text. distinct = "
  "input; non-trivial = more than one token / at least one candidate",
  "tokenize_faithful, uncovered_is_space, targetRange_ok, encode_decode are proved for EVERY byte string; post_inv / post_ne / "
  "candidate_byte_range prove that untangle/split/mergeConsecutive/coalesce keep every candidate non-empty, ordered by target "
  "position, inside the token bounds and convertible to a byte range start <= end inside the target, for EVERY list ordered by "
  "TargetStart with non-empty in-bounds ranges; that targetMatchedRanges + sort.Sort deliver such a list is monitored on every "
  "recorded list (targetMatchedRanges is not modelled).",
  ["U+FFFD is not punctuation in the Go tables (ValidPunct)", "targetMatchedRanges output: ordered by TargetStart after sort.Sort, ranges non-empty and in bounds (monitored)"], trusted=V1_TB, regen=["unicode"])

P("C18", ["LC.Props.C18"],
  [rootrun("commentparser", "commentparser", "overlay/commentparser/zz_verif_test.go", "TestVerifC18")],
  "all strings up to length 4 (quick) / 5-6 (thorough) over a delimiter-rich alphabet for 21 comment styles, random long "
  "programs and directed quote/escape/comment combinations for all language values 0..49, all sequences of up to 6/8 block "
  "delimiters, letters and newlines for the nesting languages, ChunkIterator on random line patterns; every input goes both to the impl-level "
  "model (tie) and to the SPECIFICATION lexer over the hand-maintained expected syntax (oracle). distinct = (language, input); "
  "non-trivial = at least one comment",
  "lex_refines_spec: the model of the Go lexer equals the straightforward specification lexer on EVERY source text for every "
  "well-formed row; table_current/consts_current/expected_rows_wf/parse_is_spec tie the regenerated language table to the "
  "expected syntax; chunks_concat/adjacent/maximal/nonempty. Both lexers are total functions (no hang).",
  ["expected syntax table LC/Spec/LangExpect is hand-maintained (frozen from the reviewed language.go)"],
  trusted=["Lean model LC/Model/Lexer tied to commentparser.Parse by stage `lex`; specification LC/Spec/LexSpec; regenerated "
           "language facts LC/Gen/LangTable"], regen=["langtable"])

P("C19", ["LC.Props.C19", "LC.Props.C19Locks"],
  [dict(mod="v2", pkg="tools/identify_license/backend", pkgname="backend", files=["overlay/backend/zz_verif_test.go", "locks_test.go.tmpl"],
        run="^TestVerifC19$", timeout=1800, timeout_thorough=7000, pre=build_cli),
   dict(mod="v2", pkg="tools/identify_license/backend", pkgname="backend", files=["overlay/backend/zz_verif_test.go", "locks_test.go.tmpl"],
        run="^TestVerifC19Race$", timeout=1800, timeout_thorough=7000, race=True)],
  "the identify_license binary built from the working tree, run over generated trees (licensed/unlicensed files, nested "
  "directories, CRLF, 70 kB lines, no trailing newline, empty files) x -headers x -tasks {1,2,7,1000} x directory/file "
  "arguments with -json -include_text; stdout lines (as a multiset), exit status and JSON Text compared with in-process "
  "library results; the backend's pool in process under the race detector (TestVerifC19Race: 40/400 files with 6-35 matches "
  "each at -tasks 1/4/64, result multiset compared with the library's). distinct = (flags, files); non-trivial = at least one match",
  "results_schedule_independent (the multiset of result lines does not depend on worker order), header_filter, exit_iff, "
  "readLines_spec / readLines_short; the worker pool's shutdown protocol: the order of a worker's deferred actions is "
  "regenerated from the AST (defer_order_current) and no_send_after_close proves that with this order no execution, for any "
  "number of workers and any interleaving, sends on the closed task channel (old_order_can_panic: the previous order does). "
  "The shared result list: the lock skeleton of every backend function touching `results`/`mu` is regenerated (LC.Gen.CliLocks) and "
  "the worker-side ones are accepted by the RW checker (results_skeletons_accepted, results_append_exclusive), so by rw_no_race no append is lost for any -tasks. "
  "Process, file system and JSON encoding are outside the model.",
  ["OS process/exit codes, filepath.Walk, encoding/json"], trusted=V1_TB, regen=["cliprotocol"])
