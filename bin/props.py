"""Registry: per property — Lean theorem modules, theorem names to audit, harness runs."""
import os

HARN = os.path.join(os.path.dirname(os.path.dirname(os.path.abspath(__file__))), "harness")


def sets_prepare(settype, newset, elem, toelem, tag):
    def prep(out_dir, files):
        src = open(os.path.join(HARN, "overlay/sets/zz_verif_test.go.tmpl")).read()
        src = (src.replace("SETTYPE", settype).replace("NEWSET", newset).replace("TOELEM", toelem)
               .replace("ELEM", elem).replace("SETTAG", tag))
        os.makedirs(out_dir, exist_ok=True)
        p = os.path.join(out_dir, "sets_harness_test.go")
        open(p, "w").write(src)
        return [p]
    return prep


PROPS = {}

PROPS["C20"] = dict(
    lean_modules=["LC.Props.C20Heap", "LC.Props.C20Sets"],
    audit_module="LC.Props.C20",
    theorems=["LC.Heap.reachable_inv", "LC.Heap.push_spec", "LC.Heap.pop_isSome", "LC.Heap.pop_spec",
              "LC.Heap.remove_spec", "LC.Heap.setFix_spec",
              "LC.Sets.new_spec", "LC.Sets.insert_spec", "LC.Sets.delete_spec", "LC.Sets.copy_spec",
              "LC.Sets.intersect_spec", "LC.Sets.disjoint_spec", "LC.Sets.difference_spec",
              "LC.Sets.unique_spec", "LC.Sets.equal_spec", "LC.Sets.equal_nil", "LC.Sets.union_spec",
              "LC.Sets.contains_spec", "LC.Sets.len_spec", "LC.Sets.elements_spec", "LC.Sets.order_irrelevant"],
    runs=[
        dict(mod="root", pkg="stringclassifier/internal/pq", pkgname="pq",
             files=["overlay/pq/zz_verif_test.go"], run="^TestVerifC20$"),
        dict(mod="root", pkg="internal/sets", pkgname="sets", files=[], run="^TestVerifC20$",
             prepare=sets_prepare("StringSet", "NewStringSet", "string", "strconv.Itoa(n)", "ss")),
        dict(mod="root", pkg="stringclassifier/internal/sets", pkgname="sets", files=[], run="^TestVerifC20$",
             prepare=sets_prepare("IntSet", "NewIntSet", "int", "n", "is")),
    ],
    rule="op sequences on the real Queue / StringSet / IntSet: exhaustive short sequences over a small "
         "alphabet + seeded random long ones; each compared (a) with the Lean model's trace after every op "
         "and (b) with an independent reference (sorted multiset / map[int]bool). distinct = distinct op "
         "sequence; non-trivial = at least 3 operations",
    trusted_base=["hand-written Lean models LC/Model/Heap.lean (container/heap + pqHeap adapter) and "
                  "LC/Model/Sets.lean, tied to the Go code by the correspondence run (internal array / map "
                  "contents compared after every operation)",
                  "Go's container/heap is modelled from its source (up/down/Push/Pop/Remove/Fix), not verified itself"],
    assumptions=["comparator is a strict weak order (hypothesis StrictWeak of the heap theorems)",
                 "Go map semantics (unique keys, arbitrary iteration order) as modelled by Enum"],
)

V2FILES = ["overlay/v2/common_test.go", "overlay/v2/tok_test.go", "overlay/v2/match_test.go", "overlay/v2/props_test.go"]


def v2run(test, **kw):
    d = dict(mod="v2", pkg=".", pkgname="classifier", files=V2FILES, run=f"^{test}$", timeout=900, timeout_thorough=7000)
    d.update(kw)
    return d


TOK = v2run("TestVerifTok")
MATCH = v2run("TestVerifMatch")
V2_TB = ["hand-written Lean model of the v2 pipeline (LC/Model/V2Tok, V2Env, V2Match, Score, Utf8, HtmlUnescape) tied to "
         "the Go code by differential correspondence on every run: stage `tok` (bytes -> tokens/lines/copyright lines, "
         "incl. the 1024-byte read loop) and stage `match` (tokens -> Results, bit-identical confidences)",
         "regenerated tables LC/Gen (Unicode classes and ToLower of the Go toolchain in use, punctuationMappings, "
         "interchangeableWords, listMarker, ignorableTexts sources, inducedPhrases, buffer constants, HTML entities)",
         "go-diff DiffMainRunes is an oracle parameter (its observed script is recorded and fed to the model); "
         "regexp is replaced by hand-written matchers for the three ignorableTexts expressions (validated differentially)"]

PROPS["C02"] = dict(
    lean_modules=["LC.Props.C02"],
    regen=["unicode", "v2tables", "html"],
    theorems=["LC.Score.lev_le_levWord", "LC.Score.score_bound", "LC.Score.lev_eq_zero_iff",
              "LC.Score.conf_one_only_if_identical"],
    runs=[MATCH],
    rule="real Match on exact / edited (word deletions, substitutions, insertions at 2-30%) / truncated / multi-license "
         "inputs, scenario files and malformed text over the full embedded corpus; oracle: independent two-row DP "
         "Levenshtein over the white-box token ids, Confidence <= 1 - L/|K|, lines = lines of first/last word. "
         "distinct = distinct input bytes; non-trivial = at least one match reported",
    trusted_base=V2_TB,
    assumptions=["DiffSpec.valid: the script returned by go-diff reproduces both texts with non-empty segments "
                 "(hypothesis `Valid` of score_bound; every recorded script is replayed through the model, so an invalid "
                 "one shows as a correspondence mismatch)",
                 "float64: 1 - d/k is antitone in d (confidence is computed from the integer distance by one IEEE expression)",
                 "dictionary size < 0xD800 (token ids are cast to runes inside go-diff)"],
    level_text="lev_le_levWord / score_bound prove, for EVERY valid edit script, that the distance the code uses for the "
               "confidence is an upper bound of the true word-level Levenshtein distance between the reported span and the "
               "known text; the code's computation of that distance, of the span offsets and of the confidence is tied to "
               "the model by the `match` correspondence (bit-identical Results) on every run.",
)

PROPS["C03"] = dict(
    lean_modules=["LC.Props.C03Lines"],
    regen=["unicode", "v2tables", "html"],
    theorems=["LC.V2Tok.token_lines_bounded", "LC.V2Tok.copyright_lines_bounded", "LC.V2Tok.token_lines_monotone",
              "LC.V2Tok.totalInputLines_le"],
    runs=[TOK, MATCH],
    rule="tokenizer: corpus documents, scenario files, malformed stream (invalid UTF-8, entity soup, hyphen/newline "
         "storms), buffer-alignment stream; Match: as C02. Oracle: every inequality of the property evaluated on the "
         "real result. distinct = distinct input; non-trivial = more than 3 tokens / at least one match",
    trusted_base=V2_TB,
    assumptions=["thresholds in (0,1]; corpus keys without path separator"],
    level_text="The line clause is proved for every rune sequence and every environment (token_lines_bounded, "
               "copyright_lines_bounded, token_lines_monotone, totalInputLines_le); well-formedness of the assembled "
               "matches rests on the `match` correspondence plus direct evaluation of the property's inequalities.",
)

PROPS["C08"] = dict(
    lean_modules=["LC.Props.C08"],
    regen=["unicode", "v2tables", "html"],
    theorems=["LC.V2Tok.decodeRune_width", "LC.V2Tok.decodeRune_local", "LC.V2Tok.feed_eq_decodeAll",
              "LC.V2Tok.feed_pad", "LC.V2Tok.stableTail_of_ascii_end", "LC.V2Tok.feedR_spec"],
    runs=[TOK, v2run("TestVerifC08")],
    rule="MatchFrom through readers that fragment (1 byte, mixed sizes, data delivered with EOF) vs Match on the bytes; "
         "leading-space pads that move multi-byte characters across the 1024-byte buffer boundaries (thorough: every pad "
         "0..2056); readers failing with three different errors (incl. io.ErrUnexpectedEOF) at sampled/every offset. "
         "distinct = distinct (input, fragmentation|pad|fault offset); non-trivial = the unpadded input has matches",
    trusted_base=V2_TB + ["io.ReadFull contract (fills the buffer or reports why not) — the model's reader delivers the "
                          "bytes and then its terminal error"],
    assumptions=["StableTail: the input does not END inside a multi-byte UTF-8 sequence (then the Go decoder can see "
                 "stale buffer bytes beyond the end of input; see DESIGN §6 C08)"],
    level_text="feed_eq_decodeAll proves, for inputs of every length, that the buffered read loop (as modelled with its "
               "exact constants, carry-over and stale bytes) hands the scanner the same runes as decoding the whole input; "
               "feed_pad is the pad clause; feedR_spec the fault clause. The loop model is tied to Go by the `tok` "
               "correspondence incl. an alignment stream around bytes 1016-1028 and 2040-2052.",
)
