"""Registry: per property — Lean theorem modules, theorem names to audit, harness runs."""
import os

HARN = os.path.join(os.path.dirname(os.path.dirname(os.path.abspath(__file__))), "harness")


def sets_prepare(settype, newset, elem, toelem, tag):
    def prep(out_dir, files):
        src = open(os.path.join(HARN, "overlay/sets/zz_verif_test.go.tmpl")).read()
        src = (src.replace("SETTYPE", settype).replace("NEWSET", newset).replace("TOELEM", toelem)
               .replace("ELEM", elem).replace("SETTAG", tag))
        os.makedirs(out_dir, exist_ok=True)
        p = os.path.join(out_dir, "sets_harness_test.go")
        open(p, "w").write(src)
        return [p]
    return prep


PROPS = {}

PROPS["C20"] = dict(
    lean_modules=["LC.Props.C20Heap", "LC.Props.C20Sets"],
    audit_module="LC.Props.C20",
    theorems=["LC.Heap.reachable_inv", "LC.Heap.push_spec", "LC.Heap.pop_isSome", "LC.Heap.pop_spec",
              "LC.Heap.remove_spec", "LC.Heap.setFix_spec",
              "LC.Sets.new_spec", "LC.Sets.insert_spec", "LC.Sets.delete_spec", "LC.Sets.copy_spec",
              "LC.Sets.intersect_spec", "LC.Sets.disjoint_spec", "LC.Sets.difference_spec",
              "LC.Sets.unique_spec", "LC.Sets.equal_spec", "LC.Sets.equal_nil", "LC.Sets.union_spec",
              "LC.Sets.contains_spec", "LC.Sets.len_spec", "LC.Sets.elements_spec", "LC.Sets.order_irrelevant"],
    runs=[
        dict(mod="root", pkg="stringclassifier/internal/pq", pkgname="pq",
             files=["overlay/pq/zz_verif_test.go"], run="^TestVerifC20$"),
        dict(mod="root", pkg="internal/sets", pkgname="sets", files=[], run="^TestVerifC20$",
             prepare=sets_prepare("StringSet", "NewStringSet", "string", "strconv.Itoa(n)", "ss")),
        dict(mod="root", pkg="stringclassifier/internal/sets", pkgname="sets", files=[], run="^TestVerifC20$",
             prepare=sets_prepare("IntSet", "NewIntSet", "int", "n", "is")),
    ],
    rule="op sequences on the real Queue / StringSet / IntSet: exhaustive short sequences over a small "
         "alphabet + seeded random long ones; each compared (a) with the Lean model's trace after every op "
         "and (b) with an independent reference (sorted multiset / map[int]bool). distinct = distinct op "
         "sequence; non-trivial = at least 3 operations",
    trusted_base=["hand-written Lean models LC/Model/Heap.lean (container/heap + pqHeap adapter) and "
                  "LC/Model/Sets.lean, tied to the Go code by the correspondence run (internal array / map "
                  "contents compared after every operation)",
                  "Go's container/heap is modelled from its source (up/down/Push/Pop/Remove/Fix), not verified itself"],
    assumptions=["comparator is a strict weak order (hypothesis StrictWeak of the heap theorems)",
                 "Go map semantics (unique keys, arbitrary iteration order) as modelled by Enum"],
)
