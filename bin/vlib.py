#!/usr/bin/env python3
"""Shared machinery for /verif/bin/check (stdlib only).

Per property the check does, on every run, from /repo's current working tree:
  1. (T) regenerate LC/Gen/*.lean from the source (harness/extract),
  2. lake build the property's theorem module + audit (#print axioms, grep),
  3. (C) correspondence: Go harness (real code, in-package via -overlay) writes
     records; the compiled Lean driver answers the same records; diff,
  4. property oracle verdicts from the harness (search for a failing input),
and applies the verdict protocol of DESIGN.md §2.
"""
import fcntl
import hashlib
import json
import os
import re
import shutil
import subprocess
import sys
import time

VERIF = os.path.dirname(os.path.dirname(os.path.abspath(__file__)))
REPO = os.environ.get("VERIF_REPO", "/repo")
LEAN = os.path.join(VERIF, "lean")
WORK = os.path.join(VERIF, ".work")
HARN = os.path.join(VERIF, "harness")
ALLOWED_AXIOMS = {"propext", "Classical.choice", "Quot.sound"}
FORBIDDEN = re.compile(r"\b(sorry|admit|native_decide|bv_decide|implemented_by)\b|^\s*axiom\s|\bunsafe\s|maxHeartbeats\s+0")


def go_env():
    e = dict(os.environ)
    e.update({"GOFLAGS": "-mod=mod", "GOPROXY": "off", "GOSUMDB": "off", "GOTOOLCHAIN": "local",
              "CGO_ENABLED": e.get("CGO_ENABLED", "1")})
    return e


def sh(cmd, cwd=None, env=None, timeout=None, inp=None):
    t0 = time.time()
    try:
        p = subprocess.run(cmd, cwd=cwd, env=env, timeout=timeout, input=inp,
                           stdout=subprocess.PIPE, stderr=subprocess.STDOUT, text=True, errors="replace")
        return p.returncode, p.stdout, time.time() - t0
    except subprocess.TimeoutExpired as ex:
        out = ex.stdout if isinstance(ex.stdout, str) else (ex.stdout or b"").decode("utf8", "replace")
        return 124, (out or "") + "\n[timeout]", time.time() - t0


class Lock:
    def __init__(self, name):
        os.makedirs(WORK, exist_ok=True)
        self.path = os.path.join(WORK, name + ".lock")

    def __enter__(self):
        self.f = open(self.path, "w")
        fcntl.flock(self.f, fcntl.LOCK_EX)
        return self

    def __exit__(self, *a):
        fcntl.flock(self.f, fcntl.LOCK_UN)
        self.f.close()


# ----------------------------------------------------------------------------
# Lean side

def lake_build(targets, timeout=3000):
    with Lock("lake"):
        return sh(["lake", "build"] + targets, cwd=LEAN, timeout=timeout)


def strip_comments(src):
    """remove /- -/ (nested) and -- comments and string literals, for the forbidden-token grep"""
    out = []
    i, depth, n = 0, 0, len(src)
    while i < n:
        if src.startswith("/-", i):
            depth += 1
            i += 2
        elif depth and src.startswith("-/", i):
            depth -= 1
            i += 2
        elif depth:
            i += 1
        elif src.startswith("--", i):
            j = src.find("\n", i)
            i = n if j < 0 else j
        elif src[i] == '"':
            j = i + 1
            while j < n and src[j] != '"':
                j += 2 if src[j] == "\\" else 1
            i = j + 1
        else:
            out.append(src[i])
            i += 1
    return "".join(out)


def lean_deps(module, seen=None):
    """transitive project-local imports of a module (LC.* / Driver.*) as file paths"""
    seen = seen if seen is not None else {}
    path = os.path.join(LEAN, module.replace(".", "/") + ".lean")
    if module in seen or not os.path.exists(path):
        return seen
    seen[module] = path
    for m in re.findall(r"^import\s+((?:LC|Driver)\.[\w.]+)", open(path).read(), re.M):
        lean_deps(m, seen)
    return seen


def grep_forbidden(modules):
    hits = []
    for m in modules:
        for mod, path in lean_deps(m).items():
            for ln, line in enumerate(strip_comments(open(path).read()).split("\n"), 1):
                if FORBIDDEN.search(line):
                    hits.append(f"{mod}: {line.strip()[:120]}")
    return sorted(set(hits))


def audit(prop_modules, theorems, name):
    """#print axioms for every listed theorem; returns (ok, per-theorem axioms, raw, problems)"""
    os.makedirs(os.path.join(LEAN, "LC", "Audit"), exist_ok=True)
    path = os.path.join(LEAN, "LC", "Audit", name + ".lean")
    body = "".join(f"import {m}\n" for m in prop_modules) + "".join(f"#print axioms {t}\n" for t in theorems)
    if not os.path.exists(path) or open(path).read() != body:
        open(path, "w").write(body)
    with Lock("lake"):
        rc, out, _ = sh(["lake", "env", "lean", path], cwd=LEAN, timeout=900)
    per = {}
    problems = []
    for m in re.finditer(r"'([^']+)' depends on axioms: \[([^\]]*)\]", out, re.S):
        ax = [a.strip() for a in m.group(2).replace("\n", " ").split(",") if a.strip()]
        per[m.group(1)] = ax
        bad = [a for a in ax if a not in ALLOWED_AXIOMS]
        if bad:
            problems.append(f"{m.group(1)} uses axioms {bad}")
    for m in re.finditer(r"'([^']+)' does not depend on any axioms", out):
        per[m.group(1)] = []
    for t in theorems:
        if t not in per:
            problems.append(f"no axiom report for {t}")
    if rc != 0:
        problems.append("audit file failed to elaborate: " + out.strip()[-400:])
    return (not problems), per, out, problems


def count_obligations(modules):
    """theorems/lemmas/examples in the property module(s) and their local imports"""
    n_prop, n_all = 0, 0
    for m in modules:
        for mod, path in lean_deps(m).items():
            src = strip_comments(open(path).read())
            c = len(re.findall(r"^\s*(?:private\s+|protected\s+)?(?:theorem|lemma|example)\b", src, re.M))
            n_all += c
            if mod == m:
                n_prop += c
    return n_prop, n_all


def run_driver(in_path, out_path, timeout=3000):
    exe = os.path.join(LEAN, ".lake", "build", "bin", "lcdriver")
    with open(in_path, "rb") as fi, open(out_path, "wb") as fo:
        t0 = time.time()
        try:
            p = subprocess.run([exe], stdin=fi, stdout=fo, stderr=subprocess.PIPE, timeout=timeout)
            return p.returncode, p.stderr.decode("utf8", "replace"), time.time() - t0
        except subprocess.TimeoutExpired:
            return 124, "driver timeout", time.time() - t0


# ----------------------------------------------------------------------------
# Go side

MODS = {"root": REPO, "v2": os.path.join(REPO, "v2")}


def modfile(mod):
    """private copy of go.mod/go.sum so that -mod=mod never rewrites /repo's files"""
    d = os.path.join(WORK, "mod")
    os.makedirs(d, exist_ok=True)
    src = MODS[mod]
    dst = os.path.join(d, mod + ".mod")
    shutil.copyfile(os.path.join(src, "go.mod"), dst)
    if os.path.exists(os.path.join(src, "go.sum")):
        shutil.copyfile(os.path.join(src, "go.sum"), os.path.join(d, mod + ".sum"))
    return dst


def render_util(pkgname, dest):
    src = open(os.path.join(HARN, "util_test.go.tmpl")).read().replace("PKGNAME", pkgname)
    open(dest, "w").write(src)


def go_test(mod, pkg_rel, pkgname, harness_files, run, out_dir, env_extra=None, timeout=1200, race=False,
            replace=None, extra_args=None):
    """Compile /repo's CURRENT working tree of package `pkg_rel` (relative to the module root) together
    with the harness test files (injected with -overlay, build tag verif) and run test `run`."""
    os.makedirs(out_dir, exist_ok=True)
    for f in ("in.txt", "impl.txt", "oracle.jsonl", "model.txt", "attempt.jsonl"):
        p = os.path.join(out_dir, f)
        if os.path.exists(p):
            os.remove(p)
    pkg_dir = os.path.normpath(os.path.join(MODS[mod], pkg_rel))
    ov = {}
    util = os.path.join(out_dir, "zz_verif_util_test.go")
    render_util(pkgname, util)
    ov[os.path.join(pkg_dir, "zz_verif_util_test.go")] = util
    for i, hf in enumerate(harness_files):
        if hf.endswith(".tmpl"):  # shared helper: rendered for this package
            rendered = os.path.join(out_dir, f"zz_verif_tmpl{i}_test.go")
            open(rendered, "w").write(open(hf).read().replace("PKGNAME", pkgname))
            hf = rendered
        ov[os.path.join(pkg_dir, f"zz_verif_{i}_test.go")] = hf
    for k, v in (replace or {}).items():
        ov[k] = v
    ovp = os.path.join(out_dir, "overlay.json")
    json.dump({"Replace": ov}, open(ovp, "w"), indent=1)
    env = go_env()
    env["VERIF_OUT"] = out_dir
    env.setdefault("VERIF_SEED", "1")
    env.update(env_extra or {})
    cmd = ["go", "test", "-tags", "verif", "-overlay", ovp, "-modfile", modfile(mod), "-count=1", "-vet=off",
           "-run", run, "-timeout", f"{int(timeout)}s"]
    if race:
        cmd.append("-race")
    cmd += (extra_args or [])
    cmd.append(".")
    rc, out, wall = sh(cmd, cwd=pkg_dir, env=env, timeout=timeout + 60)
    return rc, out, wall


def read_kv(path):
    d = {}
    order = []
    if not os.path.exists(path):
        return d, order
    with open(path, errors="replace") as f:
        for line in f:
            line = line.rstrip("\n")
            if not line:
                continue
            k, _, v = line.partition("\t")
            d[k] = v
            order.append(k)
    return d, order


def read_inputs(path):
    d = {}
    if not os.path.exists(path):
        return d
    with open(path, errors="replace") as f:
        for line in f:
            p = line.rstrip("\n").split("\t")
            if len(p) >= 2:
                d[p[1]] = line.rstrip("\n")
    return d


def read_oracle(path):
    verdicts, stats = [], []
    if not os.path.exists(path):
        return verdicts, stats
    with open(path, errors="replace") as f:
        for line in f:
            try:
                j = json.loads(line)
            except Exception:
                continue
            (verdicts if j.get("k") == "oracle" else stats).append(j)
    return verdicts, stats


def sha(s):
    return hashlib.sha1(s.encode("utf8", "replace")).hexdigest()[:16]
