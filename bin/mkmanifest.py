#!/usr/bin/env python3
"""Writes /verif/MANIFEST.json from bin/props.py (claimed checks) and properties.jsonl."""
import json, os, sys
sys.path.insert(0, os.path.dirname(os.path.abspath(__file__)))
from props import PROPS
V = os.path.dirname(os.path.dirname(os.path.abspath(__file__)))
ids = [json.loads(l)["id"] for l in open(os.path.join(V, "properties.jsonl"))]
checks, na = [], []
for i in ids:
    if i in PROPS and PROPS[i].get("claimed", True):
        s = PROPS[i]
        checks.append({
            "property_id": i,
            "quick_cmd": f"bin/check {i} --tier quick",
            "thorough_cmd": f"bin/check {i} --tier thorough",
            "evidence_file": f"/verif/evidence/{i}.json",
            "replay_cmd_template": f"bin/check {i} --replay {{path}}",
            "engine": "lean4-proof+correspondence",
            "level_claimed": {"category": "proof", "text": s.get("level_text", ""), "design_ref": f"DESIGN.md §6 {i}"},
            "level_note": s.get("level_note", "; ".join(s.get("trusted_base", []) + s.get("assumptions", []))),
            "technique": s.get("technique", "Lean 4 theorems about a hand-written model + differential correspondence of the model's executable definitions against the Go code + property oracle on the implementation"),
        })
    else:
        na.append({"property_id": i, "reason": PROPS.get(i, {}).get("na_reason", "check not built yet in this round; no claim is made")})
m = {
    "version": 1,
    "setup_cmd": "bin/setup",
    "hooks": {"guard": "verif", "enable": "go test -tags verif -overlay <harness files> (in-package _test.go files injected by overlay; no source hooks in /repo)",
              "baseline_off_cmd": json.load(open("/root/.vp/BASELINE.json"))["cmd"], "source_commits": [], "add_only": True},
    "engines": [{"name": "lean4-proof+correspondence", "path": "/verif/bin/check", "serves_properties": [c["property_id"] for c in checks],
                 "kind_free_text": "Lean 4 model + theorems (lake build, #print axioms audit), regenerated tables, Go differential harness vs compiled Lean driver, property oracle"}],
    "checks": checks,
    "not_applicable": na,
    "notes": "See DESIGN.md. Known findings: known_findings.json.",
}
json.dump(m, open(os.path.join(V, "MANIFEST.json"), "w"), indent=1)
print(len(checks), "claimed;", len(na), "not claimed")
