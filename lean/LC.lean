-- Root of the LC library: every theorem module that must check.
import LC.Props.C02
import LC.Props.C03Lines
import LC.Props.C20
