/- Helper lemmas for LC/Props/C03WF.lean. -/
import LC.Model.V2Match

namespace LC.V2Match.WFP
open LC.V2Match LC.Score

/-! ### generic: sortBy is a permutation (membership), foldlM over Except -/

theorem mem_insertSorted {α : Type} (less : α → α → Bool) (x a : α) (l : List α) :
    a ∈ insertSorted less x l ↔ a = x ∨ a ∈ l := by
  induction l with
  | nil => simp [insertSorted]
  | cons y ys ih =>
    unfold insertSorted
    split
    · simp
    · simp only [List.mem_cons, ih]
      constructor
      · rintro (h | h | h)
        · exact Or.inr (Or.inl h)
        · exact Or.inl h
        · exact Or.inr (Or.inr h)
      · rintro (h | h | h)
        · exact Or.inr (Or.inl h)
        · exact Or.inl h
        · exact Or.inr (Or.inr h)

theorem sortBy_cons {α : Type} (less : α → α → Bool) (x : α) (l : List α) :
    sortBy less (x :: l) = insertSorted less x (sortBy less l) := rfl

theorem mem_sortBy {α : Type} (less : α → α → Bool) (a : α) (l : List α) :
    a ∈ sortBy less l ↔ a ∈ l := by
  induction l with
  | nil => simp [sortBy]
  | cons y ys ih => rw [sortBy_cons, mem_insertSorted, ih]; simp

theorem foldlM_inv {ε α β : Type} (f : β → α → Except ε β) (Inv : β → Prop) :
    ∀ (l : List α) (init r : β),
      (∀ acc x acc', x ∈ l → Inv acc → f acc x = .ok acc' → Inv acc') →
      Inv init → l.foldlM f init = .ok r → Inv r := by
  intro l
  induction l with
  | nil =>
    intro init r _ hi h
    have : init = r := by simpa [List.foldlM_nil, pure, Except.pure] using h
    exact this ▸ hi
  | cons x xs ih =>
    intro init r hstep hi h
    rw [List.foldlM_cons] at h
    cases hfx : f init x with
    | error e => rw [hfx] at h; simp [bind, Except.bind] at h
    | ok b =>
      rw [hfx] at h
      simp only [bind, Except.bind] at h
      exact ih b r (fun acc y acc' hy => hstep acc y acc' (List.mem_cons_of_mem _ hy))
        (hstep init x b List.mem_cons_self hi hfx) h

theorem foldlM_ne {ε α β : Type} (f : β → α → Except ε β) (Inv : β → Prop) (P : ε → Prop) :
    ∀ (l : List α) (init : β),
      (∀ acc x, x ∈ l → Inv acc → (∀ e, f acc x = .error e → ¬ P e) ∧
        (∀ acc', f acc x = .ok acc' → Inv acc')) →
      Inv init → ∀ e, l.foldlM f init = .error e → ¬ P e := by
  intro l
  induction l with
  | nil =>
    intro init _ _ e h
    simp [List.foldlM_nil, pure, Except.pure] at h
  | cons x xs ih =>
    intro init hstep hi e h
    rw [List.foldlM_cons] at h
    cases hfx : f init x with
    | error e' =>
      rw [hfx] at h
      simp only [bind, Except.bind] at h
      cases h
      exact (hstep init x List.mem_cons_self hi).1 _ hfx
    | ok b =>
      rw [hfx] at h
      simp only [bind, Except.bind] at h
      exact ih b (fun acc y hy => hstep acc y (List.mem_cons_of_mem _ hy))
        ((hstep init x List.mem_cons_self hi).2 b hfx) e h

/-! ### docCandidates: what is appended -/

/-- the per-document part of `WFMatch` -/
def DocOK {C : Type} (N : NumEnv C) (target : Array IdTok) (p : PDoc) (m : Match C) : Prop :=
  N.geThr m.conf = true ∧ 0 ≤ m.startTok ∧ m.startTok ≤ m.endTok ∧ m.endTok < (target.size : Int) ∧
    (target[m.startTok.toNat]?).map (·.line) = some m.startLine ∧
    (target[m.endTok.toNat]?).map (·.line) = some m.endLine ∧
    p.doc.cat = m.matchType ∧ p.doc.name = m.name ∧ p.doc.variant = m.variant

theorem docCandidates_ok {C : Type} (N : NumEnv C) (wordOf : Nat → Text) (isDigitRune : Nat → Bool)
    (decode : Text → List Nat) (induced : List (Text × List Text))
    (diffOf : KDoc → Nat → Nat → Option (List (Diff Nat)))
    (target : Array IdTok) (th : List Nat) (qt : Nat) (p : PDoc) (ms : List (Match C))
    (h : docCandidates N wordOf isDigitRune decode induced diffOf target th qt p = .ok ms) :
    ∀ m ∈ ms, DocOK N target p m := by
  unfold docCandidates at h
  split at h
  · cases h
  · rename_i fr _
    refine foldlM_inv _ (fun acc => ∀ m ∈ acc, DocOK N target p m) fr [] ms ?_ (by simp) h
    intro acc x acc' _ hacc hf
    simp only at hf
    split at hf
    · cases hf
    · split at hf
      · rename_i hg
        split at hf
        · rename_i hb
          cases hf
          intro m hm
          rcases List.mem_append.1 hm with hm | hm
          · exact hacc m hm
          · simp only [List.mem_singleton] at hm
            subst hm
            obtain ⟨h1, h2, h3, h4⟩ := hb
            refine ⟨hg.1, h1, ?_, ?_, ?_, ?_, rfl, rfl, rfl⟩
            · have := hg.2; simp only; omega
            · simp only; omega
            · simp only [Array.getElem?_eq_getElem h2, Option.map_some]
            · simp only [Array.getElem?_eq_getElem h4, Option.map_some]
        · cases hf
      · cases hf
        exact hacc

/-! ### the shape of `matchModel` -/

def firstPass {C : Type} (N : NumEnv C) (cntT : Nat → Nat) (docs : List PDoc) : List PDoc :=
  docs.filter (fun p =>
    let s := tokenSimWith cntT p.cnt p.ks
    N.simGE s.1 s.2)

def crMatches {C : Type} (N : NumEnv C) (copyrights : List Nat) : List (Match C) :=
  copyrights.map (fun l =>
      { name := "Copyright", conf := N.confOne, matchType := "Copyright", variant := "",
        startLine := l, endLine := l, startTok := 0, endTok := 0 })

def candFold {C : Type} (N : NumEnv C) (crc : Text → Nat) (wordOf : Nat → Text)
    (isDigitRune : Nat → Bool) (decode : Text → List Nat) (induced : List (Text × List Text))
    (diffOf : KDoc → Nat → Nat → Option (List (Diff Nat)))
    (cntT : Nat → Nat) (docs : List PDoc) (target : Array IdTok) (copyrights : List Nat) :
    Except (Outcome C) (List (Match C)) :=
  let tids := target.toList.map (·.id)
  let qt := effQ N.q tids.length
  let th := hashes crc wordOf qt tids
  (firstPass N cntT docs).foldlM (fun (acc : List (Match C)) p =>
      match docCandidates N wordOf isDigitRune decode induced diffOf target th qt p with
      | Except.ok ms => Except.ok (acc ++ ms)
      | Except.error e => Except.error e) (crMatches N copyrights)

def outOf {C : Type} (N : NumEnv C) (cands : List (Match C)) : List (Match C) :=
  let sorted := sortBy (matchLess N) cands
  (sorted.zip (retainPass N sorted)).filterMap (fun (p : Match C × Bool) => if p.2 then some p.1 else none)

theorem matchModel_eq {C : Type} (N : NumEnv C) (crc : Text → Nat) (wordOf : Nat → Text)
    (isDigitRune : Nat → Bool) (decode : Text → List Nat) (induced : List (Text × List Text))
    (diffOf : KDoc → Nat → Nat → Option (List (Diff Nat)))
    (cntT : Nat → Nat) (docs : List PDoc) (target : Array IdTok) (copyrights : List Nat) :
    matchModel N crc wordOf isDigitRune decode induced diffOf cntT docs target copyrights =
      if firstPass N cntT docs = [] then .ok { ms := [], totalInputLines := 0 }
      else match candFold N crc wordOf isDigitRune decode induced diffOf cntT docs target copyrights with
        | .error e => e
        | .ok cands =>
          match target.back? with
          | none => .ok { ms := outOf N cands, totalInputLines := 0 }
          | some t => .ok { ms := outOf N cands, totalInputLines := t.line } := by
  rfl

theorem candFold_ok {C : Type} (N : NumEnv C) (crc : Text → Nat) (wordOf : Nat → Text)
    (isDigitRune : Nat → Bool) (decode : Text → List Nat) (induced : List (Text × List Text))
    (diffOf : KDoc → Nat → Nat → Option (List (Diff Nat)))
    (cntT : Nat → Nat) (docs : List PDoc) (target : Array IdTok) (crs : List Nat)
    (cands : List (Match C))
    (h : candFold N crc wordOf isDigitRune decode induced diffOf cntT docs target crs = .ok cands) :
    ∀ m ∈ cands, WFMatch N docs target crs m := by
  unfold candFold at h
  refine foldlM_inv _ (fun acc => ∀ m ∈ acc, WFMatch N docs target crs m) _ _ _ ?_ ?_ h
  · intro acc p acc' hp hacc hf
    split at hf
    · rename_i ms hdc
      cases hf
      intro m hm
      rcases List.mem_append.1 hm with hm | hm
      · exact hacc m hm
      · have hd := docCandidates_ok _ _ _ _ _ _ _ _ _ _ _ hdc m hm
        obtain ⟨h1, h2, h3, h4, h5, h6, h7, h8, h9⟩ := hd
        have hpd : p ∈ docs := (List.mem_filter.1 hp).1
        exact Or.inr ⟨h1, h2, h3, h4, h5, h6, p, hpd, h7, h8, h9⟩
    · cases hf
  · intro m hm
    simp only [crMatches, List.mem_map] at hm
    obtain ⟨l, hl, rfl⟩ := hm
    exact Or.inl ⟨rfl, rfl, rfl, rfl, hl⟩

theorem docCandidates_err_not_ok {C : Type} (N : NumEnv C) (wordOf : Nat → Text) (isDigitRune : Nat → Bool)
    (decode : Text → List Nat) (induced : List (Text × List Text))
    (diffOf : KDoc → Nat → Nat → Option (List (Diff Nat)))
    (target : Array IdTok) (th : List Nat) (qt : Nat) (p : PDoc) (e : Outcome C)
    (h : docCandidates N wordOf isDigitRune decode induced diffOf target th qt p = .error e) :
    ¬ ∃ r, e = .ok r := by
  unfold docCandidates at h
  split at h
  · cases h; rintro ⟨r, hr⟩; cases hr
  · rename_i fr _
    refine foldlM_ne _ (fun _ => True) (fun e => ∃ r, e = Outcome.ok r) fr [] ?_ trivial e h
    intro acc x _ _
    refine ⟨?_, fun _ _ => trivial⟩
    intro e' hf
    simp only at hf
    split at hf
    · cases hf; rintro ⟨r, hr⟩; cases hr
    · split at hf
      · split at hf
        · cases hf
        · cases hf; rintro ⟨r, hr⟩; cases hr
      · cases hf

theorem candFold_err_not_ok {C : Type} (N : NumEnv C) (crc : Text → Nat) (wordOf : Nat → Text)
    (isDigitRune : Nat → Bool) (decode : Text → List Nat) (induced : List (Text × List Text))
    (diffOf : KDoc → Nat → Nat → Option (List (Diff Nat)))
    (cntT : Nat → Nat) (docs : List PDoc) (target : Array IdTok) (crs : List Nat)
    (e : Outcome C)
    (h : candFold N crc wordOf isDigitRune decode induced diffOf cntT docs target crs = .error e) :
    ¬ ∃ r, e = .ok r := by
  unfold candFold at h
  refine foldlM_ne _ (fun _ => True) (fun e => ∃ r, e = Outcome.ok r) _ _ ?_ trivial e h
  intro acc p _ _
  refine ⟨?_, fun _ _ => trivial⟩
  intro e' hf
  split at hf
  · cases hf
  · rename_i e'' hdc
    cases hf
    exact docCandidates_err_not_ok _ _ _ _ _ _ _ _ _ _ _ hdc

theorem zip_filterMap_sublist {α : Type} :
    ∀ (l : List α) (bs : List Bool),
      ((l.zip bs).filterMap (fun (p : α × Bool) => if p.2 then some p.1 else none)).Sublist l := by
  intro l
  induction l with
  | nil => intro bs; simp
  | cons x xs ih =>
    intro bs
    cases bs with
    | nil => simp
    | cons b bs =>
      rw [List.zip_cons_cons, List.filterMap_cons]
      cases b with
      | true => simpa using ih bs
      | false =>
        simp only [Bool.false_eq_true, if_false]
        exact List.Sublist.cons _ (ih bs)

theorem outOf_sublist {C : Type} (N : NumEnv C) (cands : List (Match C)) :
    (outOf N cands).Sublist (sortBy (matchLess N) cands) :=
  zip_filterMap_sublist _ _

theorem mem_outOf {C : Type} (N : NumEnv C) (cands : List (Match C)) (m : Match C)
    (h : m ∈ outOf N cands) : m ∈ cands :=
  (mem_sortBy _ _ _).1 ((outOf_sublist N cands).subset h)

/-- the possible `.ok` results of the model -/
theorem matchModel_ok {C : Type} (N : NumEnv C) (crc : Text → Nat) (wordOf : Nat → Text)
    (isDigitRune : Nat → Bool) (decode : Text → List Nat) (induced : List (Text × List Text))
    (diffOf : KDoc → Nat → Nat → Option (List (Diff Nat)))
    (cntT : Nat → Nat) (docs : List PDoc) (target : Array IdTok) (crs : List Nat) (r : Results C)
    (h : matchModel N crc wordOf isDigitRune decode induced diffOf cntT docs target crs = .ok r) :
    (r.ms = [] ∧ r.totalInputLines = 0) ∨
    ∃ cands, candFold N crc wordOf isDigitRune decode induced diffOf cntT docs target crs = .ok cands ∧
      r.ms = outOf N cands ∧ r.totalInputLines = ((target.back?).map (·.line)).getD 0 := by
  rw [matchModel_eq] at h
  split at h
  · cases h; exact Or.inl ⟨rfl, rfl⟩
  · split at h
    · rename_i e he
      subst h
      exact absurd ⟨r, rfl⟩ (candFold_err_not_ok _ _ _ _ _ _ _ _ _ _ _ _ he)
    · rename_i cands hc
      refine Or.inr ⟨cands, hc, ?_⟩
      split at h <;> rename_i hb <;> cases h <;> simp [hb]

/-! ### order by confidence -/

theorem gt_negtrans {C : Type} {N : NumEnv C} (laws : NumLaws N) (x y z : C)
    (h1 : N.gt y x = false) (h2 : N.gt z y = false) : N.gt z x = false := by
  cases hzx : N.gt z x with
  | false => rfl
  | true =>
    cases hxy : N.gt x y with
    | true => rw [laws.gt_trans z x y hzx hxy] at h2; cases h2
    | false =>
      have := laws.gt_tri x y hxy h1
      subst this
      rw [hzx] at h2; cases h2

theorem matchLess_true {C : Type} {N : NumEnv C} (laws : NumLaws N) (x y : Match C)
    (h : matchLess N x y = true) : N.gt y.conf x.conf = false := by
  cases hyx : N.gt y.conf x.conf with
  | false => rfl
  | true =>
    unfold matchLess at h
    rw [if_pos (Or.inr hyx)] at h
    have := laws.gt_trans _ _ _ h hyx
    rw [laws.gt_irrefl] at this
    cases this

theorem matchLess_false {C : Type} {N : NumEnv C} (x y : Match C)
    (h : matchLess N x y = false) : N.gt x.conf y.conf = false := by
  cases hxy : N.gt x.conf y.conf with
  | false => rfl
  | true =>
    unfold matchLess at h
    rw [if_pos (Or.inl hxy)] at h
    rw [h] at hxy; cases hxy

theorem insertSorted_pairwise {C : Type} {N : NumEnv C} (laws : NumLaws N) (x : Match C) :
    ∀ l : List (Match C), l.Pairwise (fun a b => N.gt b.conf a.conf = false) →
      (insertSorted (matchLess N) x l).Pairwise (fun a b => N.gt b.conf a.conf = false) := by
  intro l
  induction l with
  | nil => intro _; simp [insertSorted]
  | cons y ys ih =>
    intro hp
    rw [List.pairwise_cons] at hp
    unfold insertSorted
    split
    · rename_i hl
      have hyx := matchLess_true laws x y hl
      refine List.pairwise_cons.2 ⟨?_, List.pairwise_cons.2 hp⟩
      intro z hz
      rcases List.mem_cons.1 hz with rfl | hz
      · exact hyx
      · exact gt_negtrans laws _ _ _ hyx (hp.1 z hz)
    · rename_i hl
      have hl' : matchLess N x y = false := by simpa using hl
      have hxy := matchLess_false x y hl'
      refine List.pairwise_cons.2 ⟨?_, ih hp.2⟩
      intro z hz
      rcases (mem_insertSorted _ _ _ _).1 hz with rfl | hz
      · exact hxy
      · exact hp.1 z hz

theorem sortBy_pairwise {C : Type} {N : NumEnv C} (laws : NumLaws N) (l : List (Match C)) :
    (sortBy (matchLess N) l).Pairwise (fun a b => N.gt b.conf a.conf = false) := by
  induction l with
  | nil => simp [sortBy]
  | cons x xs ih => rw [sortBy_cons]; exact insertSorted_pairwise laws x _ ih

/-! ### prepare -/

theorem effQ_le (q len : Nat) : effQ q len ≤ len := by
  unfold effQ; split <;> omega

theorem hashes_length (crc : List UInt8 → Nat) (wordOf : Nat → List UInt8) (q : Nat) (ids : List Nat) :
    (hashes crc wordOf q ids).length = if q = 0 then 0 else ids.length + 1 - q := by
  unfold hashes; split <;> simp

theorem mem_lookupIn (sh : List Nat) (cs o : Nat) (h : o ∈ lookupIn sh cs) : o < sh.length := by
  simp only [lookupIn, List.mem_map, List.mem_filter] at h
  obtain ⟨⟨x, i⟩, ⟨hm, _⟩, rfl⟩ := h
  rw [List.mem_zipIdx_iff_getElem?] at hm
  have := (List.getElem?_eq_some_iff.1 hm).1
  exact this

/-! ### no panic: range invariant -/

theorem foldl_inv {α β : Type} (f : β → α → β) (Inv : β → Prop) :
    ∀ (l : List α) (init : β), Inv init → (∀ acc x, x ∈ l → Inv acc → Inv (f acc x)) →
      Inv (l.foldl f init) := by
  intro l
  induction l with
  | nil => intro init hi _; exact hi
  | cons x xs ih =>
    intro init hi hstep
    rw [List.foldl_cons]
    exact ih _ (hstep init x List.mem_cons_self hi)
      (fun acc y hy => hstep acc y (List.mem_cons_of_mem _ hy))

/-- every matched range lies inside the target and starts at a non-negative source offset -/
def MRInv (size : Nat) (m : MR) : Prop :=
  0 ≤ m.srcStart ∧ 0 ≤ m.tgtStart ∧ m.tgtStart < (size : Int) ∧ m.tgtEnd ≤ (size : Int)

theorem omUpdate_inv (P : MR → Prop) (k : Int) (f : Option (List MR) → List MR)
    (hf : ∀ cur, (∀ l, cur = some l → ∀ m ∈ l, P m) → ∀ m ∈ f cur, P m) :
    ∀ om : List (Int × List MR), (∀ p ∈ om, ∀ m ∈ p.2, P m) →
      ∀ p ∈ omUpdate om k f, ∀ m ∈ p.2, P m := by
  intro om
  induction om with
  | nil =>
    intro _ p hp m hm
    simp only [omUpdate, List.mem_singleton] at hp
    subst hp
    exact hf none (by intro l h; cases h) m hm
  | cons kv rest ih =>
    intro hom p hp m hm
    obtain ⟨k', v⟩ := kv
    unfold omUpdate at hp
    split at hp
    · rcases List.mem_cons.1 hp with rfl | hp
      · refine hf (some v) ?_ m hm
        intro l hl; cases hl
        exact hom (k', v) List.mem_cons_self
      · exact hom p (List.mem_cons_of_mem _ hp) m hm
    · rcases List.mem_cons.1 hp with rfl | hp
      · exact hom (k', v) List.mem_cons_self m hm
      · exact ih (fun p hp => hom p (List.mem_cons_of_mem _ hp)) p hp m hm

theorem joinRangesWith_inv (lookup : Nat → List Nat) (qs : Nat) (th : List Nat) (qt size : Nat)
    (hth : ∀ i, i < th.length → i + qt ≤ size ∧ i < size) :
    ∀ p ∈ joinRangesWith lookup qs th qt, ∀ m ∈ p.2, MRInv size m := by
  unfold joinRangesWith
  simp only []
  refine foldl_inv _ (fun (om : List (Int × List MR)) => ∀ p ∈ om, ∀ m ∈ p.2, MRInv size m) _ _ ?_ ?_
  · intro p hp; cases hp
  · intro om tv htv hom
    simp only [List.mem_map] at htv
    obtain ⟨⟨x, i⟩, hxi, rfl⟩ := htv
    rw [List.mem_zipIdx_iff_getElem?] at hxi
    have hi : i < th.length := (List.getElem?_eq_some_iff.1 hxi).1
    obtain ⟨hi1, hi2⟩ := hth i hi
    refine foldl_inv _ (fun (om : List (Int × List MR)) => ∀ p ∈ om, ∀ m ∈ p.2, MRInv size m) _ _ ?_ ?_
    · exact hom
    · intro om' sv _ hom'
      apply omUpdate_inv (MRInv size) _ _ _ om' hom'
      have hnew : MRInv size (MR.mk (sv : Int) ((sv : Int) + qs) (i : Int) ((i : Int) + qt) 0) := by
        refine ⟨?_, ?_, ?_, ?_⟩ <;> simp only <;> omega
      intro cur hcur m hm
      split at hm
      · rename_i l
        have hl := hcur l rfl
        split at hm
        · rename_i last hlast
          have hlastmem : last ∈ l := List.mem_of_getLast? hlast
          split at hm
          · rcases List.mem_append.1 hm with hm | hm
            · exact hl m (List.dropLast_subset l hm)
            · simp only [List.mem_singleton] at hm
              subst hm
              obtain ⟨h1, h2, h3, h4⟩ := hl last hlastmem
              refine ⟨h1, h2, h3, ?_⟩
              simp only; omega
          · rcases List.mem_append.1 hm with hm | hm
            · exact hl m hm
            · simp only [List.mem_singleton] at hm
              subst hm; exact hnew
        · simp only [List.mem_singleton] at hm
          subst hm; exact hnew
      · simp only [List.mem_singleton] at hm
        subst hm; exact hnew

theorem targetMatchedRangesWith_inv (lookup : Nat → List Nat) (qs : Nat) (th : List Nat) (qt size : Nat)
    (hth : ∀ i, i < th.length → i + qt ≤ size ∧ i < size) :
    ∀ m ∈ targetMatchedRangesWith lookup qs th qt, MRInv size m := by
  intro m hm
  unfold targetMatchedRangesWith at hm
  simp only [mem_sortBy, List.mem_flatMap, List.mem_map] at hm
  obtain ⟨p, hp, m', hm', rfl⟩ := hm
  exact joinRangesWith_inv lookup qs th qt size hth p hp m' hm'

theorem absorb_inv (size : Nat) (em : Int) (m : MR) (hm : MRInv size m) :
    ∀ cs : List Claim, (∀ c ∈ cs, MRInv size c.m) → ∀ c ∈ (absorb em m cs).1, MRInv size c.m := by
  intro cs
  induction cs with
  | nil => intro _ c hc; simp [absorb] at hc
  | cons c0 cs ih =>
    intro hcs c hc
    have h0 := hcs c0 List.mem_cons_self
    have hrest : ∀ c ∈ cs, MRInv size c.m := fun c hc => hcs c (List.mem_cons_of_mem _ hc)
    obtain ⟨a1, a2, a3, a4⟩ := h0
    obtain ⟨b1, b2, b3, b4⟩ := hm
    have htail : ∀ c ∈ c0 :: (absorb em m cs).1, MRInv size c.m := by
      intro c hc
      rcases List.mem_cons.1 hc with rfl | hc
      · exact ⟨a1, a2, a3, a4⟩
      · exact ih hrest c hc
    unfold absorb at hc
    simp only at hc
    split at hc
    · split at hc
      · rcases List.mem_cons.1 hc with rfl | hc
        · exact ⟨a1, a2, a3, a4⟩
        · exact hrest c hc
      · split at hc
        · rcases List.mem_cons.1 hc with rfl | hc
          · exact ⟨b1, b2, b3, a4⟩
          · exact hrest c hc
        · split at hc
          · rcases List.mem_cons.1 hc with rfl | hc
            · exact ⟨a1, a2, a3, b4⟩
            · exact hrest c hc
          · exact htail c hc
    · exact htail c hc

theorem mem_zipIdx_fst {α : Type} (l : List α) (p : α × Nat) (h : p ∈ l.zipIdx) : p.1 ∈ l := by
  obtain ⟨x, i⟩ := p
  rw [List.mem_zipIdx_iff_getElem?] at h
  exact List.mem_of_getElem? h

theorem fuseRanges_some {C : Type} (N : NumEnv C) (matched : List MR) (sz : Nat) (runs : List (Nat × Nat))
    (size : Nat) (hm : ∀ m ∈ matched, MRInv size m) :
    ∃ fr, fuseRanges N matched sz runs size = some fr ∧ ∀ m ∈ fr, MRInv size m := by
  unfold fuseRanges
  simp only []
  generalize hres : List.foldl _ (some []) matched.zipIdx = res
  have hinv : ∃ cl, res = some cl ∧ ∀ c ∈ cl, MRInv size c.m := by
    rw [← hres]
    refine foldl_inv _ (fun (st : Option (List Claim)) => ∃ cl, st = some cl ∧ ∀ c ∈ cl, MRInv size c.m)
      _ _ ⟨[], rfl, by simp⟩ ?_
    rintro st mi hmi ⟨cl, rfl, hcl⟩
    have hmi1 := hm mi.1 (mem_zipIdx_fst _ _ hmi)
    obtain ⟨b1, b2, b3, b4⟩ := hmi1
    simp only []
    split
    · exact ⟨cl, rfl, hcl⟩
    · rename_i off hoff
      have hofflt : off < (size : Int) := by
        split at hoff
        · split at hoff
          · cases hoff; omega
          · cases hoff
        · cases hoff; omega
      rw [if_neg (by omega)]
      split
      · exact ⟨cl, rfl, hcl⟩
      · have habs := absorb_inv size (N.errMargin sz) mi.1 ⟨b1, b2, b3, b4⟩ cl hcl
        split
        · exact ⟨_, rfl, habs⟩
        · split
          · refine ⟨_, rfl, ?_⟩
            intro c hc
            rcases List.mem_append.1 hc with hc | hc
            · exact habs c hc
            · simp only [List.mem_singleton] at hc
              subst hc; exact ⟨b1, b2, b3, b4⟩
          · exact ⟨_, rfl, habs⟩
  obtain ⟨cl, rfl, hcl⟩ := hinv
  refine ⟨_, rfl, ?_⟩
  intro m hm'
  simp only [mem_sortBy, List.mem_map] at hm'
  obtain ⟨c, hc, rfl⟩ := hm'
  exact hcl c hc

theorem findPotentialMatches_some {C : Type} (N : NumEnv C) (lookup : Nat → List Nat) (qs srcLen : Nat)
    (th : List Nat) (qt size : Nat)
    (hth : ∀ i, i < th.length → i + qt ≤ size ∧ i < size) :
    ∃ ms, findPotentialMatches N lookup qs srcLen th qt size = some ms ∧ ∀ m ∈ ms, MRInv size m := by
  unfold findPotentialMatches
  simp only []
  split
  · exact ⟨[], rfl, by simp⟩
  · split
    · exact ⟨[], rfl, by simp⟩
    · obtain ⟨fr, hfr, hinv⟩ := fuseRanges_some N (targetMatchedRangesWith lookup qs th qt) srcLen
        (detectRuns N (targetMatchedRangesWith lookup qs th qt) size srcLen qs) size
        (targetMatchedRangesWith_inv lookup qs th qt size hth)
      rw [hfr]
      refine ⟨_, rfl, ?_⟩
      intro m hm
      exact hinv m (List.takeWhile_subset _ hm)

theorem docCandidates_no_panic {C : Type} (N : NumEnv C) (wordOf : Nat → Text) (isDigitRune : Nat → Bool)
    (decode : Text → List Nat) (induced : List (Text × List Text))
    (diffOf : KDoc → Nat → Nat → Option (List (Diff Nat)))
    (target : Array IdTok) (th : List Nat) (qt : Nat) (p : PDoc)
    (hth : ∀ i, i < th.length → i + qt ≤ target.size ∧ i < target.size) (e : Outcome C)
    (h : docCandidates N wordOf isDigitRune decode induced diffOf target th qt p = .error e) :
    ¬ ∃ w, e = .panic w := by
  unfold docCandidates at h
  obtain ⟨fr, hfr, hinv⟩ := findPotentialMatches_some N p.lookup p.qs p.doc.ids.length th qt target.size hth
  rw [hfr] at h
  refine foldlM_ne _ (fun _ => True) (fun e => ∃ w, e = Outcome.panic w) fr [] ?_ trivial e h
  intro acc x hx _
  refine ⟨?_, fun _ _ => trivial⟩
  obtain ⟨_, b2, _, b4⟩ := hinv x hx
  intro e' hf
  simp only at hf
  split at hf
  · cases hf; rintro ⟨r, hr⟩; cases hr
  · split at hf
    · rename_i hg
      split at hf
      · cases hf
      · rename_i hb
        exfalso
        apply hb
        have := hg.2
        refine ⟨by omega, ?_, by omega, ?_⟩
        · rw [Int.toNat_lt (by omega)]; omega
        · rw [Int.toNat_lt (by omega)]; omega
    · cases hf

theorem hashes_bounds (crc : List UInt8 → Nat) (wordOf : Nat → List UInt8) (q : Nat) (ids : List Nat) :
    ∀ i, i < (hashes crc wordOf (effQ q ids.length) ids).length →
      i + effQ q ids.length ≤ ids.length ∧ i < ids.length := by
  intro i hi
  rw [hashes_length] at hi
  have := effQ_le q ids.length
  split at hi <;> omega

theorem candFold_no_panic {C : Type} (N : NumEnv C) (crc : Text → Nat) (wordOf : Nat → Text)
    (isDigitRune : Nat → Bool) (decode : Text → List Nat) (induced : List (Text × List Text))
    (diffOf : KDoc → Nat → Nat → Option (List (Diff Nat)))
    (cntT : Nat → Nat) (docs : List PDoc) (target : Array IdTok) (crs : List Nat)
    (e : Outcome C)
    (h : candFold N crc wordOf isDigitRune decode induced diffOf cntT docs target crs = .error e) :
    ¬ ∃ w, e = .panic w := by
  unfold candFold at h
  refine foldlM_ne _ (fun _ => True) (fun e => ∃ w, e = Outcome.panic w) _ _ ?_ trivial e h
  intro acc p _ _
  refine ⟨?_, fun _ _ => trivial⟩
  intro e' hf
  split at hf
  · cases hf
  · rename_i e'' hdc
    cases hf
    refine docCandidates_no_panic _ _ _ _ _ _ _ _ _ _ ?_ _ hdc
    have hb := hashes_bounds crc wordOf N.q (target.toList.map (·.id))
    simpa using hb

end LC.V2Match.WFP

namespace LC.V2Match
open LC.Score WFP

theorem match_wellformed' {C : Type} (N : NumEnv C)
    (crc : Text → Nat) (wordOf : Nat → Text) (isDigitRune : Nat → Bool) (decode : Text → List Nat)
    (induced : List (Text × List Text)) (diffOf : KDoc → Nat → Nat → Option (List (LC.Score.Diff Nat)))
    (cntT : Nat → Nat) (docs : List PDoc) (target : Array IdTok) (crs : List Nat) (r : Results C)
    (h : matchModel N crc wordOf isDigitRune decode induced diffOf cntT docs target crs = .ok r) :
    ∀ m ∈ r.ms, WFMatch N docs target crs m := by
  rcases matchModel_ok _ _ _ _ _ _ _ _ _ _ _ _ h with ⟨h1, _⟩ | ⟨cands, hc, h1, _⟩
  · rw [h1]; simp
  · rw [h1]
    intro m hm
    exact candFold_ok _ _ _ _ _ _ _ _ _ _ _ _ hc m (mem_outOf N cands m hm)

theorem match_sorted' {C : Type} (N : NumEnv C) (laws : NumLaws N)
    (crc : Text → Nat) (wordOf : Nat → Text) (isDigitRune : Nat → Bool) (decode : Text → List Nat)
    (induced : List (Text × List Text)) (diffOf : KDoc → Nat → Nat → Option (List (LC.Score.Diff Nat)))
    (cntT : Nat → Nat) (docs : List PDoc) (target : Array IdTok) (crs : List Nat) (r : Results C)
    (h : matchModel N crc wordOf isDigitRune decode induced diffOf cntT docs target crs = .ok r) :
    r.ms.Pairwise (fun a b => N.gt b.conf a.conf = false) := by
  rcases matchModel_ok _ _ _ _ _ _ _ _ _ _ _ _ h with ⟨h1, _⟩ | ⟨cands, _, h1, _⟩
  · rw [h1]; exact List.Pairwise.nil
  · rw [h1]
    exact (sortBy_pairwise laws cands).sublist (outOf_sublist N cands)

theorem match_total_lines' {C : Type} (N : NumEnv C)
    (crc : Text → Nat) (wordOf : Nat → Text) (isDigitRune : Nat → Bool) (decode : Text → List Nat)
    (induced : List (Text × List Text)) (diffOf : KDoc → Nat → Nat → Option (List (LC.Score.Diff Nat)))
    (cntT : Nat → Nat) (docs : List PDoc) (target : Array IdTok) (crs : List Nat) (r : Results C)
    (h : matchModel N crc wordOf isDigitRune decode induced diffOf cntT docs target crs = .ok r) :
    (r.ms = [] ∧ r.totalInputLines = 0) ∨ r.totalInputLines = ((target.back?).map (·.line)).getD 0 := by
  rcases matchModel_ok _ _ _ _ _ _ _ _ _ _ _ _ h with h1 | ⟨_, _, _, h2⟩
  · exact Or.inl h1
  · exact Or.inr h2

theorem prepare_wf' (crc : Text → Nat) (wordOf : Nat → Text) (q : Nat) (d : KDoc) :
    (prepare crc wordOf q d).WF := by
  intro cs o ho
  simp only [prepare] at ho ⊢
  have h1 := mem_lookupIn _ _ _ ho
  rw [hashes_length] at h1
  have h2 := effQ_le q d.ids.length
  split at h1
  · omega
  · omega


theorem match_no_panic' {C : Type} (N : NumEnv C)
    (crc : Text → Nat) (wordOf : Nat → Text) (isDigitRune : Nat → Bool) (decode : Text → List Nat)
    (induced : List (Text × List Text)) (diffOf : KDoc → Nat → Nat → Option (List (LC.Score.Diff Nat)))
    (cntT : Nat → Nat) (docs : List PDoc) (_hwf : ∀ p ∈ docs, p.WF) (target : Array IdTok) (crs : List Nat)
    (w : String) :
    matchModel N crc wordOf isDigitRune decode induced diffOf cntT docs target crs ≠ .panic w := by
  intro h
  rw [matchModel_eq] at h
  split at h
  · cases h
  · split at h
    · rename_i e he
      subst h
      exact candFold_no_panic _ _ _ _ _ _ _ _ _ _ _ _ he ⟨w, rfl⟩
    · split at h <;> cases h

end LC.V2Match
