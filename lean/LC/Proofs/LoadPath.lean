/- Helper lemmas for LC/Props/C12.lean. -/
import LC.Model.LoadPath
namespace LC.LoadPath

/-! ### splitSlash / joinSlash -/

theorem splitSlash_nil : splitSlash [] = [[]] := rfl

theorem splitSlash_cons_slash (s : List Char) : splitSlash ('/' :: s) = [] :: splitSlash s := by
  simp [splitSlash]

theorem splitSlash_ne_nil (s : List Char) : splitSlash s ≠ [] := by
  induction s with
  | nil => simp [splitSlash]
  | cons c s ih =>
    unfold splitSlash at *
    simp only [List.foldr_cons]
    split
    · simp
    · split <;> simp

theorem splitSlash_cons_ne (c : Char) (s : List Char) (h : c ≠ '/') :
    ∃ hd tl, splitSlash s = hd :: tl ∧ splitSlash (c :: s) = (c :: hd) :: tl := by
  cases hs : splitSlash s with
  | nil => exact absurd hs (splitSlash_ne_nil s)
  | cons hd tl =>
    refine ⟨hd, tl, rfl, ?_⟩
    unfold splitSlash at *
    simp only [List.foldr_cons, hs, h, if_false]

theorem splitSlash_append_slash (a b : List Char) :
    splitSlash (a ++ '/' :: b) = splitSlash a ++ splitSlash b := by
  induction a with
  | nil => simp [splitSlash_cons_slash, splitSlash_nil]
  | cons c a ih =>
    by_cases hc : c = '/'
    · subst hc
      simp [splitSlash_cons_slash, ih]
    · obtain ⟨hd, tl, h1, h2⟩ := splitSlash_cons_ne c a hc
      obtain ⟨hd', tl', h1', h2'⟩ := splitSlash_cons_ne c (a ++ '/' :: b) hc
      rw [List.cons_append, h2', h2]
      rw [ih, h1] at h1'
      simp at h1'
      simp [h1'.1, h1'.2]

theorem splitSlash_noslash (a : List Char) (h : '/' ∉ a) : splitSlash a = [a] := by
  induction a with
  | nil => rfl
  | cons c a ih =>
    have hc : c ≠ '/' := by intro e; subst e; simp at h
    have ha : '/' ∉ a := by intro e; exact h (List.mem_cons_of_mem _ e)
    obtain ⟨hd, tl, h1, h2⟩ := splitSlash_cons_ne c a hc
    rw [ih ha] at h1
    simp at h1
    rw [h2, ← h1.1, ← h1.2]

theorem splitSlash_joinSlash (cs : List Comp) (hne : cs ≠ []) (h : ∀ c ∈ cs, '/' ∉ c) :
    splitSlash (joinSlash cs) = cs := by
  induction cs with
  | nil => exact absurd rfl hne
  | cons c cs ih =>
    cases cs with
    | nil => simpa [joinSlash] using splitSlash_noslash c (h c (by simp))
    | cons d ds =>
      have : joinSlash (c :: d :: ds) = c ++ '/' :: joinSlash (d :: ds) := rfl
      rw [this, splitSlash_append_slash, splitSlash_noslash c (h c (by simp)),
        ih (by simp) (fun x hx => h x (List.mem_cons_of_mem _ hx))]
      rfl

theorem splitSlash_all_noslash (s : List Char) : ∀ c ∈ splitSlash s, '/' ∉ c := by
  induction s with
  | nil => simp [splitSlash_nil]
  | cons c s ih =>
    by_cases hc : c = '/'
    · subst hc
      rw [splitSlash_cons_slash]
      intro x hx
      rcases List.mem_cons.1 hx with rfl | hx
      · simp
      · exact ih x hx
    · obtain ⟨hd, tl, h1, h2⟩ := splitSlash_cons_ne c s hc
      rw [h2]
      rw [h1] at ih
      intro x hx
      rcases List.mem_cons.1 hx with rfl | hx
      · intro hm
        rcases List.mem_cons.1 hm with e | hm
        · exact hc e.symm
        · exact ih hd (by simp) hm
      · exact ih x (List.mem_cons_of_mem _ hx)


/-! ### cleanComps -/

/-- a component that Clean pushes -/
def NS (c : Comp) : Prop := c ≠ [] ∧ c ≠ dot ∧ c ≠ dotdot

theorem Plain.ns {c : Comp} (h : Plain c) : NS c := ⟨h.1, h.2.1, h.2.2.1⟩

theorem cleanComps_nil (r : Bool) (st : List Comp) : cleanComps r [] st = st.reverse := by
  simp [cleanComps]

theorem cleanComps_skip (r : Bool) (c : Comp) (cs st : List Comp) (h : c = [] ∨ c = dot) :
    cleanComps r (c :: cs) st = cleanComps r cs st := by
  cases st <;> simp [cleanComps, h]

theorem cleanComps_push (r : Bool) (c : Comp) (cs st : List Comp) (h : NS c) :
    cleanComps r (c :: cs) st = cleanComps r cs (c :: st) := by
  cases st <;> simp [cleanComps, h.1, h.2.1, h.2.2]

theorem dotdot_not_skip : ¬ (dotdot = [] ∨ dotdot = dot) := by decide

theorem cleanComps_dd_nil_rooted (cs : List Comp) :
    cleanComps true (dotdot :: cs) [] = cleanComps true cs [] := by
  rw [cleanComps, if_neg dotdot_not_skip, if_pos rfl]; simp

theorem cleanComps_dd_nil_rel (cs : List Comp) :
    cleanComps false (dotdot :: cs) [] = cleanComps false cs [dotdot] := by
  rw [cleanComps, if_neg dotdot_not_skip, if_pos rfl]; simp

theorem cleanComps_dd_dd (r : Bool) (cs st : List Comp) :
    cleanComps r (dotdot :: cs) (dotdot :: st) = cleanComps r cs (dotdot :: dotdot :: st) := by
  rw [cleanComps, if_neg dotdot_not_skip, if_pos rfl]; simp

theorem cleanComps_dd_pop (r : Bool) (cs : List Comp) (top : Comp) (st : List Comp)
    (h : top ≠ dotdot) :
    cleanComps r (dotdot :: cs) (top :: st) = cleanComps r cs st := by
  rw [cleanComps, if_neg dotdot_not_skip, if_pos rfl]; simp [h]

theorem comp_cases (c : Comp) : (c = [] ∨ c = dot) ∨ c = dotdot ∨ NS c := by
  by_cases h1 : c = []
  · exact Or.inl (Or.inl h1)
  · by_cases h2 : c = dot
    · exact Or.inl (Or.inr h2)
    · by_cases h3 : c = dotdot
      · exact Or.inr (Or.inl h3)
      · exact Or.inr (Or.inr ⟨h1, h2, h3⟩)

theorem cleanComps_append (r : Bool) (xs ys st : List Comp) :
    cleanComps r (xs ++ ys) st = cleanComps r ys (cleanComps r xs st).reverse := by
  induction xs generalizing st with
  | nil => simp [cleanComps_nil]
  | cons c xs ih =>
    rw [List.cons_append]
    rcases comp_cases c with h | h | h
    · rw [cleanComps_skip _ _ _ _ h, cleanComps_skip _ _ _ _ h, ih]
    · subst h
      cases st with
      | nil =>
        cases r
        · rw [cleanComps_dd_nil_rel, cleanComps_dd_nil_rel, ih]
        · rw [cleanComps_dd_nil_rooted, cleanComps_dd_nil_rooted, ih]
      | cons top rest =>
        by_cases ht : top = dotdot
        · subst ht
          rw [cleanComps_dd_dd, cleanComps_dd_dd, ih]
        · rw [cleanComps_dd_pop _ _ _ _ ht, cleanComps_dd_pop _ _ _ _ ht, ih]
    · rw [cleanComps_push _ _ _ _ h, cleanComps_push _ _ _ _ h, ih]

theorem cleanComps_ns (r : Bool) (pl st : List Comp) (h : ∀ c ∈ pl, NS c) :
    cleanComps r pl st = st.reverse ++ pl := by
  induction pl generalizing st with
  | nil => simp [cleanComps_nil]
  | cons c pl ih =>
    rw [cleanComps_push _ _ _ _ (h c (by simp)), ih _ (fun x hx => h x (List.mem_cons_of_mem _ hx))]
    simp

theorem cleanComps_dds (k j : Nat) :
    cleanComps false (List.replicate k dotdot) (List.replicate j dotdot)
      = List.replicate (j + k) dotdot := by
  induction k generalizing j with
  | zero => simp [cleanComps_nil]
  | succ k ih =>
    rw [List.replicate_succ]
    cases j with
    | zero =>
      rw [List.replicate_zero, cleanComps_dd_nil_rel]
      have := ih 1
      simp only [List.replicate_succ, List.replicate_zero] at this
      rw [this]
      simp [List.replicate_succ, Nat.add_comm]
    | succ j =>
      rw [List.replicate_succ, cleanComps_dd_dd]
      have := ih (j + 2)
      simp only [List.replicate_succ] at this
      rw [this]
      have : j + 1 + (k + 1) = (j + 2 + k) := by omega
      rw [this]

theorem cleanComps_mem (P : Comp → Prop) (hdd : P dotdot) (r : Bool) (xs st : List Comp)
    (hx : ∀ c ∈ xs, P c) (hs : ∀ c ∈ st, P c) : ∀ c ∈ cleanComps r xs st, P c := by
  induction xs generalizing st with
  | nil => simpa [cleanComps_nil] using hs
  | cons c xs ih =>
    have hx' : ∀ c ∈ xs, P c := fun x hx0 => hx x (List.mem_cons_of_mem _ hx0)
    rcases comp_cases c with h | h | h
    · rw [cleanComps_skip _ _ _ _ h]; exact ih _ hx' hs
    · subst h
      cases st with
      | nil =>
        cases r
        · rw [cleanComps_dd_nil_rel]; exact ih _ hx' (by simpa using hdd)
        · rw [cleanComps_dd_nil_rooted]; exact ih _ hx' hs
      | cons top rest =>
        by_cases ht : top = dotdot
        · subst ht
          rw [cleanComps_dd_dd]
          exact ih _ hx' (fun x hx0 => by
            rcases List.mem_cons.1 hx0 with rfl | hx0
            · exact hdd
            · exact hs x hx0)
        · rw [cleanComps_dd_pop _ _ _ _ ht]
          exact ih _ hx' (fun x hx0 => hs x (List.mem_cons_of_mem _ hx0))
    · rw [cleanComps_push _ _ _ _ h]
      exact ih _ hx' (fun x hx0 => by
        rcases List.mem_cons.1 hx0 with rfl | hx0
        · exact hx _ (by simp)
        · exact hs x hx0)

/-- invariant of the Clean stack (top first) -/
def StkOK (r : Bool) (st : List Comp) : Prop :=
  ∃ k pl, st = pl ++ List.replicate k dotdot ∧ (r = true → k = 0) ∧ ∀ c ∈ pl, NS c

theorem cleanComps_ok (r : Bool) (xs st : List Comp) (h : StkOK r st) :
    StkOK r (cleanComps r xs st).reverse := by
  induction xs generalizing st with
  | nil => simpa [cleanComps_nil] using h
  | cons c xs ih =>
    rcases comp_cases c with hc | hc | hc
    · rw [cleanComps_skip _ _ _ _ hc]; exact ih _ h
    · subst hc
      obtain ⟨k, pl, rfl, hk, hpl⟩ := h
      cases pl with
      | nil =>
        cases k with
        | zero =>
          simp only [List.replicate_zero, List.append_nil]
          cases r
          · rw [cleanComps_dd_nil_rel]
            exact ih _ ⟨1, [], by simp, by simp, by simp⟩
          · rw [cleanComps_dd_nil_rooted]
            exact ih _ ⟨0, [], by simp, by simp, by simp⟩
        | succ k =>
          have hr : r = false := by
            cases r
            · rfl
            · exact absurd (hk rfl) (by omega)
          subst hr
          simp only [List.replicate_succ, List.nil_append]
          rw [cleanComps_dd_dd]
          exact ih _ ⟨k + 2, [], by simp [List.replicate_succ], by simp, by simp⟩
      | cons p pl =>
        have hp : p ≠ dotdot := (hpl p (by simp)).2.2
        rw [List.cons_append, cleanComps_dd_pop _ _ _ _ hp]
        exact ih _ ⟨k, pl, rfl, hk, fun x hx => hpl x (List.mem_cons_of_mem _ hx)⟩
    · rw [cleanComps_push _ _ _ _ hc]
      obtain ⟨k, pl, rfl, hk, hpl⟩ := h
      exact ih _ ⟨k, c :: pl, by simp, hk, fun x hx => by
        rcases List.mem_cons.1 hx with rfl | hx
        · exact hc
        · exact hpl x hx⟩


/-! ### canonical component lists and their rendering -/

def Canonical (r : Bool) (cs : List Comp) : Prop :=
  (∀ c ∈ cs, '/' ∉ c) ∧
  ∃ k pl, cs = List.replicate k dotdot ++ pl ∧ (r = true → k = 0) ∧ ∀ c ∈ pl, NS c

def render (r : Bool) (cs : List Comp) : List Char :=
  if r then '/' :: joinSlash cs else if cs = [] then ['.'] else joinSlash cs

def canon (p : List Char) : Bool × List Comp :=
  (decide (p.head? = some '/'), cleanComps (decide (p.head? = some '/')) (splitSlash p) [])

theorem clean_eq_render (p : List Char) : clean p = render (canon p).1 (canon p).2 := by
  unfold clean canon render
  by_cases hp : p = []
  · subst hp; simp [splitSlash_nil, cleanComps_skip, cleanComps_nil]
  · simp only [hp, if_false]
    by_cases hr : p.head? = some '/'
    · simp [hr]
    · simp [hr]

theorem Canonical.elem {r : Bool} {cs : List Comp} (h : Canonical r cs) :
    ∀ c ∈ cs, c ≠ [] ∧ c ≠ dot ∧ '/' ∉ c := by
  obtain ⟨h1, k, pl, rfl, _, hpl⟩ := h
  intro c hc
  refine ⟨?_, ?_, h1 c hc⟩
  · rcases List.mem_append.1 hc with hc | hc
    · rw [(List.mem_replicate.1 hc).2]; decide
    · exact (hpl c hc).1
  · rcases List.mem_append.1 hc with hc | hc
    · rw [(List.mem_replicate.1 hc).2]; decide
    · exact (hpl c hc).2.1

theorem Canonical.fix {r : Bool} {cs : List Comp} (h : Canonical r cs) :
    cleanComps r cs [] = cs := by
  obtain ⟨_, k, pl, rfl, hk, hpl⟩ := h
  cases r with
  | true =>
    have := hk rfl
    subst this
    simp [cleanComps_ns _ _ _ hpl]
  | false =>
    rw [cleanComps_append]
    have := cleanComps_dds k 0
    simp only [List.replicate_zero, Nat.zero_add] at this
    rw [this, cleanComps_ns _ _ _ hpl]
    simp

theorem canon_canonical (p : List Char) : Canonical (canon p).1 (canon p).2 := by
  unfold canon
  refine ⟨?_, ?_⟩
  · exact cleanComps_mem (fun c => '/' ∉ c) (by decide) _ _ _ (splitSlash_all_noslash p) (by simp)
  · obtain ⟨k, pl, h, hk, hpl⟩ :=
      cleanComps_ok (decide (p.head? = some '/')) (splitSlash p) [] ⟨0, [], by simp, by simp, by simp⟩
    refine ⟨k, pl.reverse, ?_, hk, by simpa using hpl⟩
    have := congrArg List.reverse h
    simpa using this

theorem joinSlash_head (c : Comp) (cs : List Comp) (hc : c ≠ []) :
    (joinSlash (c :: cs)).head? = c.head? := by
  cases cs with
  | nil => rfl
  | cons d ds =>
    have : joinSlash (c :: d :: ds) = c ++ '/' :: joinSlash (d :: ds) := rfl
    rw [this]
    cases c with
    | nil => exact absurd rfl hc
    | cons x xs => rfl

theorem Canonical.join_head {r : Bool} {c : Comp} {cs : List Comp} (h : Canonical r (c :: cs)) :
    ∃ x, (joinSlash (c :: cs)).head? = some x ∧ x ≠ '/' := by
  have he := h.elem c (by simp)
  rw [joinSlash_head c cs he.1]
  cases c with
  | nil => exact absurd rfl he.1
  | cons x xs =>
    refine ⟨x, rfl, ?_⟩
    intro e; subst e; exact he.2.2 (by simp)

theorem canon_render {r : Bool} {cs : List Comp} (h : Canonical r cs) :
    canon (render r cs) = (r, cs) := by
  cases r with
  | true =>
    have hr : render true cs = '/' :: joinSlash cs := by simp [render]
    rw [hr]
    unfold canon
    simp only [List.head?_cons, decide_true, splitSlash_cons_slash]
    rw [cleanComps_skip _ _ _ _ (Or.inl rfl)]
    cases cs with
    | nil => simp [joinSlash, splitSlash_nil, cleanComps_skip, cleanComps_nil]
    | cons c cs =>
      rw [splitSlash_joinSlash _ (by simp) (fun x hx => (h.elem x hx).2.2), h.fix]
  | false =>
    cases cs with
    | nil =>
      have hr : render false [] = ['.'] := by simp [render]
      rw [hr]; decide
    | cons c cs =>
      have hr : render false (c :: cs) = joinSlash (c :: cs) := by simp [render]
      rw [hr]
      obtain ⟨x, hx, hne⟩ := h.join_head
      unfold canon
      have hd : decide ((joinSlash (c :: cs)).head? = some '/') = false := by
        rw [hx]; simp [hne]
      rw [hd, splitSlash_joinSlash _ (by simp) (fun x hx => (h.elem x hx).2.2), h.fix]

theorem clean_idem' (p : List Char) : clean (clean p) = clean p := by
  rw [clean_eq_render p, clean_eq_render (render _ _), canon_render (canon_canonical p)]

theorem canon_clean (p : List Char) : canon (clean p) = canon p := by
  rw [clean_eq_render p, canon_render (canon_canonical p)]


/-! ### compsOf -/

theorem compsOf_render (b : Bool) {r : Bool} {cs : List Comp} (h : Canonical r cs) :
    compsOf b (render r cs) =
      (r, if r = false ∧ cs = [] then (if b then [] else [dot]) else cs) := by
  have hc : clean (render r cs) = render r cs := by
    rw [clean_eq_render, canon_render h]
  unfold compsOf
  simp only [hc]
  cases r with
  | true =>
    have hr : render true cs = '/' :: joinSlash cs := by simp [render]
    rw [hr]
    have h1 : ('/' :: joinSlash cs) ≠ ['.'] := by
      intro e; injection e with e1 _; exact absurd e1 (by decide)
    simp only [h1, if_false, List.head?_cons, if_true, List.drop_succ_cons, List.drop_zero]
    cases cs with
    | nil => simp [joinSlash, splitSlash_nil]
    | cons c cs =>
      rw [splitSlash_joinSlash _ (by simp) (fun x hx => (h.elem x hx).2.2)]
      have : List.filter (fun x => decide (x ≠ [])) (c :: cs) = c :: cs := by
        apply List.filter_eq_self.2
        intro x hx
        simpa using (h.elem x hx).1
      simp only [if_neg (show ¬ (true = false ∧ c :: cs = []) by simp)]
      rw [this]
  | false =>
    cases cs with
    | nil => simp [render]
    | cons c cs =>
      have hr : render false (c :: cs) = joinSlash (c :: cs) := by simp [render]
      rw [hr]
      have hsj := splitSlash_joinSlash (c :: cs) (by simp) (fun x hx => (h.elem x hx).2.2)
      have h1 : joinSlash (c :: cs) ≠ ['.'] := by
        intro e
        rw [e] at hsj
        have : splitSlash ['.'] = [dot] := by decide
        rw [this] at hsj
        injection hsj with e1 _
        exact (h.elem c (by simp)).2.1 e1.symm
      obtain ⟨x, hx, hne⟩ := h.join_head
      have h2 : ¬ ((joinSlash (c :: cs)).head? = some '/') := by
        rw [hx]; simp [hne]
      simp [h1, h2, hsj]

theorem compsOf_eq (b : Bool) (p : List Char) :
    compsOf b p =
      ((canon p).1, if (canon p).1 = false ∧ (canon p).2 = [] then (if b then [] else [dot])
        else (canon p).2) := by
  have h1 : compsOf b p = compsOf b (clean p) := by
    unfold compsOf; rw [clean_idem']
  rw [h1, clean_eq_render, compsOf_render b (canon_canonical p)]

theorem compsOf_base (p : List Char) : compsOf true p = canon p := by
  rw [compsOf_eq]
  by_cases h : (canon p).1 = false ∧ (canon p).2 = []
  · simp only [h, and_self, if_true]
    exact Prod.ext h.1.symm h.2.symm
  · simp [h]

/-! ### walkPath -/

theorem clean_ne_nil (p : List Char) : clean p ≠ [] := by
  rw [clean_eq_render]
  have h := canon_canonical p
  generalize (canon p).1 = r at h
  generalize (canon p).2 = cs at h
  cases r with
  | true => simp [render]
  | false =>
    cases cs with
    | nil => simp [render]
    | cons c cs =>
      obtain ⟨x, hx, _⟩ := h.join_head
      intro e
      simp [render] at e
      rw [e] at hx
      simp at hx

theorem canon_append_plain (p : List Char) (hp : p ≠ []) (n : Comp) (hn : Plain n) :
    canon (p ++ '/' :: n) = ((canon p).1, (canon p).2 ++ [n]) := by
  unfold canon
  have hh : (p ++ '/' :: n).head? = p.head? := by
    cases p with
    | nil => exact absurd rfl hp
    | cons x xs => rfl
  rw [hh, splitSlash_append_slash, splitSlash_noslash n hn.2.2.2, cleanComps_append,
    cleanComps_ns _ [n] _ (by intro c hc; simp at hc; subst hc; exact hn.ns)]
  simp

theorem canon_walkPath (dir : List Char) (hd : dir ≠ []) (names : List Comp)
    (hp : ∀ n ∈ names, Plain n) :
    canon (walkPath dir names) = ((canon dir).1, (canon dir).2 ++ names) := by
  induction names generalizing dir with
  | nil => simp [walkPath]
  | cons n ns ih =>
    have hn := hp n (by simp)
    rw [walkPath, ih _ (clean_ne_nil _) (fun x hx => hp x (List.mem_cons_of_mem _ hx)),
      canon_clean, canon_append_plain dir hd n hn]
    simp

/-! ### rel -/

theorem stripCommon_prefix (cs names : List Comp) :
    stripCommon cs (cs ++ names) = ([], names) := by
  induction cs with
  | nil => cases names <;> simp [stripCommon]
  | cons c cs ih => simp [stripCommon, ih]

theorem rel_walk' (dir : List Char) (hd : dir ≠ []) (names : List Comp) (hn : names ≠ [])
    (hp : ∀ n ∈ names, Plain n) :
    rel dir (walkPath dir names) = some (joinSlash names) := by
  have hw := canon_walkPath dir hd names hp
  have hne : clean (walkPath dir names) ≠ clean dir := by
    intro e
    have := congrArg canon e
    rw [canon_clean, canon_clean, hw] at this
    have h2 := congrArg Prod.snd this
    simp at h2
    exact hn h2
  have ht : compsOf false (walkPath dir names) = ((canon dir).1, (canon dir).2 ++ names) := by
    rw [compsOf_eq, hw]
    simp [hn]
  unfold rel
  simp only [hne, if_false, compsOf_base, ht]
  simp [stripCommon_prefix]


/-! ### loadKey -/

def keyOf : List Comp → Key
  | c :: n :: v :: _ => .key c n v
  | _ => .skip

theorem loadKey_eq (dir : List Char) (hd : dir ≠ []) (names : List Comp) (hn : names ≠ [])
    (hp : ∀ n ∈ names, Plain n) :
    loadKey dir names = keyOf names := by
  unfold loadKey
  rw [rel_walk' dir hd names hn hp]
  simp only
  rw [splitSlash_joinSlash names hn (fun c hc => (hp c hc).2.2.2)]
  rcases names with _ | ⟨a, _ | ⟨b, _ | ⟨c, t⟩⟩⟩ <;> rfl

theorem load_key_exact' (dir : List Char) (hd : dir ≠ []) (c n v : Comp)
    (hc : Plain c) (hn : Plain n) (hv : Plain v) :
    loadKey dir [c, n, v] = .key c n v := by
  rw [loadKey_eq dir hd [c, n, v] (by simp) (by
    intro x hx
    simp at hx
    rcases hx with rfl | rfl | rfl <;> assumption)]
  rfl

theorem load_key_shallow' (dir : List Char) (hd : dir ≠ []) (names : List Comp) (hn : names ≠ [])
    (hp : ∀ n ∈ names, Plain n) (hl : names.length < 3) : loadKey dir names = .skip := by
  rw [loadKey_eq dir hd names hn hp]
  rcases names with _ | ⟨a, _ | ⟨b, _ | ⟨c, t⟩⟩⟩
  · rfl
  · rfl
  · rfl
  · simp at hl; omega

theorem load_key_total' (dir : List Char) (hd : dir ≠ []) (names : List Comp) (hn : names ≠ [])
    (hp : ∀ n ∈ names, Plain n) : loadKey dir names ≠ .err := by
  rw [loadKey_eq dir hd names hn hp]
  rcases names with _ | ⟨a, _ | ⟨b, _ | ⟨c, t⟩⟩⟩ <;> simp [keyOf]

end LC.LoadPath
