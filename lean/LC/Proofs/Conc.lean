/- Helper lemmas for LC/Props/C09.lean. -/
import LC.Model.Conc
namespace LC.Conc

theorem le_ind {m : Nat} {Q : Nat → Prop} (base : Q m) (succ : ∀ n, m ≤ n → Q n → Q (n+1)) :
    ∀ n, m ≤ n → Q n := by
  intro n h
  obtain ⟨d, rfl⟩ := Nat.exists_eq_add_of_le h
  induction d with
  | zero => exact base
  | succ d ih => exact succ (m+d) (Nat.le_add_right m d) (ih (Nat.le_add_right m d))

/-! ### read-only sharing -/

theorem readonly_no_race' (tr : Trace) (x : Nat) (h : NoWrites tr x) : ¬ Race tr x := by
  rintro ⟨i, j, a, b, _, ha, hb, _, haa, hab, hw, _⟩
  rcases hw with hw | hw
  · exact h a (List.mem_of_getElem? ha) ⟨hw, haa⟩
  · exact h b (List.mem_of_getElem? hb) ⟨hw, hab⟩

theorem storeAfter_noWrites (tr : Trace) (x : Nat) (h : NoWrites tr x) :
    ∀ init : Nat → Nat, storeAfter init tr x = init x := by
  induction tr with
  | nil => intro init; rfl
  | cons e rest ih =>
    intro init
    have hrest : NoWrites rest x := fun e' he' => h e' (List.mem_cons_of_mem _ he')
    have he := h e List.mem_cons_self
    obtain ⟨t, a⟩ := e
    cases a with
    | wr y v =>
      simp only [storeAfter]
      rw [ih hrest]
      have : y ≠ x := by
        intro hyx
        apply he
        simp [isWrite, isAccess, hyx]
      simp [Ne.symm this]
    | rd y => simp only [storeAfter]; exact ih hrest init
    | lock => simp only [storeAfter]; exact ih hrest init
    | unlock => simp only [storeAfter]; exact ih hrest init

theorem readonly_reads_initial' (init : Nat → Nat) (tr : Trace) (x : Nat) (h : NoWrites tr x)
    (i : Nat) (t : Nat) (hi : tr[i]? = some ⟨t, .rd x⟩) : readValue init tr i = some (init x) := by
  have hpre : NoWrites (tr.take i) x := fun e he => h e (List.mem_of_mem_take he)
  simp only [readValue, hi]
  rw [storeAfter_noWrites _ _ hpre]

/-! ### stepping the store and the holder along the trace -/

theorem storeAfter_append (l1 l2 : Trace) :
    ∀ init : Nat → Nat, ∀ x, storeAfter init (l1 ++ l2) x = storeAfter (fun z => storeAfter init l1 z) l2 x := by
  induction l1 with
  | nil => intro init x; rfl
  | cons e rest ih =>
    intro init x
    obtain ⟨t, a⟩ := e
    cases a <;> simp only [List.cons_append, storeAfter] <;> exact ih _ x

/-- the store of `x` before position `k` -/
def S (init : Nat → Nat) (tr : Trace) (x : Nat) (k : Nat) : Nat := storeAfter init (tr.take k) x

theorem S_succ_none (init : Nat → Nat) (tr : Trace) (x k : Nat) (h : tr[k]? = none) :
    S init tr x (k+1) = S init tr x k := by
  simp [S, List.take_add_one, h]

theorem S_succ_some (init : Nat → Nat) (tr : Trace) (x k : Nat) (e : Ev) (h : tr[k]? = some e) :
    S init tr x (k+1) = match e.act with
      | .wr y v => if x = y then v else S init tr x k
      | _ => S init tr x k := by
  simp only [S, List.take_add_one, h, Option.toList_some, storeAfter_append]
  obtain ⟨t, a⟩ := e
  cases a <;> simp [storeAfter]

/-- the holder before position `k` -/
def stepH (h : Option Nat) (e : Ev) : Option Nat :=
  match e.act with
  | .lock => some e.tid
  | .unlock => none
  | _ => h

theorem holderFold_eq (tr : Trace) (k : Nat) : holderFold tr k = (tr.take k).foldl stepH none := rfl

theorem H_succ_none (tr : Trace) (k : Nat) (h : tr[k]? = none) :
    holderFold tr (k+1) = holderFold tr k := by
  simp [holderFold_eq, List.take_add_one, h]

theorem H_succ_some (tr : Trace) (k : Nat) (e : Ev) (h : tr[k]? = some e) :
    holderFold tr (k+1) = stepH (holderFold tr k) e := by
  simp [holderFold_eq, List.take_add_one, h, List.foldl_append]

theorem mutexOK_append (l1 l2 : Trace) :
    ∀ h, mutexOK (l1 ++ l2) h = true → mutexOK l2 (l1.foldl stepH h) = true := by
  induction l1 with
  | nil => intro h hm; exact hm
  | cons e rest ih =>
    intro h hm
    obtain ⟨t, a⟩ := e
    cases a with
    | lock =>
      simp only [List.cons_append, mutexOK, Bool.and_eq_true] at hm
      exact ih _ hm.2
    | unlock =>
      simp only [List.cons_append, mutexOK, Bool.and_eq_true] at hm
      exact ih _ hm.2
    | rd y =>
      simp only [List.cons_append, mutexOK] at hm
      exact ih _ hm
    | wr y v =>
      simp only [List.cons_append, mutexOK] at hm
      exact ih _ hm

theorem mutexOK_at (tr : Trace) (hm : mutexOK tr none = true) (k : Nat) (e : Ev) (h : tr[k]? = some e) :
    mutexOK (e :: tr.drop (k+1)) (holderFold tr k) = true := by
  have hk : k < tr.length := by
    rcases List.getElem?_eq_some_iff.mp h with ⟨hk, _⟩; exact hk
  have he : tr[k] = e := by
    rcases List.getElem?_eq_some_iff.mp h with ⟨_, he⟩; exact he
  have hsplit : tr = tr.take k ++ (e :: tr.drop (k+1)) := by
    rw [← he, List.getElem_cons_drop, List.take_append_drop]
  have := mutexOK_append (tr.take k) (e :: tr.drop (k+1)) none (by rw [← hsplit]; exact hm)
  exact this

theorem lock_holder (tr : Trace) (hm : mutexOK tr none = true) (k t : Nat)
    (h : tr[k]? = some ⟨t, .lock⟩) : holderFold tr k = none := by
  have := mutexOK_at tr hm k _ h
  simp only [mutexOK, Bool.and_eq_true] at this
  simpa using this.1

theorem unlock_holder (tr : Trace) (hm : mutexOK tr none = true) (k t : Nat)
    (h : tr[k]? = some ⟨t, .unlock⟩) : holderFold tr k = some t := by
  have := mutexOK_at tr hm k _ h
  simp only [mutexOK, Bool.and_eq_true] at this
  simpa using this.1

/-- if `A` holds the lock before `i` and no longer before `k ≥ i`, `A` unlocked in between -/
theorem unlock_between (tr : Trace) (hm : mutexOK tr none = true) (A i : Nat)
    (hi : holderFold tr i = some A) :
    ∀ k, i ≤ k → holderFold tr k ≠ some A →
      ∃ u, i ≤ u ∧ u < k ∧ tr[u]? = some ⟨A, .unlock⟩ := by
  refine le_ind ?_ ?_
  · intro h; exact absurd hi h
  · intro k hik ih hk1
    by_cases hk : holderFold tr k = some A
    · cases hek : tr[k]? with
      | none => rw [H_succ_none tr k hek] at hk1; exact absurd hk hk1
      | some e =>
        obtain ⟨t, a⟩ := e
        cases a with
        | lock =>
          have := lock_holder tr hm k t hek
          rw [this] at hk; cases hk
        | unlock =>
          have := unlock_holder tr hm k t hek
          rw [this] at hk
          cases hk
          exact ⟨k, hik, Nat.lt_succ_self k, hek⟩
        | rd y =>
          rw [H_succ_some tr k _ hek] at hk1
          exact absurd hk hk1
        | wr y v =>
          rw [H_succ_some tr k _ hek] at hk1
          exact absurd hk hk1
    · obtain ⟨u, h1, h2, h3⟩ := ih hk
      exact ⟨u, h1, Nat.lt_succ_of_lt h2, h3⟩

/-- if `B` holds the lock before `k` and did not before `u ≤ k`, `B` locked in between -/
theorem lock_between (tr : Trace) (B u : Nat) (hu : holderFold tr u ≠ some B) :
    ∀ k, u ≤ k → holderFold tr k = some B →
      ∃ l, u ≤ l ∧ l < k ∧ tr[l]? = some ⟨B, .lock⟩ := by
  refine le_ind ?_ ?_
  · intro h; exact absurd h hu
  · intro k huk ih hk1
    by_cases hk : holderFold tr k = some B
    · obtain ⟨l, h1, h2, h3⟩ := ih hk
      exact ⟨l, h1, Nat.lt_succ_of_lt h2, h3⟩
    · cases hek : tr[k]? with
      | none => rw [H_succ_none tr k hek] at hk1; exact absurd hk1 hk
      | some e =>
        obtain ⟨t, a⟩ := e
        rw [H_succ_some tr k _ hek] at hk1
        cases a with
        | lock =>
          simp only [stepH, Option.some.injEq] at hk1
          subst hk1
          exact ⟨k, huk, Nat.lt_succ_self k, hek⟩
        | unlock => simp [stepH] at hk1
        | rd y => exact absurd hk1 hk
        | wr y v => exact absurd hk1 hk

/-- critical sections of different threads are separated by an unlock → lock pair -/
theorem sections_ordered (tr : Trace) (hm : mutexOK tr none = true) (A B i k : Nat) (hAB : A ≠ B)
    (hi : holderFold tr i = some A) (hk : holderFold tr k = some B) (hik : i ≤ k) :
    ∃ u l, i ≤ u ∧ u < l ∧ l < k ∧ tr[u]? = some ⟨A, .unlock⟩ ∧ tr[l]? = some ⟨B, .lock⟩ := by
  have hne : holderFold tr k ≠ some A := by
    rw [hk]; intro h; cases h; exact hAB rfl
  obtain ⟨u, h1, h2, h3⟩ := unlock_between tr hm A i hi k hik hne
  have hu1 : holderFold tr (u+1) ≠ some B := by
    rw [H_succ_some tr u _ h3]; simp [stepH]
  obtain ⟨l, h4, h5, h6⟩ := lock_between tr B (u+1) hu1 k h2 hk
  exact ⟨u, l, h1, h4, h5, h3, h6⟩

/-! ### the protocol -/

section protocol
variable {init : Nat → Nat} {tr : Trace} {x : Nat}

/-- once set, the location stays set and keeps its value -/
theorem S_stable (P : Protocol init tr x) (k : Nat) (hk : S init tr x k ≠ 0) :
    ∀ m, k ≤ m → S init tr x m = S init tr x k := by
  refine le_ind rfl ?_
  · intro m hkm ih
    cases hem : tr[m]? with
    | none => rw [S_succ_none _ _ _ _ hem, ih]
    | some e =>
      rw [S_succ_some _ _ _ _ e hem]
      obtain ⟨t, a⟩ := e
      cases a with
      | wr y v =>
        by_cases hxy : x = y
        · subst hxy
          have := (P.w1 m t v hem).2.2
          change S init tr x m = 0 at this
          rw [ih] at this
          exact absurd this hk
        · simp [hxy, ih]
      | rd y => exact ih
      | lock => exact ih
      | unlock => exact ih

theorem write_after_set_absurd (P : Protocol init tr x) (k m t v : Nat) (hk : S init tr x k ≠ 0)
    (hkm : k ≤ m) (hw : tr[m]? = some ⟨t, .wr x v⟩) : False := by
  have h0 : S init tr x m = 0 := (P.w1 m t v hw).2.2
  rw [S_stable P k hk m hkm] at h0
  exact hk h0

theorem S_after_write (P : Protocol init tr x) (i t v : Nat) (hw : tr[i]? = some ⟨t, .wr x v⟩) :
    S init tr x (i+1) ≠ 0 := by
  rw [S_succ_some _ _ _ _ _ hw]
  simp only [if_true]
  exact (P.w1 i t v hw).1

theorem at_most_one_aux (P : Protocol init tr x)
    (i j : Nat) (ti tj vi vj : Nat) (hi : tr[i]? = some ⟨ti, .wr x vi⟩) (hj : tr[j]? = some ⟨tj, .wr x vj⟩)
    (hij : i < j) : False :=
  write_after_set_absurd P (i+1) j tj vj (S_after_write P i ti vi hi) hij hj

theorem protocol_at_most_one_write' (init : Nat → Nat) (tr : Trace) (x : Nat) (P : Protocol init tr x)
    (i j : Nat) (ti tj vi vj : Nat) (hi : tr[i]? = some ⟨ti, .wr x vi⟩) (hj : tr[j]? = some ⟨tj, .wr x vj⟩) :
    i = j := by
  rcases Nat.lt_trichotomy i j with h | h | h
  · exact (at_most_one_aux P i j ti tj vi vj hi hj h).elim
  · exact h
  · exact (at_most_one_aux P j i tj ti vj vi hj hi h).elim

theorem protocol_reads_agree' (init : Nat → Nat) (tr : Trace) (x : Nat) (P : Protocol init tr x)
    (i j ti tj : Nat) (hi : tr[i]? = some ⟨ti, .rd x⟩) (hj : tr[j]? = some ⟨tj, .rd x⟩)
    (oi : holderFold tr i ≠ some ti) (oj : holderFold tr j ≠ some tj) :
    readValue init tr i = readValue init tr j ∧ readValue init tr i ≠ some 0 := by
  obtain ⟨i', hi'i, hi'⟩ := P.r i ti hi oi
  obtain ⟨j', hj'j, hj'⟩ := P.r j tj hj oj
  have si' : S init tr x i' ≠ 0 := P.w2 i' ti hi'
  have sj' : S init tr x j' ≠ 0 := P.w2 j' tj hj'
  have ei : S init tr x i = S init tr x i' := S_stable P i' si' i (Nat.le_of_lt hi'i)
  have ej : S init tr x j = S init tr x j' := S_stable P j' sj' j (Nat.le_of_lt hj'j)
  have e' : S init tr x i' = S init tr x j' := by
    rcases Nat.le_total i' j' with h | h
    · exact (S_stable P i' si' j' h).symm
    · exact S_stable P j' sj' i' h
  have ri : readValue init tr i = some (S init tr x i) := by simp [readValue, hi, S]
  have rj : readValue init tr j = some (S init tr x j) := by simp [readValue, hj, S]
  rw [ri, rj, ei, ej, e']
  refine ⟨rfl, ?_⟩
  intro h
  exact sj' (Option.some.inj h)

theorem hb_po (i j : Nat) (a b : Ev) (hij : i < j) (ha : tr[i]? = some a) (hb : tr[j]? = some b)
    (h : a.tid = b.tid) : HB tr i j :=
  HB.edge ⟨hij, a, b, ha, hb, Or.inl h⟩

theorem hb_sync (i j : Nat) (a b : Ev) (hij : i < j) (ha : tr[i]? = some a) (hb : tr[j]? = some b)
    (h1 : a.act = .unlock) (h2 : b.act = .lock) : HB tr i j :=
  HB.edge ⟨hij, a, b, ha, hb, Or.inr ⟨h1, h2⟩⟩

/-- an event of `A` inside `A`'s critical section happens before every later event of `B ≠ A`
that has a lock by `B` … before it: spelled out via `sections_ordered` -/
theorem hb_through_sections (P : Protocol init tr x) (A B i k j : Nat) (a b : Ev) (hAB : A ≠ B)
    (ha : tr[i]? = some a) (hb : tr[j]? = some b) (hat : a.tid = A) (hbt : b.tid = B)
    (hau : a.act ≠ .unlock)
    (hi : holderFold tr i = some A) (hk : holderFold tr k = some B) (hik : i ≤ k) (hkj : k ≤ j) :
    HB tr i j := by
  obtain ⟨u, l, h1, h2, h3, h4, h5⟩ := sections_ordered tr P.mutex A B i k hAB hi hk hik
  have hiu : i < u := by
    rcases Nat.lt_or_ge i u with h | h
    · exact h
    · have : i = u := Nat.le_antisymm h1 h
      subst this
      rw [ha] at h4
      cases h4
      exact absurd rfl hau
  have e1 : HB tr i u := hb_po i u a _ hiu ha h4 hat
  have e2 : HB tr u l := hb_sync u l _ _ h2 h4 h5 rfl rfl
  have e3 : HB tr l j := hb_po l j _ b (Nat.lt_of_lt_of_le h3 hkj) h5 hb hbt.symm
  exact HB.trans e1 (HB.trans e2 e3)

theorem protocol_no_race' (init : Nat → Nat) (tr : Trace) (x : Nat) (P : Protocol init tr x) :
    ¬ Race tr x := by
  rintro ⟨i, j, a, b, hij, ha, hb, hne, haa, hab, hw, hnhb⟩
  apply hnhb
  obtain ⟨A, aa⟩ := a
  obtain ⟨B, ba⟩ := b
  simp only at hne haa hab hw
  rcases hw with hw | hw
  · -- the earlier event is the write
    cases aa with
    | wr y v =>
      simp only [isAccess, decide_eq_true_eq] at haa
      subst haa
      have hA : holderFold tr i = some A := (P.w1 i A v ha).2.1
      cases ba with
      | wr z w =>
        simp only [isAccess, decide_eq_true_eq] at hab
        subst hab
        exact (at_most_one_aux P i j A B v w ha hb hij).elim
      | rd z =>
        simp only [isAccess, decide_eq_true_eq] at hab
        subst hab
        by_cases hB : holderFold tr j = some B
        · exact hb_through_sections P A B i j j _ _ hne ha hb rfl rfl (by simp) hA hB
            (Nat.le_of_lt hij) (Nat.le_refl j)
        · obtain ⟨j', hj'j, hj'⟩ := P.r j B hb hB
          have sj' := P.w2 j' B hj'
          have hij' : i ≤ j' := by
            rcases Nat.lt_or_ge j' i with h | h
            · exact (write_after_set_absurd P j' i A v sj' (Nat.le_of_lt h) ha).elim
            · exact h
          have hB' : holderFold tr j' = some B := unlock_holder tr P.mutex j' B hj'
          exact hb_through_sections P A B i j' j _ _ hne ha hb rfl rfl (by simp) hA hB'
            hij' (Nat.le_of_lt hj'j)
      | lock => simp [isAccess] at hab
      | unlock => simp [isAccess] at hab
    | rd y => simp [isWrite] at hw
    | lock => simp [isWrite] at hw
    | unlock => simp [isWrite] at hw
  · -- the later event is the write
    cases ba with
    | wr y v =>
      simp only [isAccess, decide_eq_true_eq] at hab
      subst hab
      have hB : holderFold tr j = some B := (P.w1 j B v hb).2.1
      cases aa with
      | wr z w =>
        simp only [isAccess, decide_eq_true_eq] at haa
        subst haa
        exact (at_most_one_aux P i j A B w v ha hb hij).elim
      | rd z =>
        simp only [isAccess, decide_eq_true_eq] at haa
        subst haa
        by_cases hA : holderFold tr i = some A
        · exact hb_through_sections P A B i j j _ _ hne ha hb rfl rfl (by simp) hA hB
            (Nat.le_of_lt hij) (Nat.le_refl j)
        · obtain ⟨i', hi'i, hi'⟩ := P.r i A ha hA
          have si' := P.w2 i' A hi'
          exact (write_after_set_absurd P i' j B v si'
            (Nat.le_of_lt (Nat.lt_trans hi'i hij)) hb).elim
      | lock => simp [isAccess] at haa
      | unlock => simp [isAccess] at haa
    | rd y => simp [isWrite] at hw
    | lock => simp [isWrite] at hw
    | unlock => simp [isWrite] at hw

end protocol

/-! ### the pre-repair shape is racy -/

def racyTr : Trace := [⟨1, .lock⟩, ⟨0, .rd 7⟩, ⟨1, .wr 7 5⟩, ⟨1, .unlock⟩]

theorem racy_no_hb_from_1 : ∀ i j, HB racyTr i j → i ≠ 1 := by
  intro i j h
  induction h with
  | @edge i j he =>
    rintro rfl
    obtain ⟨hlt, a, b, ha, hb, hor⟩ := he
    have ha' : a = ⟨0, .rd 7⟩ := by
      simp [racyTr] at ha; exact ha.symm
    subst ha'
    match j, hlt, hb with
    | 2, _, hb =>
      simp [racyTr] at hb; subst hb; simp at hor
    | 3, _, hb =>
      simp [racyTr] at hb; subst hb; simp at hor
    | j+4, _, hb => simp [racyTr] at hb
  | trans _ _ ih _ => exact ih

theorem racy_unlocked_check' :
    Race [⟨1, .lock⟩, ⟨0, .rd 7⟩, ⟨1, .wr 7 5⟩, ⟨1, .unlock⟩] 7 := by
  refine ⟨1, 2, ⟨0, .rd 7⟩, ⟨1, .wr 7 5⟩, by decide, rfl, rfl, by decide, by decide, by decide,
    Or.inr (by decide), ?_⟩
  intro h
  exact racy_no_hb_from_1 1 2 h rfl

/-! ### non-vacuity -/

theorem nonvacuous_example : Protocol (fun _ => 0)
    [⟨0, .lock⟩, ⟨0, .rd 7⟩, ⟨0, .wr 7 5⟩, ⟨0, .unlock⟩, ⟨1, .lock⟩, ⟨1, .rd 7⟩, ⟨1, .unlock⟩,
     ⟨0, .rd 7⟩, ⟨1, .rd 7⟩] 7 where
  mutex := by decide
  nil0 := rfl
  w1 := by
    intro i t v h
    match i, h with
    | 0, h | 1, h | 3, h | 4, h | 5, h | 6, h | 7, h | 8, h => simp at h
    | 2, h =>
      simp at h
      obtain ⟨rfl, rfl⟩ := h
      refine ⟨by decide, by decide, by decide⟩
    | i+9, h => simp at h
  w2 := by
    intro i t h
    match i, h with
    | 0, h | 1, h | 2, h | 4, h | 5, h | 7, h | 8, h => simp at h
    | 3, h => decide
    | 6, h => decide
    | i+9, h => simp at h
  r := by
    intro i t h ho
    match i, h, ho with
    | 0, h, _ | 2, h, _ | 3, h, _ | 4, h, _ | 6, h, _ => simp at h
    | 1, h, ho =>
      simp at h; subst h
      exact absurd (by decide) ho
    | 5, h, ho =>
      simp at h; subst h
      exact absurd (by decide) ho
    | 7, h, _ =>
      simp at h; subst h
      exact ⟨3, by decide, rfl⟩
    | 8, h, _ =>
      simp at h; subst h
      exact ⟨6, by decide, rfl⟩
    | i+9, h, _ => simp at h

end LC.Conc
