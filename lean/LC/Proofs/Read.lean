/- Helper lemmas for LC/Props/C08.lean. TO BE PROVED (no sorry may remain). -/
import LC.Model.V2Tok
namespace LC.V2Tok
open LC.Utf8
-- required: decodeRune_width', decodeRune_local', feed_eq_decodeAll', feed_pad',
--           stableTail_of_ascii_end', feedR_spec', nonvacuous_example
end LC.V2Tok
