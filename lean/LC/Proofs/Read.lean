/-
Helper lemmas for LC/Props/C08.lean: UTF-8 decoder width/locality, the buffered
read loop equals whole-input decoding, padding, reader errors.  Core Lean only.
-/
import LC.Model.V2Tok
namespace LC.V2Tok
open LC.Utf8

/-! ### decodeRune: width and locality -/

theorem decodeRune_width' (p : List UInt8) (h : p ≠ []) :
    1 ≤ (decodeRune p).2 ∧ (decodeRune p).2 ≤ 4 ∧ (decodeRune p).2 ≤ p.length := by
  match p, h with
  | [a], _ => unfold decodeRune; simp only []; repeat' split
              all_goals simp
  | [a, b], _ => unfold decodeRune; simp only []; repeat' split
                 all_goals simp
  | [a, b, c], _ => unfold decodeRune; simp only []; repeat' split
                    all_goals simp
  | a :: b :: c :: d :: rest, _ => unfold decodeRune; simp only []; repeat' split
                                   all_goals simp

theorem decodeRune_local' (p q : List UInt8) (h : 4 ≤ p.length) : decodeRune (p ++ q) = decodeRune p := by
  match p, h with
  | a :: b :: c :: d :: rest, _ => 
    simp only [List.cons_append]
    unfold decodeRune; rfl

theorem isCont_of_ascii (b : UInt8) (hb : b.toNat < 0x80) : isCont b = false := by
  simp [isCont]; omega

theorem decodeRune_ascii_end (s t : List UInt8) (b : UInt8) (hb : b.toNat < 0x80) :
    decodeRune (s ++ [b] ++ t) = decodeRune (s ++ [b]) := by
  have hc := isCont_of_ascii b hb
  match s with
  | [] => simp [decodeRune, hb]
  | [a] => 
    simp only [List.cons_append, List.nil_append]
    unfold decodeRune; simp only [hc]
    repeat' split
    all_goals first | rfl | (simp_all <;> omega)
  | [a, c] => 
    simp only [List.cons_append, List.nil_append]
    unfold decodeRune; simp only [hc]
    repeat' split
    all_goals first | rfl | (simp_all <;> omega)
  | a :: c :: d :: rest => 
    rw [decodeRune_local']
    simp

/-! ### StableTail -/

theorem stableTail_nil : StableTail [] := by
  intro s t hs hsuf
  simp at hsuf; exact absurd hsuf hs

theorem stableTail_of_ascii_end' (bs : List UInt8) (b : UInt8) (hb : b.toNat < 0x80) :
    StableTail (bs ++ [b]) ∧ StableTail [] := by
  refine ⟨?_, stableTail_nil⟩
  intro s t hs hsuf
  rcases List.eq_nil_or_concat s with h | ⟨s', c, h⟩
  · exact absurd h hs
  · subst h
    have : c = b := by
      obtain ⟨u, hu⟩ := hsuf
      have := congrArg List.getLast? hu
      simpa using this
    subst this
    simpa using decodeRune_ascii_end s' t c hb


/-! ### decodeAll unfolding -/

theorem decodeAll_nil : decodeAll ([] : List UInt8) = [] := by
  simp [decodeAll, decodeAllW]

theorem decodeAll_ne_nil (p : List UInt8) (h : p ≠ []) :
    decodeAll p = (decodeRune p).1 :: decodeAll (p.drop (decodeRune p).2) := by
  have hw := (decodeRune_width' p h).1
  match p, h with
  | a :: rest, _ =>
    have hm : max 1 (decodeRune (a :: rest)).2 = (decodeRune (a :: rest)).2 := Nat.max_eq_right hw
    simp only [decodeAll]
    rw [decodeAllW]
    simp only [List.map_cons, hm]

/-! ### StableTail closure -/

theorem StableTail.of_suffix {l s : List UInt8} (h : StableTail l) (hs : s <:+ l) : StableTail s :=
  fun u t hu hsuf => h u t hu (hsuf.trans hs)

theorem StableTail.cons_ascii {l : List UInt8} (h : StableTail l) (b : UInt8) (hb : b.toNat < 0x80) :
    StableTail (b :: l) := by
  intro s t hs hsuf
  rcases List.suffix_cons_iff.mp hsuf with heq | hsuf'
  · subst heq
    simp [decodeRune, hb]
  · exact h s t hs hsuf'

/-! ### the window loop -/

theorem decodeWindow_ge : ∀ (fuel : Nat) (win : List UInt8) (tgt idx : Nat), tgt ≤ idx + fuel →
    tgt ≤ (decodeWindow win tgt idx fuel).2 ∧ idx ≤ (decodeWindow win tgt idx fuel).2 := by
  intro fuel
  induction fuel with
  | zero => intro win tgt idx h; simp [decodeWindow]; omega
  | succ fuel ih =>
    intro win tgt idx h
    by_cases hlt : idx < tgt
    · have := ih (win.drop (max 1 (decodeRune win).2)) tgt (idx + max 1 (decodeRune win).2) (by omega)
      simp only [decodeWindow, hlt, if_true]
      omega
    · simp only [decodeWindow, hlt, if_false]
      omega

/-- If at every position before `tgt` the decoder sees in the window `win` what it would see
in the genuine input `g`, the window loop produces an initial segment of the runes of `g`. -/
theorem win_spec : ∀ (fuel : Nat) (win g : List UInt8) (tgt idx : Nat), tgt ≤ idx + fuel →
    (∀ p, idx + p < tgt → p < g.length ∧ decodeRune (win.drop p) = decodeRune (g.drop p)) →
    ∃ m, (decodeWindow win tgt idx fuel).2 = idx + m ∧ m ≤ g.length ∧ tgt ≤ idx + m ∧
      idx + m ≤ max idx (tgt + 3) ∧
      decodeAll g = (decodeWindow win tgt idx fuel).1 ++ decodeAll (g.drop m) := by
  intro fuel
  induction fuel with
  | zero =>
    intro win g tgt idx h _
    refine ⟨0, ?_⟩
    simp [decodeWindow]; omega
  | succ fuel ih =>
    intro win g tgt idx h H
    by_cases hlt : idx < tgt
    · obtain ⟨hg, hd⟩ := H 0 (by omega)
      simp only [List.drop_zero] at hd
      have hne : g ≠ [] := List.ne_nil_of_length_pos hg
      obtain ⟨hw1, hw4, hwl⟩ := decodeRune_width' g hne
      have hm : max 1 (decodeRune g).2 = (decodeRune g).2 := Nat.max_eq_right hw1
      obtain ⟨m, h1, h2, h3, h4, h5⟩ := ih (win.drop (decodeRune g).2) (g.drop (decodeRune g).2) tgt
        (idx + (decodeRune g).2) (by omega) (by
          intro p hp
          obtain ⟨a, b⟩ := H ((decodeRune g).2 + p) (by omega)
          refine ⟨by simp only [List.length_drop]; omega, ?_⟩
          simpa only [List.drop_drop] using b)
      refine ⟨(decodeRune g).2 + m, ?_⟩
      simp only [decodeWindow, hlt, if_true, hd, hm]
      simp only [List.length_drop] at h2
      refine ⟨by omega, by omega, by omega, by omega, ?_⟩
      rw [decodeAll_ne_nil g hne, h5, List.drop_drop]
      simp
    · refine ⟨0, ?_⟩
      simp only [decodeWindow, hlt, if_false]
      simp; omega

/-! ### the read loop -/

theorem readLoop_short (src buf : List UInt8) (idx fuel : Nat) (h : src.length < bufSize - idx) :
    readLoop src buf idx (fuel + 1) =
      (decodeWindow (buf.take idx ++ src ++ buf.drop (idx + src.length)) (idx + src.length) 0
        (bufSize + 1)).1 := by
  have ht : src.take (bufSize - idx) = src := List.take_of_length_le (by omega)
  simp only [readLoop, ht, h, if_true]

theorem readLoop_full (src buf : List UInt8) (idx fuel : Nat) (h : bufSize - idx ≤ src.length) :
    readLoop src buf idx (fuel + 1) =
      (decodeWindow (buf.take idx ++ src.take (bufSize - idx) ++ buf.drop (idx + (bufSize - idx)))
          (bufSize - carry) 0 (bufSize + 1)).1 ++
        readLoop (src.drop (bufSize - idx))
          ((buf.take idx ++ src.take (bufSize - idx) ++ buf.drop (idx + (bufSize - idx))).drop
              (decodeWindow (buf.take idx ++ src.take (bufSize - idx) ++ buf.drop (idx + (bufSize - idx)))
                (bufSize - carry) 0 (bufSize + 1)).2 ++
            (buf.take idx ++ src.take (bufSize - idx) ++ buf.drop (idx + (bufSize - idx))).drop
              ((buf.take idx ++ src.take (bufSize - idx) ++ buf.drop (idx + (bufSize - idx))).drop
                (decodeWindow (buf.take idx ++ src.take (bufSize - idx) ++ buf.drop (idx + (bufSize - idx)))
                  (bufSize - carry) 0 (bufSize + 1)).2).length)
          ((buf.take idx ++ src.take (bufSize - idx) ++ buf.drop (idx + (bufSize - idx))).drop
              (decodeWindow (buf.take idx ++ src.take (bufSize - idx) ++ buf.drop (idx + (bufSize - idx)))
                (bufSize - carry) 0 (bufSize + 1)).2).length
          fuel := by
  have hl : (src.take (bufSize - idx)).length = bufSize - idx := by
    rw [List.length_take]; omega
  have hn : ¬ (bufSize - idx < bufSize - idx) := by omega
  simp only [readLoop, hl, hn, if_false]

/-- length bookkeeping for the carry-over copy -/
theorem carry_lengths (buf1 : List UInt8) (m : Nat) (hl : buf1.length = bufSize)
    (hm : bufSize - carry ≤ m) :
    (buf1.drop m).length ≤ carry ∧
      (buf1.drop m ++ buf1.drop (buf1.drop m).length).length = bufSize := by
  simp only [List.length_append, List.length_drop, hl]
  simp only [bufSize, carry] at *
  omega

theorem readLoop_spec : ∀ (fuel : Nat) (src buf : List UInt8) (idx : Nat), buf.length = bufSize →
    idx ≤ carry → src.length < fuel → StableTail (buf.take idx ++ src) →
    readLoop src buf idx fuel = decodeAll (buf.take idx ++ src) := by
  intro fuel
  induction fuel with
  | zero => intro src buf idx _ _ h; omega
  | succ fuel ih =>
    intro src buf idx hbuf hidx hfuel hst
    have hB : bufSize = 1024 := rfl
    have hC : carry = 4 := rfl
    have htk : (buf.take idx).length = idx := by rw [List.length_take]; omega
    by_cases hshort : src.length < bufSize - idx
    · -- final chunk: the window is the remaining input followed by stale bytes
      rw [readLoop_short src buf idx fuel hshort]
      have hRlen : (buf.take idx ++ src).length = idx + src.length := by
        rw [List.length_append, htk]
      obtain ⟨m, _, h2, h3, _, h5⟩ := win_spec (bufSize + 1)
        (buf.take idx ++ src ++ buf.drop (idx + src.length)) (buf.take idx ++ src)
        (idx + src.length) 0 (by omega) (by
          intro p hp
          refine ⟨by omega, ?_⟩
          rw [List.drop_append_of_le_length (by omega)]
          apply hst
          · apply List.ne_nil_of_length_pos
            rw [List.length_drop]; omega
          · exact List.drop_suffix _ _)
      have hm : m = (buf.take idx ++ src).length := by omega
      rw [h5, hm, List.drop_length, decodeAll_nil, List.append_nil]
    · -- a full buffer: 1024 genuine bytes, decoding stops in [1020, 1023]
      have hfull : bufSize - idx ≤ src.length := by omega
      rw [readLoop_full src buf idx fuel hfull]
      have hdrop : buf.drop (idx + (bufSize - idx)) = [] := by
        apply List.drop_eq_nil_of_le; omega
      rw [hdrop, List.append_nil]
      generalize hb1 : buf.take idx ++ src.take (bufSize - idx) = buf1
      have hlen1 : buf1.length = bufSize := by
        rw [← hb1, List.length_append, htk, List.length_take]; omega
      have hR : buf.take idx ++ src = buf1 ++ src.drop (bufSize - idx) := by
        rw [← hb1, List.append_assoc, List.take_append_drop]
      obtain ⟨m, h1, h2, h3, h4, h5⟩ := win_spec (bufSize + 1) buf1 (buf.take idx ++ src)
        (bufSize - carry) 0 (by omega) (by
          intro p hp
          refine ⟨by rw [hR, List.length_append]; omega, ?_⟩
          rw [hR, List.drop_append_of_le_length (by omega)]
          exact (decodeRune_local' _ _ (by rw [List.length_drop]; omega)).symm)
      rw [Nat.zero_add] at h1
      rw [h1]
      obtain ⟨hc1, hc2⟩ := carry_lengths buf1 m hlen1 (by omega)
      have hsuf : (buf1.drop m ++ src.drop (bufSize - idx)) <:+ (buf.take idx ++ src) := by
        rw [hR, ← List.drop_append_of_le_length (by omega)]
        exact List.drop_suffix _ _
      have hih := ih (src.drop (bufSize - idx)) (buf1.drop m ++ buf1.drop (buf1.drop m).length)
        (buf1.drop m).length hc2 hc1 (by rw [List.length_drop]; omega)
        (by rw [List.take_left']; exact hst.of_suffix hsuf; rfl)
      rw [hih, h5, List.take_left' rfl, hR, List.drop_append_of_le_length (by omega)]

theorem feed_eq_decodeAll' (bs : List UInt8) (h : StableTail bs) : feed bs = decodeAll bs := by
  have := readLoop_spec (bs.length + 2) bs (List.replicate bufSize 0) 0 (by simp) (by simp [carry])
    (by omega) (by simpa using h)
  simpa [feed] using this

/-! ### padding -/

theorem stableTail_pad (bs : List UInt8) (k : Nat) (h : StableTail bs) :
    StableTail (List.replicate k 32 ++ bs) := by
  induction k with
  | zero => simpa using h
  | succ k ih =>
    rw [List.replicate_succ, List.cons_append]
    exact ih.cons_ascii 32 (by decide)

theorem decodeAll_pad (bs : List UInt8) (k : Nat) :
    decodeAll (List.replicate k 32 ++ bs) = List.replicate k 32 ++ decodeAll bs := by
  induction k with
  | zero => simp
  | succ k ih =>
    rw [List.replicate_succ, List.cons_append, decodeAll_ne_nil _ (by simp)]
    have : decodeRune (32 :: (List.replicate k 32 ++ bs)) = (32, 1) := by
      simp [decodeRune]
    rw [this]
    simp [ih, List.replicate_succ]

theorem feed_pad' (bs : List UInt8) (k : Nat) (h : StableTail bs) :
    feed (List.replicate k 32 ++ bs) = List.replicate k 32 ++ feed bs := by
  rw [feed_eq_decodeAll' _ (stableTail_pad bs k h), feed_eq_decodeAll' bs h, decodeAll_pad]

/-! ### reader errors -/

theorem readLoopR_eof : ∀ (fuel : Nat) (src buf : List UInt8) (idx : Nat),
    readLoopR src .eof buf idx fuel = .ok (readLoop src buf idx fuel) := by
  intro fuel
  induction fuel with
  | zero => intro src buf idx; simp [readLoopR, readLoop]
  | succ fuel ih =>
    intro src buf idx
    simp only [readLoopR, readLoop, ih, endsInput, decide_true, Bool.not_true, Bool.false_eq_true,
      and_false, if_false]
    split <;> rfl

theorem readLoopR_err (term : RErr) (hterm : term ≠ .eof) : ∀ (fuel : Nat) (src buf : List UInt8)
    (idx : Nat), buf.length = bufSize → idx ≤ carry → src.length < fuel →
    readLoopR src term buf idx fuel = .error term := by
  intro fuel
  induction fuel with
  | zero => intro src buf idx _ _ h; omega
  | succ fuel ih =>
    intro src buf idx hbuf hidx hfuel
    have hB : bufSize = 1024 := rfl
    have hC : carry = 4 := rfl
    have hE : endsInput term = false := by simp [endsInput, hterm]
    have htk : (buf.take idx).length = idx := by rw [List.length_take]; omega
    by_cases hshort : src.length < bufSize - idx
    · have ht : src.take (bufSize - idx) = src := List.take_of_length_le (by omega)
      simp [readLoopR, ht, hshort, hE]
    · have hl : (src.take (bufSize - idx)).length = bufSize - idx := by
        rw [List.length_take]; omega
      have hn : ¬ (bufSize - idx < bufSize - idx) := by omega
      simp only [readLoopR, hl, hn, false_and, if_false]
      generalize hb1 : buf.take idx ++ src.take (bufSize - idx) ++ buf.drop (idx + (bufSize - idx)) = buf1
      have hlen1 : buf1.length = bufSize := by
        rw [← hb1, List.length_append, List.length_append, htk, hl, List.length_drop]; omega
      have hge := (decodeWindow_ge (bufSize + 1) buf1 (bufSize - carry) 0 (by omega)).1
      obtain ⟨hc1, hc2⟩ := carry_lengths buf1 _ hlen1 hge
      rw [ih _ _ _ hc2 hc1 (by rw [List.length_drop]; omega)]

theorem feedR_spec' (bs : List UInt8) (term : RErr) :
    feedR bs term = (if term = .eof then .ok (feed bs) else .error term) := by
  by_cases h : term = .eof
  · subst h
    simp [feedR, feed, readLoopR_eof]
  · simp only [h, if_false]
    exact readLoopR_err term h (bs.length + 2) bs (List.replicate bufSize 0) 0 (by simp)
      (by simp [carry]) (by omega)

/-! ### non-vacuity -/

theorem nonvacuous_example :
    StableTail [0xC3, 0xA9, 0x61] ∧ decodeAll [0xC3, 0xA9, 0x61] = [0xE9, 0x61] := by
  refine ⟨(stableTail_of_ascii_end' [0xC3, 0xA9] 0x61 (by decide)).1, ?_⟩
  simp [decodeAll, decodeAllW, decodeRune, isCont]

end LC.V2Tok
