/- Helper lemmas for LC/Props/C06.lean. TO BE PROVED (no sorry may remain). -/
import LC.Spec.TokSpec
import LC.Model.V2Env
import LC.Proofs.Tok
namespace LC.V2Tok
open LC.Utf8
end LC.V2Tok
