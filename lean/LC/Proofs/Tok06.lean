/- Helper lemmas for LC/Props/C06.lean. -/
import LC.Spec.TokSpec
import LC.Model.V2Env
import LC.Proofs.Tok
namespace LC.V2Tok
open LC.Utf8

theorem marker_dropped' (E : Env) (w : Word) (n : Bool) (h : header E w = true) :
    cleanupToken E 0 w n = [] := by
  unfold cleanupToken
  simp [h]

theorem header_concat (E : Env) (p : Word) (e : Rune) :
    header E (p ++ [e]) =
      if e = 46 ∨ e = 58 ∨ e = 41 then
        (if E.listMarker (p.map E.toLower) ∧ e ≠ 41 then true
         else p.all (fun r => E.isDigit r || r = 46))
      else false := by
  unfold header
  simp only [List.getLast?_append, List.getLast?_singleton, Option.some_or, List.dropLast_concat]

theorem header_iff' (E : Env) (w : Word) :
    header E w = true ↔
      ∃ p e, w = p ++ [e] ∧ (e = 46 ∨ e = 58 ∨ e = 41) ∧
        ((E.listMarker (p.map E.toLower) = true ∧ e ≠ 41) ∨ p.all (fun r => E.isDigit r || r = 46) = true) := by
  rcases List.eq_nil_or_concat w with hw | ⟨p, e, hw⟩
  · subst hw
    constructor
    · intro h; simp [header] at h
    · rintro ⟨p, e, h, _⟩; simp at h
  · rw [List.concat_eq_append] at hw
    subst hw
    rw [header_concat]
    constructor
    · intro h
      refine ⟨p, e, rfl, ?_⟩
      by_cases hc : e = 46 ∨ e = 58 ∨ e = 41
      · refine ⟨hc, ?_⟩
        rw [if_pos hc] at h
        by_cases hm : E.listMarker (p.map E.toLower) = true ∧ e ≠ 41
        · exact Or.inl hm
        · rw [if_neg hm] at h
          exact Or.inr h
      · rw [if_neg hc] at h; cases h
    · rintro ⟨p', e', hpe, hc, hor⟩
      obtain ⟨hp, he⟩ := List.append_inj' hpe rfl
      simp only [List.cons.injEq, and_true] at he
      subst hp he
      rw [if_pos hc]
      by_cases hm : E.listMarker (p.map E.toLower) = true ∧ e ≠ 41
      · rw [if_pos hm]
      · rw [if_neg hm]
        rcases hor with h | h
        · exact absurd h hm
        · exact h


/-! ### marker examples over the Go tables -/

open LC.V2Env LC.Gen.Unicode in
def digitChecks06 : List (Nat × Nat × Bool) := [(48, 57, true)]

open LC.V2Env LC.Gen.Unicode in
theorem digitChecks06_ok : uniformAll digitRanges digitChecks06 = true := by decide +kernel

open LC.V2Env LC.Gen.Unicode in
theorem isDigit_true (r : Nat) (h : 48 ≤ r ∧ r ≤ 57) : LC.V2Env.isDigit r = true :=
  uniformAll_sound _ _ digitChecks06_ok 48 57 true (by simp [digitChecks06]) r h.1 h.2

open LC.V2Env in
theorem marker_examples' (u : Word → Word) :
    header (goEnv u) (lit "1.") = true ∧ header (goEnv u) (lit "iv.") = true ∧
    header (goEnv u) (lit "a.") = true ∧ header (goEnv u) (lit "3.1.") = true ∧
    header (goEnv u) (lit "b:") = true ∧ header (goEnv u) (lit "12)") = true ∧
    header (goEnv u) (lit "a)") = false := by
  have e1 : lit "1." = [49] ++ [46] := by decide
  have e2 : lit "iv." = [105, 118] ++ [46] := by decide
  have e3 : lit "a." = [97] ++ [46] := by decide
  have e4 : lit "3.1." = [51, 46, 49] ++ [46] := by decide
  have e5 : lit "b:" = [98] ++ [58] := by decide
  have e6 : lit "12)" = [49, 50] ++ [41] := by decide
  have e7 : lit "a)" = [97] ++ [41] := by decide
  have d49 := isDigit_true 49 (by omega)
  have d50 := isDigit_true 50 (by omega)
  have d51 := isDigit_true 51 (by omega)
  have d97 := isDigit_false 97 (by omega)
  have l97 := toLower_id 97 (by omega)
  have l98 := toLower_id 98 (by omega)
  have l105 := toLower_id 105 (by omega)
  have l118 := toLower_id 118 (by omega)
  have m1 : LC.V2Env.listMarker [97] = true := by decide
  have m2 : LC.V2Env.listMarker [98] = true := by decide
  have m3 : LC.V2Env.listMarker [105, 118] = true := by decide
  rw [e1, e2, e3, e4, e5, e6, e7]
  simp only [header_concat]
  simp [goEnv, d49, d50, d51, d97, l97, l98, l105, l118, m1, m2, m3]

/-! ### the scheme rewrite -/

theorem replaceHttps_match (rest : List Rune) :
    replaceHttps (104 :: 116 :: 116 :: 112 :: 115 :: 58 :: 47 :: 47 :: rest) =
      104 :: 116 :: 116 :: 112 :: 58 :: 47 :: 47 :: replaceHttps rest := by
  rw [replaceHttps]

theorem replaceHttps_ne (c : Rune) (l : List Rune) (h : c ≠ 104) :
    replaceHttps (c :: l) = c :: replaceHttps l := by
  rw [replaceHttps]
  intro rest
  simp [h]

theorem replaceHttps_head (l : List Rune) : (replaceHttps l).head? = l.head? := by
  fun_cases replaceHttps l <;> simp

/-- the output starts with the rune the input starts with -/
theorem replaceHttps_cons_inv (c : Rune) (l X : List Rune) (h : c ≠ 104)
    (e : replaceHttps l = c :: X) : ∃ l', l = c :: l' ∧ X = replaceHttps l' := by
  have hh := replaceHttps_head l
  rw [e] at hh
  cases l with
  | nil => simp at hh
  | cons a t =>
    simp only [List.head?_cons, Option.some.injEq] at hh
    subst hh
    rw [replaceHttps_ne c t h] at e
    simp only [List.cons.injEq, true_and] at e
    exact ⟨t, rfl, e.symm⟩

theorem replaceHttps_nomatch (c : Rune) (l : List Rune)
    (h : ∀ rest, c :: l ≠ 104 :: 116 :: 116 :: 112 :: 115 :: 58 :: 47 :: 47 :: rest) :
    replaceHttps (c :: l) = c :: replaceHttps l := by
  rw [replaceHttps]
  intro rest e1 e2
  exact h rest (by rw [e1, e2])

theorem replaceHttps_http (R : List Rune) :
    replaceHttps (104 :: 116 :: 116 :: 112 :: 58 :: 47 :: 47 :: R) =
      104 :: 116 :: 116 :: 112 :: 58 :: 47 :: 47 :: replaceHttps R := by
  rw [replaceHttps_nomatch _ _ (by intro rest; simp)]
  rw [replaceHttps_ne _ _ (by decide), replaceHttps_ne _ _ (by decide), replaceHttps_ne _ _ (by decide),
    replaceHttps_ne _ _ (by decide), replaceHttps_ne _ _ (by decide), replaceHttps_ne _ _ (by decide)]

theorem replaceHttps_idem' (w : List Rune) : replaceHttps (replaceHttps w) = replaceHttps w := by
  fun_induction replaceHttps w with
  | case1 rest ih => rw [replaceHttps_http, ih]
  | case2 c rest hno ih =>
    rw [replaceHttps_nomatch, ih]
    intro Y e
    simp only [List.cons.injEq] at e
    obtain ⟨hc, e⟩ := e
    obtain ⟨r1, h1, e⟩ := replaceHttps_cons_inv _ _ _ (by decide) e
    obtain ⟨r2, h2, e⟩ := replaceHttps_cons_inv _ _ _ (by decide) e.symm
    obtain ⟨r3, h3, e⟩ := replaceHttps_cons_inv _ _ _ (by decide) e.symm
    obtain ⟨r4, h4, e⟩ := replaceHttps_cons_inv _ _ _ (by decide) e.symm
    obtain ⟨r5, h5, e⟩ := replaceHttps_cons_inv _ _ _ (by decide) e.symm
    obtain ⟨r6, h6, e⟩ := replaceHttps_cons_inv _ _ _ (by decide) e.symm
    obtain ⟨r7, h7, e⟩ := replaceHttps_cons_inv _ _ _ (by decide) e.symm
    subst hc h1 h2 h3 h4 h5 h6 h7
    exact hno r7 rfl rfl
  | case3 => rfl

theorem fixHttpsHead_nomatch (l : List Rune)
    (h : ∀ rest, l ≠ 72 :: 116 :: 116 :: 112 :: 115 :: 58 :: 47 :: 47 :: rest) :
    fixHttpsHead l = l := by
  rw [fixHttpsHead]
  intro rest e
  exact h rest e

/-- the head rewrite leaves no leading "Https://" -/
theorem fixHttpsHead_no_head (w : List Rune) :
    ∀ rest, fixHttpsHead w ≠ 72 :: 116 :: 116 :: 112 :: 115 :: 58 :: 47 :: 47 :: rest := by
  fun_cases fixHttpsHead w with
  | case1 r => intro rest; simp
  | case2 => rename_i hno; intro rest e; exact hno rest e

/-- the scheme rewrite creates no leading "Https://" -/
theorem fixHttpsHead_replaceHttps (l : List Rune)
    (h : ∀ rest, l ≠ 72 :: 116 :: 116 :: 112 :: 115 :: 58 :: 47 :: 47 :: rest) :
    fixHttpsHead (replaceHttps l) = replaceHttps l := by
  apply fixHttpsHead_nomatch
  intro Y e
  obtain ⟨r0, h0, e⟩ := replaceHttps_cons_inv _ _ _ (by decide) e
  obtain ⟨r1, h1, e⟩ := replaceHttps_cons_inv _ _ _ (by decide) e.symm
  obtain ⟨r2, h2, e⟩ := replaceHttps_cons_inv _ _ _ (by decide) e.symm
  obtain ⟨r3, h3, e⟩ := replaceHttps_cons_inv _ _ _ (by decide) e.symm
  obtain ⟨r4, h4, e⟩ := replaceHttps_cons_inv _ _ _ (by decide) e.symm
  obtain ⟨r5, h5, e⟩ := replaceHttps_cons_inv _ _ _ (by decide) e.symm
  obtain ⟨r6, h6, e⟩ := replaceHttps_cons_inv _ _ _ (by decide) e.symm
  obtain ⟨r7, h7, e⟩ := replaceHttps_cons_inv _ _ _ (by decide) e.symm
  subst h0 h1 h2 h3 h4 h5 h6 h7
  exact h r7 rfl

theorem normalizeToken_idem' (w : List Rune) : normalizeToken (normalizeToken w) = normalizeToken w := by
  unfold normalizeToken
  rw [fixHttpsHead_replaceHttps _ (fixHttpsHead_no_head w), replaceHttps_idem']

open LC.V2Env in
theorem https_http' (r : List Rune) :
    replaceHttps (lit "https://" ++ r) = replaceHttps (lit "http://" ++ r) := by
  have e1 : lit "https://" = [104, 116, 116, 112, 115, 58, 47, 47] := by decide
  have e2 : lit "http://" = [104, 116, 116, 112, 58, 47, 47] := by decide
  rw [e1, e2]
  simp only [List.cons_append, List.nil_append]
  rw [replaceHttps_match, replaceHttps_http]

/-! ### spelling variants -/

theorem filter_of_all {α : Type} (p : α → Bool) (l : List α) (h : l.all p = true) : l.filter p = l := by
  rw [List.filter_eq_self]
  simpa using h

theorem header_letter_last (E : Env) (hE : E.isLetter 46 = false ∧ E.isLetter 58 = false ∧ E.isLetter 41 = false)
    (w : Word) (hw : w.all E.isLetter = true) : header E w = false := by
  unfold header
  cases hl : w.getLast? with
  | none => rfl
  | some e =>
    have hm : e ∈ w := List.mem_of_getLast? hl
    have he : E.isLetter e = true := (List.all_eq_true.mp hw) e hm
    have : ¬ (e = 46 ∨ e = 58 ∨ e = 41) := by
      rintro (h | h | h) <;> subst h <;> simp_all
    simp only [this, if_false]

theorem cleanup_letters (E : Env) (hE : E.isLetter 46 = false ∧ E.isLetter 58 = false ∧ E.isLetter 41 = false)
    (pos : Nat) (w : Word) (hne : w ≠ []) (hw : w.all E.isLetter = true) :
    cleanupToken E pos w true = (E.interchangeable w).getD w := by
  unfold cleanupToken
  have hh := header_letter_last E hE w hw
  have hr : E.isLetter ((List.head? w).getD runeError) = true := by
    cases w with
    | nil => exact absurd rfl hne
    | cons a t => exact (List.all_eq_true.mp hw) a (by simp)
  simp [hh, hr, filter_of_all E.isLetter w hw]

/-- ADJUSTED (hypothesis `hE` added) -/
theorem interchangeable_same_token' (E : Env)
    (hE : E.isLetter 46 = false ∧ E.isLetter 58 = false ∧ E.isLetter 41 = false)
    (pos : Nat) (a b : Word)
    (ha : a ≠ [] ∧ a.all E.isLetter = true) (hb : b ≠ [] ∧ b.all E.isLetter = true)
    (hab : E.interchangeable a = some b) (hbb : E.interchangeable b = none) :
    cleanupToken E pos a true = cleanupToken E pos b true := by
  rw [cleanup_letters E hE pos a ha.1 ha.2, cleanup_letters E hE pos b hb.1 hb.2, hab, hbb]
  simp

open LC.V2Env in
theorem goEnv_letters (u : Word → Word) :
    (goEnv u).isLetter 46 = false ∧ (goEnv u).isLetter 58 = false ∧ (goEnv u).isLetter 41 = false := by
  have h1 := isLetter_false 46 (by omega)
  have h2 := isLetter_false 58 (by omega)
  have h3 := isLetter_false 41 (by omega)
  simp only [goEnv]
  exact ⟨h1, h2, h3⟩

/-! ### notice lines -/

/-- within a line nothing is deferred and neither the line number nor the document moves -/
theorem step_inline (E : Env) (n : Bool) (s : State) (r : Rune) (hr : r ≠ nl)
    (hd : s.deferredEOL = false) (hw : s.deferredLines = 0) :
    (step E n s r).deferredEOL = false ∧ (step E n s r).deferredLines = 0 ∧
      (step E n s r).line = s.line ∧ (step E n s r).doc = s.doc := by
  rw [step_eq]
  simp only [hr, if_false]
  by_cases h2 : s.obuf = []
  · simp only [h2, if_true]
    unfold startOrSkip
    by_cases h4 : E.starter r = true <;> simp [h4, hd, hw]
  · simp only [h2, if_false]
    by_cases h3 : E.isSpace r = true
    · simp only [h3, if_true, hd]
      unfold startOrSkip spaceFlush
      simp only [hw]
      by_cases h4 : E.starter r = true <;> simp [h4, hd]
    · simp only [h3]
      unfold contStep
      simp [hd, hw]

theorem scanFrom_inline (E : Env) (n : Bool) (rs : List Rune) (s : State) (hr : nl ∉ rs)
    (hd : s.deferredEOL = false) (hw : s.deferredLines = 0) :
    (scanFrom E n s rs).deferredEOL = false ∧ (scanFrom E n s rs).deferredLines = 0 ∧
      (scanFrom E n s rs).line = s.line ∧ (scanFrom E n s rs).doc = s.doc := by
  induction rs generalizing s with
  | nil => exact ⟨hd, hw, rfl, rfl⟩
  | cons a t ih =>
    have ha : a ≠ nl := fun e => hr (by simp [e])
    have ht : nl ∉ t := fun e => hr (by simp [e])
    obtain ⟨h1, h2, h3, h4⟩ := step_inline E n s a ha hd hw
    have := ih (step E n s a) ht h1 h2
    unfold scanFrom at this ⊢
    simp only [List.foldl_cons]
    rw [h3, h4] at this
    exact this

theorem scanFrom_append (E : Env) (n : Bool) (s : State) (xs ys : List Rune) :
    scanFrom E n s (xs ++ ys) = scanFrom E n (scanFrom E n s xs) ys := by
  unfold scanFrom
  rw [List.foldl_append]

theorem scanFrom_single (E : Env) (n : Bool) (s : State) (r : Rune) :
    scanFrom E n s [r] = step E n s r := rfl

theorem notice_line' (E : Env) (s : State) (hc : Clean s) (n : List Rune) (hn : nl ∉ n)
    (_hd : (scanFrom E true s n).deferredEOL = false)
    (hh : (scanFrom E true s n).obuf.getLast? ≠ some hyphen)
    (hne : lineBufOf E (scanFrom E true s n) ≠ [])
    (hi : E.ignorable (joinLine (lineBufOf E (scanFrom E true s n))) = true) :
    scanFrom E true s (n ++ [nl]) =
      { obuf := [], linebuf := [], line := s.line + 1, deferredEOL := false, deferredLines := 0,
        doc := { s.doc with copyrights := s.doc.copyrights ++ [s.line] } } := by
  obtain ⟨_, _, c3, c4⟩ := hc
  obtain ⟨i1, i2, i3, i4⟩ := scanFrom_inline E true n s hn c3 c4
  rw [scanFrom_append, scanFrom_single, step_eq]
  simp only [if_true]
  generalize scanFrom E true s n = t at *
  unfold nlStep
  simp only [hh, and_false, if_false]
  have hlb : (if t.obuf ≠ [] then t.linebuf ++ [flushWord E t.obuf] else t.linebuf) = lineBufOf E t := by
    unfold lineBufOf
    by_cases h : t.obuf = [] <;> simp [h]
  rw [hlb]
  unfold appendLine processLine
  simp only [hne, hi, if_true, if_false, i1, i2, i3, i4]
  simp [hne]

/-! ### hyphenation -/

/-- ADJUSTED (hypotheses `hhs`, `hhc` added): the hyphen is not a space and continues a word as itself -/
theorem hyphen_join_word' (E : Env) (_wf : EnvWF E)
    (hhs : E.isSpace hyphen = false)
    (hhc : (match E.punct hyphen with | some rep => rep.map E.toLower | none => [E.toLower hyphen]) = [hyphen])
    (s : State) (x sp : List Rune) (c : Rune)
    (hx : (scanFrom E true s x).obuf ≠ []) (hxd : (scanFrom E true s x).deferredEOL = false)
    (hsp : ∀ r ∈ sp, E.isSpace r = true ∧ r ≠ nl) (hc : E.isSpace c = false) (hcn : c ≠ nl) :
    (scanFrom E true s (x ++ [hyphen, nl] ++ sp ++ [c])).obuf = (scanFrom E true s (x ++ [c])).obuf := by
  have e : x ++ [hyphen, nl] ++ sp ++ [c] = x ++ ([hyphen] ++ ([nl] ++ (sp ++ [c]))) := by simp
  rw [e]
  simp only [scanFrom_append, scanFrom_single]
  generalize scanFrom E true s x = t at *
  -- the hyphen continues the word
  have h1 : step E true t hyphen = { t with obuf := t.obuf ++ [hyphen] } := by
    rw [step_eq]
    have : ¬ hyphen = nl := by decide
    simp only [this, if_false, hx, hhs]
    have hhc' : contOf E hyphen = [hyphen] := hhc
    rw [hhc']
    unfold contStep
    simp [hxd]
  -- the newline strips it and defers the end of line
  have h2 : step E true { t with obuf := t.obuf ++ [hyphen] } nl = { t with deferredEOL := true } := by
    rw [step_eq]
    simp only [if_true]
    unfold nlStep
    simp
  -- the indentation is skipped
  have h3 : ∀ (sp : List Rune), (∀ r ∈ sp, E.isSpace r = true ∧ r ≠ nl) →
      scanFrom E true { t with deferredEOL := true } sp = { t with deferredEOL := true } := by
    intro sp hsp
    induction sp with
    | nil => rfl
    | cons a l ih =>
      have ha := hsp a (by simp)
      have : step E true { t with deferredEOL := true } a = { t with deferredEOL := true } := by
        rw [step_eq]
        simp only [ha.2, if_false, hx, ha.1, if_true]
      show scanFrom E true (step E true { t with deferredEOL := true } a) l = _
      rw [this]
      exact ih (fun r hr => hsp r (by simp [hr]))
  rw [h1, h2, h3 sp hsp]
  rw [step_eq, step_eq]
  simp only [hcn, if_false, hx, hc]
  unfold contStep
  simp [hxd]

open LC.V2Env in
/-- the Go tables satisfy the hypotheses added to `hyphen_join_word` -/
theorem goEnv_hyphen (u : Word → Word) :
    (goEnv u).isSpace hyphen = false ∧
    (match (goEnv u).punct hyphen with
      | some rep => rep.map (goEnv u).toLower
      | none => [(goEnv u).toLower hyphen]) = [hyphen] := by
  have h1 := isSpace_false 45 (by omega)
  have h2 := punct_dash 45 (by omega)
  have h3 := toLower_id 45 (by omega)
  simp only [goEnv, hyphen]
  refine ⟨h1, ?_⟩
  rw [h2]
  simp only [List.map_cons, List.map_nil, h3]

end LC.V2Tok
