/-
Helper lemmas for LC/Props/C04.lean (sorting is a function of the multiset, the comparators
are strict total orders, the match result does not depend on map iteration order, dictionary
round trip).  Core Lean only.
-/
import LC.Model.V2Match

namespace LC.V2Match.Ord
open LC.V2Match

/-! ### insertion sort -/

theorem insertSorted_perm {α : Type} (less : α → α → Bool) (x : α) (l : List α) :
    (insertSorted less x l).Perm (x :: l) := by
  induction l with
  | nil => exact List.Perm.refl _
  | cons y ys ih =>
    simp only [insertSorted]
    split
    · exact List.Perm.refl _
    · exact (List.Perm.cons y ih).trans (List.Perm.swap x y ys)

theorem sortBy_nil {α : Type} (less : α → α → Bool) : sortBy less [] = [] := rfl

theorem sortBy_cons {α : Type} (less : α → α → Bool) (x : α) (xs : List α) :
    sortBy less (x :: xs) = insertSorted less x (sortBy less xs) := rfl

theorem sortBy_perm {α : Type} (less : α → α → Bool) (l : List α) : (sortBy less l).Perm l := by
  induction l with
  | nil => exact List.Perm.refl _
  | cons x xs ih =>
    rw [sortBy_cons]
    exact (insertSorted_perm less x _).trans (List.Perm.cons x ih)

/-- insertion keeps sortedness; only irreflexivity and transitivity are needed -/
theorem insertSorted_sorted {α : Type} (less : α → α → Bool)
    (hi : ∀ a, less a a = false)
    (ht : ∀ a b c, less a b = true → less b c = true → less a c = true)
    (x : α) (l : List α) (hs : l.Pairwise (fun a b => less b a = false)) :
    (insertSorted less x l).Pairwise (fun a b => less b a = false) := by
  induction l with
  | nil => simp [insertSorted]
  | cons y ys ih =>
    rw [List.pairwise_cons] at hs
    simp only [insertSorted]
    by_cases hxy : less x y = true
    · rw [if_pos hxy]
      refine List.pairwise_cons.2 ⟨?_, List.pairwise_cons.2 hs⟩
      intro b hb
      rcases List.mem_cons.1 hb with hby | hb
      · subst hby
        cases h : less b x with
        | false => rfl
        | true =>
          have := ht _ _ _ hxy h
          rw [hi] at this; cases this
      · cases h : less b x with
        | false => rfl
        | true =>
          have := ht _ _ _ h hxy
          rw [hs.1 b hb] at this; cases this
    · rw [if_neg hxy]
      refine List.pairwise_cons.2 ⟨?_, ih hs.2⟩
      intro b hb
      have hb' := (insertSorted_perm less x ys).subset hb
      rcases List.mem_cons.1 hb' with hbx | hb
      · subst hbx
        simpa using hxy
      · exact hs.1 b hb

theorem sortBy_sorted {α : Type} (less : α → α → Bool)
    (hi : ∀ a, less a a = false)
    (ht : ∀ a b c, less a b = true → less b c = true → less a c = true)
    (l : List α) : (sortBy less l).Pairwise (fun a b => less b a = false) := by
  induction l with
  | nil => exact List.Pairwise.nil
  | cons x xs ih =>
    rw [sortBy_cons]
    exact insertSorted_sorted less hi ht x _ ih

/-- uniqueness of the sorted permutation, trichotomy only required on the elements present -/
theorem sorted_perm_unique_rel {α : Type} (less : α → α → Bool) (l₁ l₂ : List α) (hp : l₁.Perm l₂)
    (tri : ∀ a ∈ l₁, ∀ b ∈ l₁, less a b = false → less b a = false → a = b)
    (h₁ : l₁.Pairwise (fun a b => less b a = false))
    (h₂ : l₂.Pairwise (fun a b => less b a = false)) : l₁ = l₂ := by
  refine List.Perm.eq_of_pairwise (le := fun a b => less b a = false) ?_ h₁ h₂ hp
  intro a b ha hb hab hba
  exact tri a ha b (hp.symm.subset hb) hba hab

theorem sort_order_irrelevant_rel {α : Type} (less : α → α → Bool)
    (hi : ∀ a, less a a = false)
    (ht : ∀ a b c, less a b = true → less b c = true → less a c = true)
    (l₁ l₂ : List α) (hp : l₁.Perm l₂)
    (tri : ∀ a ∈ l₁, ∀ b ∈ l₁, less a b = false → less b a = false → a = b) :
    sortBy less l₁ = sortBy less l₂ := by
  refine sorted_perm_unique_rel less _ _
    (((sortBy_perm less l₁).trans hp).trans (sortBy_perm less l₂).symm) ?_
    (sortBy_sorted less hi ht l₁) (sortBy_sorted less hi ht l₂)
  intro a ha b hb
  exact tri a ((sortBy_perm less l₁).subset ha) b ((sortBy_perm less l₁).subset hb)

/-! ### lexicographic combination of comparators -/

/-- `less` is irreflexive and transitive, and two elements it does not order are `E`-related -/
structure LexOK {α : Type} (less : α → α → Bool) (E : α → α → Prop) : Prop where
  irrefl : ∀ a, less a a = false
  trans : ∀ a b c, less a b = true → less b c = true → less a c = true
  tri : ∀ a b, less a b = false → less b a = false → E a b

theorem lexOK_base {α : Type} : LexOK (fun (_ _ : α) => false) (fun _ _ => True) :=
  ⟨fun _ => rfl, fun _ _ _ h => (by cases h), fun _ _ _ _ => trivial⟩

/-- one more key in front: compare `f a` with `f b` by the strict total order `lb`, fall back to
`rest` when they are equal -/
theorem lex_step {α β : Type} (f : α → β) (lb : β → β → Bool) (hb : StrictTotal lb)
    (rest less : α → α → Bool) (E : α → α → Prop)
    (h1 : ∀ a b, f a ≠ f b → less a b = lb (f a) (f b))
    (h2 : ∀ a b, f a = f b → less a b = rest a b)
    (hr : LexOK rest E) : LexOK less (fun a b => f a = f b ∧ E a b) where
  irrefl a := by rw [h2 a a rfl]; exact hr.irrefl a
  trans a b c hab hbc := by
    by_cases e1 : f a = f b
    · by_cases e2 : f b = f c
      · rw [h2 _ _ e1] at hab; rw [h2 _ _ e2] at hbc; rw [h2 _ _ (e1.trans e2)]
        exact hr.trans _ _ _ hab hbc
      · have e3 : f a ≠ f c := e1 ▸ e2
        rw [h1 _ _ e2] at hbc; rw [h1 _ _ e3, e1]; exact hbc
    · by_cases e2 : f b = f c
      · have e3 : f a ≠ f c := e2 ▸ e1
        rw [h1 _ _ e1] at hab; rw [h1 _ _ e3, ← e2]; exact hab
      · rw [h1 _ _ e1] at hab; rw [h1 _ _ e2] at hbc
        have hac := hb.trans _ _ _ hab hbc
        have e3 : f a ≠ f c := by
          intro e
          rw [e, hb.irrefl] at hac; cases hac
        rw [h1 _ _ e3]; exact hac
  tri a b hab hba := by
    by_cases e : f a = f b
    · rw [h2 _ _ e] at hab; rw [h2 _ _ e.symm] at hba; exact ⟨e, hr.tri _ _ hab hba⟩
    · rw [h1 _ _ e] at hab; rw [h1 _ _ (Ne.symm e)] at hba
      exact absurd (hb.tri _ _ hab hba) e

theorem intLt_total : StrictTotal (fun (x y : Int) => decide (x < y)) :=
  ⟨by intro a; simp, by intro a b c; simp; omega, by intro a b; simp; omega⟩

theorem intGt_total : StrictTotal (fun (x y : Int) => decide (x > y)) :=
  ⟨by intro a; simp, by intro a b c; simp; omega, by intro a b; simp; omega⟩

theorem natLt_total : StrictTotal (fun (x y : Nat) => decide (x < y)) :=
  ⟨by intro a; simp, by intro a b c; simp; omega, by intro a b; simp; omega⟩

theorem strLt_total : StrictTotal (fun (x y : String) => decide (x < y)) :=
  ⟨by intro a; simp,
   by intro a b c; simp only [decide_eq_true_eq]; exact String.lt_trans,
   by
    intro a b
    simp only [decide_eq_false_iff_not, String.not_lt]
    exact fun h1 h2 => String.le_antisymm h2 h1⟩

theorem gt_total {C : Type} (N : NumEnv C) (laws : NumLaws N) : StrictTotal N.gt :=
  ⟨laws.gt_irrefl, laws.gt_trans, laws.gt_tri⟩

/-! ### `Matches.Less` -/

section MatchLess
variable {C : Type}

def l7 (a b : Match C) : Bool := decide (a.variant < b.variant)
def l6 (a b : Match C) : Bool := if a.name ≠ b.name then decide (a.name < b.name) else l7 a b
def l5 (a b : Match C) : Bool :=
  if a.matchType ≠ b.matchType then decide (a.matchType < b.matchType) else l6 a b
def l4 (a b : Match C) : Bool :=
  if a.endLine ≠ b.endLine then decide (a.endLine < b.endLine) else l5 a b
def l3 (a b : Match C) : Bool :=
  if a.startLine ≠ b.startLine then decide (a.startLine < b.startLine) else l4 a b
def l2 (a b : Match C) : Bool :=
  if a.endTok ≠ b.endTok then decide (a.endTok > b.endTok) else l3 a b
def l1 (a b : Match C) : Bool :=
  if a.startTok ≠ b.startTok then decide (a.startTok < b.startTok) else l2 a b

theorem matchLess_eq (N : NumEnv C) (a b : Match C) :
    matchLess N a b =
      if N.gt a.conf b.conf = true ∨ N.gt b.conf a.conf = true then N.gt a.conf b.conf else l1 a b := rfl

abbrev E7 (a b : Match C) : Prop := a.variant = b.variant ∧ True
abbrev E6 (a b : Match C) : Prop := a.name = b.name ∧ E7 a b
abbrev E5 (a b : Match C) : Prop := a.matchType = b.matchType ∧ E6 a b
abbrev E4 (a b : Match C) : Prop := a.endLine = b.endLine ∧ E5 a b
abbrev E3 (a b : Match C) : Prop := a.startLine = b.startLine ∧ E4 a b
abbrev E2 (a b : Match C) : Prop := a.endTok = b.endTok ∧ E3 a b
abbrev E1 (a b : Match C) : Prop := a.startTok = b.startTok ∧ E2 a b
abbrev E0 (a b : Match C) : Prop := a.conf = b.conf ∧ E1 a b

theorem l7_ok : LexOK (l7 (C := C)) E7 :=
  lex_step (fun a => a.variant) _ strLt_total (fun _ _ => false) l7 _
    (fun _ _ _ => rfl)
    (fun a b h => by
      show decide (a.variant < b.variant) = false
      rw [h]; simp)
    lexOK_base

theorem l6_ok : LexOK (l6 (C := C)) E6 :=
  lex_step (fun a => a.name) _ strLt_total l7 l6 _
    (fun a b h => by simp [l6, h]) (fun a b h => by simp [l6, h]) l7_ok

theorem l5_ok : LexOK (l5 (C := C)) E5 :=
  lex_step (fun a => a.matchType) _ strLt_total l6 l5 _
    (fun a b h => by simp [l5, h]) (fun a b h => by simp [l5, h]) l6_ok

theorem l4_ok : LexOK (l4 (C := C)) E4 :=
  lex_step (fun a => a.endLine) _ natLt_total l5 l4 _
    (fun a b h => by simp [l4, h]) (fun a b h => by simp [l4, h]) l5_ok

theorem l3_ok : LexOK (l3 (C := C)) E3 :=
  lex_step (fun a => a.startLine) _ natLt_total l4 l3 _
    (fun a b h => by simp [l3, h]) (fun a b h => by simp [l3, h]) l4_ok

theorem l2_ok : LexOK (l2 (C := C)) E2 :=
  lex_step (fun a => a.endTok) _ intGt_total l3 l2 _
    (fun a b h => by simp [l2, h]) (fun a b h => by simp [l2, h]) l3_ok

theorem l1_ok : LexOK (l1 (C := C)) E1 :=
  lex_step (fun a => a.startTok) _ intLt_total l2 l1 _
    (fun a b h => by simp [l1, h]) (fun a b h => by simp [l1, h]) l2_ok

theorem matchLess_ok (N : NumEnv C) (laws : NumLaws N) : LexOK (matchLess N) E0 :=
  lex_step (fun a => a.conf) N.gt (gt_total N laws) l1 (matchLess N) _
    (fun a b h => by
      have hc : N.gt a.conf b.conf = true ∨ N.gt b.conf a.conf = true := by
        cases h1 : N.gt a.conf b.conf with
        | true => exact Or.inl rfl
        | false =>
          cases h2 : N.gt b.conf a.conf with
          | true => exact Or.inr rfl
          | false => exact absurd (laws.gt_tri _ _ h1 h2) h
      rw [matchLess_eq, if_pos hc])
    (fun a b h => by
      have hc : ¬ (N.gt a.conf b.conf = true ∨ N.gt b.conf a.conf = true) := by
        rw [h, laws.gt_irrefl]; simp
      rw [matchLess_eq, if_neg hc])
    l1_ok

theorem matchLess_total (N : NumEnv C) (laws : NumLaws N) : StrictTotal (matchLess N) where
  irrefl := (matchLess_ok N laws).irrefl
  trans := (matchLess_ok N laws).trans
  tri a b h1 h2 := by
    have h := (matchLess_ok N laws).tri a b h1 h2
    cases a; cases b
    simp only [Match.mk.injEq]
    obtain ⟨e1, e2, e3, e4, e5, e6, e7, e8, _⟩ := h
    exact ⟨e7, e1, e6, e8, e4, e5, e2, e3⟩

end MatchLess

/-! ### `matchRanges.Less` -/

abbrev F3 (a b : MR) : Prop := a.srcStart = b.srcStart ∧ True
abbrev F2 (a b : MR) : Prop := a.tgtStart = b.tgtStart ∧ F3 a b
abbrev F1 (a b : MR) : Prop := a.claimed = b.claimed ∧ F2 a b

def m3 (a b : MR) : Bool := decide (a.srcStart < b.srcStart)
def m2 (a b : MR) : Bool := if a.tgtStart ≠ b.tgtStart then decide (a.tgtStart < b.tgtStart) else m3 a b

theorem mrLess_eq (a b : MR) :
    mrLess a b = if a.claimed ≠ b.claimed then decide (a.claimed > b.claimed) else m2 a b := rfl

theorem m3_ok : LexOK m3 F3 :=
  lex_step (fun a => a.srcStart) _ intLt_total (fun _ _ => false) m3 _
    (fun _ _ _ => rfl)
    (fun a b h => by
      show decide (a.srcStart < b.srcStart) = false
      rw [h]; simp)
    lexOK_base

theorem m2_ok : LexOK m2 F2 :=
  lex_step (fun a => a.tgtStart) _ intLt_total m3 m2 _
    (fun a b h => by simp [m2, h]) (fun a b h => by simp [m2, h]) m3_ok

theorem mrLess_ok : LexOK mrLess F1 :=
  lex_step (fun a => a.claimed) _ intGt_total m2 mrLess _
    (fun a b h => by rw [mrLess_eq, if_pos h])
    (fun a b h => by rw [mrLess_eq, if_neg (not_not_intro h)]) m2_ok

/-! ### the dictionary -/

theorem getIndex_ne_zero_iff (d : Dict) (w : List Nat) : d.getIndex w ≠ 0 ↔ w ∈ d.words := by
  unfold Dict.getIndex
  cases h : d.words.idxOf? w with
  | none => simp [List.idxOf?_eq_none_iff.1 h]
  | some i =>
    have hm : w ∈ d.words := by
      have := List.isSome_idxOf? (l := d.words) (a := w)
      rw [h] at this; simpa using this
    simp [hm]

theorem getIndex_eq_zero_iff (d : Dict) (w : List Nat) : d.getIndex w = 0 ↔ w ∉ d.words := by
  rw [← getIndex_ne_zero_iff]; simp

theorem getWord_getIndex (d : Dict) (w : List Nat) (hm : w ∈ d.words) :
    d.getWord (d.getIndex w) = some w := by
  unfold Dict.getIndex
  cases h : d.words.idxOf? w with
  | none => exact absurd hm (List.idxOf?_eq_none_iff.1 h)
  | some i =>
    obtain ⟨hi, hw, _⟩ := List.idxOf?_eq_some_iff.1 h
    simp [Dict.getWord, hi, hw]

theorem getIndex_of_getWord (d : Dict) (hn : d.words.Nodup) (w : List Nat) (i : Nat)
    (h : d.getWord i = some w) : d.getIndex w = i := by
  unfold Dict.getWord at h
  by_cases hi : i = 0
  · simp [hi] at h
  · rw [if_neg hi] at h
    obtain ⟨hlt, hw⟩ := List.getElem?_eq_some_iff.1 h
    have hidx : d.words.idxOf? w = some (i - 1) := by
      refine List.idxOf?_eq_some_iff.2 ⟨hlt, hw, ?_⟩
      intro j hj hjw
      have hp := List.pairwise_iff_getElem.1 hn j (i - 1) (Nat.lt_trans hj hlt) hlt hj
      exact hp (hjw.trans hw.symm)
    unfold Dict.getIndex
    rw [hidx]; simp; omega

theorem add_words (d : Dict) (v : List Nat) :
    (d.add v).1.words = if v ∈ d.words then d.words else d.words ++ [v] := by
  unfold Dict.add
  by_cases hv : v ∈ d.words
  · rw [if_pos ((getIndex_ne_zero_iff d v).2 hv), if_pos hv]
  · rw [if_neg (fun h => hv ((getIndex_ne_zero_iff d v).1 h)), if_neg hv]

theorem addAll_cons (d : Dict) (v : List Nat) (ws : List (List Nat)) :
    d.addAll (v :: ws) = (d.add v).1.addAll ws := rfl

theorem addAll_inv (ws : List (List Nat)) (d : Dict) (hn : d.words.Nodup) :
    (d.addAll ws).words.Nodup ∧ ∀ w, w ∈ (d.addAll ws).words ↔ w ∈ d.words ∨ w ∈ ws := by
  induction ws generalizing d with
  | nil => exact ⟨hn, fun w => by simp [Dict.addAll]⟩
  | cons v vs ih =>
    rw [addAll_cons]
    have hn' : (d.add v).1.words.Nodup := by
      rw [add_words]
      by_cases hv : v ∈ d.words
      · rw [if_pos hv]; exact hn
      · rw [if_neg hv]
        refine List.nodup_append.2 ⟨hn, by simp, ?_⟩
        intro a ha b hb
        rw [List.mem_singleton] at hb
        intro e; subst e; subst hb; exact hv ha
    obtain ⟨h1, h2⟩ := ih _ hn'
    refine ⟨h1, fun w => ?_⟩
    rw [h2 w, add_words]
    by_cases hv : v ∈ d.words
    · rw [if_pos hv]
      constructor
      · rintro (h | h)
        · exact Or.inl h
        · exact Or.inr (List.mem_cons_of_mem _ h)
      · rintro (h | h)
        · exact Or.inl h
        · rcases List.mem_cons.1 h with e | h
          · exact Or.inl (e ▸ hv)
          · exact Or.inr h
    · rw [if_neg hv]
      simp only [List.mem_append, List.mem_cons, List.not_mem_nil, or_false]
      constructor
      · rintro ((h | h) | h)
        · exact Or.inl h
        · exact Or.inr (Or.inl h)
        · exact Or.inr (Or.inr h)
      · rintro (h | h | h)
        · exact Or.inl (Or.inl h)
        · exact Or.inl (Or.inr h)
        · exact Or.inr h

theorem getIndex_append_of_mem (ws : List (List Nat)) (v w : List Nat) (hm : w ∈ ws) :
    (Dict.mk (ws ++ [v])).getIndex w = (Dict.mk ws).getIndex w := by
  unfold Dict.getIndex
  show (match (ws ++ [v]).idxOf? w with | some i => i + 1 | none => 0) =
    (match ws.idxOf? w with | some i => i + 1 | none => 0)
  have : (ws ++ [v]).idxOf? w = ws.idxOf? w := by
    cases h : ws.idxOf? w with
    | none => exact absurd hm (List.idxOf?_eq_none_iff.1 h)
    | some i =>
      have h' : List.findIdx? (· == w) ws = some i := h
      simp only [List.idxOf?, List.findIdx?_append, h']
      rfl
  rw [this]

/-! ### `match` and the iteration order of the corpus -/

theorem foldlM_error_inv {ε β γ : Type} (P : ε → Prop) (f : β → γ → Except ε β)
    (h : ∀ acc x e, f acc x = .error e → P e) (l : List γ) (init : β) (e : ε)
    (he : l.foldlM f init = .error e) : P e := by
  induction l generalizing init with
  | nil => simp [List.foldlM, pure, Except.pure] at he
  | cons x xs ih =>
    rw [List.foldlM_cons] at he
    cases hx : f init x with
    | error e' =>
      rw [hx] at he
      have : e' = e := by simpa [bind, Except.bind] using he
      exact this ▸ h _ _ _ hx
    | ok b =>
      rw [hx] at he
      exact ih b (by simpa [bind, Except.bind] using he)

/-- the candidates of a document, `[]` if it fails -/
def getOk {ε β : Type} (r : Except ε (List β)) : List β :=
  match r with
  | .ok ms => ms
  | .error _ => []

theorem foldlM_append_ok {ε β γ : Type} (g : γ → Except ε (List β))
    (f : List β → γ → Except ε (List β))
    (hok : ∀ acc p ms, g p = .ok ms → f acc p = .ok (acc ++ ms))
    (herr : ∀ acc p e, g p = .error e → f acc p = .error e)
    (l : List γ) (init r : List β) (h : l.foldlM f init = .ok r) :
    r = init ++ l.flatMap (fun p => getOk (g p)) := by
  induction l generalizing init with
  | nil =>
    have : init = r := by simpa [List.foldlM, pure, Except.pure] using h
    simp [this]
  | cons x xs ih =>
    rw [List.foldlM_cons] at h
    cases hx : g x with
    | error e =>
      rw [herr init x e hx] at h
      simp [bind, Except.bind] at h
    | ok ms =>
      rw [hok init x ms hx] at h
      have h' : xs.foldlM f (init ++ ms) = .ok r := by simpa [bind, Except.bind] using h
      rw [ih _ h', List.flatMap_cons, hx]
      simp [getOk]

section MatchModel
variable {C : Type} (N : NumEnv C) (crc : Text → Nat) (wordOf : Nat → Text)
  (isDigitRune : Nat → Bool) (decode : Text → List Nat) (induced : List (Text × List Text))
  (diffOf : KDoc → Nat → Nat → Option (List (LC.Score.Diff Nat))) (cntT : Nat → Nat)
  (target : Array IdTok) (crs : List Nat)

def firstPass (docs : List PDoc) : List PDoc :=
  docs.filter (fun p =>
    let s := tokenSimWith cntT p.cnt p.ks
    N.simGE s.1 s.2)

def crMs : List (Match C) := crs.map (fun l =>
  { name := "Copyright", conf := N.confOne, matchType := "Copyright", variant := "",
    startLine := l, endLine := l, startTok := 0, endTok := 0 })

def candsOf (p : PDoc) : Except (Outcome C) (List (Match C)) :=
  let tids := target.toList.map (·.id)
  let qt := effQ N.q tids.length
  let th := hashes crc wordOf qt tids
  docCandidates N wordOf isDigitRune decode induced diffOf target th qt p

def step (acc : List (Match C)) (p : PDoc) : Except (Outcome C) (List (Match C)) :=
  match candsOf N crc wordOf isDigitRune decode induced diffOf target p with
  | Except.ok ms => Except.ok (acc ++ ms)
  | Except.error e => Except.error e

def post (cands : List (Match C)) : Outcome C :=
  let sorted := sortBy (matchLess N) cands
  let retain := retainPass N sorted
  let out := (sorted.zip retain).filterMap (fun (p : Match C × Bool) => if p.2 then some p.1 else none)
  match target.back? with
  | none => .ok { ms := out, totalInputLines := 0 }
  | some t => .ok { ms := out, totalInputLines := t.line }

theorem matchModel_eq (docs : List PDoc) :
    matchModel N crc wordOf isDigitRune decode induced diffOf cntT docs target crs =
      if firstPass N cntT docs = [] then .ok { ms := [], totalInputLines := 0 }
      else
        match (firstPass N cntT docs).foldlM
            (step N crc wordOf isDigitRune decode induced diffOf target) (crMs N crs) with
        | Except.error e => e
        | Except.ok cands => post N target cands := rfl

/-- a failing document reports a panic or a missing oracle entry, never a result -/
theorem candsOf_error (p : PDoc) (e : Outcome C)
    (h : candsOf N crc wordOf isDigitRune decode induced diffOf target p = .error e) :
    ∀ r, e ≠ .ok r := by
  unfold candsOf docCandidates at h
  simp only at h
  split at h
  · cases h; intro r hr; cases hr
  · refine foldlM_error_inv (fun e => ∀ r, e ≠ Outcome.ok r) _ ?_ _ _ e h
    intro acc m e' he'
    split at he'
    · cases he'; intro r hr; cases hr
    · split at he'
      · split at he'
        · cases he'
        · cases he'; intro r hr; cases hr
      · cases he'

theorem step_error (acc : List (Match C)) (p : PDoc) (e : Outcome C)
    (h : step N crc wordOf isDigitRune decode induced diffOf target acc p = .error e) :
    ∀ r, e ≠ .ok r := by
  unfold step at h
  split at h
  · cases h
  · next e' he' =>
    cases h
    exact candsOf_error N crc wordOf isDigitRune decode induced diffOf target p _ he'

theorem post_congr (c₁ c₂ : List (Match C))
    (h : sortBy (matchLess N) c₁ = sortBy (matchLess N) c₂) : post N target c₁ = post N target c₂ := by
  simp only [post, h]

theorem fold_ok (l : List PDoc) (init r : List (Match C))
    (h : l.foldlM (step N crc wordOf isDigitRune decode induced diffOf target) init = .ok r) :
    r = init ++ l.flatMap (fun p =>
      getOk (candsOf N crc wordOf isDigitRune decode induced diffOf target p)) := by
  refine foldlM_append_ok _ _ ?_ ?_ l init r h
  · intro acc p ms hg
    simp only [step, hg]
  · intro acc p e hg
    simp only [step, hg]

end MatchModel

end LC.V2Match.Ord

namespace LC.V2Match

theorem sortBy_perm' {α : Type} (less : α → α → Bool) (l : List α) : (sortBy less l).Perm l :=
  Ord.sortBy_perm less l

theorem sortBy_sorted' {α : Type} (less : α → α → Bool) (tot : StrictTotal less) (l : List α) :
    (sortBy less l).Pairwise (fun a b => less b a = false) :=
  Ord.sortBy_sorted less tot.irrefl tot.trans l

theorem sort_order_irrelevant' {α : Type} (less : α → α → Bool) (tot : StrictTotal less)
    (l₁ l₂ : List α) (hp : l₁.Perm l₂) : sortBy less l₁ = sortBy less l₂ :=
  Ord.sort_order_irrelevant_rel less tot.irrefl tot.trans l₁ l₂ hp
    (fun a _ b _ => tot.tri a b)

theorem sorted_perm_unique' {α : Type} (less : α → α → Bool) (tot : StrictTotal less)
    (l₁ l₂ : List α) (hp : l₁.Perm l₂)
    (h₁ : l₁.Pairwise (fun a b => less b a = false)) (h₂ : l₂.Pairwise (fun a b => less b a = false)) :
    l₁ = l₂ :=
  Ord.sorted_perm_unique_rel less l₁ l₂ hp (fun a _ b _ => tot.tri a b) h₁ h₂

theorem matchLess_total' {C : Type} (N : NumEnv C) (laws : NumLaws N) : StrictTotal (matchLess N) :=
  Ord.matchLess_total N laws

theorem mr_sort_order_irrelevant' (l₁ l₂ : List MR) (hp : l₁.Perm l₂)
    (hk : ∀ a ∈ l₁, ∀ b ∈ l₁, a.tgtStart = b.tgtStart → a.srcStart = b.srcStart →
      a.claimed = b.claimed → a = b) :
    sortBy mrLess l₁ = sortBy mrLess l₂ :=
  Ord.sort_order_irrelevant_rel mrLess Ord.mrLess_ok.irrefl Ord.mrLess_ok.trans l₁ l₂ hp
    (fun a ha b hb h1 h2 =>
      have h := Ord.mrLess_ok.tri a b h1 h2
      hk a ha b hb h.2.1 h.2.2.1 h.1)

theorem dict_roundtrip' (ws : List (List Nat)) (w : List Nat) (i : Nat) :
    let d := (Dict.mk []).addAll ws
    (w ∈ ws → d.getIndex w ≠ 0 ∧ d.getWord (d.getIndex w) = some w) ∧
    (d.getWord i = some w → d.getIndex w = i) ∧
    (w ∉ ws → d.getIndex w = 0) := by
  intro d
  obtain ⟨hn, hm⟩ := Ord.addAll_inv ws (Dict.mk []) List.nodup_nil
  have hm' : w ∈ d.words ↔ w ∈ ws := by
    rw [show d.words = ((Dict.mk []).addAll ws).words from rfl, hm w]; simp
  refine ⟨fun h => ?_, fun h => ?_, fun h => ?_⟩
  · have hw := hm'.2 h
    exact ⟨(Ord.getIndex_ne_zero_iff d w).2 hw, Ord.getWord_getIndex d w hw⟩
  · exact Ord.getIndex_of_getWord d hn w i h
  · exact (Ord.getIndex_eq_zero_iff d w).2 (fun hw => h (hm'.1 hw))

theorem dict_add_stable' (d : Dict) (w v : List Nat) (h : d.getIndex w ≠ 0) :
    (d.add v).1.getIndex w = d.getIndex w := by
  have hw := (Ord.getIndex_ne_zero_iff d w).1 h
  unfold Dict.add
  by_cases hv : d.getIndex v ≠ 0
  · rw [if_pos hv]
  · rw [if_neg hv]
    exact Ord.getIndex_append_of_mem d.words v w hw

theorem match_order_independent' {C : Type} (N : NumEnv C) (laws : NumLaws N)
    (crc : Text → Nat) (wordOf : Nat → Text) (isDigitRune : Nat → Bool) (decode : Text → List Nat)
    (induced : List (Text × List Text)) (diffOf : KDoc → Nat → Nat → Option (List (LC.Score.Diff Nat)))
    (cntT : Nat → Nat) (docs₁ docs₂ : List PDoc) (hp : docs₁.Perm docs₂)
    (target : Array IdTok) (crs : List Nat) (r₁ r₂ : Results C)
    (h₁ : matchModel N crc wordOf isDigitRune decode induced diffOf cntT docs₁ target crs = .ok r₁)
    (h₂ : matchModel N crc wordOf isDigitRune decode induced diffOf cntT docs₂ target crs = .ok r₂) :
    r₁.ms = r₂.ms ∧ r₁.totalInputLines = r₂.totalInputLines := by
  rw [Ord.matchModel_eq] at h₁ h₂
  have hF : (Ord.firstPass N cntT docs₁).Perm (Ord.firstPass N cntT docs₂) := hp.filter _
  by_cases e1 : Ord.firstPass N cntT docs₁ = []
  · have e2 : Ord.firstPass N cntT docs₂ = [] := by
      rw [e1] at hF; exact hF.nil_eq.symm
    rw [if_pos e1] at h₁; rw [if_pos e2] at h₂
    cases h₁; cases h₂; exact ⟨rfl, rfl⟩
  · have e2 : Ord.firstPass N cntT docs₂ ≠ [] := fun e => e1 (by rw [e] at hF; exact hF.eq_nil)
    rw [if_neg e1] at h₁; rw [if_neg e2] at h₂
    cases hf1 : (Ord.firstPass N cntT docs₁).foldlM
        (Ord.step N crc wordOf isDigitRune decode induced diffOf target) (Ord.crMs N crs) with
    | error e =>
      rw [hf1] at h₁
      exact absurd h₁ (Ord.foldlM_error_inv (fun e => ∀ r, e ≠ Outcome.ok r) _
        (Ord.step_error N crc wordOf isDigitRune decode induced diffOf target) _ _ e hf1 r₁)
    | ok c₁ =>
      cases hf2 : (Ord.firstPass N cntT docs₂).foldlM
          (Ord.step N crc wordOf isDigitRune decode induced diffOf target) (Ord.crMs N crs) with
      | error e =>
        rw [hf2] at h₂
        exact absurd h₂ (Ord.foldlM_error_inv (fun e => ∀ r, e ≠ Outcome.ok r) _
          (Ord.step_error N crc wordOf isDigitRune decode induced diffOf target) _ _ e hf2 r₂)
      | ok c₂ =>
        rw [hf1] at h₁; rw [hf2] at h₂
        have hc₁ := Ord.fold_ok N crc wordOf isDigitRune decode induced diffOf target _ _ _ hf1
        have hc₂ := Ord.fold_ok N crc wordOf isDigitRune decode induced diffOf target _ _ _ hf2
        have hperm : c₁.Perm c₂ := by
          rw [hc₁, hc₂]
          exact List.Perm.append_left _ (List.Perm.flatMap_right _ hF)
        have hs := sort_order_irrelevant' (matchLess N) (matchLess_total' N laws) c₁ c₂ hperm
        have hpost := Ord.post_congr N target c₁ c₂ hs
        have h₁' : Ord.post N target c₁ = Outcome.ok r₁ := h₁
        have h₂' : Ord.post N target c₂ = Outcome.ok r₂ := h₂
        rw [hpost, h₂'] at h₁'
        cases h₁'
        exact ⟨rfl, rfl⟩

end LC.V2Match
