/-
Helper lemmas for the second part of LC/Props/C14.lean (readers-writer lock discipline).
-/
import LC.Model.RW

namespace LC.RW

/-! ### replay -/

theorem replay_append (l : LS) (a b : List Act) :
    replay l (a ++ b) = (replay l a).bind (fun l' => replay l' b) := by
  induction a generalizing l with
  | nil => simp [replay]
  | cons x a ih =>
    cases x <;> cases l <;> simp [replay, ih]

theorem threadOK_append' (a b : List Act) (ha : ThreadOK a) (hb : ThreadOK b) : ThreadOK (a ++ b) := by
  unfold ThreadOK at *
  rw [replay_append, ha]; simpa using hb

theorem prefixOK_of_threadOK' (a b : List Act) (h : ThreadOK (a ++ b)) : PrefixOK a := by
  unfold ThreadOK at h; unfold PrefixOK
  rw [replay_append] at h
  cases h' : replay .U a with
  | none => rw [h'] at h; simp at h
  | some l => rfl

/-! ### soundness of the checker -/

/-- what the checker's verdict `r` (from `st`, loop-entry state `le`) says about a path -/
def OutOK (st le : St) (r : Option St) (acts : List Act) : Out → Prop
  | .fall st' => r = some st' ∧ replay st.ls acts = some st'.ls
  | .jump st' => st' = le ∧ replay st.ls acts = some st'.ls
  | .ret => replay st.ls acts = some .U

theorem OutOK_mono {st le : St} {ra r : Option St} {acts : List Act} {o : Out}
    (hm : ∀ x, ra = some x → r = some x) (h : OutOK st le ra acts o) : OutOK st le r acts o := by
  cases o with
  | fall st' => exact ⟨hm _ h.1, h.2⟩
  | jump st' => exact h
  | ret => exact h

theorem OutOK_prepend {st st' le : St} {r : Option St} {a1 a2 : List Act} {o : Out}
    (h1 : replay st.ls a1 = some st'.ls) (h : OutOK st' le r a2 o) : OutOK st le r (a1 ++ a2) o := by
  cases o with
  | fall s => exact ⟨h.1, by rw [replay_append, h1]; exact h.2⟩
  | jump s => exact ⟨h.1, by rw [replay_append, h1]; exact h.2⟩
  | ret => show replay st.ls (a1 ++ a2) = some .U; rw [replay_append, h1]; exact h

theorem joinRes_left {a b : Res} {r : Option St} (h : joinRes a b = some r) :
    ∃ ra, a = some ra ∧ ∀ x, ra = some x → r = some x := by
  rcases a with _ | _ | x <;> rcases b with _ | _ | y <;> simp [joinRes] at h ⊢
  · exact h.symm
  · exact h.2.symm

theorem joinRes_right {a b : Res} {r : Option St} (h : joinRes a b = some r) :
    ∃ rb, b = some rb ∧ ∀ x, rb = some x → r = some x := by
  rcases a with _ | _ | x <;> rcases b with _ | _ | y <;> simp [joinRes] at h ⊢
  · exact h.symm
  · rcases h with ⟨h1, h2⟩; subst h1; exact h2.symm

theorem stepS_sound {x : SAct} {st le : St} {r : Option St} (h1 : x ≠ .ret) (h2 : x ≠ .jump)
    (h : stepS x st le = some r) :
    r = some (applyS x st) ∧ replay st.ls (actsS x) = some (applyS x st).ls := by
  obtain ⟨ls, dfr⟩ := st
  cases x with
  | a y => cases y <;> cases ls <;> simp_all [stepS, applyS, actsS, replay]
  | deferUnlock => cases ls <;> simp_all [stepS, applyS, actsS, replay]
  | deferRUnlock => cases ls <;> simp_all [stepS, applyS, actsS, replay]
  | alias => simp [stepS] at h
  | ret => exact absurd rfl h1
  | jump => exact absurd rfl h2

theorem release_sound {st : St} (h : endOK st = true) : replay st.ls (release st) = some .U := by
  obtain ⟨ls, dfr⟩ := st
  cases ls <;> rcases dfr with _ | d <;> (try cases d) <;> simp_all [endOK, release, replay]

theorem checkLoop_inv {b : Blk} {st le : St} {r : Option St} (h : checkSk (.loop b) st le = some r) :
    r = some st ∧ ∃ rb, checkBlk b st st = some rb ∧ ∀ x, rb = some x → x = st := by
  rw [checkSk] at h
  rcases hb : checkBlk b st st with _ | _ | x <;> rw [hb] at h <;> simp at h ⊢
  · exact h.symm
  · by_cases hx : x = st <;> simp [hx] at h ⊢
    exact h.symm

theorem checkCons_inv {k : Sk} {t : Blk} {st le : St} {r : Option St}
    (h : checkBlk (.cons k t) st le = some r) :
    ∃ rk, checkSk k st le = some rk ∧ (rk = none → r = none) ∧ ∀ x, rk = some x → checkBlk t x le = some r := by
  rw [checkBlk] at h
  rcases hk : checkSk k st le with _ | _ | x <;> rw [hk] at h <;> simp at h ⊢
  · exact h.symm
  · exact h

/-- the two statements proved by mutual induction on the run derivations -/
def SoundSk (k : Sk) (st : St) (acts : List Act) (o : Out) : Prop :=
  ∀ le r, checkSk k st le = some r → OutOK st le r acts o
def SoundBlk (b : Blk) (st : St) (acts : List Act) (o : Out) : Prop :=
  ∀ le r, checkBlk b st le = some r → OutOK st le r acts o

theorem sound_both :
    (∀ {k st acts o}, RunSk k st acts o → SoundSk k st acts o) ∧
    (∀ {b st acts o}, RunBlk b st acts o → SoundBlk b st acts o) := by
  have cRet : ∀ st, SoundSk (.s .ret) st (release st) .ret := by
    intro st le r hc
    simp only [checkSk, stepS] at hc
    by_cases he : endOK st = true
    · exact release_sound he
    · simp [he] at hc
  have cJump : ∀ st, SoundSk (.s .jump) st [] (.jump st) := by
    intro st le r hc
    simp only [checkSk, stepS] at hc
    by_cases he : st = le
    · exact ⟨he, by simp [replay]⟩
    · simp [he] at hc
  have cAct : ∀ (x : SAct) (st : St) (_ : x ≠ .ret) (_ : x ≠ .jump),
      SoundSk (.s x) st (actsS x) (.fall (applyS x st)) := by
    intro x st h1 h2 le r hc
    simp only [checkSk] at hc
    exact stepS_sound h1 h2 hc
  have cOptSkip : ∀ (b : Blk) (st : St), SoundSk (.opt b) st [] (.fall st) := by
    intro b st le r hc
    simp only [checkSk] at hc
    obtain ⟨rb, hb, hm⟩ := joinRes_right hc
    simp at hb; subst hb
    exact ⟨hm _ rfl, by simp [replay]⟩
  have cOptRun : ∀ (b : Blk) (st : St) (acts : List Act) (o : Out) (_ : RunBlk b st acts o),
      SoundBlk b st acts o → SoundSk (.opt b) st acts o := by
    intro b st acts o _ ih le r hc
    simp only [checkSk] at hc
    obtain ⟨rb, hb, hm⟩ := joinRes_left hc
    exact OutOK_mono hm (ih le rb hb)
  have cAltL : ∀ (b c : Blk) (st : St) (acts : List Act) (o : Out) (_ : RunBlk b st acts o),
      SoundBlk b st acts o → SoundSk (.alt b c) st acts o := by
    intro b c st acts o _ ih le r hc
    simp only [checkSk] at hc
    obtain ⟨rb, hb, hm⟩ := joinRes_left hc
    exact OutOK_mono hm (ih le rb hb)
  have cAltR : ∀ (b c : Blk) (st : St) (acts : List Act) (o : Out) (_ : RunBlk c st acts o),
      SoundBlk c st acts o → SoundSk (.alt b c) st acts o := by
    intro b c st acts o _ ih le r hc
    simp only [checkSk] at hc
    obtain ⟨rb, hb, hm⟩ := joinRes_right hc
    exact OutOK_mono hm (ih le rb hb)
  have cLoopDone : ∀ (b : Blk) (st : St), SoundSk (.loop b) st [] (.fall st) := by
    intro b st le r hc
    obtain ⟨h1, _⟩ := checkLoop_inv hc
    exact ⟨h1, by simp [replay]⟩
  have cLoopFall : ∀ (b : Blk) (st st' : St) (a1 a2 : List Act) (o : Out)
      (_ : RunBlk b st a1 (.fall st')) (_ : RunSk (.loop b) st' a2 o),
      SoundBlk b st a1 (.fall st') → SoundSk (.loop b) st' a2 o → SoundSk (.loop b) st (a1 ++ a2) o := by
    intro b st st' a1 a2 o _ _ ih1 ih2 le r hc
    obtain ⟨h1, rb, hb, hx⟩ := checkLoop_inv hc
    have i1 := ih1 st rb hb
    have hst : st' = st := hx _ i1.1
    subst hst
    exact OutOK_prepend i1.2 (ih2 le r hc)
  have cLoopJump : ∀ (b : Blk) (st st' : St) (a1 a2 : List Act) (o : Out)
      (_ : RunBlk b st a1 (.jump st')) (_ : RunSk (.loop b) st' a2 o),
      SoundBlk b st a1 (.jump st') → SoundSk (.loop b) st' a2 o → SoundSk (.loop b) st (a1 ++ a2) o := by
    intro b st st' a1 a2 o _ _ ih1 ih2 le r hc
    obtain ⟨h1, rb, hb, hx⟩ := checkLoop_inv hc
    have i1 := ih1 st rb hb
    have hst : st' = st := i1.1
    subst hst
    exact OutOK_prepend i1.2 (ih2 le r hc)
  have cLoopRet : ∀ (b : Blk) (st : St) (a1 : List Act) (_ : RunBlk b st a1 .ret),
      SoundBlk b st a1 .ret → SoundSk (.loop b) st a1 .ret := by
    intro b st a1 _ ih1 le r hc
    obtain ⟨h1, rb, hb, hx⟩ := checkLoop_inv hc
    exact ih1 st rb hb
  have cNil : ∀ st, SoundBlk .nil st [] (.fall st) := by
    intro st le r hc
    simp [checkBlk] at hc
    exact ⟨hc.symm, by simp [replay]⟩
  have cConsFall : ∀ (h : Sk) (t : Blk) (st st' : St) (a1 a2 : List Act) (o : Out)
      (_ : RunSk h st a1 (.fall st')) (_ : RunBlk t st' a2 o),
      SoundSk h st a1 (.fall st') → SoundBlk t st' a2 o → SoundBlk (.cons h t) st (a1 ++ a2) o := by
    intro k t st st' a1 a2 o _ _ ih1 ih2 le r hc
    obtain ⟨rk, hk, _, hx⟩ := checkCons_inv hc
    have i1 := ih1 le rk hk
    exact OutOK_prepend i1.2 (ih2 le r (hx _ i1.1))
  have cConsRet : ∀ (h : Sk) (t : Blk) (st : St) (a1 : List Act) (_ : RunSk h st a1 .ret),
      SoundSk h st a1 .ret → SoundBlk (.cons h t) st a1 .ret := by
    intro k t st a1 _ ih1 le r hc
    obtain ⟨rk, hk, _, hx⟩ := checkCons_inv hc
    exact ih1 le rk hk
  have cConsJump : ∀ (h : Sk) (t : Blk) (st st' : St) (a1 : List Act) (_ : RunSk h st a1 (.jump st')),
      SoundSk h st a1 (.jump st') → SoundBlk (.cons h t) st a1 (.jump st') := by
    intro k t st st' a1 _ ih1 le r hc
    obtain ⟨rk, hk, _, hx⟩ := checkCons_inv hc
    exact ih1 le rk hk
  exact ⟨fun h => RunSk.rec (motive_1 := fun k st acts o _ => SoundSk k st acts o)
      (motive_2 := fun b st acts o _ => SoundBlk b st acts o)
      cRet cJump cAct cOptSkip cOptRun cAltL cAltR cLoopDone cLoopFall cLoopJump cLoopRet
      cNil cConsFall cConsRet cConsJump h,
    fun h => RunBlk.rec (motive_1 := fun k st acts o _ => SoundSk k st acts o)
      (motive_2 := fun b st acts o _ => SoundBlk b st acts o)
      cRet cJump cAct cOptSkip cOptRun cAltL cAltR cLoopDone cLoopFall cLoopJump cLoopRet
      cNil cConsFall cConsRet cConsJump h⟩

theorem soundBlk {b : Blk} {st : St} {acts : List Act} {o : Out} (h : RunBlk b st acts o) :
    ∀ le r, checkBlk b st le = some r → OutOK st le r acts o := sound_both.2 h

theorem accepted_calls_ok' (b : Blk) (h : accepts b = true) (acts : List Act) (hc : CallActs b acts) :
    ThreadOK acts := by
  unfold accepts at h
  unfold ThreadOK
  rcases hb : checkBlk b st0 { ls := .U, dfr := some .rd } with _ | r
  · rw [hb] at h; simp at h
  · rcases hc with hr | ⟨st, a1, hr, rfl⟩
    · exact soundBlk hr _ r hb
    · have ih := soundBlk hr _ r hb
      obtain ⟨h1, h2⟩ := ih
      subst h1
      rw [hb] at h
      simp only at h
      rw [replay_append]
      have : st0.ls = .U := rfl
      rw [this] at h2
      rw [h2]
      exact release_sound h

/-! ### traces: per-thread lock state and the lock's own state after a prefix -/

/-- lock state of thread `t` after the first `k` events -/
def lsAt (tr : Trace) (t k : Nat) : Option LS := replay .U (proj (tr.take k) t)

theorem proj_append (a b : Trace) (t : Nat) : proj (a ++ b) t = proj a t ++ proj b t := by
  simp [proj]

theorem lsAt_zero (tr : Trace) (t : Nat) : lsAt tr t 0 = some .U := by
  simp [lsAt, proj, replay]

theorem lsAt_succ {tr : Trace} {k : Nat} {e : Ev} (t : Nat) (he : tr[k]? = some e) :
    lsAt tr t (k + 1) =
      (lsAt tr t k).bind (fun l => if e.tid = t then replay l [e.act] else some l) := by
  unfold lsAt
  rw [List.take_add_one, he, proj_append, replay_append]
  congr 1
  funext l
  by_cases h : e.tid = t <;> simp [proj, h, replay]

theorem lsAt_isSome {tr : Trace} (t : Nat) (ht : PrefixOK (proj tr t)) (k : Nat) :
    ∃ l, lsAt tr t k = some l := by
  unfold PrefixOK at ht
  rw [← List.take_append_drop k tr, proj_append, replay_append] at ht
  unfold lsAt
  cases h : replay .U (proj (tr.take k) t) with
  | none => rw [h] at ht; simp at ht
  | some l => exact ⟨l, rfl⟩

/-- one step of one thread, as a table -/
theorem replay_one {l l' : LS} {x : Act} (h : replay l [x] = some l') :
    (x = .rd ∧ l = l' ∧ l ≠ .U) ∨ (x = .wr ∧ l = .W ∧ l' = .W) ∨ (x = .lock ∧ l = .U ∧ l' = .W) ∨
    (x = .rlock ∧ l = .U ∧ l' = .R) ∨ (x = .unlock ∧ l = .W ∧ l' = .U) ∨
    (x = .runlock ∧ l = .R ∧ l' = .U) := by
  cases x <;> cases l <;> simp [replay] at h <;> simp [← h]

theorem replay_rd {l l' : LS} (h : replay l [.rd] = some l') : l = l' := by
  cases l <;> simp [replay] at h <;> simp [← h]
theorem replay_wr {l l' : LS} (h : replay l [.wr] = some l') : l = .W ∧ l' = .W := by
  cases l <;> simp [replay] at h <;> simp [← h]
theorem replay_lock {l l' : LS} (h : replay l [.lock] = some l') : l = .U ∧ l' = .W := by
  cases l <;> simp [replay] at h <;> simp [← h]
theorem replay_rlock {l l' : LS} (h : replay l [.rlock] = some l') : l = .U ∧ l' = .R := by
  cases l <;> simp [replay] at h <;> simp [← h]
theorem replay_unlock {l l' : LS} (h : replay l [.unlock] = some l') : l = .W ∧ l' = .U := by
  cases l <;> simp [replay] at h <;> simp [← h]
theorem replay_runlock {l l' : LS} (h : replay l [.runlock] = some l') : l = .R ∧ l' = .U := by
  cases l <;> simp [replay] at h <;> simp [← h]

/-- backward: a thread in a section acquired it earlier and has been in it ever since -/
theorem section_start {tr : Trace} {t : Nat} {m : LS} (hm : m ≠ .U) :
    ∀ j, j ≤ tr.length → lsAt tr t j = some m →
      ∃ j0 e, j0 < j ∧ tr[j0]? = some e ∧ e.tid = t ∧ (m = .W → e.act = .lock) ∧
        (m = .R → e.act = .rlock) ∧ ∀ k, j0 < k → k ≤ j → lsAt tr t k = some m := by
  intro j
  induction j with
  | zero => intro _ h; rw [lsAt_zero] at h; simp at h; exact absurd h.symm hm
  | succ j ih =>
    intro hj h
    have hlt : j < tr.length := hj
    have he : tr[j]? = some tr[j] := List.getElem?_eq_getElem hlt
    have h' := h
    rw [lsAt_succ t he] at h'
    cases hl : lsAt tr t j with
    | none => rw [hl] at h'; simp at h'
    | some l =>
      rw [hl] at h'
      simp only [Option.bind_some] at h'
      -- the case in which nothing changes for `t`
      have keep : l = m → ∃ j0 e, j0 < j + 1 ∧ tr[j0]? = some e ∧ e.tid = t ∧ (m = .W → e.act = .lock) ∧
          (m = .R → e.act = .rlock) ∧ ∀ k, j0 < k → k ≤ j + 1 → lsAt tr t k = some m := by
        intro hlm
        subst hlm
        obtain ⟨j0, e, h0, h1, h2, h3, h4, h5⟩ := ih (by omega) hl
        refine ⟨j0, e, by omega, h1, h2, h3, h4, ?_⟩
        intro k hk1 hk2
        by_cases hk : k = j + 1
        · subst hk; exact h
        · exact h5 k hk1 (by omega)
      by_cases htid : tr[j].tid = t
      · simp only [htid, if_true] at h'
        rcases replay_one h' with ⟨_, h2, _⟩ | ⟨_, h2, h3⟩ | ⟨h1, h2, h3⟩ | ⟨h1, h2, h3⟩ | ⟨_, _, h3⟩ | ⟨_, _, h3⟩
        · exact keep h2
        · exact keep (h2.trans h3.symm)
        · refine ⟨j, tr[j], by omega, he, htid, fun _ => h1, fun hR => ?_, ?_⟩
          · rw [hR] at h3; cases h3
          · intro k hk1 hk2
            have : k = j + 1 := by omega
            subst this; exact h
        · refine ⟨j, tr[j], by omega, he, htid, fun hW => ?_, fun _ => h1, ?_⟩
          · rw [hW] at h3; cases h3
          · intro k hk1 hk2
            have : k = j + 1 := by omega
            subst this; exact h
        · exact absurd h3 hm
        · exact absurd h3 hm
      · simp only [htid, if_false] at h'
        exact keep (Option.some.inj h')

/-- forward: a thread in a section that is later in another state released it in between -/
theorem section_end {tr : Trace} {s : Nat} {m : LS} (hm : m ≠ .U) (hs : PrefixOK (proj tr s)) :
    ∀ d k j x, j = k + d → j ≤ tr.length → lsAt tr s k = some m → lsAt tr s j = some x → x ≠ m →
      ∃ i1 e, k ≤ i1 ∧ i1 < j ∧ tr[i1]? = some e ∧ e.tid = s ∧ (m = .W → e.act = .unlock) ∧
        (m = .R → e.act = .runlock) ∧ lsAt tr s i1 = some m := by
  intro d
  induction d with
  | zero =>
    intro k j x hj _ h1 h2 hx
    subst hj
    rw [h1] at h2
    exact absurd (Option.some.inj h2).symm hx
  | succ d ih =>
    intro k j x hj hjl h1 h2 hx
    have hlt : k < tr.length := by omega
    have he : tr[k]? = some tr[k] := List.getElem?_eq_getElem hlt
    obtain ⟨l', hl'⟩ := lsAt_isSome s hs (k + 1)
    have h' := hl'
    rw [lsAt_succ s he, h1] at h'
    simp only [Option.bind_some] at h'
    have keep : l' = m → ∃ i1 e, k ≤ i1 ∧ i1 < j ∧ tr[i1]? = some e ∧ e.tid = s ∧ (m = .W → e.act = .unlock) ∧
        (m = .R → e.act = .runlock) ∧ lsAt tr s i1 = some m := by
      intro hlm
      subst hlm
      obtain ⟨i1, e, g1, g2, g3⟩ := ih (k + 1) j x (by omega) hjl hl' h2 hx
      exact ⟨i1, e, by omega, g2, g3⟩
    by_cases htid : tr[k].tid = s
    · simp only [htid, if_true] at h'
      rcases replay_one h' with ⟨_, h2', _⟩ | ⟨_, h2', h3⟩ | ⟨_, h2', _⟩ | ⟨_, h2', _⟩ | ⟨g1, g2, _⟩ | ⟨g1, g2, _⟩
      · exact keep h2'.symm
      · exact keep (h3.trans h2'.symm)
      · exact absurd h2' hm
      · exact absurd h2' hm
      · refine ⟨k, tr[k], Nat.le_refl _, by omega, he, htid, fun _ => g1, fun hR => ?_, h1⟩
        rw [hR] at g2; cases g2
      · refine ⟨k, tr[k], Nat.le_refl _, by omega, he, htid, fun hW => ?_, fun _ => g1, h1⟩
        rw [hW] at g2; cases g2
    · simp only [htid, if_false] at h'
      exact keep (Option.some.inj h').symm

/-! ### the lock's own state -/

abbrev G := Option Nat × List Nat

def gstep (g : G) (e : Ev) : G :=
  match e.act with
  | .lock => (some e.tid, g.2)
  | .unlock => (none, g.2)
  | .rlock => (g.1, e.tid :: g.2)
  | .runlock => (g.1, g.2.erase e.tid)
  | _ => g

def gchk (g : G) (e : Ev) : Bool :=
  match e.act with
  | .lock => g.1.isNone && g.2.isEmpty
  | .unlock => g.1 == some e.tid
  | .rlock => g.1.isNone
  | .runlock => g.2.contains e.tid
  | _ => true

theorem rwOK_cons (e : Ev) (rest : Trace) (g : G) :
    rwOK (e :: rest) g.1 g.2 = (gchk g e && rwOK rest (gstep g e).1 (gstep g e).2) := by
  obtain ⟨tid, act⟩ := e
  cases act <;> simp [rwOK, gchk, gstep, Bool.and_assoc]

def gAt (tr : Trace) (k : Nat) : G := (tr.take k).foldl gstep (none, [])

theorem gAt_succ {tr : Trace} {k : Nat} {e : Ev} (he : tr[k]? = some e) :
    gAt tr (k + 1) = gstep (gAt tr k) e := by
  unfold gAt
  rw [List.take_add_one, he]
  simp [List.foldl_append]

theorem rwOK_chk : ∀ (tr : Trace) (g : G) (k : Nat) (e : Ev), rwOK tr g.1 g.2 = true → tr[k]? = some e →
    gchk ((tr.take k).foldl gstep g) e = true := by
  intro tr
  induction tr with
  | nil => intro g k e _ he; simp at he
  | cons e0 rest ih =>
    intro g k e h he
    rw [rwOK_cons, Bool.and_eq_true] at h
    cases k with
    | zero =>
      simp at he; subst he
      simpa using h.1
    | succ k =>
      simp at he
      simpa using ih (gstep g e0) k e h.2 he

theorem gchk_at {tr : Trace} (hl : rwOK tr none [] = true) {k : Nat} {e : Ev} (he : tr[k]? = some e) :
    gchk (gAt tr k) e = true :=
  rwOK_chk tr (none, []) k e hl he

/-- how the lock's state and the threads' states correspond after `k` events -/
structure InvG (g : G) (f : Nat → Option LS) : Prop where
  st : ∀ t, ∃ l, f t = some l ∧ (g.1 = some t ↔ l = .W) ∧ (t ∈ g.2 ↔ l = .R)
  nd : g.2.Nodup
  ex : g.1.isSome = true → g.2 = []

abbrev Inv (tr : Trace) (k : Nat) : Prop := InvG (gAt tr k) (fun t => lsAt tr t k)

theorem inv_zero (tr : Trace) : Inv tr 0 := by
  refine ⟨fun t => ⟨.U, lsAt_zero tr t, ?_, ?_⟩, ?_, ?_⟩ <;> simp [gAt]

theorem inv_succ {tr : Trace} (hl : rwOK tr none [] = true) (ht : ∀ t, PrefixOK (proj tr t))
    {k : Nat} (hk : k < tr.length) (inv : Inv tr k) : Inv tr (k + 1) := by
  have he : tr[k]? = some tr[k] := List.getElem?_eq_getElem hk
  have hc := gchk_at hl he
  have hg := gAt_succ he
  -- the state of every thread after the step
  have hstep : ∀ t, ∃ l l', lsAt tr t k = some l ∧ lsAt tr t (k + 1) = some l' ∧
      ((gAt tr k).1 = some t ↔ l = .W) ∧ (t ∈ (gAt tr k).2 ↔ l = .R) ∧
      (tr[k].tid ≠ t → l' = l) ∧ (tr[k].tid = t → replay l [tr[k].act] = some l') := by
    intro t
    obtain ⟨l, h1, h2, h3⟩ := inv.st t
    obtain ⟨l', hl'⟩ := lsAt_isSome t (ht t) (k + 1)
    refine ⟨l, l', h1, hl', h2, h3, ?_, ?_⟩
    · intro hne
      rw [lsAt_succ t he, h1] at hl'
      simp [hne] at hl'
      exact hl'.symm
    · intro heq
      rw [lsAt_succ t he, h1] at hl'
      simpa [heq] using hl'
  have hnd := inv.nd
  have hex := inv.ex
  show InvG (gAt tr (k + 1)) _
  rw [hg]
  clear hg
  generalize gAt tr k = g at *
  generalize tr[k] = e at *
  obtain ⟨tid, act⟩ := e
  obtain ⟨w, rs⟩ := g
  cases act
  case rd =>
    simp only [gstep]
    refine ⟨fun t => ?_, hnd, hex⟩
    obtain ⟨l, l', h1, h2, h3, h4, h5, h6⟩ := hstep t
    refine ⟨l', h2, ?_⟩
    by_cases hh : tid = t
    · have e1 := replay_rd (h6 hh)
      subst e1; exact ⟨h3, h4⟩
    · rw [h5 hh]; exact ⟨h3, h4⟩
  case wr =>
    simp only [gstep]
    refine ⟨fun t => ?_, hnd, hex⟩
    obtain ⟨l, l', h1, h2, h3, h4, h5, h6⟩ := hstep t
    refine ⟨l', h2, ?_⟩
    by_cases hh : tid = t
    · obtain ⟨e1, e2⟩ := replay_wr (h6 hh)
      subst e1 e2; exact ⟨h3, h4⟩
    · rw [h5 hh]; exact ⟨h3, h4⟩
  case lock =>
    simp only [gstep]
    simp [gchk] at hc
    obtain ⟨hw, hrs⟩ := hc
    subst hw hrs
    refine ⟨fun t => ?_, List.nodup_nil, fun _ => rfl⟩
    obtain ⟨l, l', h1, h2, h3, h4, h5, h6⟩ := hstep t
    refine ⟨l', h2, ?_⟩
    by_cases hh : tid = t
    · obtain ⟨e1, e2⟩ := replay_lock (h6 hh)
      subst e1 e2; simp [hh]
    · rw [h5 hh]
      simp at h3 h4
      simp [hh, h3, h4]
  case unlock =>
    simp only [gstep]
    simp [gchk] at hc
    subst hc
    have hrs : rs = [] := hex rfl
    subst hrs
    refine ⟨fun t => ?_, List.nodup_nil, fun _ => rfl⟩
    obtain ⟨l, l', h1, h2, h3, h4, h5, h6⟩ := hstep t
    refine ⟨l', h2, ?_⟩
    by_cases hh : tid = t
    · obtain ⟨e1, e2⟩ := replay_unlock (h6 hh)
      subst e1 e2; simp
    · rw [h5 hh]
      simp [hh] at h3 h4
      simp [h3, h4]
  case rlock =>
    simp only [gstep]
    simp [gchk] at hc
    subst hc
    have hself : tid ∉ rs := by
      obtain ⟨l, l', h1, h2, h3, h4, h5, h6⟩ := hstep tid
      obtain ⟨e1, e2⟩ := replay_rlock (h6 rfl)
      subst e1; simpa using h4
    refine ⟨fun t => ?_, List.nodup_cons.2 ⟨hself, hnd⟩, fun h => by simp at h⟩
    obtain ⟨l, l', h1, h2, h3, h4, h5, h6⟩ := hstep t
    refine ⟨l', h2, ?_⟩
    by_cases hh : tid = t
    · obtain ⟨e1, e2⟩ := replay_rlock (h6 hh)
      subst e1 e2; simp [hh]
    · rw [h5 hh]
      refine ⟨h3, ?_⟩
      rw [← h4]
      simp [Ne.symm hh]
  case runlock =>
    simp only [gstep]
    simp [gchk] at hc
    have hw : w = none := by
      cases w with
      | none => rfl
      | some x => have := hex rfl; simp at this; subst this; simp at hc
    subst hw
    refine ⟨fun t => ?_, hnd.erase _, fun h => by simp at h⟩
    obtain ⟨l, l', h1, h2, h3, h4, h5, h6⟩ := hstep t
    refine ⟨l', h2, ?_⟩
    by_cases hh : tid = t
    · obtain ⟨e1, e2⟩ := replay_runlock (h6 hh)
      subst e1 e2 hh
      simp [hnd.mem_erase_iff]
    · rw [h5 hh]
      refine ⟨h3, ?_⟩
      rw [← h4]
      simp [hnd.mem_erase_iff, Ne.symm hh]

theorem inv_all {tr : Trace} (hl : rwOK tr none [] = true) (ht : ∀ t, PrefixOK (proj tr t)) :
    ∀ k, k ≤ tr.length → Inv tr k := by
  intro k
  induction k with
  | zero => intro _; exact inv_zero tr
  | succ k ih => intro hk; exact inv_succ hl ht hk (ih (by omega))

/-- a writer excludes everybody else -/
theorem excl {tr : Trace} (hl : rwOK tr none [] = true) (ht : ∀ t, PrefixOK (proj tr t))
    {k : Nat} (hk : k ≤ tr.length) {s t : Nat} (hst : s ≠ t) (hs : lsAt tr s k = some .W) :
    lsAt tr t k = some .U := by
  have inv := inv_all hl ht k hk
  obtain ⟨l, h1, h2, _⟩ := inv.st s
  rw [hs] at h1
  have hl : l = .W := (Option.some.inj h1).symm
  have hw := h2.2 hl
  have hrs := inv.ex (by rw [hw]; rfl)
  obtain ⟨l', g1, g2, g3⟩ := inv.st t
  rw [g1]
  rw [hw] at g2
  rw [hrs] at g3
  cases l'
  · rfl
  · exact absurd (g3.2 rfl) (by simp)
  · have := g2.2 rfl
    simp at this
    exact absurd this hst

/-- the lock state of a thread around one of its accesses -/
theorem access_state {tr : Trace} (ht : ∀ t, PrefixOK (proj tr t)) {i : Nat} {a : Ev}
    (ha : tr[i]? = some a) (hacc : isAccess a.act = true) :
    ∃ m, lsAt tr a.tid i = some m ∧ lsAt tr a.tid (i + 1) = some m ∧ m ≠ .U ∧ (a.act = .wr → m = .W) := by
  obtain ⟨m, hm⟩ := lsAt_isSome a.tid (ht a.tid) i
  obtain ⟨m', hm'⟩ := lsAt_isSome a.tid (ht a.tid) (i + 1)
  have h := hm'
  rw [lsAt_succ a.tid ha, hm] at h
  simp only [Option.bind_some, if_true] at h
  obtain ⟨tid, act⟩ := a
  cases act with
  | rd =>
    have e := replay_rd h
    subst e
    refine ⟨m, hm, hm', ?_, by simp⟩
    intro hU; subst hU; simp [replay] at h
  | wr =>
    obtain ⟨e1, e2⟩ := replay_wr h
    subst e1 e2
    exact ⟨.W, hm, hm', by simp, fun _ => rfl⟩
  | lock => exact absurd (show isAccess .lock = true from hacc) (by decide)
  | unlock => exact absurd (show isAccess .unlock = true from hacc) (by decide)
  | rlock => exact absurd (show isAccess .rlock = true from hacc) (by decide)
  | runlock => exact absurd (show isAccess .runlock = true from hacc) (by decide)

theorem rw_no_race' (tr : Trace) (hl : rwOK tr none [] = true) (ht : ∀ t, PrefixOK (proj tr t)) :
    ¬ Race tr := by
  rintro ⟨i, j, a, b, hij, ha, hb, hne, haa, hab, hw, hnhb⟩
  apply hnhb
  have hjl : j < tr.length := by
    rcases Nat.lt_or_ge j tr.length with h | h
    · exact h
    · rw [List.getElem?_eq_none h] at hb; simp at hb
  obtain ⟨ms, hs1, hs2, hsU, hsW⟩ := access_state ht ha haa
  obtain ⟨mt, ht1, _, htU, htW⟩ := access_state ht hb hab
  have hWW : ms = .W ∨ mt = .W := hw.imp hsW htW
  -- no two sections, one of them a writer's, at the same time
  have hex : ∀ k, k ≤ tr.length → lsAt tr a.tid k = some ms → lsAt tr b.tid k = some mt → False := by
    intro k hk h1 h2
    rcases hWW with h | h
    · subst h
      have := excl hl ht hk hne h1
      rw [h2] at this
      exact htU (Option.some.inj this)
    · subst h
      have := excl hl ht hk (Ne.symm hne) h2
      rw [h1] at this
      exact hsU (Option.some.inj this)
  -- the state of `a.tid` when `b` happens is no longer the section of `a`
  obtain ⟨x, hx⟩ := lsAt_isSome a.tid (ht a.tid) j
  have hxne : x ≠ ms := by
    intro h; subst h
    exact hex j (by omega) hx ht1
  obtain ⟨i1, e1, g1, g2, g3, g4, g5, g6, g7⟩ :=
    section_end hsU (ht a.tid) (j - (i + 1)) (i + 1) j x (by omega) (by omega) hs2 hx hxne
  obtain ⟨j0, e0, f1, f2, f3, f4, f5, f6⟩ := section_start htU j (by omega) ht1
  have hlt : i1 < j0 := by
    rcases Nat.lt_or_ge i1 j0 with h | h
    · exact h
    · exfalso
      have hne' : j0 ≠ i1 := by
        intro hh; subst hh
        rw [g3] at f2
        have := Option.some.inj f2
        subst this
        exact hne (g4.symm.trans f3)
      exact hex i1 (by omega) g7 (f6 i1 (by omega) (by omega))
  have e_1 : HB tr i i1 := .edge ⟨by omega, a, e1, ha, g3, Or.inl g4.symm⟩
  have e_3 : HB tr j0 j := .edge ⟨f1, e0, b, f2, hb, Or.inl f3⟩
  have e_2 : HB tr i1 j0 := by
    refine .edge ⟨hlt, e1, e0, g3, f2, Or.inr ?_⟩
    cases ms with
    | U => exact absurd rfl hsU
    | W =>
      left
      refine ⟨g5 rfl, ?_⟩
      cases mt with
      | U => exact absurd rfl htU
      | W => exact Or.inl (f4 rfl)
      | R => exact Or.inr (f5 rfl)
    | R =>
      right
      have : mt = .W := by
        rcases hWW with h | h
        · cases h
        · exact h
      exact ⟨g6 rfl, f4 this⟩
  exact .trans e_1 (.trans e_2 e_3)

end LC.RW
