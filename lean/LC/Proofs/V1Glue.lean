/- Helper lemmas for LC/Props/C13, C15, C16, C19. -/
import LC.Model.V1Glue
namespace LC.V1Glue

/-! ### indexOf -/

theorem isPrefixOf_iff_take (sub s : List UInt8) :
    sub.isPrefixOf s = true ↔ s.take sub.length = sub := by
  rw [List.isPrefixOf_iff_prefix, List.prefix_iff_eq_take]
  exact eq_comm

/-- what `indexOf` returns is an occurrence -/
theorem indexOf_sound (sub : List UInt8) (hs : sub ≠ []) :
    ∀ (s : List UInt8) (i : Nat), indexOf s sub = some i →
      (s.drop i).take sub.length = sub ∧ i + sub.length ≤ s.length := by
  intro s
  induction s with
  | nil => intro i h; simp [indexOf, hs] at h
  | cons c cs ih =>
    intro i h
    unfold indexOf at h
    by_cases hp : sub.isPrefixOf (c :: cs) = true
    · rw [if_pos hp] at h
      have hi : i = 0 := by simpa using h.symm
      subst hi
      have ht := (isPrefixOf_iff_take sub (c :: cs)).1 hp
      refine ⟨by simpa using ht, ?_⟩
      have hl := congrArg List.length ht
      rw [List.length_take] at hl
      omega
    · rw [if_neg hp] at h
      cases hx : indexOf cs sub with
      | none => rw [hx] at h; simp at h
      | some k =>
        rw [hx] at h
        have hi : i = k + 1 := by simpa using h.symm
        subst hi
        obtain ⟨h1, h2⟩ := ih k hx
        refine ⟨by simpa using h1, ?_⟩
        simp only [List.length_cons]
        omega

/-- the first occurrence is what `indexOf` returns -/
theorem indexOf_first (sub : List UInt8) (hs : sub ≠ []) :
    ∀ (s : List UInt8) (i : Nat), (s.drop i).take sub.length = sub →
      (∀ j < i, (s.drop j).take sub.length ≠ sub) → indexOf s sub = some i := by
  intro s
  induction s with
  | nil =>
    intro i h _
    simp at h
    exact absurd h hs
  | cons c cs ih =>
    intro i h hmin
    unfold indexOf
    cases i with
    | zero =>
      have hp : sub.isPrefixOf (c :: cs) = true :=
        (isPrefixOf_iff_take sub (c :: cs)).2 (by simpa using h)
      rw [if_pos hp]
    | succ k =>
      have hp : ¬ sub.isPrefixOf (c :: cs) = true := by
        intro hp
        have := (isPrefixOf_iff_take sub (c :: cs)).1 hp
        exact hmin 0 (Nat.succ_pos k) (by simpa using this)
      rw [if_neg hp]
      have hk := ih k (by simpa using h) (by
        intro j hj
        have := hmin (j + 1) (Nat.succ_lt_succ hj)
        simpa using this)
      rw [hk]
      rfl

/-! ### findAll -/

theorem findAll_nil (fuel : Nat) (s : List UInt8) (from_ : Nat) : findAll [] fuel s from_ = [] := by
  cases fuel <;> simp [findAll]

theorem findAll_gen (sub : List UInt8) (hs : sub ≠ []) :
    ∀ (fuel : Nat) (s : List UInt8) (from_ : Nat) (orig : List UInt8), orig.drop from_ = s →
      (∀ r ∈ findAll sub fuel s from_,
          r.2 = r.1 + sub.length ∧ (orig.drop r.1).take sub.length = sub ∧ r.2 ≤ orig.length ∧ from_ ≤ r.1) ∧
      (findAll sub fuel s from_).Pairwise (fun a b => a.2 ≤ b.1) := by
  intro fuel
  induction fuel with
  | zero => intro s from_ orig _; simp [findAll]
  | succ fuel ih =>
    intro s from_ orig ho
    unfold findAll
    rw [if_neg hs]
    cases hx : indexOf s sub with
    | none => simp
    | some i =>
      obtain ⟨h1, h2⟩ := indexOf_sound sub hs s i hx
      have hd : orig.drop (from_ + i + sub.length) = s.drop (i + sub.length) := by
        rw [← ho, List.drop_drop, Nat.add_assoc]
      obtain ⟨ia, ib⟩ := ih (s.drop (i + sub.length)) (from_ + i + sub.length) orig hd
      have hlen : s.length = orig.length - from_ := by rw [← ho, List.length_drop]
      have hpos : 0 < sub.length := List.length_pos_iff.2 hs
      refine ⟨?_, ?_⟩
      · intro r hr
        simp only [List.mem_cons] at hr
        rcases hr with hr | hr
        · subst hr
          refine ⟨rfl, ?_, ?_, ?_⟩
          · show (orig.drop (from_ + i)).take sub.length = sub
            have hdd : orig.drop (from_ + i) = s.drop i := by rw [← ho, List.drop_drop]
            rw [hdd]; exact h1
          · show from_ + i + sub.length ≤ orig.length
            omega
          · show from_ ≤ from_ + i
            omega
        · obtain ⟨r1, r2, r3, r4⟩ := ia r hr
          exact ⟨r1, r2, r3, by omega⟩
      · rw [List.pairwise_cons]
        refine ⟨?_, ib⟩
        intro r hr
        exact (ia r hr).2.2.2

theorem findAll_sound' (s sub : List UInt8) :
    (∀ r ∈ findAllIndex s sub, r.2 = r.1 + sub.length ∧ (s.drop r.1).take sub.length = sub ∧ r.2 ≤ s.length) ∧
    (findAllIndex s sub).Pairwise (fun a b => a.2 ≤ b.1) := by
  by_cases hs : sub = []
  · subst hs
    simp [findAllIndex, findAll_nil]
  · obtain ⟨h1, h2⟩ := findAll_gen sub hs (s.length + 1) s 0 s rfl
    refine ⟨?_, h2⟩
    intro r hr
    obtain ⟨a, b, c, _⟩ := h1 r hr
    exact ⟨a, b, c⟩

theorem findAll_first' (s sub : List UInt8) (hs : sub ≠ []) (i : Nat)
    (hi : (s.drop i).take sub.length = sub ∧ i + sub.length ≤ s.length)
    (hmin : ∀ j < i, (s.drop j).take sub.length ≠ sub) :
    (findAllIndex s sub).head? = some (i, i + sub.length) := by
  have hx := indexOf_first sub hs s i hi.1 hmin
  unfold findAllIndex findAll
  rw [if_neg hs, hx]
  simp

/-! ### exactRange -/

/-- once the start token has been passed (no remaining token has offset `a`), the loop runs on to
token `j` — the last one that starts before `b` — and stops after it -/
theorem go_after (a b : Nat) :
    ∀ (toks : List Tok), Ordered toks → (∀ t ∈ toks, t.offset ≠ a) →
      ∀ (j : Nat) (tj : Tok), toks[j]? = some tj → tj.offset < b →
        (∀ tn, toks[j + 1]? = some tn → b ≤ tn.offset) → ∀ (idx start stop : Nat),
        exactRange.go a b toks idx start stop = (start, idx + j) := by
  intro toks
  induction toks with
  | nil => intro _ _ j tj hj; simp at hj
  | cons t ts ih =>
    intro ho hne j tj hj hb hnext idx start stop
    unfold Ordered at ho
    rw [List.pairwise_cons] at ho
    have hta : t.offset ≠ a := hne t (List.mem_cons_self)
    cases j with
    | zero =>
      have : t = tj := by simpa using hj
      subst this
      have hns : ¬ (t.offset ≥ b) := by omega
      cases ts with
      | nil => simp [exactRange.go, hta, hns]
      | cons tn tr =>
        have hn : b ≤ tn.offset := hnext tn (by simp)
        have hna : tn.offset ≠ a := hne tn (by simp)
        simp [exactRange.go, hta, hns, hn, hna]
    | succ k =>
      have hk : ts[k]? = some tj := by simpa using hj
      have hmem : tj ∈ ts := List.mem_of_getElem? hk
      have h1 := ho.1 tj hmem
      have hns : ¬ (t.offset ≥ b) := by omega
      have := ih ho.2 (fun x hx => hne x (List.mem_cons_of_mem _ hx)) k tj hk hb
        (fun tn h => hnext tn (by simpa using h)) (idx + 1) start idx
      simp only [exactRange.go, hta, if_false, hns]
      rw [this]
      congr 1
      omega

theorem go_spec (b : Nat) :
    ∀ (toks : List Tok), Ordered toks → (∀ t ∈ toks, 0 < t.len) →
      ∀ (i j : Nat) (ti tj : Tok), toks[i]? = some ti → toks[j]? = some tj → i ≤ j →
        tj.offset < b → (∀ tn, toks[j + 1]? = some tn → b ≤ tn.offset) →
        ∀ (idx start stop : Nat),
          exactRange.go ti.offset b toks idx start stop = (idx + i, idx + j) := by
  intro toks
  induction toks with
  | nil => intro _ _ i j ti tj hi; simp at hi
  | cons t ts ih =>
    intro ho hpos i j ti tj hi hj hij hb hnext idx start stop
    have ho' := ho
    unfold Ordered at ho'
    rw [List.pairwise_cons] at ho'
    have hpos' : ∀ x ∈ ts, 0 < x.len := fun x hx => hpos x (List.mem_cons_of_mem _ hx)
    have htpos := hpos t List.mem_cons_self
    cases i with
    | zero =>
      have : t = ti := by simpa using hi
      subst this
      have hne : ∀ x ∈ ts, x.offset ≠ t.offset := by
        intro x hx
        have := ho'.1 x hx
        omega
      cases j with
      | zero =>
        have : t = tj := by simpa using hj
        subst this
        have hns : ¬ (t.offset ≥ b) := by omega
        cases ts with
        | nil => simp [exactRange.go, hns]
        | cons tn tr =>
          have hn : b ≤ tn.offset := hnext tn (by simp)
          have hna : tn.offset ≠ t.offset := hne tn (by simp)
          simp [exactRange.go, hns, hn, hna]
      | succ k =>
        have hk : ts[k]? = some tj := by simpa using hj
        have hmem : tj ∈ ts := List.mem_of_getElem? hk
        have h1 := ho'.1 tj hmem
        have hns : ¬ (t.offset ≥ b) := by omega
        have := go_after t.offset b ts ho'.2 hne k tj hk hb
          (fun tn h => hnext tn (by simpa using h)) (idx + 1) idx idx
        simp only [exactRange.go, if_true, hns, if_false]
        rw [this]
        congr 1
        omega
    | succ m =>
      cases j with
      | zero => omega
      | succ k =>
        have hm : ts[m]? = some ti := by simpa using hi
        have hk : ts[k]? = some tj := by simpa using hj
        have hmemi : ti ∈ ts := List.mem_of_getElem? hm
        have hmemj : tj ∈ ts := List.mem_of_getElem? hk
        have h1 := ho'.1 tj hmemj
        have h3 := ho'.1 ti hmemi
        have hns : ¬ (t.offset ≥ b) := by omega
        have hta : t.offset ≠ ti.offset := by omega
        have := ih ho'.2 hpos' m k ti tj hm hk (by omega) hb
          (fun tn h => hnext tn (by simpa using h)) (idx + 1) start idx
        simp only [exactRange.go, hta, if_false, hns]
        rw [this]
        congr 1 <;> omega

theorem exact_token_range_trailing' (toks : List Tok) (ho : Ordered toks) (hpos : ∀ t ∈ toks, 0 < t.len)
    (i j : Nat) (ti tj : Tok) (b : Nat) (hi : toks[i]? = some ti) (hj : toks[j]? = some tj) (hij : i ≤ j)
    (hb : tj.offset < b) (hnext : ∀ tn, toks[j + 1]? = some tn → b ≤ tn.offset) :
    exactRange toks ti.offset b = (i, j) := by
  have := go_spec b toks ho hpos i j ti tj hi hj hij hb hnext 0 0 0
  unfold exactRange
  rw [this]
  simp

theorem exact_token_range' (toks : List Tok) (ho : Ordered toks) (hpos : ∀ t ∈ toks, 0 < t.len) (i j : Nat)
    (ti tj : Tok) (hi : toks[i]? = some ti) (hj : toks[j]? = some tj) (hij : i ≤ j) :
    exactRange toks ti.offset (tj.offset + tj.len) = (i, j) := by
  have hjpos := hpos tj (List.mem_of_getElem? hj)
  refine exact_token_range_trailing' toks ho hpos i j ti tj _ hi hj hij (by omega) ?_
  intro tn hn
  have hlt : j < j + 1 := Nat.lt_succ_self j
  have hjl : j + 1 < toks.length := by
    rcases Nat.lt_or_ge (j + 1) toks.length with h | h
    · exact h
    · rw [List.getElem?_eq_none h] at hn; cases hn
  have hp := List.pairwise_iff_getElem.1 ho j (j + 1) (by omega) hjl hlt
  have e1 : toks[j] = tj := by
    have := List.getElem?_eq_getElem (l := toks) (i := j) (by omega)
    rw [this] at hj; exact Option.some.inj hj
  have e2 : toks[j + 1] = tn := by
    have := List.getElem?_eq_getElem hjl
    rw [this] at hn; exact Option.some.inj hn
  rw [e1, e2] at hp
  exact hp

/-! ### nearestExact -/

theorem nearest_exact' (ratioOK : List UInt8 → List UInt8 → Bool) (hr : ∀ x, ratioOK x x = true)
    (unknown : List UInt8) (vals : List KV) (h : ∃ v ∈ vals, v.norm = unknown) :
    ∃ k, nearestExact ratioOK unknown vals = some k ∧ ∃ v ∈ vals, v.key = k ∧ v.norm = unknown := by
  induction vals with
  | nil => obtain ⟨v, hv, _⟩ := h; simp at hv
  | cons v vs ih =>
    by_cases he : unknown = v.norm
    · refine ⟨v.key, ?_, v, List.mem_cons_self, rfl, he.symm⟩
      unfold nearestExact
      have : ratioOK unknown v.norm = true := by rw [← he]; exact hr unknown
      rw [this]
      simp [he]
    · have h' : ∃ w ∈ vs, w.norm = unknown := by
        obtain ⟨w, hw, hn⟩ := h
        rcases List.mem_cons.1 hw with hw | hw
        · subst hw; exact absurd hn.symm he
        · exact ⟨w, hw, hn⟩
      obtain ⟨k, hk, w, hw, hwk, hwn⟩ := ih h'
      refine ⟨k, ?_, w, List.mem_cons_of_mem _ hw, hwk, hwn⟩
      unfold nearestExact
      rw [if_neg he]
      by_cases hq : ratioOK unknown v.norm = true <;> simp [hq, hk]

/-! ### licMultiple -/

deriving instance ReflBEq, LawfulBEq for M

/-- the fold step of `licMultiple` -/
def mstep (within : Nat → Bool) (forbiddenOK : String → Bool) (includeHeaders : Bool)
    (acc : List M) (v : M) : List M :=
  if !within v.conf then acc
  else if !includeHeaders && v.name.endsWith ".header" then acc
  else
    let v' := { v with name := trimHeader v.name }
    if !forbiddenOK v'.name then acc
    else if acc.contains v' then acc else acc ++ [v']

theorem licMultiple_eq (within : Nat → Bool) (forbiddenOK : String → Bool) (ih : Bool) (ms : List M) :
    licMultiple within forbiddenOK ih ms = ms.foldl (mstep within forbiddenOK ih) [] := rfl

theorem mstep_cases (within : Nat → Bool) (forbiddenOK : String → Bool) (ih : Bool) (acc : List M) (v : M) :
    mstep within forbiddenOK ih acc v = acc ∨
    (mstep within forbiddenOK ih acc v = acc ++ [{ v with name := trimHeader v.name }] ∧
      within v.conf = true ∧ (ih = false → ¬ v.name.endsWith ".header") ∧
      ({ v with name := trimHeader v.name } : M) ∉ acc) := by
  unfold mstep
  by_cases h1 : within v.conf = true
  · by_cases h2 : (!ih && v.name.endsWith ".header") = true
    · left; simp [h1, h2]
    · by_cases h3 : forbiddenOK (trimHeader v.name) = true
      · by_cases h4 : ({ v with name := trimHeader v.name } : M) ∈ acc
        · left; simp [h1, h2, h3, h4]
        · right
          refine ⟨by simp [h1, h2, h3, h4], h1, ?_, ?_⟩
          · intro hf he
            apply h2
            simp [hf, he]
          · exact h4
      · left; simp [h1, h2, h3]
  · left; simp [h1]

/-- invariant of the fold -/
theorem mfold_inv (within : Nat → Bool) (forbiddenOK : String → Bool) (ih : Bool) (P : M → Prop) (all : List M)
    (hP : ∀ v ∈ all, within v.conf = true → (ih = false → ¬ v.name.endsWith ".header") →
      P { v with name := trimHeader v.name }) :
    ∀ (ms : List M), (∀ v ∈ ms, v ∈ all) → ∀ (acc : List M), (∀ m ∈ acc, P m) →
      ∀ m ∈ ms.foldl (mstep within forbiddenOK ih) acc, P m := by
  intro ms
  induction ms with
  | nil => intro _ acc ha m hm; exact ha m (by simpa using hm)
  | cons v vs ihv =>
    intro hsub acc ha
    rw [List.foldl_cons]
    apply ihv (fun x hx => hsub x (List.mem_cons_of_mem _ hx))
    rcases mstep_cases within forbiddenOK ih acc v with h | ⟨h, hw, hh, _⟩
    · rw [h]; exact ha
    · rw [h]
      intro m hm
      rcases List.mem_append.1 hm with hm | hm
      · exact ha m hm
      · have : m = { v with name := trimHeader v.name } := by simpa using hm
        subst this
        exact hP v (hsub v List.mem_cons_self) hw hh

theorem multiple_within_threshold' (within : Nat → Bool) (forbiddenOK : String → Bool) (ih : Bool) (ms : List M) :
    ∀ m ∈ licMultiple within forbiddenOK ih ms, within m.conf = true := by
  rw [licMultiple_eq]
  exact mfold_inv within forbiddenOK ih (fun m => within m.conf = true) ms
    (fun v _ hw _ => hw) ms (fun _ h => h) [] (by simp)

theorem multiple_from_input' (within : Nat → Bool) (forbiddenOK : String → Bool) (ih : Bool) (ms : List M) :
    ∀ m ∈ licMultiple within forbiddenOK ih ms,
      ∃ v ∈ ms, m = { v with name := trimHeader v.name } ∧ (ih = false → ¬ v.name.endsWith ".header") := by
  rw [licMultiple_eq]
  exact mfold_inv within forbiddenOK ih
    (fun m => ∃ v ∈ ms, m = { v with name := trimHeader v.name } ∧ (ih = false → ¬ v.name.endsWith ".header")) ms
    (fun v hv _ hh => ⟨v, hv, rfl, hh⟩) ms (fun _ h => h) [] (by simp)

theorem mfold_nodup (within : Nat → Bool) (forbiddenOK : String → Bool) (ih : Bool) :
    ∀ (ms acc : List M), acc.Nodup → (ms.foldl (mstep within forbiddenOK ih) acc).Nodup := by
  intro ms
  induction ms with
  | nil => intro acc h; simpa using h
  | cons v vs ihv =>
    intro acc ha
    rw [List.foldl_cons]
    apply ihv
    rcases mstep_cases within forbiddenOK ih acc v with h | ⟨h, _, _, hn⟩
    · rw [h]; exact ha
    · rw [h, List.nodup_append]
      refine ⟨ha, by simp, ?_⟩
      intro a haa b hb
      have : b = { v with name := trimHeader v.name } := by simpa using hb
      subst this
      intro hab
      subst hab
      exact hn haa

theorem multiple_nodup' (within : Nat → Bool) (forbiddenOK : String → Bool) (ih : Bool) (ms : List M) :
    (licMultiple within forbiddenOK ih ms).Nodup := by
  rw [licMultiple_eq]
  exact mfold_nodup within forbiddenOK ih ms [] List.nodup_nil

/-! ### archive pairing -/

theorem parse_build' (read : String → List UInt8) (norm ser : List UInt8 → List UInt8) (files : List String) :
    parseArchive (buildArchive read norm ser files) =
      some ((files.filter (·.endsWith ".txt")).map
        (fun f => ((f.dropEnd 4).toString, norm (read f), ser (norm (read f))))) := by
  induction files with
  | nil => simp [buildArchive, parseArchive]
  | cons f fs ih =>
    unfold buildArchive at ih ⊢
    rw [List.flatMap_cons]
    by_cases hf : f.endsWith ".txt" = true
    · rw [if_pos hf]
      simpa [parseArchive, hf] using ih
    · rw [if_neg hf]
      simpa [hf] using ih

/-- the fold step of `register` -/
def rstep (acc : Option (List (String × List UInt8 × List UInt8))) (v : String × List UInt8 × List UInt8) :
    Option (List (String × List UInt8 × List UInt8)) :=
  acc.bind (fun l => if l.any (·.1 = v.1) then none else some (l ++ [v]))

theorem register_eq (vals : List (String × List UInt8 × List UInt8)) :
    register vals = vals.foldl rstep (some []) := rfl

theorem rfold_none (vals : List (String × List UInt8 × List UInt8)) : vals.foldl rstep none = none := by
  induction vals with
  | nil => rfl
  | cons v vs ih => rw [List.foldl_cons]; exact ih

theorem rstep_some (l : List (String × List UInt8 × List UInt8)) (v : String × List UInt8 × List UInt8) :
    rstep (some l) v = if v.1 ∈ l.map (·.1) then none else some (l ++ [v]) := by
  unfold rstep
  simp only [Option.bind_some]
  by_cases h : v.1 ∈ l.map (·.1)
  · rw [if_pos h]
    have : l.any (fun x => decide (x.1 = v.1)) = true := by
      obtain ⟨x, hx, hxv⟩ := List.mem_map.1 h
      exact List.any_eq_true.2 ⟨x, hx, by simpa using hxv⟩
    rw [if_pos this]
  · rw [if_neg h]
    have : ¬ l.any (fun x => decide (x.1 = v.1)) = true := by
      intro ha
      obtain ⟨x, hx, hxv⟩ := List.any_eq_true.1 ha
      exact h (List.mem_map.2 ⟨x, hx, by simpa using hxv⟩)
    rw [if_neg this]

theorem rfold_distinct :
    ∀ (vals l : List (String × List UInt8 × List UInt8)),
      (l.map (·.1) ++ vals.map (·.1)).Nodup → vals.foldl rstep (some l) = some (l ++ vals) := by
  intro vals
  induction vals with
  | nil => intro l _; simp
  | cons v vs ih =>
    intro l h
    rw [List.foldl_cons, rstep_some]
    have hnot : v.1 ∉ l.map (·.1) := by
      intro hm
      rw [List.nodup_append] at h
      exact h.2.2 v.1 hm v.1 (by simp) rfl
    rw [if_neg hnot, ih (l ++ [v]) (by simpa using h)]
    simp

theorem rfold_duplicate :
    ∀ (vals l : List (String × List UInt8 × List UInt8)),
      (l.map (·.1)).Nodup → ¬ (l.map (·.1) ++ vals.map (·.1)).Nodup →
        vals.foldl rstep (some l) = none := by
  intro vals
  induction vals with
  | nil => intro l hl h; exact absurd (by simpa using hl) h
  | cons v vs ih =>
    intro l hl h
    rw [List.foldl_cons, rstep_some]
    by_cases hm : v.1 ∈ l.map (·.1)
    · rw [if_pos hm]; exact rfold_none vs
    · rw [if_neg hm]
      refine ih (l ++ [v]) ?_ (by simpa using h)
      rw [List.map_append, List.nodup_append]
      refine ⟨hl, by simp, ?_⟩
      intro a ha b hb hab
      have : b = v.1 := by simpa using hb
      subst this
      subst hab
      exact hm ha

theorem register_distinct' (vals : List (String × List UInt8 × List UInt8)) :
    (vals.map (·.1)).Nodup → register vals = some vals := by
  intro h
  rw [register_eq, rfold_distinct vals [] (by simpa using h)]
  simp

theorem register_duplicate' (vals : List (String × List UInt8 × List UInt8)) :
    ¬ (vals.map (·.1)).Nodup → register vals = none := by
  intro h
  rw [register_eq]
  exact rfold_duplicate vals [] (by simp) (by simpa using h)

/-! ### identify_license -/

theorem results_schedule_independent' (headers : Bool) (perFile₁ perFile₂ : List (List Line))
    (hp : perFile₁.Perm perFile₂) :
    ((perFile₁.map (fileLines headers)).flatten).Perm ((perFile₂.map (fileLines headers)).flatten) :=
  (hp.map _).flatten

theorem header_filter' (ms : List Line) :
    (∀ m ∈ fileLines false ms, m.matchType ≠ "Header") ∧ fileLines true ms = ms := by
  refine ⟨?_, ?_⟩
  · intro m hm
    unfold fileLines at hm
    have := (List.mem_filter.1 hm).2
    simpa using this
  · simp [fileLines]

theorem exit_iff' (results : List Line) : exitStatus results = 0 ↔ results ≠ [] := by
  cases results <;> simp [exitStatus]

theorem readLines_spec' (lines : List String) (s e : Nat) (hs : 1 ≤ s) (hse : s ≤ e) (he : e ≤ lines.length) :
    readFileLines lines s e =
      some (String.join (((List.range (e + 1 - s)).map (fun k => lines.getD (s - 1 + k) "" ++ "\n")))) := by
  unfold readFileLines
  rw [if_neg (by omega)]
  congr 2
  apply List.ext_getElem
  · simp only [List.length_map, List.length_drop, List.length_take, List.length_range]
    omega
  · intro i h1 h2
    simp only [List.length_map, List.length_drop, List.length_take, List.length_range] at h1 h2
    have hlt : s - 1 + i < lines.length := by omega
    simp only [List.getElem_map, List.getElem_drop, List.getElem_take, List.getElem_range,
      List.getD_eq_getElem?_getD, List.getElem?_eq_getElem hlt, Option.getD_some]

theorem readLines_short' (lines : List String) (s e : Nat) (he : lines.length < e) :
    readFileLines lines s e = none := by
  unfold readFileLines
  rw [if_pos he]

end LC.V1Glue
