/- Helper lemmas for LC/Props/C01Range.lean. TO BE PROVED (no sorry may remain). -/
import LC.Model.V2Match
namespace LC.V2Match
end LC.V2Match
