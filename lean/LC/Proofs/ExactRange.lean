/-
Helper lemmas for LC/Props/C01Range.lean: a verbatim copy of a document planted between
foreign contexts is proposed by `findPotentialMatches` with exactly its own range.
Core Lean only.
-/
import LC.Model.V2Match
import LC.Proofs.MatchWF
import LC.Proofs.MatchOrd
import LC.Proofs.Exact

namespace LC.V2Match.ER
open LC.V2Match

/-! ### setTrue -/

def stStep (a : Int) (l : Array Bool) (k : Nat) : Array Bool :=
  if 0 ≤ a + (k : Int) then l.setIfInBounds (a + (k : Int)).toNat true else l

theorem setTrue_eq (l : Array Bool) (a b : Int) :
    setTrue l a b = (List.range (b - a).toNat).foldl (stStep a) l := rfl

theorem stStep_size (a : Int) (l : Array Bool) (k : Nat) : (stStep a l k).size = l.size := by
  unfold stStep; split <;> simp

theorem stStep_mono (a : Int) (l : Array Bool) (k i : Nat) (h : l.getD i false = true) :
    (stStep a l k).getD i false = true := by
  unfold stStep
  split
  · simp only [Array.getD_eq_getD_getElem?, Array.getElem?_setIfInBounds] at h ⊢
    split
    · split
      · rfl
      · rename_i h1 h2
        subst h1
        rw [Array.getElem?_eq_none (by omega)] at h
        simp at h
    · exact h
  · exact h

theorem stStep_hit (a : Int) (l : Array Bool) (k : Nat) (h0 : 0 ≤ a + (k : Int))
    (h1 : (a + (k : Int)).toNat < l.size) :
    (stStep a l k).getD (a + (k : Int)).toNat false = true := by
  unfold stStep
  rw [if_pos h0]
  simp [Array.getD_eq_getD_getElem?, h1]

theorem stFold_spec (a : Int) (l : Array Bool) (n : Nat) :
    ((List.range n).foldl (stStep a) l).size = l.size ∧
    (∀ i, l.getD i false = true → ((List.range n).foldl (stStep a) l).getD i false = true) ∧
    (∀ k, k < n → 0 ≤ a + (k : Int) → (a + (k : Int)).toNat < l.size →
      ((List.range n).foldl (stStep a) l).getD (a + (k : Int)).toNat false = true) := by
  induction n with
  | zero => exact ⟨rfl, fun _ h => h, fun k hk => absurd hk (Nat.not_lt_zero _)⟩
  | succ n ih =>
    obtain ⟨h1, h2, h3⟩ := ih
    rw [List.range_succ, List.foldl_append]
    simp only [List.foldl_cons, List.foldl_nil]
    refine ⟨by rw [stStep_size, h1], fun i hi => stStep_mono _ _ _ _ (h2 i hi), ?_⟩
    intro k hk hk0 hk1
    by_cases hkn : k = n
    · subst hkn
      exact stStep_hit _ _ _ hk0 (by rw [h1]; exact hk1)
    · exact stStep_mono _ _ _ _ (h3 k (by omega) hk0 hk1)

theorem setTrue_size (l : Array Bool) (a b : Int) : (setTrue l a b).size = l.size :=
  (stFold_spec a l _).1

theorem setTrue_mono (l : Array Bool) (a b : Int) (i : Nat) (h : l.getD i false = true) :
    (setTrue l a b).getD i false = true :=
  (stFold_spec a l _).2.1 i h

theorem setTrue_hit (l : Array Bool) (a b : Int) (i : Nat) (h1 : a ≤ (i : Int)) (h2 : (i : Int) < b)
    (h3 : i < l.size) : (setTrue l a b).getD i false = true := by
  have h := (stFold_spec a l (b - a).toNat).2.2 ((i : Int) - a).toNat (by omega) (by omega)
  have e : (a + (((i : Int) - a).toNat : Int)).toNat = i := by omega
  rw [e] at h
  exact h h3

theorem foldl_setTrue_spec {α : Type} (f g : α → Int) (xs : List α) (l : Array Bool) :
    (xs.foldl (fun h x => setTrue h (f x) (g x)) l).size = l.size ∧
    (∀ i, l.getD i false = true → (xs.foldl (fun h x => setTrue h (f x) (g x)) l).getD i false = true) ∧
    (∀ x ∈ xs, ∀ i : Nat, f x ≤ (i : Int) → (i : Int) < g x → i < l.size →
      (xs.foldl (fun h x => setTrue h (f x) (g x)) l).getD i false = true) := by
  induction xs generalizing l with
  | nil => exact ⟨rfl, fun _ h => h, fun x hx => by cases hx⟩
  | cons y ys ih =>
    simp only [List.foldl_cons]
    obtain ⟨h1, h2, h3⟩ := ih (setTrue l (f y) (g y))
    refine ⟨by rw [h1, setTrue_size], fun i hi => h2 i (setTrue_mono _ _ _ _ hi), ?_⟩
    intro x hx i hi1 hi2 hi3
    rcases List.mem_cons.1 hx with rfl | hx
    · exact h2 i (setTrue_hit _ _ _ _ hi1 hi2 hi3)
    · exact h3 x hx i hi1 hi2 (by rw [setTrue_size]; exact hi3)


/-! ### detectRuns -/

def winStep (hit : Nat → Bool) (targetLength sub target : Nat) (st : Int × List Nat) (k : Nat) :
    Int × List Nat :=
  let i := k + 1
  let t1 : Int := if hit (i - 1) then st.1 - 1 else st.1
  let e := i + sub - 1
  let t2 : Int := if e < targetLength ∧ hit e then t1 + 1 else t1
  (t2, if t2 ≥ (target : Int) then st.2 ++ [i] else st.2)

def runStep (q : Nat) (acc : List (Nat × Nat) × Nat) (o : Nat) : List (Nat × Nat) × Nat :=
  if o ≠ 1 + acc.2 then (acc.1 ++ [(o, o + q)], o)
  else (acc.1.dropLast ++ [((acc.1.getLast?.getD (0, 0)).1, o + q)], o)

def hitsOf (matched : List MR) (targetLength : Nat) : Array Bool :=
  matched.foldl (fun h m => setTrue h m.tgtStart m.tgtEnd) (Array.replicate targetLength false)

def cnt (hit : Nat → Bool) (i n : Nat) : Nat := ((List.range n).filter (fun p => hit (i + p))).length

theorem detectRuns_eq {C : Type} (N : NumEnv C) (matched : List MR) (tl sl q : Nat) :
    detectRuns N matched tl sl q =
      if tl = 0 then []
      else
        let hit : Nat → Bool := fun i => (hitsOf matched tl).getD i false
        let sub := if tl < sl then tl else sl
        let total0 := ((List.range sub).filter hit).length
        match ((List.range (tl - 1)).foldl (winStep hit tl sub (N.scaleFloor sl))
                ((total0 : Int), if total0 ≥ N.scaleFloor sl then [0] else [])).2 with
        | [] => []
        | o0 :: rest => (rest.foldl (runStep q) ([(o0, o0 + q)], o0)).1 := rfl

theorem cnt_succ_right (hit : Nat → Bool) (i n : Nat) :
    cnt hit i (n + 1) = cnt hit i n + (if hit (i + n) then 1 else 0) := by
  unfold cnt
  rw [List.range_succ, List.filter_append, List.length_append]
  congr 1
  by_cases h : hit (i + n) = true <;> simp [h]

theorem cnt_succ_left (hit : Nat → Bool) (i n : Nat) :
    cnt hit i (n + 1) = (if hit i then 1 else 0) + cnt hit (i + 1) n := by
  unfold cnt
  rw [List.range_succ_eq_map, List.filter_cons, List.filter_map]
  have e : (fun p => hit (i + 1 + p)) = ((fun p => hit (i + p)) ∘ Nat.succ) := by
    funext p; simp only [Function.comp]; congr 1; omega
  rw [e, Nat.add_zero]
  by_cases h : hit i = true
  · rw [if_pos h, if_pos h, List.length_cons, List.length_map]; omega
  · rw [if_neg h, if_neg h, List.length_map]; omega

theorem cnt_slide (hit : Nat → Bool) (i n : Nat) :
    (cnt hit (i + 1) n : Int) =
      (cnt hit i n : Int) - (if hit i then 1 else 0) + (if hit (i + n) then 1 else 0) := by
  have h1 := cnt_succ_right hit i n
  have h2 := cnt_succ_left hit i n
  by_cases a : hit i = true <;> by_cases b : hit (i + n) = true <;> simp [a, b] at h1 h2 ⊢ <;> omega

theorem cnt_full (hit : Nat → Bool) (i n : Nat) (h : ∀ p, p < n → hit (i + p) = true) : cnt hit i n = n := by
  unfold cnt
  rw [List.filter_eq_self.2, List.length_range]
  intro p hp
  exact h p (List.mem_range.1 hp)

theorem win_inv (hit : Nat → Bool) (tl sub target : Nat) (hhit : ∀ e, hit e = true → e < tl)
    (out0 : List Nat) (h0 : cnt hit 0 sub ≥ target → 0 ∈ out0) (n : Nat) :
    ((List.range n).foldl (winStep hit tl sub target) ((cnt hit 0 sub : Int), out0)).1 = (cnt hit n sub : Int) ∧
    ∀ i, i ≤ n → cnt hit i sub ≥ target →
      i ∈ ((List.range n).foldl (winStep hit tl sub target) ((cnt hit 0 sub : Int), out0)).2 := by
  induction n with
  | zero =>
    refine ⟨rfl, ?_⟩
    intro i hi hc
    have : i = 0 := by omega
    subst this
    exact h0 hc
  | succ n ih =>
    obtain ⟨h1, h2⟩ := ih
    rw [List.range_succ, List.foldl_append]
    simp only [List.foldl_cons, List.foldl_nil]
    generalize List.foldl (winStep hit tl sub target) ((cnt hit 0 sub : Int), out0) (List.range n) = st at h1 h2
    have ht2 : (winStep hit tl sub target st n).1 = (cnt hit (n + 1) sub : Int) := by
      rw [cnt_slide, ← h1]
      unfold winStep
      simp only [Nat.add_sub_cancel]
      have e : n + 1 + sub - 1 = n + sub := by omega
      rw [e]
      by_cases a : hit n = true <;> by_cases b : hit (n + sub) = true
      · have := hhit _ b; simp [a, b, this]
      · simp [a, b]
      · have := hhit _ b; simp [a, b, this]
      · simp [a, b]
    refine ⟨ht2, ?_⟩
    intro i hi hc
    by_cases hin : i = n + 1
    · subst hin
      have : (winStep hit tl sub target st n).2 =
          if (winStep hit tl sub target st n).1 ≥ (target : Int) then st.2 ++ [n + 1] else st.2 := rfl
      rw [this, ht2, if_pos (by omega)]
      simp
    · have hm := h2 i (by omega) hc
      have : (winStep hit tl sub target st n).2 =
          if (winStep hit tl sub target st n).1 ≥ (target : Int) then st.2 ++ [n + 1] else st.2 := rfl
      rw [this]
      split
      · exact List.mem_append_left _ hm
      · exact hm

/-- `o` lies in one of the runs -/
def Cov (runs : List (Nat × Nat)) (o : Nat) : Prop := ∃ r ∈ runs, r.1 ≤ o ∧ o < r.2

def Good (q : Nat) (acc : List (Nat × Nat) × Nat) : Prop :=
  ∃ a, acc.1.getLast? = some (a, acc.2 + q) ∧ a ≤ acc.2

theorem runStep_spec (q : Nat) (hq : 0 < q) (acc : List (Nat × Nat) × Nat) (o : Nat) (hg : Good q acc) :
    Good q (runStep q acc o) ∧ (∀ o', Cov acc.1 o' → Cov (runStep q acc o).1 o') ∧
      Cov (runStep q acc o).1 o := by
  obtain ⟨a, hl, ha⟩ := hg
  unfold runStep
  by_cases h : o ≠ 1 + acc.2
  · rw [if_pos h]
    refine ⟨⟨o, by simp, Nat.le_refl _⟩, ?_, ?_⟩
    · rintro o' ⟨r, hr, h1⟩
      exact ⟨r, List.mem_append_left _ hr, h1⟩
    · exact ⟨(o, o + q), by simp, Nat.le_refl _, by simp only; omega⟩
  · rw [if_neg h]
    have ho : o = 1 + acc.2 := by omega
    simp only [hl, Option.getD_some]
    refine ⟨⟨a, by simp, by simp only; omega⟩, ?_, ?_⟩
    · rintro o' ⟨r, hr, h1, h2⟩
      have hdec : acc.1 = acc.1.dropLast ++ [(a, acc.2 + q)] := by
        obtain ⟨ys, hys⟩ := List.getLast?_eq_some_iff.1 hl
        rw [hys, List.dropLast_concat]
      rw [hdec] at hr
      rcases List.mem_append.1 hr with hr | hr
      · exact ⟨r, List.mem_append_left _ hr, h1, h2⟩
      · simp only [List.mem_singleton] at hr
        subst hr
        exact ⟨(a, o + q), by simp, h1, by simp only at h2 ⊢; omega⟩
    · exact ⟨(a, o + q), by simp, by simp only; omega, by simp only; omega⟩

theorem runFold_spec (q : Nat) (hq : 0 < q) (rest : List Nat) (acc : List (Nat × Nat) × Nat)
    (hg : Good q acc) :
    (∀ o', Cov acc.1 o' → Cov (rest.foldl (runStep q) acc).1 o') ∧
      ∀ o ∈ rest, Cov (rest.foldl (runStep q) acc).1 o := by
  induction rest generalizing acc with
  | nil => exact ⟨fun _ h => h, fun o ho => by cases ho⟩
  | cons x xs ih =>
    obtain ⟨g1, g2, g3⟩ := runStep_spec q hq acc x hg
    obtain ⟨i1, i2⟩ := ih (runStep q acc x) g1
    simp only [List.foldl_cons]
    refine ⟨fun o' h => i1 o' (g2 o' h), ?_⟩
    intro o ho
    rcases List.mem_cons.1 ho with rfl | ho
    · exact i1 _ g3
    · exact i2 o ho

theorem hitsOf_spec (matched : List MR) (tl : Nat) :
    (hitsOf matched tl).size = tl ∧
    ∀ x ∈ matched, ∀ i : Nat, x.tgtStart ≤ (i : Int) → (i : Int) < x.tgtEnd → i < tl →
      (hitsOf matched tl).getD i false = true := by
  have := foldl_setTrue_spec (fun m : MR => m.tgtStart) (fun m => m.tgtEnd) matched (Array.replicate tl false)
  unfold hitsOf
  refine ⟨by simpa using this.1, ?_⟩
  intro x hx i h1 h2 h3
  exact this.2.2 x hx i h1 h2 (by simpa using h3)

/-- a range of `sl` consecutive target positions that is matched puts its start into a run -/
theorem detectRuns_cov {C : Type} (N : NumEnv C) (matched : List MR) (tl sl q p : Nat) (hq : 0 < q)
    (hsl0 : 0 < sl) (hp : p + sl ≤ tl) (hsf : N.scaleFloor sl ≤ sl)
    (x : MR) (hx : x ∈ matched) (hx1 : x.tgtStart = (p : Int)) (hx2 : x.tgtEnd = (p : Int) + (sl : Int)) :
    Cov (detectRuns N matched tl sl q) p := by
  rw [detectRuns_eq, if_neg (by omega)]
  simp only []
  have hsub : (if tl < sl then tl else sl) = sl := by rw [if_neg (by omega)]
  rw [hsub]
  obtain ⟨hsz, hhits⟩ := hitsOf_spec matched tl
  generalize hhit : (fun i => (hitsOf matched tl).getD i false) = hit
  have hlt : ∀ e, hit e = true → e < tl := by
    intro e he
    rw [← hhit] at he
    simp only [Array.getD_eq_getD_getElem?] at he
    rcases Nat.lt_or_ge e tl with h | h
    · exact h
    · rw [Array.getElem?_eq_none (by omega)] at he
      simp at he
  have hcnt0 : ((List.range sl).filter hit).length = cnt hit 0 sl := by
    unfold cnt; simp
  rw [hcnt0]
  have hfull : cnt hit p sl = sl := by
    apply cnt_full
    intro k hk
    rw [← hhit]
    exact hhits x hx (p + k) (by rw [hx1]; omega) (by rw [hx2]; omega) (by omega)
  have hw := (win_inv hit tl sl (N.scaleFloor sl) hlt
    (if cnt hit 0 sl ≥ N.scaleFloor sl then [0] else []) (by intro h; rw [if_pos h]; simp) (tl - 1)).2 p
    (by omega) (by omega)
  generalize (List.foldl (winStep hit tl sl (N.scaleFloor sl))
    ((cnt hit 0 sl : Int), if cnt hit 0 sl ≥ N.scaleFloor sl then [0] else []) (List.range (tl - 1))).2 = out at hw
  cases out with
  | nil => cases hw
  | cons o0 rest =>
    simp only []
    have hg : Good q ([(o0, o0 + q)], o0) := ⟨o0, rfl, Nat.le_refl _⟩
    obtain ⟨s1, s2⟩ := runFold_spec q hq rest _ hg
    rcases List.mem_cons.1 hw with rfl | hw
    · exact s1 _ ⟨(p, p + q), by simp, Nat.le_refl _, by simp only; omega⟩
    · exact s2 p hw


/-! ### the join -/

def newR (qs qt t j : Nat) : MR :=
  { srcStart := (j : Int), srcEnd := (j : Int) + qs, tgtStart := (t : Int), tgtEnd := (t : Int) + qt, claimed := 0 }

def upd (qs qt t j : Nat) (cur : Option (List MR)) : List MR :=
  match cur with
  | some l =>
    match l.getLast? with
    | some last =>
      if last.tgtEnd = (t : Int) + qt - 1 then
        l.dropLast ++ [{ last with srcEnd := (j : Int) + qs, tgtEnd := (t : Int) + qt }]
      else l ++ [newR qs qt t j]
    | none => [newR qs qt t j]
  | none => [newR qs qt t j]

def jstep (lookup : Nat → List Nat) (qs qt : Nat) (om : List (Int × List MR)) (tv : Nat × Nat) :
    List (Int × List MR) :=
  (lookup tv.2).foldl (fun om (j : Nat) => omUpdate om ((tv.1 : Int) - (j : Int)) (upd qs qt tv.1 j)) om

theorem joinRangesWith_eq (lookup : Nat → List Nat) (qs : Nat) (th : List Nat) (qt : Nat) :
    joinRangesWith lookup qs th qt = (th.zipIdx.map (fun p => (p.2, p.1))).foldl (jstep lookup qs qt) [] := rfl

theorem zipIdx_swap_eq (th : List Nat) :
    th.zipIdx.map (fun p => (p.2, p.1)) = (List.range th.length).map (fun t => (t, th[t]?.getD 0)) := by
  apply List.ext_getElem?
  intro i
  simp only [List.getElem?_map, List.getElem?_zipIdx]
  by_cases h : i < th.length
  · simp [List.getElem?_eq_getElem h, List.getElem?_range h]
  · simp [h]

/-- the join after the first `n` target offsets -/
def J (lookup : Nat → List Nat) (q : Nat) (th : List Nat) (n : Nat) : List (Int × List MR) :=
  (List.range n).foldl (fun om t => jstep lookup q q om (t, th[t]?.getD 0)) []

theorem joinRangesWith_J (lookup : Nat → List Nat) (q : Nat) (th : List Nat) :
    joinRangesWith lookup q th q = J lookup q th th.length := by
  rw [joinRangesWith_eq, zipIdx_swap_eq, List.foldl_map]
  rfl

theorem J_succ (lookup : Nat → List Nat) (q : Nat) (th : List Nat) (n : Nat) :
    J lookup q th (n + 1) = jstep lookup q q (J lookup q th n) (n, th[n]?.getD 0) := by
  unfold J
  rw [List.range_succ, List.foldl_append]
  rfl

def omGet : List (Int × List MR) → Int → Option (List MR)
  | [], _ => none
  | (k', v) :: rest, k => if k' = k then some v else omGet rest k

theorem omGet_update_same (om : List (Int × List MR)) (k : Int) (f : Option (List MR) → List MR) :
    omGet (omUpdate om k f) k = some (f (omGet om k)) := by
  induction om with
  | nil => simp [omUpdate, omGet]
  | cons kv rest ih =>
    obtain ⟨k', v⟩ := kv
    unfold omUpdate
    by_cases h : k' = k
    · simp [h, omGet]
    · simp [h, omGet, ih]

theorem omGet_update_ne (om : List (Int × List MR)) (k k' : Int) (f : Option (List MR) → List MR)
    (hne : k' ≠ k) : omGet (omUpdate om k f) k' = omGet om k' := by
  induction om with
  | nil => simp [omUpdate, omGet, Ne.symm hne]
  | cons kv rest ih =>
    obtain ⟨k'', v⟩ := kv
    unfold omUpdate
    by_cases h : k'' = k
    · subst h
      simp [omGet, Ne.symm hne]
    · by_cases h2 : k'' = k'
      · subst h2
        simp [h, omGet]
      · simp [h, omGet, h2, ih]

theorem omGet_mem (om : List (Int × List MR)) (k : Int) (l : List MR) (h : omGet om k = some l) :
    (k, l) ∈ om := by
  induction om with
  | nil => simp [omGet] at h
  | cons kv rest ih =>
    obtain ⟨k', v⟩ := kv
    unfold omGet at h
    split at h
    · rename_i hk
      cases h; subst hk
      exact List.mem_cons_self
    · exact List.mem_cons_of_mem _ (ih h)

/-- in one step, the list of the diagonal `t - i` is updated exactly once, by source offset `i` -/
theorem inner_get_notin (g : Nat → Option (List MR) → List MR) (t : Nat) (k : Int) (srcs : List Nat)
    (hk : ∀ j ∈ srcs, (t : Int) - (j : Int) ≠ k) (om : List (Int × List MR)) :
    omGet (srcs.foldl (fun om (j : Nat) => omUpdate om ((t : Int) - (j : Int)) (g j)) om) k = omGet om k := by
  induction srcs generalizing om with
  | nil => rfl
  | cons j rest ih =>
    simp only [List.foldl_cons]
    rw [ih (fun j' hj' => hk j' (List.mem_cons_of_mem _ hj'))]
    exact omGet_update_ne _ _ _ _ (Ne.symm (hk j List.mem_cons_self))

theorem inner_get (g : Nat → Option (List MR) → List MR) (t i : Nat) (srcs : List Nat)
    (hnd : srcs.Nodup) (hi : i ∈ srcs) (om : List (Int × List MR)) :
    omGet (srcs.foldl (fun om (j : Nat) => omUpdate om ((t : Int) - (j : Int)) (g j)) om) ((t : Int) - (i : Int)) =
      some (g i (omGet om ((t : Int) - (i : Int)))) := by
  induction srcs generalizing om with
  | nil => cases hi
  | cons j rest ih =>
    simp only [List.foldl_cons]
    rw [List.nodup_cons] at hnd
    by_cases hji : j = i
    · subst hji
      rw [inner_get_notin g t _ rest ?_, omGet_update_same]
      intro j' hj' he
      have : j' = j := by omega
      subst this
      exact hnd.1 hj'
    · have hi' : i ∈ rest := by
        rcases List.mem_cons.1 hi with h | h
        · exact absurd h.symm hji
        · exact h
      rw [ih hnd.2 hi', omGet_update_ne]
      omega

theorem omUpdate_kinv (P : Int → MR → Prop) (k : Int) (f : Option (List MR) → List MR)
    (hf : ∀ cur, (∀ l, cur = some l → ∀ m ∈ l, P k m) → ∀ m ∈ f cur, P k m) :
    ∀ om : List (Int × List MR), (∀ p ∈ om, ∀ m ∈ p.2, P p.1 m) →
      ∀ p ∈ omUpdate om k f, ∀ m ∈ p.2, P p.1 m := by
  intro om
  induction om with
  | nil =>
    intro _ p hp m hm
    simp only [omUpdate, List.mem_singleton] at hp
    subst hp
    exact hf none (by intro l h; cases h) m hm
  | cons kv rest ih =>
    intro hom p hp m hm
    obtain ⟨k', v⟩ := kv
    unfold omUpdate at hp
    split at hp
    · rename_i hk
      subst hk
      rcases List.mem_cons.1 hp with rfl | hp
      · refine hf (some v) ?_ m hm
        intro l hl; cases hl
        exact hom (k', v) List.mem_cons_self
      · exact hom p (List.mem_cons_of_mem _ hp) m hm
    · rcases List.mem_cons.1 hp with rfl | hp
      · exact hom (k', v) List.mem_cons_self m hm
      · exact ih (fun p hp => hom p (List.mem_cons_of_mem _ hp)) p hp m hm

/-- a matched range is a diagonal segment inside the copy: source within `[0,L]`, target within
`[P,P+L]`, same length on both sides -/
def Seg (P L : Nat) (m : MR) : Prop :=
  0 ≤ m.srcStart ∧ m.srcEnd ≤ (L : Int) ∧ (P : Int) ≤ m.tgtStart ∧ m.tgtStart < m.tgtEnd ∧
    m.tgtEnd ≤ (P : Int) + (L : Int) ∧ m.tgtEnd - m.tgtStart = m.srcEnd - m.srcStart

def KSeg (P L : Nat) (k : Int) (m : MR) : Prop := Seg P L m ∧ m.tgtStart - m.srcStart = k

theorem upd_kseg (P L q t j : Nat) (hq : 0 < q) (hj : j + q ≤ L) (ht1 : P ≤ t) (ht2 : t + q ≤ P + L)
    (cur : Option (List MR))
    (hcur : ∀ l, cur = some l → ∀ m ∈ l, KSeg P L ((t : Int) - (j : Int)) m) :
    ∀ m ∈ upd q q t j cur, KSeg P L ((t : Int) - (j : Int)) m := by
  have hnew : KSeg P L ((t : Int) - (j : Int)) (newR q q t j) := by
    refine ⟨⟨?_, ?_, ?_, ?_, ?_, ?_⟩, ?_⟩ <;> simp only [newR] <;> omega
  intro m hm
  unfold upd at hm
  split at hm
  · rename_i l
    have hl := hcur l rfl
    split at hm
    · rename_i last hlast
      have hlastmem : last ∈ l := List.mem_of_getLast? hlast
      split at hm
      · rename_i hte
        rcases List.mem_append.1 hm with hm | hm
        · exact hl m (List.dropLast_subset l hm)
        · simp only [List.mem_singleton] at hm
          subst hm
          obtain ⟨⟨h1, h2, h3, h4, h5, h6⟩, h7⟩ := hl last hlastmem
          refine ⟨⟨?_, ?_, ?_, ?_, ?_, ?_⟩, ?_⟩ <;> simp only <;> omega
      · rcases List.mem_append.1 hm with hm | hm
        · exact hl m hm
        · simp only [List.mem_singleton] at hm
          subst hm; exact hnew
    · simp only [List.mem_singleton] at hm
      subst hm; exact hnew
  · simp only [List.mem_singleton] at hm
    subst hm; exact hnew

section
variable (lookup : Nat → List Nat) (q : Nat) (th : List Nat) (P L : Nat)
variable (hq : 0 < q) (hqL : q ≤ L)
variable (H1 : ∀ t cs, th[t]? = some cs → ∀ j ∈ lookup cs, j + q ≤ L ∧ P ≤ t ∧ t + q ≤ P + L)
variable (H2 : ∀ i, i + q ≤ L → ∃ cs, th[P + i]? = some cs ∧ i ∈ lookup cs)
variable (H3 : ∀ cs, (lookup cs).Nodup)
include hq H1

theorem J_kseg (n : Nat) (hn : n ≤ th.length) :
    ∀ p ∈ J lookup q th n, ∀ m ∈ p.2, KSeg P L p.1 m := by
  induction n with
  | zero => intro p hp; cases hp
  | succ n ih =>
    have ih' := ih (by omega)
    rw [J_succ]
    have hcs : th[n]? = some (th[n]?.getD 0) := by
      rw [List.getElem?_eq_getElem (by omega)]; rfl
    have hl := H1 n _ hcs
    unfold jstep
    simp only
    refine WFP.foldl_inv _ (fun (om : List (Int × List MR)) => ∀ p ∈ om, ∀ m ∈ p.2, KSeg P L p.1 m) _ _ ih' ?_
    intro om j hj hom
    obtain ⟨a, b, c⟩ := hl j hj
    exact omUpdate_kinv (KSeg P L) _ _ (upd_kseg P L q n j hq a b c) om hom

omit hq in
theorem jstep_nil (om : List (Int × List MR)) (t : Nat) (ht : t < th.length) (hout : ¬ (P ≤ t ∧ t + q ≤ P + L)) :
    jstep lookup q q om (t, th[t]?.getD 0) = om := by
  have hcs : th[t]? = some (th[t]?.getD 0) := by
    rw [List.getElem?_eq_getElem ht]; rfl
  have : lookup (th[t]?.getD 0) = [] := by
    apply List.eq_nil_iff_forall_not_mem.2
    intro j hj
    exact hout (H1 t _ hcs j hj).2
  unfold jstep
  simp only [this, List.foldl_nil]

omit hq in
theorem J_before (n : Nat) (hn : n ≤ P) (hn2 : n ≤ th.length) : J lookup q th n = [] := by
  induction n with
  | zero => rfl
  | succ n ih =>
    rw [J_succ, ih (by omega) (by omega)]
    exact jstep_nil lookup q th P L H1 [] n (by omega) (by omega)

omit hq in
theorem J_after (n : Nat) (hn2 : P + L + 1 - q + n ≤ th.length) :
    J lookup q th (P + L + 1 - q + n) = J lookup q th (P + L + 1 - q) := by
  induction n with
  | zero => rfl
  | succ n ih =>
    rw [← Nat.add_assoc, J_succ, ih (by omega)]
    exact jstep_nil lookup q th P L H1 _ _ (by omega) (by omega)

theorem join_seg : ∀ p ∈ joinRangesWith lookup q th q, ∀ m ∈ p.2, Seg P L m := by
  intro p hp m hm
  rw [joinRangesWith_J] at hp
  exact (J_kseg lookup q th P L hq H1 th.length (Nat.le_refl _) p hp m hm).1

include hqL H2 H3

omit hq hqL in
theorem J_diag (i : Nat) (hi : i + q ≤ L) :
    ∃ l last, omGet (J lookup q th (P + i + 1)) (P : Int) = some l ∧ l.getLast? = some last ∧
      last.srcStart = 0 ∧ last.srcEnd = (i : Int) + q ∧ last.tgtStart = (P : Int) ∧
      last.tgtEnd = (P : Int) + i + q ∧ last.claimed = 0 := by
  induction i with
  | zero =>
    obtain ⟨cs, hcs, hmem⟩ := H2 0 (by omega)
    have hlen : P < th.length := by
      have := (List.getElem?_eq_some_iff.1 hcs).1; omega
    rw [J_succ, J_before lookup q th P L H1 P (Nat.le_refl _) (by omega)]
    have hcs' : th[P]?.getD 0 = cs := by
      have : th[P]? = some cs := by simpa using hcs
      rw [this]; rfl
    unfold jstep
    simp only [hcs']
    have := inner_get (upd q q P) P 0 (lookup cs) (H3 cs) hmem []
    simp only [Int.natCast_zero, Int.sub_zero] at this
    rw [this]
    refine ⟨_, newR q q P 0, rfl, ?_, ?_⟩
    · simp [omGet, upd]
    · simp [newR]
  | succ i ih =>
    obtain ⟨l, last, hget, hlast, e1, e2, e3, e4, e5⟩ := ih (by omega)
    obtain ⟨cs, hcs, hmem⟩ := H2 (i + 1) hi
    have hcs' : th[P + i + 1]?.getD 0 = cs := by
      have : th[P + i + 1]? = some cs := by simpa [Nat.add_assoc] using hcs
      rw [this]; rfl
    rw [show P + (i + 1) + 1 = (P + i + 1) + 1 by omega, J_succ]
    unfold jstep
    simp only [hcs']
    have := inner_get (upd q q (P + i + 1)) (P + i + 1) (i + 1) (lookup cs) (H3 cs) hmem
      (J lookup q th (P + i + 1))
    have ek : ((P + i + 1 : Nat) : Int) - ((i + 1 : Nat) : Int) = (P : Int) := by omega
    rw [ek] at this
    rw [this, hget]
    have hu : upd q q (P + i + 1) (i + 1) (some l) =
        l.dropLast ++ [{ last with srcEnd := ((i + 1 : Nat) : Int) + q, tgtEnd := ((P + i + 1 : Nat) : Int) + q }] := by
      unfold upd
      simp only [hlast]
      rw [if_pos (by rw [e4]; omega)]
    rw [hu]
    refine ⟨_, { last with srcEnd := ((i + 1 : Nat) : Int) + q, tgtEnd := ((P + i + 1 : Nat) : Int) + q },
      rfl, List.getLast?_concat, ?_⟩
    refine ⟨e1, ?_, e3, ?_, e5⟩ <;> simp only <;> omega

omit hq in
/-- the planted diagonal ends up as one range covering the whole document -/
theorem join_exact (hlen : P + L + 1 - q ≤ th.length) :
    ∃ l, ((P : Int), l) ∈ joinRangesWith lookup q th q ∧
      ({ srcStart := 0, srcEnd := L, tgtStart := P, tgtEnd := (P : Int) + L, claimed := 0 } : MR) ∈ l := by
  obtain ⟨l, last, hget, hlast, e1, e2, e3, e4, e5⟩ := J_diag lookup q th P L H1 H2 H3 (L - q) (by omega)
  refine ⟨l, ?_, ?_⟩
  · rw [joinRangesWith_J]
    have e : th.length = P + L + 1 - q + (th.length - (P + L + 1 - q)) := by omega
    rw [e, J_after lookup q th P L H1 _ (by omega)]
    have e' : P + L + 1 - q = P + (L - q) + 1 := by omega
    rw [e']
    exact omGet_mem _ _ _ hget
  · have hm := List.mem_of_getLast? hlast
    have : last = { srcStart := 0, srcEnd := L, tgtStart := P, tgtEnd := (P : Int) + L, claimed := 0 } := by
      cases last
      simp only at e1 e2 e3 e4 e5
      simp only [MR.mk.injEq]
      refine ⟨e1, ?_, e3, ?_, e5⟩ <;> omega
    rw [← this]; exact hm

end


/-! ### sorted matched ranges: the exact range comes first -/

/-- the exact range, with its claimed-token count -/
def exactR (P L : Nat) : MR :=
  { srcStart := 0, srcEnd := L, tgtStart := P, tgtEnd := (P : Int) + L, claimed := L }

/-- `Seg` plus `claimed = length` -/
def CSeg (P L : Nat) (m : MR) : Prop := Seg P L m ∧ m.claimed = m.tgtEnd - m.tgtStart

theorem cseg_max (P L : Nat) (m : MR) (h : CSeg P L m) :
    m.claimed ≤ (L : Int) ∧ (m.claimed = (L : Int) → m = exactR P L) := by
  obtain ⟨⟨h1, h2, h3, h4, h5, h6⟩, h7⟩ := h
  refine ⟨by omega, ?_⟩
  intro hc
  cases m
  simp only [exactR, MR.mk.injEq] at *
  omega

theorem sorted_head (P L : Nat) (l : List MR) (hall : ∀ m ∈ l, CSeg P L m) (hE : exactR P L ∈ l) :
    (sortBy mrLess l).head? = some (exactR P L) := by
  have hs := Ord.sortBy_sorted mrLess Ord.mrLess_ok.irrefl Ord.mrLess_ok.trans l
  have hmem : ∀ m, m ∈ sortBy mrLess l ↔ m ∈ l := fun m => WFP.mem_sortBy mrLess m l
  generalize sortBy mrLess l = s at hs hmem
  cases s with
  | nil => exact absurd ((hmem _).2 hE) (by simp)
  | cons h tl =>
    rw [List.pairwise_cons] at hs
    simp only [List.head?_cons, Option.some.injEq]
    have hh := cseg_max P L h (hall h ((hmem h).1 List.mem_cons_self))
    rcases List.mem_cons.1 ((hmem _).2 hE) with he | he
    · exact he.symm
    · have hl := hs.1 _ he
      apply hh.2
      unfold mrLess at hl
      have hEc : (exactR P L).claimed = (L : Int) := rfl
      by_cases hne : (exactR P L).claimed ≠ h.claimed
      · rw [if_pos hne] at hl
        have : ¬ (exactR P L).claimed > h.claimed := by simpa using hl
        rw [hEc] at this hne
        omega
      · rw [hEc] at hne
        omega

/-! ### fuseRanges keeps the exact range as its first claim -/

/-- the claim still spans the exact range, with at least `L` tokens claimed -/
def HeadOK (P L : Nat) (c : Claim) : Prop :=
  c.m.srcStart = 0 ∧ c.m.srcEnd = (L : Int) ∧ c.m.tgtStart = (P : Int) ∧ c.m.tgtEnd = (P : Int) + L ∧
    (L : Int) ≤ c.m.claimed

theorem absorb_head (P L : Nat) (em : Int) (m : MR) (hm : Seg P L m) (c : Claim) (cs : List Claim)
    (hc : HeadOK P L c) :
    ∃ c' cs', (absorb em m (c :: cs)).1 = c' :: cs' ∧ HeadOK P L c' := by
  obtain ⟨a1, a2, a3, a4, a5⟩ := hc
  obtain ⟨b1, b2, b3, b4, b5, b6⟩ := hm
  unfold absorb
  simp only
  split
  · rename_i hcond
    have hpos : m.claimed > 0 := by
      have := hcond.2
      omega
    split
    · exact ⟨_, _, rfl, a1, a2, a3, a4, by simp only; omega⟩
    · split
      · rename_i h _
        exfalso; omega
      · split
        · rename_i h
          exfalso; omega
        · exact ⟨c, _, rfl, a1, a2, a3, a4, a5⟩
  · exact ⟨c, _, rfl, a1, a2, a3, a4, a5⟩

def fstep {C : Type} (N : NumEnv C) (size : Nat) (filter : Array Bool) (targetSize : Nat) (m0 : Option MR)
    (st : Option (List Claim)) (mi : MR × Nat) : Option (List Claim) :=
  match st with
  | none => none
  | some claimed =>
    let m := mi.1
    let off0 := m.tgtStart - m.srcStart
    let offOk : Option Int :=
      if off0 < 0 then (if -off0 ≤ (N.errMargin size : Int) then some 0 else none) else some off0
    match offOk with
    | none => some claimed
    | some off =>
      if off ≥ targetSize then none
      else if !(filter.getD off.toNat false) then some claimed
      else
        let r := absorb (N.errMargin size : Int) m claimed
        if r.2 then some r.1
        else
          let first : Int := firstClaimed r.1 m0
          if m.claimed * 10 > first then some (r.1 ++ [{ m := m, origin := mi.2 }]) else some r.1

def filterOf (runs : List (Nat × Nat)) (targetSize : Nat) : Array Bool :=
  runs.foldl (fun f r => setTrue f r.1 (min r.2 targetSize)) (Array.replicate targetSize false)

theorem fuseRanges_eq {C : Type} (N : NumEnv C) (matched : List MR) (size : Nat) (runs : List (Nat × Nat))
    (targetSize : Nat) :
    fuseRanges N matched size runs targetSize =
      (matched.zipIdx.foldl (fstep N size (filterOf runs targetSize) targetSize matched.head?) (some [])).map
        (fun cl => sortBy mrLess (cl.map (·.m))) := rfl

theorem fstep_head {C : Type} (N : NumEnv C) (size : Nat) (filter : Array Bool) (ts : Nat) (m0 : Option MR)
    (P L : Nat) (hPL : P + L ≤ ts) (c : Claim) (cs : List Claim) (hc : HeadOK P L c) (mi : MR × Nat)
    (hm : Seg P L mi.1) :
    ∃ c' cs', fstep N size filter ts m0 (some (c :: cs)) mi = some (c' :: cs') ∧ HeadOK P L c' := by
  obtain ⟨b1, b2, b3, b4, b5, b6⟩ := hm
  unfold fstep
  simp only []
  split
  · exact ⟨c, cs, rfl, hc⟩
  · rename_i off hoff
    have hofflt : off < (ts : Int) := by
      split at hoff
      · split at hoff
        · cases hoff; omega
        · cases hoff
      · cases hoff; omega
    rw [if_neg (by omega)]
    split
    · exact ⟨c, cs, rfl, hc⟩
    · obtain ⟨c', cs', he, hc'⟩ := absorb_head P L (N.errMargin size) mi.1 ⟨b1, b2, b3, b4, b5, b6⟩ c cs hc
      split
      · exact ⟨c', cs', by rw [he], hc'⟩
      · split
        · exact ⟨c', cs' ++ [_], by rw [he]; rfl, hc'⟩
        · exact ⟨c', cs', by rw [he], hc'⟩

theorem fstep_first {C : Type} (N : NumEnv C) (size : Nat) (filter : Array Bool) (ts : Nat)
    (P L : Nat) (hL : 0 < L) (hPL : P + L ≤ ts) (hf : filter.getD P false = true) :
    fstep N size filter ts (some (exactR P L)) (some []) (exactR P L, 0) = some [{ m := exactR P L, origin := 0 }] := by
  unfold fstep
  simp only [exactR, Int.sub_zero]
  rw [if_neg (by omega)]
  simp only []
  rw [if_neg (by omega)]
  simp only [Int.toNat_natCast, hf, absorb, firstClaimed, List.find?_nil]
  simp
  omega

theorem mem_zipIdx_fst' {α : Type} (l : List α) (n : Nat) (p : α × Nat) (h : p ∈ l.zipIdx n) : p.1 ∈ l := by
  obtain ⟨x, i⟩ := p
  rw [List.mem_zipIdx_iff_le_and_getElem?_sub] at h
  exact List.mem_of_getElem? h.2

theorem fuse_exact {C : Type} (N : NumEnv C) (size : Nat) (runs : List (Nat × Nat)) (ts : Nat)
    (P L : Nat) (hL : 0 < L) (hPL : P + L ≤ ts) (rest : List MR)
    (hall : ∀ m ∈ rest, Seg P L m) (hf : (filterOf runs ts).getD P false = true) :
    ∃ fr, fuseRanges N (exactR P L :: rest) size runs ts = some fr ∧
      fr.Pairwise (fun a b => mrLess b a = false) ∧
      ∃ x ∈ fr, x.srcStart = 0 ∧ x.srcEnd = (L : Int) ∧ x.tgtStart = (P : Int) ∧ x.tgtEnd = (P : Int) + L ∧
        (L : Int) ≤ x.claimed := by
  rw [fuseRanges_eq]
  simp only [List.zipIdx_cons, List.foldl_cons, List.head?_cons]
  rw [fstep_first N size _ ts P L hL hPL hf]
  have hinv : ∃ c cs, List.foldl (fstep N size (filterOf runs ts) ts (some (exactR P L)))
      (some [{ m := exactR P L, origin := 0 }]) (rest.zipIdx (0 + 1)) = some (c :: cs) ∧ HeadOK P L c := by
    refine WFP.foldl_inv _ (fun (st : Option (List Claim)) => ∃ c cs, st = some (c :: cs) ∧ HeadOK P L c) _ _
      ⟨_, [], rfl, rfl, rfl, rfl, rfl, by simp [exactR]⟩ ?_
    rintro st mi hmi ⟨c, cs, rfl, hc⟩
    have hseg : Seg P L mi.1 := hall _ (mem_zipIdx_fst' _ _ _ hmi)
    exact fstep_head N size _ ts _ P L hPL c cs hc mi hseg
  obtain ⟨c, cs, he, hc⟩ := hinv
  rw [he]
  refine ⟨_, rfl, Ord.sortBy_sorted mrLess Ord.mrLess_ok.irrefl Ord.mrLess_ok.trans _, c.m, ?_, hc⟩
  rw [WFP.mem_sortBy]
  exact List.mem_map.2 ⟨c, List.mem_cons_self, rfl⟩

/-! ### the final cut -/

theorem takeWhile_keeps (c : Int) (l : List MR) (hs : l.Pairwise (fun a b => mrLess b a = false))
    (x : MR) (hx : x ∈ l) (hc : c ≤ x.claimed) :
    x ∈ l.takeWhile (fun m => !(decide (m.claimed < c))) := by
  induction l with
  | nil => cases hx
  | cons y ys ih =>
    rw [List.pairwise_cons] at hs
    have hy : c ≤ y.claimed := by
      rcases List.mem_cons.1 hx with rfl | hx'
      · exact hc
      · have hl := hs.1 x hx'
        unfold mrLess at hl
        by_cases hne : x.claimed ≠ y.claimed
        · rw [if_pos hne] at hl
          have : ¬ x.claimed > y.claimed := by simpa using hl
          omega
        · omega
    rw [List.takeWhile_cons, if_pos (by simp; omega)]
    rcases List.mem_cons.1 hx with rfl | hx'
    · exact List.mem_cons_self
    · exact List.mem_cons_of_mem _ (ih hs.2 hx')


/-! ### q-gram checksums of the planted copy -/

theorem mem_lookupIn_iff (sh : List Nat) (cs j : Nat) : j ∈ lookupIn sh cs ↔ sh[j]? = some cs := by
  simp only [lookupIn, List.mem_map, List.mem_filter]
  constructor
  · rintro ⟨⟨x, i⟩, ⟨hm, hx⟩, rfl⟩
    rw [List.mem_zipIdx_iff_getElem?] at hm
    simp only [decide_eq_true_eq] at hx
    rw [hm, hx]
  · intro h
    exact ⟨(cs, j), ⟨List.mem_zipIdx_iff_getElem?.2 h, by simp⟩, rfl⟩

theorem lookupIn_nodup (sh : List Nat) (cs : Nat) : (lookupIn sh cs).Nodup := by
  unfold lookupIn
  have h1 : ((sh.zipIdx.filter (fun p => p.1 = cs)).map (·.2)).Sublist (sh.zipIdx.map (·.2)) :=
    List.Sublist.map _ List.filter_sublist
  have h2 : sh.zipIdx.map (·.2) = List.range' 0 sh.length := List.zipIdx_map_snd 0 sh
  rw [h2] at h1
  exact List.Nodup.sublist h1 List.nodup_range'

theorem hashes_getElem? (crc : Text → Nat) (wordOf : Nat → Text) (q : Nat) (hq : 0 < q) (ids : List Nat)
    (t : Nat) :
    (hashes crc wordOf q ids)[t]? =
      if t + q ≤ ids.length then some (crc (gram wordOf ((ids.drop t).take q))) else none := by
  unfold hashes gram
  rw [if_neg (by omega)]
  simp only [List.getElem?_map]
  by_cases h : t + q ≤ ids.length
  · rw [List.getElem?_range (by omega), if_pos h]; rfl
  · rw [List.getElem?_eq_none (by simp only [List.length_range]; omega), if_neg h]; rfl

theorem win_length (ids : List Nat) (t q : Nat) (h : t + q ≤ ids.length) : ((ids.drop t).take q).length = q := by
  rw [List.length_take, List.length_drop]; omega

theorem win_sub (ids : List Nat) (t q x : Nat) (h : x ∈ (ids.drop t).take q) : x ∈ ids :=
  List.mem_of_mem_drop (List.mem_of_mem_take h)

theorem win_get (ids : List Nat) (t q k x : Nat) (hk : k < q) (hx : ids[t + k]? = some x) :
    x ∈ (ids.drop t).take q := by
  apply List.mem_of_getElem? (i := k)
  rw [List.getElem?_take, if_pos hk, List.getElem?_drop]
  exact hx

section
variable (crc : Text → Nat) (wordOf : Nat → Text) (q : Nat) (pre D post : List Nat)
variable (hq : 0 < q) (hinj : HashInj crc wordOf q) (hoov : ∀ x, x ∈ pre ++ post → x ∉ D)
include hq hinj hoov

/-- a q-gram of the target that has the checksum of a q-gram of `D` lies inside the copy -/
theorem planted_H1 (t cs : Nat) (ht : (hashes crc wordOf q (pre ++ D ++ post))[t]? = some cs)
    (j : Nat) (hj : j ∈ lookupIn (hashes crc wordOf q D) cs) :
    j + q ≤ D.length ∧ pre.length ≤ t ∧ t + q ≤ pre.length + D.length := by
  rw [mem_lookupIn_iff, hashes_getElem? crc wordOf q hq] at hj
  rw [hashes_getElem? crc wordOf q hq] at ht
  split at hj
  · rename_i hjq
    split at ht
    · rename_i htq
      simp only [List.length_append] at htq
      have he : crc (gram wordOf (((pre ++ D ++ post).drop t).take q)) =
          crc (gram wordOf ((D.drop j).take q)) := by
        rw [Option.some.inj ht, Option.some.inj hj]
      have hw := hinj _ _ (win_length _ t q (by simp only [List.length_append]; omega))
        (win_length D j q hjq) he
      have hsub : ∀ x, x ∈ ((pre ++ D ++ post).drop t).take q → x ∈ D := by
        intro x hx; rw [hw] at hx; exact win_sub D j q x hx
      refine ⟨hjq, ?_, ?_⟩
      · rcases Nat.lt_or_ge t pre.length with hlt | hge
        · exfalso
          have h1 : (pre ++ D ++ post)[t + 0]? = some (pre[t]'hlt) := by
            rw [Nat.add_zero, List.append_assoc, List.getElem?_append_left hlt, List.getElem?_eq_getElem hlt]
          have h2 := hsub _ (win_get _ t q 0 _ hq h1)
          exact hoov _ (List.mem_append_left _ (List.getElem_mem hlt)) h2
        · exact hge
      · rcases Nat.lt_or_ge (pre.length + D.length) (t + q) with hlt | hge
        · exfalso
          have hidx : t + (q - 1) - (pre ++ D).length < post.length := by
            simp only [List.length_append]; omega
          have h1 : (pre ++ D ++ post)[t + (q - 1)]? = some (post[t + (q - 1) - (pre ++ D).length]'hidx) := by
            rw [List.getElem?_append_right (by simp only [List.length_append]; omega),
              List.getElem?_eq_getElem hidx]
          have h2 := hsub _ (win_get _ t q (q - 1) _ (by omega) h1)
          exact hoov _ (List.mem_append_right _ (List.getElem_mem hidx)) h2
        · exact hge
    · cases ht
  · cases hj

omit hinj hoov in
theorem planted_H2 (i : Nat) (hi : i + q ≤ D.length) :
    ∃ cs, (hashes crc wordOf q (pre ++ D ++ post))[pre.length + i]? = some cs ∧
      i ∈ lookupIn (hashes crc wordOf q D) cs := by
  have h := hashes_contains' crc wordOf q hq pre D post i hi
  have h2 := hashes_getElem? crc wordOf q hq D i
  rw [if_pos hi] at h2
  refine ⟨_, h.trans h2, ?_⟩
  rw [mem_lookupIn_iff]
  exact h2

end

/-! ### the whole search-set stage -/

theorem filterOf_hit (runs : List (Nat × Nat)) (ts p : Nat) (hp : p < ts) (hc : Cov runs p) :
    (filterOf runs ts).getD p false = true := by
  obtain ⟨r, hr, h1, h2⟩ := hc
  unfold filterOf
  have := (foldl_setTrue_spec (fun r : Nat × Nat => (r.1 : Int)) (fun r => min (r.2 : Int) (ts : Int)) runs
    (Array.replicate ts false)).2.2 r hr p (by show (r.1 : Int) ≤ (p : Int); omega) (by show (p : Int) < min (r.2 : Int) (ts : Int); omega) (by simpa using hp)
  exact this

theorem pipeline {C : Type} (N : NumEnv C) (lookup : Nat → List Nat) (q : Nat) (th : List Nat) (P L TL : Nat)
    (hsf : N.scaleFloor L ≤ L) (hq : 0 < q) (hqL : q ≤ L) (hPL : P + L ≤ TL)
    (hlen : P + L + 1 - q ≤ th.length)
    (H1 : ∀ t cs, th[t]? = some cs → ∀ j ∈ lookup cs, j + q ≤ L ∧ P ≤ t ∧ t + q ≤ P + L)
    (H2 : ∀ i, i + q ≤ L → ∃ cs, th[P + i]? = some cs ∧ i ∈ lookup cs)
    (H3 : ∀ cs, (lookup cs).Nodup) :
    ∃ ms, findPotentialMatches N lookup q L th q TL = some ms ∧
      ∃ m ∈ ms, m.srcStart = 0 ∧ m.srcEnd = (L : Int) ∧ m.tgtStart = (P : Int) ∧
        m.tgtEnd = (P : Int) + (L : Int) := by
  have hL : 0 < L := by omega
  -- the flattened join
  have hflat : ∀ m ∈ (joinRangesWith lookup q th q).flatMap
      (fun p => p.2.map (fun m => { m with claimed := m.tgtEnd - m.tgtStart })), CSeg P L m := by
    intro m hm
    simp only [List.mem_flatMap, List.mem_map] at hm
    obtain ⟨p, hp, m', hm', rfl⟩ := hm
    exact ⟨join_seg lookup q th P L hq H1 p hp m' hm', rfl⟩
  have hE : exactR P L ∈ (joinRangesWith lookup q th q).flatMap
      (fun p => p.2.map (fun m => { m with claimed := m.tgtEnd - m.tgtStart })) := by
    obtain ⟨l, hl, hm⟩ := join_exact lookup q th P L hqL H1 H2 H3 hlen
    simp only [List.mem_flatMap, List.mem_map]
    refine ⟨_, hl, _, hm, ?_⟩
    simp only [exactR, MR.mk.injEq]
    exact ⟨trivial, trivial, trivial, trivial, by omega⟩
  have hhead : (targetMatchedRangesWith lookup q th q).head? = some (exactR P L) :=
    sorted_head P L _ hflat hE
  have hseg : ∀ m ∈ targetMatchedRangesWith lookup q th q, Seg P L m := by
    intro m hm
    unfold targetMatchedRangesWith at hm
    rw [WFP.mem_sortBy] at hm
    exact (hflat m hm).1
  unfold findPotentialMatches
  simp only []
  generalize targetMatchedRangesWith lookup q th q = matched at hhead hseg
  cases matched with
  | nil => cases hhead
  | cons e rest =>
    simp only [List.head?_cons, Option.some.injEq] at hhead
    subst hhead
    rw [if_neg (by simp)]
    have hcov : Cov (detectRuns N (exactR P L :: rest) TL L q) P :=
      detectRuns_cov N _ TL L q P hq hL hPL hsf (exactR P L) List.mem_cons_self rfl rfl
    have hne : detectRuns N (exactR P L :: rest) TL L q ≠ [] := by
      obtain ⟨r, hr, _⟩ := hcov
      exact List.ne_nil_of_mem hr
    rw [if_neg hne]
    obtain ⟨fr, hfr, hsorted, x, hx, x1, x2, x3, x4, x5⟩ := fuse_exact N L
      (detectRuns N (exactR P L :: rest) TL L q) TL P L hL hPL rest
      (fun m hm => hseg m (List.mem_cons_of_mem _ hm)) (filterOf_hit _ TL P (by omega) hcov)
    rw [hfr]
    refine ⟨_, rfl, x, ?_, x1, x2, x3, x4⟩
    exact takeWhile_keeps _ fr hsorted x hx (by omega)

end LC.V2Match.ER

namespace LC.V2Match
open ER

theorem exact_range_proposed' {C : Type} (N : NumEnv C) (hsf : ∀ n, N.scaleFloor n ≤ n)
    (crc : Text → Nat) (wordOf : Nat → Text) (pre D post : List Nat)
    (hq : 0 < N.q) (hD : N.q ≤ D.length) (hinj : HashInj crc wordOf N.q)
    (hoov : ∀ x, x ∈ pre ++ post → x ∉ D) :
    ∃ ms, findPotentialMatches N (lookupIn (hashes crc wordOf (effQ N.q D.length) D)) (effQ N.q D.length) D.length
            (hashes crc wordOf (effQ N.q (pre ++ D ++ post).length) (pre ++ D ++ post))
            (effQ N.q (pre ++ D ++ post).length) (pre ++ D ++ post).length = some ms ∧
      ∃ m ∈ ms, m.srcStart = 0 ∧ m.srcEnd = (D.length : Int) ∧ m.tgtStart = (pre.length : Int) ∧
        m.tgtEnd = (pre.length : Int) + (D.length : Int) := by
  have e1 : effQ N.q D.length = N.q := by unfold effQ; rw [if_neg (by omega)]
  have e2 : effQ N.q (pre ++ D ++ post).length = N.q := by
    unfold effQ; rw [if_neg (by simp only [List.length_append]; omega)]
  rw [e1, e2]
  refine pipeline N _ N.q _ pre.length D.length _ (hsf _) hq hD
    (by simp only [List.length_append]; omega) ?_ ?_ ?_ ?_
  · rw [WFP.hashes_length, if_neg (by omega)]
    simp only [List.length_append]; omega
  · exact planted_H1 crc wordOf N.q pre D post hq hinj hoov
  · exact planted_H2 crc wordOf N.q pre D post hq
  · exact lookupIn_nodup _

end LC.V2Match
