/- Helper lemmas for LC/Props/C01.lean. -/
import LC.Model.V2Match
namespace LC.V2Match
open LC.Score

/-! ### the pre-filter -/

theorem countOf_planted (pre D post : List Nat) (t : Nat) :
    countOf (pre ++ D ++ post) t ≥ countOf D t := by
  unfold countOf
  simp only [List.count_append]
  omega

theorem prefilter_contains' (pre D post : List Nat) :
    tokenSim (pre ++ D ++ post) D = ((distinct D).length, (distinct D).length) := by
  unfold tokenSim tokenSimWith
  have : (distinct D).filter (fun t => decide (countOf (pre ++ D ++ post) t ≥ countOf D t)) = distinct D := by
    rw [List.filter_eq_self]
    intro t _
    simpa using countOf_planted pre D post t
  rw [this]

/-! ### q-gram checksums -/

theorem planted_window (pre D post : List Nat) (i q : Nat) (hi : i + q ≤ D.length) :
    ((pre ++ D ++ post).drop (pre.length + i)).take q = (D.drop i).take q := by
  rw [List.append_assoc, List.drop_append, List.drop_of_length_le (by omega), List.nil_append]
  have e : pre.length + i - pre.length = i := by omega
  rw [e, List.drop_append_of_le_length (by omega), List.take_append_of_le_length]
  rw [List.length_drop]
  omega

theorem hashes_contains' (crc : Text → Nat) (wordOf : Nat → Text) (q : Nat) (hq : 0 < q)
    (pre D post : List Nat) (i : Nat) (hi : i + q ≤ D.length) :
    (hashes crc wordOf q (pre ++ D ++ post))[pre.length + i]? = (hashes crc wordOf q D)[i]? := by
  unfold hashes
  have hq' : ¬ q = 0 := by omega
  simp only [hq', if_false, List.getElem?_map]
  have h1 : pre.length + i < (pre ++ D ++ post).length + 1 - q := by
    simp only [List.length_append]; omega
  have h2 : i < D.length + 1 - q := by omega
  rw [List.getElem?_range h1, List.getElem?_range h2]
  simp only [Option.map_some]
  rw [planted_window pre D post i q hi]

/-! ### identical texts -/

theorem diffRange_exact (D : List Nat) : diffRange D [⟨.eq, D⟩] = (0, 1) := by
  simp [diffRange, diffRangeAux]

theorem score_exact' (D : List Nat) (hD : D ≠ []) :
    scoreOffsets D [⟨.eq, D⟩] = (0, 0, 0) ∧ Valid [⟨.eq, D⟩] D D := by
  constructor
  · unfold scoreOffsets
    rw [diffRange_exact]
    simp [levWord, levWordAux, textLength]
  · refine ⟨by simp [src], by simp [dst], ?_⟩
    intro d hd
    simp only [List.mem_singleton] at hd
    subst hd
    exact hD

theorem score_exact_conf' {C : Type} (N : NumEnv C) (wordOf : Nat → Text) (isDigitRune : Nat → Bool)
    (decode : Text → List Nat) (induced : List (Text × List Text)) (d : KDoc) (_hD : d.ids ≠ []) :
    score N wordOf isDigitRune decode induced d [⟨.eq, d.ids⟩] = (N.conf d.ids.length 0, 0, 0) := by
  unfold score
  rw [diffRange_exact]
  simp [vetoScan, levWord, levWordAux, textLength]

/-! ### the retain pass -/

/-- one iteration of the retain loop -/
def retainStep {C : Type} (N : NumEnv C) (cands : List (Match C)) (retain : List Bool)
    (ci : Match C × Nat) : List Bool :=
  let earlier := ((cands.take ci.2).zip (retain.take ci.2)).zipIdx.map (fun p => (p.1.1, p.1.2, p.2))
  let r := retainInner N ci.1 earlier []
  if r.1 then
    (retain.zipIdx.map (fun p => if p.2 = ci.2 then true else if r.2.contains p.2 then false else p.1))
  else retain

theorem retainPass_eq {C : Type} (N : NumEnv C) (cands : List (Match C)) :
    retainPass N cands = cands.zipIdx.foldl (retainStep N cands) (List.replicate cands.length false) := rfl

theorem retainStep_length {C : Type} (N : NumEnv C) (cands : List (Match C)) (retain : List Bool)
    (ci : Match C × Nat) : (retainStep N cands retain ci).length = retain.length := by
  unfold retainStep
  simp only
  split <;> simp

theorem foldl_retainStep_length {C : Type} (N : NumEnv C) (cands : List (Match C))
    (l : List (Match C × Nat)) (retain : List Bool) :
    (l.foldl (retainStep N cands) retain).length = retain.length := by
  induction l generalizing retain with
  | nil => rfl
  | cons a t ih => rw [List.foldl_cons, ih, retainStep_length]

theorem retain_length' {C : Type} (N : NumEnv C) (cands : List (Match C)) :
    (retainPass N cands).length = cands.length := by
  rw [retainPass_eq, foldl_retainStep_length, List.length_replicate]

theorem retain_single' {C : Type} (N : NumEnv C) (c : Match C) : retainPass N [c] = [true] := by
  rfl

/-- a candidate no other candidate shares a line with ends the inner loop retained, displacing nobody -/
theorem retainInner_unconflicted {C : Type} (N : NumEnv C) (c : Match C)
    (earlier : List (Match C × Bool × Nat)) (props : List Nat)
    (h : ∀ x ∈ earlier, contains c x.1 = false ∧ overlaps c x.1 = false) :
    retainInner N c earlier props = (true, props) := by
  induction earlier generalizing props with
  | nil => rfl
  | cons x t ih =>
    obtain ⟨o, ret, j⟩ := x
    have hx := h (o, ret, j) (by simp)
    simp only at hx
    unfold retainInner
    simp only [hx.1, hx.2, Bool.false_eq_true, false_and, if_false]
    exact ih props (fun y hy => h y (by simp [hy]))

/-- only retained earlier candidates that `c` contains are proposed for displacement -/
theorem retainInner_props {C : Type} (N : NumEnv C) (c : Match C)
    (earlier : List (Match C × Bool × Nat)) (props : List Nat) (j : Nat)
    (hj : j ∈ (retainInner N c earlier props).2) :
    j ∈ props ∨ ∃ o ret, (o, ret, j) ∈ earlier ∧ contains c o = true := by
  induction earlier generalizing props with
  | nil => exact Or.inl hj
  | cons x t ih =>
    obtain ⟨o, ret, k⟩ := x
    unfold retainInner at hj
    have lift : (j ∈ props ∨ ∃ o' ret', (o', ret', j) ∈ t ∧ contains c o' = true) →
        j ∈ props ∨ ∃ o' ret', (o', ret', j) ∈ (o, ret, k) :: t ∧ contains c o' = true := by
      rintro (h | ⟨o', ret', hm, hc⟩)
      · exact Or.inl h
      · exact Or.inr ⟨o', ret', by simp [hm], hc⟩
    by_cases h1 : contains c o = true ∧ ret = true
    · simp only [h1, and_self, if_true] at hj
      by_cases h2 : N.wgt (c.endTok - c.startTok) c.conf (o.endTok - o.startTok) o.conf = true
      · simp only [h2, if_true] at hj
        rcases ih _ hj with h | h
        · simp only [List.mem_append, List.mem_singleton] at h
          rcases h with h | h
          · exact Or.inl h
          · subst h
            exact Or.inr ⟨o, ret, by simp, h1.1⟩
        · exact lift (Or.inr h)
      · simp only [h2] at hj
        by_cases h3 : N.wgt (o.endTok - o.startTok) o.conf (c.endTok - c.startTok) c.conf = true
        · simp only [h3, if_true] at hj
          exact Or.inl hj
        · simp only [h3] at hj
          exact lift (ih _ hj)
    · simp only [h1, if_false] at hj
      by_cases h4 : overlaps c o = true ∧ ret = true
      · simp only [h4, and_self, if_true] at hj
        by_cases h5 : c.startLine = o.endLine
        · simp only [h5, ne_eq, not_true_eq_false, if_false] at hj
          exact lift (ih _ hj)
        · simp only [ne_eq, h5, not_false_eq_true, if_true] at hj
          exact Or.inl hj
      · simp only [h4, if_false] at hj
        exact lift (ih _ hj)

/-- the entries of the list of earlier candidates are candidates, at their own index -/
theorem mem_earlier {C : Type} (cands : List (Match C)) (retain : List Bool) (k : Nat)
    (o : Match C) (ret : Bool) (j : Nat)
    (h : (o, ret, j) ∈ ((cands.take k).zip (retain.take k)).zipIdx.map (fun p => (p.1.1, p.1.2, p.2))) :
    cands[j]? = some o ∧ j < k := by
  rw [List.mem_map] at h
  obtain ⟨⟨⟨o', ret'⟩, j'⟩, hm, he⟩ := h
  simp only [Prod.mk.injEq] at he
  obtain ⟨rfl, rfl, rfl⟩ := he
  rw [List.mem_zipIdx_iff_getElem?] at hm
  rw [List.getElem?_zip_eq_some] at hm
  have h1 := hm.1
  simp only [List.getElem?_take] at h1
  by_cases hlt : j' < k
  · simp only [hlt, if_true] at h1
    exact ⟨h1, hlt⟩
  · simp [hlt] at h1

theorem retainStep_at {C : Type} (N : NumEnv C) (cands : List (Match C)) (i : Nat) (c : Match C)
    (hi : cands[i]? = some c)
    (hno : ∀ j o, cands[j]? = some o → j ≠ i →
      contains c o = false ∧ overlaps c o = false ∧ contains o c = false ∧ overlaps o c = false)
    (retain : List Bool) (hlen : retain.length = cands.length) :
    (retainStep N cands retain (c, i))[i]? = some true := by
  have hin : i < cands.length := by
    rcases Nat.lt_or_ge i cands.length with h | h
    · exact h
    · rw [List.getElem?_eq_none h] at hi; cases hi
  unfold retainStep
  simp only
  rw [retainInner_unconflicted]
  · simp only [if_true, List.getElem?_map]
    have : retain.zipIdx[i]? = some (retain[i]'(by omega), i) := by
      rw [List.getElem?_zipIdx]
      simp [List.getElem?_eq_getElem (show i < retain.length by omega)]
    rw [this]
    simp
  · rintro ⟨o, ret, j⟩ hx
    obtain ⟨ho, hj⟩ := mem_earlier cands retain i o ret j hx
    have := hno j o ho (by omega)
    exact ⟨this.1, this.2.1⟩

theorem retainStep_keep {C : Type} (N : NumEnv C) (cands : List (Match C)) (i : Nat) (c : Match C)
    (hi : cands[i]? = some c)
    (hno : ∀ j o, cands[j]? = some o → j ≠ i →
      contains c o = false ∧ overlaps c o = false ∧ contains o c = false ∧ overlaps o c = false)
    (retain : List Bool) (hret : retain[i]? = some true)
    (k : Nat) (x : Match C) (hk : cands[k]? = some x) (hki : k ≠ i) :
    (retainStep N cands retain (x, k))[i]? = some true := by
  unfold retainStep
  simp only
  split
  · simp only [List.getElem?_map]
    have hin : i < retain.length := by
      rcases Nat.lt_or_ge i retain.length with h | h
      · exact h
      · rw [List.getElem?_eq_none h] at hret; cases hret
    have hv : retain[i] = true := by
      rw [List.getElem?_eq_getElem hin] at hret
      exact Option.some.inj hret
    have : retain.zipIdx[i]? = some (retain[i]'hin, i) := by
      rw [List.getElem?_zipIdx]
      simp [List.getElem?_eq_getElem hin]
    rw [this]
    simp only [Option.map_some, Option.some.injEq]
    have hik : ¬ i = k := fun e => hki e.symm
    simp only [hik, if_false, hv]
    have hnot : i ∈ (retainInner N x (((cands.take k).zip (retain.take k)).zipIdx.map
        (fun p => (p.1.1, p.1.2, p.2))) []).2 → False := by
      intro hc
      rcases retainInner_props N x _ [] i hc with h | ⟨o, ret, hm, hco⟩
      · simp at h
      · obtain ⟨ho, _⟩ := mem_earlier cands retain k o ret i hm
        rw [hi] at ho
        have ho' : c = o := Option.some.inj ho
        subst ho'
        have := (hno k x hk hki).2.2.1
        rw [this] at hco
        cases hco
    simpa using hnot
  · exact hret

theorem foldl_retainStep_unconflicted {C : Type} (N : NumEnv C) (cands : List (Match C)) (i : Nat)
    (c : Match C) (hi : cands[i]? = some c)
    (hno : ∀ j o, cands[j]? = some o → j ≠ i →
      contains c o = false ∧ overlaps c o = false ∧ contains o c = false ∧ overlaps o c = false)
    (l : List (Match C)) (k : Nat) (hl : ∀ m x, l[m]? = some x → cands[k + m]? = some x)
    (retain : List Bool) (hlen : retain.length = cands.length)
    (hdone : i < k → retain[i]? = some true) (hik : i < k + l.length) :
    ((l.zipIdx k).foldl (retainStep N cands) retain)[i]? = some true := by
  induction l generalizing k retain with
  | nil => exact hdone (by simpa using hik)
  | cons x t ih =>
    rw [List.zipIdx_cons, List.foldl_cons]
    have hx : cands[k]? = some x := by simpa using hl 0 x (by simp)
    apply ih (k + 1)
    · intro m y hy
      have := hl (m + 1) y (by simpa using hy)
      rw [show k + 1 + m = k + (m + 1) by omega]
      exact this
    · rw [retainStep_length, hlen]
    · intro hlt
      by_cases hk : k = i
      · subst hk
        rw [hi] at hx
        have hx' : c = x := Option.some.inj hx
        subst hx'
        exact retainStep_at N cands k c hi hno retain hlen
      · exact retainStep_keep N cands i c hi hno retain (hdone (by omega)) k x hx hk
    · simp only [List.length_cons] at hik
      omega

theorem retain_unconflicted' {C : Type} (N : NumEnv C) (cands : List (Match C)) (i : Nat) (c : Match C)
    (hi : cands[i]? = some c)
    (hno : ∀ j o, cands[j]? = some o → j ≠ i →
      contains c o = false ∧ overlaps c o = false ∧ contains o c = false ∧ overlaps o c = false) :
    (retainPass N cands)[i]? = some true := by
  rw [retainPass_eq]
  have hin : i < cands.length := by
    rcases Nat.lt_or_ge i cands.length with h | h
    · exact h
    · rw [List.getElem?_eq_none h] at hi; cases hi
  exact foldl_retainStep_unconflicted N cands i c hi hno cands 0 (by intro m x h; simpa using h)
    _ (by simp) (by intro h; omega) (by omega)

/-! ### `retain_not_dominated'` -/

/-- the inner loop ends with "keep" when no earlier candidate can drop `c` -/
theorem retainInner_keep {C : Type} (N : NumEnv C) (c : Match C)
    (earlier : List (Match C × Bool × Nat)) (props : List Nat)
    (h : ∀ x ∈ earlier,
      (contains c x.1 = true →
        N.wgt (x.1.endTok - x.1.startTok) x.1.conf (c.endTok - c.startTok) c.conf = false) ∧
      (contains c x.1 = false → overlaps c x.1 = true → c.startLine = x.1.endLine)) :
    (retainInner N c earlier props).1 = true := by
  induction earlier generalizing props with
  | nil => rfl
  | cons x t ih =>
    obtain ⟨o, ret, j⟩ := x
    have hx := h (o, ret, j) (by simp)
    simp only at hx
    have ht : ∀ y ∈ t,
        (contains c y.1 = true →
          N.wgt (y.1.endTok - y.1.startTok) y.1.conf (c.endTok - c.startTok) c.conf = false) ∧
        (contains c y.1 = false → overlaps c y.1 = true → c.startLine = y.1.endLine) :=
      fun y hy => h y (by simp [hy])
    unfold retainInner
    by_cases h1 : contains c o = true ∧ ret = true
    · simp only [h1, and_self, if_true]
      by_cases h2 : N.wgt (c.endTok - c.startTok) c.conf (o.endTok - o.startTok) o.conf = true
      · simp only [h2, if_true]
        exact ih _ ht
      · simp only [h2, hx.1 h1.1, Bool.false_eq_true, if_false]
        exact ih _ ht
    · simp only [h1, if_false]
      by_cases h4 : overlaps c o = true ∧ ret = true
      · simp only [h4, and_self, if_true]
        have hc : contains c o = false := by
          cases hco : contains c o with
          | false => rfl
          | true => exact absurd ⟨hco, h4.2⟩ h1
        have h5 := hx.2 hc h4.1
        simp only [h5, ne_eq, not_true_eq_false, if_false]
        exact ih _ ht
      · simp only [h4, if_false]
        exact ih _ ht

/-- only earlier candidates that `c` contains AND outweighs are proposed for displacement -/
theorem retainInner_props_wgt {C : Type} (N : NumEnv C) (c : Match C)
    (earlier : List (Match C × Bool × Nat)) (props : List Nat) (j : Nat)
    (hj : j ∈ (retainInner N c earlier props).2) :
    j ∈ props ∨ ∃ o ret, (o, ret, j) ∈ earlier ∧ contains c o = true ∧
      N.wgt (c.endTok - c.startTok) c.conf (o.endTok - o.startTok) o.conf = true := by
  induction earlier generalizing props with
  | nil => exact Or.inl hj
  | cons x t ih =>
    obtain ⟨o, ret, k⟩ := x
    unfold retainInner at hj
    have lift : (j ∈ props ∨ ∃ o' ret', (o', ret', j) ∈ t ∧ contains c o' = true ∧
          N.wgt (c.endTok - c.startTok) c.conf (o'.endTok - o'.startTok) o'.conf = true) →
        j ∈ props ∨ ∃ o' ret', (o', ret', j) ∈ (o, ret, k) :: t ∧ contains c o' = true ∧
          N.wgt (c.endTok - c.startTok) c.conf (o'.endTok - o'.startTok) o'.conf = true := by
      rintro (h | ⟨o', ret', hm, hc⟩)
      · exact Or.inl h
      · exact Or.inr ⟨o', ret', by simp [hm], hc⟩
    by_cases h1 : contains c o = true ∧ ret = true
    · simp only [h1, and_self, if_true] at hj
      by_cases h2 : N.wgt (c.endTok - c.startTok) c.conf (o.endTok - o.startTok) o.conf = true
      · simp only [h2, if_true] at hj
        rcases ih _ hj with h | h
        · simp only [List.mem_append, List.mem_singleton] at h
          rcases h with h | h
          · exact Or.inl h
          · subst h
            exact Or.inr ⟨o, ret, by simp, h1.1, h2⟩
        · exact lift (Or.inr h)
      · simp only [h2] at hj
        by_cases h3 : N.wgt (o.endTok - o.startTok) o.conf (c.endTok - c.startTok) c.conf = true
        · simp only [h3, if_true] at hj
          exact Or.inl hj
        · simp only [h3] at hj
          exact lift (ih _ hj)
    · simp only [h1, if_false] at hj
      by_cases h4 : overlaps c o = true ∧ ret = true
      · simp only [h4, and_self, if_true] at hj
        by_cases h5 : c.startLine = o.endLine
        · simp only [h5, ne_eq, not_true_eq_false, if_false] at hj
          exact lift (ih _ hj)
        · simp only [ne_eq, h5, not_false_eq_true, if_true] at hj
          exact Or.inl hj
      · simp only [h4, if_false] at hj
        exact lift (ih _ hj)

theorem retainStep_at_nd {C : Type} (N : NumEnv C) (cands : List (Match C)) (i : Nat) (c : Match C)
    (hi : cands[i]? = some c)
    (hearlier : ∀ j o, cands[j]? = some o → j < i →
      (contains c o = true →
        N.wgt (o.endTok - o.startTok) o.conf (c.endTok - c.startTok) c.conf = false) ∧
      (contains c o = false → overlaps c o = true → c.startLine = o.endLine))
    (retain : List Bool) (hlen : retain.length = cands.length) :
    (retainStep N cands retain (c, i))[i]? = some true := by
  have hin : i < cands.length := by
    rcases Nat.lt_or_ge i cands.length with h | h
    · exact h
    · rw [List.getElem?_eq_none h] at hi; cases hi
  unfold retainStep
  simp only
  rw [retainInner_keep]
  · simp only [if_true, List.getElem?_map]
    have : retain.zipIdx[i]? = some (retain[i]'(by omega), i) := by
      rw [List.getElem?_zipIdx]
      simp [List.getElem?_eq_getElem (show i < retain.length by omega)]
    rw [this]
    simp
  · rintro ⟨o, ret, j⟩ hx
    obtain ⟨ho, hj⟩ := mem_earlier cands retain i o ret j hx
    exact hearlier j o ho hj

theorem retainStep_keep_nd {C : Type} (N : NumEnv C) (cands : List (Match C)) (i : Nat) (c : Match C)
    (hi : cands[i]? = some c)
    (hlater : ∀ j x, cands[j]? = some x → i < j → contains x c = true →
      N.wgt (x.endTok - x.startTok) x.conf (c.endTok - c.startTok) c.conf = false)
    (retain : List Bool) (hret : retain[i]? = some true)
    (k : Nat) (x : Match C) (hk : cands[k]? = some x) (hki : i < k) :
    (retainStep N cands retain (x, k))[i]? = some true := by
  unfold retainStep
  simp only
  split
  · simp only [List.getElem?_map]
    have hin : i < retain.length := by
      rcases Nat.lt_or_ge i retain.length with h | h
      · exact h
      · rw [List.getElem?_eq_none h] at hret; cases hret
    have hv : retain[i] = true := by
      rw [List.getElem?_eq_getElem hin] at hret
      exact Option.some.inj hret
    have : retain.zipIdx[i]? = some (retain[i]'hin, i) := by
      rw [List.getElem?_zipIdx]
      simp [List.getElem?_eq_getElem hin]
    rw [this]
    simp only [Option.map_some, Option.some.injEq]
    have hik : ¬ i = k := by omega
    simp only [hik, if_false, hv]
    have hnot : i ∈ (retainInner N x (((cands.take k).zip (retain.take k)).zipIdx.map
        (fun p => (p.1.1, p.1.2, p.2))) []).2 → False := by
      intro hc
      rcases retainInner_props_wgt N x _ [] i hc with h | ⟨o, ret, hm, hco, hw⟩
      · simp at h
      · obtain ⟨ho, _⟩ := mem_earlier cands retain k o ret i hm
        rw [hi] at ho
        have ho' : c = o := Option.some.inj ho
        subst ho'
        rw [hlater k x hk hki hco] at hw
        cases hw
    simpa using hnot
  · exact hret

theorem foldl_retainStep_nd {C : Type} (N : NumEnv C) (cands : List (Match C)) (i : Nat)
    (c : Match C) (hi : cands[i]? = some c)
    (hearlier : ∀ j o, cands[j]? = some o → j < i →
      (contains c o = true →
        N.wgt (o.endTok - o.startTok) o.conf (c.endTok - c.startTok) c.conf = false) ∧
      (contains c o = false → overlaps c o = true → c.startLine = o.endLine))
    (hlater : ∀ j x, cands[j]? = some x → i < j → contains x c = true →
      N.wgt (x.endTok - x.startTok) x.conf (c.endTok - c.startTok) c.conf = false)
    (l : List (Match C)) (k : Nat) (hl : ∀ m x, l[m]? = some x → cands[k + m]? = some x)
    (retain : List Bool) (hlen : retain.length = cands.length)
    (hdone : i < k → retain[i]? = some true) (hik : i < k + l.length) :
    ((l.zipIdx k).foldl (retainStep N cands) retain)[i]? = some true := by
  induction l generalizing k retain with
  | nil => exact hdone (by simpa using hik)
  | cons x t ih =>
    rw [List.zipIdx_cons, List.foldl_cons]
    have hx : cands[k]? = some x := by simpa using hl 0 x (by simp)
    apply ih (k + 1)
    · intro m y hy
      have := hl (m + 1) y (by simpa using hy)
      rw [show k + 1 + m = k + (m + 1) by omega]
      exact this
    · rw [retainStep_length, hlen]
    · intro hlt
      by_cases hk : k = i
      · subst hk
        rw [hi] at hx
        have hx' : c = x := Option.some.inj hx
        subst hx'
        exact retainStep_at_nd N cands k c hi hearlier retain hlen
      · exact retainStep_keep_nd N cands i c hi hlater retain (hdone (by omega)) k x hx (by omega)
    · simp only [List.length_cons] at hik
      omega

/-- the overlap filter keeps a candidate that no earlier candidate drops and no later candidate
displaces (see `retain_not_dominated` in LC/Props/C01.lean; `heavier` spelled out) -/
theorem retain_not_dominated' {C : Type} (N : NumEnv C) (cands : List (Match C)) (i : Nat) (c : Match C)
    (hi : cands[i]? = some c)
    (hearlier : ∀ j o, cands[j]? = some o → j < i →
      (contains c o = true →
        N.wgt (o.endTok - o.startTok) o.conf (c.endTok - c.startTok) c.conf = false) ∧
      (contains c o = false → overlaps c o = true → c.startLine = o.endLine))
    (hlater : ∀ j x, cands[j]? = some x → i < j → contains x c = true →
      N.wgt (x.endTok - x.startTok) x.conf (c.endTok - c.startTok) c.conf = false) :
    (retainPass N cands)[i]? = some true := by
  rw [retainPass_eq]
  have hin : i < cands.length := by
    rcases Nat.lt_or_ge i cands.length with h | h
    · exact h
    · rw [List.getElem?_eq_none h] at hi; cases hi
  exact foldl_retainStep_nd N cands i c hi hearlier hlater cands 0 (by intro m x h; simpa using h)
    _ (by simp) (by intro h; omega) (by omega)

end LC.V2Match
