import LC.Model.Lexer
import LC.Spec.LexSpec
import LC.Gen.LangTable
namespace LC.Lexer
open LC.Utf8 LC.LexSpec

/-! ### tracking line and column over a consumed segment -/

/-- the column after reading `s` starting at column `col` -/
def colAfter : List Rune → Nat → Nat
  | [], col => col
  | c :: s, col => colAfter s (if c = 10 then 0 else col + 1)

theorem nls_nil : nls [] = 0 := rfl

theorem nls_cons (c : Rune) (s : List Rune) : nls (c :: s) = nls s + (if c = 10 then 1 else 0) := by
  simp [nls, List.count_cons]

theorem nls_append (a b : List Rune) : nls (a ++ b) = nls a + nls b := by
  simp [nls, List.count_append]

theorem nls_eq_zero {s : List Rune} : nls s = 0 ↔ (10 : Rune) ∉ s := by
  simp [nls, List.count_eq_zero]

theorem colAfter_append (a b : List Rune) (col : Nat) :
    colAfter (a ++ b) col = colAfter b (colAfter a col) := by
  induction a generalizing col with
  | nil => rfl
  | cons c a ih => simp [colAfter, ih]

theorem colAfter_of_not_mem {s : List Rune} (h : (10 : Rune) ∉ s) (col : Nat) :
    colAfter s col = col + s.length := by
  induction s generalizing col with
  | nil => rfl
  | cons c s ih =>
    have hc : c ≠ 10 := fun e => h (by simp [e])
    have hs : (10 : Rune) ∉ s := fun e => h (by simp [e])
    simp [colAfter, hc, ih hs]; omega

theorem takeWhile_append_of_exists {α} (p : α → Bool) (l m : List α) (h : ∃ x ∈ l, p x = false) :
    (l ++ m).takeWhile p = l.takeWhile p := by
  induction l with
  | nil => obtain ⟨x, hx, _⟩ := h; cases hx
  | cons a l ih =>
    simp only [List.cons_append, List.takeWhile_cons]
    cases hpa : p a with
    | false => simp
    | true =>
      simp only [if_true]
      obtain ⟨x, hx, hpx⟩ := h
      rcases List.mem_cons.1 hx with rfl | hx
      · rw [hpa] at hpx; cases hpx
      · rw [ih ⟨x, hx, hpx⟩]

/-- `colAfter` is the specification's closed form -/
theorem colAfter_spec (s : List Rune) (col : Nat) :
    colAfter s col = if nls s = 0 then col + s.length else (s.reverse.takeWhile (· ≠ 10)).length := by
  induction s generalizing col with
  | nil => simp [colAfter, nls_nil]
  | cons c s ih =>
    rw [colAfter, ih, nls_cons, List.reverse_cons]
    by_cases hs : nls s = 0
    · have hmem : (10 : Rune) ∉ s := nls_eq_zero.1 hs
      by_cases hc : c = 10
      · subst hc
        rw [List.takeWhile_append_of_pos]
        · simp [hs]
        · intro a ha; simp at ha ⊢; intro e; exact hmem (e ▸ ha)
      · simp [hs, hc]; omega
    · have hmem : (10 : Rune) ∈ s := by
        by_cases h : (10 : Rune) ∈ s
        · exact h
        · exact absurd (nls_eq_zero.2 h) hs
      rw [takeWhile_append_of_exists _ _ _ ⟨10, by simpa using hmem, by simp⟩]
      have : ¬ (nls s + (if c = 10 then 1 else 0) = 0) := by omega
      simp [hs]

theorem advanceN_append (s r : List Rune) (line col : Nat) :
    advanceN s.length ⟨s ++ r, line, col⟩ = ⟨r, line + nls s, colAfter s col⟩ := by
  induction s generalizing line col with
  | nil => simp [advanceN, nls_nil, colAfter]
  | cons c s ih =>
    simp only [List.length_cons, advanceN, advance, List.cons_append]
    by_cases hc : c = 10
    · simp only [hc, if_true, ih, nls_cons, colAfter]; simp; omega
    · simp only [hc, if_false, ih, nls_cons, colAfter]; simp

theorem advance_cons (c : Rune) (r : List Rune) (line col : Nat) :
    advance ⟨c :: r, line, col⟩ = ⟨r, line + nls [c], colAfter [c] col⟩ := by
  have := advanceN_append [c] r line col
  simpa [advanceN] using this

theorem isPrefixOf_eq_append {s rest : List Rune} (h : s.isPrefixOf rest = true) :
    rest = s ++ rest.drop s.length :=
  (List.prefix_iff_eq_append.1 (List.isPrefixOf_iff_prefix.1 h)).symm

/-- `match(s)` is a non-empty-prefix test; on success the position moves over the delimiter -/
theorem matchAt_eq (s rest : List Rune) (line col : Nat) :
    matchAt s ⟨rest, line, col⟩ =
      if s ≠ [] ∧ s.isPrefixOf rest = true then
        some ⟨rest.drop s.length, line + nls s, colAfter s col⟩ else none := by
  unfold matchAt
  by_cases hs : s = []
  · simp [hs]
  · by_cases hp : s.isPrefixOf rest = true
    · simp only [hs, hp, if_false, if_true, ne_eq, not_false_eq_true, and_self]
      have := advanceN_append s (rest.drop s.length) line col
      rw [← isPrefixOf_eq_append hp] at this
      rw [this]
    · simp [hs, hp]


theorem stringBody_spec (R : Row) (quote : List Rune) (esc : Bool) (hq : quote ≠ []) :
    ∀ (fuel : Nat) (rest : List Rune) (line col : Nat) (acc : List Rune),
      (strBody quote esc R.nlEndsString fuel rest acc = none →
        stringBody R quote esc fuel ⟨rest, line, col⟩ acc = none) ∧
      (∀ rest' content, strBody quote esc R.nlEndsString fuel rest acc = some (rest', content) →
        ∃ seen, rest = seen ++ rest' ∧
          stringBody R quote esc fuel ⟨rest, line, col⟩ acc =
            some (⟨rest', line + nls seen, colAfter seen col⟩, content)) := by
  intro fuel
  induction fuel with
  | zero => intro rest line col acc; simp [strBody, stringBody]
  | succ fuel ih =>
    intro rest line col acc
    cases rest with
    | nil => simp [strBody, stringBody]
    | cons c cs =>
      by_cases h1 : esc = true ∧ c = 92
      · obtain ⟨rfl, rfl⟩ := h1
        cases cs with
        | nil => simp [strBody, stringBody, advance]
        | cons d ds =>
          by_cases hds : ds = []
          · simp [strBody, stringBody, advance_cons, hds]
          · have := ih ds (line + nls [92] + nls [d]) (colAfter [d] (colAfter [92] col)) (acc ++ [d])
            simp only [strBody, stringBody, advance_cons, hds, and_self, if_true, if_false,
              List.headD_cons]
            refine ⟨this.1, fun rest' content h => ?_⟩
            obtain ⟨seen, hs, he⟩ := this.2 _ _ h
            refine ⟨92 :: d :: seen, by simp [hs], ?_⟩
            rw [he]
            simp [nls_cons, nls_nil, colAfter]
            omega
      · simp only [strBody, stringBody, h1, if_false, matchAt_eq, hq, ne_eq, not_false_eq_true, true_and]
        by_cases hp : quote.isPrefixOf (c :: cs) = true
        · simp only [hp, if_true]
          refine ⟨by simp, fun rest' content h => ?_⟩
          simp only [Option.some.injEq, Prod.mk.injEq] at h
          obtain ⟨rfl, rfl⟩ := h
          exact ⟨quote, isPrefixOf_eq_append hp, rfl⟩
        · simp only [hp, Bool.false_eq_true, if_false]
          by_cases hn : R.nlEndsString = true ∧ c = 10
          · simp only [hn, and_self, if_true]
            refine ⟨by simp, fun rest' content h => ?_⟩
            simp only [Option.some.injEq, Prod.mk.injEq] at h
            obtain ⟨rfl, rfl⟩ := h
            exact ⟨[], rfl, by simp [nls_nil, colAfter]⟩
          · simp only [hn, if_false, advance_cons]
            by_cases hcs : cs = []
            · simp [hcs]
            · simp only [hcs, if_false]
              have := ih cs (line + nls [c]) (colAfter [c] col) (acc ++ [c])
              refine ⟨this.1, fun rest' content h => ?_⟩
              obtain ⟨seen, hs, he⟩ := this.2 _ _ h
              refine ⟨c :: seen, by simp [hs], ?_⟩
              rw [he]
              simp [nls_cons, nls_nil, colAfter]
              omega

theorem blockBody_step (start stop : List Rune) (nested : Bool) (fuel : Nat) (c : Rune) (cs : List Rune)
    (depth : Nat) (acc : List Rune) :
    blockBody start stop nested (fuel + 1) (c :: cs) depth acc =
      if nested = true ∧ start ≠ [] ∧ start.isPrefixOf (c :: cs) = true then
        blockBody start stop nested fuel ((c :: cs).drop start.length) (depth + 1) (acc ++ start)
      else if stop ≠ [] ∧ stop.isPrefixOf (c :: cs) = true then
        if depth > 0 then blockBody start stop nested fuel ((c :: cs).drop stop.length) (depth - 1) (acc ++ stop)
        else some ((c :: cs).drop stop.length, acc)
      else blockBody start stop nested fuel cs depth (acc ++ [c]) := by
  simp only [blockBody]

theorem multiBody_step (R : Row) (start stop : List Rune) (fuel : Nat) (c : Rune) (cs : List Rune)
    (line col depth : Nat) (acc : List Rune) :
    multiBody R start stop (fuel + 1) ⟨c :: cs, line, col⟩ depth acc =
      if R.nested = true ∧ start ≠ [] ∧ start.isPrefixOf (c :: cs) = true then
        multiBody R start stop fuel ⟨(c :: cs).drop start.length, line + nls start, colAfter start col⟩
          (depth + 1) (acc ++ start)
      else if stop ≠ [] ∧ stop.isPrefixOf (c :: cs) = true then
        if depth > 0 then
          multiBody R start stop fuel ⟨(c :: cs).drop stop.length, line + nls stop, colAfter stop col⟩
            (depth - 1) (acc ++ stop)
        else some (⟨(c :: cs).drop stop.length, line + nls stop, colAfter stop col⟩, acc)
      else multiBody R start stop fuel ⟨cs, line + nls [c], colAfter [c] col⟩ depth (acc ++ [c]) := by
  simp only [multiBody, matchAt_eq, advance_cons]
  by_cases hn : R.nested = true <;> by_cases hs : start = [] <;>
    by_cases hp : start.isPrefixOf (c :: cs) = true <;> by_cases ht : stop = [] <;>
    by_cases hq : stop.isPrefixOf (c :: cs) = true <;> simp [hn, hs, hp, ht, hq]

theorem multiBody_spec (R : Row) (start stop : List Rune) :
    ∀ (fuel : Nat) (rest : List Rune) (line col depth : Nat) (acc : List Rune),
      (blockBody start stop R.nested fuel rest depth acc = none →
        multiBody R start stop fuel ⟨rest, line, col⟩ depth acc = none) ∧
      (∀ rest' text, blockBody start stop R.nested fuel rest depth acc = some (rest', text) →
        ∃ seen, rest = seen ++ rest' ∧
          multiBody R start stop fuel ⟨rest, line, col⟩ depth acc =
            some (⟨rest', line + nls seen, colAfter seen col⟩, text)) := by
  intro fuel
  induction fuel with
  | zero => intro rest line col depth acc; simp [blockBody, multiBody]
  | succ fuel ih =>
    intro rest line col depth acc
    cases rest with
    | nil => simp [blockBody, multiBody]
    | cons c cs =>
      rw [blockBody_step, multiBody_step]
      by_cases h1 : R.nested = true ∧ start ≠ [] ∧ start.isPrefixOf (c :: cs) = true
      · rw [if_pos h1, if_pos h1]
        have := ih ((c :: cs).drop start.length) (line + nls start) (colAfter start col) (depth + 1) (acc ++ start)
        refine ⟨this.1, fun rest' text h => ?_⟩
        obtain ⟨seen, hs, he⟩ := this.2 _ _ h
        refine ⟨start ++ seen, ?_, ?_⟩
        · rw [List.append_assoc, ← hs]; exact isPrefixOf_eq_append h1.2.2
        · rw [he]; simp [nls_append, colAfter_append]; omega
      · rw [if_neg h1, if_neg h1]
        by_cases h2 : stop ≠ [] ∧ stop.isPrefixOf (c :: cs) = true
        · rw [if_pos h2, if_pos h2]
          by_cases hd : depth > 0
          · rw [if_pos hd, if_pos hd]
            have := ih ((c :: cs).drop stop.length) (line + nls stop) (colAfter stop col) (depth - 1) (acc ++ stop)
            refine ⟨this.1, fun rest' text h => ?_⟩
            obtain ⟨seen, hs, he⟩ := this.2 _ _ h
            refine ⟨stop ++ seen, ?_, ?_⟩
            · rw [List.append_assoc, ← hs]; exact isPrefixOf_eq_append h2.2
            · rw [he]; simp [nls_append, colAfter_append]; omega
          · rw [if_neg hd, if_neg hd]
            refine ⟨by simp, fun rest' text h => ?_⟩
            simp only [Option.some.injEq, Prod.mk.injEq] at h
            obtain ⟨rfl, rfl⟩ := h
            exact ⟨stop, isPrefixOf_eq_append h2.2, rfl⟩
        · rw [if_neg h2, if_neg h2]
          have := ih cs (line + nls [c]) (colAfter [c] col) depth (acc ++ [c])
          refine ⟨this.1, fun rest' text h => ?_⟩
          obtain ⟨seen, hs, he⟩ := this.2 _ _ h
          refine ⟨c :: seen, by simp [hs], ?_⟩
          rw [he]
          simp [nls_cons, nls_nil, colAfter]
          omega

theorem singleBody_eq (l : List Rune) :
    singleBody l = (l.takeWhile (· ≠ 10), l.dropWhile (· ≠ 10)) := by
  induction l with
  | nil => rfl
  | cons c l ih =>
    by_cases hc : c = 10
    · simp [singleBody, hc]
    · simp [singleBody, hc, ih]

theorem firstMatch_eq (ss : List (List Rune)) (rest : List Rune) (line col : Nat) :
    firstMatch ss ⟨rest, line, col⟩ =
      (firstPrefix ss rest).map (fun s => ⟨rest.drop s.length, line + nls s, colAfter s col⟩) := by
  induction ss with
  | nil => rfl
  | cons s ss ih =>
    simp only [firstMatch, firstPrefix, matchAt_eq]
    by_cases h : s ≠ [] ∧ s.isPrefixOf rest = true
    · rw [if_pos h, if_pos h]; rfl
    · rw [if_neg h, if_neg h]; exact ih

theorem firstPrefix_some {ss : List (List Rune)} {rest s : List Rune} (h : firstPrefix ss rest = some s) :
    s ∈ ss ∧ s ≠ [] ∧ s.isPrefixOf rest = true := by
  induction ss with
  | nil => cases h
  | cons t ss ih =>
    simp only [firstPrefix] at h
    by_cases ht : t ≠ [] ∧ t.isPrefixOf rest = true
    · rw [if_pos ht] at h; cases h; exact ⟨by simp, ht⟩
    · rw [if_neg ht] at h; have := ih h; exact ⟨by simp [this.1], this.2⟩

theorem firstPrefix_none {ss : List (List Rune)} {rest : List Rune} (h : firstPrefix ss rest = none) :
    ∀ s ∈ ss, ¬ (s ≠ [] ∧ s.isPrefixOf rest = true) := by
  induction ss with
  | nil => intro s hs; cases hs
  | cons t ss ih =>
    simp only [firstPrefix] at h
    by_cases ht : t ≠ [] ∧ t.isPrefixOf rest = true
    · rw [if_pos ht] at h; cases h
    · rw [if_neg ht] at h
      intro s hs
      rcases List.mem_cons.1 hs with rfl | hs
      · exact ht
      · exact ih h s hs

theorem firstMulti_eq (ms : List (List Rune × List Rune)) (rest : List Rune) (line col : Nat) :
    firstMulti ms ⟨rest, line, col⟩ =
      (firstBlock ms rest).map
        (fun m => (⟨rest.drop m.1.length, line + nls m.1, colAfter m.1 col⟩, m.1, m.2)) := by
  induction ms with
  | nil => rfl
  | cons m ms ih =>
    obtain ⟨s, e⟩ := m
    simp only [firstMulti, firstBlock, matchAt_eq]
    by_cases h : s ≠ [] ∧ s.isPrefixOf rest = true
    · rw [if_pos h, if_pos h]; rfl
    · rw [if_neg h, if_neg h]; exact ih

theorem firstBlock_some {ms : List (List Rune × List Rune)} {rest : List Rune} {m : List Rune × List Rune}
    (h : firstBlock ms rest = some m) : m ∈ ms ∧ m.1 ≠ [] ∧ m.1.isPrefixOf rest = true := by
  induction ms with
  | nil => cases h
  | cons t ms ih =>
    obtain ⟨s, e⟩ := t
    simp only [firstBlock] at h
    by_cases ht : s ≠ [] ∧ s.isPrefixOf rest = true
    · rw [if_pos ht] at h; cases h; exact ⟨by simp, ht⟩
    · rw [if_neg ht] at h; have := ih h; exact ⟨by simp [this.1], this.2⟩

theorem firstBlock_none {ms : List (List Rune × List Rune)} {rest : List Rune} (h : firstBlock ms rest = none) :
    ∀ m ∈ ms, ¬ (m.1 ≠ [] ∧ m.1.isPrefixOf rest = true) := by
  induction ms with
  | nil => intro s hs; cases hs
  | cons t ms ih =>
    obtain ⟨s, e⟩ := t
    simp only [firstBlock] at h
    by_cases ht : s ≠ [] ∧ s.isPrefixOf rest = true
    · rw [if_pos ht] at h; cases h
    · rw [if_neg ht] at h
      intro m hm
      rcases List.mem_cons.1 hm with rfl | hm
      · exact ht
      · exact ih h m hm

/-- a non-empty prefix of `10 :: _` contains 10 -/
theorem mem_of_isPrefixOf_cons {s cs : List Rune} {c : Rune} (hs : s ≠ []) (hp : s.isPrefixOf (c :: cs) = true) :
    c ∈ s := by
  cases s with
  | nil => exact absurd rfl hs
  | cons a s => simp [List.isPrefixOf] at hp; simp [hp.1]


theorem dropWhile_ne10 (l : List Rune) :
    l.dropWhile (· ≠ 10) = [] ∨ ∃ t, l.dropWhile (· ≠ 10) = 10 :: t := by
  induction l with
  | nil => exact Or.inl rfl
  | cons a l ih =>
    by_cases ha : a = 10
    · subst ha; exact Or.inr ⟨l, by simp⟩
    · simpa [List.dropWhile_cons, ha] using ih

/-- in code mode a newline is skipped (no delimiter starts with a newline) -/
theorem code_newline (R : Row) (wf : R.WF) (f : Nat) (t : List Rune) (line col : Nat) :
    code R (f + 1) (10 :: t) line col = code R f t (line + 1) 0 := by
  have hfb : firstBlock R.multis (10 :: t) = none := by
    rcases h : firstBlock R.multis (10 :: t) with _ | m
    · rfl
    · obtain ⟨hm, hne, hp⟩ := firstBlock_some h
      exact absurd (mem_of_isPrefixOf_cons hne hp) (wf.2 m hm).1
  have hfp : firstPrefix R.singles (10 :: t) = none := by
    rcases h : firstPrefix R.singles (10 :: t) with _ | s
    · rfl
    · obtain ⟨hm, hne, hp⟩ := firstPrefix_some h
      exact absurd (mem_of_isPrefixOf_cons hne hp) (wf.1 s hm)
  have hq : ¬ ((10 : Rune) = 34 ∨ (10 : Rune) = 39 ∨ (10 : Rune) = 96) := by decide
  simp only [code, if_neg hq, hfb, hfp, if_true]

/-- the induction hypothesis of the main loop, as a predicate on the bound `n` -/
def LoopIH (R : Row) (n : Nat) : Prop :=
  ∀ (rest : List Rune), rest.length ≤ n →
    ∀ (f1 f2 line col : Nat) (acc : List Comment), rest.length < f1 → rest.length < f2 →
      lexLoop R f1 ⟨rest, line, col⟩ acc = acc ++ code R f2 rest line col

/-- resuming the loop after a lexeme `S`: the specification recomputes line and column from `S` -/
theorem resume (R : Row) (n : Nat) (ih : LoopIH R n) (rest S rest' : List Rune) (hrest : rest = S ++ rest')
    (hS : S ≠ []) (hn : rest.length ≤ n + 1) (f1 f2 line col : Nat) (acc : List Comment)
    (h1 : rest.length < f1 + 1) (h2 : rest.length < f2 + 1) :
    lexLoop R f1 ⟨rest', line + nls S, colAfter S col⟩ acc =
      acc ++ code R f2 rest' (line + nls (rest.take (rest.length - rest'.length)))
        (if nls (rest.take (rest.length - rest'.length)) = 0 then col + (rest.length - rest'.length)
         else ((rest.take (rest.length - rest'.length)).reverse.takeWhile (· ≠ 10)).length) ∧
    line + nls S = line + nls (rest.take (rest.length - rest'.length)) := by
  subst hrest
  have e2 : (S ++ rest').length - rest'.length = S.length := by simp
  have e1 : (S ++ rest').take S.length = S := by simp
  have hpos : 0 < S.length := List.length_pos_iff.2 hS
  rw [e2, e1, ← colAfter_spec]
  simp only [List.length_append] at hn h1 h2
  exact ⟨ih rest' (by omega) f1 f2 _ _ acc (by omega) (by omega), rfl⟩

theorem string_some (R : Row) (n : Nat) (ih : LoopIH R n) (rest quote body : List Rune) (esc : Bool)
    (hq : quote ≠ []) (h10 : (10 : Rune) ∉ quote) (hrest : rest = quote ++ body)
    (hn : rest.length ≤ n + 1) (f1 f2 line col : Nat)
    (h1 : rest.length < f1 + 1) (h2 : rest.length < f2 + 1) (rest' content : List Rune)
    (hsb : strBody quote esc R.nlEndsString (body.length + 1) body [] = some (rest', content)) :
    ∃ p2, stringBody R quote esc (body.length + 1) ⟨body, line, col + quote.length⟩ [] = some (p2, content) ∧
      p2.line = line + nls (rest.take (rest.length - rest'.length)) ∧
      ∀ acc, lexLoop R f1 p2 acc =
        acc ++ code R f2 rest' (line + nls (rest.take (rest.length - rest'.length)))
          (if nls (rest.take (rest.length - rest'.length)) = 0 then col + (rest.length - rest'.length)
           else ((rest.take (rest.length - rest'.length)).reverse.takeWhile (· ≠ 10)).length) := by
  obtain ⟨seen, hs, he⟩ := (stringBody_spec R quote esc hq _ body line (col + quote.length) []).2 _ _ hsb
  refine ⟨_, he, ?_⟩
  have hr : rest = (quote ++ seen) ++ rest' := by rw [hrest, hs, List.append_assoc]
  have hl : line + nls seen = line + nls (quote ++ seen) := by
    rw [nls_append, nls_eq_zero.2 h10]; omega
  have hc : colAfter seen (col + quote.length) = colAfter (quote ++ seen) col := by
    rw [colAfter_append, colAfter_of_not_mem h10]
  rw [hl, hc]
  refine ⟨(resume R n ih rest _ rest' hr (by simp [hq]) hn f1 f2 line col [] h1 h2).2, fun acc => ?_⟩
  exact (resume R n ih rest _ rest' hr (by simp [hq]) hn f1 f2 line col acc h1 h2).1

theorem block_some (R : Row) (n : Nat) (ih : LoopIH R n) (rest start stop body : List Rune)
    (hq : start ≠ []) (hrest : rest = start ++ body)
    (hn : rest.length ≤ n + 1) (f1 f2 line col : Nat)
    (h1 : rest.length < f1 + 1) (h2 : rest.length < f2 + 1) (rest' text : List Rune)
    (hsb : blockBody start stop R.nested (body.length + 1) body 0 [] = some (rest', text)) :
    ∃ p2, multiBody R start stop (body.length + 1) ⟨body, line + nls start, colAfter start col⟩ 0 [] = some (p2, text) ∧
      p2.line = line + nls (rest.take (rest.length - rest'.length)) ∧
      ∀ acc, lexLoop R f1 p2 acc =
        acc ++ code R f2 rest' (line + nls (rest.take (rest.length - rest'.length)))
          (if nls (rest.take (rest.length - rest'.length)) = 0 then col + (rest.length - rest'.length)
           else ((rest.take (rest.length - rest'.length)).reverse.takeWhile (· ≠ 10)).length) := by
  obtain ⟨seen, hs, he⟩ := (multiBody_spec R start stop _ body (line + nls start) (colAfter start col) 0 []).2 _ _ hsb
  refine ⟨_, he, ?_⟩
  have hr : rest = (start ++ seen) ++ rest' := by rw [hrest, hs, List.append_assoc]
  have hl : line + nls start + nls seen = line + nls (start ++ seen) := by
    rw [nls_append]; omega
  have hc : colAfter seen (colAfter start col) = colAfter (start ++ seen) col := by
    rw [colAfter_append]
  rw [hl, hc]
  refine ⟨(resume R n ih rest _ rest' hr (by simp [hq]) hn f1 f2 line col [] h1 h2).2, fun acc => ?_⟩
  exact (resume R n ih rest _ rest' hr (by simp [hq]) hn f1 f2 line col acc h1 h2).1

theorem lexLoop_spec (R : Row) (wf : R.WF) : ∀ (n : Nat), LoopIH R n := by
  intro n
  induction n with
  | zero =>
    intro rest hn f1 f2 line col acc h1 h2
    have : rest = [] := List.eq_nil_of_length_eq_zero (by omega)
    subst this
    cases f1 <;> cases f2 <;> simp [lexLoop, code]
  | succ n ih =>
    intro rest hn f1 f2 line col acc h1 h2
    cases rest with
    | nil => cases f1 <;> cases f2 <;> simp [lexLoop, code]
    | cons c cs =>
      cases f1 with
      | zero => omega
      | succ f1 =>
      cases f2 with
      | zero => omega
      | succ f2 =>
      simp only [List.length_cons] at hn h1 h2
      have hskip : lexLoop R f1 (advance ⟨c :: cs, line, col⟩) acc =
          acc ++ code R f2 cs (if c = 10 then line + 1 else line) (if c = 10 then 0 else col + 1) := by
        rw [advance_cons, ih cs (by omega) f1 f2 _ _ acc (by omega) (by omega)]
        by_cases hc : c = 10 <;> simp [hc, nls_cons, nls_nil, colAfter]
      by_cases hq : c = 34 ∨ c = 39 ∨ c = 96
      · simp only [lexLoop, code, if_pos hq]
        by_cases hh : R.html = true
        · simp only [if_pos hh]; exact hskip
        · simp only [if_neg hh]
          have hc10 : c ≠ 10 := by rcases hq with h | h | h <;> (subst h; decide)
          have hlen : (c :: cs).length ≤ n + 1 := by simpa using hn
          have hl1 : (c :: cs).length < f1 + 1 := by simpa using h1
          have hl2 : (c :: cs).length < f2 + 1 := by simpa using h2
          generalize (if c = 34 then R.dq else if c = 39 then R.sq else if c = 96 then R.bq else none) = qi
          cases qi with
          | none => exact hskip
          | some esc =>
            simp only []
            by_cases hT : R.python = true ∧ (c = 34 ∨ c = 39) ∧ [c, c, c].isPrefixOf (c :: cs) = true
            · have hT' : R.python = true ∧ (c = 39 ∨ c = 34) := ⟨hT.1, hT.2.1.symm⟩
              have htq : (if R.python = true ∧ (c = 39 ∨ c = 34) then
                    matchAt [c, c, c] ⟨c :: cs, line, col⟩ else none) =
                  some ⟨(c :: cs).drop [c, c, c].length, line, col + [c, c, c].length⟩ := by
                rw [if_pos hT', matchAt_eq, if_pos ⟨by simp, hT.2.2⟩]
                simp [nls_cons, nls_nil, colAfter, hc10]
              have hdoc : ((R.python = true ∧ (c = 34 ∨ c = 39) ∧ [c, c, c].isPrefixOf (c :: cs) = true) ∧ col = 0)
                  ↔ col = 0 := ⟨fun h => h.2, fun h => ⟨hT, h⟩⟩
              simp only [htq, if_pos hT, hdoc]
              have hq3 : ([c, c, c] : List Rune) ≠ [] := by simp
              have h103 : (10 : Rune) ∉ [c, c, c] := by simp [Ne.symm hc10]
              rcases hsb : strBody [c, c, c] esc R.nlEndsString ((List.drop [c, c, c].length (c :: cs)).length + 1)
                  (List.drop [c, c, c].length (c :: cs)) [] with _ | ⟨rest', content⟩
              · rw [(stringBody_spec R [c, c, c] esc hq3 _ _ line (col + [c, c, c].length) []).1 hsb]
                simp
              · obtain ⟨p2, he, hline, hloop⟩ := string_some R n ih (c :: cs) [c, c, c] _ esc hq3 h103
                  (isPrefixOf_eq_append hT.2.2) hlen f1 f2 line col hl1 hl2 rest' content hsb
                rw [he]
                simp only [hloop, hline]
                by_cases hcol : col = 0 <;> simp [hcol]
            · have htq : (if R.python = true ∧ (c = 39 ∨ c = 34) then
                    matchAt [c, c, c] ⟨c :: cs, line, col⟩ else none) = none := by
                by_cases hT' : R.python = true ∧ (c = 39 ∨ c = 34)
                · rw [if_pos hT', matchAt_eq, if_neg]
                  exact fun h => hT ⟨hT'.1, hT'.2.symm, h.2⟩
                · rw [if_neg hT']
              have hadv : advance ⟨c :: cs, line, col⟩ =
                  ⟨(c :: cs).drop [c].length, line, col + [c].length⟩ := by
                rw [advance_cons]; simp [nls_cons, nls_nil, colAfter, hc10]
              have hdoc : ¬ ((R.python = true ∧ (c = 34 ∨ c = 39) ∧ [c, c, c].isPrefixOf (c :: cs) = true) ∧ col = 0) :=
                fun h => hT h.1
              simp only [htq, if_neg hT, if_neg hdoc, hadv]
              have hq1 : ([c] : List Rune) ≠ [] := by simp
              have h101 : (10 : Rune) ∉ [c] := by simp [Ne.symm hc10]
              rcases hsb : strBody [c] esc R.nlEndsString ((List.drop [c].length (c :: cs)).length + 1)
                  (List.drop [c].length (c :: cs)) [] with _ | ⟨rest', content⟩
              · rw [(stringBody_spec R [c] esc hq1 _ _ line (col + [c].length) []).1 hsb]
                simp
              · obtain ⟨p2, he, hline, hloop⟩ := string_some R n ih (c :: cs) [c] (List.drop [c].length (c :: cs)) esc hq1 h101
                  rfl hlen f1 f2 line col hl1 hl2 rest' content hsb
                rw [he]
                simp [hloop]
      · have hlen : (c :: cs).length ≤ n + 1 := by simpa using hn
        have hl1 : (c :: cs).length < f1 + 1 := by simpa using h1
        have hl2 : (c :: cs).length < f2 + 1 := by simpa using h2
        simp only [lexLoop, code, if_neg hq, firstMulti_eq, firstMatch_eq]
        rcases hfb : firstBlock R.multis (c :: cs) with _ | ⟨start, stop⟩
        · simp only [Option.map_none]
          rcases hfp : firstPrefix R.singles (c :: cs) with _ | s
          · simp only [Option.map_none]
            exact hskip
          · simp only [Option.map_some]
            obtain ⟨hm, hne, hp⟩ := firstPrefix_some hfp
            have h10 : (10 : Rune) ∉ s := wf.1 s hm
            rw [singleBody_eq]
            simp only [nls_eq_zero.2 h10, colAfter_of_not_mem h10, Nat.add_zero]
            have hcs : c :: cs = s ++ List.drop s.length (c :: cs) := isPrefixOf_eq_append hp
            generalize List.drop s.length (c :: cs) = body at hcs ⊢
            have hbody := (List.takeWhile_append_dropWhile (p := (· ≠ 10)) (l := body)).symm
            rcases dropWhile_ne10 body with hdw | ⟨t, hdw⟩
            · simp only [hdw, if_true]; simp
            · rw [hdw] at hbody ⊢
              generalize List.takeWhile (· ≠ 10) body = tw at hbody ⊢
              have hlen' : (c :: cs).length = s.length + tw.length + 1 + t.length := by
                rw [hcs, hbody]; simp; omega
              have hspos : 0 < s.length := List.length_pos_iff.2 hne
              cases f2 with
              | zero => omega
              | succ f2 =>
                rw [code_newline R wf, advance_cons,
                  ih t (by omega) f1 f2 _ _ _ (by omega) (by omega)]
                simp [nls_cons, nls_nil, colAfter]
        · simp only [Option.map_some]
          obtain ⟨hm, hne, hp⟩ := firstBlock_some hfb
          have h10 : (10 : Rune) ∉ start := (wf.2 _ hm).1
          rcases hbb : blockBody start stop R.nested ((List.drop start.length (c :: cs)).length + 1)
              (List.drop start.length (c :: cs)) 0 [] with _ | ⟨rest', text⟩
          · rw [(multiBody_spec R start stop _ _ (line + nls start) (colAfter start col) 0 []).1 hbb]
            simp
          · obtain ⟨p2, he, hline, hloop⟩ := block_some R n ih (c :: cs) start stop _ hne
              (isPrefixOf_eq_append hp) hlen f1 f2 line col hl1 hl2 rest' text hbb
            rw [he]
            simp [hloop, hline, nls_eq_zero.2 h10]

theorem lex_refines_spec' (R : Row) (wf : R.WF) (rs : List Rune) :
    parse R rs = LC.LexSpec.comments R rs := by
  unfold parse comments
  by_cases h : rs = []
  · simp [h]
  · simp only [if_neg h]
    have := lexLoop_spec R wf _ (if rs.getLast? = some 10 then rs else rs ++ [10]) (Nat.le_refl _)
      ((if rs.getLast? = some 10 then rs else rs ++ [10]).length + 1)
      ((if rs.getLast? = some 10 then rs else rs ++ [10]).length + 1) 1 0 [] (by omega) (by omega)
    simpa using this

/-- comments of the specification start at or after the current line and end at or after their start -/
theorem code_lines (R : Row) : ∀ (fuel : Nat) (rest : List Rune) (line col : Nat),
    ∀ c ∈ code R fuel rest line col, line ≤ c.startLine ∧ c.startLine ≤ c.endLine := by
  intro fuel
  induction fuel with
  | zero => intro rest line col c hc; simp [code] at hc
  | succ fuel ih =>
    intro rest line col c hc
    cases rest with
    | nil => simp [code] at hc
    | cons r rs =>
      have hskip : ∀ c ∈ code R fuel rs (if r = 10 then line + 1 else line) (if r = 10 then 0 else col + 1),
          line ≤ c.startLine ∧ c.startLine ≤ c.endLine := by
        intro c hc
        have := ih _ _ _ c hc
        by_cases hr : r = 10 <;> simp [hr] at this <;> omega
      simp only [code] at hc
      repeat' split at hc
      all_goals first
        | exact hskip c hc
        | (exfalso; simp at hc; done)
        | skip
      all_goals
        try simp only [List.mem_append, List.mem_cons, List.not_mem_nil, or_false, List.nil_append] at hc
        first
        | (have := ih _ _ _ c hc; omega)
        | (rcases hc with rfl | hc
           · simp
           · have := ih _ _ _ c hc; omega)

theorem spec_comment_lines' (R : Row) (rs : List Rune) :
    ∀ c ∈ LC.LexSpec.comments R rs, 1 ≤ c.startLine ∧ c.startLine ≤ c.endLine := by
  intro c hc
  unfold comments at hc
  by_cases h : rs = []
  · simp [h] at hc
  · simp only [if_neg h] at hc
    exact code_lines R _ _ _ _ c hc


/-! ### the language table -/

/-- no delimiter of a language contains a newline -/
def factsOk (f : LangFacts) : Bool :=
  !(f.single.contains 10) && !(f.multiStart.contains 10) && !(f.multiEnd.contains 10)

theorem factsOk_iff (f : LangFacts) :
    factsOk f = true ↔ (10 : Rune) ∉ f.single ∧ (10 : Rune) ∉ f.multiStart ∧ (10 : Rune) ∉ f.multiEnd := by
  simp [factsOk, and_assoc]

theorem rowOf_wf (facts : Array LangFacts) (k : LangConsts)
    (h : ∀ i, factsOk (facts.getD i emptyFacts) = true) (lang : Nat) : (rowOf facts k lang).WF := by
  have hf := (factsOk_iff _).1 (h lang)
  have h1 := (factsOk_iff _).1 (h k.mySQL)
  have h2 := (factsOk_iff _).1 (h k.matlab)
  unfold rowOf Row.WF
  by_cases hs : lang = k.sql
  · simp only [if_pos hs]
    refine ⟨fun s hs => ?_, fun m hm => ?_⟩
    · simp only [List.mem_cons, List.not_mem_nil, or_false] at hs
      rcases hs with rfl | rfl
      · exact hf.1
      · exact h1.1
    · simp only [List.mem_cons, List.not_mem_nil, or_false] at hm
      rcases hm with rfl | rfl
      · exact hf.2
      · exact h1.2
  · by_cases ho : lang = k.objectiveC
    · simp only [if_neg hs, if_pos ho]
      refine ⟨fun s hs => ?_, fun m hm => ?_⟩
      · simp only [List.mem_cons, List.not_mem_nil, or_false] at hs
        rcases hs with rfl | rfl
        · exact hf.1
        · exact h2.1
      · simp only [List.mem_cons, List.not_mem_nil, or_false] at hm
        rcases hm with rfl | rfl
        · exact hf.2
        · exact h2.2
    · simp only [if_neg hs, if_neg ho]
      refine ⟨fun s hs => ?_, fun m hm => ?_⟩
      · simp only [List.mem_cons, List.not_mem_nil, or_false] at hs
        subst hs; exact hf.1
      · simp only [List.mem_cons, List.not_mem_nil, or_false] at hm
        subst hm; exact hf.2

theorem expect_size : LC.Spec.LangExpect.facts.size = 64 := by decide

theorem expect_lt_ok : ∀ i, i < 64 → factsOk (LC.Spec.LangExpect.facts.getD i emptyFacts) = true := by
  decide +kernel

theorem expect_getD_ok (i : Nat) : factsOk (LC.Spec.LangExpect.facts.getD i emptyFacts) = true := by
  by_cases h : i < 64
  · exact expect_lt_ok i h
  · have : LC.Spec.LangExpect.facts.getD i emptyFacts = emptyFacts := by
      simp [Array.getD, expect_size, h]
    rw [this]; decide

theorem expected_rows_wf' (lang : Nat) :
    (rowOf LC.Spec.LangExpect.facts LC.LexSpec.expectedConsts lang).WF :=
  rowOf_wf _ _ expect_getD_ok lang

theorem table_eq : LC.Gen.Lang.facts = LC.Spec.LangExpect.facts := by decide

theorem consts_eq :
    ({ html := LC.Gen.Lang.cHTML, python := LC.Gen.Lang.cPython, javaScript := LC.Gen.Lang.cJavaScript,
       perl := LC.Gen.Lang.cPerl, sql := LC.Gen.Lang.cSQL, objectiveC := LC.Gen.Lang.cObjectiveC,
       mySQL := LC.Gen.Lang.cMySQL, matlab := LC.Gen.Lang.cMatlab } : LangConsts) = LC.LexSpec.expectedConsts := by
  decide

theorem parse_is_spec' (lang : Nat) (rs : List Rune) :
    parse (rowOf LC.Gen.Lang.facts
      { html := LC.Gen.Lang.cHTML, python := LC.Gen.Lang.cPython, javaScript := LC.Gen.Lang.cJavaScript,
        perl := LC.Gen.Lang.cPerl, sql := LC.Gen.Lang.cSQL, objectiveC := LC.Gen.Lang.cObjectiveC,
        mySQL := LC.Gen.Lang.cMySQL, matlab := LC.Gen.Lang.cMatlab } lang) rs =
    LC.LexSpec.specComments lang rs := by
  rw [table_eq, consts_eq]
  exact lex_refines_spec' _ (expected_rows_wf' lang) rs

/-! ### ChunkIterator -/

theorem IsChain.tail {α : Type} {R : α → α → Prop} {a : α} {l : List α} (h : IsChain R (a :: l)) :
    IsChain R l := by
  cases h with
  | singleton => exact IsChain.nil
  | cons_cons _ h => exact h

/-- adjacency inside a chunk -/
abbrev adjR (a b : Comment) : Prop := b.startLine ≤ a.startLine + 1

/-- separation between consecutive chunks -/
abbrev maxR (a b : List Comment) : Prop :=
  ∀ x ∈ a.getLast?, ∀ y ∈ b.head?, y.startLine > x.startLine + 1

theorem takeChunk_spec : ∀ (cs : List Comment) (prev : Comment) (chunk : List Comment),
    ∃ taken rest last, takeChunk cs prev chunk = (chunk ++ taken, rest, last) ∧ cs = taken ++ rest ∧
      IsChain adjR (prev :: taken) ∧ (prev :: taken).getLast? = some last ∧
      (∀ r ∈ rest.head?, r.startLine > last.startLine + 1) := by
  intro cs
  induction cs with
  | nil =>
    intro prev chunk
    exact ⟨[], [], prev, by simp [takeChunk], rfl, IsChain.singleton _, rfl, by simp⟩
  | cons c cs ih =>
    intro prev chunk
    by_cases h1 : c.startLine > prev.startLine + 1
    · refine ⟨[], c :: cs, prev, by simp [takeChunk, h1], rfl, IsChain.singleton _, rfl, ?_⟩
      intro r hr; simp at hr; subst hr; exact h1
    · have h2 : ¬ (c.startLine = prev.startLine + 2 ∧ (c.startLine ≠ c.endLine ∨ prev.startLine ≠ prev.endLine)) := by
        intro h; omega
      obtain ⟨taken, rest, last, he, hcs, hch, hl, hr⟩ := ih c (chunk ++ [c])
      refine ⟨c :: taken, rest, last, ?_, by simp [hcs], IsChain.cons_cons (by show c.startLine ≤ _; omega) hch, ?_, hr⟩
      · simp only [takeChunk, if_neg h1, if_neg h2, he]; simp
      · rw [List.getLast?_cons_cons]; exact hl

theorem chunks_spec : ∀ (fuel : Nat) (c : Comment) (cs : List Comment), (c :: cs).length ≤ fuel →
    (chunks fuel (c :: cs) c).flatten = c :: cs ∧
    (∀ ch ∈ chunks fuel (c :: cs) c, ch ≠ [] ∧ IsChain adjR ch) ∧
    IsChain maxR (chunks fuel (c :: cs) c) ∧
    (∃ ch0 tl, chunks fuel (c :: cs) c = (c :: ch0) :: tl) := by
  intro fuel
  induction fuel with
  | zero => intro c cs h; simp at h
  | succ fuel ih =>
    intro c cs hlen
    obtain ⟨taken, rest, last, he, hcs, hch, hl, hr⟩ := takeChunk_spec (c :: cs) c []
    -- the first comment is always taken
    cases taken with
    | nil =>
      exfalso
      simp only [List.nil_append] at hcs he
      rw [← hcs] at hr he
      simp only [List.getLast?_singleton, Option.some.injEq] at hl
      subst hl
      have := hr c (by simp)
      omega
    | cons t taken =>
      simp only [List.cons_append, List.cons.injEq] at hcs
      obtain ⟨rfl, hcs⟩ := hcs
      simp only [List.nil_append] at he
      have hch' : IsChain adjR (c :: taken) := hch.tail
      rw [List.getLast?_cons_cons] at hl
      cases rest with
      | nil =>
        have hout : chunks (fuel + 1) (c :: cs) c = [c :: taken] := by
          simp [chunks, he]
        rw [hout]
        refine ⟨by simp [hcs], ?_, IsChain.singleton _, ⟨taken, [], rfl⟩⟩
        intro ch hch2; simp at hch2; subst hch2; exact ⟨by simp, hch'⟩
      | cons r rest =>
        have hout : chunks (fuel + 1) (c :: cs) c = (c :: taken) :: chunks fuel (r :: rest) r := by
          simp [chunks, he]
        rw [hout]
        have hlen' : (r :: rest).length ≤ fuel := by
          have : (c :: cs).length = (c :: taken).length + (r :: rest).length := by
            rw [hcs]; simp; omega
          simp only [List.length_cons] at this hlen ⊢
          omega
        obtain ⟨i1, i2, i3, ch0, tl, i4⟩ := ih r rest hlen'
        refine ⟨by simp [i1, hcs], ?_, ?_, ⟨taken, _, rfl⟩⟩
        · intro ch hch2
          rcases List.mem_cons.1 hch2 with rfl | hch2
          · exact ⟨by simp, hch'⟩
          · exact i2 ch hch2
        · rw [i4] at i3 ⊢
          refine IsChain.cons_cons ?_ i3
          intro x hx y hy
          simp only [List.head?_cons, Option.mem_def, Option.some.injEq] at hy
          subst hy
          rw [Option.mem_def, hl] at hx
          cases hx
          exact hr r (by simp)

theorem chunks_concat' (cs : List Comment) : (chunkIterator cs).flatten = cs := by
  cases cs with
  | nil => rfl
  | cons c cs => exact (chunks_spec _ c cs (Nat.le_succ _)).1

theorem chunks_nonempty' (cs : List Comment) : ∀ ch ∈ chunkIterator cs, ch ≠ [] := by
  cases cs with
  | nil => intro ch h; cases h
  | cons c cs => intro ch h; exact ((chunks_spec _ c cs (Nat.le_succ _)).2.1 ch h).1

theorem chunks_adjacent' (cs : List Comment) :
    ∀ ch ∈ chunkIterator cs, IsChain (fun a b => b.startLine ≤ a.startLine + 1) ch := by
  cases cs with
  | nil => intro ch h; cases h
  | cons c cs => intro ch h; exact ((chunks_spec _ c cs (Nat.le_succ _)).2.1 ch h).2

theorem chunks_maximal' (cs : List Comment) :
    IsChain (fun a b => ∀ x ∈ a.getLast?, ∀ y ∈ b.head?, y.startLine > x.startLine + 1)
      (chunkIterator cs) := by
  cases cs with
  | nil => exact IsChain.nil
  | cons c cs => exact (chunks_spec _ c cs (Nat.le_succ _)).2.2.1

/-- `IsChain` is the index formulation: consecutive elements are related -/
theorem isChain_iff_get {α : Type} (R : α → α → Prop) (l : List α) :
    IsChain R l ↔ ∀ i (h : i + 1 < l.length), R (l[i]'(Nat.lt_of_succ_lt h)) l[i + 1] := by
  induction l with
  | nil => exact ⟨fun _ i h => absurd h (by simp), fun _ => IsChain.nil⟩
  | cons a l ih =>
    cases l with
    | nil => exact ⟨fun _ i h => absurd h (by simp), fun _ => IsChain.singleton a⟩
    | cons b l =>
      constructor
      · intro h i hi
        cases h with
        | cons_cons hab hl =>
          cases i with
          | zero => exact hab
          | succ i => exact ih.1 hl i (by simpa using hi)
      · intro h
        refine IsChain.cons_cons (h 0 (by simp)) (ih.2 ?_)
        intro i hi
        exact h (i + 1) (by simpa using hi)

theorem nonvacuous_example :
    LC.LexSpec.specComments 5 ("x=\"/*no*/\";/**//*b*/ \"s\"//c\n".toList.map Char.toNat) =
      [⟨1, 1, []⟩, ⟨1, 1, [98]⟩, ⟨1, 1, [99]⟩] ∧
    chunkIterator [⟨1, 1, []⟩, ⟨2, 2, []⟩, ⟨4, 6, []⟩, ⟨7, 7, []⟩] =
      [[⟨1, 1, []⟩, ⟨2, 2, []⟩], [⟨4, 6, []⟩], [⟨7, 7, []⟩]] := by
  decide +kernel

end LC.Lexer
