/- Helper lemmas for LC/Props/C18.lean. TO BE PROVED (no sorry may remain). -/
import LC.Model.Lexer
import LC.Spec.LexSpec
import LC.Gen.LangTable
namespace LC.Lexer
open LC.Utf8
end LC.Lexer
