/- Helper lemmas for LC/Props/C07.lean. TO BE PROVED (no sorry may remain). -/
import LC.Spec.TokSpec
import LC.Model.V2Match
import LC.Proofs.Tok
namespace LC.V2Tok
open LC.Utf8
end LC.V2Tok
