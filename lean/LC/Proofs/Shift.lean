/- Helper lemmas for LC/Props/C07.lean. -/
import LC.Spec.TokSpec
import LC.Model.V2Match
import LC.Proofs.Tok
import LC.Proofs.MatchWF

namespace LC.V2Tok
open LC.Utf8

theorem tokens_shift' (E : Env) (n : Bool) (pre X : List Rune) (hc : Clean (scanRunes E n pre))
    (hl : 1 ≤ (scanRunes E n pre).line) :
    tokenizeRunes E n (pre ++ X) =
      appendDoc (scanRunes E n pre).doc (shiftDoc ((scanRunes E n pre).line - 1) (tokenizeRunes E n X)) := by
  rw [← tokenize_from_clean' E n (scanRunes E n pre) hc hl X]
  unfold tokenizeRunes scanRunes scanFrom
  rw [List.foldl_append]

theorem clean_after_plain_nl' (E : Env) (s : State) (_hd : s.deferredEOL = false) (_hw : s.deferredLines = 0)
    (hh : s.obuf.getLast? ≠ some hyphen) : Clean (step E true s nl) := by
  rw [step_eq]
  simp only [if_true]
  unfold nlStep Clean
  simp only [hh, and_false, if_false]
  -- the plain-newline branch clears `deferredEOL` and `deferredLines` itself, so `_hd`/`_hw` are not needed
  refine ⟨?_, trivial, trivial, trivial⟩
  by_cases h2 : s.obuf = []
  · simp [h2]
  · simp [h2]

end LC.V2Tok

namespace LC.V2Match
open LC.Score WFP

theorem hashes_shift' (crc : Text → Nat) (wordOf : Nat → Text) (q : Nat) (hq : 0 < q) (pre xs : List Nat) (i : Nat)
    (hi : i + q ≤ xs.length) :
    (hashes crc wordOf q (pre ++ xs))[pre.length + i]? = (hashes crc wordOf q xs)[i]? := by
  have hq0 : q ≠ 0 := by omega
  unfold hashes
  simp only [hq0, if_false, List.getElem?_map, List.length_append]
  have h1 : pre.length + i < pre.length + xs.length + 1 - q := by omega
  have h2 : i < xs.length + 1 - q := by omega
  rw [List.getElem?_range h1, List.getElem?_range h2]
  simp only [Option.map_some]
  have : List.drop (pre.length + i) (pre ++ xs) = List.drop i xs := by
    rw [← List.drop_drop, List.drop_left]
  rw [this]

/-! ### strictly monotone maps on `Nat` -/

section Mono
variable {f : Nat → Nat} (hf : ∀ a b, a < b → f a < f b)
include hf

theorem mono_lt (a b : Nat) : f a < f b ↔ a < b := by
  constructor
  · intro h
    rcases Nat.lt_trichotomy a b with h1 | h1 | h1
    · exact h1
    · subst h1; omega
    · have := hf _ _ h1; omega
  · exact hf a b

theorem mono_le (a b : Nat) : f a ≤ f b ↔ a ≤ b := by
  rw [← Nat.not_lt, ← Nat.not_lt, mono_lt hf]

theorem mono_eq (a b : Nat) : f a = f b ↔ a = b := by
  constructor
  · intro h
    rcases Nat.lt_trichotomy a b with h1 | h1 | h1
    · have := hf _ _ h1; omega
    · exact h1
    · have := hf _ _ h1; omega
  · intro h; rw [h]

/-! ### comparator, containment, overlap are preserved -/

theorem matchLess_map {C : Type} (N : NumEnv C) (a b : Match C) :
    matchLess N (mapMatch f a) (mapMatch f b) = matchLess N a b := by
  unfold matchLess
  simp only [mapMatch, ne_eq, mono_eq hf, mono_lt hf]
  rfl

theorem contains_map {C : Type} (a b : Match C) :
    contains (mapMatch f a) (mapMatch f b) = contains a b := by
  unfold contains
  simp only [mapMatch, ge_iff_le, mono_le hf]

theorem overlaps_map {C : Type} (a b : Match C) :
    overlaps (mapMatch f a) (mapMatch f b) = overlaps a b := by
  unfold overlaps between
  simp only [mapMatch, mono_le hf]

end Mono

/-! ### sorting commutes with a comparator-preserving map -/

theorem insertSorted_map {α β : Type} (g : α → β) (la : α → α → Bool) (lb : β → β → Bool)
    (h : ∀ a b, lb (g a) (g b) = la a b) (x : α) (l : List α) :
    insertSorted lb (g x) (l.map g) = (insertSorted la x l).map g := by
  induction l with
  | nil => rfl
  | cons y ys ih =>
    simp only [List.map_cons, insertSorted, h]
    split
    · rfl
    · rw [List.map_cons, ih]

theorem sortBy_map {α β : Type} (g : α → β) (la : α → α → Bool) (lb : β → β → Bool)
    (h : ∀ a b, lb (g a) (g b) = la a b) (l : List α) :
    sortBy lb (l.map g) = (sortBy la l).map g := by
  induction l with
  | nil => rfl
  | cons x xs ih =>
    rw [List.map_cons, WFP.sortBy_cons, WFP.sortBy_cons, ih, insertSorted_map g la lb h]

/-! ### the retain pass -/

theorem retainInner_map {C : Type} (N : NumEnv C) {f : Nat → Nat} (hf : ∀ a b, a < b → f a < f b)
    (c : Match C) (earlier : List (Match C × Bool × Nat)) (props : List Nat) :
    retainInner N (mapMatch f c) (earlier.map (fun p => (mapMatch f p.1, p.2.1, p.2.2))) props =
      retainInner N c earlier props := by
  induction earlier generalizing props with
  | nil => rfl
  | cons e rest ih =>
    obtain ⟨o, retained, j⟩ := e
    simp only [List.map_cons, retainInner, contains_map hf, overlaps_map hf, ih]
    simp only [mapMatch, ne_eq, mono_eq hf]
    rfl

theorem retainPass_map {C : Type} (N : NumEnv C) {f : Nat → Nat} (hf : ∀ a b, a < b → f a < f b)
    (l : List (Match C)) :
    retainPass N (l.map (mapMatch f)) = retainPass N l := by
  unfold retainPass
  simp only [List.length_map, List.zipIdx_map, List.foldl_map]
  congr 1
  funext retain ci
  have he : (((List.take ci.2 (List.map (mapMatch f) l)).zip (List.take ci.2 retain)).zipIdx.map
        (fun p => (p.1.1, p.1.2, p.2))) =
      ((((List.take ci.2 l).zip (List.take ci.2 retain)).zipIdx.map
        (fun p => (p.1.1, p.1.2, p.2))).map (fun p => (mapMatch f p.1, p.2.1, p.2.2))) := by
    rw [← List.map_take, List.zip_map_left, List.zipIdx_map, List.map_map, List.map_map]
    rfl
  simp only [Prod.map_fst, Prod.map_snd, id_eq, he, retainInner_map N hf]

theorem zip_filterMap_map {α β : Type} (g : α → β) :
    ∀ (l : List α) (bs : List Bool),
      ((l.map g).zip bs).filterMap (fun (p : β × Bool) => if p.2 then some p.1 else none) =
        ((l.zip bs).filterMap (fun (p : α × Bool) => if p.2 then some p.1 else none)).map g := by
  intro l
  induction l with
  | nil => intro bs; simp
  | cons x xs ih =>
    intro bs
    cases bs with
    | nil => simp
    | cons b bs =>
      rw [List.map_cons, List.zip_cons_cons, List.zip_cons_cons, List.filterMap_cons, List.filterMap_cons]
      cases b with
      | true => simp [ih bs]
      | false => simp [ih bs]

theorem outOf_map {C : Type} (N : NumEnv C) {f : Nat → Nat} (hf : ∀ a b, a < b → f a < f b)
    (cands : List (Match C)) :
    outOf N (cands.map (mapMatch f)) = (outOf N cands).map (mapMatch f) := by
  unfold outOf
  simp only []
  rw [sortBy_map (mapMatch f) (matchLess N) (matchLess N) (matchLess_map hf N), retainPass_map N hf,
    zip_filterMap_map]

/-! ### candidates -/

theorem foldlM_map_commute {ε α β β' : Type} (φ : β → β') (F : β → α → Except ε β)
    (F' : β' → α → Except ε β') (h : ∀ acc x, F' (φ acc) x = (F acc x).map φ) :
    ∀ (l : List α) (init : β), l.foldlM F' (φ init) = (l.foldlM F init).map φ := by
  intro l
  induction l with
  | nil => intro init; rfl
  | cons x xs ih =>
    intro init
    rw [List.foldlM_cons, List.foldlM_cons, h]
    cases hfx : F init x with
    | error e => rfl
    | ok b =>
      simp only [Except.map, bind, Except.bind]
      exact ih b

theorem mapLines_size (f : Nat → Nat) (target : Array IdTok) : (mapLines f target).size = target.size := by
  simp [mapLines]

theorem mapLines_ids (f : Nat → Nat) (target : Array IdTok) :
    (mapLines f target).toList.map (·.id) = target.toList.map (·.id) := by
  simp [mapLines, Array.toList_map, List.map_map, Function.comp_def]

theorem mapLines_line (f : Nat → Nat) (target : Array IdTok) (i : Nat) (h : i < target.size)
    (h' : i < (mapLines f target).size) :
    ((mapLines f target)[i]'h').line = f (target[i]'h).line := by
  simp [mapLines]

theorem docCandidates_map {C : Type} (N : NumEnv C) (f : Nat → Nat) (wordOf : Nat → Text)
    (isDigitRune : Nat → Bool)
    (decode : Text → List Nat) (induced : List (Text × List Text))
    (diffOf : KDoc → Nat → Nat → Option (List (Diff Nat)))
    (target : Array IdTok) (th : List Nat) (qt : Nat) (p : PDoc) :
    docCandidates N wordOf isDigitRune decode induced diffOf (mapLines f target) th qt p =
      (docCandidates N wordOf isDigitRune decode induced diffOf target th qt p).map
        (List.map (mapMatch f)) := by
  unfold docCandidates
  rw [show findPotentialMatches N p.lookup p.qs p.doc.ids.length th qt (mapLines f target).size =
      findPotentialMatches N p.lookup p.qs p.doc.ids.length th qt target.size from by rw [mapLines_size]]
  split
  · rfl
  · rename_i ms _
    refine foldlM_map_commute (List.map (mapMatch f)) _ _ ?_ ms []
    intro acc m
    simp only []
    split
    · rfl
    · rename_i ds _
      split
      · by_cases hb : 0 ≤ m.tgtStart + ((score N wordOf isDigitRune decode induced p.doc ds).2.1 : Int) ∧
            (m.tgtStart + ((score N wordOf isDigitRune decode induced p.doc ds).2.1 : Int)).toNat < target.size ∧
            0 ≤ m.tgtEnd - ((score N wordOf isDigitRune decode induced p.doc ds).2.2 : Int) - 1 ∧
            (m.tgtEnd - ((score N wordOf isDigitRune decode induced p.doc ds).2.2 : Int) - 1).toNat < target.size
        · have hb' := hb
          rw [← mapLines_size f target] at hb'
          rw [dif_pos hb, dif_pos hb']
          simp only [Except.map, List.map_append, List.map_cons, List.map_nil, mapMatch]
          rw [mapLines_line f target _ hb.2.1 hb'.2.1, mapLines_line f target _ hb.2.2.2 hb'.2.2.2]
        · have hb' := hb
          rw [← mapLines_size f target] at hb'
          rw [dif_neg hb, dif_neg hb']
          rfl
      · rfl

theorem crMatches_map {C : Type} (N : NumEnv C) (f : Nat → Nat) (crs : List Nat) :
    crMatches N (crs.map f) = (crMatches N crs).map (mapMatch f) := by
  simp [crMatches, List.map_map, mapMatch, Function.comp_def]

theorem candFold_map {C : Type} (N : NumEnv C) (f : Nat → Nat) (crc : Text → Nat) (wordOf : Nat → Text)
    (isDigitRune : Nat → Bool) (decode : Text → List Nat) (induced : List (Text × List Text))
    (diffOf : KDoc → Nat → Nat → Option (List (Diff Nat)))
    (cntT : Nat → Nat) (docs : List PDoc) (target : Array IdTok) (crs : List Nat) :
    candFold N crc wordOf isDigitRune decode induced diffOf cntT docs (mapLines f target) (crs.map f) =
      (candFold N crc wordOf isDigitRune decode induced diffOf cntT docs target crs).map
        (List.map (mapMatch f)) := by
  unfold candFold
  simp only [mapLines_ids, crMatches_map]
  refine foldlM_map_commute (List.map (mapMatch f)) _ _ ?_ _ _
  intro acc p
  simp only [docCandidates_map]
  cases docCandidates N wordOf isDigitRune decode induced diffOf target _ _ p with
  | error e => rfl
  | ok ms => simp [Except.map]

theorem match_line_monotone' {C : Type} (N : NumEnv C) (f : Nat → Nat) (hf : ∀ a b, a < b → f a < f b)
    (crc : Text → Nat) (wordOf : Nat → Text) (isDigitRune : Nat → Bool) (decode : Text → List Nat)
    (induced : List (Text × List Text)) (diffOf : KDoc → Nat → Nat → Option (List (LC.Score.Diff Nat)))
    (cntT : Nat → Nat) (docs : List PDoc) (target : Array IdTok) (crs : List Nat) (r : Results C)
    (h : matchModel N crc wordOf isDigitRune decode induced diffOf cntT docs target crs = .ok r) :
    ∃ r', matchModel N crc wordOf isDigitRune decode induced diffOf cntT docs (mapLines f target) (crs.map f) = .ok r' ∧
      r'.ms = r.ms.map (mapMatch f) := by
  rw [matchModel_eq] at h ⊢
  by_cases hfp : firstPass N cntT docs = []
  · rw [if_pos hfp] at h ⊢
    cases h
    exact ⟨_, rfl, rfl⟩
  · rw [if_neg hfp] at h ⊢
    rw [candFold_map]
    cases hc : candFold N crc wordOf isDigitRune decode induced diffOf cntT docs target crs with
    | error e =>
      rw [hc] at h
      simp only at h
      subst h
      exact absurd ⟨r, rfl⟩ (candFold_err_not_ok _ _ _ _ _ _ _ _ _ _ _ _ hc)
    | ok cands =>
      rw [hc] at h
      simp only [Except.map] at h ⊢
      have hr : r.ms = outOf N cands := by
        split at h <;> cases h <;> rfl
      rw [hr, ← outOf_map N hf]
      split <;> exact ⟨_, rfl, rfl⟩

end LC.V2Match
