/-
Helper definitions and lemmas for LC/Props/C05Quotes.lean.
-/
import LC.Model.V2Tok
import LC.Proofs.Tok06

namespace LC.V2Tok
open LC.Utf8

/-- quote-equivalence of rune sequences: same length, equal except where both hold a quote-like rune -/
def QEq (Q : Rune → Bool) : List Rune → List Rune → Prop
  | [], [] => True
  | a :: as, b :: bs => (a = b ∨ (Q a = true ∧ Q b = true)) ∧ QEq Q as bs
  | _, _ => False

/-- what the scan and the clean-up need to know about quote-like runes -/
structure QuoteLike (E : Env) (Q : Rune → Bool) : Prop where
  notLetter : ∀ r, Q r = true → E.isLetter r = false
  notDigit : ∀ r, Q r = true → E.isDigit r = false
  notSpace : ∀ r, Q r = true → E.isSpace r = false
  noPunct : ∀ r, Q r = true → E.punct r = none
  lowerFix : ∀ r, Q r = true → E.toLower r = r
  /-- `toLower` and the punctuation mapping never PRODUCE a quote-like rune from another rune -/
  lowerNotQ : ∀ r, Q r = false → Q (E.toLower r) = false
  punctNotQ : ∀ r rep, E.punct r = some rep → ∀ x ∈ rep, Q (E.toLower x) = false
  notSpecial : ∀ r, Q r = true → r ≠ 10 ∧ r ≠ 45 ∧ r ≠ 46 ∧ r ≠ 58 ∧ r ≠ 41 ∧ r ≠ 38 ∧ r ≠ 40 ∧ r ≠ 47 ∧ r ≠ 104 ∧ r ≠ 72
  /-- the remaining runes of the scheme words "https://" / "Https://" that `normalizeToken` looks
  for: 't', 'p', 's' (the environment is abstract, so "they are letters" is not available) -/
  notScheme : ∀ r, Q r = true → r ≠ 116 ∧ r ≠ 112 ∧ r ≠ 115

/-! ### one position -/

/-- two runes are equal or both quote-like -/
def QR (Q : Rune → Bool) (a b : Rune) : Prop := a = b ∨ (Q a = true ∧ Q b = true)

section
variable {Q : Rune → Bool}

theorem qeq_cons {a b : Rune} {as bs : List Rune} :
    QEq Q (a :: as) (b :: bs) ↔ QR Q a b ∧ QEq Q as bs := by
  simp [QEq, QR]

theorem qr_refl (a : Rune) : QR Q a a := Or.inl rfl

theorem qr_symm {a b : Rune} (h : QR Q a b) : QR Q b a := by
  rcases h with h | ⟨h1, h2⟩
  · exact Or.inl h.symm
  · exact Or.inr ⟨h2, h1⟩

/-- a test that fails on every quote-like rune does not tell related runes apart -/
theorem qr_test {f : Rune → Bool} (hf : ∀ r, Q r = true → f r = false) {a b : Rune}
    (h : QR Q a b) : f a = f b := by
  rcases h with h | ⟨h1, h2⟩
  · rw [h]
  · rw [hf a h1, hf b h2]

/-- a rune that is not quote-like is only related to itself -/
theorem qr_eq_iff {k : Rune} (hk : Q k = false) {a b : Rune} (h : QR Q a b) : a = k ↔ b = k := by
  rcases h with h | ⟨h1, h2⟩
  · rw [h]
  · constructor
    · intro e; rw [e, hk] at h1; cases h1
    · intro e; rw [e, hk] at h2; cases h2

theorem qr_left_nq {k b : Rune} (hk : Q k = false) (h : QR Q k b) : b = k := (qr_eq_iff hk h).1 rfl

theorem nq_of {k : Rune} (h : Q k = true → False) : Q k = false := by
  cases hq : Q k
  · rfl
  · exact (h hq).elim

/-! ### lists -/

theorem qeq_refl : ∀ l : List Rune, QEq Q l l
  | [] => trivial
  | a :: as => qeq_cons.2 ⟨qr_refl a, qeq_refl as⟩

theorem qeq_symm : ∀ {l l' : List Rune}, QEq Q l l' → QEq Q l' l
  | [], [], _ => trivial
  | a :: as, b :: bs, h => qeq_cons.2 ⟨qr_symm (qeq_cons.1 h).1, qeq_symm (qeq_cons.1 h).2⟩
  | [], _ :: _, h => by simp [QEq] at h
  | _ :: _, [], h => by simp [QEq] at h

theorem qeq_nil_iff {l l' : List Rune} (h : QEq Q l l') : l = [] ↔ l' = [] := by
  cases l <;> cases l' <;> simp [QEq] at h ⊢

theorem qeq_append : ∀ {a a' b b' : List Rune}, QEq Q a a' → QEq Q b b' → QEq Q (a ++ b) (a' ++ b')
  | [], [], _, _, _, hb => hb
  | x :: xs, y :: ys, _, _, ha, hb =>
    qeq_cons.2 ⟨(qeq_cons.1 ha).1, qeq_append (qeq_cons.1 ha).2 hb⟩
  | [], _ :: _, _, _, h, _ => by simp [QEq] at h
  | _ :: _, [], _, _, h, _ => by simp [QEq] at h

theorem qeq_map {f : Rune → Rune} (hf : ∀ a b, QR Q a b → QR Q (f a) (f b)) :
    ∀ {l l' : List Rune}, QEq Q l l' → QEq Q (l.map f) (l'.map f)
  | [], [], _ => trivial
  | x :: xs, y :: ys, h => qeq_cons.2 ⟨hf _ _ (qeq_cons.1 h).1, qeq_map hf (qeq_cons.1 h).2⟩
  | [], _ :: _, h => by simp [QEq] at h
  | _ :: _, [], h => by simp [QEq] at h

/-- related lists are both empty or end in related runes after related fronts -/
theorem qeq_snoc : ∀ {l l' : List Rune}, QEq Q l l' →
    (l = [] ∧ l' = []) ∨
      ∃ p e p' e', l = p ++ [e] ∧ l' = p' ++ [e'] ∧ QEq Q p p' ∧ QR Q e e'
  | [], [], _ => Or.inl ⟨rfl, rfl⟩
  | x :: xs, y :: ys, h => by
    obtain ⟨hxy, hr⟩ := qeq_cons.1 h
    rcases qeq_snoc hr with ⟨e1, e2⟩ | ⟨p, e, p', e', e1, e2, hp, he⟩
    · subst e1 e2
      exact Or.inr ⟨[], x, [], y, rfl, rfl, trivial, hxy⟩
    · subst e1 e2
      exact Or.inr ⟨x :: p, e, y :: p', e', rfl, rfl, qeq_cons.2 ⟨hxy, hp⟩, he⟩
  | [], _ :: _, h => by simp [QEq] at h
  | _ :: _, [], h => by simp [QEq] at h

theorem qeq_dropLast {l l' : List Rune} (h : QEq Q l l') : QEq Q l.dropLast l'.dropLast := by
  rcases qeq_snoc h with ⟨e1, e2⟩ | ⟨p, e, p', e', e1, e2, hp, he⟩
  · subst e1 e2; trivial
  · subst e1 e2; simpa using hp

theorem qeq_filter {f : Rune → Bool} (hf : ∀ r, Q r = true → f r = false) :
    ∀ {l l' : List Rune}, QEq Q l l' → l.filter f = l'.filter f
  | [], [], _ => rfl
  | x :: xs, y :: ys, h => by
    obtain ⟨hxy, hr⟩ := qeq_cons.1 h
    rw [List.filter_cons, List.filter_cons, qr_test hf hxy, qeq_filter hf hr]
    rcases hxy with e | ⟨h1, h2⟩
    · rw [e]
    · rw [hf y h2]; rfl
  | [], _ :: _, h => by simp [QEq] at h
  | _ :: _, [], h => by simp [QEq] at h

theorem qeq_all {f : Rune → Bool} (hf : ∀ r, Q r = true → f r = false) :
    ∀ {l l' : List Rune}, QEq Q l l' → l.all f = l'.all f
  | [], [], _ => rfl
  | x :: xs, y :: ys, h => by
    obtain ⟨hxy, hr⟩ := qeq_cons.1 h
    rw [List.all_cons, List.all_cons, qr_test hf hxy, qeq_all hf hr]
  | [], _ :: _, h => by simp [QEq] at h
  | _ :: _, [], h => by simp [QEq] at h

/-- a prefix without quote-like runes is shared -/
theorem qeq_prefix_nq : ∀ (k : List Rune), (∀ x ∈ k, Q x = false) → ∀ {r l' : List Rune},
    QEq Q (k ++ r) l' → ∃ r', l' = k ++ r' ∧ QEq Q r r'
  | [], _, r, l', h => ⟨l', rfl, h⟩
  | x :: k, hk, r, [], h => by simp [QEq] at h
  | x :: k, hk, r, y :: l', h => by
    obtain ⟨hxy, hr⟩ := qeq_cons.1 h
    have hy : y = x := qr_left_nq (hk x (by simp)) hxy
    obtain ⟨r', e, hr'⟩ := qeq_prefix_nq k (fun z hz => hk z (by simp [hz])) hr
    exact ⟨r', by rw [hy, e]; rfl, hr'⟩

end

/-! ### the scheme rewrite -/

section
variable {E : Env} {Q : Rune → Bool}

theorem QuoteLike.nq10 (hQ : QuoteLike E Q) : Q 10 = false := nq_of fun h => (hQ.notSpecial _ h).1 rfl
theorem QuoteLike.nq45 (hQ : QuoteLike E Q) : Q 45 = false := nq_of fun h => (hQ.notSpecial _ h).2.1 rfl
theorem QuoteLike.nq46 (hQ : QuoteLike E Q) : Q 46 = false := nq_of fun h => (hQ.notSpecial _ h).2.2.1 rfl
theorem QuoteLike.nq58 (hQ : QuoteLike E Q) : Q 58 = false := nq_of fun h => (hQ.notSpecial _ h).2.2.2.1 rfl
theorem QuoteLike.nq41 (hQ : QuoteLike E Q) : Q 41 = false := nq_of fun h => (hQ.notSpecial _ h).2.2.2.2.1 rfl
theorem QuoteLike.nq38 (hQ : QuoteLike E Q) : Q 38 = false := nq_of fun h => (hQ.notSpecial _ h).2.2.2.2.2.1 rfl
theorem QuoteLike.nq40 (hQ : QuoteLike E Q) : Q 40 = false := nq_of fun h => (hQ.notSpecial _ h).2.2.2.2.2.2.1 rfl
theorem QuoteLike.nq47 (hQ : QuoteLike E Q) : Q 47 = false := nq_of fun h => (hQ.notSpecial _ h).2.2.2.2.2.2.2.1 rfl
theorem QuoteLike.nq104 (hQ : QuoteLike E Q) : Q 104 = false := nq_of fun h => (hQ.notSpecial _ h).2.2.2.2.2.2.2.2.1 rfl
theorem QuoteLike.nq72 (hQ : QuoteLike E Q) : Q 72 = false := nq_of fun h => (hQ.notSpecial _ h).2.2.2.2.2.2.2.2.2 rfl
theorem QuoteLike.nq116 (hQ : QuoteLike E Q) : Q 116 = false := nq_of fun h => (hQ.notScheme _ h).1 rfl
theorem QuoteLike.nq112 (hQ : QuoteLike E Q) : Q 112 = false := nq_of fun h => (hQ.notScheme _ h).2.1 rfl
theorem QuoteLike.nq115 (hQ : QuoteLike E Q) : Q 115 = false := nq_of fun h => (hQ.notScheme _ h).2.2 rfl

theorem QuoteLike.nq_https (hQ : QuoteLike E Q) :
    ∀ x ∈ [104, 116, 116, 112, 115, 58, 47, 47], Q x = false := by
  intro x hx
  simp only [List.mem_cons, List.not_mem_nil, or_false] at hx
  rcases hx with rfl | rfl | rfl | rfl | rfl | rfl | rfl | rfl
  · exact hQ.nq104
  · exact hQ.nq116
  · exact hQ.nq116
  · exact hQ.nq112
  · exact hQ.nq115
  · exact hQ.nq58
  · exact hQ.nq47
  · exact hQ.nq47

theorem QuoteLike.nq_Https (hQ : QuoteLike E Q) :
    ∀ x ∈ [72, 116, 116, 112, 115, 58, 47, 47], Q x = false := by
  intro x hx
  simp only [List.mem_cons, List.not_mem_nil, or_false] at hx
  rcases hx with rfl | rfl | rfl | rfl | rfl | rfl | rfl | rfl
  · exact hQ.nq72
  · exact hQ.nq116
  · exact hQ.nq116
  · exact hQ.nq112
  · exact hQ.nq115
  · exact hQ.nq58
  · exact hQ.nq47
  · exact hQ.nq47

theorem q_replaceHttps_match (rest : List Rune) :
    replaceHttps (104 :: 116 :: 116 :: 112 :: 115 :: 58 :: 47 :: 47 :: rest) =
      104 :: 116 :: 116 :: 112 :: 58 :: 47 :: 47 :: replaceHttps rest := by
  rw [replaceHttps]

theorem q_replaceHttps_nomatch (c : Rune) (l : List Rune)
    (h : ∀ rest, c :: l ≠ 104 :: 116 :: 116 :: 112 :: 115 :: 58 :: 47 :: 47 :: rest) :
    replaceHttps (c :: l) = c :: replaceHttps l := by
  rw [replaceHttps]
  intro rest e1 e2
  exact h rest (by rw [e1, e2])

theorem q_fixHttpsHead_nomatch (l : List Rune)
    (h : ∀ rest, l ≠ 72 :: 116 :: 116 :: 112 :: 115 :: 58 :: 47 :: 47 :: rest) :
    fixHttpsHead l = l := by
  rw [fixHttpsHead]
  intro rest e
  exact h rest e

theorem replaceHttps_qeq (hQ : QuoteLike E Q) (l : List Rune) :
    ∀ l', QEq Q l l' → QEq Q (replaceHttps l) (replaceHttps l') := by
  fun_induction replaceHttps l with
  | case1 rest ih =>
    intro l' h
    obtain ⟨r', e, hr⟩ := qeq_prefix_nq [104, 116, 116, 112, 115, 58, 47, 47] hQ.nq_https
      (r := rest) h
    subst e
    show QEq Q _ (replaceHttps (104 :: 116 :: 116 :: 112 :: 115 :: 58 :: 47 :: 47 :: r'))
    rw [q_replaceHttps_match]
    exact qeq_append (a := [104, 116, 116, 112, 58, 47, 47]) (a' := [104, 116, 116, 112, 58, 47, 47])
      (qeq_refl _) (ih r' hr)
  | case2 c rest hno ih =>
    intro l' h
    cases l' with
    | nil => simp [QEq] at h
    | cons c' rest' =>
      obtain ⟨hc, hr⟩ := qeq_cons.1 h
      rw [q_replaceHttps_nomatch c' rest']
      · exact qeq_cons.2 ⟨hc, ih rest' hr⟩
      · intro r' e
        rw [e] at h
        obtain ⟨r0, e0, _⟩ := qeq_prefix_nq [104, 116, 116, 112, 115, 58, 47, 47] hQ.nq_https
          (r := r') (qeq_symm h)
        simp only [List.cons_append, List.nil_append, List.cons.injEq] at e0
        obtain ⟨e1, e2⟩ := e0
        exact hno r0 e1 e2
  | case3 =>
    intro l' h
    cases l' with
    | nil => trivial
    | cons _ _ => simp [QEq] at h

theorem fixHttpsHead_qeq (hQ : QuoteLike E Q) (l : List Rune) :
    ∀ l', QEq Q l l' → QEq Q (fixHttpsHead l) (fixHttpsHead l') := by
  fun_cases fixHttpsHead l with
  | case1 rest =>
    intro l' h
    obtain ⟨r', e, hr⟩ := qeq_prefix_nq [72, 116, 116, 112, 115, 58, 47, 47] hQ.nq_Https
      (r := rest) h
    subst e
    show QEq Q _ (fixHttpsHead (72 :: 116 :: 116 :: 112 :: 115 :: 58 :: 47 :: 47 :: r'))
    rw [fixHttpsHead]
    exact qeq_append (a := [72, 116, 116, 112, 58, 47, 47]) (a' := [72, 116, 116, 112, 58, 47, 47])
      (qeq_refl _) hr
  | case2 =>
    rename_i hno
    intro l' h
    rw [q_fixHttpsHead_nomatch l']
    · exact h
    · intro r' e
      rw [e] at h
      obtain ⟨r0, e0, _⟩ := qeq_prefix_nq [72, 116, 116, 112, 115, 58, 47, 47] hQ.nq_Https
        (r := r') (qeq_symm h)
      exact hno r0 e0

theorem flushWord_qeq (hQ : QuoteLike E Q)
    (hU : ∀ w w', QEq Q w w' → QEq Q (E.unescape w) (E.unescape w'))
    {w w' : List Rune} (h : QEq Q w w') : QEq Q (flushWord E w) (flushWord E w') :=
  replaceHttps_qeq hQ _ _ (fixHttpsHead_qeq hQ _ _ (hU _ _ h))

end

/-! ### clean-up -/

section
variable {E : Env} {Q : Rune → Bool}

theorem q_header_nil : header E [] = false := rfl

theorem q_header_concat (p : List Rune) (e : Rune) :
    header E (p ++ [e]) =
      if e = 46 ∨ e = 58 ∨ e = 41 then
        (if E.listMarker (p.map E.toLower) ∧ e ≠ 41 then true
         else p.all (fun r => E.isDigit r || r = 46))
      else false := by
  simp [header]

theorem toLower_qr (hQ : QuoteLike E Q) (a b : Rune) (h : QR Q a b) : QR Q (E.toLower a) (E.toLower b) := by
  rcases h with h | ⟨h1, h2⟩
  · rw [h]; exact qr_refl _
  · rw [hQ.lowerFix a h1, hQ.lowerFix b h2]; exact Or.inr ⟨h1, h2⟩

theorem header_qeq (hQ : QuoteLike E Q)
    (hM : ∀ w w', QEq Q w w' → E.listMarker w = E.listMarker w')
    {w w' : List Rune} (h : QEq Q w w') : header E w = header E w' := by
  rcases qeq_snoc h with ⟨e1, e2⟩ | ⟨p, e, p', e', e1, e2, hp, he⟩
  · subst e1 e2; rfl
  · subst e1 e2
    rw [q_header_concat, q_header_concat]
    have h46 := qr_eq_iff hQ.nq46 he
    have h58 := qr_eq_iff hQ.nq58 he
    have h41 := qr_eq_iff hQ.nq41 he
    have hm : E.listMarker (p.map E.toLower) = E.listMarker (p'.map E.toLower) :=
      hM _ _ (qeq_map (toLower_qr hQ) hp)
    have ha : p.all (fun r => E.isDigit r || r = 46) = p'.all (fun r => E.isDigit r || r = 46) := by
      apply qeq_all _ hp
      intro r hr
      have := hQ.notDigit r hr
      have h2 : r ≠ 46 := (hQ.notSpecial r hr).2.2.1
      simp [this, h2]
    have h41' : (e ≠ 41) ↔ (e' ≠ 41) := not_congr h41
    simp only [h46, h58, h41, h41', hm, ha]

theorem cleanupToken_qeq (hQ : QuoteLike E Q)
    (hM : ∀ w w', QEq Q w w' → E.listMarker w = E.listMarker w')
    (pos : Nat) (n : Bool) {w w' : List Rune} (h : QEq Q w w') :
    cleanupToken E pos w n = cleanupToken E pos w' n := by
  have hh := header_qeq hQ hM h
  have hr : QR Q (w.headD runeError) (w'.headD runeError) := by
    cases w <;> cases w' <;> simp [QEq] at h
    · exact qr_refl _
    · exact h.1
  have hl := qr_test (f := E.isLetter) hQ.notLetter hr
  have hd := qr_test (f := E.isDigit) hQ.notDigit hr
  have hf1 : w.filter (fun c => E.isDigit c || c = 46 || c = 45) =
      w'.filter (fun c => E.isDigit c || c = 46 || c = 45) := by
    apply qeq_filter _ h
    intro r hr
    have := hQ.notDigit r hr
    have h2 : r ≠ 46 := (hQ.notSpecial r hr).2.2.1
    have h3 : r ≠ 45 := (hQ.notSpecial r hr).2.1
    simp [this, h2, h3]
  have hf2 : w.filter E.isLetter = w'.filter E.isLetter := qeq_filter hQ.notLetter h
  simp only [cleanupToken, hh, hl, hd, hf1, hf2]

/-! ### lines -/

/-- word-by-word quote-equivalence of line buffers -/
def LEq (Q : Rune → Bool) : List Word → List Word → Prop
  | [], [] => True
  | a :: as, b :: bs => QEq Q a b ∧ LEq Q as bs
  | _, _ => False

theorem leq_cons {a b : Word} {as bs : List Word} :
    LEq Q (a :: as) (b :: bs) ↔ QEq Q a b ∧ LEq Q as bs := by
  simp [LEq]

theorem leq_nil_iff {l l' : List Word} (h : LEq Q l l') : l = [] ↔ l' = [] := by
  cases l <;> cases l' <;> simp [LEq] at h ⊢

theorem leq_snoc : ∀ {l l' : List Word} {w w' : Word}, LEq Q l l' → QEq Q w w' →
    LEq Q (l ++ [w]) (l' ++ [w'])
  | [], [], _, _, _, hw => leq_cons.2 ⟨hw, trivial⟩
  | x :: xs, y :: ys, _, _, h, hw => leq_cons.2 ⟨(leq_cons.1 h).1, leq_snoc (leq_cons.1 h).2 hw⟩
  | [], _ :: _, _, _, h, _ => by simp [LEq] at h
  | _ :: _, [], _, _, h, _ => by simp [LEq] at h

theorem joinLine_qeq : ∀ {l l' : List Word}, LEq Q l l' → QEq Q (joinLine l) (joinLine l')
  | [], [], _ => trivial
  | [w], [w'], h => (leq_cons.1 h).1
  | w :: v :: l, w' :: v' :: l', h => by
    show QEq Q (w ++ 32 :: joinLine (v :: l)) (w' ++ 32 :: joinLine (v' :: l'))
    exact qeq_append (leq_cons.1 h).1 (qeq_cons.2 ⟨qr_refl _, joinLine_qeq (leq_cons.1 h).2⟩)
  | [], _ :: _, h => by simp [LEq] at h
  | _ :: _, [], h => by simp [LEq] at h
  | [_], _ :: _ :: _, h => by simp [LEq] at h
  | _ :: _ :: _, [_], h => by simp [LEq] at h

theorem processLine_go_eq (hQ : QuoteLike E Q)
    (hM : ∀ w w', QEq Q w w' → E.listMarker w = E.listMarker w') (n : Bool) (line : Nat) :
    ∀ {l l' : List Word} (i : Nat), LEq Q l l' →
      processLine.go E n line l i = processLine.go E n line l' i
  | [], [], _, _ => rfl
  | w :: ws, w' :: ws', i, h => by
    obtain ⟨hw, hr⟩ := leq_cons.1 h
    simp only [processLine.go, cleanupToken_qeq hQ hM i n hw, processLine_go_eq hQ hM n line (i + 1) hr]
  | [], _ :: _, _, h => by simp [LEq] at h
  | _ :: _, [], _, h => by simp [LEq] at h

theorem appendLine_eq (hQ : QuoteLike E Q)
    (hI : ∀ l l', QEq Q l l' → E.ignorable l = E.ignorable l')
    (hM : ∀ w w', QEq Q w w' → E.listMarker w = E.listMarker w')
    (n : Bool) (d : Doc) (line : Nat) {l l' : List Word} (h : LEq Q l l') :
    appendLine E n d line l = appendLine E n d line l' := by
  have h0 : (l = []) = (l' = []) := propext (leq_nil_iff h)
  simp only [appendLine, processLine, h0, hI _ _ (joinLine_qeq h), processLine_go_eq hQ hM n line 0 h]

/-! ### the scan -/

/-- quote-equivalence of scanner states: same document so far -/
structure SEq (Q : Rune → Bool) (s s' : State) : Prop where
  obuf : QEq Q s.obuf s'.obuf
  linebuf : LEq Q s.linebuf s'.linebuf
  line : s.line = s'.line
  eol : s.deferredEOL = s'.deferredEOL
  dl : s.deferredLines = s'.deferredLines
  doc : s.doc = s'.doc

end

section
variable {E : Env} {Q : Rune → Bool}

theorem starter_qr (hQ : QuoteLike E Q) {r r' : Rune} (h : QR Q r r') : E.starter r = E.starter r' := by
  apply qr_test (f := E.starter) _ h
  intro x hx
  have h38 : x ≠ 38 := (hQ.notSpecial x hx).2.2.2.2.2.1
  have h40 : x ≠ 40 := (hQ.notSpecial x hx).2.2.2.2.2.2.1
  simp [Env.starter, hQ.notLetter x hx, hQ.notDigit x hx, h38, h40]

theorem startOrSkip_seq (hQ : QuoteLike E Q) (n : Bool) {s s' : State} {r r' : Rune}
    (hs : SEq Q s s') (hr : QR Q r r') :
    SEq Q (startOrSkip E n s r) (startOrSkip E n s' r') := by
  unfold startOrSkip
  rw [← starter_qr hQ hr]
  cases E.starter r
  · simpa using hs
  · refine ⟨?_, hs.linebuf, hs.line, hs.eol, hs.dl, hs.doc⟩
    cases n
    · exact qeq_cons.2 ⟨hr, trivial⟩
    · exact qeq_cons.2 ⟨toLower_qr hQ _ _ hr, trivial⟩

theorem ite_qeq {c c' : Prop} [Decidable c] [Decidable c'] (h : c ↔ c') {a a' b b' : List Rune}
    (ha : QEq Q a a') (hb : QEq Q b b') : QEq Q (if c then a else b) (if c' then a' else b') := by
  by_cases hc : c
  · rw [if_pos hc, if_pos (h.1 hc)]; exact ha
  · rw [if_neg hc, if_neg (mt h.2 hc)]; exact hb

theorem ite_leq {c c' : Prop} [Decidable c] [Decidable c'] (h : c ↔ c') {a a' b b' : List Word}
    (ha : LEq Q a a') (hb : LEq Q b b') : LEq Q (if c then a else b) (if c' then a' else b') := by
  by_cases hc : c
  · rw [if_pos hc, if_pos (h.1 hc)]; exact ha
  · rw [if_neg hc, if_neg (mt h.2 hc)]; exact hb

theorem step_seq (hQ : QuoteLike E Q)
    (hU : ∀ w w', QEq Q w w' → QEq Q (E.unescape w) (E.unescape w'))
    (hI : ∀ l l', QEq Q l l' → E.ignorable l = E.ignorable l')
    (hM : ∀ w w', QEq Q w w' → E.listMarker w = E.listMarker w')
    (n : Bool) {s s' : State} {r r' : Rune}
    (hs : SEq Q s s') (hr : QR Q r r') :
    SEq Q (step E n s r) (step E n s' r') := by
  obtain ⟨ob, lb, ln, de, dl, dc⟩ := s
  obtain ⟨ob', lb', ln', de', dl', dc'⟩ := s'
  obtain ⟨ho, hl, hline, heol, hdl, hdoc⟩ := hs
  dsimp only at ho hl hline heol hdl hdoc
  subst hline heol hdl hdoc
  have hnl : (r = nl) ↔ (r' = nl) := qr_eq_iff hQ.nq10 hr
  have hon : (ob = []) ↔ (ob' = []) := qeq_nil_iff ho
  have hfl := flushWord_qeq hQ hU ho
  have hhy : (ob.getLast? = some hyphen) ↔ (ob'.getLast? = some hyphen) := by
    rcases qeq_snoc ho with ⟨e1, e2⟩ | ⟨p, e, p', e', e1, e2, hp, he⟩
    · rw [e1, e2]
    · rw [e1, e2]
      simpa [hyphen] using qr_eq_iff hQ.nq45 he
  have hsp : E.isSpace r = E.isSpace r' := qr_test hQ.notSpace hr
  unfold step
  dsimp only
  by_cases h1 : r = nl
  · have h1' := hnl.1 h1
    rw [if_pos h1, if_pos h1']
    by_cases h2 : ob ≠ [] ∧ ob.getLast? = some hyphen
    · have h2' : ob' ≠ [] ∧ ob'.getLast? = some hyphen := ⟨mt hon.2 h2.1, hhy.1 h2.2⟩
      rw [if_pos h2, if_pos h2']
      exact ⟨qeq_dropLast ho, hl, rfl, rfl, rfl, rfl⟩
    · have h2' : ¬ (ob' ≠ [] ∧ ob'.getLast? = some hyphen) :=
        fun h => h2 ⟨mt hon.1 h.1, hhy.2 h.2⟩
      rw [if_neg h2, if_neg h2']
      have hlb : LEq Q (if ob ≠ [] then lb ++ [flushWord E ob] else lb)
          (if ob' ≠ [] then lb' ++ [flushWord E ob'] else lb') :=
        ite_leq (not_congr hon) (leq_snoc hl hfl) hl
      refine ⟨ite_qeq (not_congr (leq_nil_iff hlb)) trivial ho, trivial, rfl, rfl, rfl, ?_⟩
      dsimp only
      rw [appendLine_eq hQ hI hM n dc ln hlb]
  · have h1' := mt hnl.2 h1
    rw [if_neg h1, if_neg h1']
    by_cases h3 : ob = []
    · rw [if_pos h3, if_pos (hon.1 h3)]
      exact startOrSkip_seq hQ n ⟨ho, hl, rfl, rfl, rfl, rfl⟩ hr
    · rw [if_neg h3, if_neg (mt hon.2 h3), ← hsp]
      cases E.isSpace r
      · simp only [Bool.false_eq_true, if_false]
        rcases hr with rfl | ⟨q1, q2⟩
        · cases E.punct r <;> cases de <;>
            exact ⟨qeq_append ho (qeq_refl _), hl, rfl, rfl, rfl, rfl⟩
        · rw [hQ.noPunct r q1, hQ.noPunct r' q2]
          cases de <;>
            exact ⟨qeq_append ho (qeq_cons.2 ⟨toLower_qr hQ _ _ (Or.inr ⟨q1, q2⟩), trivial⟩),
              hl, rfl, rfl, rfl, rfl⟩
      · simp only [if_true]
        cases de
        · simp only [Bool.false_eq_true, if_false]
          apply startOrSkip_seq hQ n _ hr
          by_cases h4 : dl > 0
          · rw [if_pos h4, if_pos h4]
            refine ⟨trivial, trivial, rfl, rfl, rfl, ?_⟩
            dsimp only
            rw [appendLine_eq hQ hI hM n dc ln (leq_snoc hl hfl)]
          · rw [if_neg h4, if_neg h4]
            exact ⟨trivial, leq_snoc hl hfl, rfl, rfl, rfl, rfl⟩
        · simp only [if_true]
          exact ⟨ho, hl, rfl, rfl, rfl, rfl⟩

theorem finish_eq (hQ : QuoteLike E Q)
    (hU : ∀ w w', QEq Q w w' → QEq Q (E.unescape w) (E.unescape w'))
    (hI : ∀ l l', QEq Q l l' → E.ignorable l = E.ignorable l')
    (hM : ∀ w w', QEq Q w w' → E.listMarker w = E.listMarker w')
    (n : Bool) {s s' : State} (hs : SEq Q s s') : finish E n s = finish E n s' := by
  unfold finish
  dsimp only
  rw [← hs.doc, ← hs.line]
  exact appendLine_eq hQ hI hM n _ _
    (ite_leq (not_congr (qeq_nil_iff hs.obuf)) (leq_snoc hs.linebuf (flushWord_qeq hQ hU hs.obuf)) hs.linebuf)

theorem foldl_seq (hQ : QuoteLike E Q)
    (hU : ∀ w w', QEq Q w w' → QEq Q (E.unescape w) (E.unescape w'))
    (hI : ∀ l l', QEq Q l l' → E.ignorable l = E.ignorable l')
    (hM : ∀ w w', QEq Q w w' → E.listMarker w = E.listMarker w')
    (n : Bool) : ∀ {rs rs' : List Rune} {s s' : State}, QEq Q rs rs' → SEq Q s s' →
      SEq Q (rs.foldl (step E n) s) (rs'.foldl (step E n) s')
  | [], [], _, _, _, hs => hs
  | r :: rs, r' :: rs', _, _, h, hs =>
    foldl_seq hQ hU hI hM n (rs := rs) (rs' := rs') (qeq_cons.1 h).2 (step_seq hQ hU hI hM n hs (qeq_cons.1 h).1)
  | [], _ :: _, _, _, h, _ => by simp [QEq] at h
  | _ :: _, [], _, _, h, _ => by simp [QEq] at h

/-- related words without any quote-like rune are equal (the hypothesis `hX` of the main theorem
is this fact) -/
theorem qeq_eq_of_noQ : ∀ {w w' : List Rune}, QEq Q w w' → w.all (fun r => !Q r) = true → w = w'
  | [], [], _, _ => rfl
  | a :: as, b :: bs, h, hn => by
    obtain ⟨hab, hr⟩ := qeq_cons.1 h
    simp only [List.all_cons, Bool.and_eq_true, Bool.not_eq_true'] at hn
    rcases hab with e | ⟨h1, _⟩
    · rw [e, qeq_eq_of_noQ hr hn.2]
    · rw [hn.1] at h1; cases h1
  | [], _ :: _, h, _ => by simp [QEq] at h
  | _ :: _, [], h, _ => by simp [QEq] at h

end

theorem quotes_invariant' (E : Env) (Q : Rune → Bool) (hQ : QuoteLike E Q)
    (hU : ∀ w w', QEq Q w w' → QEq Q (E.unescape w) (E.unescape w'))
    (hI : ∀ l l', QEq Q l l' → E.ignorable l = E.ignorable l')
    (hM : ∀ w w', QEq Q w w' → E.listMarker w = E.listMarker w')
    (_hX : ∀ w w', QEq Q w w' → w.all (fun r => !Q r) = true → w = w')
    (n : Bool) (rs rs' : List Rune) (h : QEq Q rs rs') :
    tokenizeRunes E n rs = tokenizeRunes E n rs' := by
  unfold tokenizeRunes scanRunes
  exact finish_eq hQ hU hI hM n
    (foldl_seq hQ hU hI hM n h ⟨trivial, trivial, rfl, rfl, rfl, rfl⟩)

/-! ### a concrete instance (non-vacuity of the hypotheses) -/

/-- the six quote characters of the clause: '"', '\'', U+2018, U+2019, U+201C, U+201D -/
def quoteRune (r : Nat) : Bool :=
  r == 34 || r == 39 || r == 0x2018 || r == 0x2019 || r == 0x201C || r == 0x201D

/-- a small honest environment (ASCII letters and digits, blank/tab/CR/LF as white space, no tables,
identity entity decoder) in which the six quote characters are `QuoteLike`: the hypotheses of
`quotes_invariant` are jointly satisfiable -/
def toyEnv : Env where
  isLetter r := (65 ≤ r && r ≤ 90) || (97 ≤ r && r ≤ 122)
  isDigit r := 48 ≤ r && r ≤ 57
  isSpace r := r == 32 || r == 9 || r == 10 || r == 13
  toLower r := if 65 ≤ r ∧ r ≤ 90 then r + 32 else r
  punct _ := none
  unescape w := w
  ignorable _ := false
  listMarker _ := false
  interchangeable _ := none

theorem quoteRune_cases {r : Rune} (h : quoteRune r = true) :
    r = 34 ∨ r = 39 ∨ r = 0x2018 ∨ r = 0x2019 ∨ r = 0x201C ∨ r = 0x201D := by
  simpa [quoteRune, or_assoc] using h

theorem quoteRune_upper (r : Nat) (h : 65 ≤ r ∧ r ≤ 90) : quoteRune (r + 32) = false := by
  simp only [quoteRune, Bool.or_eq_false_iff, beq_eq_false_iff_ne]
  refine ⟨⟨⟨⟨⟨?_, ?_⟩, ?_⟩, ?_⟩, ?_⟩, ?_⟩ <;> omega

theorem toyEnv_quoteLike : QuoteLike toyEnv quoteRune where
  notLetter r h := by rcases quoteRune_cases h with rfl | rfl | rfl | rfl | rfl | rfl <;> decide
  notDigit r h := by rcases quoteRune_cases h with rfl | rfl | rfl | rfl | rfl | rfl <;> decide
  notSpace r h := by rcases quoteRune_cases h with rfl | rfl | rfl | rfl | rfl | rfl <;> decide
  noPunct _ _ := rfl
  lowerFix r h := by rcases quoteRune_cases h with rfl | rfl | rfl | rfl | rfl | rfl <;> decide
  lowerNotQ r h := by
    simp only [toyEnv]
    split
    · rename_i hr; exact quoteRune_upper r hr
    · exact h
  punctNotQ r rep h := by simp [toyEnv] at h
  notSpecial r h := by rcases quoteRune_cases h with rfl | rfl | rfl | rfl | rfl | rfl <;> decide
  notScheme r h := by rcases quoteRune_cases h with rfl | rfl | rfl | rfl | rfl | rfl <;> decide

end LC.V2Tok
