/- Helper lemmas for LC/Props/C20Sets.lean. -/
import LC.Model.Sets
namespace LC.Sets
variable {α : Type} [DecidableEq α]

theorem mem_put (s : S α) (e x : α) : x ∈ put s e ↔ x ∈ s ∨ x = e := by
  unfold put
  split
  · constructor
    · exact Or.inl
    · rintro (h | h)
      · exact h
      · subst h; assumption
  · simp

theorem nodup_put (s : S α) (e : α) (h : s.Nodup) : (put s e).Nodup := by
  unfold put
  split
  · exact h
  · rename_i hne
    rw [List.nodup_append]
    refine ⟨h, by simp, ?_⟩
    intro a ha b hb
    simp at hb
    subst hb
    intro hab; subst hab; exact hne ha

/-- conditional fold: the general workhorse -/
theorem fold_cond (p : α → Prop) [DecidablePred p] (l : List α) (acc : S α) (h : acc.Nodup) :
    (l.foldl (fun r e => if p e then put r e else r) acc).Nodup ∧
      ∀ x, x ∈ l.foldl (fun r e => if p e then put r e else r) acc ↔ x ∈ acc ∨ (x ∈ l ∧ p x) := by
  induction l generalizing acc with
  | nil => simp [h]
  | cons a l ih =>
    simp only [List.foldl_cons]
    by_cases hp : p a
    · simp only [hp, if_true]
      obtain ⟨h1, h2⟩ := ih (put acc a) (nodup_put acc a h)
      refine ⟨h1, fun x => ?_⟩
      rw [h2, mem_put, List.mem_cons]
      constructor
      · rintro ((h | h) | ⟨h, hx⟩)
        · exact Or.inl h
        · subst h; exact Or.inr ⟨Or.inl rfl, hp⟩
        · exact Or.inr ⟨Or.inr h, hx⟩
      · rintro (h | ⟨h | h, hx⟩)
        · exact Or.inl (Or.inl h)
        · exact Or.inl (Or.inr h)
        · exact Or.inr ⟨h, hx⟩
    · simp only [hp, if_false]
      obtain ⟨h1, h2⟩ := ih acc h
      refine ⟨h1, fun x => ?_⟩
      rw [h2, List.mem_cons]
      constructor
      · rintro (h | ⟨h, hx⟩)
        · exact Or.inl h
        · exact Or.inr ⟨Or.inr h, hx⟩
      · rintro (h | ⟨h | h, hx⟩)
        · exact Or.inl h
        · subst h; exact absurd hx hp
        · exact Or.inr ⟨h, hx⟩

theorem fold_put (l : List α) (acc : S α) (h : acc.Nodup) :
    (l.foldl put acc).Nodup ∧ ∀ x, x ∈ l.foldl put acc ↔ x ∈ acc ∨ x ∈ l := by
  have := fold_cond (fun _ : α => True) l acc h
  simpa using this

theorem fold_ncond (p : α → Prop) [DecidablePred p] (l : List α) (acc : S α) (h : acc.Nodup) :
    (l.foldl (fun r e => if p e then r else put r e) acc).Nodup ∧
      ∀ x, x ∈ l.foldl (fun r e => if p e then r else put r e) acc ↔ x ∈ acc ∨ (x ∈ l ∧ ¬ p x) := by
  have := fold_cond (fun e => ¬ p e) l acc h
  simpa only [ite_not] using this

omit [DecidableEq α] in
theorem mem_enum (en : Enum α) (l : List α) (x : α) : x ∈ en.f l ↔ x ∈ l :=
  (en.perm l).mem_iff

theorem insert_spec' (s : S α) (es : List α) (h : WF s) :
    WF (insert s es) ∧ ∀ x, x ∈ insert s es ↔ x ∈ s ∨ x ∈ es :=
  fold_put es s h

theorem new_spec' (es : List α) : WF (new es) ∧ ∀ x, x ∈ new es ↔ x ∈ es := by
  have := insert_spec' ([] : S α) es List.nodup_nil
  simpa [new] using this

theorem delete_spec' (s : S α) (es : List α) (h : WF s) :
    WF (delete s es) ∧ ∀ x, x ∈ delete s es ↔ x ∈ s ∧ x ∉ es := by
  unfold delete
  induction es generalizing s with
  | nil => simpa using h
  | cons a l ih =>
    simp only [List.foldl_cons]
    have h' : WF (s.erase a) := List.Nodup.erase a h
    obtain ⟨h1, h2⟩ := ih (s.erase a) h'
    refine ⟨h1, fun x => ?_⟩
    rw [h2, List.Nodup.mem_erase_iff h, List.mem_cons]
    constructor
    · rintro ⟨⟨hne, hs⟩, hl⟩
      exact ⟨hs, fun hh => hh.elim hne hl⟩
    · rintro ⟨hs, hn⟩
      exact ⟨⟨fun hh => hn (Or.inl hh), hs⟩, fun hh => hn (Or.inr hh)⟩

theorem copy_spec' (en : Enum α) (s : Option (S α)) (h : WFo s) :
    WF (copy en s) ∧ ∀ x, x ∈ copy en s ↔ memo x s := by
  cases s with
  | none => simp [copy, WF, memo]
  | some s =>
    obtain ⟨h1, h2⟩ := fold_put (en.f s) [] List.nodup_nil
    refine ⟨h1, fun x => ?_⟩
    show x ∈ (en.f s).foldl put [] ↔ x ∈ s
    rw [h2, mem_enum]; simp

theorem intersect_spec' (en : Enum α) (s : S α) (o : Option (S α)) (_hs : WF s) (_ho : WFo o) :
    WF (intersect en s o) ∧ ∀ x, x ∈ intersect en s o ↔ x ∈ s ∧ memo x o := by
  cases o with
  | none => simp [intersect, WF, memo]
  | some o =>
    simp only [intersect, memo]
    by_cases hlt : o.length < s.length
    · simp only [hlt, if_true]
      obtain ⟨h1, h2⟩ := fold_cond (fun e => e ∈ s) (en.f o) [] List.nodup_nil
      refine ⟨h1, fun x => ?_⟩
      rw [h2, mem_enum]; simp [and_comm]
    · simp only [hlt, if_false]
      obtain ⟨h1, h2⟩ := fold_cond (fun e => e ∈ o) (en.f s) [] List.nodup_nil
      refine ⟨h1, fun x => ?_⟩
      rw [h2, mem_enum]; simp

theorem disjoint_spec' (en : Enum α) (s : S α) (o : Option (S α)) :
    disjoint en s o = true ↔ ∀ x, ¬ (x ∈ s ∧ memo x o) := by
  cases o with
  | none => simp [disjoint, memo]
  | some o =>
    simp only [disjoint, memo]
    by_cases h0 : o.length = 0 ∨ s.length = 0
    · simp only [h0, if_true, true_iff]
      rcases h0 with h0 | h0
      · have := List.eq_nil_of_length_eq_zero h0; subst this; simp
      · have := List.eq_nil_of_length_eq_zero h0; subst this; simp
    · simp only [h0, if_false]
      by_cases hlt : o.length < s.length
      · simp only [hlt, if_true, Bool.not_eq_true', List.any_eq_false, decide_eq_true_eq,
          mem_enum]
        constructor
        · intro h x hx; exact h x hx.2 hx.1
        · intro h x hxo hxs; exact h x ⟨hxs, hxo⟩
      · simp only [hlt, if_false, Bool.not_eq_true', List.any_eq_false, decide_eq_true_eq,
          mem_enum]
        constructor
        · intro h x hx; exact h x hx.1 hx.2
        · intro h x hxs hxo; exact h x ⟨hxs, hxo⟩

theorem difference_spec' (en : Enum α) (s : S α) (o : Option (S α)) (hs : WF s) :
    WF (difference en s o) ∧ ∀ x, x ∈ difference en s o ↔ x ∈ s ∧ ¬ memo x o := by
  cases o with
  | none =>
    have := copy_spec' en (some s) hs
    simpa [difference, memo] using this
  | some o =>
    simp only [difference, memo]
    obtain ⟨h1, h2⟩ := fold_ncond (fun e => e ∈ o) (en.f s) [] List.nodup_nil
    refine ⟨h1, fun x => ?_⟩
    rw [h2, mem_enum]; simp

theorem unique_spec' (en : Enum α) (s : S α) (o : Option (S α)) (hs : WF s) (ho : WFo o) :
    WF (unique en s o) ∧
      ∀ x, x ∈ unique en s o ↔ (x ∈ s ∧ ¬ memo x o) ∨ (memo x o ∧ x ∉ s) := by
  cases o with
  | none =>
    have := copy_spec' en (some s) hs
    simpa [unique, memo] using this
  | some o =>
    have hd1 := difference_spec' en s (some o) hs
    have hd2 := difference_spec' en o (some s) ho
    simp only [memo] at hd1 hd2 ⊢
    obtain ⟨h1, h2⟩ := fold_put (en.f (difference en o (some s))) (difference en s (some o)) hd1.1
    refine ⟨h1, fun x => ?_⟩
    show x ∈ (en.f (difference en o (some s))).foldl put (difference en s (some o)) ↔ _
    rw [h2, mem_enum, hd1.2, hd2.2]

theorem union_spec' (en : Enum α) (s : S α) (o : Option (S α)) (hs : WF s) (ho : WFo o) :
    WF (union en s o) ∧ ∀ x, x ∈ union en s o ↔ x ∈ s ∨ memo x o := by
  have hc := copy_spec' en (some s) hs
  cases o with
  | none => simpa [union, memo] using hc
  | some o =>
    simp only [memo] at hc ⊢
    obtain ⟨h1, h2⟩ := fold_put (en.f o) (copy en (some s)) hc.1
    refine ⟨h1, fun x => ?_⟩
    show x ∈ (en.f o).foldl put (copy en (some s)) ↔ _
    rw [h2, mem_enum, hc.2]

omit [DecidableEq α] in
theorem len_spec' (s o : S α) (hs : WF s) (ho : WF o) (h : ∀ x, x ∈ s ↔ x ∈ o) :
    len s = len o :=
  ((List.perm_ext_iff_of_nodup hs ho).2 h).length_eq

theorem equal_spec' (en : Enum α) (s o : S α) (hs : WF s) (ho : WF o) :
    equal en (some s) (some o) = true ↔ ∀ x, x ∈ s ↔ x ∈ o := by
  simp only [equal]
  by_cases hl : s.length = o.length
  · simp only [hl, ne_eq, not_true_eq_false, if_false, List.all_eq_true, decide_eq_true_eq,
      mem_enum]
    constructor
    · intro hsub
      intro x
      refine ⟨fun hx => hsub x hx, fun hxo => ?_⟩
      apply Classical.byContradiction
      intro hxs
      have hsub' : s ⊆ o.erase x := by
        intro y hy
        have hyx : y ≠ x := fun h => hxs (h ▸ hy)
        exact (List.mem_erase_of_ne hyx).2 (hsub y hy)
      have hle := List.Nodup.length_le_of_subset hs hsub'
      have hlen : (o.erase x).length = o.length - 1 := by rw [List.length_erase]; simp [hxo]
      have hpos : 1 ≤ o.length := List.length_pos_of_mem hxo
      omega
    · intro h x hx; exact (h x).1 hx
  · simp only [ne_eq, hl, not_false_eq_true, if_true, Bool.false_eq_true, false_iff]
    intro h
    exact hl (len_spec' s o hs ho h)

omit [DecidableEq α] in
theorem elements_spec' (en : Enum α) (s : S α) (hs : WF s) :
    (elements en s).Nodup ∧ ∀ x, x ∈ elements en s ↔ x ∈ s :=
  ⟨(en.perm s).nodup_iff.2 hs, fun x => mem_enum en s x⟩

end LC.Sets
