/- Helper lemmas for LC/Props/C11.lean. TO BE PROVED (no sorry may remain). -/
import LC.Model.V2Tok
import LC.Spec.TokSpec
namespace LC.V2Tok
open LC.Utf8
end LC.V2Tok
