/-
Helper lemmas for LC/Props/C11.lean: the output loop of `Normalize` (`render`)
puts the words of line k on output line k, and the non-normalizing tokenizer
produces token lists of the shape `render` needs.
Core Lean only.
-/
import LC.Model.V2Tok
import LC.Spec.TokSpec
namespace LC.V2Tok
open LC.Utf8

/-! ### splitLines -/

theorem splitLines_ne_nil (rs : List Rune) : splitLines rs ≠ [] := by
  cases rs with
  | nil => simp [splitLines]
  | cons c rs =>
    simp only [splitLines, List.foldr_cons]
    split
    · simp
    · split <;> simp

theorem splitLines_nl (rs : List Rune) : splitLines (nl :: rs) = [] :: splitLines rs := by
  simp [splitLines]

theorem splitLines_cons (c : Rune) (rs : List Rune) (h : c ≠ nl) :
    splitLines (c :: rs) = (c :: (splitLines rs).headD []) :: (splitLines rs).tail := by
  simp only [splitLines, List.foldr_cons, if_neg h]
  generalize List.foldr _ _ rs = l
  cases l <;> simp

theorem splitLines_append (w rs : List Rune) (h : nl ∉ w) :
    splitLines (w ++ rs) = (w ++ (splitLines rs).headD []) :: (splitLines rs).tail := by
  induction w with
  | nil =>
    have := splitLines_ne_nil rs
    cases hs : splitLines rs with
    | nil => exact absurd hs this
    | cons a l => simp [hs]
  | cons c w ih =>
    have hc : c ≠ nl := fun e => h (by simp [e])
    have hw : nl ∉ w := fun e => h (by simp [e])
    rw [List.cons_append, splitLines_cons _ _ hc, ih hw]
    simp

theorem getD_succ_tail (l : List (List Rune)) (j : Nat) : l.getD (j + 1) [] = l.tail.getD j [] := by
  cases l <;> simp

theorem getD_zero_headD (l : List (List Rune)) : l.getD 0 [] = l.headD [] := by
  cases l <;> simp

/-! ### words of a line -/

/-- the words that follow the first word of a line, each preceded by a blank -/
def contWords : List Word → List Rune
  | [] => []
  | w :: ws => 32 :: (w ++ contWords ws)

theorem joinBlank_cons (w : Word) (ws : List Word) : joinBlank (w :: ws) = w ++ contWords ws := by
  induction ws generalizing w with
  | nil => simp [joinBlank, contWords]
  | cons v vs ih =>
    show w ++ 32 :: joinBlank (v :: vs) = _
    rw [ih]; simp [contWords]

theorem wordsOnLine_cons (t : Tok) (ts : List Tok) (k : Nat) :
    wordsOnLine (t :: ts) k =
      if t.line = k ∧ t.word ≠ [nl] then t.word :: wordsOnLine ts k else wordsOnLine ts k := by
  simp only [wordsOnLine, List.filter_cons]
  by_cases h : t.line = k ∧ t.word ≠ [nl]
  · simp [h]
  · rw [if_neg h, if_neg]
    simpa using h

theorem stepOne_le {p : Nat} {ts : List Tok} (h : StepOne p ts) : ∀ t ∈ ts, p ≤ t.line := by
  induction ts generalizing p with
  | nil => simp
  | cons a ts ih =>
    intro t ht
    obtain ⟨h1, h2⟩ := h
    rcases List.mem_cons.1 ht with rfl | ht
    · omega
    · have := ih h2 t ht; omega

theorem wordsOnLine_nil {ts : List Tok} {k : Nat} (h : ∀ t ∈ ts, k < t.line) :
    wordsOnLine ts k = [] := by
  simp only [wordsOnLine, List.map_eq_nil_iff, List.filter_eq_nil_iff]
  intro t ht
  have := h t ht
  simp; omega

theorem eolLast_tail {a : Tok} {ts : List Tok} (h : EolLast (a :: ts)) : EolLast ts := by
  cases ts with
  | nil => trivial
  | cons b ts => exact h.2

/-- the token after an EOL token is on a strictly later line (what holds on hyphenated inputs,
where the line counter can advance by more than one) -/
def EolLastLt : List Tok → Prop
  | a :: b :: ts => (a.word = [nl] → a.line < b.line) ∧ EolLastLt (b :: ts)
  | _ => True

theorem eolLastLt_tail {a : Tok} {ts : List Tok} (h : EolLastLt (a :: ts)) : EolLastLt ts := by
  cases ts with
  | nil => trivial
  | cons b ts => exact h.2

theorem eolLast_lt {ts : List Tok} (h : EolLast ts) : EolLastLt ts := by
  induction ts with
  | nil => trivial
  | cons a ts ih =>
    cases ts with
    | nil => trivial
    | cons b ts => exact ⟨fun ha => by have := h.1 ha; omega, ih h.2⟩

theorem stepOne_mono {p : Nat} {ts : List Tok} (h : StepOne p ts) : Mono p ts := by
  induction ts generalizing p with
  | nil => trivial
  | cons a ts ih => exact ⟨by have := h.1; omega, ih h.2⟩

theorem mono_le {p : Nat} {ts : List Tok} (h : Mono p ts) : ∀ t ∈ ts, p ≤ t.line := by
  induction ts generalizing p with
  | nil => simp
  | cons a ts ih =>
    intro t ht
    obtain ⟨h1, h2⟩ := h
    rcases List.mem_cons.1 ht with rfl | ht
    · exact h1
    · have := ih h2 t ht; omega

/-- after an EOL token the remaining tokens are on later lines -/
theorem eol_next {a : Tok} {ts : List Tok} (h : EolLastLt (a :: ts)) (ha : a.word = [nl])
    (hs : Mono a.line ts) : ∀ t ∈ ts, a.line < t.line := by
  cases ts with
  | nil => simp
  | cons b ts =>
    have hb := h.1 ha
    intro t ht
    rcases List.mem_cons.1 ht with rfl | ht
    · exact hb
    · have := mono_le hs.2 t ht; omega

/-! ### the output loop -/

theorem renderLoop_cons (prev : Nat) (t : Tok) (ts : List Tok) :
    renderLoop prev (t :: ts) =
      List.replicate (t.line - prev) nl ++
      (if t.word ≠ [nl] then (if t.line = prev then [32] else []) ++ t.word else []) ++
      renderLoop t.line ts := rfl

theorem splitLines_replicate (d : Nat) (rs : List Rune) :
    splitLines (List.replicate d nl ++ rs) = List.replicate d [] ++ splitLines rs := by
  induction d with
  | zero => simp
  | succ d ih => rw [List.replicate_succ, List.cons_append, splitLines_nl, ih]; rfl

theorem getD_replicate_append (d j : Nat) (L : List (List Rune)) :
    (List.replicate d ([] : List Rune) ++ L).getD j [] = if j < d then [] else L.getD (j - d) [] := by
  induction d generalizing j with
  | zero => simp
  | succ d ih =>
    cases j with
    | zero => simp [List.replicate_succ]
    | succ j =>
      rw [List.replicate_succ, List.cons_append, List.getD_cons_succ, ih]
      simp only [Nat.add_lt_add_iff_right, Nat.add_sub_add_right]

/-- The first output line of `renderLoop prev ts` continues line `prev`; the output line `j + 1`
holds the words of line `prev + 1 + j`.  Token lines may advance by any amount (`Mono`): the loop
writes one newline per line passed. -/
theorem renderLoop_lines (ts : List Tok) : ∀ prev, Mono prev ts → EolLastLt ts →
    (∀ t ∈ ts, t.word = [nl] ∨ nl ∉ t.word) →
    (splitLines (renderLoop prev ts)).headD [] = contWords (wordsOnLine ts prev) ∧
    ∀ j, (splitLines (renderLoop prev ts)).tail.getD j [] =
      joinBlank (wordsOnLine ts (prev + 1 + j)) := by
  induction ts with
  | nil =>
    intro prev _ _ _
    simp [renderLoop, splitLines, wordsOnLine, contWords, joinBlank]
  | cons t ts ih =>
    intro prev hs he hw
    obtain ⟨hl, hs'⟩ := hs
    have he' := eolLastLt_tail he
    have hw' : ∀ t ∈ ts, t.word = [nl] ∨ nl ∉ t.word := fun u hu => hw u (by simp [hu])
    obtain ⟨ih0, ihj⟩ := ih t.line hs' he' hw'
    have hge := mono_le hs'
    rw [renderLoop_cons]
    by_cases hl : t.line = prev
    · -- same line
      have hd : t.line - prev = 0 := by omega
      rw [hd, List.replicate_zero, List.nil_append]
      replace ih0 : (splitLines (renderLoop t.line ts)).headD [] = contWords (wordsOnLine ts prev) :=
        hl ▸ ih0
      replace ihj : ∀ j, (splitLines (renderLoop t.line ts)).tail.getD j [] =
          joinBlank (wordsOnLine ts (prev + 1 + j)) := hl ▸ ihj
      by_cases hnl : t.word = [nl]
      · simp only [hnl, ne_eq, not_true_eq_false, if_false, List.nil_append]
        simp only [wordsOnLine_cons, hnl, ne_eq, not_true_eq_false, and_false, if_false]
        exact ⟨ih0, ihj⟩
      · have hnot : nl ∉ t.word := (hw t (by simp)).resolve_left hnl
        have hnot' : nl ∉ (32 :: t.word) := by
          intro h
          rcases List.mem_cons.1 h with h | h
          · simp [nl] at h
          · exact hnot h
        rw [if_pos hnl, if_pos hl]
        simp only [List.singleton_append]
        rw [splitLines_append _ _ hnot']
        refine ⟨?_, ?_⟩
        · have : t.line = prev ∧ t.word ≠ [nl] := ⟨hl, hnl⟩
          simp only [List.headD_cons, wordsOnLine_cons, if_pos this, contWords, ih0, List.cons_append]
        · intro j
          have : ¬ (t.line = prev + 1 + j ∧ t.word ≠ [nl]) := by omega
          simp only [List.tail_cons, wordsOnLine_cons, if_neg this]
          exact ihj j
    · -- a later line: `d + 1` newlines first
      obtain ⟨d, hd⟩ : ∃ d, t.line = prev + (d + 1) := ⟨t.line - prev - 1, by omega⟩
      have hsub : t.line - prev = d + 1 := by omega
      have h0 : wordsOnLine (t :: ts) prev = [] := by
        apply wordsOnLine_nil
        intro u hu
        rcases List.mem_cons.1 hu with rfl | hu
        · omega
        · have := hge u hu; omega
      -- the words this token writes, and its line's words
      have hW : ∃ W, (if t.word ≠ [nl] then (if t.line = prev then [32] else []) ++ t.word else []) = W ∧
          nl ∉ W ∧ W ++ contWords (wordsOnLine ts t.line) = joinBlank (wordsOnLine (t :: ts) t.line) := by
        by_cases hnl : t.word = [nl]
        · have hlater := eol_next he hnl hs'
          have h1 : wordsOnLine ts t.line = [] := wordsOnLine_nil hlater
          refine ⟨[], by simp [hnl], by simp, ?_⟩
          have : ¬ (t.line = t.line ∧ t.word ≠ [nl]) := by simp [hnl]
          rw [wordsOnLine_cons, if_neg this, h1]
          simp [contWords, joinBlank]
        · have hnot : nl ∉ t.word := (hw t (by simp)).resolve_left hnl
          refine ⟨t.word, by rw [if_pos hnl, if_neg hl]; rfl, hnot, ?_⟩
          have : t.line = t.line ∧ t.word ≠ [nl] := ⟨rfl, hnl⟩
          rw [wordsOnLine_cons, if_pos this, joinBlank_cons]
      obtain ⟨W, hWe, hWn, hWj⟩ := hW
      rw [hWe, hsub, List.append_assoc, splitLines_replicate, splitLines_append _ _ hWn, ih0, hWj, h0]
      refine ⟨by simp [List.replicate_succ, contWords], ?_⟩
      intro j
      rw [List.replicate_succ, List.cons_append, List.tail_cons, getD_replicate_append]
      by_cases hj : j < d
      · rw [if_pos hj]
        have : wordsOnLine (t :: ts) (prev + 1 + j) = [] := by
          apply wordsOnLine_nil
          intro u hu
          rcases List.mem_cons.1 hu with rfl | hu
          · omega
          · have := hge u hu; omega
        rw [this]; rfl
      · rw [if_neg hj]
        obtain ⟨i, hi⟩ : ∃ i, j = d + i := ⟨j - d, by omega⟩
        subst hi
        rw [Nat.add_sub_cancel_left]
        cases i with
        | zero =>
          rw [List.getD_cons_zero]
          congr 2; omega
        | succ i =>
          have : ¬ (t.line = prev + 1 + (d + (i + 1)) ∧ t.word ≠ [nl]) := by omega
          rw [List.getD_cons_succ, ihj i, wordsOnLine_cons, if_neg this]
          congr 2; omega

/-- for two or more tokens, `render` is `renderLoop 0` without its first newline -/
theorem render_eq_loop (t t2 : Tok) (ts : List Tok) (h : 1 ≤ t.line) :
    nl :: render (t :: t2 :: ts) = renderLoop 0 (t :: t2 :: ts) := by
  have hr : render (t :: t2 :: ts) =
      List.replicate (t.line - 1) nl ++ (if t.word ≠ [nl] then t.word else []) ++
        renderLoop t.line (t2 :: ts) := rfl
  have h0 : ¬ t.line = 0 := by omega
  have hd : t.line - 0 = (t.line - 1) + 1 := by omega
  rw [hr, renderLoop_cons 0 t, hd, List.replicate_succ, if_neg h0]
  simp

/-- `render_lines` for token lists whose lines start at 1 or later and never decrease (`Mono`), an
EOL token being followed by a token of a strictly later line (`EolLastLt`). -/
theorem render_lines_mono' (toks : List Tok) (h2 : 2 ≤ toks.length) (hs : Mono 1 toks)
    (he : EolLastLt toks)
    (hw : ∀ t ∈ toks, t.word = [nl] ∨ (nl ∉ t.word ∧ t.word ≠ []))
    (k : Nat) (hk : 1 ≤ k) :
    (splitLines (render toks)).getD (k - 1) [] = joinBlank (wordsOnLine toks k) := by
  match toks, h2 with
  | t :: t2 :: ts, _ =>
    have hs0 : Mono 0 (t :: t2 :: ts) := ⟨Nat.zero_le _, hs.2⟩
    have hw' : ∀ u ∈ t :: t2 :: ts, u.word = [nl] ∨ nl ∉ u.word := fun u hu =>
      (hw u hu).imp id And.left
    have rj := (renderLoop_lines (t :: t2 :: ts) 0 hs0 he hw').2 (k - 1)
    rw [← render_eq_loop t t2 ts hs.1, splitLines_nl, List.tail_cons] at rj
    rw [rj]
    congr 2; omega

/-- ADJUSTED: two extra hypotheses `h1`, `he`; counterexamples in LC/Props/C11.lean.
(`_h1` is not needed any more since `render` writes the newlines up to the first token's line.) -/
theorem render_lines' (toks : List Tok) (h2 : 2 ≤ toks.length) (hs : StepOne 1 toks)
    (_h1 : ∀ t, toks.head? = some t → t.line = 1) (he : EolLast toks)
    (hw : ∀ t ∈ toks, t.word = [nl] ∨ (nl ∉ t.word ∧ t.word ≠ []))
    (k : Nat) (hk : 1 ≤ k) :
    (splitLines (render toks)).getD (k - 1) [] = joinBlank (wordsOnLine toks k) :=
  render_lines_mono' toks h2 (stepOne_mono hs) (eolLast_lt he) hw k hk

/-! ### the tokenizer's token lists -/

/-- Shape of a token list, relative to a predicate `q` marking end-of-line tokens: a token is on
the line of its predecessor or on the next one, and on the next one if the predecessor is marked
(`e`: the predecessor is marked, or there is none). -/
def LineShape (q : Tok → Bool) : Nat → Bool → List Tok → Prop
  | _, _, [] => True
  | p, e, t :: ts => (t.line = p + 1 ∨ (e = false ∧ t.line = p)) ∧ LineShape q t.line (q t) ts

def endLine : Nat → List Tok → Nat
  | p, [] => p
  | _, t :: ts => endLine t.line ts

def endFlag (q : Tok → Bool) : Bool → List Tok → Bool
  | e, [] => e
  | _, t :: ts => endFlag q (q t) ts

theorem endLine_append (p : Nat) (l1 l2 : List Tok) :
    endLine p (l1 ++ l2) = endLine (endLine p l1) l2 := by
  induction l1 generalizing p with
  | nil => rfl
  | cons t l1 ih => exact ih t.line

theorem good_append (q : Tok → Bool) (p : Nat) (e : Bool) (l1 l2 : List Tok)
    (h1 : LineShape q p e l1) (h2 : LineShape q (endLine p l1) (endFlag q e l1) l2) :
    LineShape q p e (l1 ++ l2) := by
  induction l1 generalizing p e with
  | nil => exact h2
  | cons t l1 ih => exact ⟨h1.1, ih t.line (q t) h1.2 h2⟩

/-- a block of unmarked tokens of one line -/
theorem good_block (q : Tok → Bool) (L : Nat) (ts : List Tok)
    (hb : ∀ t ∈ ts, t.line = L ∧ q t = false) (p : Nat) (e : Bool)
    (hp : p + 1 = L ∨ (e = false ∧ p = L)) : LineShape q p e ts := by
  induction ts generalizing p e with
  | nil => trivial
  | cons t ts ih =>
    obtain ⟨hl, hq⟩ := hb t (by simp)
    refine ⟨?_, ih (fun u hu => hb u (by simp [hu])) t.line (q t) (Or.inr ⟨hq, hl⟩)⟩
    rcases hp with hp | hp
    · left; omega
    · right; exact ⟨hp.1, by omega⟩

theorem block_end (q : Tok → Bool) (L : Nat) (ts : List Tok)
    (hb : ∀ t ∈ ts, t.line = L ∧ q t = false) (hne : ts ≠ []) (p : Nat) (e : Bool) :
    endLine p ts = L ∧ endFlag q e ts = false := by
  induction ts generalizing p e with
  | nil => exact absurd rfl hne
  | cons t ts ih =>
    cases ts with
    | nil => exact hb t (by simp)
    | cons u us => exact ih (fun v hv => hb v (by simp [hv])) (by simp) t.line (q t)

/-- a block of line `L`, then a token of line `L`, after a token list that ends on line `L - 1` -/
theorem good_line (q : Tok → Bool) (toks blk : List Tok) (x : Tok) (L : Nat)
    (hg : LineShape q 0 true toks) (hend : endLine 0 toks + 1 = L)
    (hb : ∀ t ∈ blk, t.line = L ∧ q t = false) (hx : x.line = L) :
    LineShape q 0 true (toks ++ blk ++ [x]) ∧ endLine 0 (toks ++ blk ++ [x]) = L := by
  refine ⟨?_, ?_⟩
  · rw [List.append_assoc]
    apply good_append _ _ _ _ _ hg
    by_cases hne : blk = []
    · subst hne
      exact ⟨Or.inl (by omega), trivial⟩
    · apply good_append _ _ _ _ _ (good_block q L blk hb _ _ (Or.inl hend))
      obtain ⟨h1, h2⟩ := block_end q L blk hb hne (endLine 0 toks) (endFlag q true toks)
      rw [h1, h2]
      exact ⟨Or.inr ⟨rfl, hx⟩, trivial⟩
  · rw [endLine_append]; exact hx

theorem good_tail (q : Tok → Bool) (toks blk : List Tok) (L : Nat)
    (hg : LineShape q 0 true toks) (hend : endLine 0 toks + 1 = L)
    (hb : ∀ t ∈ blk, t.line = L ∧ q t = false) : LineShape q 0 true (toks ++ blk) :=
  good_append _ _ _ _ _ hg (good_block q L blk hb _ _ (Or.inl hend))

theorem good_stepOne (q : Tok → Bool) (p : Nat) (e : Bool) (ts : List Tok) (h : LineShape q p e ts) :
    StepOne p ts := by
  induction ts generalizing p e with
  | nil => trivial
  | cons t ts ih =>
    refine ⟨?_, ih _ _ h.2⟩
    rcases h.1 with h | h
    · exact Or.inr h
    · exact Or.inl h.2

theorem good_first (q : Tok → Bool) (ts : List Tok) (h : LineShape q 0 true ts) :
    StepOne 1 ts ∧ ∀ t, ts.head? = some t → t.line = 1 := by
  cases ts with
  | nil => exact ⟨trivial, by simp⟩
  | cons t ts =>
    have ht : t.line = 1 := by
      rcases h.1 with h | h
      · omega
      · exact absurd h.1 (by simp)
    refine ⟨⟨Or.inl ht, good_stepOne q _ _ ts h.2⟩, ?_⟩
    intro u hu
    simp at hu
    rw [← hu]; exact ht

theorem good_eolLast (p : Nat) (e : Bool) (ts : List Tok)
    (h : LineShape (fun t => t.word == [nl]) p e ts) : EolLast ts := by
  induction ts generalizing p e with
  | nil => trivial
  | cons a ts ih =>
    cases ts with
    | nil => trivial
    | cons b ts =>
      refine ⟨?_, ih _ _ h.2⟩
      intro ha
      rcases h.2.1 with h | h
      · exact h
      · simp [ha] at h

/-! ### what the scan appends to the token list -/

/-- a token produced from a buffered line `l` (non-normalizing mode) -/
def LineTok (E : Env) (l : Nat) (t : Tok) : Prop :=
  t.line = l ∧ t.word ≠ [] ∧ ∃ i w, t.word = cleanupToken E i w false

theorem processLine_go_tok (E : Env) (l : Nat) (ws : List Word) (i : Nat) :
    ∀ t ∈ processLine.go E false l ws i, LineTok E l t := by
  induction ws generalizing i with
  | nil => simp [processLine.go]
  | cons w ws ih =>
    intro t ht
    simp only [processLine.go] at ht
    split at ht
    · exact ih _ t ht
    · rcases List.mem_cons.1 ht with rfl | ht
      · exact ⟨rfl, by assumption, i, w, rfl⟩
      · exact ih _ t ht

theorem appendLine_toks (E : Env) (d : Doc) (l : Nat) (lb : List Word) :
    ∃ blk, (appendLine E false d l lb).toks = d.toks ++ blk ∧ ∀ t ∈ blk, LineTok E l t := by
  unfold appendLine
  split
  · exact ⟨[], by simp, by simp⟩
  · split
    · exact ⟨[], by simp, by simp⟩
    · rename_i ts hts
      refine ⟨ts, rfl, ?_⟩
      unfold processLine at hts
      split at hts
      · exact absurd hts (by simp)
      · injection hts with hts
        subst hts
        exact processLine_go_tok E l lb 0

theorem step_nl_toks (E : Env) (s : State)
    (h : ¬ (s.obuf ≠ [] ∧ s.obuf.getLast? = some hyphen)) :
    ∃ blk, (step E false s nl).doc.toks = s.doc.toks ++ blk ++ [⟨[nl], s.line⟩] ∧
      (∀ t ∈ blk, LineTok E s.line t) ∧
      (step E false s nl).line =
        s.line + 1 + (if s.deferredEOL = true then 1 else 0) + s.deferredLines := by
  obtain ⟨blk, hb, hp⟩ := appendLine_toks E s.doc s.line
    (if s.obuf ≠ [] then s.linebuf ++ [flushWord E s.obuf] else s.linebuf)
  refine ⟨blk, ?_, hp, ?_⟩
  · unfold step
    rw [if_pos rfl, if_neg h]
    simp only [Bool.false_eq_true, if_false]
    rw [hb, List.append_assoc]
  · unfold step
    rw [if_pos rfl, if_neg h]

theorem step_nl_hyphen (E : Env) (s : State)
    (h : s.obuf ≠ [] ∧ s.obuf.getLast? = some hyphen) :
    (step E false s nl).deferredEOL = true := by
  unfold step
  rw [if_pos rfl, if_pos h]

theorem step_other_doc (E : Env) (s : State) (r : Rune) (hr : r ≠ nl) (hd : s.deferredLines = 0) :
    (step E false s r).doc = s.doc ∧ (step E false s r).line = s.line := by
  unfold step
  rw [if_neg hr]
  simp only [startOrSkip, hd]
  repeat' split
  all_goals simp_all

theorem finish_toks (E : Env) (s : State) :
    ∃ blk, (finish E false s).toks = s.doc.toks ++ blk ∧ ∀ t ∈ blk, LineTok E s.line t :=
  appendLine_toks E s.doc s.line _

/-! ### the scan invariant -/

def ShapeInv (q : Tok → Bool) (s : State) : Prop :=
  LineShape q 0 true s.doc.toks ∧ endLine 0 s.doc.toks + 1 = s.line

theorem shape_step_inv (E : Env) (q : Tok → Bool) (hq : ∀ l t, LineTok E l t → q t = false)
    (s : State) (r : Rune) (hi : ShapeInv q s) (hde : s.deferredEOL = false)
    (hd : s.deferredLines = 0)
    (hd' : (step E false s r).deferredEOL = false) : ShapeInv q (step E false s r) := by
  by_cases hr : r = nl
  · subst hr
    by_cases h : s.obuf ≠ [] ∧ s.obuf.getLast? = some hyphen
    · rw [step_nl_hyphen E s h] at hd'
      exact absurd hd' (by simp)
    · obtain ⟨blk, ht, hb, hl⟩ := step_nl_toks E s h
      have := good_line q s.doc.toks blk ⟨[nl], s.line⟩ s.line hi.1 hi.2
        (fun t ht => ⟨(hb t ht).1, hq _ t (hb t ht)⟩) rfl
      unfold ShapeInv
      rw [ht, hl, hd, hde]
      exact ⟨this.1, by rw [this.2]; simp⟩
  · obtain ⟨h1, h2⟩ := step_other_doc E s r hr hd
    unfold ShapeInv
    rw [h1, h2]
    exact hi

theorem shape_scan_inv (E : Env) (q : Tok → Bool) (hq : ∀ l t, LineTok E l t → q t = false)
    (rs : List Rune) : ∀ s, ShapeInv q s →
    (∀ p, p <+: rs → (p.foldl (step E false) s).deferredEOL = false ∧
      (p.foldl (step E false) s).deferredLines = 0) →
    ShapeInv q (rs.foldl (step E false) s) := by
  induction rs with
  | nil => intro s hi _; exact hi
  | cons r rs ih =>
    intro s hi hn
    have h0 := hn [] (List.nil_prefix)
    have h1 := hn [r] (by simp [List.cons_prefix_cons])
    simp only [List.foldl_nil, List.foldl_cons] at h0 h1
    apply ih (step E false s r) (shape_step_inv E q hq s r hi h0.1 h0.2 h1.1)
    intro p hp
    have := hn (r :: p) (by simpa [List.cons_prefix_cons] using hp)
    simpa using this

theorem tokenize_good (E : Env) (q : Tok → Bool) (hq : ∀ l t, LineTok E l t → q t = false)
    (rs : List Rune) (hn : NoDefer E rs) : LineShape q 0 true (tokenizeRunes E false rs).toks := by
  have hi : ShapeInv q (scanRunes E false rs) :=
    shape_scan_inv E q hq rs {} ⟨trivial, rfl⟩ (fun p hp => hn p hp)
  obtain ⟨blk, ht, hb⟩ := finish_toks E (scanRunes E false rs)
  unfold tokenizeRunes
  rw [ht]
  exact good_tail q _ blk _ hi.1 hi.2 (fun t ht => ⟨(hb t ht).1, hq _ t (hb t ht)⟩)

theorem tokenize_stepOne' (E : Env) (rs : List Rune) (hn : NoDefer E rs) :
    StepOne 1 (tokenizeRunes E false rs).toks :=
  (good_first _ _ (tokenize_good E (fun _ => false) (fun _ _ _ => rfl) rs hn)).1

/-- the first token of the non-normalizing tokenizer's output is on line 1 -/
theorem tokenize_first_line' (E : Env) (rs : List Rune) (hn : NoDefer E rs) :
    ∀ t, (tokenizeRunes E false rs).toks.head? = some t → t.line = 1 :=
  (good_first _ _ (tokenize_good E (fun _ => false) (fun _ _ _ => rfl) rs hn)).2

/-! ### words of the tokenizer's output (needs `EnvWF`: the newline is neither letter nor digit) -/

theorem nl_not_letter_digit {E : Env} (hE : EnvWF E) : E.isLetter nl = false ∧ E.isDigit nl = false := by
  have := hE.space_not_starter nl hE.nl_space
  simp only [Env.starter, Bool.or_eq_false_iff] at this
  exact ⟨this.1.1.1, this.1.1.2⟩

theorem nl_not_mem_cleanupToken {E : Env} (hE : EnvWF E) (i : Nat) (w : Word) :
    nl ∉ cleanupToken E i w false := by
  obtain ⟨hl, hd⟩ := nl_not_letter_digit hE
  unfold cleanupToken
  simp only
  split
  · simp
  · split
    · intro h
      unfold stripDots at h
      have h := (List.dropWhile_sublist _).subset (List.mem_reverse.1 h)
      have h := (List.mem_filter.1 (List.mem_reverse.1 h)).2
      have e1 : decide (nl = 46) = false := by decide
      have e2 : decide (nl = 45) = false := by decide
      simp [hd, e1, e2] at h
    · intro h
      simp only [Bool.false_eq_true, if_false] at h
      have h := (List.mem_filter.1 h).2
      simp [hl] at h

/-- every token is an EOL token or a non-empty word without newline -/
def WordOK (t : Tok) : Prop := t.word = [nl] ∨ (nl ∉ t.word ∧ t.word ≠ [])

theorem lineTok_ok {E : Env} (hE : EnvWF E) {l : Nat} {t : Tok} (h : LineTok E l t) :
    nl ∉ t.word ∧ t.word ≠ [] := by
  obtain ⟨_, hne, i, w, hw⟩ := h
  exact ⟨by rw [hw]; exact nl_not_mem_cleanupToken hE i w, hne⟩

theorem lineTok_not_eol {E : Env} (hE : EnvWF E) (l : Nat) (t : Tok) (h : LineTok E l t) :
    (t.word == [nl]) = false := by
  have := (lineTok_ok hE h).1
  cases hb : t.word == [nl]
  · rfl
  · rw [beq_iff_eq] at hb
    exact absurd (by rw [hb]; simp) this

theorem appendLine_ok {E : Env} (hE : EnvWF E) (d : Doc) (l : Nat) (lb : List Word)
    (h : ∀ t ∈ d.toks, WordOK t) : ∀ t ∈ (appendLine E false d l lb).toks, WordOK t := by
  obtain ⟨blk, hb, hp⟩ := appendLine_toks E d l lb
  rw [hb]
  intro t ht
  rcases List.mem_append.1 ht with ht | ht
  · exact h t ht
  · exact Or.inr (lineTok_ok hE (hp t ht))

theorem step_ok {E : Env} (hE : EnvWF E) (s : State) (r : Rune)
    (h : ∀ t ∈ s.doc.toks, WordOK t) : ∀ t ∈ (step E false s r).doc.toks, WordOK t := by
  by_cases hr : r = nl
  · subst hr
    by_cases hh : s.obuf ≠ [] ∧ s.obuf.getLast? = some hyphen
    · unfold step
      rw [if_pos rfl, if_pos hh]
      exact h
    · obtain ⟨blk, ht, hb, _⟩ := step_nl_toks E s hh
      rw [ht]
      intro t ht
      simp only [List.mem_append, List.mem_singleton] at ht
      rcases ht with (ht | ht) | ht
      · exact h t ht
      · exact Or.inr (lineTok_ok hE (hb t ht))
      · subst ht; exact Or.inl rfl
  · have ha := appendLine_ok hE s.doc s.line (s.linebuf ++ [flushWord E s.obuf]) h
    unfold step
    rw [if_neg hr]
    simp only [startOrSkip]
    repeat' split
    all_goals first | exact h | exact ha

theorem tokenize_words' {E : Env} (hE : EnvWF E) (rs : List Rune) :
    ∀ t ∈ (tokenizeRunes E false rs).toks, WordOK t := by
  have : ∀ (rs : List Rune) (s : State), (∀ t ∈ s.doc.toks, WordOK t) →
      ∀ t ∈ (rs.foldl (step E false) s).doc.toks, WordOK t := by
    intro rs
    induction rs with
    | nil => intro s h; exact h
    | cons r rs ih => intro s h; exact ih _ (step_ok hE s r h)
  exact appendLine_ok hE _ _ _ (this rs {} (by simp))

theorem tokenize_eol_last' {E : Env} (hE : EnvWF E) (rs : List Rune) (hn : NoDefer E rs) :
    EolLast (tokenizeRunes E false rs).toks :=
  good_eolLast _ _ _ (tokenize_good E _ (lineTok_not_eol hE) rs hn)

end LC.V2Tok
