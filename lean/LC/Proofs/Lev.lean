/- Helper lemmas for LC/Props/C02.lean. Core Lean only. -/
import LC.Model.Score
namespace LC.Score
open LC.Lev
variable {ω : Type} [DecidableEq ω]

/-! ### Unfolding equations for `lev` -/

theorem lev_nil_left (ys : List ω) : lev [] ys = ys.length := by
  rw [lev]

theorem lev_nil_right (xs : List ω) : lev xs [] = xs.length := by
  cases xs <;> simp [lev]

theorem lev_cons_cons (x y : ω) (xs ys : List ω) :
    lev (x :: xs) (y :: ys) =
      if x = y then lev xs ys
      else 1 + min (lev xs (y :: ys)) (min (lev (x :: xs) ys) (lev xs ys)) := by
  rw [lev]

theorem lev_cons_cons_self (x : ω) (xs ys : List ω) :
    lev (x :: xs) (x :: ys) = lev xs ys := by
  rw [lev_cons_cons, if_pos rfl]

/-! ### One-step bounds -/

/-- substitution (or match) of the two heads -/
theorem lev_cons_cons_le (x y : ω) (xs ys : List ω) :
    lev (x :: xs) (y :: ys) ≤ 1 + lev xs ys := by
  rw [lev_cons_cons]
  split
  · omega
  · have h1 := Nat.min_le_right (lev xs (y :: ys)) (min (lev (x :: xs) ys) (lev xs ys))
    have h2 := Nat.min_le_right (lev (x :: xs) ys) (lev xs ys)
    omega

/-- Step: if dropping a head on the right never gains more than 1 (for `xs`),
then deleting a head on the left costs at most 1. -/
theorem lev_del_of_ins_inv (xs : List ω)
    (h4 : ∀ (ys : List ω) (y : ω), lev xs ys ≤ 1 + lev xs (y :: ys)) :
    ∀ (ys : List ω) (x : ω), lev (x :: xs) ys ≤ 1 + lev xs ys := by
  intro ys x
  cases ys with
  | nil => rw [lev_nil_right, lev_nil_right]; simp; omega
  | cons y ys' =>
    rw [lev_cons_cons]
    split
    · next h => subst h; exact h4 ys' x
    · have h1 := Nat.min_le_left (lev xs (y :: ys')) (min (lev (x :: xs) ys') (lev xs ys'))
      omega

theorem lev_ins_inv_and_del (xs : List ω) :
    (∀ (ys : List ω) (y : ω), lev xs ys ≤ 1 + lev xs (y :: ys)) ∧
    (∀ (ys : List ω) (x : ω), lev (x :: xs) ys ≤ 1 + lev xs ys) := by
  induction xs with
  | nil =>
    have h4 : ∀ (ys : List ω) (y : ω), lev ([] : List ω) ys ≤ 1 + lev [] (y :: ys) := by
      intro ys y; rw [lev_nil_left, lev_nil_left]; simp; omega
    exact ⟨h4, lev_del_of_ins_inv [] h4⟩
  | cons x xs' ih =>
    obtain ⟨ih4, ih1⟩ := ih
    have h4 : ∀ (ys : List ω) (y : ω), lev (x :: xs') ys ≤ 1 + lev (x :: xs') (y :: ys) := by
      intro ys y
      rw [lev_cons_cons x y]
      split
      · have := ih1 ys x; omega
      · have a := ih1 ys x
        have b := ih4 ys y
        omega
    exact ⟨h4, lev_del_of_ins_inv (x :: xs') h4⟩

/-- deleting a head on the left costs at most 1 -/
theorem lev_cons_left_le (x : ω) (xs ys : List ω) : lev (x :: xs) ys ≤ 1 + lev xs ys :=
  (lev_ins_inv_and_del xs).2 ys x

/-- `lev` is symmetric -/
theorem lev_comm (xs ys : List ω) : lev xs ys = lev ys xs := by
  induction xs generalizing ys with
  | nil => rw [lev_nil_left, lev_nil_right]
  | cons x xs ih =>
    induction ys with
    | nil => rw [lev_nil_left, lev_nil_right]
    | cons y ys ih2 =>
      have e1 := ih (y :: ys)
      have e3 := ih ys
      rw [lev_cons_cons x y, lev_cons_cons y x]
      by_cases h : x = y
      · subst h; simp only [if_true]; exact e3
      · have h' : ¬ y = x := fun e => h e.symm
        rw [if_neg h, if_neg h']
        omega

/-- inserting a head on the right costs at most 1 -/
theorem lev_cons_right_le (y : ω) (xs ys : List ω) : lev xs (y :: ys) ≤ 1 + lev xs ys := by
  rw [lev_comm xs (y :: ys), lev_comm xs ys]
  exact lev_cons_left_le y ys xs

/-! ### Prefix lemmas -/

theorem lev_append_left_le (a u k : List ω) : lev (a ++ u) k ≤ a.length + lev u k := by
  induction a with
  | nil => simp
  | cons x a ih =>
    have := lev_cons_left_le x (a ++ u) k
    simp only [List.cons_append, List.length_cons]
    omega

theorem lev_append_right_le (b u k : List ω) : lev u (b ++ k) ≤ b.length + lev u k := by
  induction b with
  | nil => simp
  | cons y b ih =>
    have := lev_cons_right_le y u (b ++ k)
    simp only [List.cons_append, List.length_cons]
    omega

theorem lev_common_prefix (w u k : List ω) : lev (w ++ u) (w ++ k) = lev u k := by
  induction w with
  | nil => simp
  | cons x w ih => simp only [List.cons_append]; rw [lev_cons_cons_self, ih]

/-- block lemma: replacing a block `a` by a block `b` costs at most `max |a| |b|` -/
theorem lev_block_le (a b u k : List ω) :
    lev (a ++ u) (b ++ k) ≤ max a.length b.length + lev u k := by
  induction a generalizing b with
  | nil =>
    have := lev_append_right_le b u k
    simp only [List.nil_append, List.length_nil]
    omega
  | cons x a ih =>
    cases b with
    | nil =>
      have := lev_append_left_le (x :: a) u k
      simp only [List.nil_append, List.length_nil] at this ⊢
      omega
    | cons y b =>
      have h1 := lev_cons_cons_le x y (a ++ u) (b ++ k)
      have h2 := ih b
      simp only [List.cons_append, List.length_cons]
      omega

/-! ### `lev = 0` iff equal -/

theorem lev_self (a : List ω) : lev a a = 0 := by
  induction a with
  | nil => rw [lev_nil_left]; rfl
  | cons x a ih => rw [lev_cons_cons_self, ih]

theorem lev_eq_zero_iff' (a b : List ω) : lev a b = 0 ↔ a = b := by
  constructor
  · intro h
    induction a generalizing b with
    | nil =>
      rw [lev_nil_left] at h
      exact (List.eq_nil_of_length_eq_zero h).symm
    | cons x a ih =>
      cases b with
      | nil => rw [lev_nil_right] at h; simp at h
      | cons y b =>
        rw [lev_cons_cons] at h
        by_cases hxy : x = y
        · rw [if_pos hxy] at h
          rw [hxy, ih b h]
        · rw [if_neg hxy] at h; omega
  · intro h; subst h; exact lev_self a

/-! ### `levWord` bounds `lev` -/

omit [DecidableEq ω] in
theorem src_cons (d : Diff ω) (ds : List (Diff ω)) :
    src (d :: ds) = (if d.op = .ins then [] else d.words) ++ src ds := rfl

omit [DecidableEq ω] in
theorem dst_cons (d : Diff ω) (ds : List (Diff ω)) :
    dst (d :: ds) = (if d.op = .del then [] else d.words) ++ dst ds := rfl

theorem lev_le_levWordAux (ds : List (Diff ω)) :
    ∀ (l : Nat) (pd pi : List ω),
      l + lev (pd ++ src ds) (pi ++ dst ds) ≤ levWordAux ds l pi.length pd.length := by
  induction ds with
  | nil =>
    intro l pd pi
    have := lev_block_le pd pi ([] : List ω) []
    rw [lev_nil_left] at this
    simp only [src, dst, levWordAux]
    simp only [List.length_nil] at this
    omega
  | cons x xs ih =>
    intro l pd pi
    rw [src_cons, dst_cons]
    unfold levWordAux
    cases hop : x.op with
    | ins =>
      simp only [reduceCtorEq, if_true, if_false, List.nil_append]
      have := ih l pd (pi ++ x.words)
      rw [List.append_assoc, List.length_append] at this
      exact this
    | del =>
      simp only [reduceCtorEq, if_true, if_false, List.nil_append]
      have := ih l (pd ++ x.words) pi
      rw [List.append_assoc, List.length_append] at this
      exact this
    | eq =>
      simp only [reduceCtorEq, if_false]
      have h1 := ih (l + max pi.length pd.length) [] []
      simp only [List.nil_append, List.length_nil] at h1
      have h2 := lev_block_le pd pi (x.words ++ src xs) (x.words ++ dst xs)
      rw [lev_common_prefix] at h2
      omega

theorem lev_le_levWord' (ds : List (Diff ω)) : lev (src ds) (dst ds) ≤ levWord ds := by
  have := lev_le_levWordAux ds 0 [] []
  simpa [levWord] using this

/-! ### `src`/`dst`/`textLength` algebra -/

omit [DecidableEq ω] in
theorem src_append (a b : List (Diff ω)) : src (a ++ b) = src a ++ src b := by
  induction a with
  | nil => rfl
  | cons d a ih => simp only [List.cons_append, src_cons, ih, List.append_assoc]

omit [DecidableEq ω] in
theorem dst_append (a b : List (Diff ω)) : dst (a ++ b) = dst a ++ dst b := by
  induction a with
  | nil => rfl
  | cons d a ih => simp only [List.cons_append, dst_cons, ih, List.append_assoc]

omit [DecidableEq ω] in
/-- an all-delete script has empty `dst` and `textLength = |src|` -/
theorem allDel_dst_textLength (l : List (Diff ω)) (h : ∀ d ∈ l, d.op = .del) :
    dst l = [] ∧ textLength l = (src l).length := by
  induction l with
  | nil => exact ⟨rfl, rfl⟩
  | cons d l ih =>
    have hd : d.op = .del := h d (List.mem_cons_self ..)
    obtain ⟨h1, h2⟩ := ih (fun e he => h e (List.mem_cons_of_mem _ he))
    refine ⟨?_, ?_⟩
    · rw [dst_cons, h1, if_pos hd]; rfl
    · have : textLength (d :: l) = d.words.length + textLength l := by
        simp [textLength]
      rw [this, h2, src_cons, hd]
      simp

omit [DecidableEq ω] in
/-- a script of non-empty segments with empty `dst` consists of deletions only -/
theorem allDel_of_dst_nil (l : List (Diff ω)) (hne : ∀ d ∈ l, d.words ≠ [])
    (h : dst l = []) : ∀ d ∈ l, d.op = .del := by
  induction l with
  | nil => intro d hd; cases hd
  | cons e l ih =>
    rw [dst_cons] at h
    obtain ⟨h1, h2⟩ := List.append_eq_nil_iff.mp h
    have he : e.op = .del := by
      by_cases hop : e.op = .del
      · exact hop
      · rw [if_neg hop] at h1
        exact absurd h1 (hne e (List.mem_cons_self ..))
    intro d hd
    rcases List.mem_cons.mp hd with rfl | hd
    · exact he
    · exact ih (fun x hx => hne x (List.mem_cons_of_mem _ hx)) h2 d hd

/-! ### `diffRangeAux` invariants -/

theorem diffRangeAux_nil (known : List ω) (idx : Nat) (start : Option Nat) (seen : List ω) :
    diffRangeAux known [] idx start seen = (start.getD 0, idx) := rfl

theorem diffRangeAux_cons (known : List ω) (d : Diff ω) (ds : List (Diff ω)) (idx : Nat)
    (start : Option Nat) (seen : List ω) :
    diffRangeAux known (d :: ds) idx start seen =
      if seen ≠ [] ∧ seen = known then (start.getD 0, idx)
      else if d.op = .del then diffRangeAux known ds (idx + 1) start seen
      else diffRangeAux known ds (idx + 1) (some (start.getD idx)) (seen ++ d.words) := rfl

/-- the end index never goes backwards -/
theorem diffRangeAux_snd_ge (known : List ω) (ds : List (Diff ω)) :
    ∀ (idx : Nat) (start : Option Nat) (seen : List ω),
      idx ≤ (diffRangeAux known ds idx start seen).2 := by
  induction ds with
  | nil => intro idx start seen; rw [diffRangeAux_nil]; exact Nat.le_refl _
  | cons d ds ih =>
    intro idx start seen
    rw [diffRangeAux_cons]
    split
    · exact Nat.le_refl _
    · split
      · have := ih (idx + 1) start seen; omega
      · have := ih (idx + 1) (some (start.getD idx)) (seen ++ d.words); omega

/-- once a start index is recorded it is what is returned -/
theorem diffRangeAux_fst_some (known : List ω) (ds : List (Diff ω)) :
    ∀ (idx i : Nat) (seen : List ω),
      (diffRangeAux known ds idx (some i) seen).1 = i := by
  induction ds with
  | nil => intro idx i seen; rfl
  | cons d ds ih =>
    intro idx i seen
    rw [diffRangeAux_cons]
    split
    · rfl
    · split
      · exact ih _ _ _
      · exact ih _ _ _

/-- with no start recorded yet: the returned start is at most the returned end,
and everything before it is a deletion -/
theorem diffRangeAux_fst_none (known : List ω) (ds : List (Diff ω)) :
    ∀ (idx : Nat) (seen : List ω),
      (diffRangeAux known ds idx none seen).1 ≤ (diffRangeAux known ds idx none seen).2 ∧
      ∀ d ∈ ds.take ((diffRangeAux known ds idx none seen).1 - idx), d.op = .del := by
  induction ds with
  | nil =>
    intro idx seen
    rw [diffRangeAux_nil]
    exact ⟨Nat.zero_le _, by intro d hd; simp at hd⟩
  | cons e ds ih =>
    intro idx seen
    rw [diffRangeAux_cons]
    split
    · exact ⟨Nat.zero_le _, by intro d hd; simp at hd⟩
    · split
      · next hdel =>
        obtain ⟨h1, h2⟩ := ih (idx + 1) seen
        refine ⟨h1, ?_⟩
        intro d hd
        generalize (diffRangeAux known ds (idx + 1) none seen).1 = s at h2 hd
        by_cases hs : s - idx = 0
        · rw [hs] at hd; simp at hd
        · have : s - idx = (s - (idx + 1)) + 1 := by omega
          rw [this, List.take_succ_cons] at hd
          rcases List.mem_cons.mp hd with rfl | hd
          · exact hdel
          · exact h2 d hd
      · have hfst := diffRangeAux_fst_some known ds (idx + 1) idx (seen ++ e.words)
        have hge := diffRangeAux_snd_ge known ds (idx + 1) (some idx) (seen ++ e.words)
        simp only [Option.getD_none]
        refine ⟨by omega, ?_⟩
        rw [hfst, Nat.sub_self]
        intro d hd; simp at hd

/-- when the remaining script completes `seen` to `known` (non-empty segments),
everything from the returned end on is a deletion -/
theorem diffRangeAux_snd_allDel (known : List ω) (ds : List (Diff ω)) :
    ∀ (idx : Nat) (start : Option Nat) (seen : List ω),
      seen ++ dst ds = known → (∀ d ∈ ds, d.words ≠ []) →
      ∀ d ∈ ds.drop ((diffRangeAux known ds idx start seen).2 - idx), d.op = .del := by
  induction ds with
  | nil => intro idx start seen _ _ d hd; simp at hd
  | cons e ds ih =>
    intro idx start seen hk hne
    have hne' : ∀ d ∈ ds, d.words ≠ [] := fun x hx => hne x (List.mem_cons_of_mem _ hx)
    rw [diffRangeAux_cons]
    split
    · next hbr =>
      have hnil : dst (e :: ds) = [] := by
        have : seen ++ dst (e :: ds) = seen := by rw [hk]; exact hbr.2.symm
        exact List.append_right_eq_self.mp this
      simp only [Nat.sub_self, List.drop_zero]
      exact allDel_of_dst_nil (e :: ds) hne hnil
    · split
      · next hdel =>
        have hk' : seen ++ dst ds = known := by
          rw [dst_cons, if_pos hdel] at hk; exact hk
        have h := ih (idx + 1) start seen hk' hne'
        have hge := diffRangeAux_snd_ge known ds (idx + 1) start seen
        generalize (diffRangeAux known ds (idx + 1) start seen).2 = r at h hge
        have : r - idx = (r - (idx + 1)) + 1 := by omega
        rw [this, List.drop_succ_cons]
        exact h
      · next hdel =>
        have hk' : (seen ++ e.words) ++ dst ds = known := by
          rw [dst_cons, if_neg hdel] at hk; rw [List.append_assoc]; exact hk
        have h := ih (idx + 1) (some (start.getD idx)) (seen ++ e.words) hk' hne'
        have hge := diffRangeAux_snd_ge known ds (idx + 1) (some (start.getD idx)) (seen ++ e.words)
        generalize (diffRangeAux known ds (idx + 1) (some (start.getD idx)) (seen ++ e.words)).2 = r
          at h hge
        have : r - idx = (r - (idx + 1)) + 1 := by omega
        rw [this, List.drop_succ_cons]
        exact h

/-! ### Assembly -/

omit [DecidableEq ω] in
/-- the three-way split used by `scoreOffsets` -/
theorem score_split (A M B : List (Diff ω))
    (hA : ∀ d ∈ A, d.op = .del) (hB : ∀ d ∈ B, d.op = .del) :
    textLength A + textLength B ≤ (src (A ++ (M ++ B))).length ∧
    ((src (A ++ (M ++ B))).drop (textLength A)).take
        ((src (A ++ (M ++ B))).length - textLength A - textLength B) = src M ∧
    dst (A ++ (M ++ B)) = dst M := by
  obtain ⟨hA1, hA2⟩ := allDel_dst_textLength A hA
  obtain ⟨hB1, hB2⟩ := allDel_dst_textLength B hB
  rw [src_append, src_append, dst_append, dst_append, hA1, hB1, hA2, hB2]
  refine ⟨?_, ?_, ?_⟩
  · simp only [List.length_append]; omega
  · rw [List.drop_left]
    have : (src A ++ (src M ++ src B)).length - (src A).length - (src B).length
        = (src M).length := by
      simp only [List.length_append]; omega
    rw [this, List.take_left]
  · simp

theorem score_bound' (u k : List ω) (ds : List (Diff ω)) (hv : Valid ds u k) :
    (scoreOffsets k ds).2.1 + (scoreOffsets k ds).2.2 ≤ u.length ∧
    lev ((u.drop (scoreOffsets k ds).2.1).take
          (u.length - (scoreOffsets k ds).2.1 - (scoreOffsets k ds).2.2)) k
      ≤ (scoreOffsets k ds).1 := by
  obtain ⟨hsrc, hdst, hne⟩ := hv
  have hso : scoreOffsets k ds =
      (levWord ((ds.take (diffRange k ds).2).drop (diffRange k ds).1),
        textLength (ds.take (diffRange k ds).1), textLength (ds.drop (diffRange k ds).2)) := rfl
  have hle := (diffRangeAux_fst_none k ds 0 []).1
  have hA := (diffRangeAux_fst_none k ds 0 []).2
  have hB := diffRangeAux_snd_allDel k ds 0 none [] (by simpa using hdst) hne
  rw [hso]
  change (diffRange k ds).1 ≤ (diffRange k ds).2 at hle
  change ∀ d ∈ ds.take ((diffRange k ds).1 - 0), d.op = .del at hA
  change ∀ d ∈ ds.drop ((diffRange k ds).2 - 0), d.op = .del at hB
  rw [Nat.sub_zero] at hA hB
  generalize (diffRange k ds).1 = s at hle hA ⊢
  generalize (diffRange k ds).2 = e at hle hB ⊢
  have hds : ds.take s ++ ((ds.take e).drop s ++ ds.drop e) = ds := by
    have h1 : (ds.take e).take s = ds.take s := by
      rw [List.take_take, Nat.min_eq_left hle]
    have h2 : (ds.take e).take s ++ (ds.take e).drop s = ds.take e := List.take_append_drop _ _
    rw [← h1, ← List.append_assoc, h2, List.take_append_drop]
  obtain ⟨h1, h2, h3⟩ := score_split (ds.take s) ((ds.take e).drop s) (ds.drop e) hA hB
  rw [hds] at h1 h2 h3
  rw [hsrc] at h1 h2
  rw [hdst] at h3
  refine ⟨h1, ?_⟩
  simp only
  rw [h2, h3]
  exact lev_le_levWord' _

/-! ### Non-vacuity -/

theorem nonvacuous_example :
    let ds : List (Diff Nat) :=
      [⟨.del, [9]⟩, ⟨.eq, [1, 2]⟩, ⟨.del, [7]⟩, ⟨.ins, [3]⟩, ⟨.eq, [4]⟩, ⟨.del, [8]⟩]
    Valid ds [9, 1, 2, 7, 4, 8] [1, 2, 3, 4] ∧ scoreOffsets [1, 2, 3, 4] ds = (1, 1, 1) := by
  intro ds
  refine ⟨⟨by decide, by decide, by decide⟩, by decide⟩

end LC.Score
