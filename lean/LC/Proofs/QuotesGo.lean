/-
The quotes clause of C05 for the concrete Go environment `LC.V2Env.goEnv`: the six quote
characters are `QuoteLike` for the regenerated Unicode / tokenizer tables, and the list-marker table
does not tell quote-equivalent words apart.  Helper lemmas for LC/Props/C05Quotes.lean.
-/
import LC.Proofs.Quotes
import LC.Model.V2Env
import LC.Proofs.Tok

namespace LC.V2Tok
open LC.Utf8 LC.V2Env LC.Gen.Unicode

/-! ### the six quote characters -/

theorem quoteRune_false {x : Nat}
    (h : x ≠ 34 ∧ x ≠ 39 ∧ x ≠ 8216 ∧ x ≠ 8217 ∧ x ≠ 8220 ∧ x ≠ 8221) : quoteRune x = false := by
  obtain ⟨h1, h2, h3, h4, h5, h6⟩ := h
  simp [quoteRune, h1, h2, h3, h4, h5, h6]

/-! ### `toLower`: the image of a case range -/

/-- the binary search of `toLower` either leaves the rune alone or maps it through a table entry
whose source interval contains it -/
theorem toLower_go_sound (a : Array (Nat × Nat × Nat)) (r : Nat) (fuel : Nat) :
    ∀ lo hi, hi ≤ a.size →
      toLower.go r a lo hi fuel = r ∨
        ∃ p ∈ a.toList, p.1 ≤ r ∧ r ≤ p.2.1 ∧ toLower.go r a lo hi fuel = p.2.2 + (r - p.1) := by
  induction fuel with
  | zero => intro lo hi _; left; simp [toLower.go]
  | succ f ih =>
    intro lo hi hs
    unfold toLower.go
    by_cases hlt : lo < hi
    · simp only [hlt, if_true]
      have hm : (lo + hi) / 2 < a.size := by omega
      by_cases h1 : r < (a[(lo + hi) / 2]!).1
      · simp only [h1, if_true]
        exact ih _ _ (by omega)
      · simp only [h1, if_false]
        by_cases h2 : r > (a[(lo + hi) / 2]!).2.1
        · simp only [h2, if_true]
          exact ih _ _ hs
        · simp only [h2, if_false]
          right
          refine ⟨a[(lo + hi) / 2]!, ?_, by omega, by omega, rfl⟩
          rw [getElem!_pos a _ hm]
          exact Array.getElem_mem_toList hm
    · left; simp [hlt]

/-- no quote character lies in the image interval `[t, t + (hi - lo)]` of the range `(lo, hi, t)` -/
def imageAvoidsQuotes (p : Nat × Nat × Nat) : Bool :=
  [34, 39, 8216, 8217, 8220, 8221].all (fun q => decide (q < p.2.2) || decide (p.2.2 + (p.2.1 - p.1) < q))

theorem lowerImages_ok : lowerRanges.toList.all imageAvoidsQuotes = true := by decide +kernel

theorem toLower_cases (r : Nat) :
    LC.V2Env.toLower r = r ∨
      ∃ p, imageAvoidsQuotes p = true ∧ p.1 ≤ r ∧ r ≤ p.2.1 ∧ LC.V2Env.toLower r = p.2.2 + (r - p.1) := by
  rcases toLower_go_sound lowerRanges r 64 0 lowerRanges.size (Nat.le_refl _) with h | ⟨p, hp, h1, h2, h3⟩
  · exact Or.inl h
  · exact Or.inr ⟨p, (List.all_eq_true.mp lowerImages_ok) p hp, h1, h2, h3⟩

/-- `toLower` never produces a quote character from another rune -/
theorem toLower_notQuote (r : Nat) (h : quoteRune r = false) : quoteRune (LC.V2Env.toLower r) = false := by
  rcases toLower_cases r with e | ⟨p, hp, h1, h2, e⟩
  · rw [e]; exact h
  · rw [e]
    simp only [imageAvoidsQuotes, List.all_cons, List.all_nil, Bool.and_true, Bool.and_eq_true,
      Bool.or_eq_true, decide_eq_true_eq] at hp
    obtain ⟨q1, q2, q3, q4, q5, q6⟩ := hp
    apply quoteRune_false
    refine ⟨?_, ?_, ?_, ?_, ?_, ?_⟩ <;> omega

def lowerChecksQ : List (Nat × Nat × Option (Nat × Nat)) := [(8216, 8221, none)]

theorem lowerChecksQ_ok : uniformLowerAll lowerRanges lowerChecksQ = true := by decide +kernel

theorem toLower_id_quote (r : Nat) (h : 8216 ≤ r ∧ r ≤ 8221) : LC.V2Env.toLower r = r := by
  have h0 := lowerChecksQ_ok
  unfold uniformLowerAll at h0
  rw [List.all_eq_true] at h0
  have := h0 (8216, 8221, none) (by simp [lowerChecksQ])
  simp only [beq_iff_eq] at this
  exact uniformLower_sound lowerRanges 8216 8221 r h.1 h.2 none 64 0 lowerRanges.size this

/-! ### the punctuation table -/

theorem punct_some_cases (r : Nat) (rep : List Nat) (h : LC.V2Env.punct r = some rep) :
    rep = [32] ∨ rep = [45] ∨ rep = [40, 115, 41] ∨ rep = [40, 99, 41] := by
  unfold LC.V2Env.punct at h
  rw [Option.map_eq_some_iff] at h
  obtain ⟨a, ha, e⟩ := h
  have hm := List.mem_of_find?_eq_some ha
  subst e
  simp only [LC.Gen.V2.punctuationMappings, List.mem_cons, List.not_mem_nil, or_false] at hm
  rcases hm with e | e | e | e | e | e | e | e | e | e <;> subst e <;> simp

/-! ### `QuoteLike` for the Go tables -/

theorem quoteRune_range {r : Nat} (h : quoteRune r = true) :
    (r = 34 ∨ r = 39) ∨ (8216 ≤ r ∧ r ≤ 8221) := by
  rcases quoteRune_cases h with rfl | rfl | rfl | rfl | rfl | rfl <;> decide

theorem quote_notLetter (r : Nat) (h : quoteRune r = true) : LC.V2Env.isLetter r = false := by
  have := quoteRune_range h
  exact isLetter_false r (by omega)

theorem quote_notDigit (r : Nat) (h : quoteRune r = true) : LC.V2Env.isDigit r = false := by
  have := quoteRune_range h
  exact isDigit_false r (by omega)

theorem quote_notSpace (r : Nat) (h : quoteRune r = true) : LC.V2Env.isSpace r = false := by
  have := quoteRune_range h
  exact isSpace_false r (by omega)

theorem quote_noPunct (r : Nat) (h : quoteRune r = true) : LC.V2Env.punct r = none := by
  have := quoteRune_range h
  exact punct_none r (by omega)

theorem quote_lowerFix (r : Nat) (h : quoteRune r = true) : LC.V2Env.toLower r = r := by
  rcases quoteRune_range h with h | h
  · exact toLower_id r (by omega)
  · exact toLower_id_quote r h

theorem punct_notQuote (r : Nat) (rep : List Nat) (h : LC.V2Env.punct r = some rep) (x : Nat)
    (hx : x ∈ rep) : quoteRune (LC.V2Env.toLower x) = false := by
  have hx' : x = 32 ∨ x = 45 ∨ x = 40 ∨ x = 115 ∨ x = 41 ∨ x = 99 := by
    rcases punct_some_cases r rep h with e | e | e | e <;> subst e <;>
      simp only [List.mem_cons, List.not_mem_nil, or_false] at hx <;> omega
  rw [toLower_id x (by omega)]
  exact quoteRune_false (by omega)

theorem quote_notSpecial (r : Nat) (h : quoteRune r = true) :
    r ≠ 10 ∧ r ≠ 45 ∧ r ≠ 46 ∧ r ≠ 58 ∧ r ≠ 41 ∧ r ≠ 38 ∧ r ≠ 40 ∧ r ≠ 47 ∧ r ≠ 104 ∧ r ≠ 72 := by
  have := quoteRune_range h
  refine ⟨?_, ?_, ?_, ?_, ?_, ?_, ?_, ?_, ?_, ?_⟩ <;> omega

theorem quote_notScheme (r : Nat) (h : quoteRune r = true) : r ≠ 116 ∧ r ≠ 112 ∧ r ≠ 115 := by
  have := quoteRune_range h
  refine ⟨?_, ?_, ?_⟩ <;> omega

theorem goEnv_quoteLike (u : Word → Word) : QuoteLike (goEnv u) quoteRune := by
  constructor
  · simp only [goEnv]; exact quote_notLetter
  · simp only [goEnv]; exact quote_notDigit
  · simp only [goEnv]; exact quote_notSpace
  · simp only [goEnv]; exact quote_noPunct
  · simp only [goEnv]; exact quote_lowerFix
  · simp only [goEnv]; exact toLower_notQuote
  · simp only [goEnv]; exact punct_notQuote
  · exact quote_notSpecial
  · exact quote_notScheme

/-! ### the list-marker table -/

theorem listMarkers_noQuote :
    LC.Gen.V2.listMarkers.all (fun m => m.all (fun r => !quoteRune r)) = true := by decide +kernel

theorem listMarker_noQuote {w : Word} (h : LC.V2Env.listMarker w = true) :
    w.all (fun r => !quoteRune r) = true := by
  unfold LC.V2Env.listMarker at h
  rw [List.contains_iff_mem] at h
  exact (List.all_eq_true.mp listMarkers_noQuote) w h

theorem goEnv_listMarker_qeq (u : Word → Word) :
    ∀ w w', QEq quoteRune w w' → (goEnv u).listMarker w = (goEnv u).listMarker w' := by
  intro w w' h
  simp only [goEnv]
  rw [Bool.eq_iff_iff]
  constructor
  · intro hw
    rw [← qeq_eq_of_noQ h (listMarker_noQuote hw)]
    exact hw
  · intro hw
    rw [← qeq_eq_of_noQ (qeq_symm h) (listMarker_noQuote hw)]
    exact hw

end LC.V2Tok
