/-
Helper lemmas for LC/Props/C03Lines.lean: the line counter of the rune scan.

Invariant over `scanRunes = rs.foldl step {}` with `k` = number of newline runes consumed:
`Core k s` : `s.line = L + 1`, `L + pend s ≤ k` (a set deferredEOL flag and every unit of
deferredLines is a newline that was consumed but not yet credited to `line`), and every token / Copyright line
already in `s.doc` lies in `[1, L]`, token lines non-decreasing.
Core Lean only.
-/
import LC.Model.V2Tok
namespace LC.V2Tok
open LC.Utf8

/-! ### documents whose lines lie in `[1, B]` and whose token lines never decrease -/

def DocLe (d : Doc) (B : Nat) : Prop :=
  (∀ t ∈ d.toks, 1 ≤ t.line ∧ t.line ≤ B) ∧ (∀ l ∈ d.copyrights, 1 ≤ l ∧ l ≤ B) ∧
  (d.toks.map (·.line)).Pairwise (· ≤ ·)

theorem DocLe.mono {d : Doc} {B B' : Nat} (h : DocLe d B) (hB : B ≤ B') : DocLe d B' := by
  obtain ⟨h1, h2, h3⟩ := h
  refine ⟨fun t ht => ?_, fun l hl => ?_, h3⟩
  · have := h1 t ht; omega
  · have := h2 l hl; omega

theorem DocLe.push_toks {d : Doc} {B B' line : Nat} {ts : List Tok} (h : DocLe d B)
    (hts : ∀ t ∈ ts, t.line = line) (h1 : 1 ≤ line) (hB : B ≤ line) (hl : line ≤ B') :
    DocLe { d with toks := d.toks ++ ts } B' := by
  obtain ⟨ht, hc, hp⟩ := h
  refine ⟨fun t htm => ?_, fun l hlm => ?_, ?_⟩
  · rcases List.mem_append.1 htm with htm | htm
    · have := ht t htm; omega
    · have := hts t htm; omega
  · have := hc l hlm; omega
  · show ((d.toks ++ ts).map (·.line)).Pairwise (· ≤ ·)
    rw [List.map_append, List.pairwise_append]
    refine ⟨hp, ?_, ?_⟩
    · apply List.pairwise_of_forall_mem_list
      intro a ha b hb
      obtain ⟨ta, hta, rfl⟩ := List.mem_map.1 ha
      obtain ⟨tb, htb, rfl⟩ := List.mem_map.1 hb
      have := hts ta hta; have := hts tb htb; omega
    · intro a ha b hb
      obtain ⟨ta, hta, rfl⟩ := List.mem_map.1 ha
      obtain ⟨tb, htb, rfl⟩ := List.mem_map.1 hb
      have := ht ta hta; have := hts tb htb; omega

theorem DocLe.push_copyright {d : Doc} {B B' line : Nat} (h : DocLe d B)
    (h1 : 1 ≤ line) (hB : B ≤ B') (hl : line ≤ B') :
    DocLe { d with copyrights := d.copyrights ++ [line] } B' := by
  obtain ⟨ht, hc, hp⟩ := h
  refine ⟨fun t htm => ?_, fun l hlm => ?_, hp⟩
  · have := ht t htm; omega
  · rcases List.mem_append.1 hlm with hlm | hlm
    · have := hc l hlm; omega
    · have := List.mem_singleton.1 hlm; omega

theorem processLine_go_line (E : Env) (normalize : Bool) (line : Nat) :
    ∀ (ws : List Word) (i : Nat), ∀ t ∈ processLine.go E normalize line ws i, t.line = line := by
  intro ws
  induction ws with
  | nil => intro i t ht; simp [processLine.go] at ht
  | cons w ws ih =>
    intro i t ht
    unfold processLine.go at ht
    simp only at ht
    split at ht
    · exact ih _ t ht
    · rcases List.mem_cons.1 ht with rfl | ht
      · rfl
      · exact ih _ t ht

theorem processLine_line {E : Env} {normalize : Bool} {line : Nat} {lb : List Word}
    {ts : List Tok} (h : processLine E normalize line lb = some ts) : ∀ t ∈ ts, t.line = line := by
  unfold processLine at h
  split at h
  · cases h
  · simp only [Option.some.injEq] at h
    subst h
    exact processLine_go_line E normalize line lb 0

/-- `appendLine` keeps a bounded, monotone document bounded and monotone; the new line only has
to respect the new bound when something is appended. -/
theorem DocLe.appendLine {E : Env} {normalize : Bool} {d : Doc} {B B' line : Nat}
    {lb : List Word} (h : DocLe d B) (h1 : 1 ≤ line) (hB : B ≤ line) (hBB : B ≤ B')
    (hl : lb ≠ [] → line ≤ B') : DocLe (appendLine E normalize d line lb) B' := by
  unfold LC.V2Tok.appendLine
  split
  · exact h.mono hBB
  · rename_i hne
    split
    · exact h.push_copyright h1 hBB (hl hne)
    · rename_i ts hts
      exact h.push_toks (processLine_line hts) h1 hB (hl hne)

/-! ### the scan invariant -/

/-- newlines consumed but not yet credited to `line`: one for a pending hyphenated line break
(`deferredEOL`) and one for every line break already joined into the word in progress
(`deferredLines`); a plain newline or the end of the word credits all of them at once. -/
def pend (s : State) : Nat :=
  (if s.deferredEOL = true then 1 else 0) + s.deferredLines

def Core (k : Nat) (s : State) : Prop :=
  ∃ L, s.line = L + 1 ∧ L + pend s ≤ k ∧ DocLe s.doc L

theorem Core.startOrSkip {E : Env} {normalize : Bool} {k : Nat} {s : State} {r : Rune}
    (h : Core k s) : Core k (startOrSkip E normalize s r) := by
  unfold LC.V2Tok.startOrSkip
  split
  · exact h
  · exact h

/-- a rune other than newline keeps the invariant with the same newline count -/
theorem Core.step_other {E : Env} {normalize : Bool} {k : Nat} {s : State} {r : Rune}
    (h : Core k s) (hr : r ≠ nl) : Core k (step E normalize s r) := by
  obtain ⟨L, hL, hk, hd⟩ := h
  unfold step
  rw [if_neg hr]
  split
  · exact Core.startOrSkip ⟨L, hL, hk, hd⟩
  · split
    · split
      · exact ⟨L, hL, hk, hd⟩
      · rename_i hE
        apply Core.startOrSkip
        split
        · rename_i hW
          refine ⟨L + s.deferredLines, by simp only [hL]; omega, ?_, ?_⟩
          · simp only [pend] at hk ⊢
            simp only [hE] at hk
            simp only [hE]
            simp at hk ⊢
            omega
          · simp only [hL]
            exact hd.appendLine (by omega) (by omega) (by omega) (fun _ => by omega)
        · exact ⟨L, hL, by simpa [pend] using hk, hd⟩
    · have key : ∀ s1 : State, Core k s1 → Core k (match E.punct r with
          | some rep => { s1 with obuf := s1.obuf ++ rep.map E.toLower }
          | none => { s1 with obuf := s1.obuf ++ [E.toLower r] }) := by
        intro s1 ⟨L', hL', hk', hd'⟩
        split
        · exact ⟨L', hL', by simpa [pend] using hk', hd'⟩
        · exact ⟨L', hL', by simpa [pend] using hk', hd'⟩
      apply key
      split
      · rename_i hE
        refine ⟨L, hL, ?_, hd⟩
        simp only [pend] at hk ⊢
        simp only [hE] at hk
        simp at hk ⊢
        omega
      · exact ⟨L, hL, hk, hd⟩

/-- a newline rune: one more newline consumed, and afterwards either both buffers are empty
or the line counter did not move.  (A plain newline credits every pending line break and clears
`deferredEOL` / `deferredLines`, so `L + pend` still grows by exactly one.) -/
theorem Core.step_nl {E : Env} {normalize : Bool} {k : Nat} {s : State}
    (h : Core k s) :
    Core (k + 1) (step E normalize s nl) ∧
    (((step E normalize s nl).obuf ≠ [] ∨ (step E normalize s nl).linebuf ≠ []) →
      (step E normalize s nl).line ≤ k + 1) := by
  obtain ⟨L, hL, hk, hd⟩ := h
  unfold step
  rw [if_pos rfl]
  split
  · refine ⟨⟨L, hL, ?_, hd⟩, fun _ => ?_⟩
    · simp only [pend] at hk ⊢
      simp only [if_true]
      split at hk <;> omega
    · simp only [hL]; omega
  · refine ⟨⟨L + 1 + (if s.deferredEOL = true then 1 else 0) + s.deferredLines,
        by simp only [hL]; omega, ?_, ?_⟩, ?_⟩
    · simp only [pend] at hk ⊢
      simp only [Bool.false_eq_true, if_false]
      omega
    · simp only [hL]
      have hA : DocLe (LC.V2Tok.appendLine E normalize s.doc (L + 1)
          (if s.obuf ≠ [] then s.linebuf ++ [flushWord E s.obuf] else s.linebuf)) (L + 1) :=
        hd.appendLine (by omega) (by omega) (by omega) (fun _ => Nat.le_refl _)
      split
      · exact hA.mono (by omega)
      · exact hA.push_toks (ts := [{ word := [nl], line := L + 1 }])
          (by intro t ht; rw [List.mem_singleton.1 ht]) (by omega) (Nat.le_refl _) (by omega)
    · intro hne
      exfalso
      simp only at hne
      rcases hne with hne | hne
      · by_cases ho : s.obuf = []
        · simp [ho] at hne
        · simp [ho] at hne
      · exact hne rfl

/-! ### folding over the input -/

theorem rev_induction {α : Type} {P : List α → Prop} (h0 : P [])
    (h1 : ∀ l a, P l → P (l ++ [a])) : ∀ l, P l := by
  intro l
  rw [← List.reverse_reverse l]
  induction l.reverse with
  | nil => exact h0
  | cons a t ih => rw [List.reverse_cons]; exact h1 _ _ ih

theorem scanRunes_concat (E : Env) (normalize : Bool) (p : List Rune) (r : Rune) :
    scanRunes E normalize (p ++ [r]) = step E normalize (scanRunes E normalize p) r := by
  simp [scanRunes, List.foldl_append]

theorem numLines_concat (p : List Rune) (r : Rune) : numLines (p ++ [r]) = p.count nl + 1 := by
  unfold numLines
  rw [List.getLast?_concat, List.count_append, List.count_singleton]
  by_cases h : r = nl
  · simp [h]
  · simp [h]

theorem count_le_numLines (p : List Rune) : p.count nl ≤ numLines p := by
  unfold numLines; omega

theorem scan_core (E : Env) (normalize : Bool) (p : List Rune) :
    Core (p.count nl) (scanRunes E normalize p) := by
  induction p using rev_induction with
  | h0 => exact ⟨0, rfl, by simp [scanRunes, pend], by simp [scanRunes, DocLe]⟩
  | h1 p r ih =>
    rw [scanRunes_concat, List.count_append, List.count_singleton]
    by_cases hr : r = nl
    · subst hr
      simpa using (Core.step_nl ih).1
    · simpa [hr] using Core.step_other ih hr

theorem scan_line_le (E : Env) (normalize : Bool) (p : List Rune)
    (hne : (scanRunes E normalize p).obuf ≠ [] ∨ (scanRunes E normalize p).linebuf ≠ []) :
    (scanRunes E normalize p).line ≤ numLines p := by
  induction p using rev_induction with
  | h0 => simp [scanRunes] at hne
  | h1 p r _ =>
    rw [numLines_concat]
    rw [scanRunes_concat] at hne ⊢
    by_cases hr : r = nl
    · subst hr
      exact (Core.step_nl (scan_core E normalize p)).2 hne
    · obtain ⟨L, hL, hk, _⟩ := Core.step_other (E := E) (normalize := normalize)
        (scan_core E normalize p) hr
      omega

theorem tokenize_docLe (E : Env) (normalize : Bool) (rs : List Rune) :
    DocLe (tokenizeRunes E normalize rs) (numLines rs) := by
  unfold tokenizeRunes finish
  obtain ⟨L, hL, hk, hd⟩ := scan_core E normalize rs
  have hc := count_le_numLines rs
  simp only [hL]
  refine hd.appendLine (by omega) (by omega) (by omega) (fun hlb => ?_)
  rw [← hL]
  apply scan_line_le
  by_cases ho : (scanRunes E normalize rs).obuf = []
  · right; simpa [ho] using hlb
  · left; exact ho

theorem token_lines_bounded' (E : Env) (normalize : Bool) (rs : List Rune) :
    ∀ t ∈ (tokenizeRunes E normalize rs).toks, 1 ≤ t.line ∧ t.line ≤ numLines rs :=
  (tokenize_docLe E normalize rs).1

theorem copyright_lines_bounded' (E : Env) (normalize : Bool) (rs : List Rune) :
    ∀ l ∈ (tokenizeRunes E normalize rs).copyrights, 1 ≤ l ∧ l ≤ numLines rs :=
  (tokenize_docLe E normalize rs).2.1

theorem token_lines_monotone' (E : Env) (normalize : Bool) (rs : List Rune) :
    ((tokenizeRunes E normalize rs).toks.map (·.line)).Pairwise (· ≤ ·) :=
  (tokenize_docLe E normalize rs).2.2

end LC.V2Tok
