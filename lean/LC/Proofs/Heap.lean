/-
Helper lemmas for LC/Props/C20Heap.lean: sift-up / sift-down correctness of the
`container/heap` model in LC/Model/Heap.lean.

Positions are compared through `NL less a j k` ("the payload at `j` is not
strictly below the payload at `k`", vacuous out of range); `swap` acts on it as
the transposition `tr`.  `HeapN` is heap order on a prefix, `HeapEx` is heap
order on a prefix except at one position.  `down_heap` / `up_heap` repair a
`HeapEx` state; `fixAt` is the common tail of `Remove` and `Fix`.
Core Lean only.
-/
import LC.Model.Heap
namespace LC.Heap
variable {α : Type} {less : α → α → Bool}

theorem getElem?_swap (a : Array (E α)) (i j k : Nat) (hi : i < a.size) (hj : j < a.size) :
    (swap a i j)[k]? =
      if k = j then some { a[i] with index := j }
      else if k = i then some { a[j] with index := i } else a[k]? := by
  unfold swap
  simp only [hi, hj, and_self, dite_true]
  simp only [Array.getElem?_modify, Array.getElem?_set]
  by_cases h1 : k = j <;> by_cases h2 : k = i <;> by_cases h3 : i = j <;> simp_all <;> grind

/-- the transposition of `x` and `y` -/
def tr (x y k : Nat) : Nat := if k = y then x else if k = x then y else k

/-- payload at position `j`, if any -/
def gv (a : Array (E α)) (j : Nat) : Option α := a[j]?.map (·.val)

theorem gv_of_lt (a : Array (E α)) (j : Nat) (h : j < a.size) : gv a j = some a[j].val := by
  simp [gv, h]

theorem gv_swap (a : Array (E α)) (i j k : Nat) (hi : i < a.size) (hj : j < a.size) :
    gv (swap a i j) k = gv a (tr i j k) := by
  unfold gv tr
  rw [getElem?_swap a i j k hi hj]
  split
  · simp [hi]
  · split
    · simp [hj]
    · rfl

theorem gv_swap_of_ne (a : Array (E α)) (i j k : Nat) (hi : k ≠ i) (hj : k ≠ j) :
    gv (swap a i j) k = gv a k := by
  by_cases h : i < a.size ∧ j < a.size
  · rw [gv_swap a i j k h.1 h.2]; simp [tr, hi, hj]
  · unfold swap; simp [h]

/-- "not less": the payload at `j` is not strictly below the one at `k`
(vacuous when either position is out of range) -/
def NL (less : α → α → Bool) (a : Array (E α)) (j k : Nat) : Prop :=
  ∀ x y, gv a j = some x → gv a k = some y → less x y = false

theorem NL_swap (a : Array (E α)) (i j p q : Nat) (hi : i < a.size) (hj : j < a.size) :
    NL less (swap a i j) p q ↔ NL less a (tr i j p) (tr i j q) := by
  unfold NL; rw [gv_swap a i j p hi hj, gv_swap a i j q hi hj]

theorem NL_get (a : Array (E α)) (j k : Nat) (hj : j < a.size) (hk : k < a.size) :
    NL less a j k ↔ less a[j].val a[k].val = false := by
  unfold NL; rw [gv_of_lt a j hj, gv_of_lt a k hk]
  constructor
  · intro h; exact h _ _ rfl rfl
  · intro h x y hx hy; cases hx; cases hy; exact h

theorem NL_refl (sw : StrictWeak less) (a : Array (E α)) (j : Nat) : NL less a j j := by
  intro x y hx hy; rw [hx] at hy; cases hy; exact sw.irrefl x

theorem NL_trans (sw : StrictWeak less) (a : Array (E α)) (j k l : Nat) (hk : k < a.size)
    (h1 : NL less a j k) (h2 : NL less a k l) : NL less a j l := by
  intro x z hx hz
  exact sw.ntrans x _ z (h1 x _ hx (gv_of_lt a k hk)) (h2 _ z (gv_of_lt a k hk) hz)

theorem StrictWeak.asymm (sw : StrictWeak less) (x y : α) (h : less x y = true) :
    less y x = false := by
  cases h' : less y x
  · rfl
  · have := sw.trans x y x h h'; rw [sw.irrefl] at this; cases this

theorem NL_of_lt (sw : StrictWeak less) (a : Array (E α)) (j k : Nat) (hj : j < a.size)
    (hk : k < a.size) (h : less a[j].val a[k].val = true) : NL less a k j := by
  rw [NL_get a k j hk hj]; exact sw.asymm _ _ h

/-- `less j k` and `¬ less l k` give `¬ less l j` -/
theorem NL_of_lt_of_NL (sw : StrictWeak less) (a : Array (E α)) (j k l : Nat) (hj : j < a.size)
    (hk : k < a.size) (h : less a[j].val a[k].val = true) (h2 : NL less a l k) :
    NL less a l j := by
  intro x y hx hy
  rw [gv_of_lt a j hj] at hy; cases hy
  cases h' : less x a[j].val
  · rfl
  · have := sw.trans _ _ _ h' h
    rw [h2 x _ hx (gv_of_lt a k hk)] at this; cases this


/-! ### one step of `downLoop` -/

theorem downLoop_step (sw : StrictWeak less) (a : Array (E α)) (i n : Nat) (hn : n ≤ a.size) :
    (downLoop less a i n = (a, i) ∧ ∀ k, 0 < k → k < n → (k - 1) / 2 = i → NL less a k i) ∨
    (∃ j, 0 < j ∧ (j - 1) / 2 = i ∧ j < n ∧
      downLoop less a i n = downLoop less (swap a i j) j n ∧ NL less a i j ∧
      ∀ k, 0 < k → k < n → (k - 1) / 2 = i → NL less a k j) := by
  have key : ∀ (h1 : 2 * i + 1 < n) (j : Nat),
      j = (if h2 : 2 * i + 1 + 1 < n then
            (if less (a[2 * i + 1 + 1]'(by omega)).val (a[2 * i + 1]'(by omega)).val then
              2 * i + 1 + 1 else 2 * i + 1)
          else 2 * i + 1) →
      (0 < j ∧ (j - 1) / 2 = i) ∧ ∀ k, 0 < k → k < n → (k - 1) / 2 = i → NL less a k j := by
    intro h1 j hj
    by_cases h2 : 2 * i + 1 + 1 < n
    · by_cases h3 : less (a[2 * i + 1 + 1]'(by omega)).val (a[2 * i + 1]'(by omega)).val = true
      · simp only [h2, h3, dite_true, if_true] at hj
        subst hj
        refine ⟨by omega, ?_⟩
        intro k hk0 hkn hkp
        have : k = 2 * i + 1 ∨ k = 2 * i + 1 + 1 := by omega
        rcases this with rfl | rfl
        · exact NL_of_lt sw a _ _ (by omega) (by omega) h3
        · exact NL_refl sw a _
      · simp only [h2, h3, dite_true, Bool.false_eq_true, if_false] at hj
        subst hj
        refine ⟨by omega, ?_⟩
        intro k hk0 hkn hkp
        have : k = 2 * i + 1 ∨ k = 2 * i + 1 + 1 := by omega
        rcases this with rfl | rfl
        · exact NL_refl sw a _
        · rw [NL_get a _ _ (by omega) (by omega)]; simpa using h3
    · simp only [h2, dite_false] at hj
      subst hj
      refine ⟨by omega, ?_⟩
      intro k hk0 hkn hkp
      have : k = 2 * i + 1 := by omega
      subst this
      exact NL_refl sw a _
  fun_cases downLoop less a i n
  · rename_i j1 h1 j2 j hjn hlt
    obtain ⟨⟨hj0, hjp⟩, hjk⟩ := key h1.1 j rfl
    right
    exact ⟨j, hj0, hjp, hjn, rfl, NL_of_lt sw a _ _ (by omega) (by omega) hlt, hjk⟩
  · rename_i j1 h1 j2 j hjn hlt
    obtain ⟨⟨hj0, hjp⟩, hjk⟩ := key h1.1 j rfl
    left
    refine ⟨rfl, fun k hk0 hkn hkp => ?_⟩
    refine NL_trans sw a k j i (by omega) (hjk k hk0 hkn hkp) ?_
    rw [NL_get a _ _ (by omega) (by omega)]; simpa using hlt
  · rename_i j1 h1
    left
    refine ⟨rfl, fun k hk0 hkn hkp => ?_⟩
    exfalso; apply h1; simp only [j1]; constructor <;> omega

/-! ### sizes -/

@[simp] theorem size_up (a : Array (E α)) (j : Nat) : (up less a j).size = a.size := by
  fun_induction up less a j <;> simp_all

@[simp] theorem size_downLoop (a : Array (E α)) (i n : Nat) :
    (downLoop less a i n).1.size = a.size := by
  fun_induction downLoop less a i n <;> simp_all

theorem downLoop_le (a : Array (E α)) (i n : Nat) : i ≤ (downLoop less a i n).2 := by
  fun_induction downLoop less a i n
  · rename_i a i j1 h1 j2 j hjn hlt ih
    have : i < j := by
      simp only [j, j2, j1]; split
      · split <;> omega
      · omega
    omega
  · exact Nat.le_refl _
  · exact Nat.le_refl _

/-! ### reported indices -/

theorem IdxInv_iff (a : Array (E α)) : IdxInv a ↔ ∀ (k : Nat) (e : E α), a[k]? = some e → e.index = k := by
  constructor
  · intro h k e hk
    obtain ⟨hlt, rfl⟩ := Array.getElem?_eq_some_iff.mp hk
    exact h k hlt
  · intro h k hk
    exact h k _ (Array.getElem?_eq_getElem hk)

theorem IdxInv_swap (a : Array (E α)) (i j : Nat) (h : IdxInv a) : IdxInv (swap a i j) := by
  by_cases hij : i < a.size ∧ j < a.size
  · rw [IdxInv_iff] at h ⊢
    intro k e hk
    rw [getElem?_swap a i j k hij.1 hij.2] at hk
    split at hk
    · cases hk; simp_all
    · split at hk
      · cases hk; simp_all
      · exact h k e hk
  · unfold swap; simp only [hij, dite_false]; exact h

theorem IdxInv_up (a : Array (E α)) (j : Nat) (h : IdxInv a) : IdxInv (up less a j) := by
  fun_induction up less a j
  · exact h
  · rename_i ih; exact ih (IdxInv_swap _ _ _ h)
  · exact h
  · exact h

theorem IdxInv_downLoop (a : Array (E α)) (i n : Nat) (h : IdxInv a) :
    IdxInv (downLoop less a i n).1 := by
  fun_induction downLoop less a i n
  · rename_i ih; exact ih (IdxInv_swap _ _ _ h)
  · exact h
  · exact h

/-! ### the multiset of payloads -/

theorem vals_modify_index (a : Array (E α)) (i k : Nat) :
    vals (a.modify i (fun e => { e with index := k })) = vals a := by
  unfold vals
  apply List.ext_getElem?
  intro m
  simp only [List.getElem?_map, Array.getElem?_toList, Array.getElem?_modify]
  split
  · cases a[m]? <;> rfl
  · rfl

theorem perm_swap (a : Array (E α)) (i j : Nat) : (vals (swap a i j)).Perm (vals a) := by
  unfold swap
  split
  · rename_i h
    simp only [vals_modify_index]
    have := Array.swap_perm h.1 h.2
    rw [Array.swap_def, Array.perm_iff_toList_perm] at this
    exact this.map _
  · exact List.Perm.refl _

theorem perm_up (a : Array (E α)) (j : Nat) : (vals (up less a j)).Perm (vals a) := by
  fun_induction up less a j
  · exact List.Perm.refl _
  · rename_i ih; exact ih.trans (perm_swap _ _ _)
  · exact List.Perm.refl _
  · exact List.Perm.refl _

theorem perm_downLoop (a : Array (E α)) (i n : Nat) :
    (vals (downLoop less a i n).1).Perm (vals a) := by
  fun_induction downLoop less a i n
  · rename_i ih; exact ih.trans (perm_swap _ _ _)
  · exact List.Perm.refl _
  · exact List.Perm.refl _

/-! ### frames: what the loops leave untouched -/

theorem swap_frame (a : Array (E α)) (i j k : Nat) (hi : k ≠ i) (hj : k ≠ j) :
    (swap a i j)[k]? = a[k]? := by
  by_cases h : i < a.size ∧ j < a.size
  · rw [getElem?_swap a i j k h.1 h.2]; simp [hi, hj]
  · unfold swap; simp [h]

theorem up_frame (a : Array (E α)) (j k : Nat) (hk : j < k) : (up less a j)[k]? = a[k]? := by
  fun_induction up less a j
  · rfl
  · rename_i ih
    rw [ih (by omega), swap_frame _ _ _ _ (by omega) (by omega)]
  · rfl
  · rfl

theorem downLoop_frame (a : Array (E α)) (i n k : Nat) (hk : n ≤ k) :
    (downLoop less a i n).1[k]? = a[k]? := by
  fun_induction downLoop less a i n
  · rename_i j1 h1 j2 j hjn hlt ih
    rw [ih, swap_frame _ _ _ _ (by omega) (by omega)]
  · rfl
  · rfl

/-! ### heap predicates on a prefix -/

theorem tr_fst (i j : Nat) : tr i j i = j := by
  unfold tr; split <;> simp_all

theorem tr_snd (i j : Nat) : tr i j j = i := by
  unfold tr; simp

theorem tr_ne (i j k : Nat) (hi : k ≠ i) (hj : k ≠ j) : tr i j k = k := by
  unfold tr; simp [hi, hj]

/-- heap order on the first `n` positions -/
def HeapN (less : α → α → Bool) (a : Array (E α)) (n : Nat) : Prop :=
  ∀ j, 0 < j → j < n → NL less a j ((j - 1) / 2)

/-- heap order on the first `n` positions, except for the pairs that involve
position `i`; the children of `i` are still not below the parent of `i` -/
def HeapEx (less : α → α → Bool) (a : Array (E α)) (n i : Nat) : Prop :=
  (∀ j, 0 < j → j < n → j ≠ i → (j - 1) / 2 ≠ i → NL less a j ((j - 1) / 2)) ∧
  (∀ j, 0 < j → j < n → (j - 1) / 2 = i → 0 < i → NL less a j ((i - 1) / 2))

theorem HeapInv_iff (a : Array (E α)) : HeapInv less a ↔ HeapN less a a.size := by
  unfold HeapInv HeapN
  constructor
  · intro h j h0 hj
    rw [NL_get a _ _ hj (by omega)]; exact h j hj h0
  · intro h j hj h0
    rw [← NL_get a _ _ hj (by omega)]; exact h j h0 hj

theorem HeapN_mono (a : Array (E α)) (m n : Nat) (hmn : m ≤ n) (h : HeapN less a n) :
    HeapN less a m :=
  fun j h0 hj => h j h0 (by omega)

theorem NL_congr (a a' : Array (E α)) (j k : Nat) (hj : gv a' j = gv a j)
    (hk : gv a' k = gv a k) (h : NL less a j k) : NL less a' j k := by
  unfold NL at *; rw [hj, hk]; exact h

theorem HeapN_congr (a a' : Array (E α)) (n : Nat)
    (hg : ∀ k, k < n → gv a' k = gv a k) (h : HeapN less a n) : HeapN less a' n :=
  fun j h0 hj => NL_congr a a' _ _ (hg j hj) (hg _ (by omega)) (h j h0 hj)

theorem HeapEx_congr (a a' : Array (E α)) (n i : Nat)
    (hg : ∀ k, k < n → k ≠ i → gv a' k = gv a k) (h : HeapEx less a n i) :
    HeapEx less a' n i := by
  refine ⟨fun j h0 hj hji hpi => ?_, fun j h0 hj hp hi => ?_⟩
  · exact NL_congr a a' _ _ (hg j hj hji) (hg _ (by omega) hpi) (h.1 j h0 hj hji hpi)
  · exact NL_congr a a' _ _ (hg j hj (by omega)) (hg _ (by omega) (by omega)) (h.2 j h0 hj hp hi)

theorem HeapN_of_ex (a : Array (E α)) (n i : Nat) (h : HeapEx less a n i)
    (hp : 0 < i → NL less a i ((i - 1) / 2))
    (hc : ∀ k, 0 < k → k < n → (k - 1) / 2 = i → NL less a k i) : HeapN less a n := by
  intro j h0 hj
  by_cases hji : j = i
  · subst hji; exact hp h0
  · by_cases hpi : (j - 1) / 2 = i
    · have := hc j h0 hj hpi; rw [hpi]; exact this
    · exact h.1 j h0 hj hji hpi

theorem HeapEx_of_HeapN (sw : StrictWeak less) (a : Array (E α)) (n i : Nat) (hi : i < a.size)
    (h : HeapN less a n) : HeapEx less a n i := by
  refine ⟨fun j h0 hj _ _ => h j h0 hj, fun j h0 hj hp hi0 => ?_⟩
  refine NL_trans sw a j i _ hi ?_ (h i hi0 (by omega))
  have := h j h0 hj; rw [hp] at this; exact this

theorem root_min (sw : StrictWeak less) (a : Array (E α)) (n : Nat) (hn : n ≤ a.size)
    (h : HeapN less a n) : ∀ j, j < n → NL less a j 0 := by
  intro j
  induction j using Nat.strongRecOn with
  | _ j ih =>
    intro hj
    by_cases h0 : j = 0
    · subst h0; exact NL_refl sw a 0
    · exact NL_trans sw a j ((j - 1) / 2) 0 (by omega) (h j (by omega) hj)
        (ih _ (by omega) (by omega))

/-! ### sift-down -/

theorem swap_down_ex (a : Array (E α)) (n i j : Nat) (hn : n ≤ a.size)
    (h : HeapEx less a n i) (hj0 : 0 < j) (hjp : (j - 1) / 2 = i) (hjn : j < n)
    (hij : NL less a i j) (hc : ∀ k, 0 < k → k < n → (k - 1) / 2 = i → NL less a k j) :
    HeapEx less (swap a i j) n j ∧ (0 < j → NL less (swap a i j) j ((j - 1) / 2)) := by
  have hi : i < a.size := by omega
  have hj : j < a.size := by omega
  refine ⟨⟨fun m h0 hm hmj hpj => ?_, fun m h0 hm hp _ => ?_⟩, fun _ => ?_⟩
  · rw [NL_swap a i j _ _ hi hj]
    by_cases hmi : m = i
    · subst hmi
      rw [tr_fst, tr_ne _ _ _ (by omega) (by omega)]
      exact h.2 j hj0 hjn hjp h0
    · by_cases hpi : (m - 1) / 2 = i
      · rw [tr_ne _ _ _ hmi hmj, hpi, tr_fst]
        exact hc m h0 hm hpi
      · rw [tr_ne _ _ _ hmi hmj, tr_ne _ _ _ hpi hpj]
        exact h.1 m h0 hm hmi hpi
  · rw [NL_swap a i j _ _ hi hj, hjp, tr_fst, tr_ne _ _ _ (by omega) (by omega)]
    have := h.1 m h0 hm (by omega) (by omega)
    rw [hp] at this; exact this
  · rw [NL_swap a i j _ _ hi hj, hjp, tr_fst, tr_snd]
    exact hij

theorem down_heap (sw : StrictWeak less) (n : Nat) :
    ∀ (d : Nat) (a : Array (E α)) (i : Nat), n - i = d → n ≤ a.size → HeapEx less a n i →
      (0 < i → NL less a i ((i - 1) / 2)) → HeapN less (downLoop less a i n).1 n := by
  intro d
  induction d using Nat.strongRecOn with
  | _ d ih =>
    intro a i hd hn hex hp
    rcases downLoop_step sw a i n hn with ⟨heq, hc⟩ | ⟨j, hj0, hjp, hjn, heq, hij, hc⟩
    · rw [heq]; exact HeapN_of_ex a n i hex hp hc
    · rw [heq]
      obtain ⟨hex', hp'⟩ := swap_down_ex a n i j hn hex hj0 hjp hjn hij hc
      exact ih (n - j) (by omega) (swap a i j) j rfl (by simpa using hn) hex' hp'

/-! ### sift-up -/

theorem swap_up_ex (sw : StrictWeak less) (a : Array (E α)) (n i p : Nat)
    (hin : i < n) (hi0 : 0 < i) (hpe : (i - 1) / 2 = p) (h : HeapEx less a n i)
    (hc : ∀ k, 0 < k → k < n → (k - 1) / 2 = i → NL less a k i)
    (hi : i < a.size) (hp : p < a.size)
    (hlt : less (a[i]'hi).val (a[p]'hp).val = true) :
    HeapEx less (swap a p i) n p ∧
      ∀ k, 0 < k → k < n → (k - 1) / 2 = p → NL less (swap a p i) k p := by
  have hpp : 0 < p → NL less a p ((p - 1) / 2) :=
    fun h0 => h.1 p h0 (by omega) (by omega) (by omega)
  refine ⟨⟨fun m h0 hm hmp hpm => ?_, fun m h0 hm hpm hp0 => ?_⟩, fun m h0 hm hpm => ?_⟩
  · rw [NL_swap a p i _ _ hp hi]
    by_cases hmi : m = i
    · omega
    · by_cases hpi : (m - 1) / 2 = i
      · rw [tr_ne _ _ _ hmp hmi, hpi, tr_snd]
        have := h.2 m h0 hm hpi hi0
        rw [hpe] at this; exact this
      · rw [tr_ne _ _ _ hmp hmi, tr_ne _ _ _ hpm hpi]
        exact h.1 m h0 hm hmi hpi
  · rw [NL_swap a p i _ _ hp hi, tr_ne _ _ ((p - 1) / 2) (by omega) (by omega)]
    by_cases hmi : m = i
    · subst hmi; rw [tr_snd]; exact hpp hp0
    · rw [tr_ne _ _ _ (by omega) hmi]
      refine NL_trans sw a m p _ hp ?_ (hpp hp0)
      have := h.1 m h0 hm hmi (by omega)
      rw [hpm] at this; exact this
  · rw [NL_swap a p i _ _ hp hi, tr_fst]
    by_cases hmi : m = i
    · subst hmi; rw [tr_snd]; exact NL_of_lt sw a _ _ hi hp hlt
    · rw [tr_ne _ _ _ (by omega) hmi]
      refine NL_of_lt_of_NL sw a i p m hi hp hlt ?_
      have := h.1 m h0 hm hmi (by omega)
      rw [hpm] at this; exact this

theorem up_heap (sw : StrictWeak less) (n : Nat) (a : Array (E α)) (i : Nat) :
    n ≤ a.size → i < n → HeapEx less a n i →
      (∀ k, 0 < k → k < n → (k - 1) / 2 = i → NL less a k i) → HeapN less (up less a i) n := by
  fun_induction up less a i
  · intro hn hin hex hc
    exact HeapN_of_ex _ n 0 hex (fun h => absurd h (by omega)) hc
  · rename_i a j hj0 p hj hp hlt ih
    intro hn hin hex hc
    obtain ⟨hex', hc'⟩ := swap_up_ex sw a n j p hin (by omega) rfl hex hc hj hp hlt
    exact ih (by simpa using hn) (by omega) hex' hc'
  · rename_i a j hj0 p hj hp hlt
    intro hn hin hex hc
    refine HeapN_of_ex _ n j hex (fun _ => ?_) hc
    rw [NL_get a _ _ hj hp]; simpa using hlt
  · intro hn hin hex hc
    omega

/-! ### `Fix`-style repair: `down`, and `up` if nothing moved -/

/-- the common tail of `Remove` and `Fix` -/
def fixAt (less : α → α → Bool) (a : Array (E α)) (i n : Nat) : Array (E α) :=
  if (down less a i n).2 then (down less a i n).1 else up less (down less a i n).1 i

@[simp] theorem size_fixAt (a : Array (E α)) (i n : Nat) : (fixAt less a i n).size = a.size := by
  unfold fixAt down; split <;> simp

theorem IdxInv_fixAt (a : Array (E α)) (i n : Nat) (h : IdxInv a) :
    IdxInv (fixAt less a i n) := by
  unfold fixAt down; split
  · exact IdxInv_downLoop _ _ _ h
  · exact IdxInv_up _ _ (IdxInv_downLoop _ _ _ h)

theorem perm_fixAt (a : Array (E α)) (i n : Nat) : (vals (fixAt less a i n)).Perm (vals a) := by
  unfold fixAt down; split
  · exact perm_downLoop _ _ _
  · exact (perm_up _ _).trans (perm_downLoop _ _ _)

theorem fixAt_frame (a : Array (E α)) (i n k : Nat) (hin : i < n) (hk : n ≤ k) :
    (fixAt less a i n)[k]? = a[k]? := by
  unfold fixAt down; split
  · exact downLoop_frame _ _ _ _ hk
  · rw [up_frame _ _ _ (by omega)]; exact downLoop_frame _ _ _ _ hk

theorem fixAt_heap (sw : StrictWeak less) (a : Array (E α)) (i n : Nat) (hn : n ≤ a.size)
    (hin : i < n) (hex : HeapEx less a n i) : HeapN less (fixAt less a i n) n := by
  unfold fixAt down
  rcases downLoop_step sw a i n hn with ⟨heq, hc⟩ | ⟨j, hj0, hjp, hjn, heq, hij, hc⟩
  · rw [heq]
    simp only [gt_iff_lt, Nat.lt_irrefl, decide_false, Bool.false_eq_true, if_false]
    exact up_heap sw n a i hn hin hex hc
  · have hle := downLoop_le (less := less) (swap a i j) j n
    rw [← heq] at hle
    have hgt : (downLoop less a i n).2 > i := by omega
    simp only [hgt, decide_true, if_true]
    rw [heq]
    obtain ⟨hex', hp'⟩ := swap_down_ex a n i j hn hex hj0 hjp hjn hij hc
    exact down_heap sw n (n - j) (swap a i j) j rfl (by simpa using hn) hex' hp'

/-! ### dropping the last slot -/

theorem gv_pop (a : Array (E α)) (k : Nat) (hk : k < a.size - 1) : gv a.pop k = gv a k := by
  unfold gv; rw [Array.getElem?_pop]; simp [hk]

theorem HeapInv_pop (a : Array (E α)) (h : HeapN less a (a.size - 1)) : HeapInv less a.pop := by
  rw [HeapInv_iff]
  simp only [Array.size_pop]
  exact HeapN_congr a a.pop _ (fun k hk => gv_pop a k hk) h

theorem IdxInv_pop (a : Array (E α)) (h : IdxInv a) : IdxInv a.pop := by
  intro k hk
  simp only [Array.size_pop] at hk
  rw [Array.getElem_pop]; exact h k (by omega)

theorem perm_pop (a : Array (E α)) (m : Nat) (hm : m < a.size) (hm' : m = a.size - 1) :
    ((a[m]'hm).val :: vals a.pop).Perm (vals a) := by
  subst hm'
  have h2 : a.toList ≠ [] := by
    intro h3
    have : a.size = 0 := by rw [← Array.length_toList, h3]; rfl
    omega
  have : vals a = vals a.pop ++ [(a[a.size - 1]'hm).val] := by
    unfold vals
    rw [Array.toList_pop]
    conv => lhs; rw [← List.dropLast_concat_getLast h2]
    rw [List.map_append]
    congr 1
    simp [List.getLast_eq_getElem]
  rw [this]
  exact (List.perm_append_singleton _ _).symm

theorem mem_vals (a : Array (E α)) (y : α) (h : y ∈ vals a) :
    ∃ k, k < a.size ∧ gv a k = some y := by
  unfold vals at h
  rw [List.mem_map] at h
  obtain ⟨e, he, rfl⟩ := h
  rw [Array.mem_toList_iff, Array.mem_iff_getElem] at he
  obtain ⟨k, hk, rfl⟩ := he
  exact ⟨k, hk, gv_of_lt a k hk⟩

/-! ### Push -/

theorem gv_push_lt (a : Array (E α)) (e : E α) (k : Nat) (hk : k < a.size) :
    gv (a.push e) k = gv a k := by
  unfold gv; rw [Array.getElem?_push_lt hk]; simp [hk]

theorem push_heapInv (sw : StrictWeak less) (a : Array (E α)) (x : α) (hH : HeapInv less a) :
    HeapInv less (push less a x) := by
  rw [HeapInv_iff] at hH ⊢
  unfold push
  simp only [Array.size_push, Nat.add_sub_cancel, size_up]
  apply up_heap sw (a.size + 1) _ a.size (by simp) (by omega)
  · refine ⟨fun j h0 hj hji hpi => ?_, fun j h0 hj hp hi => by omega⟩
    exact NL_congr a _ _ _ (gv_push_lt a _ _ (by omega)) (gv_push_lt a _ _ (by omega))
      (hH j h0 (by omega))
  · intro k h0 hk hp; omega

theorem push_idxInv (a : Array (E α)) (x : α) (hI : IdxInv a) : IdxInv (push less a x) := by
  unfold push
  apply IdxInv_up
  intro k hk
  rw [Array.getElem_push]
  split
  · exact hI k _
  · simp only [Array.size_push] at hk
    show a.size = k
    omega

theorem push_perm (a : Array (E α)) (x : α) : (vals (push less a x)).Perm (x :: vals a) := by
  unfold push
  refine (perm_up _ _).trans ?_
  unfold vals
  simp only [Array.toList_push, List.map_append, List.map_cons, List.map_nil]
  exact List.perm_append_singleton _ _

/-! ### Pop -/

theorem pop_eq (a : Array (E α)) (h : 0 < a.size) :
    pop less a =
      some ((downLoop less (swap a 0 (a.size - 1)) 0 (a.size - 1)).1.pop,
        (downLoop less (swap a 0 (a.size - 1)) 0 (a.size - 1)).1[a.size - 1]'(by
          simp only [size_downLoop, size_swap]; omega)) := by
  unfold pop down
  simp [h]

theorem pop_isSome' (a : Array (E α)) (h : 0 < a.size) : (pop less a).isSome := by
  rw [pop_eq a h]; rfl

/-- what `Pop` and `Remove` share: cut off the last slot of a repaired array -/
theorem drop_last_spec (a A : Array (E α)) (hpos : 0 < a.size) (hsz : A.size = a.size)
    (hheap : HeapN less A (a.size - 1)) (hidx : IdxInv A) (hperm : (vals A).Perm (vals a)) :
    HeapInv less A.pop ∧ IdxInv A.pop ∧
      ((A[a.size - 1]'(by omega)).val :: vals A.pop).Perm (vals a) := by
  refine ⟨HeapInv_pop A (by rw [hsz]; exact hheap), IdxInv_pop A hidx, ?_⟩
  exact (perm_pop A (a.size - 1) (by omega) (by omega)).trans hperm

theorem pop_spec' (sw : StrictWeak less) (a a' : Array (E α)) (e : E α)
    (hH : HeapInv less a) (hI : IdxInv a) (h : pop less a = some (a', e)) :
    HeapInv less a' ∧ IdxInv a' ∧ (e.val :: vals a').Perm (vals a) ∧
      (∀ y ∈ vals a, less y e.val = false) := by
  have hpos : 0 < a.size := by
    by_cases hp : 0 < a.size
    · exact hp
    · unfold pop at h; simp [hp] at h
  rw [pop_eq a hpos] at h
  simp only [Option.some.injEq, Prod.mk.injEq] at h
  obtain ⟨rfl, rfl⟩ := h
  rw [HeapInv_iff] at hH
  have hn : a.size - 1 < a.size := by omega
  have hex : HeapEx less (swap a 0 (a.size - 1)) (a.size - 1) 0 :=
    HeapEx_congr a _ _ 0 (fun k hk hk0 => gv_swap_of_ne a 0 _ k hk0 (by omega))
      (HeapEx_of_HeapN sw a _ 0 hpos (HeapN_mono a _ a.size (by omega) hH))
  have hheap := down_heap sw (a.size - 1) _ (swap a 0 (a.size - 1)) 0 rfl
    (by simp only [size_swap]; omega) hex (fun h => absurd h (by omega))
  have hidx : IdxInv (downLoop less (swap a 0 (a.size - 1)) 0 (a.size - 1)).1 :=
    IdxInv_downLoop _ _ _ (IdxInv_swap _ _ _ hI)
  have hperm : (vals (downLoop less (swap a 0 (a.size - 1)) 0 (a.size - 1)).1).Perm (vals a) :=
    (perm_downLoop _ _ _).trans (perm_swap _ _ _)
  have hlast : gv (downLoop less (swap a 0 (a.size - 1)) 0 (a.size - 1)).1 (a.size - 1)
      = gv a 0 := by
    unfold gv
    rw [downLoop_frame _ _ _ _ (Nat.le_refl _)]
    have := gv_swap a 0 (a.size - 1) (a.size - 1) hpos hn
    rw [tr_snd] at this
    exact this
  obtain ⟨h1, h2, h3⟩ := drop_last_spec a _ hpos (by simp) hheap hidx hperm
  refine ⟨h1, h2, h3, ?_⟩
  intro y hy
  obtain ⟨k, hk, hgv⟩ := mem_vals a y hy
  have hmin := root_min sw a a.size (Nat.le_refl _) hH k hk
  refine hmin y _ hgv ?_
  rw [← hlast, gv_of_lt]

/-! ### Remove -/

/-- the array `Remove(i)` cuts the last slot from -/
def rmArr (less : α → α → Bool) (a : Array (E α)) (i : Nat) : Array (E α) :=
  if a.size - 1 ≠ i then fixAt less (swap a i (a.size - 1)) i (a.size - 1) else a

@[simp] theorem size_rmArr (a : Array (E α)) (i : Nat) : (rmArr less a i).size = a.size := by
  unfold rmArr; split <;> simp

theorem remove_eq (a : Array (E α)) (i : Nat) (h : i < a.size) :
    remove less a i =
      some ((rmArr less a i).pop, (rmArr less a i)[a.size - 1]'(by
          simp only [size_rmArr]; omega)) := by
  have hpos : 0 < (rmArr less a i).size := by simp only [size_rmArr]; omega
  unfold remove
  simp only [h, dite_true]
  change (if h2 : 0 < (rmArr less a i).size then _ else _) = _
  rw [dif_pos hpos]
  show some ((rmArr less a i).pop, (rmArr less a i)[(rmArr less a i).size - 1]'(by omega)) = _
  simp only [size_rmArr]

theorem remove_spec' (sw : StrictWeak less) (a a' : Array (E α)) (e : E α) (i : Nat)
    (hH : HeapInv less a) (hI : IdxInv a) (h : remove less a i = some (a', e)) :
    HeapInv less a' ∧ IdxInv a' ∧ (e.val :: vals a').Perm (vals a) ∧
      (∃ hi : i < a.size, e.val = (a[i]'hi).val) := by
  have hi : i < a.size := by
    by_cases hp : i < a.size
    · exact hp
    · unfold remove at h; simp [hp] at h
  have hpos : 0 < a.size := by omega
  rw [remove_eq a i hi] at h
  simp only [Option.some.injEq, Prod.mk.injEq] at h
  obtain ⟨rfl, rfl⟩ := h
  rw [HeapInv_iff] at hH
  have hn : a.size - 1 < a.size := by omega
  have hfacts : HeapN less (rmArr less a i) (a.size - 1) ∧ IdxInv (rmArr less a i) ∧
      (vals (rmArr less a i)).Perm (vals a) ∧ gv (rmArr less a i) (a.size - 1) = gv a i := by
    unfold rmArr
    split
    · rename_i hne
      have hin : i < a.size - 1 := by omega
      have hex : HeapEx less (swap a i (a.size - 1)) (a.size - 1) i :=
        HeapEx_congr a _ _ i (fun k hk hki => gv_swap_of_ne a i _ k hki (by omega))
          (HeapEx_of_HeapN sw a _ i hi (HeapN_mono a _ a.size (by omega) hH))
      refine ⟨fixAt_heap sw _ i _ (by simp only [size_swap]; omega) hin hex,
        IdxInv_fixAt _ _ _ (IdxInv_swap _ _ _ hI),
        (perm_fixAt _ _ _).trans (perm_swap _ _ _), ?_⟩
      unfold gv
      rw [fixAt_frame _ _ _ _ hin (Nat.le_refl _)]
      have := gv_swap a i (a.size - 1) (a.size - 1) hi hn
      rw [tr_snd] at this
      exact this
    · rename_i heq
      have heq : a.size - 1 = i := by omega
      refine ⟨HeapN_mono a _ a.size (by omega) hH, hI, List.Perm.refl _, by rw [heq]⟩
  obtain ⟨hheap, hidx, hperm, hlast⟩ := hfacts
  obtain ⟨h1, h2, h3⟩ := drop_last_spec a _ hpos (by simp) hheap hidx hperm
  refine ⟨h1, h2, h3, hi, ?_⟩
  rw [gv_of_lt _ _ (by simp only [size_rmArr]; omega), gv_of_lt a i hi] at hlast
  exact Option.some.inj hlast

/-! ### Fix after a priority change -/

theorem setFix_eq (a : Array (E α)) (i : Nat) (x : α) (h : i < a.size) :
    setFix less a i x = some (fixAt less (a.set i { (a[i]'h) with val := x } h) i a.size) := by
  unfold setFix fix fixAt
  simp [h]

theorem gv_set_ne (a : Array (E α)) (i k : Nat) (e : E α) (h : i < a.size) (hk : k ≠ i) :
    gv (a.set i e h) k = gv a k := by
  unfold gv; rw [Array.getElem?_set]; simp [Ne.symm hk]

theorem setFix_spec' (sw : StrictWeak less) (a a' : Array (E α)) (i : Nat) (x : α)
    (hH : HeapInv less a) (hI : IdxInv a) (h : setFix less a i x = some a') :
    HeapInv less a' ∧ IdxInv a' ∧ (vals a').Perm ((vals a).set i x) := by
  have hi : i < a.size := by
    by_cases hp : i < a.size
    · exact hp
    · unfold setFix at h; simp [hp] at h
  rw [setFix_eq a i x hi] at h
  simp only [Option.some.injEq] at h
  subst h
  rw [HeapInv_iff] at hH
  have hex : HeapEx less (a.set i { (a[i]'hi) with val := x } hi) a.size i :=
    HeapEx_congr a _ _ i (fun k _ hki => gv_set_ne a i k _ hi hki)
      (HeapEx_of_HeapN sw a _ i hi hH)
  refine ⟨?_, ?_, ?_⟩
  · rw [HeapInv_iff]
    simp only [size_fixAt, Array.size_set]
    exact fixAt_heap sw _ i a.size (by simp) hi hex
  · apply IdxInv_fixAt
    intro k hk
    rw [Array.getElem_set]
    split
    · rename_i hik; subst hik; exact hI i hi
    · exact hI k _
  · refine (perm_fixAt _ _ _).trans ?_
    unfold vals
    rw [Array.toList_set, List.map_set]

/-! ### operation sequences -/

theorem step_inv (sw : StrictWeak less) (op : Op α) (a a' : Array (E α))
    (hH : HeapInv less a) (hI : IdxInv a) (h : step less a op = some a') :
    HeapInv less a' ∧ IdxInv a' := by
  cases op with
  | push x =>
    simp only [step, Option.some.injEq] at h
    subst h
    exact ⟨push_heapInv sw a x hH, push_idxInv a x hI⟩
  | pop =>
    simp only [step, Option.map_eq_some_iff] at h
    obtain ⟨⟨a1, e⟩, hp, rfl⟩ := h
    have := pop_spec' sw a a1 e hH hI hp
    exact ⟨this.1, this.2.1⟩
  | remove i =>
    simp only [step, Option.map_eq_some_iff] at h
    obtain ⟨⟨a1, e⟩, hp, rfl⟩ := h
    have := remove_spec' sw a a1 e i hH hI hp
    exact ⟨this.1, this.2.1⟩
  | setFix i x =>
    simp only [step] at h
    have := setFix_spec' sw a a' i x hH hI h
    exact ⟨this.1, this.2.1⟩

theorem run_inv (sw : StrictWeak less) (ops : List (Op α)) (a₀ a : Array (E α))
    (hH : HeapInv less a₀) (hI : IdxInv a₀) (h : run less a₀ ops = some a) :
    HeapInv less a ∧ IdxInv a := by
  induction ops generalizing a₀ with
  | nil =>
    simp only [run, Option.some.injEq] at h
    subst h; exact ⟨hH, hI⟩
  | cons op ops ih =>
    simp only [run] at h
    cases hs : step less a₀ op with
    | none => rw [hs] at h; simp at h
    | some a1 =>
      rw [hs] at h
      obtain ⟨h1, h2⟩ := step_inv sw op a₀ a1 hH hI hs
      exact ih a1 h1 h2 h

/-! ### non-vacuity -/

theorem nonvacuous_example : StrictWeak (fun (x y : Nat) => decide (x < y)) ∧
    HeapInv (fun (x y : Nat) => decide (x < y)) #[⟨1, 0⟩, ⟨5, 1⟩, ⟨3, 2⟩] ∧
    IdxInv (#[⟨1, 0⟩, ⟨5, 1⟩, ⟨3, 2⟩] : Array (E Nat)) := by
  refine ⟨⟨?_, ?_, ?_⟩, ?_, ?_⟩
  · intro a; simp
  · intro a b c h1 h2; simp only [decide_eq_true_eq] at *; omega
  · intro a b c h1 h2; simp only [decide_eq_false_iff_not] at *; omega
  · intro j hj h0
    have hj' : j < 3 := hj
    have : j = 1 ∨ j = 2 := by omega
    rcases this with rfl | rfl <;> rfl
  · intro j hj
    have hj' : j < 3 := hj
    have : j = 0 ∨ j = 1 ∨ j = 2 := by omega
    rcases this with rfl | rfl | rfl <;> rfl

end LC.Heap
