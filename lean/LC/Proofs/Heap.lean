/-
Helper lemmas for LC/Props/C20Heap.lean. TO BE PROVED (no sorry may remain).
-/
import LC.Model.Heap

namespace LC.Heap
variable {α : Type} {less : α → α → Bool}

-- required by LC/Props/C20Heap.lean (names and statements are fixed):
--   push_heapInv, push_idxInv, push_perm, pop_isSome', pop_spec', remove_spec',
--   setFix_spec', run_inv, nonvacuous_example

end LC.Heap
