/- Helper lemmas for LC/Props/C05.lean. -/
import LC.Spec.TokSpec
import LC.Model.V2Env
namespace LC.V2Tok
open LC.Utf8

/-! ### a decomposition of `step` -/

/-- what a non-space rune appends to a word in progress -/
def contOf (E : Env) (r : Rune) : List Rune :=
  match E.punct r with
  | some rep => rep.map E.toLower
  | none => [E.toLower r]

/-- the newline branch of `step` -/
def nlStep (E : Env) (normalize : Bool) (s : State) : State :=
  if s.obuf ≠ [] ∧ s.obuf.getLast? = some hyphen then
    { s with obuf := s.obuf.dropLast, deferredEOL := true }
  else
    let linebuf := if s.obuf ≠ [] then s.linebuf ++ [flushWord E s.obuf] else s.linebuf
    let doc := appendLine E normalize s.doc s.line linebuf
    let obuf := if linebuf ≠ [] then [] else s.obuf
    let doc := if normalize then doc else { doc with toks := doc.toks ++ [{ word := [nl], line := s.line }] }
    { s with obuf := obuf, linebuf := [], deferredEOL := false, deferredLines := 0,
             line := s.line + 1 + (if s.deferredEOL then 1 else 0) + s.deferredLines, doc := doc }

/-- the state after flushing the word in progress on a space (before the rune is re-read) -/
def spaceFlush (E : Env) (normalize : Bool) (s : State) : State :=
  let linebuf := s.linebuf ++ [flushWord E s.obuf]
  let s1 : State :=
    if s.deferredLines > 0 then
      { s with linebuf := [], deferredLines := 0, line := s.line + s.deferredLines,
               doc := appendLine E normalize s.doc s.line linebuf }
    else { s with linebuf := linebuf }
  { s1 with obuf := [] }

/-- a non-space rune continuing a word -/
def contStep (s : State) (c : List Rune) : State :=
  let s1 := if s.deferredEOL then { s with deferredEOL := false, deferredLines := s.deferredLines + 1 } else s
  { s1 with obuf := s1.obuf ++ c }

theorem step_eq (E : Env) (n : Bool) (s : State) (r : Rune) :
    step E n s r =
      if r = nl then nlStep E n s
      else if s.obuf = [] then startOrSkip E n s r
      else if E.isSpace r then
        (if s.deferredEOL then s else startOrSkip E n (spaceFlush E n s) r)
      else contStep s (contOf E r) := by
  unfold step nlStep spaceFlush contStep contOf
  by_cases h1 : r = nl
  · simp only [h1, if_true]
  · simp only [h1, if_false]
    by_cases h2 : s.obuf = []
    · simp only [h2, if_true]
    · simp only [h2, if_false]
      by_cases h3 : E.isSpace r = true
      · simp only [h3, if_true]
      · simp only [h3]
        cases hp : E.punct r <;> rfl

/-! ### congruence under equal signatures -/

theorem step_congr' (E : Env) (n : Bool) (s : State) (r r' : Rune) (h : sig E n r = sig E n r') :
    step E n s r = step E n s r' := by
  unfold sig at h
  rw [Sig.mk.injEq] at h
  obtain ⟨hnl, hfirst, hspace, hcont⟩ := h
  have hnl' : (r = nl) ↔ (r' = nl) := by
    constructor
    · intro e
      have : (r == nl) = true := by simp [e]
      rw [hnl] at this
      simpa using this
    · intro e
      have : (r' == nl) = true := by simp [e]
      rw [← hnl] at this
      simpa using this
  have hstart : ∀ t : State, startOrSkip E n t r = startOrSkip E n t r' := by
    intro t
    unfold startOrSkip
    by_cases a : E.starter r = true <;> by_cases b : E.starter r' = true
    · simp only [a, b, if_true] at hfirst ⊢
      have := Option.some.inj hfirst
      rw [this]
    · simp [a, b] at hfirst
    · simp [a, b] at hfirst
    · simp [a, b]
  have hc : E.isSpace r = false → contOf E r = contOf E r' := by
    intro hsp
    have hsp' : E.isSpace r' = false := by rw [← hspace]; exact hsp
    simp only [hsp, hsp'] at hcont
    have := Option.some.inj hcont
    unfold contOf
    exact this
  rw [step_eq, step_eq]
  by_cases h1 : r = nl
  · have h1' := hnl'.mp h1
    simp only [h1, h1', if_true]
  · have h1' : ¬ r' = nl := fun e => h1 (hnl'.mpr e)
    simp only [h1, h1', if_false]
    rw [← hspace, hstart, hstart]
    by_cases h3 : E.isSpace r = true
    · simp only [h3, if_true]
    · have h3' : E.isSpace r = false := by simpa using h3
      rw [hc h3']

theorem scanFrom_congr (E : Env) (n : Bool) (rs rs' : List Rune)
    (h : rs.map (sig E n) = rs'.map (sig E n)) (s : State) :
    scanFrom E n s rs = scanFrom E n s rs' := by
  induction rs generalizing rs' s with
  | nil =>
    cases rs' with
    | nil => rfl
    | cons a t => simp at h
  | cons a t ih =>
    cases rs' with
    | nil => simp at h
    | cons b t' =>
      simp only [List.map_cons, List.cons.injEq] at h
      unfold scanFrom at ih ⊢
      simp only [List.foldl_cons]
      rw [step_congr' E n s a b h.1]
      exact ih t' h.2 _

theorem tokenize_congr' (E : Env) (n : Bool) (rs rs' : List Rune)
    (h : rs.map (sig E n) = rs'.map (sig E n)) : tokenizeRunes E n rs = tokenizeRunes E n rs' := by
  unfold tokenizeRunes scanRunes
  have := scanFrom_congr E n rs rs' h {}
  unfold scanFrom at this
  rw [this]

/-! ### inert runes -/

theorem skip_inert' (E : Env) (n : Bool) (s : State) (r : Rune)
    (h0 : s.obuf = []) (hr : r ≠ nl) (hs : E.starter r = false) : step E n s r = s := by
  rw [step_eq]
  simp only [hr, h0, if_true, if_false]
  unfold startOrSkip
  simp [hs]

theorem scanFrom_inert (E : Env) (n : Bool) (ins : List Rune) (s : State)
    (h0 : s.obuf = []) (hins : ∀ r ∈ ins, r ≠ nl ∧ E.starter r = false) :
    scanFrom E n s ins = s := by
  induction ins with
  | nil => rfl
  | cons a t ih =>
    unfold scanFrom at ih ⊢
    simp only [List.foldl_cons]
    rw [skip_inert' E n s a h0 (hins a (by simp)).1 (hins a (by simp)).2]
    exact ih (fun r hr => hins r (by simp [hr]))

theorem insert_inert' (E : Env) (n : Bool) (xs ins ys : List Rune)
    (h0 : (scanRunes E n xs).obuf = []) (hins : ∀ r ∈ ins, r ≠ nl ∧ E.starter r = false) :
    tokenizeRunes E n (xs ++ ins ++ ys) = tokenizeRunes E n (xs ++ ys) := by
  unfold tokenizeRunes
  congr 1
  have := scanFrom_inert E n ins (scanRunes E n xs) h0 hins
  unfold scanFrom at this
  unfold scanRunes at this ⊢
  rw [List.foldl_append, List.foldl_append, List.foldl_append, this]

/-! ### empty obuf after line ends and blanks -/

theorem obuf_empty_after_nl' (E : Env) (n : Bool) (s : State)
    (h : s.obuf.getLast? ≠ some hyphen) : (step E n s nl).obuf = [] := by
  rw [step_eq]
  simp only [if_true]
  unfold nlStep
  simp only [h, and_false, if_false]
  by_cases h2 : s.obuf = []
  · simp [h2]
  · simp [h2]

theorem space_startOrSkip (E : Env) (n : Bool) (wf : EnvWF E) (s : State) (r : Rune)
    (hsp : E.isSpace r = true) : startOrSkip E n s r = s := by
  unfold startOrSkip
  simp [wf.space_not_starter r hsp]

theorem obuf_empty_after_space' (E : Env) (n : Bool) (wf : EnvWF E) (s : State) (r : Rune)
    (hsp : E.isSpace r = true) (hr : r ≠ nl) (hd : s.deferredEOL = false) :
    (step E n s r).obuf = [] := by
  rw [step_eq]
  simp only [hr, if_false, hsp, if_true, hd, space_startOrSkip E n wf _ r hsp]
  by_cases h2 : s.obuf = []
  · simp [h2]
  · simp only [h2, if_false]
    unfold spaceFlush
    rfl

theorem crlf_equiv' (E : Env) (n : Bool) (wf : EnvWF E) (s : State) (r : Rune)
    (hsp : E.isSpace r = true) (hr : r ≠ nl)
    (hd : s.deferredEOL = false) (hw : s.deferredLines = 0) (hh : s.obuf.getLast? ≠ some hyphen) :
    step E n (step E n s r) nl = step E n s nl := by
  rw [step_eq E n s r]
  simp only [hr, if_false, hsp, if_true, hd, space_startOrSkip E n wf _ r hsp]
  by_cases h2 : s.obuf = []
  · simp [h2]
  · simp only [h2, if_false]
    rw [step_eq, step_eq]
    simp only [if_true]
    unfold nlStep spaceFlush
    simp [hw, h2, hh]

/-! ### the clean-state lemma -/

/-- the state `s` seen `k` lines further down, after a document `d` -/
def lift (d : Doc) (k : Nat) (s : State) : State :=
  { s with line := s.line + k, doc := appendDoc d (shiftDoc k s.doc) }

theorem processLine_go_shift (E : Env) (n : Bool) (k l : Nat) (ws : List Word) (i : Nat) :
    processLine.go E n (l + k) ws i = (processLine.go E n l ws i).map (shiftTok k) := by
  induction ws generalizing i with
  | nil => simp [processLine.go]
  | cons w ws ih =>
    simp only [processLine.go]
    by_cases h : cleanupToken E i w n = []
    · simp only [h, if_true]
      exact ih _
    · simp only [h, if_false, List.map_cons, ih]
      rfl

theorem appendLine_lift (E : Env) (n : Bool) (d x : Doc) (k l : Nat) (lb : List Word) :
    appendLine E n (appendDoc d (shiftDoc k x)) (l + k) lb =
      appendDoc d (shiftDoc k (appendLine E n x l lb)) := by
  unfold appendLine
  by_cases h : lb = []
  · simp only [h, if_true]
  · simp only [h, if_false]
    unfold processLine
    by_cases hi : E.ignorable (joinLine lb) = true
    · simp only [hi, if_true]
      simp [appendDoc, shiftDoc]
    · simp only [hi]
      simp [appendDoc, shiftDoc, processLine_go_shift]

theorem startOrSkip_lift (E : Env) (n : Bool) (d : Doc) (k : Nat) (s : State) (r : Rune) :
    startOrSkip E n (lift d k s) r = lift d k (startOrSkip E n s r) := by
  unfold startOrSkip
  by_cases h : E.starter r = true
  · simp only [h, if_true]; rfl
  · simp [h]

theorem contStep_lift (d : Doc) (k : Nat) (s : State) (c : List Rune) :
    contStep (lift d k s) c = lift d k (contStep s c) := by
  unfold contStep
  by_cases h : s.deferredEOL = true
  · have : (lift d k s).deferredEOL = true := h
    simp only [h, this, if_true]; rfl
  · have : ¬ (lift d k s).deferredEOL = true := h
    simp only [h, this]; rfl

theorem spaceFlush_lift (E : Env) (n : Bool) (d : Doc) (k : Nat) (s : State) :
    spaceFlush E n (lift d k s) = lift d k (spaceFlush E n s) := by
  unfold spaceFlush
  have hdl : (lift d k s).deferredLines = s.deferredLines := rfl
  simp only [hdl]
  by_cases h : s.deferredLines > 0
  · simp only [h, if_true]
    simp only [lift, appendLine_lift, Nat.add_right_comm]
  · simp only [h, if_false]; rfl

theorem nlStep_lift (E : Env) (n : Bool) (d : Doc) (k : Nat) (s : State) :
    nlStep E n (lift d k s) = lift d k (nlStep E n s) := by
  unfold nlStep
  have ho : (lift d k s).obuf = s.obuf := rfl
  have hl : (lift d k s).linebuf = s.linebuf := rfl
  have hli : (lift d k s).line = s.line + k := rfl
  have hd : (lift d k s).doc = appendDoc d (shiftDoc k s.doc) := rfl
  have hdw : (lift d k s).deferredLines = s.deferredLines := rfl
  have hde : (lift d k s).deferredEOL = s.deferredEOL := rfl
  simp only [ho, hl, hli, hd, hdw, hde]
  by_cases h : s.obuf ≠ [] ∧ s.obuf.getLast? = some hyphen
  · rw [if_pos h, if_pos h]; rfl
  · rw [if_neg h, if_neg h]
    rw [appendLine_lift]
    cases n
    · simp [lift, appendDoc, shiftDoc, shiftTok, Nat.add_right_comm]
    · simp [lift, Nat.add_right_comm]

theorem step_lift (E : Env) (n : Bool) (d : Doc) (k : Nat) (s : State) (r : Rune) :
    step E n (lift d k s) r = lift d k (step E n s r) := by
  rw [step_eq, step_eq]
  have ho : (lift d k s).obuf = s.obuf := rfl
  have hde : (lift d k s).deferredEOL = s.deferredEOL := rfl
  simp only [ho, hde, nlStep_lift, startOrSkip_lift, spaceFlush_lift, contStep_lift]
  split
  · rfl
  · split
    · rfl
    · split
      · split <;> rfl
      · rfl

theorem scanFrom_lift (E : Env) (n : Bool) (d : Doc) (k : Nat) (ys : List Rune) (s : State) :
    scanFrom E n (lift d k s) ys = lift d k (scanFrom E n s ys) := by
  induction ys generalizing s with
  | nil => rfl
  | cons a t ih =>
    unfold scanFrom at ih ⊢
    simp only [List.foldl_cons]
    rw [step_lift]
    exact ih _

theorem finish_lift (E : Env) (n : Bool) (d : Doc) (k : Nat) (s : State) :
    finish E n (lift d k s) = appendDoc d (shiftDoc k (finish E n s)) := by
  unfold finish
  have ho : (lift d k s).obuf = s.obuf := rfl
  have hl : (lift d k s).linebuf = s.linebuf := rfl
  have hli : (lift d k s).line = s.line + k := rfl
  have hd : (lift d k s).doc = appendDoc d (shiftDoc k s.doc) := rfl
  simp only [ho, hl, hli, hd, appendLine_lift]

theorem clean_eq_lift (s : State) (hc : Clean s) (hl : 1 ≤ s.line) :
    s = lift s.doc (s.line - 1) {} := by
  obtain ⟨h1, h2, h3, h4⟩ := hc
  cases s with
  | mk obuf linebuf line deferredEOL deferredLines doc =>
    simp only at h1 h2 h3 h4 hl
    subst h1 h2 h3 h4
    cases doc with
    | mk toks cr =>
      simp only [lift, appendDoc, shiftDoc, List.map_nil, List.append_nil]
      congr 1
      omega

theorem tokenize_from_clean' (E : Env) (n : Bool) (s : State) (hc : Clean s) (hl : 1 ≤ s.line)
    (ys : List Rune) :
    finish E n (scanFrom E n s ys) =
      appendDoc s.doc (shiftDoc (s.line - 1) (tokenizeRunes E n ys)) := by
  have h := clean_eq_lift s hc hl
  have e : finish E n (scanFrom E n s ys) =
      finish E n (scanFrom E n (lift s.doc (s.line - 1) {}) ys) := by rw [← h]
  rw [e, scanFrom_lift, finish_lift]
  rfl

theorem step_nl_clean (E : Env) (s : State) (hc : Clean s) :
    step E true s nl = { s with line := s.line + 1 } := by
  obtain ⟨h1, h2, h3, h4⟩ := hc
  rw [step_eq]
  simp only [if_true]
  unfold nlStep
  cases s with
  | mk obuf linebuf line deferredEOL deferredLines doc =>
    simp only at h1 h2 h3 h4
    subst h1 h2 h3 h4
    simp [appendLine]

theorem blank_line_shift' (E : Env) (xs ys : List Rune) (hc : Clean (scanRunes E true xs))
    (hl : 1 ≤ (scanRunes E true xs).line) :
    tokenizeRunes E true (xs ++ [nl] ++ ys) =
      appendDoc (scanRunes E true xs).doc
        (shiftDoc ((scanRunes E true xs).line) (tokenizeRunes E true ys)) ∧
    tokenizeRunes E true (xs ++ ys) =
      appendDoc (scanRunes E true xs).doc
        (shiftDoc ((scanRunes E true xs).line - 1) (tokenizeRunes E true ys)) := by
  constructor
  · have e : tokenizeRunes E true (xs ++ [nl] ++ ys) =
        finish E true (scanFrom E true (step E true (scanRunes E true xs) nl) ys) := by
      unfold tokenizeRunes scanRunes scanFrom
      simp only [List.foldl_append, List.foldl_cons, List.foldl_nil]
    rw [e, step_nl_clean E _ hc]
    have hc' : Clean { scanRunes E true xs with line := (scanRunes E true xs).line + 1 } := hc
    have := tokenize_from_clean' E true _ hc' (by simp) ys
    simpa using this
  · have e : tokenizeRunes E true (xs ++ ys) =
        finish E true (scanFrom E true (scanRunes E true xs) ys) := by
      unfold tokenizeRunes scanRunes scanFrom
      simp only [List.foldl_append]
    rw [e]
    exact tokenize_from_clean' E true _ hc hl ys

open LC.V2Env LC.Gen.Unicode

/-! ### the Go tables -/

/-- the binary search of `inRanges` run on a whole interval `[L, H]` of runes at once: `some b`
when every rune of the interval follows the same path and gets the answer `b` -/
def uniform (a : Array (Nat × Nat)) (L H : Nat) (lo hi fuel : Nat) : Option Bool :=
  match fuel with
  | 0 => some false
  | fuel + 1 =>
    if lo < hi then
      if H < (a[(lo + hi) / 2]!).1 then uniform a L H lo ((lo + hi) / 2) fuel
      else if (a[(lo + hi) / 2]!).1 ≤ L ∧ (a[(lo + hi) / 2]!).2 < L then
        uniform a L H ((lo + hi) / 2 + 1) hi fuel
      else if (a[(lo + hi) / 2]!).1 ≤ L ∧ H ≤ (a[(lo + hi) / 2]!).2 then some true
      else none
    else some false

theorem uniform_sound (a : Array (Nat × Nat)) (L H r : Nat) (hL : L ≤ r) (hH : r ≤ H) (b : Bool)
    (fuel : Nat) : ∀ lo hi, uniform a L H lo hi fuel = some b → inRanges.go a r lo hi fuel = b := by
  induction fuel with
  | zero =>
    intro lo hi h
    simp only [uniform, Option.some.injEq] at h
    simp [inRanges.go, h]
  | succ f ih =>
    intro lo hi h
    unfold uniform at h
    unfold inRanges.go
    by_cases hlt : lo < hi
    · simp only [hlt, if_true] at h ⊢
      by_cases h1 : H < (a[(lo + hi) / 2]!).1
      · simp only [h1, if_true] at h
        have : r < (a[(lo + hi) / 2]!).1 := by omega
        simp only [this, if_true]
        exact ih _ _ h
      · simp only [h1, if_false] at h
        by_cases h2 : (a[(lo + hi) / 2]!).1 ≤ L ∧ (a[(lo + hi) / 2]!).2 < L
        · simp only [h2, and_self, if_true] at h
          have n1 : ¬ r < (a[(lo + hi) / 2]!).1 := by omega
          have n2 : r > (a[(lo + hi) / 2]!).2 := by omega
          simp only [n1, n2, if_true, if_false]
          exact ih _ _ h
        · simp only [h2, if_false] at h
          by_cases h3 : (a[(lo + hi) / 2]!).1 ≤ L ∧ H ≤ (a[(lo + hi) / 2]!).2
          · simp only [h3, and_self, if_true, Option.some.injEq] at h
            have n1 : ¬ r < (a[(lo + hi) / 2]!).1 := by omega
            have n2 : ¬ r > (a[(lo + hi) / 2]!).2 := by omega
            simp only [n1, n2, if_false]
            exact h
          · simp [h3] at h
    · simp only [hlt, if_false, Option.some.injEq] at h
      simp [hlt, h]

/-- a list of interval checks `(L, H, b)` against one table -/
def uniformAll (a : Array (Nat × Nat)) (l : List (Nat × Nat × Bool)) : Bool :=
  l.all (fun q => uniform a q.1 q.2.1 0 a.size 64 == some q.2.2)

theorem uniformAll_sound (a : Array (Nat × Nat)) (l : List (Nat × Nat × Bool)) (h : uniformAll a l = true)
    (L H : Nat) (b : Bool) (hm : (L, H, b) ∈ l) (r : Nat) (hL : L ≤ r) (hH : r ≤ H) :
    inRanges a r = b := by
  unfold uniformAll at h
  rw [List.all_eq_true] at h
  have := h _ hm
  simp only [beq_iff_eq] at this
  exact uniform_sound a L H r hL hH b 64 0 a.size this

def letterChecks : List (Nat × Nat × Bool) :=
  [(0, 64, false), (65, 90, true), (91, 96, false), (97, 122, true), (123, 169, false),
   (5760, 5760, false), (8189, 8304, false), (12288, 12288, false)]

theorem letterChecks_ok : uniformAll letterRanges letterChecks = true := by decide +kernel

def digitChecks : List (Nat × Nat × Bool) :=
  [(0, 47, false), (58, 1631, false), (4250, 6111, false), (7258, 42527, false)]

theorem digitChecks_ok : uniformAll digitRanges digitChecks = true := by decide +kernel

def spaceChecks : List (Nat × Nat × Bool) :=
  [(9, 13, true), (14, 31, false), (32, 32, true), (33, 132, false), (134, 159, false),
   (160, 160, true), (8203, 8231, false)]

theorem spaceChecks_ok : uniformAll spaceRanges spaceChecks = true := by decide +kernel

theorem isLetter_true (r : Nat) (h : 65 ≤ r ∧ r ≤ 90 ∨ 97 ≤ r ∧ r ≤ 122) :
    LC.V2Env.isLetter r = true := by
  rcases h with h | h
  · exact uniformAll_sound _ _ letterChecks_ok 65 90 true (by simp [letterChecks]) r h.1 h.2
  · exact uniformAll_sound _ _ letterChecks_ok 97 122 true (by simp [letterChecks]) r h.1 h.2

theorem isLetter_false (r : Nat)
    (h : r ≤ 64 ∨ 91 ≤ r ∧ r ≤ 96 ∨ 123 ≤ r ∧ r ≤ 169 ∨ r = 5760 ∨ 8189 ≤ r ∧ r ≤ 8304 ∨ r = 12288) :
    LC.V2Env.isLetter r = false := by
  rcases h with h | h | h | h | h | h
  · exact uniformAll_sound _ _ letterChecks_ok 0 64 false (by simp [letterChecks]) r (by omega) h
  · exact uniformAll_sound _ _ letterChecks_ok 91 96 false (by simp [letterChecks]) r h.1 h.2
  · exact uniformAll_sound _ _ letterChecks_ok 123 169 false (by simp [letterChecks]) r h.1 h.2
  · exact uniformAll_sound _ _ letterChecks_ok 5760 5760 false (by simp [letterChecks]) r (by omega) (by omega)
  · exact uniformAll_sound _ _ letterChecks_ok 8189 8304 false (by simp [letterChecks]) r h.1 h.2
  · exact uniformAll_sound _ _ letterChecks_ok 12288 12288 false (by simp [letterChecks]) r (by omega) (by omega)

theorem isDigit_false (r : Nat)
    (h : r ≤ 47 ∨ 58 ≤ r ∧ r ≤ 1631 ∨ 4250 ≤ r ∧ r ≤ 6111 ∨ 7258 ≤ r ∧ r ≤ 42527) :
    LC.V2Env.isDigit r = false := by
  rcases h with h | h | h | h
  · exact uniformAll_sound _ _ digitChecks_ok 0 47 false (by simp [digitChecks]) r (by omega) h
  · exact uniformAll_sound _ _ digitChecks_ok 58 1631 false (by simp [digitChecks]) r h.1 h.2
  · exact uniformAll_sound _ _ digitChecks_ok 4250 6111 false (by simp [digitChecks]) r h.1 h.2
  · exact uniformAll_sound _ _ digitChecks_ok 7258 42527 false (by simp [digitChecks]) r h.1 h.2

theorem isSpace_true (r : Nat) (h : 9 ≤ r ∧ r ≤ 13 ∨ r = 32 ∨ r = 160) :
    LC.V2Env.isSpace r = true := by
  rcases h with h | h | h
  · exact uniformAll_sound _ _ spaceChecks_ok 9 13 true (by simp [spaceChecks]) r h.1 h.2
  · exact uniformAll_sound _ _ spaceChecks_ok 32 32 true (by simp [spaceChecks]) r (by omega) (by omega)
  · exact uniformAll_sound _ _ spaceChecks_ok 160 160 true (by simp [spaceChecks]) r (by omega) (by omega)

theorem isSpace_false (r : Nat)
    (h : 14 ≤ r ∧ r ≤ 31 ∨ 33 ≤ r ∧ r ≤ 132 ∨ 134 ≤ r ∧ r ≤ 159 ∨ 8203 ≤ r ∧ r ≤ 8231) :
    LC.V2Env.isSpace r = false := by
  rcases h with h | h | h | h
  · exact uniformAll_sound _ _ spaceChecks_ok 14 31 false (by simp [spaceChecks]) r h.1 h.2
  · exact uniformAll_sound _ _ spaceChecks_ok 33 132 false (by simp [spaceChecks]) r h.1 h.2
  · exact uniformAll_sound _ _ spaceChecks_ok 134 159 false (by simp [spaceChecks]) r h.1 h.2
  · exact uniformAll_sound _ _ spaceChecks_ok 8203 8231 false (by simp [spaceChecks]) r h.1 h.2

/-- the binary search of `toLower` on a whole interval: `some none` when no rune of the interval is
in a case range, `some (some (s, t))` when all are in the range starting at `s` mapped to `t`. -/
def uniformLower (a : Array (Nat × Nat × Nat)) (L H : Nat) (lo hi fuel : Nat) :
    Option (Option (Nat × Nat)) :=
  match fuel with
  | 0 => some none
  | fuel + 1 =>
    if lo < hi then
      if H < (a[(lo + hi) / 2]!).1 then uniformLower a L H lo ((lo + hi) / 2) fuel
      else if (a[(lo + hi) / 2]!).1 ≤ L ∧ (a[(lo + hi) / 2]!).2.1 < L then
        uniformLower a L H ((lo + hi) / 2 + 1) hi fuel
      else if (a[(lo + hi) / 2]!).1 ≤ L ∧ H ≤ (a[(lo + hi) / 2]!).2.1 then
        some (some ((a[(lo + hi) / 2]!).1, (a[(lo + hi) / 2]!).2.2))
      else none
    else some none

def lowerResult (r : Nat) : Option (Nat × Nat) → Nat
  | none => r
  | some (s, t) => t + (r - s)

theorem uniformLower_sound (a : Array (Nat × Nat × Nat)) (L H r : Nat) (hL : L ≤ r) (hH : r ≤ H)
    (q : Option (Nat × Nat)) (fuel : Nat) :
    ∀ lo hi, uniformLower a L H lo hi fuel = some q →
      toLower.go r a lo hi fuel = lowerResult r q := by
  induction fuel with
  | zero =>
    intro lo hi h
    simp only [uniformLower, Option.some.injEq] at h
    simp [toLower.go, ← h, lowerResult]
  | succ f ih =>
    intro lo hi h
    unfold uniformLower at h
    unfold toLower.go
    by_cases hlt : lo < hi
    · simp only [hlt, if_true] at h ⊢
      by_cases h1 : H < (a[(lo + hi) / 2]!).1
      · simp only [h1, if_true] at h
        have : r < (a[(lo + hi) / 2]!).1 := by omega
        simp only [this, if_true]
        exact ih _ _ h
      · simp only [h1, if_false] at h
        by_cases h2 : (a[(lo + hi) / 2]!).1 ≤ L ∧ (a[(lo + hi) / 2]!).2.1 < L
        · simp only [h2, and_self, if_true] at h
          have n1 : ¬ r < (a[(lo + hi) / 2]!).1 := by omega
          have n2 : r > (a[(lo + hi) / 2]!).2.1 := by omega
          simp only [n1, n2, if_true, if_false]
          exact ih _ _ h
        · simp only [h2, if_false] at h
          by_cases h3 : (a[(lo + hi) / 2]!).1 ≤ L ∧ H ≤ (a[(lo + hi) / 2]!).2.1
          · simp only [h3, and_self, if_true, Option.some.injEq] at h
            have n1 : ¬ r < (a[(lo + hi) / 2]!).1 := by omega
            have n2 : ¬ r > (a[(lo + hi) / 2]!).2.1 := by omega
            simp only [n1, n2, if_false]
            rw [← h]
            rfl
          · simp [h3] at h
    · simp only [hlt, if_false, Option.some.injEq] at h
      simp [hlt, ← h, lowerResult]

def lowerChecks : List (Nat × Nat × Option (Nat × Nat)) :=
  [(0, 64, none), (65, 90, some (65, 97)), (91, 191, none)]

def uniformLowerAll (a : Array (Nat × Nat × Nat)) (l : List (Nat × Nat × Option (Nat × Nat))) : Bool :=
  l.all (fun q => uniformLower a q.1 q.2.1 0 a.size 64 == some q.2.2)

theorem lowerChecks_ok : uniformLowerAll lowerRanges lowerChecks = true := by decide +kernel

theorem toLower_of_check (L H : Nat) (q : Option (Nat × Nat)) (hm : (L, H, q) ∈ lowerChecks)
    (r : Nat) (hL : L ≤ r) (hH : r ≤ H) : LC.V2Env.toLower r = lowerResult r q := by
  have h := lowerChecks_ok
  unfold uniformLowerAll at h
  rw [List.all_eq_true] at h
  have := h _ hm
  simp only [beq_iff_eq] at this
  exact uniformLower_sound lowerRanges L H r hL hH q 64 0 lowerRanges.size this

theorem toLower_id (r : Nat) (h : r ≤ 64 ∨ 91 ≤ r ∧ r ≤ 191) : LC.V2Env.toLower r = r := by
  rcases h with h | h
  · exact toLower_of_check 0 64 none (by simp [lowerChecks]) r (by omega) h
  · exact toLower_of_check 91 191 none (by simp [lowerChecks]) r h.1 h.2

theorem toLower_upper (r : Nat) (h : 65 ≤ r ∧ r ≤ 90) : LC.V2Env.toLower r = r + 32 := by
  have := toLower_of_check 65 90 (some (65, 97)) (by simp [lowerChecks]) r h.1 h.2
  rw [this]
  show 97 + (r - 65) = r + 32
  omega

theorem punct_none (r : Nat)
    (h : r ≠ 42 ∧ r ≠ 45 ∧ r ≠ 164 ∧ r ≠ 167 ∧ r ≠ 169 ∧ r ≠ 183 ∧ r ≠ 8208 ∧ r ≠ 8210 ∧ r ≠ 8211 ∧
      r ≠ 8212) : LC.V2Env.punct r = none := by
  obtain ⟨h1, h2, h3, h4, h5, h6, h7, h8, h9, h10⟩ := h
  simp [LC.V2Env.punct, LC.Gen.V2.punctuationMappings, List.find?, Ne.symm h1, Ne.symm h2, Ne.symm h3, Ne.symm h4,
    Ne.symm h5, Ne.symm h6, Ne.symm h7, Ne.symm h8, Ne.symm h9, Ne.symm h10]

theorem punct_dash (r : Nat) (h : r = 45 ∨ r = 8208 ∨ r = 8210 ∨ r = 8211 ∨ r = 8212) :
    LC.V2Env.punct r = some [45] := by
  rcases h with h | h | h | h | h <;> subst h <;> decide

/-- `sig` of the Go environment, which does not involve the entity decoder -/
def gsig (c : Nat) : Sig where
  isNl := c == nl
  first := if (LC.V2Env.isLetter c || LC.V2Env.isDigit c || c = 38 || c = 40) then
    some (LC.V2Env.toLower c) else none
  space := LC.V2Env.isSpace c
  cont := if LC.V2Env.isSpace c then none else
    some (match LC.V2Env.punct c with
      | some rep => rep.map LC.V2Env.toLower
      | none => [LC.V2Env.toLower c])

theorem sig_goEnv (u : Word → Word) (c : Nat) : sig (goEnv u) true c = gsig c := by
  unfold sig gsig goEnv Env.starter
  simp only [if_true]
  rfl

theorem starter_goEnv (u : Word → Word) (c : Nat) :
    (goEnv u).starter c = (LC.V2Env.isLetter c || LC.V2Env.isDigit c || c = 38 || c = 40) := by
  unfold Env.starter goEnv
  simp only []

theorem ascii_case_sig' (u : Word → Word) (c : Nat) (h : 65 ≤ c ∧ c ≤ 90) :
    sig (goEnv u) true c = sig (goEnv u) true (c + 32) := by
  rw [sig_goEnv, sig_goEnv]
  unfold gsig
  have l1 := isLetter_true c (by omega)
  have l2 := isLetter_true (c + 32) (by omega)
  have s1 := isSpace_false c (by omega)
  have s2 := isSpace_false (c + 32) (by omega)
  have t1 := toLower_upper c h
  have t2 := toLower_id (c + 32) (by omega)
  have p1 := punct_none c (by omega)
  have p2 := punct_none (c + 32) (by omega)
  have n1 : (c == nl) = false := by simp [nl]; omega
  have n2 : (c + 32 == nl) = false := by simp [nl]
  simp [l1, l2, s1, s2, t1, t2, p1, p2, n1, n2]

theorem dash_sig' (u : Word → Word) (c : Nat)
    (h : c = 0x2010 ∨ c = 0x2012 ∨ c = 0x2013 ∨ c = 0x2014) :
    sig (goEnv u) true c = sig (goEnv u) true 45 := by
  rw [sig_goEnv, sig_goEnv]
  unfold gsig
  have l1 := isLetter_false c (by omega)
  have l2 := isLetter_false 45 (by omega)
  have d1 := isDigit_false c (by omega)
  have d2 := isDigit_false 45 (by omega)
  have s1 := isSpace_false c (by omega)
  have s2 := isSpace_false 45 (by omega)
  have t := toLower_id 45 (by omega)
  have p1 := punct_dash c (by omega)
  have p2 := punct_dash 45 (by omega)
  have n1 : (c == nl) = false := by simp [nl]; omega
  have n2 : ((45 : Nat) == nl) = false := by simp [nl]
  have e1 : ¬ c = 38 := by omega
  have e2 : ¬ c = 40 := by omega
  simp [l1, l2, d1, d2, s1, s2, t, p1, p2, n1, n2, e1, e2]

theorem blank_sig' (u : Word → Word) (c : Nat)
    (h : c = 9 ∨ c = 13 ∨ c = 12 ∨ c = 11 ∨ c = 0xA0) :
    sig (goEnv u) true c = sig (goEnv u) true 32 := by
  rw [sig_goEnv, sig_goEnv]
  unfold gsig
  have l1 := isLetter_false c (by omega)
  have l2 := isLetter_false 32 (by omega)
  have d1 := isDigit_false c (by omega)
  have d2 := isDigit_false 32 (by omega)
  have s1 := isSpace_true c (by omega)
  have s2 := isSpace_true 32 (by omega)
  have n1 : (c == nl) = false := by simp [nl]; omega
  have n2 : ((32 : Nat) == nl) = false := by simp [nl]
  have e1 : ¬ c = 38 := by omega
  have e2 : ¬ c = 40 := by omega
  simp [l1, l2, d1, d2, s1, s2, n1, n2, e1, e2]

theorem decoration_not_starter' (u : Word → Word) (c : Nat)
    (h : c ∈ [47, 35, 42, 59, 45, 62, 124, 37, 32, 9, 13]) : (goEnv u).starter c = false := by
  rw [starter_goEnv]
  simp only [List.mem_cons, List.not_mem_nil, or_false] at h
  have l1 := isLetter_false c (by omega)
  have d1 := isDigit_false c (by omega)
  have e1 : ¬ c = 38 := by omega
  have e2 : ¬ c = 40 := by omega
  simp [l1, d1, e1, e2]

theorem inRanges_go_sound (a : Array (Nat × Nat)) (r : Nat) (fuel : Nat) :
    ∀ lo hi, hi ≤ a.size → inRanges.go a r lo hi fuel = true →
      ∃ p ∈ a.toList, p.1 ≤ r ∧ r ≤ p.2 := by
  induction fuel with
  | zero => intro lo hi _ h; simp [inRanges.go] at h
  | succ f ih =>
    intro lo hi hs h
    unfold inRanges.go at h
    by_cases hlt : lo < hi
    · simp only [hlt, if_true] at h
      have hm : (lo + hi) / 2 < a.size := by omega
      by_cases h1 : r < (a[(lo + hi) / 2]!).1
      · simp only [h1, if_true] at h
        exact ih _ _ (by omega) h
      · simp only [h1, if_false] at h
        by_cases h2 : r > (a[(lo + hi) / 2]!).2
        · simp only [h2, if_true] at h
          exact ih _ _ hs h
        · refine ⟨a[(lo + hi) / 2]!, ?_, by omega, by omega⟩
          rw [getElem!_pos a _ hm]
          exact Array.getElem_mem_toList hm
    · simp [hlt] at h

theorem isSpace_cases (r : Nat) (h : LC.V2Env.isSpace r = true) :
    9 ≤ r ∧ r ≤ 13 ∨ r = 32 ∨ r = 133 ∨ r = 160 ∨ r = 5760 ∨ 8192 ≤ r ∧ r ≤ 8202 ∨
      8232 ≤ r ∧ r ≤ 8233 ∨ r = 8239 ∨ r = 8287 ∨ r = 12288 := by
  obtain ⟨p, hp, h1, h2⟩ := inRanges_go_sound spaceRanges r 64 0 _ (Nat.le_refl _) h
  simp only [spaceRanges, List.mem_cons, List.not_mem_nil, or_false] at hp
  rcases hp with hp | hp | hp | hp | hp | hp | hp | hp | hp | hp <;> subst hp <;> simp only at h1 h2 <;> omega

theorem space_not_starter_go (u : Word → Word) (r : Nat) (h : LC.V2Env.isSpace r = true) :
    (goEnv u).starter r = false := by
  have hc := isSpace_cases r h
  rw [starter_goEnv]
  have l1 := isLetter_false r (by omega)
  have d1 := isDigit_false r (by omega)
  have e1 : ¬ r = 38 := by omega
  have e2 : ¬ r = 40 := by omega
  simp [l1, d1, e1, e2]

theorem goEnv_wf' (u : Word → Word) : EnvWF (goEnv u) where
  space_not_starter := fun r h => space_not_starter_go u r h
  nl_space := isSpace_true 10 (by omega)

end LC.V2Tok
