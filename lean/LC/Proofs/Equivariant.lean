/-
Helper lemmas for `match_equivariant` (LC/Props/C04.lean): the matching pipeline looks at token
ids only through equality tests and through the dictionary `wordOf`, so an injective renaming
of the ids (with the dictionary renamed accordingly) leaves every stage unchanged.
-/
import LC.Model.V2Match
import LC.Model.Score

namespace LC.V2Match
open LC.Score

/-- a document / the target tokens / a diff segment with every id replaced by its image under σ -/
def mapKDoc (σ : Nat → Nat) (d : KDoc) : KDoc := { d with ids := d.ids.map σ }
def mapTarget (σ : Nat → Nat) (t : Array IdTok) : Array IdTok := t.map (fun x => { x with id := σ x.id })
def mapDiff (σ : Nat → Nat) (x : Diff Nat) : Diff Nat := { x with words := x.words.map σ }

/-! ### q-gram hashes -/

theorem eqv_hashes_map (crc : Text → Nat) (wordOf wordOf' : Nat → Text) (σ : Nat → Nat)
    (hw : ∀ i, wordOf' (σ i) = wordOf i) (q : Nat) (ids : List Nat) :
    hashes crc wordOf' q (ids.map σ) = hashes crc wordOf q ids := by
  unfold hashes
  split
  · rfl
  · rw [List.length_map]
    apply List.map_congr_left
    intro off _
    rw [← List.map_drop, ← List.map_take, List.flatMap_map]
    simp only [hw]

/-! ### frequencies -/

theorem eqv_countOf_map (σ : Nat → Nat) (hσ : ∀ a b, σ a = σ b → a = b) (l : List Nat) (t : Nat) :
    countOf (l.map σ) (σ t) = countOf l t := by
  unfold countOf
  induction l with
  | nil => rfl
  | cons a l ih =>
    rw [List.map_cons, List.count_cons, List.count_cons, ih]
    by_cases h : a = t
    · subst h; simp
    · have : σ a ≠ σ t := fun e => h (hσ _ _ e)
      simp [h, this]

theorem eqv_eraseDups_map (σ : Nat → Nat) (hσ : ∀ a b, σ a = σ b → a = b) :
    ∀ (n : Nat) (l : List Nat), l.length ≤ n → (l.map σ).eraseDups = l.eraseDups.map σ := by
  intro n
  induction n with
  | zero =>
    intro l hl
    cases l with
    | nil => rfl
    | cons a l => simp at hl
  | succ n ih =>
    intro l hl
    cases l with
    | nil => rfl
    | cons a l =>
      rw [List.map_cons, List.eraseDups_cons, List.eraseDups_cons, List.map_cons, List.filter_map]
      have hf : ((fun b => !b == σ a) ∘ σ) = (fun b => !b == a) := by
        funext b
        by_cases h : b = a
        · subst h; simp
        · have hne : σ b ≠ σ a := fun e => h (hσ _ _ e)
          have e1 : (σ b == σ a) = false := by simpa using hne
          have e2 : (b == a) = false := by simpa using h
          simp only [Function.comp, e1, e2]
      rw [hf, ih]
      have := List.length_filter_le (fun b => !b == a) l
      simp at hl
      omega

theorem eqv_distinct_map (σ : Nat → Nat) (hσ : ∀ a b, σ a = σ b → a = b) (l : List Nat) :
    distinct (l.map σ) = (distinct l).map σ :=
  eqv_eraseDups_map σ hσ l.length l (Nat.le_refl _)

theorem eqv_tokenSimWith_map (σ : Nat → Nat) (hσ : ∀ a b, σ a = σ b → a = b) (tids ids : List Nat) :
    tokenSimWith (countOf (tids.map σ)) (countOf (ids.map σ)) (distinct (ids.map σ)) =
      tokenSimWith (countOf tids) (countOf ids) (distinct ids) := by
  unfold tokenSimWith
  rw [eqv_distinct_map σ hσ, List.filter_map, List.length_map, List.length_map]
  have : ((fun t => decide (countOf (tids.map σ) t ≥ countOf (ids.map σ) t)) ∘ σ) =
      (fun t => decide (countOf tids t ≥ countOf ids t)) := by
    funext t
    simp only [Function.comp, eqv_countOf_map σ hσ]
  rw [this]

/-! ### the word-level score -/

theorem eqv_joinWords_map (wordOf wordOf' : Nat → Text) (σ : Nat → Nat)
    (hw : ∀ i, wordOf' (σ i) = wordOf i) : ∀ ws : List Nat,
    joinWords wordOf' (ws.map σ) = joinWords wordOf ws
  | [] => rfl
  | [w] => by simp [joinWords, hw]
  | w :: w' :: ws => by
    have ih := eqv_joinWords_map wordOf wordOf' σ hw (w' :: ws)
    simp only [List.map_cons] at ih ⊢
    simp only [joinWords, hw, ih]

theorem eqv_levWordAux_map (σ : Nat → Nat) : ∀ (ds : List (Diff Nat)) (l i d : Nat),
    levWordAux (ds.map (mapDiff σ)) l i d = levWordAux ds l i d
  | [], _, _, _ => rfl
  | x :: xs, l, i, d => by
    simp only [List.map_cons, levWordAux, mapDiff, List.length_map]
    cases x.op <;> simp only [eqv_levWordAux_map σ xs]

theorem eqv_levWord_map (σ : Nat → Nat) (ds : List (Diff Nat)) :
    levWord (ds.map (mapDiff σ)) = levWord ds := eqv_levWordAux_map σ ds 0 0 0

theorem eqv_textLength_map (σ : Nat → Nat) (ds : List (Diff Nat)) :
    textLength (ds.map (mapDiff σ)) = textLength ds := by
  unfold textLength
  rw [List.map_map]
  congr 1
  apply List.map_congr_left
  intro x _
  simp [mapDiff]

theorem eqv_diffRangeAux_map (σ : Nat → Nat) (hσ : ∀ a b, σ a = σ b → a = b) (known : List Nat) :
    ∀ (ds : List (Diff Nat)) (idx : Nat) (start : Option Nat) (seen : List Nat),
    diffRangeAux (known.map σ) (ds.map (mapDiff σ)) idx start (seen.map σ) =
      diffRangeAux known ds idx start seen
  | [], _, _, _ => rfl
  | ⟨op, ws⟩ :: xs, idx, start, seen => by
    have h1 : (seen.map σ ≠ [] ∧ seen.map σ = known.map σ) ↔ (seen ≠ [] ∧ seen = known) := by
      rw [List.map_inj_right hσ, Ne, List.map_eq_nil_iff]
    have h2 := eqv_diffRangeAux_map σ hσ known xs (idx + 1) start seen
    have h3 := eqv_diffRangeAux_map σ hσ known xs (idx + 1) (some (start.getD idx)) (seen ++ ws)
    rw [List.map_append] at h3
    simp only [List.map_cons, diffRangeAux, mapDiff]
    by_cases c : seen ≠ [] ∧ seen = known
    · rw [if_pos (h1.mpr c), if_pos c]
    · rw [if_neg (fun h => c (h1.mp h)), if_neg c]
      by_cases c2 : op = .del
      · rw [if_pos c2, if_pos c2]; exact h2
      · rw [if_neg c2, if_neg c2]; exact h3

theorem eqv_diffRange_map (σ : Nat → Nat) (hσ : ∀ a b, σ a = σ b → a = b) (known : List Nat)
    (ds : List (Diff Nat)) :
    diffRange (known.map σ) (ds.map (mapDiff σ)) = diffRange known ds :=
  eqv_diffRangeAux_map σ hσ known ds 0 none []

theorem eqv_score_map {C : Type} (N : NumEnv C) (wordOf wordOf' : Nat → Text) (isDigitRune : Nat → Bool)
    (decode : Text → List Nat) (induced : List (Text × List Text))
    (σ : Nat → Nat) (hσ : ∀ a b, σ a = σ b → a = b) (hw : ∀ i, wordOf' (σ i) = wordOf i)
    (d : KDoc) (ds : List (Diff Nat)) :
    score N wordOf' isDigitRune decode induced (mapKDoc σ d) (ds.map (mapDiff σ)) =
      score N wordOf isDigitRune decode induced d ds := by
  unfold score
  have hids : (mapKDoc σ d).ids = d.ids.map σ := rfl
  have hname : (mapKDoc σ d).name = d.name := rfl
  simp only [hids, hname, eqv_diffRange_map σ hσ, List.length_map]
  rw [← List.map_take, ← List.map_take, ← List.map_drop, ← List.map_drop, List.map_map,
    eqv_levWord_map, eqv_textLength_map, eqv_textLength_map]
  have : ((fun x => ({ op := x.op, text := joinWords wordOf' x.words } : TDiff)) ∘ mapDiff σ) =
      (fun x => ({ op := x.op, text := joinWords wordOf x.words } : TDiff)) := by
    funext x
    simp only [Function.comp, mapDiff, eqv_joinWords_map wordOf wordOf' σ hw]
  rw [this]

/-! ### candidates of one document -/

theorem eqv_mapTarget_ids (σ : Nat → Nat) (target : Array IdTok) :
    (mapTarget σ target).toList.map (·.id) = (target.toList.map (·.id)).map σ := by
  simp [mapTarget, List.map_map, Function.comp_def]

theorem eqv_mapTarget_size (σ : Nat → Nat) (target : Array IdTok) :
    (mapTarget σ target).size = target.size := by simp [mapTarget]

theorem eqv_mapTarget_line (σ : Nat → Nat) (target : Array IdTok) (i : Nat) (h : i < (mapTarget σ target).size) :
    ((mapTarget σ target)[i]'h).line = (target[i]'(by simpa [mapTarget] using h)).line := by
  simp [mapTarget]

theorem eqv_mapTarget_back (σ : Nat → Nat) (target : Array IdTok) :
    (mapTarget σ target).back? = target.back?.map (fun x => { x with id := σ x.id }) := by
  simp [mapTarget]

theorem eqv_docCandidates_map {C : Type} (N : NumEnv C) (crc : Text → Nat) (wordOf wordOf' : Nat → Text)
    (isDigitRune : Nat → Bool) (decode : Text → List Nat) (induced : List (Text × List Text))
    (diffOf diffOf' : KDoc → Nat → Nat → Option (List (Diff Nat)))
    (σ : Nat → Nat) (hσ : ∀ a b, σ a = σ b → a = b) (hw : ∀ i, wordOf' (σ i) = wordOf i)
    (hd : ∀ d a b, diffOf' (mapKDoc σ d) a b = (diffOf d a b).map (List.map (mapDiff σ)))
    (target : Array IdTok) (th : List Nat) (qt q : Nat) (d : KDoc) :
    docCandidates N wordOf' isDigitRune decode induced diffOf' (mapTarget σ target) th qt
        (prepare crc wordOf' q (mapKDoc σ d)) =
      docCandidates N wordOf isDigitRune decode induced diffOf target th qt (prepare crc wordOf q d) := by
  have hids : (mapKDoc σ d).ids = d.ids.map σ := rfl
  unfold docCandidates
  simp only [prepare, hids, List.length_map, eqv_hashes_map crc wordOf wordOf' σ hw, eqv_mapTarget_size]
  generalize findPotentialMatches N _ _ _ th qt target.size = fp
  cases fp with
  | none => rfl
  | some ms =>
    simp only []
    congr 1
    funext acc m
    rw [hd]
    cases hdo : diffOf d m.tgtStart.toNat m.tgtEnd.toNat with
    | none => rfl
    | some ds =>
      simp only [Option.map_some, eqv_score_map N wordOf wordOf' isDigitRune decode induced σ hσ hw]
      simp only [eqv_mapTarget_line]
      rfl

/-! ### the whole pipeline -/

theorem match_equivariant' {C : Type} (N : NumEnv C) (crc : Text → Nat) (wordOf wordOf' : Nat → Text)
    (isDigitRune : Nat → Bool) (decode : Text → List Nat) (induced : List (Text × List Text))
    (diffOf diffOf' : KDoc → Nat → Nat → Option (List (Diff Nat)))
    (σ : Nat → Nat) (hσ : ∀ a b, σ a = σ b → a = b) (hw : ∀ i, wordOf' (σ i) = wordOf i)
    (hd : ∀ d a b, diffOf' (mapKDoc σ d) a b = (diffOf d a b).map (List.map (mapDiff σ)))
    (docs : List KDoc) (target : Array IdTok) (crs : List Nat) :
    matchModel N crc wordOf' isDigitRune decode induced diffOf'
        (countOf ((mapTarget σ target).toList.map (·.id)))
        (docs.map (fun d => prepare crc wordOf' N.q (mapKDoc σ d))) (mapTarget σ target) crs =
      matchModel N crc wordOf isDigitRune decode induced diffOf
        (countOf (target.toList.map (·.id)))
        (docs.map (prepare crc wordOf N.q)) target crs := by
  -- the documents that pass the frequency pre-filter
  let keep : KDoc → Bool := fun d =>
    N.simGE (tokenSimWith (countOf (target.toList.map (·.id))) (countOf d.ids) (distinct d.ids)).1
      (tokenSimWith (countOf (target.toList.map (·.id))) (countOf d.ids) (distinct d.ids)).2
  have hf' : (docs.map (fun d => prepare crc wordOf' N.q (mapKDoc σ d))).filter (fun p =>
        N.simGE (tokenSimWith (countOf ((mapTarget σ target).toList.map (·.id))) p.cnt p.ks).1
          (tokenSimWith (countOf ((mapTarget σ target).toList.map (·.id))) p.cnt p.ks).2) =
      (docs.filter keep).map (fun d => prepare crc wordOf' N.q (mapKDoc σ d)) := by
    rw [List.filter_map]
    congr 1
    apply List.filter_congr
    intro d _
    have hids : (mapKDoc σ d).ids = d.ids.map σ := rfl
    simp only [Function.comp, prepare, hids, eqv_mapTarget_ids, eqv_tokenSimWith_map σ hσ, keep]
  have hf : (docs.map (prepare crc wordOf N.q)).filter (fun p =>
        N.simGE (tokenSimWith (countOf (target.toList.map (·.id))) p.cnt p.ks).1
          (tokenSimWith (countOf (target.toList.map (·.id))) p.cnt p.ks).2) =
      (docs.filter keep).map (prepare crc wordOf N.q) := by
    rw [List.filter_map]
    rfl
  unfold matchModel
  simp only [hf', hf, List.map_eq_nil_iff]
  by_cases hnil : docs.filter keep = []
  · rw [if_pos hnil, if_pos hnil]
  · rw [if_neg hnil, if_neg hnil]
    simp only [List.foldlM_map, eqv_mapTarget_ids, List.length_map,
      eqv_hashes_map crc wordOf wordOf' σ hw,
      eqv_docCandidates_map N crc wordOf wordOf' isDigitRune decode induced diffOf diffOf' σ hσ hw hd]
    split
    · rfl
    · simp only [eqv_mapTarget_back]
      cases target.back? <;> rfl

end LC.V2Match
