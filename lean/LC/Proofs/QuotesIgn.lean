/-
The notice expressions of the Go environment (`LC.V2Env.ignorable`, the hand-written matchers of the
three `ignorableTexts` regular expressions) do not tell quote-equivalent lines apart: no literal of
the three expressions is a quote character, `.` accepts every quote character, and no quote character
is a digit or an `[a-z]` letter.  Helper lemmas for LC/Props/C05Quotes.lean.
-/
import LC.Proofs.QuotesGo

namespace LC.V2Tok
open LC.Utf8 LC.V2Env

/-! ### generic facts -/

theorem qeq_length : ∀ {l l' : List Rune}, QEq quoteRune l l' → l.length = l'.length
  | [], [], _ => rfl
  | _ :: _, _ :: _, h => by
    simp only [List.length_cons, qeq_length (qeq_cons.1 h).2]
  | [], _ :: _, h => by simp [QEq] at h
  | _ :: _, [], h => by simp [QEq] at h

theorem qeq_take : ∀ (k : Nat) {l l' : List Rune}, QEq quoteRune l l' → QEq quoteRune (l.take k) (l'.take k)
  | 0, _, _, _ => by simp [QEq]
  | _ + 1, [], [], _ => trivial
  | k + 1, _ :: _, _ :: _, h => by
    simp only [List.take_succ_cons]
    exact qeq_cons.2 ⟨(qeq_cons.1 h).1, qeq_take k (qeq_cons.1 h).2⟩
  | _ + 1, [], _ :: _, h => by simp [QEq] at h
  | _ + 1, _ :: _, [], h => by simp [QEq] at h

theorem qeq_drop : ∀ (k : Nat) {l l' : List Rune}, QEq quoteRune l l' → QEq quoteRune (l.drop k) (l'.drop k)
  | 0, _, _, h => by simpa using h
  | _ + 1, [], [], _ => trivial
  | k + 1, _ :: _, _ :: _, h => by
    simp only [List.drop_succ_cons]
    exact qeq_drop k (qeq_cons.1 h).2
  | _ + 1, [], _ :: _, h => by simp [QEq] at h
  | _ + 1, _ :: _, [], h => by simp [QEq] at h

/-- a test that does not tell related runes apart gives the same `all` -/
theorem qeq_all' {f : Rune → Bool} (hf : ∀ a b, QR quoteRune a b → f a = f b) :
    ∀ {l l' : List Rune}, QEq quoteRune l l' → l.all f = l'.all f
  | [], [], _ => rfl
  | x :: xs, y :: ys, h => by
    obtain ⟨hxy, hr⟩ := qeq_cons.1 h
    rw [List.all_cons, List.all_cons, hf x y hxy, qeq_all' hf hr]
  | [], _ :: _, h => by simp [QEq] at h
  | _ :: _, [], h => by simp [QEq] at h

theorem quoteRune_ne {p : Nat} (h : quoteRune p = false) :
    p ≠ 34 ∧ p ≠ 39 ∧ p ≠ 8216 ∧ p ≠ 8217 ∧ p ≠ 8220 ∧ p ≠ 8221 := by
  simpa [quoteRune, and_assoc] using h

theorem quoteRune_cases' {c : Nat} (h : quoteRune c = true) :
    c = 34 ∨ c = 39 ∨ c = 8216 ∨ c = 8217 ∨ c = 8220 ∨ c = 8221 := quoteRune_cases h

/-- results of the partial matchers: both fail, or both succeed with related remainders -/
def OQ : Option (List Rune) → Option (List Rune) → Prop
  | none, none => True
  | some a, some b => QEq quoteRune a b
  | _, _ => False

/-! ### the building blocks of the matchers -/

theorem noNewline_qeq {s s' : List Rune} (h : QEq quoteRune s s') : noNewline s = noNewline s' := by
  unfold noNewline
  apply qeq_all' _ h
  intro a b hab
  rcases hab with e | ⟨h1, h2⟩
  · rw [e]
  · have := quoteRune_cases' h1
    have := quoteRune_cases' h2
    have ha : a ≠ 10 := by dsimp only [Rune] at *; omega
    have hb : b ≠ 10 := by dsimp only [Rune] at *; omega
    simp [ha, hb]

theorem ciEq_quote {c p : Nat} (hc : quoteRune c = true) (hp : quoteRune p = false) :
    ciEq c p = false := by
  have hc' := quoteRune_cases' hc
  have hp' := quoteRune_ne hp
  simp only [ciEq, Bool.or_eq_false_iff, Bool.and_eq_false_iff, decide_eq_false_iff_not]
  dsimp only [Rune] at *
  omega

theorem ciEq_qr {c c' p : Nat} (h : QR quoteRune c c') (hp : quoteRune p = false) :
    ciEq c p = ciEq c' p := by
  rcases h with e | ⟨h1, h2⟩
  · rw [e]
  · rw [ciEq_quote h1 hp, ciEq_quote h2 hp]

theorem ciPrefix_qeq : ∀ (ps : List Rune), (∀ p ∈ ps, quoteRune p = false) →
    ∀ {s s' : List Rune}, QEq quoteRune s s' → OQ (ciPrefix ps s) (ciPrefix ps s')
  | [], _, _, _, h => h
  | _ :: _, _, [], [], _ => trivial
  | p :: ps, hp, c :: cs, c' :: cs', h => by
    obtain ⟨hc, hr⟩ := qeq_cons.1 h
    simp only [ciPrefix]
    rw [← ciEq_qr hc (hp p (by simp))]
    cases ciEq c p
    · trivial
    · exact ciPrefix_qeq ps (fun x hx => hp x (by simp [hx])) hr
  | _ :: _, _, [], _ :: _, h => by simp [QEq] at h
  | _ :: _, _, _ :: _, [], h => by simp [QEq] at h

theorem asciiDigit_quote {c : Nat} (hc : quoteRune c = true) : asciiDigit c = false := by
  have hc' := quoteRune_cases' hc
  simp only [asciiDigit, Bool.and_eq_false_iff, decide_eq_false_iff_not]
  dsimp only [Rune] at *
  omega

theorem ciAlpha_quote (c : Nat) (hc : quoteRune c = true) : ciAlpha c = false := by
  have hc' := quoteRune_cases' hc
  simp only [ciAlpha, Bool.or_eq_false_iff, Bool.and_eq_false_iff, decide_eq_false_iff_not]
  dsimp only [Rune] at *
  omega

theorem digits_zero (s : List Rune) : digits 0 s = some s := by
  unfold digits; rfl

theorem digits_succ_nil (n : Nat) : digits (n + 1) [] = none := by
  unfold digits; rfl

theorem digits_succ_cons (n : Nat) (c : Rune) (cs : List Rune) :
    digits (n + 1) (c :: cs) = if asciiDigit c then digits n cs else none := by
  rw [digits]

theorem digits_qeq : ∀ (n : Nat) {s s' : List Rune}, QEq quoteRune s s' → OQ (digits n s) (digits n s')
  | 0, _, _, h => by rw [digits_zero, digits_zero]; exact h
  | n + 1, [], [], _ => by rw [digits_succ_nil]; trivial
  | n + 1, c :: cs, c' :: cs', h => by
    obtain ⟨hc, hr⟩ := qeq_cons.1 h
    rw [digits_succ_cons, digits_succ_cons, ← qr_test (f := asciiDigit) (fun _ => asciiDigit_quote) hc]
    cases asciiDigit c
    · trivial
    · exact digits_qeq n hr
  | _ + 1, [], _ :: _, h => by simp [QEq] at h
  | _ + 1, _ :: _, [], h => by simp [QEq] at h

/-- "succeeds with a remainder free of newlines" -/
def okNN (o : Option (List Rune)) : Bool :=
  match o with
  | some u => noNewline u
  | none => false

theorem okNN_oq {o o' : Option (List Rune)} (h : OQ o o') : okNN o = okNN o' := by
  cases o <;> cases o' <;> simp only [OQ] at h
  · rfl
  · exact noNewline_qeq h

/-! ### expressions 1 and 2 -/

theorem lit1_noQ : (lit "copyright ").all (fun p => !quoteRune p) = true := by decide +kernel
theorem lit2_noQ : (lit "[yyyy]").all (fun p => !quoteRune p) = true := by decide +kernel
theorem lit3_noQ : (lit "(c) ").all (fun p => !quoteRune p) = true := by decide +kernel
theorem lit4_noQ :
    (lit "copyright (c) [dates of first publication]").all (fun p => !quoteRune p) = true := by
  decide +kernel

theorem noQ_of_all {l : List Rune} (h : l.all (fun p => !quoteRune p) = true) :
    ∀ p ∈ l, quoteRune p = false := by
  intro p hp
  have := (List.all_eq_true.mp h) p hp
  simpa using this

/-- the year part of expression 1 -/
def yearQ (t : List Rune) : Bool :=
  okNN (ciPrefix (lit "[yyyy]") t) || okNN (digits 4 t)

theorem yearQ_qeq {t t' : List Rune} (h : QEq quoteRune t t') : yearQ t = yearQ t' := by
  unfold yearQ
  rw [okNN_oq (ciPrefix_qeq _ (noQ_of_all lit2_noQ) h), okNN_oq (digits_qeq 4 h)]

def yearOpt (o : Option (List Rune)) : Bool :=
  match o with
  | some t => yearQ t
  | none => false

theorem yearOpt_oq {o o' : Option (List Rune)} (h : OQ o o') : yearOpt o = yearOpt o' := by
  cases o <;> cases o' <;> simp only [OQ] at h
  · rfl
  · exact yearQ_qeq h

def re1Opt (o : Option (List Rune)) : Bool :=
  match o with
  | none => false
  | some r => yearQ r || yearOpt (ciPrefix (lit "(c) ") r)

theorem re1Body_eq (s : List Rune) : re1Body s = re1Opt (ciPrefix (lit "copyright ") s) := rfl

theorem re1Body_qeq {s s' : List Rune} (h : QEq quoteRune s s') : re1Body s = re1Body s' := by
  rw [re1Body_eq, re1Body_eq]
  have hp := ciPrefix_qeq _ (noQ_of_all lit1_noQ) h
  revert hp
  cases ciPrefix (lit "copyright ") s <;> cases ciPrefix (lit "copyright ") s' <;> intro hp <;>
    simp only [OQ] at hp
  · rfl
  · show (yearQ _ || yearOpt _) = (yearQ _ || yearOpt _)
    rw [yearQ_qeq hp, yearOpt_oq (ciPrefix_qeq _ (noQ_of_all lit3_noQ) hp)]

theorem re2Body_eq (s : List Rune) :
    re2Body s = okNN (ciPrefix (lit "copyright (c) [dates of first publication]") s) := rfl

theorem re2Body_qeq {s s' : List Rune} (h : QEq quoteRune s s') : re2Body s = re2Body s' := by
  rw [re2Body_eq, re2Body_eq]
  exact okNN_oq (ciPrefix_qeq _ (noQ_of_all lit4_noQ) h)

theorem withPrefix_qeq {body : List Rune → Bool}
    (hb : ∀ s s', QEq quoteRune s s' → body s = body s') {s s' : List Rune} (h : QEq quoteRune s s') :
    withPrefix body s = withPrefix body s' := by
  unfold withPrefix
  have : (fun k => decide (k ≤ s.length) && noNewline (s.take k) && body (s.drop k)) =
      (fun k => decide (k ≤ s'.length) && noNewline (s'.take k) && body (s'.drop k)) := by
    funext k
    rw [qeq_length h, noNewline_qeq (qeq_take k h), hb _ _ (qeq_drop k h)]
  rw [this]

/-! ### expression 3 -/

def tailQ (t : List Rune) : Bool :=
  match t with
  | 45 :: u => (match digits 2 u with | some [] => true | _ => false)
  | _ => false

def re3rest (r : List Rune) : Bool :=
  (match digits 2 r with | some t => tailQ t | none => false) ||
  (match r with
   | a :: b :: c :: t => ciAlpha a && ciAlpha b && ciAlpha c && tailQ t
   | _ => false)

def re3Opt (o : Option (List Rune)) : Bool :=
  match o with
  | some (45 :: r) => re3rest r
  | _ => false

theorem re3_eq (s : List Rune) : re3 s = re3Opt (digits 4 s) := rfl

def isNilOpt (o : Option (List Rune)) : Bool :=
  match o with
  | some [] => true
  | _ => false

theorem isEmpty_oq {o o' : Option (List Rune)} (h : OQ o o') : isNilOpt o = isNilOpt o' := by
  cases o <;> cases o' <;> simp only [OQ] at h
  · rfl
  · rename_i a b
    cases a <;> cases b <;> simp [QEq] at h
    · rfl
    · rfl

theorem tailQ_ne (a : Rune) (u : List Rune) (h : a ≠ 45) : tailQ (a :: u) = false := by
  unfold tailQ
  split
  · rename_i heq
    simp only [List.cons.injEq] at heq
    exact absurd heq.1 h
  · rfl

theorem quoteRune_45 : quoteRune 45 = false := by decide

theorem tailQ_qeq {t t' : List Rune} (h : QEq quoteRune t t') : tailQ t = tailQ t' := by
  cases t <;> cases t' <;> simp only [QEq] at h
  · rfl
  · rename_i a u a' u'
    have hr : QEq quoteRune u u' := h.2
    have h45 := qr_eq_iff quoteRune_45 (show QR quoteRune a a' from h.1)
    by_cases ha : a = 45
    · have ha' := h45.1 ha
      subst ha ha'
      show isNilOpt (digits 2 u) = isNilOpt (digits 2 u')
      exact isEmpty_oq (digits_qeq 2 hr)
    · rw [tailQ_ne a u ha, tailQ_ne a' u' (mt h45.2 ha)]

def tailOpt (o : Option (List Rune)) : Bool :=
  match o with
  | some t => tailQ t
  | none => false

theorem tailOpt_oq {o o' : Option (List Rune)} (h : OQ o o') : tailOpt o = tailOpt o' := by
  cases o <;> cases o' <;> simp only [OQ] at h
  · rfl
  · exact tailQ_qeq h

def alpha3 (r : List Rune) : Bool :=
  match r with
  | a :: b :: c :: t => ciAlpha a && ciAlpha b && ciAlpha c && tailQ t
  | _ => false

theorem alpha3_qeq : ∀ {r r' : List Rune}, QEq quoteRune r r' → alpha3 r = alpha3 r'
  | [], [], _ => rfl
  | [_], [_], _ => rfl
  | [_, _], [_, _], _ => rfl
  | a :: b :: c :: t, a' :: b' :: c' :: t', h => by
    obtain ⟨ha, h⟩ := qeq_cons.1 h
    obtain ⟨hb, h⟩ := qeq_cons.1 h
    obtain ⟨hc, h⟩ := qeq_cons.1 h
    show (ciAlpha a && ciAlpha b && ciAlpha c && tailQ t) = (ciAlpha a' && ciAlpha b' && ciAlpha c' && tailQ t')
    rw [qr_test (f := ciAlpha) ciAlpha_quote ha, qr_test (f := ciAlpha) ciAlpha_quote hb,
      qr_test (f := ciAlpha) ciAlpha_quote hc, tailQ_qeq h]
  | [], _ :: _, h => by simp [QEq] at h
  | _ :: _, [], h => by simp [QEq] at h
  | [_], _ :: _ :: _, h => by simp [QEq] at h
  | _ :: _ :: _, [_], h => by simp [QEq] at h
  | [_, _], _ :: _ :: _ :: _, h => by simp [QEq] at h
  | _ :: _ :: _ :: _, [_, _], h => by simp [QEq] at h

theorem re3rest_eq (r : List Rune) : re3rest r = (tailOpt (digits 2 r) || alpha3 r) := rfl

theorem re3rest_qeq {r r' : List Rune} (h : QEq quoteRune r r') : re3rest r = re3rest r' := by
  rw [re3rest_eq, re3rest_eq, tailOpt_oq (digits_qeq 2 h), alpha3_qeq h]

theorem re3Opt_nil : re3Opt (some []) = false := rfl

theorem re3Opt_ne (a : Rune) (u : List Rune) (h : a ≠ 45) : re3Opt (some (a :: u)) = false := by
  unfold re3Opt
  split
  · rename_i heq
    simp only [Option.some.injEq, List.cons.injEq] at heq
    exact absurd heq.1 h
  · rfl

theorem re3Opt_oq {o o' : Option (List Rune)} (h : OQ o o') : re3Opt o = re3Opt o' := by
  cases o <;> cases o' <;> simp only [OQ] at h
  · rfl
  · rename_i t t'
    cases t <;> cases t' <;> simp only [QEq] at h
    · rfl
    · rename_i a u a' u'
      have hr : QEq quoteRune u u' := h.2
      have h45 := qr_eq_iff quoteRune_45 (show QR quoteRune a a' from h.1)
      by_cases ha : a = 45
      · have ha' := h45.1 ha
        subst ha ha'
        show re3rest u = re3rest u'
        exact re3rest_qeq hr
      · rw [re3Opt_ne a u ha, re3Opt_ne a' u' (mt h45.2 ha)]

theorem re3_qeq {s s' : List Rune} (h : QEq quoteRune s s') : re3 s = re3 s' := by
  rw [re3_eq, re3_eq]
  exact re3Opt_oq (digits_qeq 4 h)

/-! ### the notice test -/

theorem goEnv_ignorable_qeq :
    ∀ l l', QEq quoteRune l l' → LC.V2Env.ignorable l = LC.V2Env.ignorable l' := by
  intro l l' h
  unfold LC.V2Env.ignorable
  rw [withPrefix_qeq (fun _ _ => re1Body_qeq) h, withPrefix_qeq (fun _ _ => re2Body_qeq) h, re3_qeq h]

end LC.V2Tok
