/-
Helper lemmas for the second part of LC/Props/C17.lean (post-processing stages of v1
FindPotentialMatches): untangle is a sublist of its input, split partitions it into non-empty
groups, mergeConsecutive keeps "all groups non-empty, the concatenation ordered by TargetStart,
every range inside the bounds" (each step replaces two adjacent groups by one whose TargetStart
column is a sublist of theirs), coalesce keeps the same per group.  Core Lean only.
-/
import LC.Model.V1Search
import LC.Model.V1Tok
import LC.Proofs.V1Tok

namespace LC.V1Search

theorem findLater_spec (x last : MR) : ∀ (l : List MR) (z : MR) (r : List MR),
    findLater x last l = some (z, r) → (z :: r).Sublist l ∧ r.length < l.length := by
  intro l
  induction l with
  | nil => intro z r h; simp [findLater] at h
  | cons a as ih =>
    intro z r h
    simp only [findLater] at h
    split at h
    · split at h
      · simp only [Option.some.injEq, Prod.mk.injEq] at h
        obtain ⟨rfl, rfl⟩ := h
        exact ⟨List.Sublist.refl _, by simp⟩
      · obtain ⟨h1, h2⟩ := ih z r h
        exact ⟨h1.cons _, by simp; omega⟩
    · simp at h

theorem untangleGo_fuel_eq (f1 : Nat) : ∀ (f2 : Nat) (last : MR) (l : List MR),
    l.length ≤ f1 → l.length ≤ f2 → untangleGo f1 last l = untangleGo f2 last l := by
  induction f1 with
  | zero =>
    intro f2 last l h1 h2
    have : l = [] := List.eq_nil_of_length_eq_zero (by omega)
    subst this
    cases f2 <;> simp [untangleGo]
  | succ f1 ih =>
    intro f2 last l h1 h2
    cases l with
    | nil => cases f2 <;> simp [untangleGo]
    | cons x rest =>
      cases f2 with
      | zero => simp at h2
      | succ f2 =>
        simp only [List.length_cons] at h1 h2
        have hr : ∀ la, untangleGo f1 la rest = untangleGo f2 la rest :=
          fun la => ih f2 la rest (by omega) (by omega)
        simp only [untangleGo, hr]
        cases rest with
        | nil => rfl
        | cons y ys =>
          simp only
          cases hf : findLater x last (y :: ys) with
          | none => rfl
          | some p =>
            obtain ⟨z, r'⟩ := p
            have := (findLater_spec x last _ z r' hf).2
            simp only [List.length_cons] at this h1 h2
            simp only [ih f2 z r' (by omega) (by omega)]

theorem untangle_fuel' (fuel : Nat) (last : MR) (l : List MR) (h : l.length ≤ fuel) :
    untangleGo fuel last l = untangleGo l.length last l :=
  untangleGo_fuel_eq fuel l.length last l h (Nat.le_refl _)

theorem untangleGo_sublist (fuel : Nat) : ∀ (last : MR) (l : List MR),
    (untangleGo fuel last l).Sublist l := by
  induction fuel with
  | zero => intro last l; simp [untangleGo]
  | succ f ih =>
    intro last l
    cases l with
    | nil => simp [untangleGo]
    | cons x rest =>
      simp only [untangleGo]
      split
      · exact (ih _ _).cons _
      · cases rest with
        | nil => exact List.Sublist.refl _
        | cons y ys =>
          simp only
          split
          · split
            · exact (ih _ _).cons_cons _
            · split
              · rename_i z r' hf
                have := (findLater_spec x last _ z r' hf).1
                exact (((ih z r').cons_cons z).trans this).cons _
              · exact (ih _ _).cons_cons _
          · exact (ih _ _).cons_cons _

theorem untangle_sublist (l : List MR) : (untangle l).Sublist l := by
  cases l with
  | nil => exact List.Sublist.refl _
  | cons m ms => exact (untangleGo_sublist _ _ _).cons_cons _

theorem untangle_ne (l : List MR) (h : l ≠ []) : untangle l ≠ [] := by
  cases l with
  | nil => exact absurd rfl h
  | cons m ms => simp [untangle]


theorem splitGo_spec (l : List MR) : ∀ (cur : List MR) (last : MR), cur ≠ [] →
    (splitGo cur last l).flatten = cur ++ l ∧ (∀ g ∈ splitGo cur last l, g ≠ []) ∧
      splitGo cur last l ≠ [] := by
  induction l with
  | nil => intro cur last h; simp [splitGo, h]
  | cons x rest ih =>
    intro cur last h
    simp only [splitGo]
    split
    · obtain ⟨h1, h2, h3⟩ := ih [x] x (by simp)
      refine ⟨by simp [h1], ?_, by simp⟩
      intro g hg
      rcases List.mem_cons.mp hg with rfl | hg
      · exact h
      · exact h2 g hg
    · obtain ⟨h1, h2, h3⟩ := ih (cur ++ [x]) x (by simp)
      exact ⟨by simp [h1], h2, h3⟩

theorem split_flatten (l : List MR) : (split l).flatten = l := by
  cases l with
  | nil => rfl
  | cons m ms => simpa [split] using (splitGo_spec ms [m] m (by simp)).1

theorem split_groups_ne (l : List MR) : ∀ g ∈ split l, g ≠ [] := by
  cases l with
  | nil => simp [split]
  | cons m ms => exact (splitGo_spec ms [m] m (by simp)).2.1

theorem split_ne (l : List MR) (h : l ≠ []) : split l ≠ [] := by
  cases l with
  | nil => exact absurd rfl h
  | cons m ms => exact (splitGo_spec ms [m] m (by simp)).2.2


/-- the TargetStart column -/
def tsl (l : List MR) : List Int := l.map (·.ts)

theorem sortedTS_iff (l : List MR) : SortedTS l ↔ (tsl l).Pairwise (· ≤ ·) := by
  simp [SortedTS, tsl, List.pairwise_map]

theorem tsl_append (a b : List MR) : tsl (a ++ b) = tsl a ++ tsl b := by simp [tsl]

theorem SortedTS.of_tsl_sublist {a b : List MR} (h : (tsl a).Sublist (tsl b)) (hb : SortedTS b) :
    SortedTS a :=
  (sortedTS_iff a).2 (((sortedTS_iff b).1 hb).sublist h)

theorem SortedTS.sublist {a b : List MR} (h : a.Sublist b) (hb : SortedTS b) : SortedTS a :=
  List.Pairwise.sublist h hb

/-- invariant of `mergeConsecutiveRanges` over "result so far ++ groups still to do" -/
def GInv (n : Int) (L : List (List MR)) : Prop :=
  (∀ g ∈ L, g ≠ []) ∧ SortedTS L.flatten ∧ ∀ r ∈ L.flatten, InBounds n r

theorem GInv.group {n : Int} {L : List (List MR)} (h : GInv n L) (g : List MR) (hg : g ∈ L) :
    g ≠ [] ∧ SortedTS g ∧ ∀ r ∈ g, InBounds n r := by
  have hs := List.sublist_flatten_of_mem hg
  exact ⟨h.1 g hg, SortedTS.sublist hs h.2.1, fun r hr => h.2.2 r (hs.subset hr)⟩

theorem GInv.cross {n : Int} {A : List (List MR)} {X Y : List MR} {gs : List (List MR)}
    (h : GInv n (A ++ X :: Y :: gs)) : ∀ a ∈ X, ∀ b ∈ Y, a.ts ≤ b.ts := by
  have h2 := h.2.1
  simp only [List.flatten_append, List.flatten_cons, SortedTS] at h2
  have h3 := (List.pairwise_append.1 h2).2.1
  have h4 := (List.pairwise_append.1 h3).2.2
  intro a ha b hb
  exact h4 a ha b (List.mem_append_left _ hb)

theorem mem_flat_fst {A : List (List MR)} {X : List MR} {rest : List (List MR)} {a : MR}
    (h : a ∈ X) : a ∈ (A ++ X :: rest).flatten := by
  simp [h]

theorem mem_flat_snd {A : List (List MR)} {X Y : List MR} {rest : List (List MR)} {a : MR}
    (h : a ∈ Y) : a ∈ (A ++ X :: Y :: rest).flatten := by
  simp [h]

/-- two adjacent groups `X`, `Y` are replaced by one group `Z` -/
theorem GInv.replace {n : Int} {A : List (List MR)} {X Y Z : List MR} {gs : List (List MR)}
    (h : GInv n (A ++ X :: Y :: gs)) (hne : Z ≠ [])
    (hsub : (tsl Z).Sublist (tsl (X ++ Y))) (hb : ∀ r ∈ Z, InBounds n r) :
    GInv n (A ++ [Z] ++ gs) := by
  obtain ⟨h1, h2, h3⟩ := h
  refine ⟨?_, ?_, ?_⟩
  · intro g hg
    simp only [List.mem_append, List.mem_cons, List.not_mem_nil, or_false] at hg
    rcases hg with (hg | rfl) | hg
    · exact h1 g (by simp [hg])
    · exact hne
    · exact h1 g (by simp [hg])
  · refine SortedTS.of_tsl_sublist ?_ h2
    simp only [List.flatten_append, List.flatten_cons, List.flatten_nil, tsl_append,
      List.append_nil, List.append_assoc] at hsub ⊢
    refine (List.Sublist.refl _).append ?_
    rw [← List.append_assoc (tsl X)]
    exact hsub.append (List.Sublist.refl _)
  · intro r hr
    simp only [List.flatten_append, List.flatten_cons, List.flatten_nil, List.mem_append,
      List.append_nil] at hr h3
    rcases hr with (hr | hr) | hr
    · exact h3 r (Or.inl hr)
    · exact hb r hr
    · exact h3 r (Or.inr (Or.inr (Or.inr hr)))

theorem mergeStep_inv (n : Int) (mr : List (List MR)) (g : List MR) (gs : List (List MR))
    (h : GInv n (mr ++ g :: gs)) : GInv n (mergeStep mr g ++ gs) := by
  have triv : GInv n ((mr ++ [g]) ++ gs) := by simpa using h
  unfold mergeStep
  split
  · rename_i P g0 gtail hP
    obtain ⟨A, rfl⟩ := List.getLast?_eq_some_iff.1 hP
    split
    · rename_i L hL
      obtain ⟨Pd, rfl⟩ := List.getLast?_eq_some_iff.1 hL
      have h' : GInv n (A ++ (Pd ++ [L]) :: (g0 :: gtail) :: gs) := by simpa using h
      have hLb : InBounds n L := h.2.2 L (by simp)
      have hg0b : InBounds n g0 := h.2.2 g0 (by simp)
      split
      · split
        · -- first branch: the last range of the previous group is extended, the head dropped
          simp only [List.dropLast_concat, setLast]
          refine GInv.replace h' (by simp) ?_ ?_
          · have hts : (if L.te < g0.te then { L with se := L.se + (g0.te - L.te), te := g0.te } else L).ts = L.ts := by
              split <;> rfl
            simp only [tsl, List.map_append, List.map_cons, List.map_nil, hts, List.append_assoc]
            refine (List.Sublist.refl _).append ((List.Sublist.refl _).append ?_)
            exact List.sublist_cons_self _ _
          · intro r hr
            simp only [List.mem_append, List.mem_cons, List.not_mem_nil, or_false] at hr
            rcases hr with (hr | rfl) | hr
            · exact h.2.2 r (by simp [hr])
            · unfold InBounds at hLb hg0b ⊢
              split
              · simp only; omega
              · exact hLb
            · exact h.2.2 r (by simp [hr])
        · split
          · rename_i j k hjk
            split
            · rename_i pk gj gp hpk hgj hgp
              simp only [List.dropLast_concat]
              have hpkm : pk ∈ Pd ++ [L] := List.mem_of_getElem? hpk
              have hgpm : gp ∈ g0 :: gtail := List.mem_of_getElem? hgp
              have hpkb : InBounds n pk := h'.2.2 pk (mem_flat_fst hpkm)
              have hgpb : InBounds n gp := h'.2.2 gp (mem_flat_snd hgpm)
              have hcross := GInv.cross h' pk hpkm gp hgpm
              refine GInv.replace h' (by simp) ?_ ?_
              · have hts : (if pk.te < gj.ts then { pk with se := pk.se + (gp.te - pk.te), te := gp.te } else pk).ts = pk.ts := by
                  split <;> rfl
                obtain ⟨hk, hpk'⟩ := List.getElem?_eq_some_iff.1 hpk
                have hsplit : Pd ++ [L] = (Pd ++ [L]).take k ++ pk :: (Pd ++ [L]).drop (k + 1) := by
                  rw [← hpk', List.getElem_cons_drop, List.take_append_drop]
                rw [tsl_append (Pd ++ [L])]
                conv => rhs; rw [hsplit]
                simp only [tsl, List.map_append, List.map_cons, hts, List.append_assoc,
                  List.cons_append, List.nil_append]
                refine (List.Sublist.refl _).append (List.Sublist.cons_cons _ ?_)
                exact ((List.drop_sublist _ _).map _).trans (List.sublist_append_right _ _)
              · intro r hr
                simp only [List.mem_append, List.mem_cons, List.not_mem_nil, or_false] at hr
                rcases hr with (hr | rfl) | hr
                · exact h'.2.2 r (mem_flat_fst (List.mem_of_mem_take hr))
                · unfold InBounds at hpkb hgpb ⊢
                  split
                  · simp only; omega
                  · exact hpkb
                · exact h'.2.2 r (mem_flat_snd (List.mem_of_mem_drop hr))
            · exact triv
          · exact triv
      · exact triv
    · exact triv
  · exact triv

theorem merge_fold_inv (n : Int) (gs : List (List MR)) : ∀ mr : List (List MR),
    GInv n (mr ++ gs) → GInv n (gs.foldl mergeStep mr) := by
  induction gs with
  | nil => intro mr h; simpa using h
  | cons g gs ih =>
    intro mr h
    exact ih _ (mergeStep_inv n mr g gs h)

theorem merge_inv (n : Int) (L : List (List MR)) (h : GInv n L) : GInv n (merge L) := by
  cases L with
  | nil => exact h
  | cons g gs => exact merge_fold_inv n gs [g] (by simpa using h)

theorem mergeStep_ne (mr : List (List MR)) (g : List MR) : mergeStep mr g ≠ [] := by
  unfold mergeStep
  repeat' split
  all_goals simp

theorem merge_fold_ne (gs : List (List MR)) : ∀ mr : List (List MR), mr ≠ [] →
    gs.foldl mergeStep mr ≠ [] := by
  induction gs with
  | nil => intro mr h; exact h
  | cons g gs ih => intro mr _; exact ih _ (mergeStep_ne mr g)

theorem merge_ne (L : List (List MR)) (h : L ≠ []) : merge L ≠ [] := by
  cases L with
  | nil => exact absurd rfl h
  | cons g gs => exact merge_fold_ne gs [g] (by simp)

/-! ### coalesceMatchRanges -/

/-- invariant of the `coalesceMatchRanges` loop over "result so far ++ ranges still to do" -/
def CInv (n : Int) (acc rest : List MR) : Prop :=
  acc ≠ [] ∧ SortedTS (acc ++ rest) ∧ ∀ r ∈ acc ++ rest, InBounds n r

theorem coalesceStep_inv (n : Int) (acc : List MR) (m : MR) (rest : List MR)
    (h : CInv n acc (m :: rest)) : CInv n (coalesceStep acc m) rest := by
  have triv : CInv n (acc ++ [m]) rest := by
    refine ⟨by simp, ?_, ?_⟩
    · simpa using h.2.1
    · simpa using h.2.2
  unfold coalesceStep
  split
  · rename_i c hc
    obtain ⟨Ad, rfl⟩ := List.getLast?_eq_some_iff.1 hc
    split
    · obtain ⟨_, h2, h3⟩ := h
      have hcb : InBounds n c := h3 c (by simp)
      have hmb : InBounds n m := h3 m (by simp)
      have hcm : c.ts ≤ m.ts := by
        have := (List.pairwise_append.1 h2).2.2 c (by simp) m (by simp)
        exact this
      have hmin : min m.ts c.ts = c.ts := by omega
      refine ⟨by simp [setLast], ?_, ?_⟩
      · refine SortedTS.of_tsl_sublist ?_ h2
        simp only [setLast, List.dropLast_concat, tsl, List.map_append, List.map_cons,
          List.map_nil, hmin, List.append_assoc]
        refine (List.Sublist.refl _).append ((List.Sublist.refl _).append ?_)
        exact List.sublist_cons_self _ _
      · intro r hr
        simp only [setLast, List.dropLast_concat, List.mem_append, List.mem_cons,
          List.not_mem_nil, or_false] at hr
        rcases hr with (hr | rfl) | hr
        · exact h3 r (by simp [hr])
        · unfold InBounds at hcb hmb ⊢
          simp only
          omega
        · exact h3 r (by simp [hr])
    · exact triv
  · exact triv

theorem coalesce_fold_inv (n : Int) (rest : List MR) : ∀ acc : List MR,
    CInv n acc rest → CInv n (rest.foldl coalesceStep acc) [] := by
  induction rest with
  | nil => intro acc h; exact h
  | cons m ms ih => intro acc h; exact ih _ (coalesceStep_inv n acc m ms h)

theorem coalesce_inv (n : Int) (g : List MR) (hne : g ≠ []) (hs : SortedTS g)
    (hb : ∀ r ∈ g, InBounds n r) :
    coalesce g ≠ [] ∧ SortedTS (coalesce g) ∧ ∀ r ∈ coalesce g, InBounds n r := by
  cases g with
  | nil => exact absurd rfl hne
  | cons m ms =>
    have := coalesce_fold_inv n ms [m] ⟨by simp, by simpa using hs, by simpa using hb⟩
    simpa [CInv, coalesce] using this

/-! ### the whole post-processing -/

theorem post_inv' (n : Int) (l : List MR) (hs : SortedTS l) (hb : ∀ r ∈ l, InBounds n r) :
    ∀ g ∈ post l, g ≠ [] ∧ SortedTS g ∧ ∀ r ∈ g, InBounds n r := by
  intro g hg
  simp only [post, List.mem_map] at hg
  obtain ⟨g', hg', rfl⟩ := hg
  have hu := untangle_sublist l
  have h0 : GInv n (split (untangle l)) := by
    refine ⟨split_groups_ne _, ?_, ?_⟩
    · rw [split_flatten]; exact SortedTS.sublist hu hs
    · rw [split_flatten]; exact fun r hr => hb r (hu.subset hr)
  obtain ⟨h1, h2, h3⟩ := (merge_inv n _ h0).group g' hg'
  exact coalesce_inv n g' h1 h2 h3

theorem post_ne' (l : List MR) (h : l ≠ []) : post l ≠ [] := by
  simp only [post, ne_eq, List.map_eq_nil_iff]
  exact merge_ne _ (split_ne _ (untangle_ne l h))

theorem candidate_byte_range' (C : LC.V1Tok.Classes) (hv : C.isPunct LC.Utf8.runeError = false)
    (s : List UInt8) (l : List MR) (hs : SortedTS l)
    (hb : ∀ r ∈ l, InBounds (LC.V1Tok.tokenize C s).length r)
    (g : List MR) (hg : g ∈ post l) :
    ∃ f z a b, g.head? = some f ∧ g.getLast? = some z ∧
      LC.V1Tok.targetRange (LC.V1Tok.tokenize C s) f.ts.toNat z.te.toNat = some (a, b) ∧
      a ≤ b ∧ b ≤ s.length := by
  obtain ⟨hne, hsg, hbg⟩ := post_inv' _ l hs hb g hg
  cases g with
  | nil => exact absurd rfl hne
  | cons f tl =>
    have hlast : (f :: tl).getLast? = some ((f :: tl).getLast (by simp)) :=
      List.getLast?_eq_some_getLast (by simp)
    generalize hz : (f :: tl).getLast (by simp) = z at hlast
    have hzm : z ∈ f :: tl := by rw [← hz]; exact List.getLast_mem _
    have hfb := hbg f (by simp)
    have hzb := hbg z hzm
    have hfz : f.ts ≤ z.ts := by
      rcases List.mem_cons.1 hzm with rfl | hz'
      · exact Int.le_refl _
      · exact (List.pairwise_cons.1 hsg).1 z hz'
    unfold InBounds at hfb hzb
    obtain ⟨a, b, h1, h2, h3⟩ := LC.V1Tok.targetRange_ok' C s f.ts.toNat z.te.toNat hv
      ⟨by omega, by omega⟩
    exact ⟨f, z, a, b, rfl, hlast, h1, h2, h3⟩

end LC.V1Search
