/- Helper lemmas for the worker-pool protocol (LC/Props/C19.lean). -/
import LC.Model.Pool

namespace LC.Pool

theorem mem_of_pos {tr : List Act} {a : Act} {i : Nat} (h : pos tr a = some i) : a ∈ tr := by
  unfold pos at h
  simp only at h
  split at h
  · rename_i hlt
    have := List.findIdx_getElem (w := hlt)
    have e : tr[List.findIdx (fun x => decide (x = a)) tr] = a := by simpa using this
    rw [← e]
    exact List.getElem_mem _
  · cases h

theorem no_send_after_close' (n : Nat) (tr : List Act) (h : Exec .sendThenDone n tr) :
    ¬ SendAfterClose tr := by
  rintro ⟨k, i, w, hk, hi, hki⟩
  have hw : w < n := by
    have := h.onlyWorkers _ (mem_of_pos hi)
    simpa using this
  obtain ⟨i', j, hi', hj, hij⟩ := h.workers w hw
  obtain ⟨j', hj', hjk⟩ := h.closeAfterDone k hk w hw
  rw [hi] at hi'
  rw [hj] at hj'
  cases hi'
  cases hj'
  simp only at hij
  omega

theorem old_order_can_panic' : ∃ tr, Exec .doneThenSend 1 tr ∧ SendAfterClose tr := by
  refine ⟨[.done 0, .close, .send 0], ⟨by decide, ?_, ?_, ?_⟩, ⟨1, 2, 0, by decide, by decide, by decide⟩⟩
  · intro w hw
    have : w = 0 := by omega
    subst this
    exact ⟨2, 0, by decide, by decide, by decide⟩
  · intro a ha
    simp only [List.mem_cons, List.mem_nil_iff, or_false] at ha
    rcases ha with rfl | rfl | rfl <;> simp
  · intro k hk w hw
    have : w = 0 := by omega
    subst this
    have : k = 1 := by
      have h1 : pos [Act.done 0, Act.close, Act.send 0] Act.close = some 1 := by decide
      rw [h1] at hk
      cases hk
      rfl
    subst this
    exact ⟨0, by decide, by decide⟩

end LC.Pool
