/-
Helper lemmas for LC/Props/C11.lean, hyphenated inputs included: on EVERY input the
non-normalizing tokenizer's token lines never decrease (`Mono`, from LC/Proofs/Lines.lean) and
the token after an EOL token is on a strictly later line (`EolLastLt`).
Core Lean only.
-/
import LC.Proofs.Render
import LC.Proofs.Lines
namespace LC.V2Tok
open LC.Utf8

/-! ### `Mono` from the line invariant of LC/Proofs/Lines.lean -/

theorem mono_of_pairwise (ts : List Tok) : ∀ p, (∀ t ∈ ts, p ≤ t.line) →
    (ts.map (·.line)).Pairwise (· ≤ ·) → Mono p ts := by
  induction ts with
  | nil => intro _ _ _; trivial
  | cons a ts ih =>
    intro p hp hpw
    rw [List.map_cons, List.pairwise_cons] at hpw
    refine ⟨hp a (by simp), ih a.line (fun t ht => ?_) hpw.2⟩
    exact hpw.1 t.line (List.mem_map.2 ⟨t, ht, rfl⟩)

theorem tokenize_mono' (E : Env) (normalize : Bool) (rs : List Rune) :
    Mono 1 (tokenizeRunes E normalize rs).toks :=
  mono_of_pairwise _ 1 (fun t ht => (token_lines_bounded' E normalize rs t ht).1)
    (token_lines_monotone' E normalize rs)

/-! ### `EolLastLt` as a scan invariant -/

theorem eolLastLt_snoc (toks : List Tok) (x : Tok) (h : EolLastLt toks)
    (hj : ∀ t, toks.getLast? = some t → t.word = [nl] → t.line < x.line) :
    EolLastLt (toks ++ [x]) := by
  induction toks with
  | nil => trivial
  | cons a ts ih =>
    cases ts with
    | nil => exact ⟨fun ha => hj a rfl ha, trivial⟩
    | cons b ts =>
      refine ⟨h.1, ih h.2 (fun t ht => hj t ?_)⟩
      rw [List.getLast?_cons_cons]; exact ht

/-- appending a block of words of line `L` -/
theorem eolLastLt_block (blk : List Tok) (L : Nat) : ∀ toks : List Tok, EolLastLt toks →
    (∀ t, toks.getLast? = some t → t.word = [nl] → t.line < L) →
    (∀ t ∈ blk, t.line = L ∧ t.word ≠ [nl]) →
    EolLastLt (toks ++ blk) ∧ ∀ t, (toks ++ blk).getLast? = some t → t.word = [nl] → t.line < L := by
  induction blk with
  | nil => intro toks h hj _; simpa using ⟨h, hj⟩
  | cons b blk ih =>
    intro toks h hj hb
    obtain ⟨hbl, hbw⟩ := hb b (by simp)
    have e : toks ++ b :: blk = (toks ++ [b]) ++ blk := by simp
    rw [e]
    refine ih (toks ++ [b]) (eolLastLt_snoc toks b h (fun t ht hw => by rw [hbl]; exact hj t ht hw))
      (fun t ht hw => ?_) (fun t ht => hb t (by simp [ht]))
    rw [List.getLast?_concat] at ht
    injection ht with ht
    subst ht
    exact absurd hw hbw

def EolInv (s : State) : Prop :=
  EolLastLt s.doc.toks ∧ ∀ t, s.doc.toks.getLast? = some t → t.word = [nl] → t.line < s.line

theorem lineTok_block {E : Env} (hE : EnvWF E) {l : Nat} {blk : List Tok}
    (hb : ∀ t ∈ blk, LineTok E l t) : ∀ t ∈ blk, t.line = l ∧ t.word ≠ [nl] := by
  intro t ht
  refine ⟨(hb t ht).1, fun e => ?_⟩
  have := (lineTok_ok hE (hb t ht)).1
  rw [e] at this
  exact this (by simp)

/-- a rune other than the newline appends at most a block of words of the current line, and the
line counter does not go back -/
theorem step_other_toks (E : Env) (s : State) (r : Rune) (hr : r ≠ nl) :
    ∃ blk, (step E false s r).doc.toks = s.doc.toks ++ blk ∧ (∀ t ∈ blk, LineTok E s.line t) ∧
      s.line ≤ (step E false s r).line := by
  obtain ⟨blk, hb, hp⟩ := appendLine_toks E s.doc s.line (s.linebuf ++ [flushWord E s.obuf])
  unfold step
  rw [if_neg hr]
  simp only [startOrSkip]
  repeat' split
  all_goals first
    | exact ⟨[], by simp, by simp, Nat.le_refl _⟩
    | exact ⟨blk, hb, hp, Nat.le_add_right _ _⟩

theorem eolInv_step {E : Env} (hE : EnvWF E) (s : State) (r : Rune) (hi : EolInv s) :
    EolInv (step E false s r) := by
  obtain ⟨h1, h2⟩ := hi
  by_cases hr : r = nl
  · subst hr
    by_cases hh : s.obuf ≠ [] ∧ s.obuf.getLast? = some hyphen
    · unfold step
      rw [if_pos rfl, if_pos hh]
      exact ⟨h1, h2⟩
    · obtain ⟨blk, ht, hb, hl⟩ := step_nl_toks E s hh
      obtain ⟨b1, b2⟩ := eolLastLt_block blk s.line s.doc.toks h1 h2 (lineTok_block hE hb)
      unfold EolInv
      rw [ht, hl]
      refine ⟨eolLastLt_snoc _ _ b1 b2, fun t ht _ => ?_⟩
      rw [List.getLast?_concat] at ht
      injection ht with ht
      subst ht
      show s.line < _
      omega
  · obtain ⟨blk, ht, hb, hl⟩ := step_other_toks E s r hr
    obtain ⟨b1, b2⟩ := eolLastLt_block blk s.line s.doc.toks h1 h2 (lineTok_block hE hb)
    unfold EolInv
    rw [ht]
    exact ⟨b1, fun t ht hw => Nat.lt_of_lt_of_le (b2 t ht hw) hl⟩

theorem eolInv_scan {E : Env} (hE : EnvWF E) (rs : List Rune) :
    ∀ s, EolInv s → EolInv (rs.foldl (step E false) s) := by
  induction rs with
  | nil => intro s h; exact h
  | cons r rs ih => intro s h; exact ih _ (eolInv_step hE s r h)

/-- on every input, the token after an EOL token is on a strictly later line -/
theorem tokenize_eol_lastlt' {E : Env} (hE : EnvWF E) (rs : List Rune) :
    EolLastLt (tokenizeRunes E false rs).toks := by
  have hi : EolInv (scanRunes E false rs) :=
    eolInv_scan hE rs {} ⟨trivial, fun t ht => by simp at ht⟩
  obtain ⟨blk, ht, hb⟩ := finish_toks E (scanRunes E false rs)
  unfold tokenizeRunes
  rw [ht]
  exact (eolLastLt_block blk _ _ hi.1 hi.2 (lineTok_block hE hb)).1

end LC.V2Tok
