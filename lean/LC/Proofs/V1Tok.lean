/- Helper lemmas for LC/Props/C17.lean. -/
import LC.Model.V1Tok
namespace LC.V1Tok
open LC.Utf8

/-! ## bit arithmetic on bounded naturals -/
namespace Bits
theorem or_pow (m n b : Nat) (h : b < 2 ^ n) : (m * 2 ^ n) ||| b = m * 2 ^ n + b := by
  rw [← Nat.shiftLeft_eq, Nat.shiftLeft_add_eq_or_of_lt h]

theorem or64 (m b : Nat) (h : b < 64) : (m * 64) ||| b = m * 64 + b := or_pow m 6 b h
theorem or4096 (m b : Nat) (h : b < 4096) : (m * 4096) ||| b = m * 4096 + b := or_pow m 12 b h
theorem or262144 (m b : Nat) (h : b < 262144) : (m * 262144) ||| b = m * 262144 + b := or_pow m 18 b h

theorem and63 (x : Nat) : x &&& 0x3F = x % 64 := Nat.and_two_pow_sub_one_eq_mod x 6
theorem and31 (x : Nat) : x &&& 0x1F = x % 32 := Nat.and_two_pow_sub_one_eq_mod x 5
theorem and15 (x : Nat) : x &&& 0x0F = x % 16 := Nat.and_two_pow_sub_one_eq_mod x 4
theorem and7 (x : Nat) : x &&& 0x07 = x % 8 := Nat.and_two_pow_sub_one_eq_mod x 3
theorem shl6 (x : Nat) : x <<< 6 = x * 64 := Nat.shiftLeft_eq x 6
theorem shl12 (x : Nat) : x <<< 12 = x * 4096 := Nat.shiftLeft_eq x 12
theorem shl18 (x : Nat) : x <<< 18 = x * 262144 := Nat.shiftLeft_eq x 18
theorem shr6 (x : Nat) : x >>> 6 = x / 64 := Nat.shiftRight_eq_div_pow x 6
theorem shr12 (x : Nat) : x >>> 12 = x / 4096 := Nat.shiftRight_eq_div_pow x 12
theorem shr18 (x : Nat) : x >>> 18 = x / 262144 := Nat.shiftRight_eq_div_pow x 18

theorem or80 (b : Nat) (h : b < 64) : 0x80 ||| b = 128 + b := by
  have := or64 2 b h; simpa using this
theorem orC0 (b : Nat) (h : b < 64) : 0xC0 ||| b = 192 + b := by
  have := or64 3 b h; simpa using this
theorem orE0 (b : Nat) (h : b < 32) : 0xE0 ||| b = 224 + b := by
  have := or_pow 7 5 b h; simpa using this
theorem orF0 (b : Nat) (h : b < 16) : 0xF0 ||| b = 240 + b := by
  have := or_pow 15 4 b h; simpa using this

theorem dec2 (x y : Nat) : ((x &&& 0x1F) <<< 6) ||| (y &&& 0x3F) = (x % 32) * 64 + y % 64 := by
  rw [and31, and63, shl6, or64 _ _ (by omega)]

theorem dec3 (x y z : Nat) :
    ((x &&& 0x0F) <<< 12) ||| ((y &&& 0x3F) <<< 6) ||| (z &&& 0x3F)
      = (x % 16) * 4096 + (y % 64) * 64 + z % 64 := by
  rw [and15, and63, and63, shl6, shl12, or4096 _ _ (by omega)]
  have : x % 16 * 4096 + y % 64 * 64 = (x % 16 * 64 + y % 64) * 64 := by omega
  rw [this, or64 _ _ (by omega)]

theorem dec4 (x y z w : Nat) :
    ((x &&& 0x07) <<< 18) ||| ((y &&& 0x3F) <<< 12) ||| ((z &&& 0x3F) <<< 6) ||| (w &&& 0x3F)
      = (x % 8) * 262144 + (y % 64) * 4096 + (z % 64) * 64 + w % 64 := by
  rw [and7, and63, and63, and63, shl6, shl12, shl18]
  have ha : x % 8 < 8 := by omega
  have hb : y % 64 < 64 := by omega
  have hc : z % 64 < 64 := by omega
  have hd : w % 64 < 64 := by omega
  generalize x % 8 = a at *
  generalize y % 64 = b at *
  generalize z % 64 = c at *
  generalize w % 64 = d at *
  rw [or262144 _ _ (by omega)]
  have h1 : a * 262144 + b * 4096 = (a * 64 + b) * 4096 := by omega
  rw [h1, or4096 _ _ (by omega)]
  clear h1
  have h2 : (a * 64 + b) * 4096 + c * 64 = ((a * 64 + b) * 64 + c) * 64 := by
    generalize a * 64 + b = m; omega
  rw [h2, or64 _ _ hd]

theorem enc2 (x y r : Nat) (hr : r = (x % 32) * 64 + y % 64)
    (hx : 0xC2 ≤ x) (hx' : x < 0xE0) (hy : 0x80 ≤ y) (hy' : y ≤ 0xBF) :
    0x80 ≤ r ∧ r < 0x800 ∧ 0xC0 ||| (r >>> 6) = x ∧ 0x80 ||| (r &&& 0x3F) = y := by
  rw [shr6, and63, orC0 _ (by omega), or80 _ (by omega)]
  omega

theorem enc3 (x y z r : Nat) (hr : r = (x % 16) * 4096 + (y % 64) * 64 + z % 64)
    (hx : 0xE0 ≤ x) (hx' : x < 0xF0)
    (hy : (if x = 0xE0 then 0xA0 else 0x80) ≤ y) (hy' : y ≤ (if x = 0xED then 0x9F else 0xBF))
    (hz : 0x80 ≤ z) (hz' : z ≤ 0xBF) :
    0x800 ≤ r ∧ r < 0x10000 ∧ ¬ (0xD800 ≤ r ∧ r ≤ 0xDFFF) ∧
    0xE0 ||| (r >>> 12) = x ∧ 0x80 ||| ((r >>> 6) &&& 0x3F) = y ∧ 0x80 ||| (r &&& 0x3F) = z := by
  rw [shr6, shr12, and63, and63, orE0 _ (by omega), or80 _ (by omega), or80 _ (by omega)]
  split at hy <;> split at hy' <;> omega

theorem enc4 (x y z w r : Nat) (hr : r = (x % 8) * 262144 + (y % 64) * 4096 + (z % 64) * 64 + w % 64)
    (hx : 0xF0 ≤ x) (hx' : x < 0xF5)
    (hy : (if x = 0xF0 then 0x90 else 0x80) ≤ y) (hy' : y ≤ (if x = 0xF4 then 0x8F else 0xBF))
    (hz : 0x80 ≤ z) (hz' : z ≤ 0xBF) (hw : 0x80 ≤ w) (hw' : w ≤ 0xBF) :
    0x10000 ≤ r ∧ r ≤ 0x10FFFF ∧
    0xF0 ||| (r >>> 18) = x ∧ 0x80 ||| ((r >>> 12) &&& 0x3F) = y ∧
    0x80 ||| ((r >>> 6) &&& 0x3F) = z ∧ 0x80 ||| (r &&& 0x3F) = w := by
  rw [shr6, shr12, shr18, and63, and63, and63, orF0 _ (by omega), or80 _ (by omega), or80 _ (by omega), or80 _ (by omega)]
  split at hy <;> split at hy' <;> omega
end Bits

/-! ## shape of `decodeRune` -/

inductive DecShape (p : List UInt8) : Prop
  | err (h : decodeRune p = (runeError, 1))
  | one (b0 : UInt8) (rest : List UInt8) (hp : p = b0 :: rest) (h0 : b0.toNat < 0x80)
      (h : decodeRune p = (b0.toNat, 1))
  | two (b0 b1 : UInt8) (rest : List UInt8) (hp : p = b0 :: b1 :: rest)
      (h0 : 0xC2 ≤ b0.toNat) (h0' : b0.toNat < 0xE0) (h1 : 0x80 ≤ b1.toNat) (h1' : b1.toNat ≤ 0xBF)
      (h : decodeRune p = (((b0.toNat &&& 0x1F) <<< 6) ||| (b1.toNat &&& 0x3F), 2))
  | three (b0 b1 b2 : UInt8) (rest : List UInt8) (hp : p = b0 :: b1 :: b2 :: rest)
      (h0 : 0xE0 ≤ b0.toNat) (h0' : b0.toNat < 0xF0)
      (h1 : (if b0.toNat = 0xE0 then 0xA0 else 0x80) ≤ b1.toNat)
      (h1' : b1.toNat ≤ (if b0.toNat = 0xED then 0x9F else 0xBF))
      (h2 : 0x80 ≤ b2.toNat) (h2' : b2.toNat ≤ 0xBF)
      (h : decodeRune p = (((b0.toNat &&& 0x0F) <<< 12) ||| ((b1.toNat &&& 0x3F) <<< 6) |||
        (b2.toNat &&& 0x3F), 3))
  | four (b0 b1 b2 b3 : UInt8) (rest : List UInt8) (hp : p = b0 :: b1 :: b2 :: b3 :: rest)
      (h0 : 0xF0 ≤ b0.toNat) (h0' : b0.toNat < 0xF5)
      (h1 : (if b0.toNat = 0xF0 then 0x90 else 0x80) ≤ b1.toNat)
      (h1' : b1.toNat ≤ (if b0.toNat = 0xF4 then 0x8F else 0xBF))
      (h2 : 0x80 ≤ b2.toNat) (h2' : b2.toNat ≤ 0xBF)
      (h3 : 0x80 ≤ b3.toNat) (h3' : b3.toNat ≤ 0xBF)
      (h : decodeRune p = (((b0.toNat &&& 0x07) <<< 18) ||| ((b1.toNat &&& 0x3F) <<< 12) |||
        ((b2.toNat &&& 0x3F) <<< 6) ||| (b3.toNat &&& 0x3F), 4))

theorem decShape (p : List UInt8) (hne : p ≠ []) : DecShape p := by
  match p, hne with
  | b0 :: rest, _ =>
    by_cases c1 : b0.toNat < 0x80
    · exact .one b0 rest rfl c1 (by simp [decodeRune, c1])
    by_cases c2 : b0.toNat < 0xC2
    · exact .err (by simp [decodeRune, c1, c2])
    by_cases c3 : b0.toNat < 0xE0
    · match rest with
      | [] => exact .err (by simp [decodeRune, c1, c2, c3])
      | b1 :: rest =>
        by_cases c : isCont b1
        · have c' := c
          simp only [isCont, Bool.and_eq_true, decide_eq_true_eq] at c'
          exact .two b0 b1 rest rfl (by omega) c3 c'.1 c'.2 (by simp [decodeRune, c1, c2, c3, c])
        · exact .err (by simp [decodeRune, c1, c2, c3, c])
    by_cases c4 : b0.toNat < 0xF0
    · match rest with
      | [] => exact .err (by simp [decodeRune, c1, c2, c3, c4])
      | [_] => exact .err (by simp [decodeRune, c1, c2, c3, c4])
      | b1 :: b2 :: rest =>
        by_cases c : ((if b0.toNat = 0xE0 then 0xA0 else 0x80) ≤ b1.toNat &&
            b1.toNat ≤ (if b0.toNat = 0xED then 0x9F else 0xBF) && isCont b2) = true
        · have c' := c
          simp only [isCont, Bool.and_eq_true, decide_eq_true_eq] at c'
          exact .three b0 b1 b2 rest rfl (by omega) c4 c'.1.1 c'.1.2 c'.2.1 c'.2.2
            (by simp only [decodeRune, c1, c2, c3, c4, c, if_true, if_false])
        · exact .err (by simp only [decodeRune, c1, c2, c3, c4, c, if_true, if_false]; rfl)
    by_cases c5 : b0.toNat < 0xF5
    · match rest with
      | [] => exact .err (by simp [decodeRune, c1, c2, c3, c4, c5])
      | [_] => exact .err (by simp [decodeRune, c1, c2, c3, c4, c5])
      | [_, _] => exact .err (by simp [decodeRune, c1, c2, c3, c4, c5])
      | b1 :: b2 :: b3 :: rest =>
        by_cases c : ((if b0.toNat = 0xF0 then 0x90 else 0x80) ≤ b1.toNat &&
            b1.toNat ≤ (if b0.toNat = 0xF4 then 0x8F else 0xBF) && isCont b2 && isCont b3) = true
        · have c' := c
          simp only [isCont, Bool.and_eq_true, decide_eq_true_eq] at c'
          exact .four b0 b1 b2 b3 rest rfl (by omega) c5 c'.1.1.1 c'.1.1.2 c'.1.2.1 c'.1.2.2 c'.2.1 c'.2.2
            (by simp only [decodeRune, c1, c2, c3, c4, c5, c, if_true, if_false])
        · exact .err (by simp only [decodeRune, c1, c2, c3, c4, c5, c, if_true, if_false]; rfl)
    · exact .err (by simp [decodeRune, c1, c2, c3, c4, c5])

theorem decodeRune_width (p : List UInt8) (hne : p ≠ []) :
    1 ≤ (decodeRune p).2 ∧ (decodeRune p).2 ≤ p.length := by
  have hl : 1 ≤ p.length := by
    cases p with
    | nil => exact absurd rfl hne
    | cons _ _ => simp
  cases decShape p hne with
  | err h => rw [h]; exact ⟨Nat.le_refl _, hl⟩
  | one b0 rest hp h0 h => rw [h]; exact ⟨Nat.le_refl _, hl⟩
  | two b0 b1 rest hp h0 h0' h1 h1' h => rw [h, hp]; simp
  | three b0 b1 b2 rest hp h0 h0' h1 h1' h2 h2' h => rw [h, hp]; simp
  | four b0 b1 b2 b3 rest hp h0 h0' h1 h1' h2 h2' h3 h3' h => rw [h, hp]; simp

theorem ofNat_eq (n : Nat) (b : UInt8) (h : n = b.toNat) : UInt8.ofNat n = b := by
  rw [h]; exact UInt8.ofNat_toNat

/-! ## UTF-8 round trip -/

theorem encode_decode' (p : List UInt8) (h : decodeRune p ≠ (runeError, 1)) (hne : p ≠ []) :
    encodeRune (decodeRune p).1 = p.take (decodeRune p).2 := by
  cases decShape p hne with
  | err h' => exact absurd h' h
  | one b0 rest hp h0 h' =>
    rw [h', hp]
    simp only [encodeRune, h0, if_true, List.take_succ_cons, List.take_zero]
    rw [ofNat_eq _ _ rfl]
  | two b0 b1 rest hp h0 h0' h1 h1' h' =>
    rw [h', hp, Bits.dec2]
    obtain ⟨e1, e2, e3, e4⟩ := Bits.enc2 b0.toNat b1.toNat _ rfl h0 h0' h1 h1'
    have n1 : ¬ (b0.toNat % 32 * 64 + b1.toNat % 64 < 0x80) := by omega
    simp only [encodeRune, n1, e2, if_true, if_false, List.take_succ_cons, List.take_zero]
    rw [ofNat_eq _ _ e3, ofNat_eq _ _ e4]
  | three b0 b1 b2 rest hp h0 h0' h1 h1' h2 h2' h' =>
    rw [h', hp, Bits.dec3]
    obtain ⟨e1, e2, e3, e4, e5, e6⟩ := Bits.enc3 b0.toNat b1.toNat b2.toNat _ rfl h0 h0' h1 h1' h2 h2'
    generalize b0.toNat % 16 * 4096 + b1.toNat % 64 * 64 + b2.toNat % 64 = r at *
    have n1 : ¬ (r < 0x80) := by omega
    have n2 : ¬ (r < 0x800) := by omega
    have n3 : ((decide (0xD800 ≤ r) && decide (r ≤ 0xDFFF)) || decide (r > 0x10FFFF)) = false := by
      simp only [Bool.or_eq_false_iff, Bool.and_eq_false_iff, decide_eq_false_iff_not]
      omega
    simp only [encodeRune, n1, n2, n3, e2, if_true, if_false, Bool.false_eq_true, List.take_succ_cons, List.take_zero]
    rw [ofNat_eq _ _ e4, ofNat_eq _ _ e5, ofNat_eq _ _ e6]
  | four b0 b1 b2 b3 rest hp h0 h0' h1 h1' h2 h2' h3 h3' h' =>
    rw [h', hp, Bits.dec4]
    obtain ⟨e1, e2, e3, e4, e5, e6⟩ :=
      Bits.enc4 b0.toNat b1.toNat b2.toNat b3.toNat _ rfl h0 h0' h1 h1' h2 h2' h3 h3'
    generalize b0.toNat % 8 * 262144 + b1.toNat % 64 * 4096 + b2.toNat % 64 * 64 + b3.toNat % 64 = r at *
    have n1 : ¬ (r < 0x80) := by omega
    have n2 : ¬ (r < 0x800) := by omega
    have n4 : ¬ (r < 0x10000) := by omega
    have n3 : ((decide (0xD800 ≤ r) && decide (r ≤ 0xDFFF)) || decide (r > 0x10FFFF)) = false := by
      simp only [Bool.or_eq_false_iff, Bool.and_eq_false_iff, decide_eq_false_iff_not]
      omega
    simp only [encodeRune, n1, n2, n3, n4, if_false, Bool.false_eq_true, List.take_succ_cons, List.take_zero]
    rw [ofNat_eq _ _ e3, ofNat_eq _ _ e4, ofNat_eq _ _ e5, ofNat_eq _ _ e6]

/-! ## unfolding `scan` -/

theorem scan_nil (C : Classes) (fuel i : Nat) (cur : Option Tok) (acc : List Tok) :
    scan C fuel [] i cur acc = acc ++ cur.toList := by
  cases fuel <;> rfl

theorem scan_space (C : Classes) (fuel : Nat) (rest : List UInt8) (i : Nat) (cur : Option Tok)
    (acc : List Tok) (hne : rest ≠ []) (h : C.isSpace (decodeRune rest).1 = true) :
    scan C (fuel + 1) rest i cur acc =
      scan C fuel (rest.drop (max 1 (decodeRune rest).2)) (i + max 1 (decodeRune rest).2) none
        (acc ++ cur.toList) := by
  cases rest with
  | nil => exact absurd rfl hne
  | cons b r => simp only [scan, h, if_true]

theorem scan_punct (C : Classes) (fuel : Nat) (rest : List UInt8) (i : Nat) (cur : Option Tok)
    (acc : List Tok) (hne : rest ≠ []) (h : C.isSpace (decodeRune rest).1 = false)
    (h2 : C.isPunct (decodeRune rest).1 = true) :
    scan C (fuel + 1) rest i cur acc =
      scan C fuel (rest.drop (max 1 (decodeRune rest).2)) (i + max 1 (decodeRune rest).2) none
        (acc ++ cur.toList ++ [{ text := encodeRune (decodeRune rest).1, offset := i }]) := by
  cases rest with
  | nil => exact absurd rfl hne
  | cons b r => simp only [scan, h, h2, if_true, if_false, Bool.false_eq_true]

theorem scan_word (C : Classes) (fuel : Nat) (rest : List UInt8) (i : Nat) (cur : Option Tok)
    (acc : List Tok) (hne : rest ≠ []) (h : C.isSpace (decodeRune rest).1 = false)
    (h2 : C.isPunct (decodeRune rest).1 = false) :
    scan C (fuel + 1) rest i cur acc =
      scan C fuel (rest.drop (max 1 (decodeRune rest).2)) (i + max 1 (decodeRune rest).2)
        (some (match cur with
          | none => { text := rest.take (max 1 (decodeRune rest).2), offset := i }
          | some t => { t with text := t.text ++ rest.take (max 1 (decodeRune rest).2) }))
        acc := by
  cases rest with
  | nil => exact absurd rfl hne
  | cons b r => simp only [scan, h, h2, if_false, Bool.false_eq_true]; cases cur <;> rfl

/-- facts about one step of the loop at offset `i` -/
theorem step_facts (s : List UInt8) (i : Nat) (hne : s.drop i ≠ []) :
    1 ≤ max 1 (decodeRune (s.drop i)).2 ∧
    max 1 (decodeRune (s.drop i)).2 = (decodeRune (s.drop i)).2 ∧
    i + max 1 (decodeRune (s.drop i)).2 ≤ s.length ∧
    ((s.drop i).take (max 1 (decodeRune (s.drop i)).2)).length = max 1 (decodeRune (s.drop i)).2 ∧
    (s.drop i).drop (max 1 (decodeRune (s.drop i)).2) = s.drop (i + max 1 (decodeRune (s.drop i)).2) := by
  have hw := decodeRune_width _ hne
  have hl : (s.drop i).length = s.length - i := List.length_drop
  have hi : i < s.length := by
    have : ¬ s.length ≤ i := fun h => hne (List.drop_eq_nil_iff.mpr h)
    omega
  refine ⟨by omega, by omega, by omega, ?_, ?_⟩
  · rw [List.length_take]; omega
  · rw [List.drop_drop]

/-! ## faithfulness invariant -/

def TokOK (s : List UInt8) (t : Tok) : Prop :=
  t.text ≠ [] ∧ (s.drop t.offset).take t.text.length = t.text ∧ t.offset + t.text.length ≤ s.length

theorem faithful_nil (s : List UInt8) : Faithful s [] :=
  ⟨fun _ h => (by cases h), List.Pairwise.nil⟩

theorem faithful_snoc (s : List UInt8) (acc : List Tok) (t : Tok) (ha : Faithful s acc)
    (ht : TokOK s t) (hs : ∀ a ∈ acc, a.offset + a.text.length ≤ t.offset) :
    Faithful s (acc ++ [t]) := by
  refine ⟨?_, ?_⟩
  · intro x hx
    rcases List.mem_append.mp hx with hx | hx
    · exact ha.1 x hx
    · have : x = t := by simpa using hx
      subst this; exact ht
  · rw [List.pairwise_append]
    refine ⟨ha.2, List.pairwise_singleton _ _, ?_⟩
    intro a haa b hb
    have : b = t := by simpa using hb
    subst this; exact hs a haa

structure Inv (s : List UInt8) (i : Nat) (cur : Option Tok) (acc : List Tok) : Prop where
  hacc : Faithful s acc
  hend : ∀ t ∈ acc, t.offset + t.text.length ≤ i
  hcur : ∀ c, cur = some c → TokOK s c ∧ c.offset + c.text.length = i ∧
    ∀ t ∈ acc, t.offset + t.text.length ≤ c.offset

theorem Inv.close {s : List UInt8} {i : Nat} {cur : Option Tok} {acc : List Tok}
    (h : Inv s i cur acc) :
    Faithful s (acc ++ cur.toList) ∧ ∀ t ∈ acc ++ cur.toList, t.offset + t.text.length ≤ i := by
  cases cur with
  | none => simpa using ⟨h.hacc, h.hend⟩
  | some c =>
    obtain ⟨ok, he, hsep⟩ := h.hcur c rfl
    refine ⟨faithful_snoc s acc c h.hacc ok hsep, ?_⟩
    intro t ht
    rcases List.mem_append.mp ht with ht | ht
    · exact h.hend t ht
    · have : t = c := by simpa using ht
      subst this; omega

theorem scan_faithful (C : Classes) (hv : C.isPunct runeError = false) (s : List UInt8) :
    ∀ (fuel : Nat) (rest : List UInt8) (i : Nat) (cur : Option Tok) (acc : List Tok),
      rest = s.drop i → Inv s i cur acc → Faithful s (scan C fuel rest i cur acc) := by
  intro fuel
  induction fuel with
  | zero => intro rest i cur acc _ h; exact h.close.1
  | succ fuel ih =>
    intro rest i cur acc hrest h
    by_cases hne : rest = []
    · subst hne; rw [scan_nil]; exact h.close.1
    subst hrest
    have hne' : s.drop i ≠ [] := hne
    obtain ⟨f1, f2, f3, f4, f5⟩ := step_facts s i hne'
    obtain ⟨hcl, hclend⟩ := h.close
    cases hsp : C.isSpace (decodeRune (s.drop i)).1 with
    | true =>
      rw [scan_space C fuel (s.drop i) i cur acc hne hsp]
      apply ih
      · exact f5
      · refine ⟨hcl, ?_, ?_⟩
        · intro t ht; have := hclend t ht; omega
        · intro c hc; cases hc
    | false =>
      cases hpu : C.isPunct (decodeRune (s.drop i)).1 with
      | true =>
        rw [scan_punct C fuel (s.drop i) i cur acc hne hsp hpu]
        apply ih
        · exact f5
        · have hnerr : decodeRune (s.drop i) ≠ (runeError, 1) := by
            intro he
            rw [he] at hpu
            rw [hv] at hpu
            cases hpu
          have henc := encode_decode' (s.drop i) hnerr hne
          have hlen : (encodeRune (decodeRune (s.drop i)).1).length = (decodeRune (s.drop i)).2 := by
            rw [henc, ← f2, f4]
          refine ⟨?_, ?_, ?_⟩
          · apply faithful_snoc s _ _ hcl
            · refine ⟨?_, ?_, ?_⟩
              · intro he
                have : (encodeRune (decodeRune (s.drop i)).1).length = 0 := by
                  simpa using congrArg List.length he
                omega
              · show List.take (encodeRune (decodeRune (s.drop i)).1).length (s.drop i) = encodeRune (decodeRune (s.drop i)).1
                rw [hlen, henc]
              · show i + (encodeRune (decodeRune (s.drop i)).1).length ≤ s.length
                rw [hlen]; omega
            · exact hclend
          · intro t ht
            rcases List.mem_append.mp ht with ht | ht
            · have := hclend t ht; omega
            · have : t = { text := encodeRune (decodeRune (s.drop i)).1, offset := i } := by simpa using ht
              subst this
              show i + (encodeRune (decodeRune (s.drop i)).1).length ≤ _
              rw [hlen]; omega
          · intro c hc; cases hc
      | false =>
        rw [scan_word C fuel (s.drop i) i cur acc hne hsp hpu]
        apply ih
        · exact f5
        · refine ⟨h.hacc, ?_, ?_⟩
          · intro t ht; have := h.hend t ht; omega
          · intro c hc
            cases cur with
            | none =>
              simp only [Option.some.injEq] at hc
              subst hc
              refine ⟨⟨?_, ?_, ?_⟩, ?_, ?_⟩
              · intro he
                have : (List.take (max 1 (decodeRune (s.drop i)).2) (s.drop i)).length = 0 := by
                  simpa using congrArg List.length he
                omega
              · show List.take (List.take _ (s.drop i)).length (s.drop i) = List.take _ (s.drop i)
                rw [f4]
              · show i + (List.take _ (s.drop i)).length ≤ s.length
                rw [f4]; exact f3
              · show i + (List.take _ (s.drop i)).length = _
                rw [f4]
              · exact h.hend
            | some t =>
              simp only [Option.some.injEq] at hc
              subst hc
              obtain ⟨⟨o1, o2, o3⟩, he, hsep⟩ := h.hcur t rfl
              have hlen : (t.text ++ List.take (max 1 (decodeRune (s.drop i)).2) (s.drop i)).length
                  = t.text.length + max 1 (decodeRune (s.drop i)).2 := by
                rw [List.length_append, f4]
              refine ⟨⟨?_, ?_, ?_⟩, ?_, ?_⟩
              · intro he'
                have := congrArg List.length he'
                rw [hlen, List.length_nil] at this
                omega
              · show List.take (t.text ++ List.take _ (s.drop i)).length (s.drop t.offset) = t.text ++ List.take _ (s.drop i)
                rw [hlen, List.take_add, o2, List.drop_drop, he]
              · show t.offset + (t.text ++ List.take _ (s.drop i)).length ≤ s.length
                rw [hlen]; omega
              · show t.offset + (t.text ++ List.take _ (s.drop i)).length = _
                rw [hlen]; omega
              · exact hsep

theorem tokenize_faithful' (C : Classes) (hv : C.isPunct runeError = false) (s : List UInt8) :
    Faithful s (tokenize C s) := by
  unfold tokenize
  apply scan_faithful C hv s
  · rfl
  · exact ⟨faithful_nil s, fun _ h => (by cases h), fun _ h => (by cases h)⟩

/-! ## coverage -/

def Covered (ts : List Tok) (k : Nat) : Prop :=
  ∃ t ∈ ts, t.offset ≤ k ∧ k < t.offset + t.text.length

def SpaceAt (C : Classes) (s : List UInt8) (k : Nat) : Prop :=
  ∃ j ≤ k, k < j + max 1 (decodeRune (s.drop j)).2 ∧ C.isSpace (decodeRune (s.drop j)).1 = true

theorem Covered.mono {ts ts' : List Tok} {k : Nat} (h : ∀ t ∈ ts, t ∈ ts') (hc : Covered ts k) :
    Covered ts' k := by
  obtain ⟨t, ht, h1⟩ := hc
  exact ⟨t, h t ht, h1⟩

theorem encodeRune_length_ge (p : List UInt8) (hne : p ≠ []) :
    max 1 (decodeRune p).2 ≤ (encodeRune (decodeRune p).1).length := by
  have hw := decodeRune_width p hne
  by_cases he : decodeRune p = (runeError, 1)
  · rw [he]; decide
  · rw [encode_decode' p he hne, List.length_take]; omega

theorem scan_cover (C : Classes) (s : List UInt8) :
    ∀ (fuel : Nat) (rest : List UInt8) (i : Nat) (cur : Option Tok) (acc : List Tok),
      rest = s.drop i → i ≤ s.length → rest.length < fuel →
      (∀ c, cur = some c → c.offset + c.text.length = i) →
      (∀ k, k < i → Covered (acc ++ cur.toList) k ∨ SpaceAt C s k) →
      ∀ k, k < s.length → Covered (scan C fuel rest i cur acc) k ∨ SpaceAt C s k := by
  intro fuel
  induction fuel with
  | zero => intro rest i cur acc _ _ hf; exact absurd hf (Nat.not_lt_zero _)
  | succ fuel ih =>
    intro rest i cur acc hrest hi hfuel hcur hcov
    by_cases hne : rest = []
    · subst hne
      rw [scan_nil]
      have : s.length ≤ i := List.drop_eq_nil_iff.mp hrest.symm
      intro k hk
      exact hcov k (by omega)
    subst hrest
    obtain ⟨f1, f2, f3, f4, f5⟩ := step_facts s i hne
    have hl : (s.drop i).length = s.length - i := List.length_drop
    have hfuel' : ((s.drop i).drop (max 1 (decodeRune (s.drop i)).2)).length < fuel := by
      rw [List.length_drop]; omega
    cases hsp : C.isSpace (decodeRune (s.drop i)).1 with
    | true =>
      rw [scan_space C fuel (s.drop i) i cur acc hne hsp]
      apply ih _ _ _ _ f5 f3 hfuel'
      · intro c hc; cases hc
      · intro k hk
        by_cases hki : k < i
        · rcases hcov k hki with h | h
          · exact Or.inl (h.mono (fun t ht => by simpa using ht))
          · exact Or.inr h
        · exact Or.inr ⟨i, by omega, hk, hsp⟩
    | false =>
      cases hpu : C.isPunct (decodeRune (s.drop i)).1 with
      | true =>
        rw [scan_punct C fuel (s.drop i) i cur acc hne hsp hpu]
        apply ih _ _ _ _ f5 f3 hfuel'
        · intro c hc; cases hc
        · intro k hk
          by_cases hki : k < i
          · rcases hcov k hki with h | h
            · refine Or.inl (h.mono (fun t ht => ?_))
              simp only [Option.toList_none, List.append_nil]
              exact List.mem_append_left _ ht
            · exact Or.inr h
          · have hge := encodeRune_length_ge (s.drop i) hne
            refine Or.inl ⟨{ text := encodeRune (decodeRune (s.drop i)).1, offset := i }, ?_, ?_, ?_⟩
            · simp
            · show i ≤ k; omega
            · show k < i + (encodeRune (decodeRune (s.drop i)).1).length; omega
      | false =>
        rw [scan_word C fuel (s.drop i) i cur acc hne hsp hpu]
        apply ih _ _ _ _ f5 f3 hfuel'
        · intro c hc
          simp only [Option.some.injEq] at hc
          subst hc
          cases cur with
          | none =>
            show i + (List.take _ (s.drop i)).length = _
            rw [f4]
          | some t =>
            have he := hcur t rfl
            show t.offset + (t.text ++ List.take _ (s.drop i)).length = _
            rw [List.length_append, f4]; omega
        · intro k hk
          cases cur with
          | none =>
            by_cases hki : k < i
            · rcases hcov k hki with h | h
              · refine Or.inl (h.mono (fun t ht => ?_))
                simp only [Option.toList_none, List.append_nil] at ht
                exact List.mem_append_left _ ht
              · exact Or.inr h
            · refine Or.inl ⟨{ text := List.take (max 1 (decodeRune (s.drop i)).2) (s.drop i), offset := i }, ?_, ?_, ?_⟩
              · simp
              · show i ≤ k; omega
              · show k < i + (List.take _ (s.drop i)).length
                rw [f4]; exact hk
          | some t =>
            have he := hcur t rfl
            have hlen : (t.text ++ List.take (max 1 (decodeRune (s.drop i)).2) (s.drop i)).length
                = t.text.length + max 1 (decodeRune (s.drop i)).2 := by
              rw [List.length_append, f4]
            by_cases hki : k < i
            · rcases hcov k hki with h | h
              · obtain ⟨x, hx, h1, h2⟩ := h
                rcases List.mem_append.mp hx with hx | hx
                · exact Or.inl ⟨x, List.mem_append_left _ hx, h1, h2⟩
                · have : x = t := by simpa using hx
                  subst this
                  refine Or.inl ⟨{ x with text := x.text ++ List.take (max 1 (decodeRune (s.drop i)).2) (s.drop i) }, ?_, h1, ?_⟩
                  · simp
                  · show k < x.offset + (x.text ++ List.take _ (s.drop i)).length
                    rw [hlen]; omega
              · exact Or.inr h
            · refine Or.inl ⟨{ t with text := t.text ++ List.take (max 1 (decodeRune (s.drop i)).2) (s.drop i) }, ?_, ?_, ?_⟩
              · simp
              · show t.offset ≤ k; omega
              · show k < t.offset + (t.text ++ List.take _ (s.drop i)).length
                rw [hlen]; omega

theorem uncovered_is_space' (C : Classes) (s : List UInt8) (i : Nat) (hi : i < s.length)
    (hcov : ∀ t ∈ tokenize C s, ¬ (t.offset ≤ i ∧ i < t.offset + t.text.length)) :
    ∃ j ≤ i, i < j + max 1 (decodeRune (s.drop j)).2 ∧ C.isSpace (decodeRune (s.drop j)).1 = true := by
  have h := scan_cover C s (s.length + 1) s 0 none [] rfl (Nat.zero_le _) (Nat.lt_succ_self _)
    (fun _ hc => by cases hc) (fun k hk => absurd hk (Nat.not_lt_zero _)) i hi
  rcases h with ⟨t, ht, h1⟩ | h
  · exact absurd h1 (hcov t ht)
  · exact h

/-! ## TargetRange -/

theorem targetRange_ok' (C : Classes) (s : List UInt8) (ts te : Nat)
    (hv : C.isPunct runeError = false) (h : ts < te ∧ te ≤ (tokenize C s).length) :
    ∃ a b, targetRange (tokenize C s) ts te = some (a, b) ∧ a ≤ b ∧ b ≤ s.length := by
  have hf := tokenize_faithful' C hv s
  generalize tokenize C s = toks at *
  obtain ⟨h1, h2⟩ := h
  have hts : ts < toks.length := by omega
  have hte : te - 1 < toks.length := by omega
  refine ⟨toks[ts].offset, toks[te - 1].offset + toks[te - 1].text.length, ?_, ?_, ?_⟩
  · simp only [targetRange, List.getElem?_eq_getElem hts, List.getElem?_eq_getElem hte]
  · by_cases he : ts = te - 1
    · subst he; omega
    · have := List.pairwise_iff_getElem.mp hf.2 ts (te - 1) hts hte (by omega)
      omega
  · exact (hf.1 _ (List.getElem_mem hte)).2.2

end LC.V1Tok
