/-
C04: Match is a deterministic function of corpus and input.

The Go code collects candidates by ranging over maps (docs, firstPass,
offsetMappings) and then sorts. The theorems say: a sort with a comparator that
orders any two distinct elements has exactly one result per multiset, the
comparators in use are of that kind, hence the model's result is the same for
EVERY iteration order of the corpus map; and the dictionary keeps words and ids
in bijection however it grows.  The comparator field order the model mirrors is
checked against the regenerated one (LC/Gen/V2Tables `matchLessFields`).
Tracing and slice aliasing are run-time facts covered by the harness only.
Property theorems only; helper lemmas live in LC/Proofs/MatchOrd.lean.
-/
import LC.Model.V2Match
import LC.Gen.V2Tables
import LC.Proofs.MatchOrd
import LC.Proofs.Equivariant

namespace LC.V2Match

/-- sorting permutes -/
theorem sortBy_perm {α : Type} (less : α → α → Bool) (l : List α) : (sortBy less l).Perm l :=
  sortBy_perm' less l

/-- …and sorts -/
theorem sortBy_sorted {α : Type} (less : α → α → Bool) (tot : StrictTotal less) (l : List α) :
    (sortBy less l).Pairwise (fun a b => less b a = false) :=
  sortBy_sorted' less tot l

/-- Any two lists with the same elements sort to the same list: the order in which a Go map
delivered the elements is irrelevant after sorting with a comparator that is a strict total order.
(Holds for every correct sorting algorithm; Go's unstable pdqsort included: a sorted permutation
under such a comparator is unique.) -/
theorem sort_order_irrelevant {α : Type} (less : α → α → Bool) (tot : StrictTotal less)
    (l₁ l₂ : List α) (hp : l₁.Perm l₂) : sortBy less l₁ = sortBy less l₂ :=
  sort_order_irrelevant' less tot l₁ l₂ hp

theorem sorted_perm_unique {α : Type} (less : α → α → Bool) (tot : StrictTotal less)
    (l₁ l₂ : List α) (hp : l₁.Perm l₂)
    (h₁ : l₁.Pairwise (fun a b => less b a = false)) (h₂ : l₂.Pairwise (fun a b => less b a = false)) :
    l₁ = l₂ :=
  sorted_perm_unique' less tot l₁ l₂ hp h₁ h₂

/-- `Matches.Less` (as repaired) orders any two distinct matches. -/
theorem matchLess_total {C : Type} (N : NumEnv C) (laws : NumLaws N) : StrictTotal (matchLess N) :=
  matchLess_total' N laws

/-- `matchRanges.Less` orders any two ranges that differ in (TokensClaimed, TargetStart, SrcStart);
on lists whose ranges are determined by (TargetStart, SrcStart) it is a strict total order on the
elements, so flattening offsetMappings in any map order and sorting gives one result. -/
theorem mr_sort_order_irrelevant (l₁ l₂ : List MR) (hp : l₁.Perm l₂)
    (hk : ∀ a ∈ l₁, ∀ b ∈ l₁, a.tgtStart = b.tgtStart → a.srcStart = b.srcStart → a.claimed = b.claimed → a = b) :
    sortBy mrLess l₁ = sortBy mrLess l₂ :=
  mr_sort_order_irrelevant' l₁ l₂ hp hk

/-- The result of `match` does not depend on the order in which the corpus map is iterated. -/
theorem match_order_independent {C : Type} (N : NumEnv C) (laws : NumLaws N)
    (crc : Text → Nat) (wordOf : Nat → Text) (isDigitRune : Nat → Bool) (decode : Text → List Nat)
    (induced : List (Text × List Text)) (diffOf : KDoc → Nat → Nat → Option (List (LC.Score.Diff Nat)))
    (cntT : Nat → Nat) (docs₁ docs₂ : List PDoc) (hp : docs₁.Perm docs₂)
    (target : Array IdTok) (crs : List Nat) (r₁ r₂ : Results C)
    (h₁ : matchModel N crc wordOf isDigitRune decode induced diffOf cntT docs₁ target crs = .ok r₁)
    (h₂ : matchModel N crc wordOf isDigitRune decode induced diffOf cntT docs₂ target crs = .ok r₂) :
    r₁.ms = r₂.ms ∧ r₁.totalInputLines = r₂.totalInputLines :=
  match_order_independent' N laws crc wordOf isDigitRune decode induced diffOf cntT docs₁ docs₂ hp target crs r₁ r₂ h₁ h₂

/-! ### the result does not depend on which ids the dictionary happened to assign

Two classifiers built from the same documents in a different order (or a classifier whose
dictionary grew through `Normalize`) assign different ids to the same words. `σ` renames the
ids; `wordOf'` is the renamed dictionary; the diff library is assumed to depend on its inputs
only through their equality pattern (`hd`: it commutes with an injective renaming — go-diff
works on the rune values the ids are cast to and only compares them). -/

-- `mapKDoc σ d`, `mapTarget σ t`, `mapDiff σ x` (LC/Proofs/Equivariant.lean): the document, the
-- target tokens, a diff segment with every id replaced by its image under σ.

/-- Renaming the token ids by an injection changes nothing: same matches, same confidences, same
spans and lines. -/
theorem match_equivariant {C : Type} (N : NumEnv C) (crc : Text → Nat) (wordOf wordOf' : Nat → Text)
    (isDigitRune : Nat → Bool) (decode : Text → List Nat) (induced : List (Text × List Text))
    (diffOf diffOf' : KDoc → Nat → Nat → Option (List (LC.Score.Diff Nat)))
    (σ : Nat → Nat) (hσ : ∀ a b, σ a = σ b → a = b) (hw : ∀ i, wordOf' (σ i) = wordOf i)
    (hd : ∀ d a b, diffOf' (mapKDoc σ d) a b = (diffOf d a b).map (List.map (mapDiff σ)))
    (docs : List KDoc) (target : Array IdTok) (crs : List Nat) :
    matchModel N crc wordOf' isDigitRune decode induced diffOf'
        (countOf ((mapTarget σ target).toList.map (·.id)))
        (docs.map (fun d => prepare crc wordOf' N.q (mapKDoc σ d))) (mapTarget σ target) crs =
      matchModel N crc wordOf isDigitRune decode induced diffOf
        (countOf (target.toList.map (·.id)))
        (docs.map (prepare crc wordOf N.q)) target crs :=
  match_equivariant' N crc wordOf wordOf' isDigitRune decode induced diffOf diffOf' σ hσ hw hd docs target crs

/-- The dictionary: after any history of additions, ids and words are in bijection, and the id
of a word never changes once assigned. -/
theorem dict_roundtrip (ws : List (List Nat)) (w : List Nat) (i : Nat) :
    let d := (Dict.mk []).addAll ws
    (w ∈ ws → d.getIndex w ≠ 0 ∧ d.getWord (d.getIndex w) = some w) ∧
    (d.getWord i = some w → d.getIndex w = i) ∧
    (w ∉ ws → d.getIndex w = 0) :=
  dict_roundtrip' ws w i

theorem dict_add_stable (d : Dict) (w v : List Nat) (h : d.getIndex w ≠ 0) :
    (d.add v).1.getIndex w = d.getIndex w :=
  dict_add_stable' d w v h

/-- The comparator the model mirrors is the one in the source now (regenerated field list). -/
theorem matchLess_fields_current :
    LC.Gen.V2.matchLessFields =
      [("Confidence", ">"), ("StartTokenIndex", "<"), ("EndTokenIndex", ">"), ("StartLine", "<"),
       ("EndLine", "<"), ("MatchType", "<"), ("Name", "<"), ("Variant", "<")] := by decide

theorem mrLess_fields_current :
    LC.Gen.V2.matchRangesLessFields =
      [("TokensClaimed", ">"), ("TargetStart", "<"), ("SrcStart", "<")] := by decide

end LC.V2Match
