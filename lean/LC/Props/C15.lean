/-
C15: v1 license archive round-trips — the pairing logic.

For any list of files, reading back the entries `ArchiveLicenses` writes gives,
in order, one value per `.txt` file: (file name without `.txt`, normalised
text, serialized search set); other files are skipped; a repeated name is a
registration error.  That tar/gzip deliver the entries as written and that the
gob-decoded search set equals `searchset.New` of the text are assumptions about
the codecs, covered by the harness comparison of an archive-built classifier
with a directly built one.
-/
import LC.Model.V1Glue
import LC.Proofs.V1Glue

namespace LC.V1Glue

theorem parse_build (read : String → List UInt8) (norm ser : List UInt8 → List UInt8) (files : List String) :
    parseArchive (buildArchive read norm ser files) =
      some ((files.filter (·.endsWith ".txt")).map (fun f => ((f.dropEnd 4).toString, norm (read f), ser (norm (read f))))) :=
  parse_build' read norm ser files

/-- registration keeps every value, in order, iff the names are distinct -/
theorem register_distinct (vals : List (String × List UInt8 × List UInt8)) :
    (vals.map (·.1)).Nodup → register vals = some vals :=
  register_distinct' vals

theorem register_duplicate (vals : List (String × List UInt8 × List UInt8)) :
    ¬ (vals.map (·.1)).Nodup → register vals = none :=
  register_duplicate' vals

end LC.V1Glue
