/-
C05, the quotes clause: replacing ASCII quotes by their typographic forms (or any other exchange of
"quote-like" runes for one another) leaves the tokenizer's output unchanged — same words, same
lines, same copyright lines — at the level of the rune scan (`tokenizeRunes`), for EVERY
environment in which

  * quote-like runes are neither letters nor digits nor white space, have no punctuation mapping,
    are fixed by `toLower`, and are none of the runes the scan and the clean-up test for
    ('\n', '-', '.', ':', ')', '&', '(') nor any rune of the scheme words "https://" / "Https://"
    that `normalizeToken` rewrites ('h', 'H', 't', 'p', 's', ':', '/') — structure `QuoteLike`;
  * the entity decoder and the notice expressions do not tell two quote-like runes apart
    (hypotheses `hU`, `hI`: they map quote-equivalent texts to quote-equivalent texts / the same
    verdict) — for Go's `html.UnescapeString` this is an assumption, monitored by the `tok`
    correspondence on quoted inputs; for the matchers of the three `ignorableTexts` expressions of the
    Go environment it is proved (`goEnv_ignorable_qeq`), see `quotes_invariant_go` below.

Two rune sequences are quote-equivalent (`QEq`) when they have the same length and agree at every
position except where BOTH hold a quote-like rune.

Property theorems only; helper lemmas live in LC/Proofs/Quotes.lean.
-/
import LC.Model.V2Tok
import LC.Proofs.Quotes
import LC.Proofs.QuotesGo
import LC.Proofs.QuotesIgn

namespace LC.V2Tok
open LC.Utf8

/-- The quotes clause of C05 at tokenizer level. -/
theorem quotes_invariant (E : Env) (Q : Rune → Bool) (hQ : QuoteLike E Q)
    (hU : ∀ w w', QEq Q w w' → QEq Q (E.unescape w) (E.unescape w'))
    (hI : ∀ l l', QEq Q l l' → E.ignorable l = E.ignorable l')
    (hM : ∀ w w', QEq Q w w' → E.listMarker w = E.listMarker w')
    (hX : ∀ w w', QEq Q w w' → w.all (fun r => !Q r) = true → w = w')
    (n : Bool) (rs rs' : List Rune) (h : QEq Q rs rs') :
    tokenizeRunes E n rs = tokenizeRunes E n rs' :=
  quotes_invariant' E Q hQ hU hI hM hX n rs rs' h

/-! ### non-vacuity

`quoteRune` (the six quote characters '"', '\'', U+2018, U+2019, U+201C, U+201D), the small honest
environment `toyEnv` and `toyEnv_quoteLike : QuoteLike toyEnv quoteRune` are in LC/Proofs/Quotes.lean. -/

/-- `"a` and `“a` are quote-equivalent -/
example : QEq (fun r => r == 34 || r == 8220) [34, 97] [8220, 97] := by simp [QEq]

example : QEq quoteRune [34, 97, 39] [0x201C, 97, 0x2019] := by simp [QEq, quoteRune]

/-- … and texts that differ elsewhere are not -/
example : ¬ QEq quoteRune [34, 97] [0x201C, 98] := by simp [QEq, quoteRune]

/-- the clause instantiated: `"a` and `“a` tokenize alike in the toy environment -/
example (n : Bool) : tokenizeRunes toyEnv n [34, 97, 39] = tokenizeRunes toyEnv n [0x201C, 97, 0x2019] :=
  quotes_invariant toyEnv quoteRune toyEnv_quoteLike (fun _ _ h => h) (fun _ _ _ => rfl) (fun _ _ _ => rfl)
    (fun _ _ h hn => qeq_eq_of_noQ h hn) n _ _ (by simp [QEq, quoteRune])

/-! ### the Go environment

For the concrete environment `LC.V2Env.goEnv u` and the six quote characters `quoteRune`, every
hypothesis but the one about the entity decoder is discharged:

  * `goEnv_quoteLike : QuoteLike (goEnv u) quoteRune` and `goEnv_listMarker_qeq`
    (LC/Proofs/QuotesGo.lean) for the regenerated Unicode, ToLower, punctuation and list-marker tables;
  * `goEnv_ignorable_qeq` (LC/Proofs/QuotesIgn.lean) for the matchers of the three `ignorableTexts`
    expressions: none of their literals is a quote character, `.` accepts every quote character, and no
    quote character is a digit or an `[a-z]` letter.

What remains is `hU`: the model `u` of `html.UnescapeString` maps quote-equivalent words to
quote-equivalent words. -/

/-- The quotes clause for the concrete Go environment and the six quote characters. -/
theorem quotes_invariant_go (u : Word → Word)
    (hU : ∀ w w', QEq quoteRune w w' → QEq quoteRune (u w) (u w'))
    (n : Bool) (rs rs' : List Rune) (h : QEq quoteRune rs rs') :
    tokenizeRunes (LC.V2Env.goEnv u) n rs = tokenizeRunes (LC.V2Env.goEnv u) n rs' :=
  quotes_invariant (LC.V2Env.goEnv u) quoteRune (goEnv_quoteLike u) hU goEnv_ignorable_qeq
    (goEnv_listMarker_qeq u) (fun _ _ h hn => qeq_eq_of_noQ h hn) n rs rs' h

/-- the Go clause instantiated with the identity decoder: straight and curly quotes around a word -/
example (n : Bool) :
    tokenizeRunes (LC.V2Env.goEnv id) n [34, 97, 39] = tokenizeRunes (LC.V2Env.goEnv id) n [0x201C, 97, 0x2019] :=
  quotes_invariant_go id (fun _ _ h => h) n _ _ (by simp [QEq, quoteRune])

end LC.V2Tok
