/-
C09: the static footprint of Match, as a checked tie.

The facts about the source as it is now — which functions are reachable (by name) from
`(*Classifier).match`, every write site in them that is rooted at a receiver/parameter of a shared
type (Classifier, dictionary, indexedDocument, searchSet, frequencyTable) or an alias of one, every
package-level variable they mention, and the `normalize`/`updateDict` arguments and guards on the
way to `dictionary.add` — are regenerated from the AST on every run (LC/Gen/V2Footprint.lean) and
must equal the reviewed footprint (LC/Spec/FootprintExpect.lean, with the reason why none of the
write sites touches state shared between concurrent Match calls).  This is a tie, not a proof of
purity: it turns "someone added a write on the Match path" into a proof obligation that stops
checking; what it cannot see is listed in the Spec file and stays with the snapshot check and the
race detector.  The consequence drawn from the reviewed footprint is `readonly_no_race` /
`readonly_reads_initial` (LC/Props/C09.lean).
-/
import LC.Gen.V2Footprint
import LC.Spec.FootprintExpect

namespace LC.Spec.FootprintExpect

/-- The Match path of the source, as it is now, is the reviewed one. -/
theorem footprint_current :
    LC.Gen.V2Footprint.reachable = reachable ∧ LC.Gen.V2Footprint.writes = writes ∧
    LC.Gen.V2Footprint.globals = globals ∧ LC.Gen.V2Footprint.updateDictArgs = updateDictArgs := by
  decide

/-- On the reviewed path, Match tokenizes with normalize = true and updateDict = false, and these are
the only conditions under which the classifier's dictionary is written. -/
theorem match_does_not_update_dict :
    ("Classifier.match", "tokenizeStream", "normalize=true updateDict=false") ∈ updateDictArgs ∧
    (∀ e ∈ updateDictArgs, e.2.1 = "dict.add" →
      e.2.2 = "txt != \"\" && updateDict" ∨ e.2.2 = "r == '\\n' && !normalize && tokID == unknownIndex") := by
  decide

/-- The write sites of the reviewed path, by target: fields of the document being built, of a
dictionary (guarded as above), of the target's frequency table and search set — no package-level
variable (those would appear as `global.<name>`), no field of the Classifier. -/
theorem write_targets :
    writes.map (·.2) =
      ["indexedDocument.Matches", "indexedDocument.Tokens", "dictionary.indices", "dictionary.words",
       "frequencyTable.counts", "indexedDocument.f", "indexedDocument.s", "searchSet.nodes"] := by
  decide

end LC.Spec.FootprintExpect
