/-
C02, the `wordLen` contract: `textLength` (v2/diff.go) counts the words of a diff
segment as `strings.Count(text, " ") + 1`, so the span offsets the confidence is
reported with are only right when no dictionary word contains a blank.  The
words of a document are the non-empty results of `cleanupToken`; the theorems
say that none of them holds a blank (rune 32), for every environment whose
letter/digit predicates reject the blank and whose interchangeable-word table
has blank-free values, and that the tables REGENERATED from /repo's current
source satisfy exactly that.

Property theorems only.
-/
import LC.Model.V2Tok
import LC.Model.V2Env
import LC.Proofs.Tok

namespace LC.V2Tok

theorem stripDots_subset (w : List Nat) (r : Nat) (h : r ∈ (stripDots w : List Nat)) : r ∈ w := by
  unfold stripDots at h
  have h1 : r ∈ w.reverse.dropWhile (· = 46) := List.mem_reverse.mp h
  exact List.mem_reverse.mp ((List.dropWhile_sublist _).subset h1)

/-- No word `cleanupToken` yields contains a blank. -/
theorem cleanupToken_no_blank (E : Env) (hL : E.isLetter 32 = false) (hD : E.isDigit 32 = false)
    (hI : ∀ a b, E.interchangeable a = some b → 32 ∉ b)
    (pos : Nat) (w : Word) (n : Bool) : 32 ∉ cleanupToken E pos w n := by
  unfold cleanupToken
  simp only
  split
  · simp
  · split
    · intro h
      have h2 := stripDots_subset _ _ h
      simp [List.mem_filter, hD] at h2
    · have hf : 32 ∉ w.filter E.isLetter := by
        intro h; simp [List.mem_filter, hL] at h
      split
      · cases hq : E.interchangeable (w.filter E.isLetter) with
        | none => simpa using hf
        | some b => simpa using hI _ _ hq
      · exact hf

/-- the values of the interchangeable-word table regenerated from v2/tokenizer.go hold no blank -/
theorem interchangeable_values_no_blank_go :
    ∀ p ∈ LC.Gen.V2.interchangeableWords, 32 ∉ p.2 := by decide

theorem goEnv_no_blank (u : Word → Word) (pos : Nat) (w : Word) (n : Bool) :
    32 ∉ cleanupToken (LC.V2Env.goEnv u) pos w n := by
  apply cleanupToken_no_blank
  · have h := isLetter_false 32 (by omega)
    simp only [LC.V2Env.goEnv]; exact h
  · have h := isDigit_false 32 (by omega)
    simp only [LC.V2Env.goEnv]; exact h
  · intro a b h
    simp only [LC.V2Env.goEnv, LC.V2Env.interchangeable] at h
    cases hf : LC.Gen.V2.interchangeableWords.find? (·.1 = a) with
    | none => simp [hf] at h
    | some p =>
      simp [hf] at h
      subst h
      exact interchangeable_values_no_blank_go p (List.mem_of_find?_eq_some hf)

/-- non-vacuity: a word the table rewrites -/
example : LC.V2Env.interchangeable [108, 105, 99, 101, 110, 99, 101]
    = some [108, 105, 99, 101, 110, 115, 101] := by decide

end LC.V2Tok
