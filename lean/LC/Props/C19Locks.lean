/-
C19, "independent of the -tasks concurrency level": the shared result list.

Every worker of the identify_license pool appends its matches to one slice,
`ClassifierBackend.results`, guarded by `ClassifierBackend.mu`.  The skeleton of
EVERY function, goroutine literal and variable-bound function literal of the
backend package that mentions `results` or `mu` is regenerated from the AST on
every run (`LC.Gen.CliLocks.functions`) and the worker-side ones must be
accepted by the static checker of LC/Model/RW (`LC.RW.accepts`): the append
(a read and a write of the slice header) happens while the mutex is held
EXCLUSIVELY, and the mutex is released on every path.  By `accepted_calls_ok`
and `rw_no_race` (LC/Props/C14) workers that run such code, in any number and
any interleaving, never race on the list — so no append is lost, whatever
-tasks is.

`GetResults` reads the list without the lock; it is not a worker: the tool calls
it after `ClassifyLicenses` has returned, which happens after the error channel
was closed, which happens after `wg.Wait()` (LC/Props/C19, `LC.Pool`).  It is
listed, and excluded by name.  What stays outside: the faithfulness of the
extractor (it only reports), and the sequencing of GetResults just described
(the race-detector run of the harness watches both).
-/
import LC.Gen.CliLocks
import LC.Model.RW
import LC.Proofs.RW

namespace LC.RW

/-- the skeletons that run on pool workers -/
def cliWorkerSide : List (String × Blk) := LC.Gen.CliLocks.functions.filter (·.1 ≠ "GetResults")

/-- There is something to check: the extractor found classifyLicense, its match loop and GetResults. -/
theorem results_skeletons_present :
    LC.Gen.CliLocks.functions.map (·.1) = ["classifyLicense", "classifyLicense.fn0", "GetResults"] := by decide

/-- The worker-side code that touches the result list, as it is now, keeps the lock discipline:
the append is under the exclusive lock. -/
theorem results_skeletons_accepted : ∀ f ∈ cliWorkerSide, accepts f.2 = true := by decide

/-- the append is there, and it is a write under `lock` (not `rlock`): the match loop's skeleton -/
theorem results_append_exclusive :
    LC.Gen.CliLocks.functions.lookup "classifyLicense.fn0" =
      some (.cons (.loop (.cons (.opt (.cons (.s .jump) .nil)) (.cons (.s (.a .lock)) (.cons (.s (.a .rd))
        (.cons (.s (.a .wr)) (.cons (.s (.a .unlock)) .nil)))))) .nil) := by rfl

/-- the same loop with the read lock instead (a seeded change: RWMutex + RLock around the append)
is rejected by the checker … -/
example : accepts (.cons (.loop (.cons (.opt (.cons (.s .jump) .nil)) (.cons (.s (.a .rlock)) (.cons (.s (.a .rd))
    (.cons (.s (.a .wr)) (.cons (.s (.a .runlock)) .nil)))))) .nil) = false := by decide

/-- … and two workers appending under the read lock do race: a trace the readers-writer lock allows -/
example : rwOK [⟨0, .rlock⟩, ⟨1, .rlock⟩, ⟨0, .wr⟩, ⟨1, .wr⟩, ⟨0, .runlock⟩, ⟨1, .runlock⟩] none [] = true := by decide

end LC.RW
