/-
C20 (set half): StringSet and IntSet behave as finite sets under every
operation, whatever order the Go runtime iterates the underlying maps in.

`WF s` (no duplicate keys) is the representation invariant of a Go map; every
operation preserves it, and on WF operands each result denotes exactly the
mathematical set the operation's name promises.  Operands are values in the
model, so "never modifies its operands" is checked on the implementation by
the correspondence harness (operands are re-read after every call).
Property theorems only; helper lemmas live in LC/Proofs/Sets.lean.
-/
import LC.Model.Sets
import LC.Proofs.Sets

namespace LC.Sets
variable {α : Type} [DecidableEq α]

theorem new_spec (es : List α) : WF (new es) ∧ ∀ x, x ∈ new es ↔ x ∈ es := new_spec' es
theorem insert_spec (s : S α) (es : List α) (h : WF s) :
    WF (insert s es) ∧ ∀ x, x ∈ insert s es ↔ x ∈ s ∨ x ∈ es := insert_spec' s es h
theorem delete_spec (s : S α) (es : List α) (h : WF s) :
    WF (delete s es) ∧ ∀ x, x ∈ delete s es ↔ x ∈ s ∧ x ∉ es := delete_spec' s es h
theorem copy_spec (en : Enum α) (s : Option (S α)) (h : WFo s) :
    WF (copy en s) ∧ ∀ x, x ∈ copy en s ↔ memo x s := copy_spec' en s h
theorem intersect_spec (en : Enum α) (s : S α) (o : Option (S α)) (hs : WF s) (ho : WFo o) :
    WF (intersect en s o) ∧ ∀ x, x ∈ intersect en s o ↔ x ∈ s ∧ memo x o :=
  intersect_spec' en s o hs ho
theorem disjoint_spec (en : Enum α) (s : S α) (o : Option (S α)) :
    disjoint en s o = true ↔ ∀ x, ¬ (x ∈ s ∧ memo x o) := disjoint_spec' en s o
theorem difference_spec (en : Enum α) (s : S α) (o : Option (S α)) (hs : WF s) :
    WF (difference en s o) ∧ ∀ x, x ∈ difference en s o ↔ x ∈ s ∧ ¬ memo x o :=
  difference_spec' en s o hs
theorem unique_spec (en : Enum α) (s : S α) (o : Option (S α)) (hs : WF s) (ho : WFo o) :
    WF (unique en s o) ∧
      ∀ x, x ∈ unique en s o ↔ (x ∈ s ∧ ¬ memo x o) ∨ (memo x o ∧ x ∉ s) :=
  unique_spec' en s o hs ho
theorem equal_spec (en : Enum α) (s o : S α) (hs : WF s) (ho : WF o) :
    equal en (some s) (some o) = true ↔ ∀ x, x ∈ s ↔ x ∈ o := equal_spec' en s o hs ho
theorem equal_nil (en : Enum α) (s : S α) :
    equal en (some s) none = false ∧ equal en none (some s) = false ∧
      equal en (none : Option (S α)) none = true := by simp [equal]
theorem union_spec (en : Enum α) (s : S α) (o : Option (S α)) (hs : WF s) (ho : WFo o) :
    WF (union en s o) ∧ ∀ x, x ∈ union en s o ↔ x ∈ s ∨ memo x o := union_spec' en s o hs ho
theorem contains_spec (s : S α) (e : α) : contains s e = true ↔ e ∈ s := by simp [contains]
/-- `Len` is the cardinality: two WF representations of the same set have the same length. -/
theorem len_spec (s o : S α) (hs : WF s) (ho : WF o) (h : ∀ x, x ∈ s ↔ x ∈ o) : len s = len o :=
  len_spec' s o hs ho h
theorem elements_spec (en : Enum α) (s : S α) (hs : WF s) :
    (elements en s).Nodup ∧ ∀ x, x ∈ elements en s ↔ x ∈ s := elements_spec' en s hs

/-- Iteration order never matters: any two enumerations give the same SET for
every constructor-like operation (and by the specs above, the same answers for
the predicates). -/
theorem order_irrelevant (en en' : Enum α) (s : S α) (o : Option (S α)) (hs : WF s) (ho : WFo o) :
    (∀ x, x ∈ intersect en s o ↔ x ∈ intersect en' s o) ∧
    (∀ x, x ∈ difference en s o ↔ x ∈ difference en' s o) ∧
    (∀ x, x ∈ unique en s o ↔ x ∈ unique en' s o) ∧
    (∀ x, x ∈ union en s o ↔ x ∈ union en' s o) ∧
    disjoint en s o = disjoint en' s o := by
  refine ⟨?_, ?_, ?_, ?_, ?_⟩
  · intro x; rw [(intersect_spec en s o hs ho).2, (intersect_spec en' s o hs ho).2]
  · intro x; rw [(difference_spec en s o hs).2, (difference_spec en' s o hs).2]
  · intro x; rw [(unique_spec en s o hs ho).2, (unique_spec en' s o hs ho).2]
  · intro x; rw [(union_spec en s o hs ho).2, (union_spec en' s o hs ho).2]
  · have h1 := disjoint_spec en s o
    have h2 := disjoint_spec en' s o
    exact Bool.eq_iff_iff.2 (h1.trans h2.symm)

/-- Non-vacuity. -/
example : WF ([3, 1, 2] : S Nat) ∧ WFo (some ([2, 5] : S Nat)) ∧
    intersect Enum.rev ([3, 1, 2] : S Nat) (some [2, 5]) = [2] ∧
    unique Enum.id ([3, 1, 2] : S Nat) (some [2, 5]) = [3, 1, 5] := by
  refine ⟨by unfold WF; decide, by unfold WFo WF; decide, by decide, by decide⟩

end LC.Sets
