/-
C20 (queue half, continued): draining a queue yields its contents in priority
order. `pop_spec` speaks about one `Pop`; this lifts it to the whole drain loop
(`for q.Len() > 0 { q.Pop() }`, the way `stringclassifier` consumes its queue),
for every queue of every size: the popped sequence is a permutation of what was
queued, and no element popped later is strictly less than one popped earlier.
-/
import LC.Props.C20Heap

namespace LC.Heap
variable {α : Type} {less : α → α → Bool}

/-- `n` successive `Pop`s (stops early on an empty queue). -/
def drain (less : α → α → Bool) : Nat → Array (E α) → List α
  | 0, _ => []
  | n + 1, a =>
    match pop less a with
    | none => []
    | some (a', e) => e.val :: drain less n a'

theorem vals_length (a : Array (E α)) : (vals a).length = a.size := by
  simp [vals]

/-- Heapsort: draining a well-formed queue returns a permutation of its
contents, sorted by priority (no later element is strictly less than an earlier
one), and never hits the empty-queue panic before `a.size` pops. -/
theorem drain_sorted (sw : StrictWeak less) (n : Nat) (a : Array (E α)) (hn : a.size = n)
    (hH : HeapInv less a) (hI : IdxInv a) :
    (drain less n a).Perm (vals a) ∧
    (drain less n a).Pairwise (fun x y => less y x = false) ∧
    (drain less n a).length = n := by
  induction n generalizing a with
  | zero =>
    have : a = #[] := Array.eq_empty_of_size_eq_zero hn
    subst this
    simp [drain, vals]
  | succ n ih =>
    have hpos : 0 < a.size := by omega
    have hsome := pop_isSome (less := less) a hpos
    cases hp : pop less a with
    | none => rw [hp] at hsome; cases hsome
    | some r =>
      obtain ⟨a', e⟩ := r
      obtain ⟨hH', hI', hperm, hmin⟩ := pop_spec sw a a' e hH hI hp
      have hsz : a'.size = n := by
        have := hperm.length_eq
        simp only [List.length_cons, vals_length] at this
        omega
      obtain ⟨ihp, ihs, ihl⟩ := ih a' hsz hH' hI'
      have hd : drain less (n + 1) a = e.val :: drain less n a' := by
        simp [drain, hp]
      rw [hd]
      refine ⟨(List.Perm.cons _ ihp).trans hperm, ?_, by simp [ihl]⟩
      rw [List.pairwise_cons]
      refine ⟨fun y hy => ?_, ihs⟩
      apply hmin
      exact hperm.subset (List.mem_cons_of_mem _ (ihp.subset hy))

/-- The same for every queue reachable from the empty one by any panic-free
operation history. -/
theorem drain_sorted_reachable (sw : StrictWeak less) (ops : List (Op α)) (a : Array (E α))
    (h : run less #[] ops = some a) :
    (drain less a.size a).Perm (vals a) ∧
    (drain less a.size a).Pairwise (fun x y => less y x = false) := by
  obtain ⟨hH, hI⟩ := reachable_inv sw ops a h
  exact ⟨(drain_sorted sw a.size a rfl hH hI).1, (drain_sorted sw a.size a rfl hH hI).2.1⟩

/-- Non-vacuity: the hypotheses of `drain_sorted` are met by a concrete
3-element heap under `<` on Nat (`drain` evaluates to [1, 3, 5] on it; `drain` is `pop` iterated, and `pop` is what the heap correspondence stage compares with the real queue). -/
example : (#[⟨1, 0⟩, ⟨5, 1⟩, ⟨3, 2⟩] : Array (E Nat)).size = 3 ∧
    StrictWeak (fun (x y : Nat) => decide (x < y)) ∧
    HeapInv (fun (x y : Nat) => decide (x < y)) #[⟨1, 0⟩, ⟨5, 1⟩, ⟨3, 2⟩] ∧
    IdxInv (#[⟨1, 0⟩, ⟨5, 1⟩, ⟨3, 2⟩] : Array (E Nat)) :=
  ⟨rfl, nonvacuous_example⟩

end LC.Heap
