/-
C19: the identify_license CLI reports what the library finds — the glue.

The result list is the concatenation, in whatever order the worker goroutines
append, of each file's library matches (headers only with -headers): as a
multiset it does not depend on that order, so the sorted printout does not
depend on -tasks.  Exit status 0 ⇔ at least one result.  `readFileLines`
returns exactly lines Start..End, each followed by a newline, whenever the file
has that many lines (no line-length limit, as repaired).  Process, file system
and JSON encoding are outside the model; the harness runs the real binary.
-/
import LC.Model.V1Glue
import LC.Proofs.V1Glue

namespace LC.V1Glue

/-- any two schedules of the workers produce the same multiset of result lines -/
theorem results_schedule_independent (headers : Bool) (perFile₁ perFile₂ : List (List Line))
    (hp : perFile₁.Perm perFile₂) :
    ((perFile₁.map (fileLines headers)).flatten).Perm ((perFile₂.map (fileLines headers)).flatten) :=
  results_schedule_independent' headers perFile₁ perFile₂ hp

theorem header_filter (ms : List Line) :
    (∀ m ∈ fileLines false ms, m.matchType ≠ "Header") ∧ fileLines true ms = ms :=
  header_filter' ms

theorem exit_iff (results : List Line) : exitStatus results = 0 ↔ results ≠ [] := exit_iff' results

theorem readLines_spec (lines : List String) (s e : Nat) (hs : 1 ≤ s) (hse : s ≤ e) (he : e ≤ lines.length) :
    readFileLines lines s e = some (String.join (((List.range (e + 1 - s)).map (fun k => lines.getD (s - 1 + k) "" ++ "\n")))) :=
  readLines_spec' lines s e hs hse he

theorem readLines_short (lines : List String) (s e : Nat) (he : lines.length < e) :
    readFileLines lines s e = none :=
  readLines_short' lines s e he

end LC.V1Glue
