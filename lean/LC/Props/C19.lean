/-
C19: the identify_license CLI reports what the library finds — the glue.

The result list is the concatenation, in whatever order the worker goroutines
append, of each file's library matches (headers only with -headers): as a
multiset it does not depend on that order, so the sorted printout does not
depend on -tasks.  Exit status 0 ⇔ at least one result.  `readFileLines`
returns exactly lines Start..End, each followed by a newline, whenever the file
has that many lines (no line-length limit, as repaired).  Process, file system
and JSON encoding are outside the model; the harness runs the real binary.

The worker pool (`LC.Pool`): every worker hands its task slot back and signals
completion in the order the source gives (regenerated from the AST,
`LC.Gen.CliProtocol.analyzeDefer`); the closer closes the task channel once all
completions are in.  With the order as repaired (send, then done) no execution —
any number of workers, any interleaving — sends on the closed channel
(`no_send_after_close`); with the order the code had (done, then send) one does
(`old_order_can_panic`): the tool then died with exit status 2 after printing
its results (observed by the thorough tier under load; fix afd45e4).
-/
import LC.Model.V1Glue
import LC.Proofs.V1Glue
import LC.Model.Pool
import LC.Proofs.Pool
import LC.Gen.CliProtocol

namespace LC.V1Glue

/-- any two schedules of the workers produce the same multiset of result lines -/
theorem results_schedule_independent (headers : Bool) (perFile₁ perFile₂ : List (List Line))
    (hp : perFile₁.Perm perFile₂) :
    ((perFile₁.map (fileLines headers)).flatten).Perm ((perFile₂.map (fileLines headers)).flatten) :=
  results_schedule_independent' headers perFile₁ perFile₂ hp

theorem header_filter (ms : List Line) :
    (∀ m ∈ fileLines false ms, m.matchType ≠ "Header") ∧ fileLines true ms = ms :=
  header_filter' ms

theorem exit_iff (results : List Line) : exitStatus results = 0 ↔ results ≠ [] := exit_iff' results

theorem readLines_spec (lines : List String) (s e : Nat) (hs : 1 ≤ s) (hse : s ≤ e) (he : e ≤ lines.length) :
    readFileLines lines s e = some (String.join (((List.range (e + 1 - s)).map (fun k => lines.getD (s - 1 + k) "" ++ "\n")))) :=
  readLines_spec' lines s e hs hse he

theorem readLines_short (lines : List String) (s e : Nat) (he : lines.length < e) :
    readFileLines lines s e = none :=
  readLines_short' lines s e he

end LC.V1Glue

namespace LC.Pool

/-- The source, as it is now, hands the slot back before it signals completion. -/
theorem defer_order_current : orderOf LC.Gen.CliProtocol.analyzeDefer = some .sendThenDone := by decide

/-- With that order no worker ever sends on the closed task channel. -/
theorem no_send_after_close (n : Nat) (tr : List Act) (h : Exec .sendThenDone n tr) : ¬ SendAfterClose tr :=
  no_send_after_close' n tr h

/-- With the order the code had, one worker is enough: done, close, send. -/
theorem old_order_can_panic : ∃ tr, Exec .doneThenSend 1 tr ∧ SendAfterClose tr :=
  old_order_can_panic'

end LC.Pool
