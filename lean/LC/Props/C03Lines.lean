/-
C03 (line clause): the tokenizer's line counter only advances on consumed
newlines.  For EVERY rune sequence and EVERY environment (Unicode tables,
entity decoder, regular expressions are arbitrary), every token and every
Copyright pseudo-match carries a line between 1 and the number of lines of the
input, and token lines never decrease.  Hence TotalInputLines (the line of the
last token) ≤ number of lines of the input, every Copyright pseudo-match has
StartLine = EndLine inside the input, and 1 ≤ StartLine ≤ EndLine ≤
TotalInputLines for any token span.
Property theorems only; helper lemmas live in LC/Proofs/Lines.lean.
-/
import LC.Model.V2Tok
import LC.Proofs.Lines

namespace LC.V2Tok
open LC.Utf8

theorem token_lines_bounded (E : Env) (normalize : Bool) (rs : List Rune) :
    ∀ t ∈ (tokenizeRunes E normalize rs).toks, 1 ≤ t.line ∧ t.line ≤ numLines rs :=
  token_lines_bounded' E normalize rs

theorem copyright_lines_bounded (E : Env) (normalize : Bool) (rs : List Rune) :
    ∀ l ∈ (tokenizeRunes E normalize rs).copyrights, 1 ≤ l ∧ l ≤ numLines rs :=
  copyright_lines_bounded' E normalize rs

theorem token_lines_monotone (E : Env) (normalize : Bool) (rs : List Rune) :
    ((tokenizeRunes E normalize rs).toks.map (·.line)).Pairwise (· ≤ ·) :=
  token_lines_monotone' E normalize rs

/-- TotalInputLines never exceeds the number of lines of the input. -/
theorem totalInputLines_le (E : Env) (normalize : Bool) (rs : List Rune) (n : Nat)
    (h : lastLine (tokenizeRunes E normalize rs) = some n) : 1 ≤ n ∧ n ≤ numLines rs := by
  unfold lastLine at h
  cases hl : (tokenizeRunes E normalize rs).toks.getLast? with
  | none => simp [hl] at h
  | some t =>
    simp [hl] at h
    subst h
    exact token_lines_bounded E normalize rs t (List.mem_of_getLast? hl)

end LC.V2Tok
