/-
C02: reported confidence never overstates the similarity of the reported span.

For every non-Copyright match, Confidence = 1 - distance/|K| where `distance`
is what the model's `scoreOffsets` returns for the diff script the diff library
produced, and the reported span R is the proposed range minus `so` leading and
`eo` trailing words.  The theorems below say: for EVERY valid edit script
(whatever the diff library returns), `distance ≥ lev R K`; hence
Confidence ≤ 1 - lev(R,K)/|K|, and Confidence = 1.0 (distance = 0) only if
R = K word for word.

Property theorems only; helper lemmas live in LC/Proofs/Lev.lean.
-/
import LC.Model.Score
import LC.Proofs.Lev

namespace LC.Score
open LC.Lev
variable {ω : Type} [DecidableEq ω]

/-- The block-wise max(inserted, deleted) count of ANY edit script is an upper
bound on the true Levenshtein distance between the script's two texts. -/
theorem lev_le_levWord (ds : List (Diff ω)) : lev (src ds) (dst ds) ≤ levWord ds :=
  lev_le_levWord' ds

/-- The span trimming of `score`/`diffRange`: for every valid script from the
proposed unknown range `u` to the known text `k`, the offsets fit inside `u`
and the distance used for the confidence bounds the true distance between the
trimmed span and `k`. -/
theorem score_bound (u k : List ω) (ds : List (Diff ω)) (hv : Valid ds u k) :
    (scoreOffsets k ds).2.1 + (scoreOffsets k ds).2.2 ≤ u.length ∧
    lev ((u.drop (scoreOffsets k ds).2.1).take
          (u.length - (scoreOffsets k ds).2.1 - (scoreOffsets k ds).2.2)) k
      ≤ (scoreOffsets k ds).1 :=
  score_bound' u k ds hv

/-- Distance zero means word-for-word identity. -/
theorem lev_eq_zero_iff (a b : List ω) : lev a b = 0 ↔ a = b :=
  lev_eq_zero_iff' a b

/-- Confidence 1.0 (distance 0) only if the reported span equals the known text. -/
theorem conf_one_only_if_identical (u k : List ω) (ds : List (Diff ω)) (hv : Valid ds u k)
    (h0 : (scoreOffsets k ds).1 = 0) :
    (u.drop (scoreOffsets k ds).2.1).take
      (u.length - (scoreOffsets k ds).2.1 - (scoreOffsets k ds).2.2) = k := by
  have h := (score_bound u k ds hv).2
  rw [h0] at h
  exact (lev_eq_zero_iff _ _).mp (Nat.le_zero.mp h)

/-- Non-vacuity: a valid script with a leading deletion, a substitution block and
a trailing deletion; offsets (1,1), distance 1. -/
example :
    let ds : List (Diff Nat) :=
      [⟨.del, [9]⟩, ⟨.eq, [1, 2]⟩, ⟨.del, [7]⟩, ⟨.ins, [3]⟩, ⟨.eq, [4]⟩, ⟨.del, [8]⟩]
    Valid ds [9, 1, 2, 7, 4, 8] [1, 2, 3, 4] ∧ scoreOffsets [1, 2, 3, 4] ds = (1, 1, 1) :=
  nonvacuous_example

end LC.Score
