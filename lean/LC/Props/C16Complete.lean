/-
C16 (continued): the filter chain of License.MultipleMatch drops nothing that
qualifies. `multiple_from_input` (LC/Props/C16.lean) is soundness — every result
comes from a qualifying candidate; this is the converse, for every candidate
list of any length: a candidate that is within the threshold, is not a header
match excluded by the caller, and passes the forbidden-phrase check is in the
result (under its trimmed name). With `multiple_from_input` this pins the result
as a set (`multiple_exact`).
-/
import LC.Props.C16

namespace LC.V1Glue

theorem mstep_mono (within : Nat → Bool) (forbiddenOK : String → Bool) (ih : Bool)
    (acc : List M) (v x : M) (hx : x ∈ acc) : x ∈ mstep within forbiddenOK ih acc v := by
  rcases mstep_cases within forbiddenOK ih acc v with h | ⟨h, _⟩
  · rw [h]; exact hx
  · rw [h]; exact List.mem_append_left _ hx

theorem mfold_mono (within : Nat → Bool) (forbiddenOK : String → Bool) (ih : Bool)
    (ms : List M) (acc : List M) (x : M) (hx : x ∈ acc) :
    x ∈ ms.foldl (mstep within forbiddenOK ih) acc := by
  induction ms generalizing acc with
  | nil => simpa using hx
  | cons v vs ihv =>
    rw [List.foldl_cons]
    exact ihv _ (mstep_mono within forbiddenOK ih acc v x hx)

theorem mstep_keeps (within : Nat → Bool) (forbiddenOK : String → Bool) (ih : Bool)
    (acc : List M) (v : M) (hw : within v.conf = true)
    (hh : ih = true ∨ ¬ v.name.endsWith ".header")
    (hf : forbiddenOK (trimHeader v.name) = true) :
    ({ v with name := trimHeader v.name } : M) ∈ mstep within forbiddenOK ih acc v := by
  unfold mstep
  have h2 : (!ih && v.name.endsWith ".header") = false := by
    rcases hh with h | h
    · simp [h]
    · simp [h]
  by_cases h4 : ({ v with name := trimHeader v.name } : M) ∈ acc
  · simp [hw, h2, hf, h4]
  · simp [hw, h2, hf, h4]

/-- Completeness of the filter chain. -/
theorem multiple_complete (within : Nat → Bool) (forbiddenOK : String → Bool) (ih : Bool)
    (ms : List M) (v : M) (hv : v ∈ ms) (hw : within v.conf = true)
    (hh : ih = true ∨ ¬ v.name.endsWith ".header")
    (hf : forbiddenOK (trimHeader v.name) = true) :
    ({ v with name := trimHeader v.name } : M) ∈ licMultiple within forbiddenOK ih ms := by
  rw [licMultiple_eq]
  suffices h : ∀ (acc : List M),
      ({ v with name := trimHeader v.name } : M) ∈ ms.foldl (mstep within forbiddenOK ih) acc from h []
  induction ms with
  | nil => cases hv
  | cons m rest ihm =>
    intro acc
    rw [List.foldl_cons]
    rcases List.mem_cons.1 hv with h | h
    · subst h
      exact mfold_mono within forbiddenOK ih rest _ _
        (mstep_keeps within forbiddenOK ih acc v hw hh hf)
    · exact ihm h _

/-- Nothing is reported twice and nothing qualifying is lost: with headers
requested and no forbidden-phrase veto, the result names exactly the trimmed
candidates within the threshold. -/
theorem multiple_exact (within : Nat → Bool) (ms : List M) (m : M) :
    m ∈ licMultiple within (fun _ => true) true ms ↔
      ∃ v ∈ ms, within v.conf = true ∧ m = { v with name := trimHeader v.name } := by
  constructor
  · intro hm
    obtain ⟨v, hv, he, _⟩ := multiple_from_input within (fun _ => true) true ms m hm
    refine ⟨v, hv, ?_, he⟩
    have := multiple_within_threshold within (fun _ => true) true ms m hm
    rw [he] at this; exact this
  · rintro ⟨v, hv, hw, rfl⟩
    exact multiple_complete within (fun _ => true) true ms v hv hw (Or.inl rfl) rfl

/-- Non-vacuity: the hypotheses of `multiple_complete` are met by a concrete
candidate list holding a below-threshold candidate and a duplicate. -/
example :
    let ms : List M := [⟨"MIT", 95, 0, 10⟩, ⟨"BSD", 50, 0, 9⟩, ⟨"MIT", 95, 0, 10⟩]
    let v : M := ⟨"MIT", 95, 0, 10⟩
    v ∈ ms ∧ (fun c => decide (80 ≤ c)) v.conf = true ∧ (true = true ∨ ¬ v.name.endsWith ".header") ∧
      (fun _ => true) (trimHeader v.name) = true := by
  refine ⟨by simp, by decide, Or.inl rfl, rfl⟩

end LC.V1Glue
