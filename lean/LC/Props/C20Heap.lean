/-
C20 (queue half): the priority queue always pops a minimal element under its
comparator, keeps the indices it reports through setIndex accurate across
Push, Pop, Fix and Remove, and conserves the multiset of elements.

Property theorems only; helper lemmas live in LC/Proofs/Heap.lean.
-/
import LC.Model.Heap
import LC.Proofs.Heap

namespace LC.Heap
variable {α : Type} {less : α → α → Bool}

/-- Both invariants hold in every state reachable from the empty queue by any
panic-free operation sequence. -/
theorem reachable_inv (sw : StrictWeak less) (ops : List (Op α)) (a : Array (E α))
    (h : run less #[] ops = some a) : HeapInv less a ∧ IdxInv a :=
  run_inv sw ops #[] a (by intro j hj; simp at hj) (by intro j hj; simp at hj) h

/-- Push: invariants kept, multiset grows by exactly `x`. -/
theorem push_spec (sw : StrictWeak less) (a : Array (E α)) (x : α)
    (hH : HeapInv less a) (hI : IdxInv a) :
    HeapInv less (push less a x) ∧ IdxInv (push less a x) ∧
      (vals (push less a x)).Perm (x :: vals a) :=
  ⟨push_heapInv sw a x hH, push_idxInv a x hI, push_perm a x⟩

/-- Pop never fails on a non-empty queue. -/
theorem pop_isSome (a : Array (E α)) (h : 0 < a.size) : (pop less a).isSome :=
  pop_isSome' a h

/-- Pop returns a minimal element (nothing queued is strictly less), removes
exactly it from the multiset, and keeps both invariants. -/
theorem pop_spec (sw : StrictWeak less) (a a' : Array (E α)) (e : E α)
    (hH : HeapInv less a) (hI : IdxInv a) (h : pop less a = some (a', e)) :
    HeapInv less a' ∧ IdxInv a' ∧ (e.val :: vals a').Perm (vals a) ∧
      (∀ y ∈ vals a, less y e.val = false) :=
  pop_spec' sw a a' e hH hI h

/-- Remove(i) takes out exactly the element that was at position `i`. -/
theorem remove_spec (sw : StrictWeak less) (a a' : Array (E α)) (e : E α) (i : Nat)
    (hH : HeapInv less a) (hI : IdxInv a) (h : remove less a i = some (a', e)) :
    HeapInv less a' ∧ IdxInv a' ∧ (e.val :: vals a').Perm (vals a) ∧
      (∃ hi : i < a.size, e.val = (a[i]'hi).val) :=
  remove_spec' sw a a' e i hH hI h

/-- Fix(i) after an arbitrary priority change of the element at `i`. -/
theorem setFix_spec (sw : StrictWeak less) (a a' : Array (E α)) (i : Nat) (x : α)
    (hH : HeapInv less a) (hI : IdxInv a) (h : setFix less a i x = some a') :
    HeapInv less a' ∧ IdxInv a' ∧ (vals a').Perm ((vals a).set i x) :=
  setFix_spec' sw a a' i x hH hI h

/-- Non-vacuity: the hypotheses of the theorems above are met by a concrete
non-trivial state (a 3-element heap with accurate indices, under `<` on Nat). -/
example : StrictWeak (fun (x y : Nat) => decide (x < y)) ∧
    HeapInv (fun (x y : Nat) => decide (x < y)) #[⟨1, 0⟩, ⟨5, 1⟩, ⟨3, 2⟩] ∧
    IdxInv (#[⟨1, 0⟩, ⟨5, 1⟩, ⟨3, 2⟩] : Array (E Nat)) :=
  nonvacuous_example

end LC.Heap
