/-
C11: Normalize output lines up with Match positions.

`render` is the model of Normalize's output loop (as repaired: a wordless first
line is not emitted twice).  `render_lines`: whenever token lines advance by at
most one from token to token (`StepOne`), line k of the output holds exactly
the words carrying line k, separated by single blanks.  `tokenize_stepOne`:
the non-normalizing tokenizer produces such token lists for every input on
which no hyphenated line break is pending (`NoDefer`) — with a pending hyphen
the line counter can advance without an EOL token and a dropped notice line
can then glue two lines of the Normalize output together (recorded in DESIGN
§6 C11 as outside the proved domain).  That re-matching the output gives the
same result is NOT a theorem: it fails for the two recorded findings
(known_findings.json C11/*), and is checked on the implementation by the oracle.
Property theorems only; helper lemmas live in LC/Proofs/Render.lean.
-/
import LC.Model.V2Tok
import LC.Spec.TokSpec
import LC.Proofs.Render

namespace LC.V2Tok
open LC.Utf8

/-- words of a line joined by single blanks -/
def joinBlank : List Word → List Rune
  | [] => []
  | [w] => w
  | w :: ws => w ++ 32 :: joinBlank ws

/-- Line k of the Normalize output holds the words Match attributes to line k. -/
theorem render_lines (toks : List Tok) (h2 : 2 ≤ toks.length) (hs : StepOne 1 toks)
    (hw : ∀ t ∈ toks, t.word = [nl] ∨ (nl ∉ t.word ∧ t.word ≠ []))
    (k : Nat) (hk : 1 ≤ k) :
    (splitLines (render toks)).getD (k - 1) [] = joinBlank (wordsOnLine toks k) :=
  render_lines' toks h2 hs hw k hk

/-- no hyphenated line break is ever pending while scanning `rs` -/
def NoDefer (E : Env) (rs : List Rune) : Prop :=
  ∀ p, p <+: rs → (scanRunes E false p).deferredEOL = false ∧ (scanRunes E false p).deferredWord = false

/-- The non-normalizing tokenizer's token lines advance by at most one per token. -/
theorem tokenize_stepOne (E : Env) (rs : List Rune) (hn : NoDefer E rs) :
    StepOne 1 (tokenizeRunes E false rs).toks :=
  tokenize_stepOne' E rs hn

/-- The one- and zero-token cases of Normalize. -/
theorem render_small (t : Tok) : render [] = [] ∧ render [t] = t.word := by
  simp [render]

example : render [⟨[nl], 1⟩, ⟨[97], 2⟩, ⟨[98], 2⟩, ⟨[nl], 2⟩, ⟨[nl], 3⟩, ⟨[99], 4⟩] =
    [nl, 97, 32, 98, nl, nl, 99] := by decide

end LC.V2Tok
