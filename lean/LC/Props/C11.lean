/-
C11: Normalize output lines up with Match positions.

`render` is the model of Normalize's output loop (as repaired: a wordless first
line is not emitted twice).  `render_lines`: whenever token lines advance by at
most one from token to token (`StepOne`), line k of the output holds exactly
the words carrying line k, separated by single blanks — provided the first token
is on line 1 and an EOL token is the last token of its line (`EolLast`), which
the tokenizer guarantees (`tokenize_first_line`, `tokenize_eol_last`).  `tokenize_stepOne`:
the non-normalizing tokenizer produces such token lists for every input on
which no hyphenated line break is pending (`NoDefer`) — with a pending hyphen
the line counter can advance without an EOL token and a dropped notice line
can then glue two lines of the Normalize output together (recorded in DESIGN
§6 C11 as outside the proved domain).  That re-matching the output gives the
same result is NOT a theorem: it fails for the two recorded findings
(known_findings.json C11/*), and is checked on the implementation by the oracle.

Hyphenated inputs (second part of the file): the output loop writes one newline per line
passed (`List.replicate (t.line - prev) nl`, also before the first token), so the line
correspondence needs only that token lines never decrease (`Mono`) and that the token after an
EOL token is on a strictly later line (`EolLastLt`, LC/Proofs/Render.lean); both hold on EVERY
input (`tokenize_mono`, `tokenize_eol_lastlt`), hence `normalize_lines_all` without `NoDefer`.
Property theorems only; helper lemmas live in LC/Proofs/Render.lean, LC/Proofs/RenderAll.lean.
-/
import LC.Model.V2Tok
import LC.Spec.TokSpec
import LC.Proofs.Render
import LC.Proofs.RenderAll

namespace LC.V2Tok
open LC.Utf8

/-- Line k of the Normalize output holds the words Match attributes to line k.

-- ADJUSTED: two hypotheses added; without them the statement is false for the model
-- (checked by evaluation, `k ≥ 1`, all other hypotheses hold):
--  * `h1` (the first token is on line 1): needed for the original `render`, which never emitted a
--    newline before the first token while `StepOne 1` lets the first token be on line 2
--    (toks = [⟨[97],2⟩,⟨[98],2⟩] gave "a\nb").  `render` as repaired writes the newlines up to the
--    first token's line, so `h1` is no longer used (see `render_lines_mono`); it is kept so that the
--    statement is unchanged.
--  * `he` (`EolLast`: the token after an EOL token is on the next line): the loop emits a blank
--    before a word whenever the previous token is on the same line, also when that token is an
--    EOL token, which emits nothing.
--    toks = [⟨[10],1⟩,⟨[98],1⟩]: output " b"; k = 1 gives " b" ≠ "b".
--    toks = [⟨[97],1⟩,⟨[10],2⟩,⟨[98],2⟩]: output "a\n b"; k = 2 gives " b" ≠ "b".
-- Both hold for the tokenizer's output: `tokenize_first_line`, `tokenize_eol_last` below. -/
theorem render_lines (toks : List Tok) (h2 : 2 ≤ toks.length) (hs : StepOne 1 toks)
    (h1 : ∀ t, toks.head? = some t → t.line = 1) (he : EolLast toks)
    (hw : ∀ t ∈ toks, t.word = [nl] ∨ (nl ∉ t.word ∧ t.word ≠ []))
    (k : Nat) (hk : 1 ≤ k) :
    (splitLines (render toks)).getD (k - 1) [] = joinBlank (wordsOnLine toks k) :=
  render_lines' toks h2 hs h1 he hw k hk

/-- The non-normalizing tokenizer's token lines advance by at most one per token. -/
theorem tokenize_stepOne (E : Env) (rs : List Rune) (hn : NoDefer E rs) :
    StepOne 1 (tokenizeRunes E false rs).toks :=
  tokenize_stepOne' E rs hn

/-- The first token of the non-normalizing tokenizer's output is on line 1 (hypothesis `h1`). -/
theorem tokenize_first_line (E : Env) (rs : List Rune) (hn : NoDefer E rs) :
    ∀ t, (tokenizeRunes E false rs).toks.head? = some t → t.line = 1 :=
  tokenize_first_line' E rs hn

/-- In the non-normalizing tokenizer's output an EOL token ends its line (hypothesis `he`).
`EnvWF`: the newline is a space and no space starts a word, so no word is `[nl]`. -/
theorem tokenize_eol_last (E : Env) (hE : EnvWF E) (rs : List Rune) (hn : NoDefer E rs) :
    EolLast (tokenizeRunes E false rs).toks :=
  tokenize_eol_last' hE rs hn

/-- Every token of the non-normalizing tokenizer's output is an EOL token or a non-empty word
without newline (hypothesis `hw`); holds on every input. -/
theorem tokenize_words (E : Env) (hE : EnvWF E) (rs : List Rune) :
    ∀ t ∈ (tokenizeRunes E false rs).toks, t.word = [nl] ∨ (nl ∉ t.word ∧ t.word ≠ []) :=
  tokenize_words' hE rs

/-- `render_lines` for the tokenizer's output: all its hypotheses but `h2` are theorems. -/
theorem normalize_lines (E : Env) (hE : EnvWF E) (rs : List Rune) (hn : NoDefer E rs)
    (h2 : 2 ≤ (tokenizeRunes E false rs).toks.length) (k : Nat) (hk : 1 ≤ k) :
    (splitLines (render (tokenizeRunes E false rs).toks)).getD (k - 1) [] =
      joinBlank (wordsOnLine (tokenizeRunes E false rs).toks k) :=
  render_lines _ h2 (tokenize_stepOne E rs hn) (tokenize_first_line E rs hn)
    (tokenize_eol_last E hE rs hn) (tokenize_words E hE rs) k hk

/-! ### every input, hyphenated line breaks included -/

/-- `render_lines` when token lines may advance by any amount: lines start at 1 or later and never
decrease (`Mono 1`), and the token after an EOL token is on a strictly later line (`EolLastLt`).
No hypothesis on the first token's line: `render` writes the newlines up to it. -/
theorem render_lines_mono (toks : List Tok) (h2 : 2 ≤ toks.length) (hs : Mono 1 toks)
    (he : EolLastLt toks)
    (hw : ∀ t ∈ toks, t.word = [nl] ∨ (nl ∉ t.word ∧ t.word ≠ []))
    (k : Nat) (hk : 1 ≤ k) :
    (splitLines (render toks)).getD (k - 1) [] = joinBlank (wordsOnLine toks k) :=
  render_lines_mono' toks h2 hs he hw k hk

/-- On every input the tokenizer's token lines are at least 1 and never decrease. -/
theorem tokenize_mono (E : Env) (normalize : Bool) (rs : List Rune) :
    Mono 1 (tokenizeRunes E normalize rs).toks :=
  tokenize_mono' E normalize rs

/-- On every input, the token after an EOL token is on a strictly later line. -/
theorem tokenize_eol_lastlt (E : Env) (hE : EnvWF E) (rs : List Rune) :
    EolLastLt (tokenizeRunes E false rs).toks :=
  tokenize_eol_lastlt' hE rs

/-- `normalize_lines` without `NoDefer`: for EVERY input, line k of the Normalize output holds
exactly the words Match attributes to line k. -/
theorem normalize_lines_all (E : Env) (hE : EnvWF E) (rs : List Rune)
    (h2 : 2 ≤ (tokenizeRunes E false rs).toks.length) (k : Nat) (hk : 1 ≤ k) :
    (splitLines (render (tokenizeRunes E false rs).toks)).getD (k - 1) [] =
      joinBlank (wordsOnLine (tokenizeRunes E false rs).toks k) :=
  render_lines_mono _ h2 (tokenize_mono E false rs) (tokenize_eol_lastlt E hE rs)
    (tokenize_words E hE rs) k hk

/-- the input that broke the original output loop (`(-\n) x y`: no token on line 1, both words
on line 2): two tokens on line 2 are written on output line 2 -/
example : render [⟨[120], 2⟩, ⟨[121], 2⟩] = [nl, 120, 32, 121] := by decide

/-- The one- and zero-token cases of Normalize. -/
theorem render_small (t : Tok) : render [] = [] ∧ render [t] = t.word := by
  simp [render]

example : render [⟨[nl], 1⟩, ⟨[97], 2⟩, ⟨[98], 2⟩, ⟨[nl], 2⟩, ⟨[nl], 3⟩, ⟨[99], 4⟩] =
    [nl, 97, 32, 98, nl, nl, 99] := by decide

end LC.V2Tok
