/-
C08: streaming input equals in-memory input; reader faults surface as errors.

`feed bs` is the impl-level read loop of tokenizeStream (1024-byte buffer, runes
decoded while idx < 1020, the ≤ 4 left-over bytes copied to the front, `tgt = idx
+ n` at end of input, stale bytes beyond `tgt` visible to the decoder exactly as
in Go).  `decodeAll bs` is the plain rune sequence of the whole input.  The
theorems say the buffering is invisible — for every input length, hence for
every alignment of multi-byte characters against the buffer boundaries — and
that a reader error other than EOF yields that error and nothing else.

`StableTail bs` excludes only inputs that END inside a multi-byte character
(a truncated UTF-8 sequence as the very last bytes of an input ≥ 1024 bytes):
there the Go decoder can see stale buffer bytes after the end of input.  Every
valid UTF-8 input and every input ending in an ASCII byte is StableTail.
Property theorems only; helper lemmas live in LC/Proofs/Read.lean.
-/
import LC.Model.V2Tok
import LC.Proofs.Read

namespace LC.V2Tok
open LC.Utf8

/-- DecodeRune consumes between 1 and 4 bytes of a non-empty input, never more than there are. -/
theorem decodeRune_width (p : List UInt8) (h : p ≠ []) :
    1 ≤ (decodeRune p).2 ∧ (decodeRune p).2 ≤ 4 ∧ (decodeRune p).2 ≤ p.length :=
  decodeRune_width' p h

/-- DecodeRune looks at no more than the first four bytes. -/
theorem decodeRune_local (p q : List UInt8) (h : 4 ≤ p.length) : decodeRune (p ++ q) = decodeRune p :=
  decodeRune_local' p q h

/-- The buffered read loop hands the scanner exactly the runes of the whole input. -/
theorem feed_eq_decodeAll (bs : List UInt8) (h : StableTail bs) : feed bs = decodeAll bs :=
  feed_eq_decodeAll' bs h

/-- Consequently: shifting the content by any number of leading spaces only prepends
those spaces to what the scanner sees, whatever that does to the buffer alignment. -/
theorem feed_pad (bs : List UInt8) (k : Nat) (h : StableTail bs) :
    feed (List.replicate k 32 ++ bs) = List.replicate k 32 ++ feed bs :=
  feed_pad' bs k h

/-- Inputs ending in an ASCII byte (in particular: ending in a newline) are StableTail;
so is the empty input. -/
theorem stableTail_of_ascii_end (bs : List UInt8) (b : UInt8) (hb : b.toNat < 0x80) :
    StableTail (bs ++ [b]) ∧ StableTail [] :=
  stableTail_of_ascii_end' bs b hb

/-- Reader faults: whatever data precedes it, a terminal error other than EOF is returned
(and no runes, hence no tokens and no matches); with EOF the result is `feed`. -/
theorem feedR_spec (bs : List UInt8) (term : RErr) :
    feedR bs term = (if term = .eof then .ok (feed bs) else .error term) :=
  feedR_spec' bs term

/-- Non-vacuity: a concrete multi-byte input. -/
example : StableTail [0xC3, 0xA9, 0x61] ∧ decodeAll [0xC3, 0xA9, 0x61] = [0xE9, 0x61] :=
  nonvacuous_example

end LC.V2Tok
