/-
C07: detection does not depend on position — what holds, stage by stage.

* tokens: text after a block of complete lines is tokenized exactly as if it
  stood alone, indices and lines shifted (`tokens_shift`, from the clean-state
  lemma of C05);
* q-gram hashes are position independent (`hashes_shift`);
* the whole match assembly commutes with any strictly monotone relabelling of
  lines (`match_line_monotone`) — in particular with "+k lines".
What does NOT hold in the code (recorded finding C07/negative-offset-clamp):
`detectRuns`/`fuseRanges` are not shift-equivariant for edited texts, because
negative offsets TargetStart-SrcStart are clamped to 0 only when the text
stands at the start of the input.
Property theorems only; helper lemmas live in LC/Proofs/Shift.lean.
-/
import LC.Spec.TokSpec
import LC.Model.V2Match
import LC.Props.C05
import LC.Proofs.Shift

namespace LC.V2Tok
open LC.Utf8

/-- Text after a prefix that leaves nothing pending is tokenized as if alone, shifted. -/
theorem tokens_shift (E : Env) (n : Bool) (pre X : List Rune) (hc : Clean (scanRunes E n pre))
    (hl : 1 ≤ (scanRunes E n pre).line) :
    tokenizeRunes E n (pre ++ X) =
      appendDoc (scanRunes E n pre).doc (shiftDoc ((scanRunes E n pre).line - 1) (tokenizeRunes E n X)) :=
  tokens_shift' E n pre X hc hl

/-- a prefix made of complete lines (each ended by a newline not preceded by a hyphen-ended word)
leaves nothing pending: after a plain newline the state is clean again -/
theorem clean_after_plain_nl (E : Env) (s : State) (hd : s.deferredEOL = false) (hw : s.deferredLines = 0)
    (hh : s.obuf.getLast? ≠ some hyphen) : Clean (step E true s nl) :=
  clean_after_plain_nl' E s hd hw hh

end LC.V2Tok

namespace LC.V2Match

/-- q-gram checksums do not depend on where the q-gram stands. -/
theorem hashes_shift (crc : Text → Nat) (wordOf : Nat → Text) (q : Nat) (hq : 0 < q) (pre xs : List Nat) (i : Nat)
    (hi : i + q ≤ xs.length) :
    (hashes crc wordOf q (pre ++ xs))[pre.length + i]? = (hashes crc wordOf q xs)[i]? :=
  hashes_shift' crc wordOf q hq pre xs i hi

/-- `match` commutes with strictly monotone relabelling of lines: same matches, same order, same
confidences and token spans, lines relabelled. (Blank lines inserted, text moved down by k lines.) -/
theorem match_line_monotone {C : Type} (N : NumEnv C) (f : Nat → Nat) (hf : ∀ a b, a < b → f a < f b)
    (crc : Text → Nat) (wordOf : Nat → Text) (isDigitRune : Nat → Bool) (decode : Text → List Nat)
    (induced : List (Text × List Text)) (diffOf : KDoc → Nat → Nat → Option (List (LC.Score.Diff Nat)))
    (cntT : Nat → Nat) (docs : List PDoc) (target : Array IdTok) (crs : List Nat) (r : Results C)
    (h : matchModel N crc wordOf isDigitRune decode induced diffOf cntT docs target crs = .ok r) :
    ∃ r', matchModel N crc wordOf isDigitRune decode induced diffOf cntT docs (mapLines f target) (crs.map f) = .ok r' ∧
      r'.ms = r.ms.map (mapMatch f) :=
  match_line_monotone' N f hf crc wordOf isDigitRune decode induced diffOf cntT docs target crs r h

end LC.V2Match
