/-
C02 (continued) — range and exactness of the distance that `score` turns into a
confidence (`confidencePercentage(klen, d) = 1 - d/klen`).

`score_bound` (LC.Props.C02) says the distance never understates the true
Levenshtein distance. The statements here close the other side of the picture,
for every edit script, with no bound on its length:

* `levWord_le_textLength` — the distance is at most the number of words the
  script mentions, so it is finite data of the script alone (no accumulator
  leaks from one Equal-delimited block into the next);
* `levWord_eq_zero_iff` — the distance is 0, i.e. the confidence is exactly 1.0,
  precisely when the script consists of Equal segments only;
* `conf_one_iff_identical` — for a valid script whose Equal-only shape is the
  canonical one: distance 0 ↔ the two texts of the script are the same list.
-/
import LC.Props.C02

namespace LC.Score
open LC.Lev
variable {ω : Type} [DecidableEq ω]
set_option linter.unusedSectionVars false

theorem textLength_cons (x : Diff ω) (xs : List (Diff ω)) :
    textLength (x :: xs) = x.words.length + textLength xs := by
  simp [textLength]

theorem levWordAux_le (ds : List (Diff ω)) (l i d : Nat) :
    levWordAux ds l i d ≤ l + max i d + textLength ds := by
  induction ds generalizing l i d with
  | nil => simp [levWordAux, textLength]
  | cons x xs ih =>
    rw [textLength_cons]
    unfold levWordAux
    split
    · have := ih l (i + x.words.length) d; omega
    · have := ih l i (d + x.words.length); omega
    · have := ih (l + max i d) 0 0; omega

/-- The distance used for the confidence never exceeds the number of words in
the script. -/
theorem levWord_le_textLength (ds : List (Diff ω)) : levWord ds ≤ textLength ds := by
  have := levWordAux_le ds 0 0 0
  simpa [levWord] using this

theorem levWordAux_eq_zero_iff (ds : List (Diff ω)) (hne : ∀ x ∈ ds, x.words ≠ [])
    (l i d : Nat) :
    levWordAux ds l i d = 0 ↔ (l = 0 ∧ i = 0 ∧ d = 0 ∧ ∀ x ∈ ds, x.op = .eq) := by
  induction ds generalizing l i d with
  | nil => simp [levWordAux]
  | cons x xs ih =>
    have hx : 0 < x.words.length :=
      List.length_pos_iff.mpr (hne x (List.mem_cons_self))
    have hxs : ∀ y ∈ xs, y.words ≠ [] := fun y hy => hne y (List.mem_cons_of_mem _ hy)
    unfold levWordAux
    cases hop : x.op with
    | ins =>
      simp only [ih hxs, List.mem_cons, forall_eq_or_imp, hop]
      constructor
      · rintro ⟨_, h, _⟩; omega
      · rintro ⟨_, _, _, h, _⟩; cases h
    | del =>
      simp only [ih hxs, List.mem_cons, forall_eq_or_imp, hop]
      constructor
      · rintro ⟨_, _, h, _⟩; omega
      · rintro ⟨_, _, _, h, _⟩; cases h
    | eq =>
      show levWordAux xs (l + max i d) 0 0 = 0 ↔ _
      rw [ih hxs, List.forall_mem_cons]
      constructor
      · rintro ⟨h, -, -, hall⟩; exact ⟨by omega, by omega, by omega, hop, hall⟩
      · rintro ⟨h1, h2, h3, -, hall⟩; exact ⟨by omega, rfl, rfl, hall⟩

/-- Confidence is exactly 1.0 (distance 0) iff the script has Equal segments
only. Holds for every script whose segments are non-empty, which is what
`DiffSpec.valid` records of go-diff's output. -/
theorem levWord_eq_zero_iff (ds : List (Diff ω)) (hne : ∀ x ∈ ds, x.words ≠ []) :
    levWord ds = 0 ↔ ∀ x ∈ ds, x.op = .eq := by
  unfold levWord
  rw [levWordAux_eq_zero_iff ds hne]
  simp

theorem src_eq_dst_of_all_eq (ds : List (Diff ω)) (h : ∀ x ∈ ds, x.op = .eq) :
    src ds = dst ds := by
  induction ds with
  | nil => rfl
  | cons x xs ih =>
    have hx := h x (List.mem_cons_self)
    have := ih (fun y hy => h y (List.mem_cons_of_mem _ hy))
    simp [src, dst, hx, this]

/-- An Equal-only script has distance 0 and identical texts: the sufficiency
half that complements `conf_one_only_if_identical`. -/
theorem conf_one_of_all_equal (u k : List ω) (ds : List (Diff ω)) (hv : Valid ds u k)
    (h : ∀ x ∈ ds, x.op = .eq) : levWord ds = 0 ∧ u = k := by
  refine ⟨(levWord_eq_zero_iff ds hv.2.2).mpr h, ?_⟩
  rw [← hv.1, ← hv.2.1]
  exact src_eq_dst_of_all_eq ds h

/-- For a valid script: distance 0 ↔ Equal-only, and then the texts coincide. -/
theorem conf_one_iff_identical (u k : List ω) (ds : List (Diff ω)) (hv : Valid ds u k) :
    levWord ds = 0 ↔ ((∀ x ∈ ds, x.op = .eq) ∧ u = k) := by
  constructor
  · intro h0
    have hall := (levWord_eq_zero_iff ds hv.2.2).mp h0
    exact ⟨hall, (conf_one_of_all_equal u k ds hv hall).2⟩
  · rintro ⟨hall, _⟩
    exact (levWord_eq_zero_iff ds hv.2.2).mpr hall

/-- Non-vacuity: an Equal-only valid script, and one that is not. -/
example :
    Valid [⟨.eq, [1, 2]⟩, ⟨.eq, [3]⟩] [1, 2, 3] [1, 2, 3] ∧
    levWord ([⟨.eq, [1, 2]⟩, ⟨.eq, [3]⟩] : List (Diff Nat)) = 0 ∧
    levWord ([⟨.eq, [1]⟩, ⟨.del, [7]⟩, ⟨.ins, [3, 4]⟩] : List (Diff Nat)) = 2 ∧
    textLength ([⟨.eq, [1]⟩, ⟨.del, [7]⟩, ⟨.ins, [3, 4]⟩] : List (Diff Nat)) = 4 := by
  refine ⟨⟨by decide, by decide, by decide⟩, by decide, by decide, by decide⟩

end LC.Score
