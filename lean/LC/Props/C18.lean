/-
C18: comment extraction returns exactly the comments of a source file.

`LC.Lexer.parse` is the model of the Go lexer (positions, look-ahead with
push-back as prefix tests, the `lineRune` column, fuel-bounded loops);
`LC.LexSpec.comments` is the specification: the straightforward lexer for a
language's comment and string syntax.  The refinement theorem says they agree
on every source text for every language row whose delimiters contain no
newline; the table theorems say the rows regenerated from language.go are the
hand-maintained expected syntax of the 48 languages.  Termination ("never
hangs") is by construction: both are total functions whose loops consume at
least one rune per iteration.  The ChunkIterator theorems: every comment
exactly once, in order, in maximal runs of comments on adjacent lines.
Property theorems only; helper lemmas live in LC/Proofs/Lex.lean.
-/
import LC.Model.Lexer
import LC.Spec.LexSpec
import LC.Gen.LangTable
import LC.Proofs.Lex

namespace LC.Lexer
open LC.Utf8

-- `Row.WF` (delimiters never contain a newline) and `IsChain` are defined at the end of
-- LC/Model/Lexer.lean.  SYNTACTIC: core Lean 4.33 has neither `List.IsChain` nor `List.Chain'`;
-- `LC.Lexer.IsChain` is the local inductive with the same constructors (`isChain_iff_get` in
-- LC/Proofs/Lex.lean shows it is "every two consecutive elements are related").

/-- The implementation model computes exactly the specification, for every source text. -/
theorem lex_refines_spec (R : Row) (wf : R.WF) (rs : List Rune) :
    parse R rs = LC.LexSpec.comments R rs :=
  lex_refines_spec' R wf rs

/-- The per-language facts in the source now are the expected comment and string syntax. -/
theorem table_current : LC.Gen.Lang.facts = LC.Spec.LangExpect.facts := by decide

theorem consts_current :
    (LC.Gen.Lang.cHTML, LC.Gen.Lang.cPython, LC.Gen.Lang.cJavaScript, LC.Gen.Lang.cPerl, LC.Gen.Lang.cSQL,
      LC.Gen.Lang.cObjectiveC, LC.Gen.Lang.cMySQL, LC.Gen.Lang.cMatlab) = (17, 30, 20, 29, 37, 28, 26, 25) := by
  rfl  -- SYNTACTIC: `decide` fails to synthesize `Decidable` for the 8-tuple equality; `rfl` checks the same fact

/-- every expected row is well formed -/
theorem expected_rows_wf (lang : Nat) :
    (rowOf LC.Spec.LangExpect.facts LC.LexSpec.expectedConsts lang).WF :=
  expected_rows_wf' lang

/-- Hence: for every language and every source text the lexer model over the table in the
source returns exactly the specification's comments. -/
theorem parse_is_spec (lang : Nat) (rs : List Rune) :
    parse (rowOf LC.Gen.Lang.facts
      { html := LC.Gen.Lang.cHTML, python := LC.Gen.Lang.cPython, javaScript := LC.Gen.Lang.cJavaScript,
        perl := LC.Gen.Lang.cPerl, sql := LC.Gen.Lang.cSQL, objectiveC := LC.Gen.Lang.cObjectiveC,
        mySQL := LC.Gen.Lang.cMySQL, matlab := LC.Gen.Lang.cMatlab } lang) rs =
    LC.LexSpec.specComments lang rs :=
  parse_is_spec' lang rs

/-- comments are well formed: 1-based, start before end -/
theorem spec_comment_lines (R : Row) (rs : List Rune) :
    ∀ c ∈ LC.LexSpec.comments R rs, 1 ≤ c.startLine ∧ c.startLine ≤ c.endLine :=
  spec_comment_lines' R rs

/-! ### ChunkIterator -/

/-- every comment exactly once, in order -/
theorem chunks_concat (cs : List Comment) : (chunkIterator cs).flatten = cs := chunks_concat' cs

theorem chunks_nonempty (cs : List Comment) : ∀ ch ∈ chunkIterator cs, ch ≠ [] := chunks_nonempty' cs

/-- inside a chunk each comment starts at most one line after the start of the previous one -/
theorem chunks_adjacent (cs : List Comment) :
    ∀ ch ∈ chunkIterator cs, IsChain (fun a b => b.startLine ≤ a.startLine + 1) ch :=
  chunks_adjacent' cs

/-- chunks are maximal: a chunk ends only where the next comment is not adjacent -/
theorem chunks_maximal (cs : List Comment) :
    IsChain (fun a b =>
      ∀ x ∈ a.getLast?, ∀ y ∈ b.head?, y.startLine > x.startLine + 1) (chunkIterator cs) :=
  chunks_maximal' cs

/-- Non-vacuity: a C source with a string containing comment delimiters, an empty block
comment directly followed by another one, and a line comment after a string. -/
example :
    LC.LexSpec.specComments 5 ("x=\"/*no*/\";/**//*b*/ \"s\"//c\n".toList.map Char.toNat) =
      [⟨1, 1, []⟩, ⟨1, 1, [98]⟩, ⟨1, 1, [99]⟩] ∧
    chunkIterator [⟨1, 1, []⟩, ⟨2, 2, []⟩, ⟨4, 6, []⟩, ⟨7, 7, []⟩] =
      [[⟨1, 1, []⟩, ⟨2, 2, []⟩], [⟨4, 6, []⟩], [⟨7, 7, []⟩]] :=
  nonvacuous_example

end LC.Lexer
