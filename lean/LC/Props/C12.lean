/-
C12: loading a corpus directory equals adding each of its files — the path part.

For EVERY spelling of the directory (trailing separators, `./`, doubled
separators, `..` elements, absolute or relative — any non-empty string) and
every file that filepath.Walk reaches below it, LoadLicenses (as repaired)
derives the key from the path relative to the directory: files at depth
exactly three get (category, name, variant) = their three path elements,
shallower files are skipped, deeper files are keyed by their first three
elements, and the derivation never fails or indexes out of range.  That the
classifier built from these keys matches like the AddContent-built one is then
C04's order/insertion independence plus the harness comparison.
Property theorems only; helper lemmas live in LC/Proofs/LoadPath.lean.
-/
import LC.Model.LoadPath
import LC.Proofs.LoadPath

namespace LC.LoadPath

/-- Clean is idempotent (the walk root may be spelled any way; everything below is clean). -/
theorem clean_idem (p : List Char) : clean (clean p) = clean p := clean_idem' p

/-- The relative path of a walked file is exactly its path elements, for every spelling of dir. -/
theorem rel_walk (dir : List Char) (hd : dir ≠ []) (names : List Comp) (hn : names ≠ [])
    (hp : ∀ n ∈ names, Plain n) :
    rel dir (walkPath dir names) = some (joinSlash names) :=
  rel_walk' dir hd names hn hp

/-- depth exactly three: the key is (category, name, variant) -/
theorem load_key_exact (dir : List Char) (hd : dir ≠ []) (c n v : Comp)
    (hc : Plain c) (hn : Plain n) (hv : Plain v) :
    loadKey dir [c, n, v] = .key c n v :=
  load_key_exact' dir hd c n v hc hn hv

/-- shallower files are skipped -/
theorem load_key_shallow (dir : List Char) (hd : dir ≠ []) (names : List Comp) (hn : names ≠ [])
    (hp : ∀ n ∈ names, Plain n) (hl : names.length < 3) : loadKey dir names = .skip :=
  load_key_shallow' dir hd names hn hp hl

/-- never an error, never an out-of-range index, at any depth -/
theorem load_key_total (dir : List Char) (hd : dir ≠ []) (names : List Comp) (hn : names ≠ [])
    (hp : ∀ n ∈ names, Plain n) : loadKey dir names ≠ .err :=
  load_key_total' dir hd names hn hp

example : loadKey "./a//b/../corpus/".toList ["License".toList, "MIT".toList, "a.txt".toList] =
    .key "License".toList "MIT".toList "a.txt".toList := by decide

end LC.LoadPath
