/-
C01 (search-set stage): the q-gram join, the density window, the range fusion
and the claimed-token cut together PROPOSE EXACTLY THE PLANTED RANGE.

For every corpus document D (at least q tokens), planted verbatim between
contexts none of whose tokens occurs in D, `findPotentialMatches` does not
panic and its result contains the range  source [0,|D|) ↦ target
[|pre|, |pre|+|D|).  Hypotheses: `HashInj` (distinct q-grams have distinct
checksums — CRC-32 collisions are outside the theorem) and the NumEnv law
`scaleFloor n ≤ n` (int(t·n) ≤ n for t ≤ 1).  Together with `score_exact_conf`
(LC/Props/C01) the candidate built from this range has the document's name,
confidence conf |D| 0 = 1.0 and token span exactly the copy.
Property theorems only; helper lemmas live in LC/Proofs/ExactRange.lean.
-/
import LC.Model.V2Match
import LC.Proofs.ExactRange

namespace LC.V2Match

theorem exact_range_proposed {C : Type} (N : NumEnv C) (hsf : ∀ n, N.scaleFloor n ≤ n)
    (crc : Text → Nat) (wordOf : Nat → Text) (pre D post : List Nat)
    (hq : 0 < N.q) (hD : N.q ≤ D.length) (hinj : HashInj crc wordOf N.q)
    (hoov : ∀ x, x ∈ pre ++ post → x ∉ D) :
    ∃ ms, findPotentialMatches N (lookupIn (hashes crc wordOf (effQ N.q D.length) D)) (effQ N.q D.length) D.length
            (hashes crc wordOf (effQ N.q (pre ++ D ++ post).length) (pre ++ D ++ post))
            (effQ N.q (pre ++ D ++ post).length) (pre ++ D ++ post).length = some ms ∧
      ∃ m ∈ ms, m.srcStart = 0 ∧ m.srcEnd = (D.length : Int) ∧ m.tgtStart = (pre.length : Int) ∧
        m.tgtEnd = (pre.length : Int) + (D.length : Int) :=
  exact_range_proposed' N hsf crc wordOf pre D post hq hD hinj hoov

end LC.V2Match
