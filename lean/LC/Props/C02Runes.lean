/-
C02 (continued): the rune encoding of token identifiers is lossless. A diff
that goes through strings sees two different words as two different runes, and
gets back the identifier it was given — for every dictionary of up to
0x10FFFF − 0x800 + 1 words. (Before the repair be50ff0 the encoding was the
identity, for which `old_encoding_collides` shows the collision.)
-/
import LC.Model.TokenRune

namespace LC.TokenRune

theorem runeToken_tokenRune (id : Nat) : runeToken (tokenRune id) = id := by
  unfold runeToken tokenRune surrogateMin surrogateSize
  split <;> split <;> omega

theorem tokenRune_not_surrogate (id : Nat) :
    ¬ (surrogateMin ≤ tokenRune id ∧ tokenRune id < surrogateMin + surrogateSize) := by
  unfold tokenRune surrogateMin surrogateSize
  split <;> omega

theorem tokenRune_valid (id : Nat) (h : id + surrogateSize ≤ maxRune) : tokenRune id ≤ maxRune := by
  unfold tokenRune surrogateMin surrogateSize maxRune at *
  split <;> omega

theorem tokenRune_injective (a b : Nat) (h : tokenRune a = tokenRune b) : a = b := by
  have ha := runeToken_tokenRune a
  have hb := runeToken_tokenRune b
  rw [h] at ha; omega

/-- The round trip through a Go string leaves every encoded identifier alone. -/
theorem throughString_tokenRune (id : Nat) (h : id + surrogateSize ≤ maxRune) :
    throughString (tokenRune id) = tokenRune id := by
  have h1 := tokenRune_not_surrogate id
  have h2 := tokenRune_valid id h
  unfold throughString
  rw [if_neg]
  intro hc
  rcases hc with hc | hc
  · exact h1 hc
  · omega

/-- Two different identifiers stay different after encoding, the string round
trip and decoding. -/
theorem roundtrip_distinct (a b : Nat) (ha : a + surrogateSize ≤ maxRune)
    (hb : b + surrogateSize ≤ maxRune) (hab : a ≠ b) :
    runeToken (throughString (tokenRune a)) = a ∧
    throughString (tokenRune a) ≠ throughString (tokenRune b) := by
  rw [throughString_tokenRune a ha, throughString_tokenRune b hb]
  exact ⟨runeToken_tokenRune a, fun h => hab (tokenRune_injective a b h)⟩

/-- The identity encoding used before be50ff0 collides in the surrogate block. -/
theorem old_encoding_collides : throughString 0xD833 = throughString 0xD836 ∧ (0xD833 : Nat) ≠ 0xD836 := by
  decide

/-- Non-vacuity: identifiers below, inside and past the surrogate block. -/
example : tokenRune 41 = 41 ∧ tokenRune 0xD833 = 0xE033 ∧ tokenRune 0x10000 = 0x10800 ∧
    runeToken 0xE033 = 0xD833 ∧ (0xD833 : Nat) + surrogateSize ≤ maxRune := by decide

end LC.TokenRune
