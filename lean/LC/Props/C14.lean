/-
C14: v1 classifiers are safe for concurrent use — the lock protocol.

The skeleton of multipleMatch's goroutine body, regenerated from the AST
(`LC.Gen.V1Protocol.multipleMatchSkeleton`), is checked to have the locked
check-and-set shape: every access to the lazily built search set happens while
the mutex is held, except uses that follow a completed critical section.  A
thread with that shape satisfies the hypotheses of `LC.Conc.Protocol` (w1: the
write is under the lock and only when the field was nil; w2: a critical section
leaves the field set; r: reads outside the lock come after the thread's own
critical section), for which LC/Props/C09 proves: no data race, at most one
write, all readers see the same set — for every number of threads and every
interleaving.  Everything outside that skeleton (the matcher's own mutex and
queue, nearestMatch, the Go memory model) is monitored by the race detector only.
-/
import LC.Gen.V1Protocol
import LC.Props.C09

namespace LC.Conc

/-- the locked check-and-set shape of a thread skeleton -/
def lockedCheckAndSet : List String → (holding : Bool) → (doneCS : Bool) → (sawRd : Bool) → Bool
  | [], holding, _, _ => !holding
  | e :: rest, holding, doneCS, sawRd =>
    if e = "lock" then !holding && lockedCheckAndSet rest true doneCS false
    else if e = "unlock" then holding && lockedCheckAndSet rest false true false
    else if e = "rd" then holding && lockedCheckAndSet rest holding doneCS true
    else if e = "wr" then holding && sawRd && lockedCheckAndSet rest holding doneCS sawRd
    else if e = "use" then !holding && doneCS && lockedCheckAndSet rest holding doneCS sawRd
    else false

/-- The source, as it is now, has the shape. -/
theorem skeleton_current :
    lockedCheckAndSet LC.Gen.V1Protocol.multipleMatchSkeleton false false false = true := by decide

/-- The shape before the repair (nil check outside the lock) does not. -/
theorem prefix_skeleton_rejected :
    lockedCheckAndSet ["rd", "lock", "wr", "unlock", "use"] false false false = false := by decide

/-- The run of two threads of that shape, as a trace, is an instance of the protocol theorems. -/
theorem two_thread_instance :
    ¬ Race [⟨0, .lock⟩, ⟨0, .rd 7⟩, ⟨0, .wr 7 5⟩, ⟨0, .unlock⟩, ⟨1, .lock⟩, ⟨1, .rd 7⟩, ⟨1, .unlock⟩,
            ⟨0, .rd 7⟩, ⟨1, .rd 7⟩] 7 :=
  protocol_no_race (fun _ => 0) _ 7 nonvacuous_example

end LC.Conc
