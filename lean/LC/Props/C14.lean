/-
C14: v1 classifiers are safe for concurrent use — the lock protocol.

The skeleton of multipleMatch's goroutine body, regenerated from the AST
(`LC.Gen.V1Protocol.multipleMatchSkeleton`), is checked to have the locked
check-and-set shape: every access to the lazily built search set happens while
the mutex is held, except uses that follow a completed critical section.  A
thread with that shape satisfies the hypotheses of `LC.Conc.Protocol` (w1: the
write is under the lock and only when the field was nil; w2: a critical section
leaves the field set; r: reads outside the lock come after the thread's own
critical section), for which LC/Props/C09 proves: no data race, at most one
write, all readers see the same set — for every number of threads and every
interleaving.

Second part (`LC.RW`): the map `values` itself, guarded by the readers-writer
lock `muValues`.  The skeleton of EVERY function and goroutine literal of the
package that mentions `values` or `muValues` is regenerated from the AST
(`LC.Gen.V1Locks.functions`: AddValue, AddPrecomputedValue, nearestMatch,
multipleMatch and its goroutine) and must be accepted by the static checker
`LC.RW.accepts` (`values_skeletons_accepted`, by kernel evaluation): reads under
RLock or Lock, writes under Lock, releases on every path incl. early returns and
deferred unlocks, the map never escapes its lock region.  `accepted_calls_ok`:
every execution path of an accepted skeleton is a well-locked action sequence;
`rw_no_race`: threads that run such sequences, in any number and any interleaving
the readers-writer lock allows, never race on the location.  What stays outside:
the matcher's own mutex and queue, the Go memory model beyond the sync.RWMutex
edges, and the faithfulness of the extractor — monitored by the race detector.
-/
import LC.Gen.V1Protocol
import LC.Gen.V1Locks
import LC.Model.RW
import LC.Proofs.RW
import LC.Props.C09

namespace LC.Conc

/-- the locked check-and-set shape of a thread skeleton -/
def lockedCheckAndSet : List String → (holding : Bool) → (doneCS : Bool) → (sawRd : Bool) → Bool
  | [], holding, _, _ => !holding
  | e :: rest, holding, doneCS, sawRd =>
    if e = "lock" then !holding && lockedCheckAndSet rest true doneCS false
    else if e = "unlock" then holding && lockedCheckAndSet rest false true false
    else if e = "rd" then holding && lockedCheckAndSet rest holding doneCS true
    else if e = "wr" then holding && sawRd && lockedCheckAndSet rest holding doneCS sawRd
    else if e = "use" then !holding && doneCS && lockedCheckAndSet rest holding doneCS sawRd
    else false

/-- The source, as it is now, has the shape. -/
theorem skeleton_current :
    lockedCheckAndSet LC.Gen.V1Protocol.multipleMatchSkeleton false false false = true := by decide

/-- The shape before the repair (nil check outside the lock) does not. -/
theorem prefix_skeleton_rejected :
    lockedCheckAndSet ["rd", "lock", "wr", "unlock", "use"] false false false = false := by decide

/-- The run of two threads of that shape, as a trace, is an instance of the protocol theorems. -/
theorem two_thread_instance :
    ¬ Race [⟨0, .lock⟩, ⟨0, .rd 7⟩, ⟨0, .wr 7 5⟩, ⟨0, .unlock⟩, ⟨1, .lock⟩, ⟨1, .rd 7⟩, ⟨1, .unlock⟩,
            ⟨0, .rd 7⟩, ⟨1, .rd 7⟩] 7 :=
  protocol_no_race (fun _ => 0) _ 7 nonvacuous_example

end LC.Conc

namespace LC.RW

/-- The functions that touch `values`, as they are now, keep the lock discipline. -/
theorem values_skeletons_accepted : ∀ f ∈ LC.Gen.V1Locks.functions, accepts f.2 = true := by decide

/-- There is something to check: the extractor found the four functions and the goroutine. -/
theorem values_skeletons_present :
    LC.Gen.V1Locks.functions.map (·.1) =
      ["AddValue", "AddPrecomputedValue", "nearestMatch", "multipleMatch", "multipleMatch.go0"] := by decide

/-- Soundness of the checker: whatever path a call of an accepted function takes (branches either
way, loops any number of times, early returns, deferred releases), its actions are well locked. -/
theorem accepted_calls_ok (b : Blk) (h : accepts b = true) (acts : List Act) (hc : CallActs b acts) :
    ThreadOK acts :=
  accepted_calls_ok' b h acts hc

/-- calls one after another; and everything a thread has done so far is a prefix of such a program -/
theorem threadOK_append (a b : List Act) (ha : ThreadOK a) (hb : ThreadOK b) : ThreadOK (a ++ b) :=
  threadOK_append' a b ha hb

theorem prefixOK_of_threadOK (a b : List Act) (h : ThreadOK (a ++ b)) : PrefixOK a :=
  prefixOK_of_threadOK' a b h

/-- No data race on the location, for every number of threads and every interleaving the
readers-writer lock allows, as long as every thread's actions so far are well locked. -/
theorem rw_no_race (tr : Trace) (hl : rwOK tr none [] = true) (ht : ∀ t, PrefixOK (proj tr t)) :
    ¬ Race tr :=
  rw_no_race' tr hl ht

/-- The shape of a seeded change (the map header copied out under the read lock, iterated after
the release) is rejected … -/
example : accepts (.cons (.s (.a .rlock)) (.cons (.s .alias) (.cons (.s (.a .runlock))
    (.cons (.loop (.cons (.s (.a .rd)) .nil)) .nil)))) = false := by decide

/-- … and so is an early return that forgets the release, a write under the read lock, and a
`continue` that leaks the lock. -/
example : accepts (.cons (.s (.a .rlock)) (.cons (.opt (.cons (.s .ret) .nil)) (.cons (.s (.a .runlock)) .nil))) = false := by decide
example : accepts (.cons (.s (.a .rlock)) (.cons (.s (.a .wr)) (.cons (.s (.a .runlock)) .nil))) = false := by decide
example : accepts (.cons (.loop (.cons (.s (.a .lock)) (.cons (.opt (.cons (.s .jump) .nil)) (.cons (.s (.a .unlock)) .nil)))) .nil) = false := by decide

/-- the hypotheses of `rw_no_race` are satisfiable by a trace with a writer and two readers -/
example : rwOK [⟨0, .lock⟩, ⟨0, .rd⟩, ⟨0, .wr⟩, ⟨0, .unlock⟩, ⟨1, .rlock⟩, ⟨2, .rlock⟩, ⟨1, .rd⟩, ⟨2, .rd⟩,
    ⟨2, .runlock⟩, ⟨1, .runlock⟩, ⟨2, .lock⟩, ⟨2, .wr⟩] none [] = true := by decide

end LC.RW
