/-
C03 (well-formedness clause) and C10 (totality of the modelled pipeline).

For every input of the model (any tokens, any corpus, any diff oracle, any
NumEnv): every reported match is either a Copyright pseudo-match taken from the
tokenizer's list (confidence 1.0, StartLine = EndLine) or has confidence ≥
threshold, a non-empty token span inside the input, lines equal to the lines
of its first and last word, and names a corpus document; matches are ordered
by non-increasing confidence; and the pipeline never reaches one of the
explicit panic results (`filter[off]` in fuseRanges, `Tokens[i]` in match).
Together with LC/Props/C03Lines (token lines are non-decreasing and bounded by
the number of input lines) this gives 1 ≤ StartLine ≤ EndLine ≤ TotalInputLines
≤ number of lines.
Property theorems only; helper lemmas live in LC/Proofs/MatchWF.lean.
-/
import LC.Model.V2Match
import LC.Proofs.MatchWF
import LC.Gen.V2Tables

namespace LC.V2Match

theorem match_wellformed {C : Type} (N : NumEnv C)
    (crc : Text → Nat) (wordOf : Nat → Text) (isDigitRune : Nat → Bool) (decode : Text → List Nat)
    (induced : List (Text × List Text)) (diffOf : KDoc → Nat → Nat → Option (List (LC.Score.Diff Nat)))
    (cntT : Nat → Nat) (docs : List PDoc) (target : Array IdTok) (crs : List Nat) (r : Results C)
    (h : matchModel N crc wordOf isDigitRune decode induced diffOf cntT docs target crs = .ok r) :
    ∀ m ∈ r.ms, WFMatch N docs target crs m :=
  match_wellformed' N crc wordOf isDigitRune decode induced diffOf cntT docs target crs r h

theorem match_sorted {C : Type} (N : NumEnv C) (laws : NumLaws N)
    (crc : Text → Nat) (wordOf : Nat → Text) (isDigitRune : Nat → Bool) (decode : Text → List Nat)
    (induced : List (Text × List Text)) (diffOf : KDoc → Nat → Nat → Option (List (LC.Score.Diff Nat)))
    (cntT : Nat → Nat) (docs : List PDoc) (target : Array IdTok) (crs : List Nat) (r : Results C)
    (h : matchModel N crc wordOf isDigitRune decode induced diffOf cntT docs target crs = .ok r) :
    r.ms.Pairwise (fun a b => N.gt b.conf a.conf = false) :=
  match_sorted' N laws crc wordOf isDigitRune decode induced diffOf cntT docs target crs r h

theorem match_total_lines {C : Type} (N : NumEnv C)
    (crc : Text → Nat) (wordOf : Nat → Text) (isDigitRune : Nat → Bool) (decode : Text → List Nat)
    (induced : List (Text × List Text)) (diffOf : KDoc → Nat → Nat → Option (List (LC.Score.Diff Nat)))
    (cntT : Nat → Nat) (docs : List PDoc) (target : Array IdTok) (crs : List Nat) (r : Results C)
    (h : matchModel N crc wordOf isDigitRune decode induced diffOf cntT docs target crs = .ok r) :
    (r.ms = [] ∧ r.totalInputLines = 0) ∨ r.totalInputLines = ((target.back?).map (·.line)).getD 0 :=
  match_total_lines' N crc wordOf isDigitRune decode induced diffOf cntT docs target crs r h

/-- C10: with well-formed prepared documents the pipeline never panics, whatever the input
tokens, the threshold-dependent numbers and the scripts the diff library returns. -/
theorem match_no_panic {C : Type} (N : NumEnv C)
    (crc : Text → Nat) (wordOf : Nat → Text) (isDigitRune : Nat → Bool) (decode : Text → List Nat)
    (induced : List (Text × List Text)) (diffOf : KDoc → Nat → Nat → Option (List (LC.Score.Diff Nat)))
    (cntT : Nat → Nat) (docs : List PDoc) (hwf : ∀ p ∈ docs, p.WF) (target : Array IdTok) (crs : List Nat)
    (w : String) :
    matchModel N crc wordOf isDigitRune decode induced diffOf cntT docs target crs ≠ .panic w :=
  match_no_panic' N crc wordOf isDigitRune decode induced diffOf cntT docs hwf target crs w

/-- the specification-level preparation produces well-formed documents -/
theorem prepare_wf (crc : Text → Nat) (wordOf : Nat → Text) (q : Nat) (d : KDoc) :
    (prepare crc wordOf q d).WF :=
  prepare_wf' crc wordOf q d

/-- `match_sorted` is about the model's comparator; the comparator of the source as it is now
(field order and operators read off the AST of `Matches.Less` on every run) compares Confidence
first, exactly (`!=` then `>`): any other shape — a tolerance, a rounded comparison — is not
recognised by the extractor and leaves this list without its first entry. -/
theorem matchLess_confidence_first :
    LC.Gen.V2.matchLessFields.head? = some ("Confidence", ">") := by decide

end LC.V2Match
