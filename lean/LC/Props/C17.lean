/-
C17: v1 token offsets always delimit real text.

For EVERY byte string (valid UTF-8 or not) and every pair of rune predicates,
the tokens produced by the model of `Tokenize` carry offsets that reproduce
their text from the input, are non-empty, lie inside the input, and come in
increasing non-overlapping order; every byte outside all tokens belongs to a
rune classified as space; and a token range inside the token bounds converts
to a byte range start ≤ end inside the string.

Second part (`LC.V1Search`): the stages FindPotentialMatches runs after
`targetMatchedRanges` and `sort.Sort` — untangle / split / mergeConsecutive /
coalesce, modelled in LC/Model/V1Search.lean and compared with the real functions
on every run (stage `v1post`) — keep, for EVERY list that is ordered by
TargetStart and whose ranges are non-empty and inside the target's token
bounds, every candidate non-empty, ordered by target position and inside the
token bounds (`post_inv`); hence every candidate converts to a byte range
start ≤ end inside the target string (`candidate_byte_range`).  That the list
`targetMatchedRanges` + `sort.Sort` hand over satisfies the two hypotheses is
monitored by the harness on every recorded list, not proved
(`targetMatchedRanges` is not modelled).
Property theorems only; helper lemmas live in LC/Proofs/V1Tok.lean, LC/Proofs/V1Search.lean.
-/
import LC.Model.V1Tok
import LC.Model.V1Search
import LC.Proofs.V1Tok
import LC.Proofs.V1Search

namespace LC.V1Tok
open LC.Utf8

/-- A punctuation token's text is the rune's encoding (`string(r)` in Go); it equals the input
bytes whenever the rune was decoded from a valid sequence. An invalid byte decodes to U+FFFD,
which the Go tables do not classify as punctuation (checked on the regenerated table below). -/
def ValidPunct (C : Classes) : Prop := C.isPunct runeError = false

theorem tokenize_faithful (C : Classes) (hv : ValidPunct C) (s : List UInt8) :
    Faithful s (tokenize C s) :=
  tokenize_faithful' C hv s

/-- UTF-8 round trip used above: re-encoding a rune decoded from a valid sequence gives the
bytes it was decoded from. -/
theorem encode_decode (p : List UInt8) (h : decodeRune p ≠ (runeError, 1)) (hne : p ≠ []) :
    encodeRune (decodeRune p).1 = p.take (decodeRune p).2 :=
  encode_decode' p h hne

/-- every byte not covered by a token starts (or continues) a rune classified as space -/
theorem uncovered_is_space (C : Classes) (s : List UInt8) (i : Nat) (hi : i < s.length)
    (hcov : ∀ t ∈ tokenize C s, ¬ (t.offset ≤ i ∧ i < t.offset + t.text.length)) :
    ∃ j ≤ i, i < j + max 1 (decodeRune (s.drop j)).2 ∧ C.isSpace (decodeRune (s.drop j)).1 = true :=
  uncovered_is_space' C s i hi hcov

/-- token range → byte range: inside the string, start ≤ end -/
theorem targetRange_ok (C : Classes) (s : List UInt8) (ts te : Nat)
    (hv : ValidPunct C) (h : ts < te ∧ te ≤ (tokenize C s).length) :
    ∃ a b, targetRange (tokenize C s) ts te = some (a, b) ∧ a ≤ b ∧ b ≤ s.length :=
  targetRange_ok' C s ts te hv h

example : tokenize { isSpace := fun r => r = 32, isPunct := fun r => r = 46 } [97, 0xFF, 98, 32, 99, 46] =
    [⟨[97, 0xFF, 98], 0⟩, ⟨[99], 4⟩, ⟨[46], 5⟩] := by decide

end LC.V1Tok

namespace LC.V1Search

/-- the fuel of `untangleGo` (the loop index of `untangleSourceRanges`) suffices: any larger
fuel gives the same result -/
theorem untangle_fuel (fuel : Nat) (last : MR) (l : List MR) (h : l.length ≤ fuel) :
    untangleGo fuel last l = untangleGo l.length last l :=
  untangle_fuel' fuel last l h

/-- Every candidate FindPotentialMatches builds from a list ordered by TargetStart whose ranges
are non-empty and within the token bounds is non-empty, ordered by target position and within
the token bounds. -/
theorem post_inv (n : Int) (l : List MR) (hs : SortedTS l) (hb : ∀ r ∈ l, InBounds n r) :
    ∀ g ∈ post l, g ≠ [] ∧ SortedTS g ∧ ∀ r ∈ g, InBounds n r :=
  post_inv' n l hs hb

/-- a non-empty list yields at least one candidate -/
theorem post_ne (l : List MR) (h : l ≠ []) : post l ≠ [] :=
  post_ne' l h

/-- Every candidate converts to a byte range start ≤ end inside the target string
(`MatchRanges.TargetRange`: offset of the first range's first token to the end of the last
range's last token). -/
theorem candidate_byte_range (C : LC.V1Tok.Classes) (hv : LC.V1Tok.ValidPunct C) (s : List UInt8)
    (l : List MR) (hs : SortedTS l) (hb : ∀ r ∈ l, InBounds (LC.V1Tok.tokenize C s).length r)
    (g : List MR) (hg : g ∈ post l) :
    ∃ f z a b, g.head? = some f ∧ g.getLast? = some z ∧
      LC.V1Tok.targetRange (LC.V1Tok.tokenize C s) f.ts.toNat z.te.toNat = some (a, b) ∧
      a ≤ b ∧ b ≤ s.length :=
  candidate_byte_range' C hv s l hs hb g hg

example : post [⟨0, 3, 0, 3⟩, ⟨1, 4, 1, 4⟩, ⟨2, 5, 2, 5⟩, ⟨0, 3, 10, 13⟩] =
    [[⟨0, 5, 0, 5⟩], [⟨0, 3, 10, 13⟩]] := by decide

end LC.V1Search
