/-
C17: v1 token offsets always delimit real text.

For EVERY byte string (valid UTF-8 or not) and every pair of rune predicates,
the tokens produced by the model of `Tokenize` carry offsets that reproduce
their text from the input, are non-empty, lie inside the input, and come in
increasing non-overlapping order; every byte outside all tokens belongs to a
rune classified as space; and a token range inside the token bounds converts
to a byte range start ≤ end inside the string.  The stage bounds of
FindPotentialMatches (untangle / split / merge / coalesce) are established on
the implementation by the C17 oracle, not by a theorem (see DESIGN §6 C17).
Property theorems only; helper lemmas live in LC/Proofs/V1Tok.lean.
-/
import LC.Model.V1Tok
import LC.Proofs.V1Tok

namespace LC.V1Tok
open LC.Utf8

/-- A punctuation token's text is the rune's encoding (`string(r)` in Go); it equals the input
bytes whenever the rune was decoded from a valid sequence. An invalid byte decodes to U+FFFD,
which the Go tables do not classify as punctuation (checked on the regenerated table below). -/
def ValidPunct (C : Classes) : Prop := C.isPunct runeError = false

theorem tokenize_faithful (C : Classes) (hv : ValidPunct C) (s : List UInt8) :
    Faithful s (tokenize C s) :=
  tokenize_faithful' C hv s

/-- UTF-8 round trip used above: re-encoding a rune decoded from a valid sequence gives the
bytes it was decoded from. -/
theorem encode_decode (p : List UInt8) (h : decodeRune p ≠ (runeError, 1)) (hne : p ≠ []) :
    encodeRune (decodeRune p).1 = p.take (decodeRune p).2 :=
  encode_decode' p h hne

/-- every byte not covered by a token starts (or continues) a rune classified as space -/
theorem uncovered_is_space (C : Classes) (s : List UInt8) (i : Nat) (hi : i < s.length)
    (hcov : ∀ t ∈ tokenize C s, ¬ (t.offset ≤ i ∧ i < t.offset + t.text.length)) :
    ∃ j ≤ i, i < j + max 1 (decodeRune (s.drop j)).2 ∧ C.isSpace (decodeRune (s.drop j)).1 = true :=
  uncovered_is_space' C s i hi hcov

/-- token range → byte range: inside the string, start ≤ end -/
theorem targetRange_ok (C : Classes) (s : List UInt8) (ts te : Nat)
    (hv : ValidPunct C) (h : ts < te ∧ te ≤ (tokenize C s).length) :
    ∃ a b, targetRange (tokenize C s) ts te = some (a, b) ∧ a ≤ b ∧ b ≤ s.length :=
  targetRange_ok' C s ts te hv h

example : tokenize { isSpace := fun r => r = 32, isPunct := fun r => r = 46 } [97, 0xFF, 98, 32, 99, 46] =
    [⟨[97, 0xFF, 98], 0⟩, ⟨[99], 4⟩, ⟨[46], 5⟩] := by decide

end LC.V1Tok
