/-
C05: presentation changes do not change what is detected — the tokenizer part.

The theorems hold for EVERY environment `E` (Unicode tables, entity decoder,
regular expressions arbitrary); the facts about the concrete Go tables that the
corollaries need are discharged at the end on the regenerated tables.
`Match` is a function of the token words, token lines and copyright lines
(the `match` correspondence ties that to the code), so equal token streams give
equal results, and `match_line_monotone` (LC/Props/C07) lifts "same tokens,
monotonically relabelled lines" to "same matches, relabelled lines".
Exempt, as in the property: inputs where a hyphen is followed by a line break.
Property theorems only; helper lemmas live in LC/Proofs/Tok.lean.
-/
import LC.Spec.TokSpec
import LC.Model.V2Env
import LC.Proofs.Tok

namespace LC.V2Tok
open LC.Utf8

/-- Runes with the same scan signature are interchangeable, anywhere. -/
theorem step_congr (E : Env) (n : Bool) (s : State) (r r' : Rune) (h : sig E n r = sig E n r') :
    step E n s r = step E n s r' :=
  step_congr' E n s r r' h

theorem tokenize_congr (E : Env) (n : Bool) (rs rs' : List Rune)
    (h : rs.map (sig E n) = rs'.map (sig E n)) : tokenizeRunes E n rs = tokenizeRunes E n rs' :=
  tokenize_congr' E n rs rs' h

/-- A rune that cannot start a word does nothing while no word is in progress
(indentation, decoration such as `//`, `#`, `*`, `;`, `--`, `>`, `|`, `%`, extra blanks). -/
theorem skip_inert (E : Env) (n : Bool) (s : State) (r : Rune)
    (h0 : s.obuf = []) (hr : r ≠ nl) (hs : E.starter r = false) : step E n s r = s :=
  skip_inert' E n s r h0 hr hs

/-- Inserting any such runes at a point where no word is in progress changes nothing. -/
theorem insert_inert (E : Env) (n : Bool) (xs ins ys : List Rune)
    (h0 : (scanRunes E n xs).obuf = []) (hins : ∀ r ∈ ins, r ≠ nl ∧ E.starter r = false) :
    tokenizeRunes E n (xs ++ ins ++ ys) = tokenizeRunes E n (xs ++ ys) :=
  insert_inert' E n xs ins ys h0 hins

/-- No word is in progress at the start of a line, unless the previous line ended in a hyphen. -/
theorem obuf_empty_after_nl (E : Env) (n : Bool) (s : State)
    (h : s.obuf.getLast? ≠ some hyphen) : (step E n s nl).obuf = [] :=
  obuf_empty_after_nl' E n s h

/-- …and none after a blank that follows a word (trailing blanks, wider gaps). -/
theorem obuf_empty_after_space (E : Env) (n : Bool) (wf : EnvWF E) (s : State) (r : Rune)
    (hsp : E.isSpace r = true) (hr : r ≠ nl) (hd : s.deferredEOL = false) :
    (step E n s r).obuf = [] :=
  obuf_empty_after_space' E n wf s r hsp hr hd

/-- CRLF line endings: a carriage return (or any other blank) directly before the newline is
invisible when no hyphenation is pending. -/
theorem crlf_equiv (E : Env) (n : Bool) (wf : EnvWF E) (s : State) (r : Rune)
    (hsp : E.isSpace r = true) (hr : r ≠ nl)
    (hd : s.deferredEOL = false) (hw : s.deferredLines = 0) (hh : s.obuf.getLast? ≠ some hyphen) :
    step E n (step E n s r) nl = step E n s nl :=
  crlf_equiv' E n wf s r hsp hr hd hw hh

/-- The clean-state lemma: from a state with nothing pending, the rest of the input is tokenized
exactly as if it stood alone, with its line numbers shifted. -/
theorem tokenize_from_clean (E : Env) (n : Bool) (s : State) (hc : Clean s) (hl : 1 ≤ s.line)
    (ys : List Rune) :
    finish E n (scanFrom E n s ys) = appendDoc s.doc (shiftDoc (s.line - 1) (tokenizeRunes E n ys)) :=
  tokenize_from_clean' E n s hc hl ys

/-- Blank lines: inserting a newline where nothing is pending only shifts the later line numbers
by one (normalizing mode, the mode `Match` uses). -/
theorem blank_line_shift (E : Env) (xs ys : List Rune) (hc : Clean (scanRunes E true xs))
    (hl : 1 ≤ (scanRunes E true xs).line) :
    tokenizeRunes E true (xs ++ [nl] ++ ys) =
      appendDoc (scanRunes E true xs).doc
        (shiftDoc ((scanRunes E true xs).line) (tokenizeRunes E true ys)) ∧
    tokenizeRunes E true (xs ++ ys) =
      appendDoc (scanRunes E true xs).doc
        (shiftDoc ((scanRunes E true xs).line - 1) (tokenizeRunes E true ys)) :=
  blank_line_shift' E xs ys hc hl

/-! ### The Go tables (regenerated) have the facts the corollaries use -/

open LC.V2Env in
/-- ASCII re-casing: an upper-case ASCII letter has the scan signature of its lower-case form
(normalizing mode) in the concrete Go environment, whatever the entity decoder. -/
theorem ascii_case_sig (u : Word → Word) (c : Nat) (h : 65 ≤ c ∧ c ≤ 90) :
    sig (goEnv u) true c = sig (goEnv u) true (c + 32) :=
  ascii_case_sig' u c h

open LC.V2Env in
/-- The Unicode hyphen/dash forms listed in the property all continue a word exactly like the
ASCII hyphen (and none of them starts one). -/
theorem dash_sig (u : Word → Word) (c : Nat) (h : c = 0x2010 ∨ c = 0x2012 ∨ c = 0x2013 ∨ c = 0x2014) :
    sig (goEnv u) true c = sig (goEnv u) true 45 :=
  dash_sig' u c h

open LC.V2Env in
/-- Horizontal white space: tab, carriage return, form feed, vertical tab, NBSP… have the
signature of the ASCII space. -/
theorem blank_sig (u : Word → Word) (c : Nat) (h : c = 9 ∨ c = 13 ∨ c = 12 ∨ c = 11 ∨ c = 0xA0) :
    sig (goEnv u) true c = sig (goEnv u) true 32 :=
  blank_sig' u c h

open LC.V2Env in
/-- The decoration characters of the property cannot start a word. -/
theorem decoration_not_starter (u : Word → Word) (c : Nat)
    (h : c ∈ [47, 35, 42, 59, 45, 62, 124, 37, 32, 9, 13]) : (goEnv u).starter c = false :=
  decoration_not_starter' u c h

open LC.V2Env in
/-- `EnvWF` holds for the Go tables: checked on every code point range of the regenerated tables. -/
theorem goEnv_wf (u : Word → Word) : EnvWF (goEnv u) := goEnv_wf' u

end LC.V2Tok
