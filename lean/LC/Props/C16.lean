/-
C16: v1 License classifier — the threshold clause and the exact-text clause.

`licMultiple` is the filter chain of License.MultipleMatch: nothing it returns
is below the classifier's threshold, header matches appear only on request and
with the `.header` suffix removed, duplicates are dropped.  The corpus-specific
first sentence of the property (every shipped license is identified under the
listed presentation variants) is a finite statement about 178 files; it is
established by running the real classifier on all of them (thorough tier) and
is labelled as enumeration, not proof.
-/
import LC.Model.V1Glue
import LC.Proofs.V1Glue

namespace LC.V1Glue

theorem multiple_within_threshold (within : Nat → Bool) (forbiddenOK : String → Bool) (ih : Bool) (ms : List M) :
    ∀ m ∈ licMultiple within forbiddenOK ih ms, within m.conf = true :=
  multiple_within_threshold' within forbiddenOK ih ms

theorem multiple_from_input (within : Nat → Bool) (forbiddenOK : String → Bool) (ih : Bool) (ms : List M) :
    ∀ m ∈ licMultiple within forbiddenOK ih ms,
      ∃ v ∈ ms, m = { v with name := trimHeader v.name } ∧ (ih = false → ¬ v.name.endsWith ".header") :=
  multiple_from_input' within forbiddenOK ih ms

theorem multiple_nodup (within : Nat → Bool) (forbiddenOK : String → Bool) (ih : Bool) (ms : List M) :
    (licMultiple within forbiddenOK ih ms).Nodup :=
  multiple_nodup' within forbiddenOK ih ms

end LC.V1Glue
