/-
C13, the overlap filter of MultipleMatch (`Matches.uniquify`): what it keeps.

`uniquify_sublist`: the result is a sub-list of its input (nothing invented, order kept).
`uniquify_keeps`: a match that begins inside the range of NO match ranked before it is kept — in
particular the confidence-1.0 match of a verbatim copy that no better-or-equally ranked match
overlaps.  `uniquify_starts_apart`: no kept match begins inside the range of one kept before it.
`uniquify_adjacent`: a match that begins exactly where an earlier one ends is not inside it (the
inclusive bound of the original code dropped it: fix b637c7a).
Property theorems only.
-/
import LC.Model.V1Uniq

namespace LC.V1Glue

theorem uniquifyGo_sublist (matched : List (Nat × Nat)) (ms : List M) :
    (uniquifyGo matched ms).Sublist ms := by
  induction ms generalizing matched with
  | nil => simp [uniquifyGo]
  | cons m ms ih =>
    unfold uniquifyGo
    split
    · exact (ih matched).cons m
    · exact (ih _).cons_cons m

/-- nothing is invented and the order is kept -/
theorem uniquify_sublist (ms : List M) : (uniquify ms).Sublist ms := uniquifyGo_sublist [] ms

/-- the recorded ranges are ranges of matches that stand before the current position -/
theorem uniquifyGo_keeps (matched : List (Nat × Nat)) (pre post : List M) (m : M)
    (hm : ∀ r ∈ matched, beginsInside m r = false)
    (hp : ∀ k ∈ pre, beginsInside m (k.offset, k.extent) = false) :
    m ∈ uniquifyGo matched (pre ++ m :: post) := by
  induction pre generalizing matched with
  | nil =>
    simp only [List.nil_append]
    unfold uniquifyGo
    have : matched.any (beginsInside m) = false := by
      simp only [List.any_eq_false]
      intro r hr; simp [hm r hr]
    simp [this]
  | cons k pre ih =>
    simp only [List.cons_append]
    unfold uniquifyGo
    split
    · exact ih matched hm (fun x hx => hp x (List.mem_cons_of_mem _ hx))
    · apply List.mem_cons_of_mem
      apply ih
      · intro r hr
        rcases List.mem_append.mp hr with h | h
        · exact hm r h
        · simp only [List.mem_singleton] at h
          subst h; exact hp k (List.mem_cons_self ..)
      · exact fun x hx => hp x (List.mem_cons_of_mem _ hx)

/-- A match that begins inside the range of no match ranked before it is kept. -/
theorem uniquify_keeps (pre post : List M) (m : M)
    (hp : ∀ k ∈ pre, beginsInside m (k.offset, k.extent) = false) :
    m ∈ uniquify (pre ++ m :: post) :=
  uniquifyGo_keeps [] pre post m (by simp) hp

theorem uniquifyGo_starts_apart (matched : List (Nat × Nat)) (ms : List M) :
    (∀ x ∈ uniquifyGo matched ms, ∀ r ∈ matched, beginsInside x r = false) ∧
    (uniquifyGo matched ms).Pairwise (fun a b => beginsInside b (a.offset, a.extent) = false) := by
  induction ms generalizing matched with
  | nil => simp [uniquifyGo]
  | cons m ms ih =>
    unfold uniquifyGo
    split
    · exact ih matched
    · rename_i hany
      have hany' : ∀ r ∈ matched, beginsInside m r = false := by
        intro r hr
        cases hb : beginsInside m r with
        | false => rfl
        | true => exact absurd (List.any_eq_true.mpr ⟨r, hr, hb⟩) hany
      have ⟨h1, h2⟩ := ih (matched ++ [(m.offset, m.extent)])
      refine ⟨?_, ?_⟩
      · intro x hx r hr
        rcases List.mem_cons.mp hx with h | h
        · subst h; exact hany' r hr
        · exact h1 x h r (List.mem_append_left _ hr)
      · refine List.pairwise_cons.mpr ⟨?_, h2⟩
        intro x hx
        exact h1 x hx _ (List.mem_append_right _ (List.mem_singleton.mpr rfl))

/-- No kept match begins inside the range of a match kept before it. -/
theorem uniquify_starts_apart (ms : List M) :
    (uniquify ms).Pairwise (fun a b => beginsInside b (a.offset, a.extent) = false) :=
  (uniquifyGo_starts_apart [] ms).2

/-- the range of a match is half-open: what begins where it ends is outside -/
theorem uniquify_adjacent (m : M) (o e : Nat) (h : m.offset = o + e) : beginsInside m (o, e) = false := by
  simp [beginsInside, h]

/-- "x foo,bar y" with the values `foo` and `,bar`: both copies are kept; the copy inside a longer
match ranked first is dropped -/
example : uniquify [⟨"a", 100, 2, 3⟩, ⟨"b", 100, 5, 4⟩] = [⟨"a", 100, 2, 3⟩, ⟨"b", 100, 5, 4⟩] := by decide
example : uniquify [⟨"long", 100, 0, 20⟩, ⟨"in", 90, 5, 4⟩, ⟨"after", 80, 20, 4⟩] =
    [⟨"long", 100, 0, 20⟩, ⟨"after", 80, 20, 4⟩] := by decide

end LC.V1Glue
