/-
C06: notices, list markers, hyphenation and spelling variants are ignored — the
tokenizer part, for EVERY environment unless a theorem names the Go tables.

What is NOT true of the code, and therefore not claimed (known_findings.json):
a marker of the form `a)` is not dropped (`letter_paren_not_header`); after a
hyphen-joined word the rest of the line is processed as a new line
(C06/line-restart-after-hyphen-join); a Copyright pseudo-match inside the line
span of a retained license is filtered out by `match` (`notice_inside_span_dropped`).
Property theorems only; helper lemmas live in LC/Proofs/Tok06.lean.
-/
import LC.Spec.TokSpec
import LC.Model.V2Env
import LC.Model.V2Match
import LC.Proofs.Tok06

namespace LC.V2Tok
open LC.Utf8

/-- the words a line leaves in the line buffer when scanned from a clean state -/
def lineBufOf (E : Env) (t : State) : List Word :=
  t.linebuf ++ (if t.obuf ≠ [] then [flushWord E t.obuf] else [])

/-- A notice line: a whole line whose words read as a copyright notice or date adds exactly one
Copyright pseudo-match on its line, adds no token, and moves on to the next line with nothing
pending (so everything after it is tokenized as before, one line lower — `tokenize_from_clean`). -/
theorem notice_line (E : Env) (s : State) (hc : Clean s) (n : List Rune) (hn : nl ∉ n)
    (hd : (scanFrom E true s n).deferredEOL = false)
    (hh : (scanFrom E true s n).obuf.getLast? ≠ some hyphen)
    (hne : lineBufOf E (scanFrom E true s n) ≠ [])
    (hi : E.ignorable (joinLine (lineBufOf E (scanFrom E true s n))) = true) :
    scanFrom E true s (n ++ [nl]) =
      { obuf := [], linebuf := [], line := s.line + 1, deferredEOL := false, deferredWord := false,
        doc := { s.doc with copyrights := s.doc.copyrights ++ [s.line] } } :=
  notice_line' E s hc n hn hd hh hne hi

/-- A first-of-line word that is a list marker / section number leaves no token. -/
theorem marker_dropped (E : Env) (w : Word) (n : Bool) (h : header E w = true) :
    cleanupToken E 0 w n = [] :=
  marker_dropped' E w n h

/-- what counts as a marker -/
theorem header_iff (E : Env) (w : Word) :
    header E w = true ↔
      ∃ p e, w = p ++ [e] ∧ (e = 46 ∨ e = 58 ∨ e = 41) ∧
        ((E.listMarker (p.map E.toLower) = true ∧ e ≠ 41) ∨ p.all (fun r => E.isDigit r || r = 46) = true) :=
  header_iff' E w

open LC.V2Env in
/-- `1.`, `iv.`, `a.`, `3.1.`, `b:` are markers for the Go tables; `a)` is not (finding). -/
theorem marker_examples (u : Word → Word) :
    header (goEnv u) (lit "1.") = true ∧ header (goEnv u) (lit "iv.") = true ∧
    header (goEnv u) (lit "a.") = true ∧ header (goEnv u) (lit "3.1.") = true ∧
    header (goEnv u) (lit "b:") = true ∧ header (goEnv u) (lit "12)") = true ∧
    header (goEnv u) (lit "a)") = false :=
  marker_examples' u

/-- Hyphenation: a word split by hyphen + newline (+ indentation) is accumulated as the same word. -/
theorem hyphen_join_word (E : Env) (wf : EnvWF E) (s : State) (x sp : List Rune) (c : Rune)
    (hx : (scanFrom E true s x).obuf ≠ []) (hxd : (scanFrom E true s x).deferredEOL = false)
    (hsp : ∀ r ∈ sp, E.isSpace r = true ∧ r ≠ nl) (hc : E.isSpace c = false) (hcn : c ≠ nl) :
    (scanFrom E true s (x ++ [hyphen, nl] ++ sp ++ [c])).obuf = (scanFrom E true s (x ++ [c])).obuf :=
  hyphen_join_word' E wf s x sp c hx hxd hsp hc hcn

/-- Spelling variants: a listed spelling and its replacement leave the same token. -/
theorem interchangeable_same_token (E : Env) (pos : Nat) (a b : Word)
    (ha : a ≠ [] ∧ a.all E.isLetter = true) (hb : b ≠ [] ∧ b.all E.isLetter = true)
    (hab : E.interchangeable a = some b) (hbb : E.interchangeable b = none) :
    cleanupToken E pos a true = cleanupToken E pos b true :=
  interchangeable_same_token' E pos a b ha hb hab hbb

/-- the regenerated table has the spellings the property lists, and no replacement is itself replaced -/
theorem spelling_table :
    (LC.V2Env.interchangeable (LC.V2Env.lit "licence") = some (LC.V2Env.lit "license")) ∧
    (LC.V2Env.interchangeable (LC.V2Env.lit "whilst") = some (LC.V2Env.lit "while")) ∧
    (LC.V2Env.interchangeable (LC.V2Env.lit "organisation") = some (LC.V2Env.lit "organization")) ∧
    (LC.V2Env.interchangeable (LC.V2Env.lit "https") = some (LC.V2Env.lit "http")) ∧
    (∀ kv ∈ LC.Gen.V2.interchangeableWords, LC.V2Env.interchangeable kv.2 = none ∨ kv.2 = kv.1) := by
  decide

/-- http/https: the scheme rewrite maps both spellings of a URL to the same word, and it is
idempotent (what C11 needs of it). -/
theorem https_http (r : List Rune) :
    replaceHttps (LC.V2Env.lit "https://" ++ r) = replaceHttps (LC.V2Env.lit "http://" ++ r) :=
  https_http' r

theorem replaceHttps_idem (w : List Rune) : replaceHttps (replaceHttps w) = replaceHttps w :=
  replaceHttps_idem' w

open LC.V2Match in
/-- The last sentence of the property fails at the `Match` level (recorded finding): a Copyright
pseudo-match whose line lies inside the span of a retained license is dropped by the retain pass. -/
theorem notice_inside_span_dropped :
    let N : NumEnv Nat := { q := 4, simGE := fun _ _ => true, scaleFloor := id, errMargin := id,
      conf := fun _ _ => 100, confZero := 0, confOne := 100, geThr := fun _ => true,
      gt := fun a b => decide (a > b), wgt := fun ta a tb b => decide (ta * a > tb * b) }
    retainPass N (sortBy (matchLess N)
      [{ name := "Copyright", conf := 100, matchType := "Copyright", variant := "", startLine := 5, endLine := 5, startTok := 0, endTok := 0 },
       { name := "MIT", conf := 100, matchType := "License", variant := "a.txt", startLine := 1, endLine := 10, startTok := 0, endTok := 160 }])
      = [true, false] := by decide

end LC.V2Tok
